import BtcVerif.Model.Messages
import Mathlib.Tactic.IntervalCases

namespace BtcVerif
open Model.Wire Spec.Wire

theorem serRead_append (a rest : Bytes) (h : a.length ≤ MAX_SIZE) :
    serRead a.length (a ++ rest) = .ok (a, rest) := by
  unfold serRead
  have h1 : ¬ a.length > MAX_SIZE := by omega
  simp [h1]

theorem serRead_append' (n : Nat) (a rest : Bytes) (hn : a.length = n) (h : n ≤ MAX_SIZE) :
    serRead n (a ++ rest) = .ok (a, rest) := by
  subst hn; exact serRead_append a rest h

theorem readU_append (w n : Nat) (rest : Bytes) (hw : w ≤ MAX_SIZE) (hn : n < 256 ^ w) :
    readU w (leBytes w n ++ rest) = .ok (n, rest) := by
  unfold readU
  rw [serRead_append' w (leBytes w n) rest (leBytes_length w n) hw]
  simp [leNat_leBytes, Nat.mod_eq_of_lt hn]

theorem leBytesInt_length (w : Nat) (i : Int) : (leBytesInt w i).length = w := by
  simp [leBytesInt]

theorem leInt_leBytesInt4 (i : Int) (h1 : -(2 ^ 31 : Int) ≤ i) (h2 : i < 2 ^ 31) :
    leInt (leBytesInt 4 i) = i := by
  unfold leInt leBytesInt
  simp only [leBytes_length, leNat_leBytes]
  have hp : (256 ^ 4 : Nat) = 4294967296 := by norm_num
  rw [hp]
  omega

theorem leInt_leBytesInt8 (i : Int) (h1 : -(2 ^ 63 : Int) ≤ i) (h2 : i < 2 ^ 63) :
    leInt (leBytesInt 8 i) = i := by
  unfold leInt leBytesInt
  simp only [leBytes_length, leNat_leBytes]
  have hp : (256 ^ 8 : Nat) = 18446744073709551616 := by norm_num
  rw [hp]
  omega

theorem readI4_append (i : Int) (rest : Bytes) (h1 : -(2 ^ 31 : Int) ≤ i) (h2 : i < 2 ^ 31) :
    readI 4 (leBytesInt 4 i ++ rest) = .ok (i, rest) := by
  unfold readI
  rw [serRead_append' 4 _ rest (leBytesInt_length 4 i) (by decide)]
  simp [leInt_leBytesInt4 i h1 h2]

theorem readI8_append (i : Int) (rest : Bytes) (h1 : -(2 ^ 63 : Int) ≤ i) (h2 : i < 2 ^ 63) :
    readI 8 (leBytesInt 8 i ++ rest) = .ok (i, rest) := by
  unfold readI
  rw [serRead_append' 8 _ rest (leBytesInt_length 8 i) (by decide)]
  simp [leInt_leBytesInt8 i h1 h2]

theorem deVarInt_append (n : Nat) (rest : Bytes) (h : n < 2 ^ 64) :
    deVarInt (compactSize n ++ rest) = .ok (n, rest) := by
  unfold deVarInt compactSize
  split
  · rename_i h1
    rw [serRead_append' 1 [UInt8.ofNat n] rest rfl (by decide)]
    have : (UInt8.ofNat n).toNat = n := by simp [UInt8.toNat_ofNat']; omega
    simp [leNat, this, h1]
  · split
    · rename_i h1 h2
      show (do let (b, r) ← serRead 1 ([0xfd] ++ (leBytes 2 n ++ rest)); _) = _
      rw [serRead_append' 1 [0xfd] _ rfl (by decide)]
      simp [leNat]
      exact readU_append 2 n rest (by decide) (by norm_num; omega)
    · split
      · rename_i h1 h2 h3
        show (do let (b, r) ← serRead 1 ([0xfe] ++ (leBytes 4 n ++ rest)); _) = _
        rw [serRead_append' 1 [0xfe] _ rfl (by decide)]
        simp [leNat]
        exact readU_append 4 n rest (by decide) (by norm_num; omega)
      · rename_i h1 h2 h3
        show (do let (b, r) ← serRead 1 ([0xff] ++ (leBytes 8 n ++ rest)); _) = _
        rw [serRead_append' 1 [0xff] _ rfl (by decide)]
        simp [leNat]
        exact readU_append 8 n rest (by decide) (by norm_num; omega)

end BtcVerif
