import BtcVerif.Model.ScriptEval
open BtcVerif BtcVerif.Spec BtcVerif.Spec.Script BtcVerif.Model.Script

namespace BtcVerif.Model.ScriptEval

@[simp] theorem getTop?_1 {α} (a : α) (l : List α) : getTop? (a :: l) 1 = some a := by simp [getTop?]
@[simp] theorem getTop?_2 {α} (a b : α) (l : List α) : getTop? (a :: b :: l) 2 = some b := by simp [getTop?]

def ElemsLe (B : Nat) (l : List Bytes) : Prop := ∀ x ∈ l, x.length ≤ B

def Lim (B : Nat) (s a : List Bytes) (n : Nat) : Prop :=
  s.length + a.length ≤ 1003 ∧ n ≤ 221 ∧ ElemsLe B s ∧ ElemsLe B a

def Pre (B : Nat) (st : St) : Prop :=
  st.stack.length + st.alt.length ≤ 1000 ∧ st.nOpCount ≤ 201 ∧ ElemsLe B st.stack ∧ ElemsLe B st.alt

def Good (c : Ctx) (B : Nat) : M St → Prop
  | .ok st' => Lim B st'.stack st'.alt st'.nOpCount ∧ st'.nOpCount ≤ 201
  | .error (.eval cap) => Lim B cap.stack cap.altstack cap.nOpCount
  | .error (.invalid cap) => Lim B cap.stack cap.altstack cap.nOpCount
  | .error .verify => False
  | .error (.py _) => c.inIdx < 0

abbrev Named (sop : Nat) : Prop := (opcodeName? sop).isSome = true

theorem good_raise {c B} {st : St} (h : Pre B st) : Good c B (raise st) := by
  obtain ⟨h1, h2, h3, h4⟩ := h
  simp only [raise, Good, St.cap, Lim]; exact ⟨by omega, by omega, h3, h4⟩

theorem good_raiseNamed {c B} {st : St} {sop : Nat} (hn : Named sop) (h : Pre B st) : Good c B (raiseNamed sop st) := by
  unfold Named at hn
  unfold raiseNamed
  cases hh : opcodeName? sop with
  | none => simp [hh] at hn
  | some _ => exact good_raise h

theorem op2Dup_good {c B} {st : St} (h : Pre B st) : Good c B (op2Dup 0x6e st) := by
  unfold op2Dup checkArgs
  by_cases hl : st.stack.length < 2
  · simp only [hl, if_true, bind, Except.bind]; exact good_raiseNamed (sop := 0x6e) (by decide) h
  · obtain ⟨h1, h2, h3, h4⟩ := h
    match hs : st.stack with
    | [] => simp [hs] at hl
    | [_] => simp [hs] at hl
    | a :: b :: rest =>
      simp [hs, pyIdx, bind, Except.bind, Good, Lim, ElemsLe] at *
      refine ⟨⟨?_, ?_, ?_, ?_⟩, ?_⟩
      all_goals (first | omega | (simp only [List.length_cons, List.length_nil]; omega) | simp_all)

end BtcVerif.Model.ScriptEval
