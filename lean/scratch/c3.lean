import BtcVerif.Model.Sighash
import BtcVerif.Spec.Sighash

namespace BtcVerif
open Model.Wire Spec.Wire

theorem packU_ok {w n : Nat} (h : n < 256 ^ w) : packU w n = .ok (leBytes w n) := by
  simp [packU, h]

theorem packI_ok {w : Nat} {i : Int} (h1 : -(2 ^ (8 * w - 1) : Int) ≤ i) (h2 : i < (2 ^ (8 * w - 1) : Int)) :
    packI w i = .ok (leBytesInt w i) := by
  simp [packI, h1, h2]

theorem serVarInt_ok {n : Nat} (h : n < 2 ^ 64) : serVarInt n = .ok (compactSize n) := by
  unfold serVarInt compactSize
  split
  · rfl
  · split
    · rw [packU_ok (by omega)]; rfl
    · split
      · rw [packU_ok (by omega)]; rfl
      · rw [packU_ok (by omega)]; rfl

theorem serBytes_ok {b : Bytes} (h : b.length < 2 ^ 64) : serBytes b = .ok (varBytes b) := by
  simp [serBytes, serVarInt_ok h, varBytes, bind, Except.bind, pure, Except.pure]

theorem serOutPoint_ok {o : OutPoint} (h : WFOutPoint o) : serOutPoint o = .ok (outPoint o) := by
  obtain ⟨h1, h2⟩ := h
  simp [serOutPoint, h1, packU_ok (show o.n < 256 ^ 4 by omega), outPoint, bind, Except.bind, pure, Except.pure]

theorem mapM_ok {α β} (f : α → Res β) (g : α → β) (l : List α) (h : ∀ x ∈ l, f x = .ok (g x)) :
    l.mapM f = .ok (l.map g) := by
  induction l with
  | nil => rfl
  | cons a t ih =>
    rw [List.mapM_cons, h a (by simp), ih (fun x hx => h x (by simp [hx]))]
    rfl

theorem serTxOut_ok {o : TxOut} (h1 : -(2 ^ 63 : Int) ≤ o.nValue) (h2 : o.nValue < 2 ^ 63)
    (h3 : o.scriptPubKey.length < 2 ^ 64) : serTxOut o = .ok (txOut o) := by
  simp [serTxOut, packI_ok (w := 8) (by simpa using h1) (by simpa using h2), serBytes_ok h3, txOut,
    bind, Except.bind, pure, Except.pure]

open Spec.Sighash Model.Sighash

theorem ht_none_iff (ht : Nat) : ((ht : Int) % 32 = 2) ↔ isNone ht = true := by
  unfold isNone SIGHASH_NONE; rw [decide_eq_true_iff]; omega
theorem ht_single_iff (ht : Nat) : ((ht : Int) % 32 = 3) ↔ isSingle ht = true := by
  unfold isSingle SIGHASH_SINGLE; rw [decide_eq_true_iff]; omega
theorem ht_acp_iff (ht : Nat) : ((ht : Int) / 128 % 2 ≠ 0) ↔ isAnyoneCanPay ht = true := by
  unfold isAnyoneCanPay; rw [decide_eq_true_iff]; omega

theorem bip143_eq (sc : Bytes) (tx : Tx) (i : Nat) (inp : TxIn) (ht : Nat) (amount : Int)
    (hwf : FieldsWF tx) (hi : tx.vin[i]? = some inp) (hsc : sc.length < 2 ^ 64)
    (ha1 : -(2 ^ 63 : Int) ≤ amount) (ha2 : amount < 2 ^ 63) (hht : ht < 2 ^ 31) :
    signatureHashWitnessV0 sc tx i (ht : Int) (some amount)
      = .ok (Crypto.hash256 (bip143Preimage sc tx i inp ht amount)) := by
  obtain ⟨hv1, hv2, _, _, hin, hout, hlock⟩ := hwf
  have hmem : inp ∈ tx.vin := List.mem_of_getElem? hi
  have hprev : tx.vin.mapM (fun i => serOutPoint i.prevout) = .ok (tx.vin.map (fun i => outPoint i.prevout)) :=
    mapM_ok _ _ _ (fun x hx => serOutPoint_ok (hin x hx).1)
  have hseq : tx.vin.mapM (fun i => packU 4 i.nSequence) = .ok (tx.vin.map (fun i => leBytes 4 i.nSequence)) :=
    mapM_ok _ _ _ (fun x hx => packU_ok (by have := (hin x hx).2; omega))
  have houts : tx.vout.mapM serTxOut = .ok (tx.vout.map txOut) :=
    mapM_ok _ _ _ (fun x hx => serTxOut_ok (hout x hx).1 (hout x hx).2.1 (hout x hx).2.2)
  have hver : packI 4 tx.nVersion = .ok (leBytesInt 4 tx.nVersion) :=
    packI_ok (by simpa using hv1) (by simpa using hv2)
  have hop := serOutPoint_ok (hin inp hmem).1
  have hsq : packU 4 inp.nSequence = .ok (leBytes 4 inp.nSequence) :=
    packU_ok (by have := (hin inp hmem).2; omega)
  have hlk : packU 4 tx.nLockTime = .ok (leBytes 4 tx.nLockTime) := packU_ok (by omega)
  have ham : packI 8 amount = .ok (leBytesInt 8 amount) := packI_ok (by simpa using ha1) (by simpa using ha2)
  have hh : packI 4 (ht : Int) = .ok (leBytes 4 ht) := by
    rw [packI_ok (by omega) (by omega)]
    simp only [leBytesInt]
    have h256 : ((256 ^ 4 : Nat) : Int) = 4294967296 := by simp
    have : ((ht : Int) % ((256 ^ 4 : Nat) : Int)).toNat = ht := by rw [h256]; omega
    rw [this]
  have hget : pyGetNat tx.vin i = .ok inp := by simp [pyGetNat, hi]
  simp only [signatureHashWitnessV0, bip143Preimage, hashPrevouts, hashSequence, hashOutputs,
    hprev, hseq, houts, hver, hop, hsq, hlk, ham, hh, hget, hi, serBytes_ok hsc]
  have hz : Model.Sighash.zero32 = Spec.Sighash.zero32 := rfl
  generalize Crypto.hash256 = H
  have h2 : isNone ht = false := sorry
  have h3 : isSingle ht = true := sorry
  have ha : isAnyoneCanPay ht = true := sorry
  have hvo : tx.vout[i]? = none := sorry
  have hlt : ¬ i < tx.vout.length := by
      have := List.getElem?_eq_none_iff.mp hvo; omega
  simp [(ht_none_iff ht), (ht_single_iff ht), (ht_acp_iff ht), h2, h3, ha, hlt, hop, hsq, hz,
        bind, Except.bind, pure, Except.pure]
end BtcVerif
