import BtcVerif.Proofs.Messages

namespace BtcVerif
open Model.Wire Spec.Wire Model.Msg Spec.Msg

theorem cmd_props (m : Msg) : (command m).length ≤ 12 ∧ ∀ b ∈ command m, b ≠ 0 := by
  cases m <;> (simp only [command]; decide)

theorem msgDeser_table :
    msgDeser cmdVersion = some deVersion ∧
    msgDeser cmdVerack = some (fun s => pure (.verack, s)) ∧
    msgDeser cmdAddr = some (mapP Msg.addr (deVector (deAddr false))) ∧
    msgDeser cmdAlert = some deAlert ∧
    msgDeser cmdInv = some (mapP Msg.inv (deVector deInv)) ∧
    msgDeser cmdGetdata = some (mapP Msg.getdata (deVector deInv)) ∧
    msgDeser cmdNotfound = some (mapP Msg.notfound (deVector deInv)) ∧
    msgDeser cmdGetblocks = some (deLocatorMsg Msg.getblocks) ∧
    msgDeser cmdGetheaders = some (deLocatorMsg Msg.getheaders) ∧
    msgDeser cmdHeaders = some (mapP Msg.headers (deVector deHeaderEntry)) ∧
    msgDeser cmdTx = some (mapP Msg.tx deTx) ∧
    msgDeser cmdBlock = some (mapP Msg.block deBlock) ∧
    msgDeser cmdGetaddr = some (fun s => pure (.getaddr, s)) ∧
    msgDeser cmdPing = some (mapP Msg.ping (readU 8)) ∧
    msgDeser cmdPong = some (mapP Msg.pong (readU 8)) ∧
    msgDeser cmdReject = some deReject ∧
    msgDeser cmdMempool = some (fun s => pure (.mempool, s)) := by
  refine ⟨rfl, rfl, rfl, rfl, rfl, rfl, rfl, rfl, rfl, rfl, rfl, rfl, rfl, rfl, rfl, rfl, rfl⟩

/-! per-type -/

theorem beNat_beBytes2 (n : Nat) (h : n < 2 ^ 16) : beNat (beBytes 2 n) = n := by
  simp [beBytes, leBytes, beNat, UInt8.toNat_ofNat']
  omega

theorem deAddr_append (wt : Bool) (a : NetAddr) (rest : Bytes)
    (h : if wt then WFAddrNoTime a else WFAddr a) :
    deAddr wt (netAddr (!wt) a ++ rest) = .ok (a, rest) := by
  have hp : (PROTO_VERSION ≥ CADDR_TIME_VERSION) = True := by decide
  cases wt
  · simp only [Bool.false_eq_true, if_false] at h
    obtain ⟨h1, h2, h3, h4, h5⟩ := h
    unfold deAddr netAddr
    simp only [hp, Bool.not_false, Bool.and_true, decide_true, if_true, List.append_assoc]
    rw [readU_append 4 _ _ (by decide) (by norm_num; omega)]
    simp only [Res.ok_bind]
    rw [readU_append 8 _ _ (by decide) (by norm_num; omega)]
    simp only [Res.ok_bind]
    rw [serRead_append' 16 _ _ h4 (by decide)]
    simp only [Res.ok_bind]
    rw [serRead_append' 2 (beBytes 2 a.port) rest (by simp [beBytes]) (by decide)]
    simp only [Res.ok_bind, Res.pure_eq, beNat_beBytes2 _ h5]
    cases a; simp_all [PROTO_VERSION]
  · sorry
