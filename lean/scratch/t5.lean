import BtcVerif.Proofs.Messages

namespace BtcVerif
open Model.Wire Spec.Wire Model.Msg

/-- outcome of the dispatch on the command once header and checksum are accepted -/
def dispatch (command msg rest : Bytes) : Res (Option Msg) × Bytes :=
  match msgDeser command with
  | some p =>
      (match p msg with
       | .ok (m, _) => (.ok (some m), rest)
       | .error e => (.error e, rest))
  | none => (.ok none, rest)

/-- the declared payload length of a stream that holds at least a header -/
def declaredLen (s : Bytes) : Nat := leNat ((s.drop 16).take 4)

theorem streamDeserialize_short (magic s : Bytes) (h : s.length < 24) :
    streamDeserialize magic s = (.error .trunc, []) := by
  unfold streamDeserialize readPos
  have : ¬ 24 > MAX_SIZE := by decide
  simp [this, h]

/-- `stream_deserialize` on a stream holding at least the 24 header bytes, as a decision list -/
theorem streamDeserialize_unfold (magic s : Bytes) (h : 24 ≤ s.length) :
    streamDeserialize magic s =
      if s.take 4 ≠ magic then (.error .valueerr, s.drop 24)
      else if declaredLen s > MAX_SIZE then (.error .sererr, s.drop 24)
      else if s.length - 24 < declaredLen s then (.error .trunc, [])
      else if (s.drop 20).take 4 ≠ checksum ((s.drop 24).take (declaredLen s)) then
        (.error .valueerr, s.drop (24 + declaredLen s))
      else dispatch (((s.drop 4).take 12).takeWhile (· ≠ 0)) ((s.drop 24).take (declaredLen s))
        (s.drop (24 + declaredLen s)) := by
  unfold streamDeserialize
  have h0 : ¬ 24 > MAX_SIZE := by decide
  have h1 : ¬ s.length < 24 := by omega
  have hr : readPos 24 s = (.ok (s.take 24), s.drop 24) := by simp [readPos, h0, h1]
  rw [hr]
  have t1 : (s.take 24).take 4 = s.take 4 := by simp [List.take_take]
  have t2 : ((s.take 24).drop 4).take 12 = (s.drop 4).take 12 := by
    simp [List.drop_take, List.take_take]
  have t3 : ((s.take 24).drop 16).take 4 = (s.drop 16).take 4 := by
    simp [List.drop_take, List.take_take]
  have t4 : ((s.take 24).drop 20).take 4 = (s.drop 20).take 4 := by
    simp [List.drop_take, List.take_take]
  simp only [t1, t2, t3, t4]
  by_cases hm : s.take 4 ≠ magic
  · simp [hm]
  · simp only [hm, if_false]
    unfold declaredLen
    generalize leNat ((s.drop 16).take 4) = n
    unfold readPos
    by_cases hn : n > MAX_SIZE
    · simp [hn]
    · simp only [hn, if_false, List.length_drop]
      by_cases ht : s.length - 24 < n
      · simp [ht]
      · simp only [ht, if_false, List.drop_drop]
        by_cases hc : (s.drop 20).take 4 ≠ checksum ((s.drop 24).take n)
        · simp [hc]
        · simp only [hc, if_false]
          rfl

end BtcVerif
