import BtcVerif.Proofs.Sighash
namespace BtcVerif.SighashProofs
open BtcVerif Model.Wire Spec.Wire Spec.Sighash Model.Sighash
/-- the whole witness-v0 branch on an in-range transaction and an existing input -/
theorem bip143_eq (sc : Bytes) (tx : Tx) (i : Nat) (inp : TxIn) (ht : Nat) (amount : Int)
    (hwf : FieldsWF tx) (hi : tx.vin[i]? = some inp) (hsc : sc.length < 2 ^ 64)
    (ha1 : -(2 ^ 63 : Int) ≤ amount) (ha2 : amount < 2 ^ 63) (hht : ht < 2 ^ 31) :
    signatureHashWitnessV0 sc tx i (ht : Int) (some amount)
      = .ok (Crypto.hash256 (bip143Preimage sc tx i inp ht amount)) := by
  have hp := v0HashPrevouts_eq tx ht hwf
  have hs := v0HashSequence_eq tx ht hwf
  have ho := v0HashOutputs_eq tx i ht hwf
  obtain ⟨hv1, hv2, _, _, hin, hout, hlock⟩ := hwf
  have hmem : inp ∈ tx.vin := List.mem_of_getElem? hi
  have hver : packI 4 tx.nVersion = .ok (leBytesInt 4 tx.nVersion) :=
    packI_ok (by simpa using hv1) (by simpa using hv2)
  have hop := serOutPoint_ok (hin inp hmem).1
  have hsq : packU 4 inp.nSequence = .ok (leBytes 4 inp.nSequence) :=
    packU_ok (by have := (hin inp hmem).2; omega)
  have hlk : packU 4 tx.nLockTime = .ok (leBytes 4 tx.nLockTime) := packU_ok (by omega)
  have ham : packI 8 amount = .ok (leBytesInt 8 amount) := packI_ok (by simpa using ha1) (by simpa using ha2)
  have hh := packI_ht hht
  have hget : pyGetNat tx.vin i = .ok inp := by simp [pyGetNat, hi]
  sorry
end BtcVerif.SighashProofs
