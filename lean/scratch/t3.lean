import BtcVerif.Model.Messages
import Mathlib.Tactic.IntervalCases

namespace BtcVerif
open Model.Wire Spec.Wire

theorem serRead_append' (n : Nat) (a rest : Bytes) (hn : a.length = n) (h : n ≤ MAX_SIZE) :
    serRead n (a ++ rest) = .ok (a, rest) := by
  subst hn
  unfold serRead
  have h1 : ¬ a.length > MAX_SIZE := by omega
  simp [h1]

@[simp] theorem ok_bind {α β} (x : α) (f : α → Res β) : (Except.ok x >>= f) = f x := rfl
@[simp] theorem err_bind {α β} (e : Exc) (f : α → Res β) : ((Except.error e : Res α) >>= f) = .error e := rfl

example (n : Nat) (rest : Bytes) (h1 : n < 0xfd) :
    deVarInt ([UInt8.ofNat n] ++ rest) = .ok (n, rest) := by
  unfold deVarInt
  rw [serRead_append' 1 [UInt8.ofNat n] rest rfl (by decide)]
  have : (UInt8.ofNat n).toNat = n := by
    simp [UInt8.toNat_ofNat']; omega
  simp [leNat, this, h1]
  trace_state
  sorry
#check @Except.bind_ok
