import BtcVerif.Model.Sighash
import BtcVerif.Spec.Sighash
namespace BtcVerif
open Spec.Sighash Model.Sighash
theorem ht_none_iff (ht : Nat) : ((ht : Int) % 32 = 2) ↔ isNone ht = true := by
  simp [isNone, SIGHASH_NONE]
  trace_state
  omega
end BtcVerif
