import BtcVerif.Proofs.ScriptEquivArms
namespace BtcVerif.Model.ScriptEval
open BtcVerif BtcVerif.Spec BtcVerif.Spec.Script BtcVerif.Model.Script
variable (env : Env) (fl : Flags) (pc code : Bytes) (fExec : Bool) (st : St)
theorem arm_ifdup' : Sim code st.pbegin (opIfDup 0x73 st) (Ref.execOp env fl 0x73 pc fExec (toRef st code)) := by
  obtain ⟨s, al, vf, pb, n⟩ := st
  rcases s with _ | ⟨a, rest⟩ <;> simp only [opIfDup] <;> arm_eq
  trace_state
  sorry
end BtcVerif.Model.ScriptEval
