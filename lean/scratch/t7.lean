import BtcVerif.Proofs.Messages

namespace BtcVerif
open Model.Wire Spec.Wire Model.Msg Spec.Msg

theorem beNat_beBytes2 (n : Nat) (h : n < 2 ^ 16) : beNat (beBytes 2 n) = n := by
  simp [beBytes, leBytes, beNat, UInt8.toNat_ofNat']
  omega

theorem proto_ge : (PROTO_VERSION ≥ CADDR_TIME_VERSION) = True := by decide

theorem serAddr_ok (wt : Bool) (a : NetAddr) (h : WFAddr a) :
    serAddr wt a = .ok (netAddr (!wt) a) := by
  obtain ⟨h1, h2, h3, h4, h5⟩ := h
  have hp : (a.protover ≥ CADDR_TIME_VERSION) = True := by rw [h1]; decide
  unfold serAddr netAddr packBE2
  rw [packU_ok 8 _ (by norm_num; omega), if_pos (show a.port < 256 ^ 2 by norm_num; omega)]
  cases wt
  · simp [hp, packU_ok 4 _ (show a.nTime < 256 ^ 4 by norm_num; omega)]
  · simp

theorem deAddr_append (wt : Bool) (a : NetAddr) (rest : Bytes) (h : WFAddr a)
    (ht : wt = true → a.nTime = 0) :
    deAddr wt (netAddr (!wt) a ++ rest) = .ok (a, rest) := by
  obtain ⟨h1, h2, h3, h4, h5⟩ := h
  unfold deAddr netAddr
  cases wt
  · simp only [proto_ge, Bool.not_false, Bool.and_true, decide_true, if_true, List.append_assoc]
    rw [readU_append 4 _ _ (by decide) (by norm_num; omega)]
    simp only [Res.ok_bind]
    rw [readU_append 8 _ _ (by decide) (by norm_num; omega)]
    simp only [Res.ok_bind]
    rw [serRead_append' 16 _ _ h4 (by decide)]
    simp only [Res.ok_bind]
    rw [serRead_append' 2 (beBytes 2 a.port) rest (by simp [beBytes]) (by decide)]
    simp only [Res.ok_bind, Res.pure_eq, beNat_beBytes2 _ h5]
    cases a; simp_all [PROTO_VERSION]
  · have ht0 := ht rfl
    simp only [proto_ge, Bool.not_true, Bool.and_false, Bool.false_eq_true, if_false, List.nil_append,
      List.append_assoc, Res.pure_eq, Res.ok_bind]
    rw [readU_append 8 _ _ (by decide) (by norm_num; omega)]
    simp only [Res.ok_bind]
    rw [serRead_append' 16 _ _ h4 (by decide)]
    simp only [Res.ok_bind]
    rw [serRead_append' 2 (beBytes 2 a.port) rest (by simp [beBytes]) (by decide)]
    simp only [Res.ok_bind, Res.pure_eq, beNat_beBytes2 _ h5]
    cases a; simp_all [PROTO_VERSION]

theorem serInv_ok (i : Inv) (h : WFInv i) : serInv i = .ok (invEntry i) := by
  obtain ⟨h1, h2, _⟩ := h
  simp [serInv, invEntry, packI4_ok _ h1 h2]

theorem deInv_append (i : Inv) (rest : Bytes) (h : WFInv i) :
    deInv (invEntry i ++ rest) = .ok (i, rest) := by
  obtain ⟨h1, h2, h3⟩ := h
  unfold deInv invEntry
  rw [List.append_assoc, readI4_append _ _ h1 h2]
  simp only [Res.ok_bind]
  rw [serRead_append' 32 _ _ h3 (by decide)]
  rfl

theorem serUint256Vector_ok (hs : List Bytes) (hl : hs.length < 2 ^ 64) (h : ∀ x ∈ hs, x.length = 32) :
    serUint256Vector hs = .ok (vec id hs) := by
  unfold serUint256Vector vec
  rw [serVarInt_ok _ hl, mapM_ok _ id hs (fun x hx => by simp [h x hx])]
  rfl

theorem deUint256Vector_append (hs : List Bytes) (rest : Bytes) (hl : hs.length < 2 ^ 64)
    (h : ∀ x ∈ hs, x.length = 32) :
    deUint256Vector (vec id hs ++ rest) = .ok (hs, rest) := by
  unfold deUint256Vector vec
  rw [List.append_assoc, deVarInt_append _ _ hl]
  simp only [Res.ok_bind]
  exact deRepeat_append (serRead 32) id hs rest
    (fun x hx r => serRead_append' 32 x r (h x hx) (by decide))

theorem serLocatorMsg_ok (l : Locator) (stop : Bytes) (h : WFLocator l) :
    serLocatorMsg l stop = .ok (locatorPayload l stop) := by
  obtain ⟨h1, h2, h3, h4⟩ := h
  simp [serLocatorMsg, serLocator, locatorPayload, packI4_ok _ h1 h2, serUint256Vector_ok _ h3 h4]

theorem deLocatorMsg_append (mk : Locator → Bytes → Msg) (l : Locator) (stop rest : Bytes)
    (h : WFLocator l) (hs : stop.length = 32) :
    deLocatorMsg mk (locatorPayload l stop ++ rest) = .ok (mk l stop, rest) := by
  obtain ⟨h1, h2, h3, h4⟩ := h
  unfold deLocatorMsg deLocator locatorPayload
  simp only [List.append_assoc]
  rw [readI4_append _ _ h1 h2]
  simp only [Res.ok_bind]
  rw [deUint256Vector_append _ _ h3 h4]
  simp only [Res.ok_bind, Res.pure_eq]
  rw [serRead_append' 32 _ _ hs (by decide)]
  rfl

/-- DUP (C01): header serialiser = Spec bytes -/
theorem serHeader_ok (h : Header) (hw : WFHeader h) : serHeader h = .ok (Spec.Wire.header h) := by
  obtain ⟨h1, h2, h3, h4, h5, h6, h7⟩ := hw
  simp [serHeader, Spec.Wire.header, packI4_ok _ h1 h2, h3, h4,
    packU_ok 4 _ (show h.nTime < 256 ^ 4 by norm_num; omega),
    packU_ok 4 _ (show h.nBits < 256 ^ 4 by norm_num; omega),
    packU_ok 4 _ (show h.nNonce < 256 ^ 4 by norm_num; omega)]

/-- DUP (C01): header round trip -/
theorem deHeader_append (h : Header) (rest : Bytes) (hw : WFHeader h) :
    deHeader (Spec.Wire.header h ++ rest) = .ok (h, rest) := by
  obtain ⟨h1, h2, h3, h4, h5, h6, h7⟩ := hw
  unfold deHeader Spec.Wire.header
  simp only [List.append_assoc]
  rw [readI4_append _ _ h1 h2]
  simp only [Res.ok_bind]
  rw [serRead_append' 32 _ _ h3 (by decide)]
  simp only [Res.ok_bind]
  rw [serRead_append' 32 _ _ h4 (by decide)]
  simp only [Res.ok_bind]
  rw [readU_append 4 _ _ (by decide) (by norm_num; omega)]
  simp only [Res.ok_bind]
  rw [readU_append 4 _ _ (by decide) (by norm_num; omega)]
  simp only [Res.ok_bind]
  rw [readU_append 4 _ _ (by decide) (by norm_num; omega)]
  rfl

theorem serHeaderEntry_ok (h : Header) (hw : WFHeader h) : serHeaderEntry h = .ok (headerEntry h) := by
  simp [serHeaderEntry, headerEntry, serHeader_ok h hw, serVarInt_ok 0 (by decide)]

theorem deHeaderEntry_append (h : Header) (rest : Bytes) (hw : WFHeader h) :
    deHeaderEntry (headerEntry h ++ rest) = .ok (h, rest) := by
  unfold deHeaderEntry headerEntry
  rw [List.append_assoc, deHeader_append _ _ hw]
  simp only [Res.ok_bind]
  rw [deVarInt_append 0 rest (by decide)]
  rfl

end BtcVerif
