import BtcVerif.Proofs.Messages

namespace BtcVerif
open Model.Wire Spec.Wire Model.Msg Spec.Msg

theorem serVersion_ok (v : VersionMsg) (h : WFVersion v) : serVersion v = .ok (versionPayload v) := by
  obtain ⟨h1, h2, h3, h4, h5, ⟨h6, _⟩, ⟨fr, hfr, hfw, _⟩, ⟨n, hn, hn2⟩, ⟨s, hs, hs2⟩, ⟨ht, hh, hh1, hh2⟩, h11⟩ := h
  have := maxSize_lt
  unfold serVersion versionPayload
  rw [hfr, hn, hs, hh]
  have c1 : v.nVersion ≥ 106 := by omega
  have c2 : v.nVersion ≥ 209 := by omega
  have c3 : v.nVersion ≥ 70001 := by omega
  simp [c1, c2, c3, optBytes, packI4_ok _ (show -(2 ^ 31 : Int) ≤ v.nVersion by omega) h2,
    packU_ok 8 _ (show v.nServices < 256 ^ 8 by norm_num; omega), packI8_ok _ h4 h5,
    serAddr_ok true _ h6, serAddr_ok true _ hfw,
    packU_ok 8 _ (show n < 256 ^ 8 by norm_num; omega), serVarStr, serBytes_ok s (by omega),
    packI4_ok _ hh1 hh2, packU_ok 1 _ (show v.fRelay < 256 ^ 1 by norm_num; omega)]

theorem deVersion_append (v : VersionMsg) (rest : Bytes) (h : WFVersion v) :
    deVersion (versionPayload v ++ rest) = .ok (.version v, rest) := by
  obtain ⟨h1, h2, h3, h4, h5, ⟨h6, h6t⟩, ⟨fr, hfr, hfw, hft⟩, ⟨n, hn, hn2⟩, ⟨s, hs, hs2⟩, ⟨ht, hh, hh1, hh2⟩, h11⟩ := h
  have c0 : ¬ v.nVersion = 10300 := by omega
  have c1 : v.nVersion ≥ 106 := by omega
  have c2 : v.nVersion ≥ 209 := by omega
  have c3 : v.nVersion ≥ 70001 := by omega
  unfold deVersion versionPayload
  rw [hfr, hn, hs, hh]
  simp only [c1, c2, c3, if_true, optBytes, List.append_assoc]
  rw [readI4_append _ _ (by omega) h2]
  simp only [Res.ok_bind, c0, if_false, c1, c2, c3, if_true]
  rw [readU_append 8 _ _ (by decide) (by norm_num; omega)]
  simp only [Res.ok_bind]
  rw [readI8_append _ _ h4 h5]
  simp only [Res.ok_bind]
  rw [show netAddr false v.addrTo = netAddr (!true) v.addrTo from rfl, deAddr_append true _ _ h6 (fun _ => h6t)]
  simp only [Res.ok_bind]
  rw [show netAddr false fr = netAddr (!true) fr from rfl, deAddr_append true _ _ hfw (fun _ => hft)]
  simp only [Res.ok_bind]
  rw [readU_append 8 _ _ (by decide) (by norm_num; omega)]
  simp only [Res.ok_bind]
  rw [deBytes_append _ _ hs2]
  simp only [Res.ok_bind]
  rw [readI4_append _ _ hh1 hh2]
  simp only [Res.ok_bind, Res.pure_eq]
  rw [readU_append 1 _ _ (by decide) (by norm_num; omega)]
  simp only [Res.ok_bind, Res.pure_eq]
  cases v; simp_all

theorem deAlert_append (m s rest : Bytes) (hm : m.length ≤ maxSize) (hs : s.length ≤ maxSize) :
    deAlert (varBytes m ++ varBytes s ++ rest) = .ok (.alert m s, rest) := by
  unfold deAlert
  rw [List.append_assoc, deBytes_append _ _ hm]
  simp only [Res.ok_bind]
  rw [deBytes_append _ _ hs]
  rfl

theorem deReject_append (m c r rest : Bytes) (hm : m.length ≤ maxSize) (hc : c.length = 1)
    (hr : r.length ≤ maxSize) :
    deReject (varBytes m ++ c ++ varBytes r ++ rest) = .ok (.reject m c r, rest) := by
  unfold deReject
  simp only [List.append_assoc]
  rw [deBytes_append _ _ hm]
  simp only [Res.ok_bind]
  rw [serRead_append' 1 _ _ hc (by decide)]
  simp only [Res.ok_bind]
  rw [deBytes_append _ _ hr]
  rfl

theorem mapP_ok {α β} (f : α → β) (p : Parser α) (s : Bytes) (x : α) (r : Bytes)
    (h : p s = .ok (x, r)) : mapP f p s = .ok (f x, r) := by
  simp [mapP, h]

end BtcVerif
