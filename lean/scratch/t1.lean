import BtcVerif.Model.ScriptEval
open BtcVerif BtcVerif.Spec BtcVerif.Spec.Script BtcVerif.Model.Script BtcVerif.Model.ScriptEval

@[simp] theorem getTop?_1 {α} (a : α) (l : List α) : getTop? (a :: l) 1 = some a := by
  simp [getTop?]
@[simp] theorem getTop?_2 {α} (a b : α) (l : List α) : getTop? (a :: b :: l) 2 = some b := by
  simp [getTop?]
@[simp] theorem getTop?_6 {α} (a b c d e f : α) (l : List α) : getTop? (a :: b :: c :: d :: e :: f :: l) 6 = some f := by
  simp [getTop?]
@[simp] theorem delTop?_6 {α} (a b c d e f : α) (l : List α) : delTop? (a :: b :: c :: d :: e :: f :: l) 6 = some (a :: b :: c :: d :: e :: l) := by
  simp [delTop?, topPos?]

example : opcodeName? 0x6e = some "OP_2DUP" := by decide
example : opcodeName? 0x6e = some "OP_2DUP" := by rfl

example (c : Ctx) (fl : Flags) (script : Bytes) (st : St) (a b : Bytes) (rest : List Bytes) (idx : Nat)
    (hs : st.stack = a :: b :: rest) :
    execOp c fl script ⟨0x6e, none, idx⟩ true st = .ok { st with stack := a :: b :: a :: b :: rest } := by
  simp [execOp, binaryNumOps, unaryNumOps, checkArgs, hs, pyIdx, bind, Except.bind]
