import BtcVerif.Model.Messages
import Mathlib.Tactic.IntervalCases

namespace BtcVerif
open Model.Wire Spec.Wire

theorem serRead_append (a rest : Bytes) (h : a.length ≤ MAX_SIZE) :
    serRead a.length (a ++ rest) = .ok (a, rest) := by
  unfold serRead
  have h1 : ¬ a.length > MAX_SIZE := by omega
  have h2 : ¬ (a ++ rest).length < a.length := by simp
  simp [h1]

theorem serRead_append' (n : Nat) (a rest : Bytes) (hn : a.length = n) (h : n ≤ MAX_SIZE) :
    serRead n (a ++ rest) = .ok (a, rest) := by
  subst hn; exact serRead_append a rest h

theorem readU_append (w n : Nat) (rest : Bytes) (hw : w ≤ MAX_SIZE) (hn : n < 256 ^ w) :
    readU w (leBytes w n ++ rest) = .ok (n, rest) := by
  unfold readU
  rw [serRead_append' w (leBytes w n) rest (leBytes_length w n) hw]
  simp [leNat_leBytes, Nat.mod_eq_of_lt hn]

end BtcVerif
