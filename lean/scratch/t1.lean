import BtcVerif.Model.Sighash
import BtcVerif.Spec.Sighash

namespace BtcVerif
open Model.Wire Spec.Wire

theorem packU_ok {w n : Nat} (h : n < 256 ^ w) : packU w n = .ok (leBytes w n) := by
  simp [packU, h]

theorem packI_ok {w : Nat} {i : Int} (h1 : -(2 ^ (8 * w - 1) : Int) ≤ i) (h2 : i < (2 ^ (8 * w - 1) : Int)) :
    packI w i = .ok (leBytesInt w i) := by
  simp [packI, h1, h2]

theorem serVarInt_ok {n : Nat} (h : n < 2 ^ 64) : serVarInt n = .ok (compactSize n) := by
  unfold serVarInt compactSize
  split
  · rfl
  · split
    · rw [packU_ok (by omega)]; rfl
    · split
      · rw [packU_ok (by omega)]; rfl
      · rw [packU_ok (by omega)]; rfl

theorem serBytes_ok {b : Bytes} (h : b.length < 2 ^ 64) : serBytes b = .ok (varBytes b) := by
  simp [serBytes, serVarInt_ok h, varBytes, bind, Except.bind, pure, Except.pure]

theorem serOutPoint_ok {o : OutPoint} (h : WFOutPoint o) : serOutPoint o = .ok (outPoint o) := by
  obtain ⟨h1, h2⟩ := h
  simp [serOutPoint, h1, packU_ok (show o.n < 256 ^ 4 by omega), outPoint, bind, Except.bind, pure, Except.pure]

theorem mapM_ok {α β} (f : α → Res β) (g : α → β) (l : List α) (h : ∀ x ∈ l, f x = .ok (g x)) :
    l.mapM f = .ok (l.map g) := by
  induction l with
  | nil => rfl
  | cons a t ih =>
    rw [List.mapM_cons, h a (by simp), ih (fun x hx => h x (by simp [hx]))]
    rfl
end BtcVerif
