import BtcVerif.Proofs.Sighash
namespace BtcVerif.SighashProofs
open BtcVerif Model.Wire Spec.Wire Spec.Sighash Model.Sighash
theorem t1 (v : Int) (hv1 : -(2 ^ 31 : Int) ≤ v) (hv2 : v < 2 ^ 31) : packI 4 v = .ok (leBytesInt 4 v) :=
    packI_ok (by simpa using hv1) (by simpa using hv2)
theorem t2 (amount : Int)  (ha1 : -(2 ^ 63 : Int) ≤ amount) (ha2 : amount < 2 ^ 63) : packI 8 amount = .ok (leBytesInt 8 amount) := packI_ok (by simpa using ha1) (by simpa using ha2)
end BtcVerif.SighashProofs
