import BtcVerif.Proofs.Messages

namespace BtcVerif
open Model.Wire Spec.Wire Model.Msg

theorem checksum_eq (p : Bytes) : Model.Msg.checksum p = Spec.Msg.checksum p := rfl

theorem readPos_append (n : Nat) (a rest : Bytes) (hn : a.length = n) (h : n ≤ MAX_SIZE) :
    readPos n (a ++ rest) = (.ok a, rest) := by
  subst hn
  unfold readPos
  have h1 : ¬ a.length > MAX_SIZE := by omega
  simp [h1]

theorem takeWhile_commandField (c : Bytes) (hz : ∀ b ∈ c, b ≠ 0) (k : Nat) :
    (c ++ List.replicate k (0 : UInt8)).takeWhile (· ≠ 0) = c := by
  induction c with
  | nil => cases k <;> simp [List.replicate]
  | cons b c ih =>
    have hb : b ≠ 0 := hz b (by simp)
    have ih' := ih (fun x hx => hz x (by simp [hx]))
    rw [List.cons_append, List.takeWhile_cons, decide_eq_true hb]
    simp only [if_true]
    rw [ih']

theorem commandField_length (c : Bytes) (h : c.length ≤ 12) : (Spec.Msg.commandField c).length = 12 := by
  simp [Spec.Msg.commandField]; omega

/-- the 24 header bytes split back into their four fields -/
theorem header_fields (a b c d : Bytes) (ha : a.length = 4) (hb : b.length = 12) (hc : c.length = 4)
    (hd : d.length = 4) :
    (a ++ b ++ c ++ d).take 4 = a ∧ ((a ++ b ++ c ++ d).drop 4).take 12 = b ∧
    ((a ++ b ++ c ++ d).drop 16).take 4 = c ∧ ((a ++ b ++ c ++ d).drop 20).take 4 = d := by
  refine ⟨?_, ?_, ?_, ?_⟩
  · simp only [List.append_assoc]; exact List.take_left' ha
  · simp only [List.append_assoc]; rw [List.drop_left' ha]; exact List.take_left' hb
  · have : (a ++ b).length = 16 := by simp [ha, hb]
    rw [show a ++ b ++ c ++ d = (a ++ b) ++ (c ++ d) by simp, List.drop_left' this]
    exact List.take_left' hc
  · have : (a ++ b ++ c).length = 20 := by simp [ha, hb, hc]
    rw [List.drop_left' this]
    rw [← hd]; exact List.take_length

/-- what `stream_deserialize` does on a well-formed header followed by its payload -/
theorem streamDeserialize_frame (hck : Spec.Msg.ChecksumLen) (magic cmd payload rest : Bytes)
    (hm : magic.length = 4) (hc : cmd.length ≤ 12) (hz : ∀ b ∈ cmd, b ≠ 0)
    (hp : payload.length ≤ MAX_SIZE) :
    streamDeserialize magic (Spec.Msg.frame magic cmd payload ++ rest) =
      match msgDeser cmd with
      | some p => (match p payload with
                   | .ok (m, _) => (.ok (some m), rest)
                   | .error e => (.error e, rest))
      | none => (.ok none, rest) := by
  have hk : (Spec.Msg.checksum payload).length = 4 := hck payload
  have hcf := commandField_length cmd hc
  obtain ⟨f1, f2, f3, f4⟩ := header_fields magic (Spec.Msg.commandField cmd)
    (leBytes 4 payload.length) (Spec.Msg.checksum payload) hm hcf (leBytes_length _ _) hk
  have hlen : (magic ++ Spec.Msg.commandField cmd ++ leBytes 4 payload.length ++
      Spec.Msg.checksum payload).length = 24 := by
    simp [hm, hcf, hk]
  have hp32 : payload.length < 256 ^ 4 := by
    have : MAX_SIZE < 256 ^ 4 := by decide
    omega
  unfold streamDeserialize Spec.Msg.frame
  rw [show magic ++ Spec.Msg.commandField cmd ++ leBytes 4 payload.length ++ Spec.Msg.checksum payload ++
        payload ++ rest =
      (magic ++ Spec.Msg.commandField cmd ++ leBytes 4 payload.length ++ Spec.Msg.checksum payload) ++
        (payload ++ rest) by simp]
  rw [readPos_append 24 _ _ hlen (by decide)]
  simp only [f1, f2, f3, f4, ne_eq, not_true_eq_false, if_false, leNat_leBytes, Nat.mod_eq_of_lt hp32]
  rw [readPos_append payload.length payload rest rfl hp]
  simp only [checksum_eq, not_true_eq_false, if_false]
  rw [Spec.Msg.commandField, takeWhile_commandField cmd hz]
  rfl

end BtcVerif
