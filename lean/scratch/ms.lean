import BtcVerif.Proofs.ScriptEvalInv4
namespace BtcVerif.Model.ScriptEval
open BtcVerif BtcVerif.Spec BtcVerif.Spec.Script BtcVerif.Model.Script
variable {c : Ctx} {B : Nat} {st : St} {sop : Nat}

/-- the part of `_CheckMultiSig` after the matching loop: pops, NULLDUMMY check, result push -/
theorem msTail_good (fl : Flags) (success : Bool) (s al : List Bytes) (vf : List Bool) (pb n' m : Nat)
    (hm : m < s.length) (hl2 : Lim B s al n') (hn2 : n' ≤ 201) (hn : Named sop) (hB : 520 ≤ B) :
    Good c B (do
      let stack ← popN m s
      let st : St := ⟨stack, al, vf, pb, n'⟩
      nullDummyCheck fl sop st
      let (_, stack) ← pyIdx (pop? stack)
      let st : St := { st with stack := stack }
      if sop = 0xae then
        .ok { st with stack := (if success then [1] else []) :: stack }
      else .ok st) := by
  obtain ⟨nm, hnm⟩ := Option.isSome_iff_exists.mp hn
  rw [popN_eq m s (by omega)]
  obtain ⟨q1, q2, q3, q4⟩ := hl2
  cases hd : s.drop m with
  | nil =>
    have : (s.drop m).length = 0 := by rw [hd]; rfl
    simp only [List.length_drop] at this; omega
  | cons d rest =>
    have hlen : (d :: rest).length = s.length - m := by rw [← hd]; simp
    simp only [List.length_cons] at hlen
    have hsub : ∀ x ∈ d :: rest, x.length ≤ B := fun x hx => q3 x (List.mem_of_mem_drop (by rw [hd]; exact hx))
    have hrest : ∀ x ∈ rest, x.length ≤ B := fun x hx => hsub x (by simp [hx])
    simp only [bind, Except.bind, nullDummyCheck, getTop?_1, pyIdx, pop?_cons, List.length_cons]
    by_cases hnd : (rest.length + 1 ≠ 0 ∧ fl.nullDummy = true)
    · rw [if_pos hnd]
      by_cases hde : d ≠ []
      · simp only [hde, if_true, ne_eq, not_false_eq_true, raiseNamed, hnm, Good, St.cap, Lim, ElemsLe,
          List.length_cons]
        exact ⟨by omega, q2, hsub, q4⟩
      · simp only [hde, if_false]
        by_cases hae : sop = 0xae
        · simp only [hae, if_true, Good, Lim, ElemsLe, List.length_cons]
          refine ⟨⟨by omega, q2, ?_, q4⟩, hn2⟩
          intro x hx
          rcases List.mem_cons.mp hx with rfl | hx
          · cases success <;> simp <;> omega
          · exact hrest x hx
        · simp only [hae, if_false, Good, Lim, ElemsLe]
          exact ⟨⟨by omega, q2, hrest, q4⟩, hn2⟩
    · rw [if_neg hnd]
      by_cases hae : sop = 0xae
      · simp only [hae, if_true, Good, Lim, ElemsLe, List.length_cons]
        refine ⟨⟨by omega, q2, ?_, q4⟩, hn2⟩
        intro x hx
        rcases List.mem_cons.mp hx with rfl | hx
        · cases success <;> simp <;> omega
        · exact hrest x hx
      · simp only [hae, if_false, Good, Lim, ElemsLe]
        exact ⟨⟨by omega, q2, hrest, q4⟩, hn2⟩

end BtcVerif.Model.ScriptEval
