import BtcVerif.Proofs.ScriptNumCodec
#print axioms BtcVerif.Model.ScriptEval.bn2vch_eq
#print axioms BtcVerif.Model.ScriptEval.castToBigNum_eq
