import BtcVerif.Props.C18
open BtcVerif.C18
#print axioms chain_magic_length
#print axioms payload_eq_spec
#print axioms frame_eq_spec
#print axioms payload_roundtrip
#print axioms parse_frame
#print axioms reframe_identical
#print axioms parse_reframe
#print axioms fromBytes_frame
#print axioms parse_stream
#print axioms bad_magic_rejected
#print axioms bad_checksum_rejected
#print axioms accepted_frame_valid
#print axioms truncated_frame_trunc
#print axioms length_guard
#print axioms position_le_frame_end
