import BtcVerif.Proofs.ScriptEvalInv4
#print axioms BtcVerif.Model.ScriptEval.checkMultiSig_good
#print axioms BtcVerif.Model.ScriptEval.opCheckSig_good
