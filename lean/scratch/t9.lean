import BtcVerif.Proofs.Messages

namespace BtcVerif
open Model.Wire Spec.Wire Model.Msg Spec.Msg

/-! ### DUP (C01): transactions and blocks -/

theorem deRepeat_append_map {α} (p : Parser α) (enc : α → Bytes) (g : α → α) (xs : List α) (rest : Bytes)
    (h : ∀ x ∈ xs, ∀ r, p (enc x ++ r) = .ok (g x, r)) :
    deRepeat p xs.length ((xs.map enc).flatten ++ rest) = .ok (xs.map g, rest) := by
  induction xs with
  | nil => simp [deRepeat]
  | cons x xs ih =>
    simp only [List.length_cons, List.map_cons, List.flatten_cons, List.append_assoc, deRepeat]
    rw [h x (by simp)]
    simp only [Res.ok_bind]
    rw [ih (fun y hy => h y (by simp [hy]))]
    simp

theorem deVector_append_map {α} (p : Parser α) (enc : α → Bytes) (g : α → α) (xs : List α) (rest : Bytes)
    (hl : xs.length < 2 ^ 64) (h : ∀ x ∈ xs, ∀ r, p (enc x ++ r) = .ok (g x, r)) :
    deVector p (vec enc xs ++ rest) = .ok (xs.map g, rest) := by
  unfold deVector vec
  rw [List.append_assoc, deVarInt_append _ _ hl]
  simp only [Res.ok_bind]
  exact deRepeat_append_map p enc g xs rest h

theorem serTxIn_ok (i : TxIn) (h : WFTxIn i) : serTxIn i = .ok (txIn i) := by
  obtain ⟨⟨h1, h2⟩, h3, h4⟩ := h
  have := maxSize_lt
  simp [serTxIn, txIn, serOutPoint, outPoint, h1, packU_ok 4 _ (show i.prevout.n < 256 ^ 4 by norm_num; omega),
    serBytes_ok _ (show i.scriptSig.length < 2 ^ 64 by omega),
    packU_ok 4 _ (show i.nSequence < 256 ^ 4 by norm_num; omega)]

theorem deTxIn_append (i : TxIn) (rest : Bytes) (h : WFTxIn i) :
    deTxIn (txIn i ++ rest) = .ok (i, rest) := by
  obtain ⟨⟨h1, h2⟩, h3, h4⟩ := h
  unfold deTxIn deOutPoint txIn outPoint
  simp only [List.append_assoc]
  rw [serRead_append' 32 _ _ h1 (by decide)]
  simp only [Res.ok_bind]
  rw [readU_append 4 _ _ (by decide) (by norm_num; omega)]
  simp only [Res.ok_bind, Res.pure_eq]
  rw [deBytes_append _ _ h3]
  simp only [Res.ok_bind]
  rw [readU_append 4 _ _ (by decide) (by norm_num; omega)]
  rfl

theorem serTxOut_ok (o : TxOut) (h : WFTxOut o) : serTxOut o = .ok (txOut o) := by
  obtain ⟨h1, h2, h3⟩ := h
  have := maxSize_lt
  simp [serTxOut, txOut, packI8_ok _ h1 h2, serBytes_ok _ (show o.scriptPubKey.length < 2 ^ 64 by omega)]

theorem deTxOut_append (o : TxOut) (rest : Bytes) (h : WFTxOut o) :
    deTxOut (txOut o ++ rest) = .ok (o, rest) := by
  obtain ⟨h1, h2, h3⟩ := h
  unfold deTxOut txOut
  simp only [List.append_assoc]
  rw [readI8_append _ _ h1 h2]
  simp only [Res.ok_bind]
  rw [deBytes_append _ _ h3]
  rfl

theorem serWitStack_ok (s : WitStack) (h : WFWitStack s) : serWitStack s = .ok (witStack s) := by
  obtain ⟨h1, h2⟩ := h
  have := maxSize_lt
  exact serVector_ok serBytes varBytes s h1 (fun b hb => serBytes_ok b (by have := h2 b hb; omega))

theorem deWitStack_append (s : WitStack) (rest : Bytes) (h : WFWitStack s) :
    deWitStack (witStack s ++ rest) = .ok (s, rest) := by
  obtain ⟨h1, h2⟩ := h
  exact deVector_append deBytes varBytes s rest h1 (fun b hb r => deBytes_append b r (h2 b hb))

theorem readU1_cons (b : UInt8) (tl : Bytes) : readU 1 (b :: tl) = .ok (b.toNat, tl) := by
  have := serRead_append' 1 [b] tl rfl (by decide)
  simp only [List.singleton_append] at this
  simp [readU, this, leNat]

/-- a non-empty input vector starts with a non-zero count byte and has a second byte -/
theorem vec_txIn_head (vin : List TxIn) (rest : Bytes) (h1 : 1 ≤ vin.length) (h2 : vin.length < 2 ^ 64)
    (hw : ∀ i ∈ vin, WFTxIn i) :
    ∃ b0 b1 tl, vec txIn vin ++ rest = b0 :: b1 :: tl ∧ b0.toNat ≠ 0 := by
  unfold vec compactSize
  by_cases c1 : vin.length < 0xfd
  · rw [if_pos c1]
    cases vin with
    | nil => simp at h1
    | cons i is =>
      obtain ⟨⟨hh, _⟩, _, _⟩ := hw i (by simp)
      have : ∃ x xs, i.prevout.hash = x :: xs := by
        cases hq : i.prevout.hash with
        | nil => rw [hq] at hh; simp at hh
        | cons x xs => exact ⟨x, xs, rfl⟩
      obtain ⟨x, xs, hx⟩ := this
      refine ⟨UInt8.ofNat (i :: is).length, x, ?_, ?_, ?_⟩
      · exact xs ++ leBytes 4 i.prevout.n ++ varBytes i.scriptSig ++ leBytes 4 i.nSequence ++
          (is.map txIn).flatten ++ rest
      · simp [txIn, outPoint, hx]
      · simp only [UInt8.toNat_ofNat']
        simp at c1 ⊢
        omega
  · rw [if_neg c1]
    by_cases c2 : vin.length ≤ 0xffff
    · rw [if_pos c2]
      exact ⟨0xfd, UInt8.ofNat (vin.length % 256), leBytes 1 (vin.length / 256) ++ ((vin.map txIn).flatten ++ rest),
        by simp [leBytes], by decide⟩
    · rw [if_neg c2]
      by_cases c3 : vin.length ≤ 0xffffffff
      · rw [if_pos c3]
        exact ⟨0xfe, UInt8.ofNat (vin.length % 256), leBytes 3 (vin.length / 256) ++ ((vin.map txIn).flatten ++ rest),
          by simp [leBytes], by decide⟩
      · rw [if_neg c3]
        exact ⟨0xff, UInt8.ofNat (vin.length % 256), leBytes 7 (vin.length / 256) ++ ((vin.map txIn).flatten ++ rest),
          by simp [leBytes], by decide⟩

end BtcVerif
