import BtcVerif.Proofs.ScriptVerify
import BtcVerif.Spec.ScriptRef
namespace BtcVerif.C06Proofs
open BtcVerif BtcVerif.Spec BtcVerif.Spec.Script BtcVerif.Model.Script BtcVerif.Model.ScriptEval

def toRef (st : St) (code : Bytes) : Ref.State := ⟨st.stack, st.alt, st.vfExec, code, st.nOpCount⟩

def Sim (code : Bytes) (pb : Nat) (m : M St) (r : Option Ref.State) : Prop :=
  match m with
  | .ok st' => r = some (toRef st' code) ∧ st'.pbegin = pb
  | .error _ => r = none

def namedErr (sop : Nat) (st : St) : Err :=
  match opcodeName? sop with
  | none => .py "KeyError"
  | some _ => .eval st.cap

@[simp] theorem raiseNamed_eq {α} (sop : Nat) (st : St) :
    (raiseNamed sop st : M α) = .error (namedErr sop st) := by
  unfold raiseNamed namedErr; cases opcodeName? sop <;> rfl

@[simp] theorem sim_raise (code pb st r) : Sim code pb (raise st) r ↔ r = none := by
  simp [raise, Sim]

theorem arm_2dup (env : Env) (fl : Flags) (pc code : Bytes) (fExec : Bool) (st : St) :
    Sim code st.pbegin (op2Dup 0x6e st) (Ref.execOp env fl 0x6e pc fExec (toRef st code)) := by
  obtain ⟨s, al, vf, pb, n⟩ := st
  rcases s with _ | ⟨a, _ | ⟨b, rest⟩⟩ <;>
    simp [op2Dup, Ref.execOp, toRef, checkArgs, pyIdx, bind, Except.bind, Sim]
end BtcVerif.C06Proofs
