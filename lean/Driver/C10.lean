/-
  C10 line-protocol ops.  Text arguments travel as hex of their UTF-8 encoding (they may contain any
  character); encoder output is over the base58 alphabet and is printed as is.
-/
import Driver.Util
import BtcVerif.Crypto.Sha256
import BtcVerif.Model.Base58

namespace Driver.C10
open BtcVerif Driver

def parseText? (hexUtf8 : String) : Option (List Char) := do
  let bs ← parseHex? hexUtf8
  let s ← String.fromUTF8? (ByteArray.mk bs.toArray)
  pure s.toList

def H : Bytes → Bytes := Crypto.hash256

def renderBytes (r : Res Bytes) : String :=
  match r with
  | .ok b => "ok:" ++ toHex b
  | .error e => "err:" ++ e.family

def renderData (r : Res Model.Base58.B58Data) : String :=
  match r with
  | .ok d => "ok:" ++ toString d.nVersion.toNat ++ "," ++ toHex d.data
  | .error e => "err:" ++ e.family

def handle1 (op : String) (args : List String) : Option String :=
  match op, args with
  -- encode(b), then decode(encode(b))
  | "c10.encode", [b] => some <| match parseHex? b with
      | some b => let s := Model.Base58.encode b
                  String.ofList s ++ "|" ++ renderBytes (Model.Base58.decode s)
      | none => badArgs
  | "c10.spec.enc", [b] => some <| match parseHex? b with
      | some b => String.ofList (Spec.Base58.enc b)
      | none => badArgs
  -- decode(s), then encode(decode(s))
  | "c10.decode", [s] => some <| match parseText? s with
      | some s => (match Model.Base58.decode s with
                   | .ok b => "ok:" ++ toHex b ++ "|" ++ String.ofList (Model.Base58.encode b)
                   | .error e => "err:" ++ e.family)
      | none => badArgs
  | "c10.spec.dec", [s] => some <| match parseText? s with
      | some s => (match Spec.Base58.dec s with
                   | some b => "ok:" ++ toHex b
                   | none => "err:b58err")
      | none => badArgs
  -- CBase58Data(s)  ->  nVersion, data
  | "c10.check", [s] => some <| match parseText? s with
      | some s => renderData (Model.Base58.new H s)
      | none => badArgs
  -- the reference rule applied to the reference decoding
  | "c10.spec.check", [s] => some <| match parseText? s with
      | some s => (match Spec.Base58.dec s with
                   | none => "err:b58err"
                   | some k => match Spec.Base58.checkSplit? H k with
                       | some (v, p) => "ok:" ++ toString v.toNat ++ "," ++ toHex p
                       | none => "err:b58checksum")
      | none => badArgs
  -- CBase58Data.from_bytes(data, nVersion)  ->  nVersion, data
  | "c10.frombytes", [v, p] => some <| match parseInt? v, parseHex? p with
      | some v, some p => renderData (Model.Base58.fromBytes p v)
      | _, _ => badArgs
  -- str(CBase58Data.from_bytes(data, nVersion))
  | "c10.str", [v, p] => some <| match parseInt? v, parseHex? p with
      | some v, some p => (match Model.Base58.fromBytes p v with
                           | .ok d => "ok:" ++ String.ofList (Model.Base58.str H d)
                           | .error e => "err:" ++ e.family)
      | _, _ => badArgs
  -- CBase58Data(str(CBase58Data.from_bytes(data, nVersion)))  ->  nVersion, data
  | "c10.roundtrip", [v, p] => some <| match parseInt? v, parseHex? p with
      | some v, some p => (match Model.Base58.fromBytes p v with
                           | .ok d => renderData (Model.Base58.new H (Model.Base58.str H d))
                           | .error e => "err:" ++ e.family)
      | _, _ => badArgs
  | _, _ => none

/-- one step of a call history `k:arg[:arg]`; a leading `=` (the harness re-uses the identical Python
    object of an earlier step) means nothing to the stateless model -/
def stepOut (step : String) : String :=
  let step := if step.startsWith "=" then (step.drop 1).toString else step
  let r := match step.splitOn ":" with
    | ["e", b] => handle1 "c10.encode" [b]
    | ["d", t] => handle1 "c10.decode" [t]
    | ["c", t] => handle1 "c10.check" [t]
    | ["s", v, p] => handle1 "c10.str" [v, p]
    | ["f", v, p] => handle1 "c10.frombytes" [v, p]
    | _ => none
  r.getD badArgs

/-- observers of one CBase58Data instance, in the given order -/
def observe (d : Model.Base58.B58Data) (obs : String) : String :=
  let text := String.ofList (Model.Base58.str H d)
  joinWith "/" <| obs.toList.map fun o =>
    match o with
    | 's' => text
    | 'b' => toHex d.data                    -- bytes(d)
    | 't' => toHex d.data                    -- d.to_bytes()
    | 'v' => toString d.nVersion.toNat
    | 'r' => "CBase58Data('" ++ text ++ "')"
    | 'e' => "True"                          -- d == bytes(d)
    | 'h' => "True"                          -- hash(d) == hash(bytes(d))
    | _ => "?"

def handle (op : String) (args : List String) : Option String :=
  match op, args with
  -- a history of calls in one process: every call answers as if it were the first (no state)
  | "c10.seq", steps => some (joinWith " ; " (steps.map stepOut))
  -- one instance observed through several observers in the given order
  | "c10.obj", ["new", t, _, obs] => some <| match parseText? t with
      | some t => (match Model.Base58.new H t with
                   | .ok d => observe d obs
                   | .error e => "err:" ++ e.family)
      | none => badArgs
  | "c10.obj", ["fb", v, p, obs] => some <| match parseInt? v, parseHex? p with
      | some v, some p => (match Model.Base58.fromBytes p v with
                           | .ok d => observe d obs
                           | .error e => "err:" ++ e.family)
      | _, _ => badArgs
  | _, _ => handle1 op args

end Driver.C10
