import Driver.Util
import Driver.TxFmt
import BtcVerif.Model.Merkle
import BtcVerif.Spec.Merkle

namespace Driver.C15
open BtcVerif Driver Driver.TxFmt

def parseTxs? (s : String) : Option (List Tx) := (splitList s '/').mapM parseTx?

def renderBytes (r : Res Bytes) : String := Res.render (r.map toHex)
def renderNat (r : Res Nat) : String := Res.render (r.map toString)
def renderOpt (o : Option Bytes) : String :=
  match o with
  | some b => toHex b
  | none => "none"

def handle (op : String) (args : List String) : Option String :=
  match op, args with
  -- CBlock.build_merkle_tree_from_txids(hashes)[-1]
  | "c15.root", [hs] => some <| match parseHexList? hs with
      | some hs => renderBytes ((Model.Merkle.buildTreeFromTxids hs).bind Model.Merkle.lastOf)
      | none => badArgs
  -- the whole tree: node count and double-SHA256 of the concatenated nodes
  | "c15.tree", [hs] => some <| match parseHexList? hs with
      | some hs => Res.render ((Model.Merkle.buildTreeFromTxids hs).map
          (fun t => s!"{t.length}:{toHex (Crypto.hash256 t.flatten)}"))
      | none => badArgs
  | "c15.spec.root", [hs] => some <| match parseHexList? hs with
      | some hs => renderOpt (Spec.Merkle.root hs)
      | none => badArgs
  | "c15.merkle", [txs] => some <| match parseTxs? txs with
      | some txs => renderBytes (Model.Merkle.calcMerkleRoot txs)
      | none => badArgs
  | "c15.spec.merkle", [txs] => some <| match parseTxs? txs with
      | some txs => renderOpt (Spec.Merkle.merkleRoot txs)
      | none => badArgs
  | "c15.wmerkle", [txs] => some <| match parseTxs? txs with
      | some txs => renderBytes (Model.Merkle.calcWitnessMerkleRoot txs)
      | none => badArgs
  | "c15.spec.wmerkle", [txs] => some <| match parseTxs? txs with
      | some txs => renderOpt (Spec.Merkle.witnessRoot txs)
      | none => badArgs
  | "c15.txid", [tx] => some <| match parseTx? tx with
      | some t => renderBytes (Model.Merkle.getTxid t)
      | none => badArgs
  | "c15.wtxid", [tx] => some <| match parseTx? tx with
      | some t => renderBytes (Model.Merkle.getHash t)
      | none => badArgs
  -- CBlock(nVersion, prev, declared root, nTime, nBits, nNonce, vtx): resulting hashMerkleRoot
  | "c15.ctor", [blk] => some <| match parseBlock? blk with
      | some b => Res.render ((Model.Merkle.blockCtor b.hdr b.vtx).map
          (fun r => "ok:" ++ toHex r.hdr.hashMerkleRoot))
      | none => badArgs
  | "c15.spec.ctor", [blk] => some <| match parseBlock? blk with
      | some b => (match Spec.Merkle.ctorSpec b.hdr.hashMerkleRoot b.vtx with
          | some (.filled r) => "ok:" ++ toHex r
          | some .kept => "ok:" ++ toHex b.hdr.hashMerkleRoot
          | some .refused => "err:validation"
          | none => "ok:" ++ toHex b.hdr.hashMerkleRoot)
      | none => badArgs
  | "c15.weight", [tx] => some <| match parseTx? tx with
      | some t => renderNat (Model.Merkle.calcWeight t)
      | none => badArgs
  | "c15.spec.weight", [tx] => some <| match parseTx? tx with
      | some t => toString (Spec.Merkle.txWeight t)
      | none => badArgs
  | "c15.bweight", [blk] => some <| match parseBlock? blk with
      | some b => renderNat (Model.Merkle.getWeight b)
      | none => badArgs
  | "c15.spec.bweight", [blk] => some <| match parseBlock? blk with
      | some b => toString (Spec.Merkle.blockWeight b)
      | none => badArgs
  -- every size observable of a block at once:
  --   GetWeight ; len(serialize(include_witness=False)) ; len(serialize()) ; calc_weight of each tx
  | "c15.sizes", [blk] => some <| match parseBlock? blk with
      | some b =>
          let len (r : Res Bytes) : String := Res.render (r.map (fun x => toString x.length))
          ";".intercalate [renderNat (Model.Merkle.getWeight b), len (Model.Wire.serBlock b false),
            len (Model.Wire.serBlock b true),
            ",".intercalate (b.vtx.map (fun t => renderNat (Model.Merkle.calcWeight t)))]
      | none => badArgs
  | "c15.spec.sizes", [blk] => some <| match parseBlock? blk with
      | some b =>
          ";".intercalate [toString (Spec.Merkle.blockWeight b), toString (Spec.Merkle.blockStripped b).length,
            toString (Spec.Wire.block b).length,
            ",".intercalate (b.vtx.map (fun t => toString (Spec.Merkle.txWeight t)))]
      | none => badArgs
  -- a block built by the constructor from the CURRENT field values of its transactions, and what is
  -- then observed on it: root kept/filled ; calc_merkle_root ; calc_witness_merkle_root ; GetWeight ;
  -- calc_weight of each transaction
  | "c15.blockobs", [blk] => some <| match parseBlock? blk with
      | some b =>
          (match Model.Merkle.blockCtor b.hdr b.vtx with
           | .error e => "err:" ++ e.family
           | .ok nb =>
             ";".intercalate ["ok:" ++ toHex nb.hdr.hashMerkleRoot,
               renderBytes (Model.Merkle.calcMerkleRoot nb.vtx),
               renderBytes (Model.Merkle.calcWitnessMerkleRoot nb.vtx),
               renderNat (Model.Merkle.getWeight nb),
               ",".intercalate (nb.vtx.map (fun t => renderNat (Model.Merkle.calcWeight t)))])
      | none => badArgs
  -- `c15.blockobs` followed by what is observed on the transaction OBJECTS the block was built from
  -- (GetTxid ; GetHash ; calc_weight ; both serialize() lengths of each), all on the current field values
  | "c15.histobs", [blk] => some <| match parseBlock? blk with
      | some b =>
          let len (r : Res Bytes) : String := Res.render (r.map (fun x => toString x.length))
          let blockPart :=
            (match Model.Merkle.blockCtor b.hdr b.vtx with
             | .error e => "err:" ++ e.family
             | .ok nb =>
               ";".intercalate ["ok:" ++ toHex nb.hdr.hashMerkleRoot,
                 renderBytes (Model.Merkle.calcMerkleRoot nb.vtx),
                 renderBytes (Model.Merkle.calcWitnessMerkleRoot nb.vtx),
                 renderNat (Model.Merkle.getWeight nb),
                 ",".intercalate (nb.vtx.map (fun t => renderNat (Model.Merkle.calcWeight t)))])
          let txPart := "|".intercalate (b.vtx.map fun t =>
            ";".intercalate [renderBytes (Model.Merkle.getTxid t), renderBytes (Model.Merkle.getHash t),
              renderNat (Model.Merkle.calcWeight t), len (Model.Wire.serTx t false), len (Model.Wire.serTx t true)])
          blockPart ++ "@" ++ txPart
      | none => badArgs
  | _, _ => none

end Driver.C15
