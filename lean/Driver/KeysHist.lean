/-
  C13 / C14 — histories on live objects.  One request = one sequence of steps on named registers
  (public keys parsed from bytes, secret keys, signatures, addresses, the selected chain); the reply
  lists, step by step, what the reference says about the values that step is about.  The reference has
  no state shared between registers: each answer depends only on the values the step names.

  steps are separated by `|`, tokens by a blank; `-` is the empty string; a signature operand is a
  register name or `=hex`.  Signatures the library produced (randomised nonces) arrive as extra
  arguments, consumed in order by the `G` (sign) and `M` (SignMessage) steps.

    S chain              SelectParams
    K r secret comp      CBitcoinSecret.from_secret_bytes under the current chain      -> pub
    P r hex              CPubKey(bytes)                                                -> fullyvalid,compressed
    F r                  is_fullyvalid / is_compressed of an existing object           -> same
    B r                  key.pub                                                       -> pub
    G s r digest         s := r.sign(digest)                                           -> ok | bad:…
    V r digest s         r.verify(digest, s)   (r a pubkey register or a key: its .pub) -> 1 | 0
    T r                  str(key) decoded                                              -> version,payload
    R r2 r               r2 := CBitcoinSecret(str(r)) under the current chain          -> pub | err:b58err
    D a r                a := P2PKHBitcoinAddress.from_pubkey(r.pub), current chain    -> version,payload
    U a                  str(a) decoded                                                -> version,payload
    E a r kind           a := P2SH / P2WPKH address carrying Hash160(r.pub); its text is taken from the
                         library (next extra argument): the model only ever compares texts           -> ok
    M s r text           s := SignMessage(r, text)                                     -> ok | bad:…
    X text s             CPubKey.recover_compact(digest(text), s)                      -> pub | False
    Y a text s           VerifyMessage(a, text, s) under the current chain             -> 1 | 0 | err:…
-/
import Driver.Util
import BtcVerif.Model.Keys
import BtcVerif.Spec.Keys
import BtcVerif.Spec.Chain

namespace Driver.KeysHist
open BtcVerif Driver
open BtcVerif.Crypto

def bit (b : Bool) : String := if b then "1" else "0"

def parseText? (s : String) : Option String :=
  if s == "-" then some "" else do
    let cps ← parseNatList? s
    let cs ← cps.mapM fun n => if h : n.isValidChar then some (Char.ofNatAux n h) else none
    pure (String.ofList cs)

def parseBytes? (s : String) : Option Bytes := if s == "-" then some [] else parseHex? s

structure St where
  chain : Spec.ChainParams := Spec.mainnet
  pubs : List (String × Bytes) := []
  keys : List (String × (Bytes × Bool × Nat)) := []       -- secret, compressed, version byte at creation
  sigs : List (String × Bytes) := []
  addrs : List (String × (Nat × Bytes × List Char)) := []     -- version, payload, text
  aux : List Bytes := []
  out : List String := []

def St.emit (st : St) (s : String) : St := { st with out := s :: st.out }

def keyPub (k : Bytes × Bool × Nat) : Bytes := Model.Keys.pubOfSecret k.1 k.2.1

/-- serialized public key a register stands for (pubkey register, or `.pub` of a key register) -/
def St.pubOf (st : St) (r : String) : Option Bytes :=
  match st.pubs.lookup r with
  | some b => some b
  | none => (st.keys.lookup r).map keyPub

def St.sigOf (st : St) (s : String) : Option Bytes :=
  if s.startsWith "=" then parseBytes? (s.drop 1).toString else st.sigs.lookup s

def validBits (pk : Bytes) : String := bit (Model.Keys.isFullyValid pk) ++ "," ++ bit (Model.Keys.isCompressed pk)

def signVerdict (secret digest sig : Bytes) : String :=
  match Secp256k1.derDecodeStrict sig with
  | none => "bad:not-strict-der"
  | some (r, s) =>
    if Secp256k1.isLowS s && Secp256k1.verify (Secp256k1.mulG (beNat secret)) (Secp256k1.digestNat digest) r s
    then "ok" else "bad:lowS-or-verify"

def msgVerdict (k : Bytes × Bool × Nat) (msg sig : Bytes) : String :=
  let digest := Spec.Keys.msgDigest Spec.Keys.messageMagic msg
  match sig with
  | h :: body =>
    if sig.length != 65 then "bad:length" else
    let r := beNat (body.take 32)
    let s := beNat (body.drop 32)
    match Spec.Keys.headerDecode h.toNat with
    | some (recid, c') =>
        if c' == k.2.1 && Secp256k1.isLowS s &&
           (match Secp256k1.recover (Secp256k1.digestNat digest) r s recid with
            | some Q => Secp256k1.encode Q k.2.1 == keyPub k
            | none => false)
        then "ok" else "bad:header-or-recovery"
    | none => "bad:header-range"
  | [] => "bad:length"

def step (st : St) (toks : List String) : Option St :=
  match toks with
  | ["S", chain] => do
      let ch ← Spec.chainByName? chain
      pure ({ st with chain := ch }.emit "ok")
  | ["K", r, secret, c] => do
      let secret ← parseHex? secret
      let c ← (if c == "1" then some true else if c == "0" then some false else none)
      let k := (secret, c, st.chain.secretKey)
      pure ({ st with keys := (r, k) :: st.keys }.emit (toHex (keyPub k)))
  | ["P", r, hex] => do
      let pk ← parseBytes? hex
      pure ({ st with pubs := (r, pk) :: st.pubs }.emit (validBits pk))
  | ["F", r] => do
      let pk ← st.pubOf r
      pure (st.emit (validBits pk))
  | ["B", r] => do
      let k ← st.keys.lookup r
      pure (st.emit (toHex (keyPub k)))
  | ["G", s, r, digest] => do
      let k ← st.keys.lookup r
      let digest ← parseHex? digest
      match st.aux with
      | sig :: rest => pure ({ st with aux := rest, sigs := (s, sig) :: st.sigs }.emit (signVerdict k.1 digest sig))
      | [] => pure (st.emit "noaux")
  | ["V", r, digest, s] => do
      let pk ← st.pubOf r
      let digest ← parseHex? digest
      let sig ← st.sigOf s
      match Secp256k1.decode pk, Secp256k1.derDecodeStrict sig with
      | none, _ => pure (st.emit "0")
      | _, none => pure (st.emit "notder")
      | some Q, some (rr, ss) => pure (st.emit (bit (Secp256k1.verify Q (Secp256k1.digestNat digest) rr ss)))
  | ["T", r] => do
      let k ← st.keys.lookup r
      pure (st.emit s!"{k.2.2},{toHex (Model.Keys.wifPayload k.1 k.2.1)}")
  | ["R", r2, r] => do
      let k ← st.keys.lookup r
      match Model.Keys.wifParse st.chain.secretKey k.2.2 (Model.Keys.wifPayload k.1 k.2.1) with
      | .ok (sec, c) =>
          let k2 := (sec, c, k.2.2)
          pure ({ st with keys := (r2, k2) :: st.keys }.emit (toHex (keyPub k2)))
      | .error e => pure (st.emit ("err:" ++ e.family))
  | ["D", a, r] => do
      let pk ← st.pubOf r
      let ad := (st.chain.pubkeyAddr, Model.Keys.p2pkhPayload pk, Model.Keys.p2pkhText st.chain.pubkeyAddr pk)
      pure ({ st with addrs := (a, ad) :: st.addrs }.emit s!"{ad.1},{toHex ad.2.1}")
  | ["U", a] => do
      let ad ← st.addrs.lookup a
      pure (st.emit s!"{ad.1},{toHex ad.2.1}")
  | ["E", a, _r, _kind] =>
      match st.aux with
      | t :: rest =>
          let txt := t.map fun b => Char.ofNat b.toNat
          pure ({ st with aux := rest, addrs := (a, (256, [], txt)) :: st.addrs }.emit "ok")
      | [] => pure (st.emit "noaux")
  | ["M", s, r, text] => do
      let k ← st.keys.lookup r
      let text ← parseText? text
      match st.aux with
      | sig :: rest =>
          pure ({ st with aux := rest, sigs := (s, sig) :: st.sigs }.emit (msgVerdict k text.toUTF8.toList sig))
      | [] => pure (st.emit "noaux")
  | ["X", text, s] => do
      let text ← parseText? text
      let sig ← st.sigOf s
      let r := do
        let d ← Model.Keys.msgDigest Spec.Keys.messageMagic text.toUTF8.toList
        Model.Keys.recoverCompact d sig
      pure (st.emit (Res.render (r.map fun o => match o with | some b => toHex b | none => "False")))
  | ["Y", a, text, s] => do
      let ad ← st.addrs.lookup a
      let text ← parseText? text
      let sig ← st.sigOf s
      let r := Model.Keys.verifyMessage st.chain.pubkeyAddr ad.2.2 Spec.Keys.messageMagic text.toUTF8.toList sig
      pure (st.emit (Res.render (r.map bit)))
  | _ => none

def run (steps : String) (aux : List String) : String :=
  match aux.mapM parseBytes? with
  | none => badArgs
  | some aux =>
    let rec go (st : St) : List String → Option St
      | [] => some st
      | s :: rest => match step st (s.splitOn " ") with
          | some st' => go st' rest
          | none => none
    match go { aux := aux } (steps.splitOn "|") with
    | some st => "|".intercalate st.out.reverse
    | none => badArgs

end Driver.KeysHist
