/-
  C13 / C14 — histories on live objects.  One request = one sequence of steps on named registers
  (public keys parsed from bytes, secret keys, signatures, addresses, the selected chain); the reply
  lists, step by step, what the reference says about the values that step is about.  The reference has
  no state shared between registers: each answer depends only on the values the step names.

  steps are separated by `|`, tokens by a blank; `-` is the empty string; a signature operand is a
  register name or `=hex`.  Signatures the library produced (randomised nonces) arrive as extra
  arguments, consumed in order by the `G` (sign) and `M` (SignMessage) steps.

    S chain              SelectParams
    K r secret comp      CBitcoinSecret.from_secret_bytes under the current chain      -> pub
    P r hex              CPubKey(bytes)                                                -> fullyvalid,compressed
    F r                  is_fullyvalid / is_compressed of an existing object           -> same
    B r                  key.pub                                                       -> pub
    G s r digest         s := r.sign(digest)                                           -> ok | bad:…
    V r digest s         r.verify(digest, s)   (r a pubkey register or a key: its .pub) -> 1 | 0
    T r                  str(key) decoded                                              -> version,payload
    R r2 r               r2 := CBitcoinSecret(str(r)) under the current chain          -> pub | err:b58err
    D a r                a := P2PKHBitcoinAddress.from_pubkey(r.pub), current chain    -> version,payload
    U a                  str(a) decoded                                                -> version,payload
    E a r kind           a := P2SH / P2WPKH address carrying Hash160(r.pub); its text is taken from the
                         library (next extra argument): the model only ever compares texts           -> ok
    M s r text           s := SignMessage(r, text)                                     -> ok | bad:…
    X text s             CPubKey.recover_compact(digest(text), s)                      -> pub | False
    Y a text s           VerifyMessage(a, text, s) under the current chain             -> 1 | 0 | err:…
    Q s r digest         s := r.sign_compact(digest)  (r a key register)                 -> ok | bad:…

  one low-level CECKey object `r` driven directly (its state is what the steps on `r` put there):
    CK r                 CECKey()                                                       -> ok
    CS r secret          r.set_secretbytes(secret)     (ValueError leaves r untouched)  -> ok | err:valueerr
    CC r 0|1             r.set_compressed(flag)                                         -> ok
    CP r hex             r.set_pubkey(bytes)           (after a failure the public part of r is whatever
                         OpenSSL left: the reference marks it undefined until the next successful set) -> 1 | 0
    CG r                 r.get_pubkey()                                                 -> pub
    CV r digest s        r.verify(digest, s)                                            -> 1 | 0
    CN s r digest        s := r.sign(digest)                                            -> ok | bad:…
    CQ s r digest        s := r.sign_compact(digest): the recid search compares with r's CURRENT public key
                                                                                        -> ok | bad:… | err:valueerr
    CR r digest s        r.recover(s[1:33], s[33:65], digest, 32, (s[0]-27)&3, 0): return code; on 1 the
                         public part of r becomes the recovered point                    -> 1 | 0 | -1
-/
import Driver.Util
import BtcVerif.Model.Keys
import BtcVerif.Spec.Keys
import BtcVerif.Spec.Chain

namespace Driver.KeysHist
open BtcVerif Driver
open BtcVerif.Crypto

def bit (b : Bool) : String := if b then "1" else "0"

def parseText? (s : String) : Option String :=
  if s == "-" then some "" else do
    let cps ← parseNatList? s
    let cs ← cps.mapM fun n => if h : n.isValidChar then some (Char.ofNatAux n h) else none
    pure (String.ofList cs)

def parseBytes? (s : String) : Option Bytes := if s == "-" then some [] else parseHex? s

/-- public part of a CECKey object as far as the steps determine it -/
inductive EcPub
  | unset                       -- EC_KEY_new_by_curve_name: no public key
  | pt (P : Secp256k1.Point)    -- set by set_secretbytes / set_pubkey / recover
  | undefined                   -- after a failed set_pubkey (OpenSSL-internal leftover; not compared)

structure EcKey where
  secret : Option Bytes := none
  pub : EcPub := .unset
  form : Nat := 4                     -- conversion form: 2 compressed, 4 uncompressed (OpenSSL's default), 6 hybrid;
                                      -- `o2i_ECPublicKey` also sets it, from the first octet of what it parsed

structure St where
  chain : Spec.ChainParams := Spec.mainnet
  pubs : List (String × Bytes) := []
  keys : List (String × (Bytes × Bool × Nat)) := []       -- secret, compressed, version byte at creation
  sigs : List (String × Bytes) := []
  addrs : List (String × (Nat × Bytes × List Char)) := []     -- version, payload, text
  ecs : List (String × EcKey) := []
  aux : List Bytes := []
  out : List String := []

def St.emit (st : St) (s : String) : St := { st with out := s :: st.out }

def keyPub (k : Bytes × Bool × Nat) : Bytes := Model.Keys.pubOfSecret k.1 k.2.1

/-- serialized public key a register stands for (pubkey register, or `.pub` of a key register) -/
def St.pubOf (st : St) (r : String) : Option Bytes :=
  match st.pubs.lookup r with
  | some b => some b
  | none => (st.keys.lookup r).map keyPub

def St.sigOf (st : St) (s : String) : Option Bytes :=
  if s.startsWith "=" then parseBytes? (s.drop 1).toString else st.sigs.lookup s

def validBits (pk : Bytes) : String := bit (Model.Keys.isFullyValid pk) ++ "," ++ bit (Model.Keys.isCompressed pk)

def signVerdict (secret digest sig : Bytes) : String :=
  match Secp256k1.derDecodeStrict sig with
  | none => "bad:not-strict-der"
  | some (r, s) =>
    if Secp256k1.isLowS s && Secp256k1.verify (Secp256k1.mulG (beNat secret)) (Secp256k1.digestNat digest) r s
    then "ok" else "bad:lowS-or-verify"

def msgVerdict (k : Bytes × Bool × Nat) (msg sig : Bytes) : String :=
  let digest := Spec.Keys.msgDigest Spec.Keys.messageMagic msg
  match sig with
  | h :: body =>
    if sig.length != 65 then "bad:length" else
    let r := beNat (body.take 32)
    let s := beNat (body.drop 32)
    match Spec.Keys.headerDecode h.toNat with
    | some (recid, c') =>
        if c' == k.2.1 && Secp256k1.isLowS s &&
           (match Secp256k1.recover (Secp256k1.digestNat digest) r s recid with
            | some Q => Secp256k1.encode Q k.2.1 == keyPub k
            | none => false)
        then "ok" else "bad:header-or-recovery"
    | none => "bad:header-range"
  | [] => "bad:length"

def St.setEc (st : St) (r : String) (k : EcKey) : St := { st with ecs := (r, k) :: st.ecs }

def compactVerdict (pubC : Bytes) (digest sig64 : Bytes) (recid : Nat) : String :=
  let r := beNat (sig64.take 32)
  let s := beNat (sig64.drop 32)
  match Model.Keys.signCompactFinish digest (Secp256k1.derEncode r s) pubC with
  | .ok (sg, i) => if sg == sig64 && i == recid && Secp256k1.isLowS s then "ok" else "bad:recid-or-layout"
  | .error e => "err:" ++ e.family

def step (st : St) (toks : List String) : Option St :=
  match toks with
  | ["Q", s, r, digest] => do
      let k ← st.keys.lookup r
      let digest ← parseHex? digest
      match st.aux with
      | sg :: rest =>
          -- aux = r‖s (64 bytes) followed by the recid byte
          let sig64 := sg.take 64
          let recid := (sg.drop 64).headD 0 |>.toNat
          let hdr := UInt8.ofNat (Model.Keys.headerByte recid k.2.1)
          pure ({ st with aux := rest, sigs := (s, hdr :: sig64) :: st.sigs }.emit
            (compactVerdict (Model.Keys.pubOfSecret k.1 true) digest sig64 recid))
      | [] => pure (st.emit "noaux")
  | ["CK", r] => pure ((st.setEc r {}).emit "ok")
  | ["CS", r, secret] => do
      let k ← st.ecs.lookup r
      let secret ← parseBytes? secret
      if secret.length ≠ 32 then pure (st.emit "err:valueerr")
      else pure ((st.setEc r { k with secret := some secret, pub := .pt (Secp256k1.mulG (beNat secret)) }).emit "ok")
  | ["CC", r, c] => do
      let k ← st.ecs.lookup r
      pure ((st.setEc r { k with form := if c == "1" then 2 else 4 }).emit "ok")
  | ["CP", r, hex] => do
      let k ← st.ecs.lookup r
      let pk ← parseBytes? hex
      if pk == [0] then pure ((st.setEc r { k with pub := .pt .inf, form := 0 }).emit "1")
      else match Secp256k1.decode pk with
        | some P => pure ((st.setEc r { k with pub := .pt P, form := (pk.headD 0).toNat / 2 * 2 }).emit "1")
        | none => pure ((st.setEc r { k with pub := .undefined }).emit "0")
  | ["CG", r] => do
      let k ← st.ecs.lookup r
      match k.pub with
      | .pt (.aff x y) =>
          -- after `set_pubkey(00)` the conversion form is 0 (first octet & ~1): i2o_ECPublicKey then yields
          -- nothing and `create_string_buffer(0)`… raises TypeError, until set_compressed gives a form again
          if k.form == 0 then pure (st.emit "err:py:TypeError") else
          let enc := if k.form == 2 then Secp256k1.encode (.aff x y) true
            else if k.form == 6 then (UInt8.ofNat (6 + y % 2)) :: (Secp256k1.encode (.aff x y) false).drop 1
            else Secp256k1.encode (.aff x y) false
          pure (st.emit (toHex enc))
      | _ => pure (st.emit "undef")
  | ["CV", r, digest, s] => do
      let k ← st.ecs.lookup r
      let digest ← parseHex? digest
      let sig ← st.sigOf s
      match k.pub, Secp256k1.derDecodeStrict sig with
      | .undefined, _ => pure (st.emit "undef")
      | _, none => pure (st.emit "notder")
      | .pt Q, some (rr, ss) => pure (st.emit (bit (Secp256k1.verify Q (Secp256k1.digestNat digest) rr ss)))
      | .unset, _ => pure (st.emit "0")
  | ["CN", s, r, digest] => do
      let k ← st.ecs.lookup r
      let digest ← parseHex? digest
      match k.secret, st.aux with
      | some sec, sig :: rest =>
          pure ({ st with aux := rest, sigs := (s, sig) :: st.sigs }.emit (signVerdict sec digest sig))
      | _, _ => pure (st.emit "noaux")
  | ["CQ", s, r, digest] => do
      let k ← st.ecs.lookup r
      let digest ← parseHex? digest
      match k.secret, k.pub with
      | some sec, .pt P =>
        if k.form == 0 then pure (st.emit "err:py:TypeError") else      -- sign_compact calls get_pubkey
        let pubC := Secp256k1.encode P true
        -- the signature is made with r's secret; the recid search compares with r's CURRENT public key: when
        -- that is not secret·G no recovery id can reproduce it and the library ends in ValueError
        if Model.Keys.pubOfSecret sec true != pubC then pure (st.emit "err:valueerr")
        else (match st.aux with
         | sg :: rest =>
             let sig64 := sg.take 64
             let recid := (sg.drop 64).headD 0 |>.toNat
             pure ({ st with aux := rest, sigs := (s, UInt8.ofNat (27 + recid) :: sig64) :: st.sigs }.emit
               (compactVerdict pubC digest sig64 recid))
         | [] => pure (st.emit "noaux"))
      | _, _ => pure (st.emit "undef")
  | ["CR", r, digest, s] => do
      let k ← st.ecs.lookup r
      let digest ← parseHex? digest
      let sig ← st.sigOf s
      match sig with
      | h :: body =>
        let recid := (Model.Keys.headerDecode h.toNat).1
        (match Model.Keys.recover (body.take 32) ((body.drop 32).take 32) digest recid false with
         | (1, some Q) => pure ((st.setEc r { k with pub := .pt Q }).emit "1")
         | (c, _) => pure (st.emit (toString c)))
      | [] => none
  | ["S", chain] => do
      let ch ← Spec.chainByName? chain
      pure ({ st with chain := ch }.emit "ok")
  | ["K", r, secret, c] => do
      let secret ← parseHex? secret
      let c ← (if c == "1" then some true else if c == "0" then some false else none)
      let k := (secret, c, st.chain.secretKey)
      pure ({ st with keys := (r, k) :: st.keys }.emit (toHex (keyPub k)))
  | ["P", r, hex] => do
      let pk ← parseBytes? hex
      pure ({ st with pubs := (r, pk) :: st.pubs }.emit (validBits pk))
  | ["F", r] => do
      let pk ← st.pubOf r
      pure (st.emit (validBits pk))
  | ["B", r] => do
      let k ← st.keys.lookup r
      pure (st.emit (toHex (keyPub k)))
  | ["G", s, r, digest] => do
      let k ← st.keys.lookup r
      let digest ← parseHex? digest
      match st.aux with
      | sig :: rest => pure ({ st with aux := rest, sigs := (s, sig) :: st.sigs }.emit (signVerdict k.1 digest sig))
      | [] => pure (st.emit "noaux")
  | ["V", r, digest, s] => do
      let pk ← st.pubOf r
      let digest ← parseHex? digest
      let sig ← st.sigOf s
      match Secp256k1.decode pk, Secp256k1.derDecodeStrict sig with
      | none, _ => pure (st.emit "0")
      | _, none => pure (st.emit "notder")
      | some Q, some (rr, ss) => pure (st.emit (bit (Secp256k1.verify Q (Secp256k1.digestNat digest) rr ss)))
  | ["T", r] => do
      let k ← st.keys.lookup r
      pure (st.emit s!"{k.2.2},{toHex (Model.Keys.wifPayload k.1 k.2.1)}")
  | ["R", r2, r] => do
      let k ← st.keys.lookup r
      match Model.Keys.wifParse st.chain.secretKey k.2.2 (Model.Keys.wifPayload k.1 k.2.1) with
      | .ok (sec, c) =>
          let k2 := (sec, c, k.2.2)
          pure ({ st with keys := (r2, k2) :: st.keys }.emit (toHex (keyPub k2)))
      | .error e => pure (st.emit ("err:" ++ e.family))
  | ["D", a, r] => do
      let pk ← st.pubOf r
      let ad := (st.chain.pubkeyAddr, Model.Keys.p2pkhPayload pk, Model.Keys.p2pkhText st.chain.pubkeyAddr pk)
      pure ({ st with addrs := (a, ad) :: st.addrs }.emit s!"{ad.1},{toHex ad.2.1}")
  | ["U", a] => do
      let ad ← st.addrs.lookup a
      pure (st.emit s!"{ad.1},{toHex ad.2.1}")
  | ["E", a, _r, _kind] =>
      match st.aux with
      | t :: rest =>
          let txt := t.map fun b => Char.ofNat b.toNat
          pure ({ st with aux := rest, addrs := (a, (256, [], txt)) :: st.addrs }.emit "ok")
      | [] => pure (st.emit "noaux")
  | ["M", s, r, text] => do
      let k ← st.keys.lookup r
      let text ← parseText? text
      match st.aux with
      | sig :: rest =>
          pure ({ st with aux := rest, sigs := (s, sig) :: st.sigs }.emit (msgVerdict k text.toUTF8.toList sig))
      | [] => pure (st.emit "noaux")
  | ["X", text, s] => do
      let text ← parseText? text
      let sig ← st.sigOf s
      let r := do
        let d ← Model.Keys.msgDigest Spec.Keys.messageMagic text.toUTF8.toList
        Model.Keys.recoverCompact d sig
      pure (st.emit (Res.render (r.map fun o => match o with | some b => toHex b | none => "False")))
  | ["Y", a, text, s] => do
      let a := if a.endsWith "~" || a.endsWith "^" then (a.dropEnd 1).toString else a
      let ad ← st.addrs.lookup a
      let text ← parseText? text
      let sig ← st.sigOf s
      let r := Model.Keys.verifyMessage st.chain.pubkeyAddr ad.2.2 Spec.Keys.messageMagic text.toUTF8.toList sig
      pure (st.emit (Res.render (r.map bit)))
  | _ => none

def run (steps : String) (aux : List String) : String :=
  match aux.mapM parseBytes? with
  | none => badArgs
  | some aux =>
    let rec go (st : St) : List String → Option St
      | [] => some st
      | s :: rest => match step st (s.splitOn " ") with
          | some st' => go st' rest
          | none => none
    match go { aux := aux } (steps.splitOn "|") with
    | some st => "|".intercalate st.out.reverse
    | none => badArgs

end Driver.KeysHist
