/-
  C08 — line-protocol ops of the executable model.

  tokens on the line: comma-separated `o:<n>` (CScriptOp), `i:<int>` (integer), `d:<hex>` (bytes).
  Wherever a Spec definition exists the op evaluates both Model and Spec and answers
  `model-spec-mismatch …` if they differ (so the correspondence run also exercises the statements
  proved in Props/C08.lean).
-/
import Driver.Util
import BtcVerif.Model.ScriptBuild

namespace Driver.C08
open BtcVerif Driver
open BtcVerif.Spec.Script (Token)
open BtcVerif.Model.Script

def parseToken? (s : String) : Option Token :=
  if s.startsWith "o:" then
    match (s.drop 2).toNat? with
    | some n => if n < 256 then some (.op n) else none
    | none => none
  else if s.startsWith "i:" then (parseInt? (s.drop 2).toString).map .int
  else if s.startsWith "d:" then (parseHex? (s.drop 2).toString).map .data
  else if s = "b:1" then some (.bool true)
  else if s = "b:0" then some (.bool false)
  else if s.startsWith "u:" then (parseHex? (s.drop 2).toString).map .buffer
  else if s.startsWith "x:" then some .other
  else none

def parseTokens? (s : String) : Option (List Token) := (splitList s ',').mapM parseToken?

def showToken : Token → String
  | .op n => "o:" ++ toString n
  | .int z => "i:" ++ toString z
  | .data d => "d:" ++ toHex d
  | .bool b => if b then "b:1" else "b:0"
  | .buffer b => "u:" ++ toHex b
  | .other => "x:"

def showTokens (ts : List Token) : String := "[" ++ joinWith "," (ts.map showToken) ++ "]"

/-- the family, plus the payload CScriptTruncatedPushDataError carries in `.data` -/
def showIterErr : IterErr → String
  | .missingLen => " err:invalidscript"
  | .truncated _ => " err:invalidscript"   -- the payload it carries is not constrained by the statement

def showCookErr : Option CookErr → String
  | none => ""
  | some (.iter e) => showIterErr e
  | some (.py e) => " err:" ++ e.family

def showCooked (p : List Token × Option CookErr) : String := showTokens p.1 ++ showCookErr p.2

def showRawOp (o : RawOp) : String :=
  "(" ++ toString o.opcode ++ "," ++ (match o.data with | some d => toHex d | none => "-") ++ ","
    ++ toString o.sopIdx ++ ")"

def showRaw (p : List RawOp × Option IterErr) : String :=
  "[" ++ String.join (p.1.map showRawOp) ++ "]" ++ (match p.2 with | some e => showIterErr e | none => "")

def bit (b : Bool) : String := if b then "1" else "0"

def showResBool : Res Bool → String
  | .ok b => bit b
  | .error e => "err:" ++ e.family

def showResNat : Res Nat → String
  | .ok n => toString n
  | .error e => "err:" ++ e.family

def showResTok : Res Token → String
  | .ok t => showToken t
  | .error e => "err:" ++ e.family

/-- answer `m`, unless the Spec value `s` differs -/
def tied (what m s : String) : String :=
  if m = s then m else "model-spec-mismatch " ++ what ++ " model=" ++ m ++ " spec=" ++ s

/-- build, cooked iteration of the result, rebuild from the cooked tokens -/
def buildLine (ts : List Token) : String :=
  match build ts with
  | .error e => tied "build" ("err:" ++ e.family)
      (match Spec.Script.build ts with | some _ => "some" | none => "err:" ++ e.family)
  | .ok s =>
    let c := cooked s
    let re := match build c.1 with
      | .ok r => toHex r
      | .error e => "err:" ++ e.family
    let m := toHex s ++ " " ++ showCooked c ++ " " ++ re
    -- the read-back laws are claimed for opcode tokens 0x4f..0xff only (a token o:<push opcode> is not a push)
    let inDomain := ts.all (fun t => match t with | .op n => 0x4f ≤ n | .other => false | .buffer _ => false | _ => true)
    match Spec.Script.build ts with
    | none => "model-spec-mismatch build model=" ++ m ++ " spec=none"
    | some b =>
      if inDomain then tied "build" m (toHex b ++ " " ++ showTokens (Spec.Script.canon ts) ++ " " ++ toHex b)
      else if b = s then m else "model-spec-mismatch build model=" ++ m ++ " spec=" ++ toHex b

/-- raw iteration, plus the partition of the script it induces (checked, not printed) -/
def rawLine (s : Bytes) : String :=
  let p := rawIter s
  let sp := Spec.Script.parse s
  let m := p.1.map (fun o => (o.opcode, o.data.getD []))
  if m ≠ sp.1 ∨ p.2.isNone ≠ sp.2 then "model-spec-mismatch raw " ++ showRaw p
  else showRaw p

def predsLine (s : Bytes) : String :=
  let wspk := isWitnessScriptPubKey s
  let parts : List String :=
    [ "p2sh=" ++ tied "p2sh" (bit (isP2sh s)) (bit (Spec.Script.isPayToScriptHash s)),
      "wspk=" ++ tied "wspk" (showResBool wspk) (bit (Spec.Script.isWitnessProgram s).isSome),
      "wver=" ++ (match Spec.Script.isWitnessProgram s with
                  | some (v, _) => tied "wver" (showResTok (witnessVersion s)) (showToken (.int v))
                  | none => "-"),   -- not a witness program: outside the statement, not compared
      "k=" ++ tied "k" (bit (isWitnessV0Keyhash s)) (bit (Spec.Script.isP2WPKH s)),
      "nk=" ++ tied "nk" (bit (isWitnessV0NestedKeyhash s)) (bit (Spec.Script.isNestedP2WPKH s)),
      "sh=" ++ tied "sh" (bit (isWitnessV0Scripthash s)) (bit (Spec.Script.isP2WSH s)),
      "nsh=" ++ tied "nsh" (bit (isWitnessV0NestedScripthash s)) (bit (Spec.Script.isNestedP2WSH s)),
      "push=" ++ tied "push" (bit (isPushOnly s)) (bit (Spec.Script.isPushOnly s)),
      "canon=" ++ tied "canon" (showResBool (hasCanonicalPushes s)) (bit (Spec.Script.hasCanonicalPushes s)),
      "unsp=-",   -- is_unspendable is not named by the property: not compared (Props: pred_eq_spec_unspendable)
      "valid=" ++ tied "valid" (showResBool (isValid s)) (bit (Spec.Script.isValid s)) ]
  joinWith " " parts

/-- the stateless answer of one observer of a script object (`c08.hist`): an observer's answer never
    depends on what was asked of the object before -/
def observe (s : Bytes) (o : String) : Option String :=
  match o with
  | "iter" => some (showCooked (cooked s))
  | "raw" => some (showRaw (rawIter s))
  | "so0" => some (showResNat (getSigOpCount s false))
  | "so1" => some (showResNat (getSigOpCount s true))
  | "p2sh" => some (bit (isP2sh s))
  | "wspk" => some (showResBool (isWitnessScriptPubKey s))
  | "wver" => some (if (Spec.Script.isWitnessProgram s).isSome then showResTok (witnessVersion s) else "-")
  | "k" => some (bit (isWitnessV0Keyhash s))
  | "nk" => some (bit (isWitnessV0NestedKeyhash s))
  | "sh" => some (bit (isWitnessV0Scripthash s))
  | "nsh" => some (bit (isWitnessV0NestedScripthash s))
  | "push" => some (bit (isPushOnly s))
  | "canon" => some (showResBool (hasCanonicalPushes s))
  | "unsp" => some "-"
  | "valid" => some (showResBool (isValid s))
  | "len" => some (toString s.length)
  | "bytes" => some (toHex s)
  | "add" => some (joinWith "," ([Token.op 0xac, .int 1, .data [0x61, 0x62]].map (fun t =>
      match add s t with
      | .ok r => toHex r
      | .error e => "err:" ++ e.family)))
  -- value-free observers: the harness checks them against Python's own fresh computation
  | "repr" => some "1"
  | "hash" => some "1"
  | "eq" => some "1"
  | "top2sh" => some "1"
  | _ => none

def histLine (s : Bytes) (obs : List String) : String :=
  match obs.mapM (observe s) with
  | some l => joinWith " | " l
  | none => badArgs

def handle (op : String) (args : List String) : Option String :=
  match op, args with
  | "c08.build", [toks] => some <| match parseTokens? toks with
      | some ts => buildLine ts
      | none => badArgs
  | "c08.hist", [hex, obs, _route] => some <| match parseHex? hex with
      | some s => if obs.isEmpty then badArgs else histLine s (splitList obs ',')
      | none => badArgs
  | "c08.add", [hex, tok] => some <| match parseHex? hex, parseToken? tok with
      | some s, some t => (match add s t with
          | .ok r => toHex r
          | .error e => "err:" ++ e.family)
      | _, _ => badArgs
  | "c08.cooked", [hex] => some <| match parseHex? hex with
      | some s => showCooked (cooked s)
      | none => badArgs
  | "c08.raw", [hex] => some <| match parseHex? hex with
      | some s => rawLine s
      | none => badArgs
  | "c08.preds", [hex] => some <| match parseHex? hex with
      | some s => predsLine s
      | none => badArgs
  | "c08.sigops", [hex, acc] => some <| match parseHex? hex, parseNat? acc with
      | some s, some a =>
          if a > 1 then badArgs
          else tied "sigops" (showResNat (getSigOpCount s (a = 1))) (toString (Spec.Script.sigOpCount (a = 1) s))
      | _, _ => badArgs
  | "c08.bn2vch", [z] => some <| match parseInt? z with
      | some z => tied "bn2vch"
          (match bn2vch z with | .ok b => toHex b | .error e => "err:" ++ e.family)
          (toHex (Spec.Script.numEncode z))
      | none => badArgs
  | "c08.vch2bn", [hex] => some <| match parseHex? hex with
      | some b => tied "vch2bn"
          (match vch2bn b with
           | .ok (some z) => toString z
           | .ok none => "none"
           | .error e => "err:" ++ e.family)
          (toString (Spec.Script.numDecode b))
      | none => badArgs
  | "c08.opnew", [z] => some <| match parseInt? z with
      | some z => showResNat (cscriptOpNew z)
      | none => badArgs
  | "c08.opnewseq", [zs] => some <| match parseIntList? zs with
      | some l => joinWith "," ((cscriptOpNewSeq 256 l).map showResNat)
      | none => badArgs
  | "c08.opn.enc", [z] => some <| match parseInt? z with
      | some z => showResNat (encodeOpN z)
      | none => badArgs
  | "c08.opn.dec", [n] => some <| match parseNat? n with
      | some n => if n < 256 then showResNat (decodeOpN n) ++ " " ++ bit (isSmallInt n) else badArgs
      | none => badArgs
  | "c08.mpi2bn", [hex] => some <| match parseHex? hex with
      | some b => (match mpi2bn b with
           | .ok (some z) => toString z
           | .ok none => "none"
           | .error e => "err:" ++ e.family)
      | none => badArgs
  -- the codec observed through the interpreter's arithmetic: operands decoded (at most 4 bytes each),
  -- the result encoded and left on the stack
  | "c08.numeval", [what, ahex, bhex] => some <| match parseHex? ahex, parseHex? bhex with
      | some a, some b =>
          let enc (z : Int) : String := toHex (Spec.Script.numEncode z)
          let da := Spec.Script.numDecode a
          let db := Spec.Script.numDecode b
          if what = "1add" then (if a.length > 4 then "err:validation" else enc (da + 1))
          else if what = "negate" then (if a.length > 4 then "err:validation" else enc (-da))
          else if what = "0notequal" then (if a.length > 4 then "err:validation" else enc (if da ≠ 0 then 1 else 0))
          else if what = "add" then (if a.length > 4 ∨ b.length > 4 then "err:validation" else enc (da + db))
          else if what = "sub" then (if a.length > 4 ∨ b.length > 4 then "err:validation" else enc (da - db))
          else badArgs
      | _, _ => badArgs
  | "c08.minimal", [hex] => some <| match parseHex? hex with
      | some b => bit (decide (Spec.Script.minimal b))
      | none => badArgs
  | "c08.pushdata", [hex] => some <| match parseHex? hex with
      | some d => (match encodeOpPushdata d with
          | .ok r => toHex r
          | .error e => "err:" ++ e.family)
      | none => badArgs
  | _, _ => none

end Driver.C08
