import Driver.Util

namespace Driver.C14
open BtcVerif Driver

def handle (_op : String) (_args : List String) : Option String := none

end Driver.C14
