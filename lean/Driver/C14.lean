/-
  C14 — signed messages: ops of the executable model (Model/Keys.lean, signmessage part).
-/
import Driver.Util
import Driver.C13
import BtcVerif.Model.Keys
import BtcVerif.Spec.Keys
import BtcVerif.Spec.Chain

namespace Driver.C14
open BtcVerif Driver
open BtcVerif.Crypto
open Driver.C13 (bit parseBool?)

/-- text from a list of Unicode scalar values (surrogates / out-of-range are malformed input) -/
def parseText? (s : String) : Option String := do
  let cps ← parseNatList? s
  let cs ← cps.mapM fun n => if h : n.isValidChar then some (Char.ofNatAux n h) else none
  pure (String.ofList cs)

def renderOptBytes (r : Res (Option Bytes)) : String :=
  Res.render (r.map fun o => match o with | some b => toHex b | none => "False")

/-- an address text transported as the hex of its ASCII bytes -/
def parseAscii? (s : String) : Option (List Char) :=
  if s == "-" then some [] else (parseHex? s).map fun bs => bs.map fun b => Char.ofNat b.toNat

def asciiHex (cs : List Char) : String := toHex (cs.map fun c => UInt8.ofNat c.toNat)

def vm (ch : Spec.ChainParams) (addrText : List Char) (magic msg sig : Bytes) : String :=
  Res.render ((Model.Keys.verifyMessage ch.pubkeyAddr addrText magic msg sig).map bit)

def handle (op : String) (args : List String) : Option String :=
  match op, args with
  | "c14.hist", steps :: aux => some (Driver.KeysHist.run steps aux)
  | "c14.digest", [magic, text] => some <|
      match parseText? magic, parseText? text with
      | some magic, some text =>
          Res.render ((Model.Keys.msgDigest magic.toUTF8.toList text.toUTF8.toList).map toHex)
      | _, _ => badArgs
  | "c14.spec.digest", [magic, text] => some <|
      match parseText? magic, parseText? text with
      | some magic, some text => toHex (Spec.Keys.msgDigest magic.toUTF8.toList text.toUTF8.toList)
      | _, _ => badArgs
  | "c14.header", [recid, c] => some <|
      match parseNat? recid, parseBool? c with
      | some recid, some c => toString (Model.Keys.headerByte recid c)
      | _, _ => badArgs
  | "c14.headerDecode", [h] => some <|
      match parseNat? h with
      | some h => if h < 256 then
          let (r, c) := Model.Keys.headerDecode h
          s!"{r},{bit c}" else badArgs
      | none => badArgs
  | "c14.recoverCompact", [hash, sig] => some <|
      match parseHex? hash, parseHex? sig with
      | some hash, some sig => renderOptBytes (Model.Keys.recoverCompact hash sig)
      | _, _ => badArgs
  | "c14.signCompact", [secret, hash, sig64, recid] => some <|
      -- check of what `sign_compact` returned: the DER form of (r, s) must lead the model of the
      -- padding and recid search to exactly this (r‖s, recid)
      match parseHex? secret, parseHex? hash, parseHex? sig64, parseNat? recid with
      | some secret, some hash, some sig64, some recid =>
          let r := beNat (sig64.take 32)
          let s := beNat (sig64.drop 32)
          let pubC := Model.Keys.pubOfSecret secret true
          (match Model.Keys.signCompactFinish hash (Secp256k1.derEncode r s) pubC with
           | .ok (sg, i) => if sg == sig64 && i == recid && Secp256k1.isLowS s then "ok"
                            else s!"bad:model-recid={i},lowS={bit (Secp256k1.isLowS s)}"
           | .error e => "err:" ++ e.family)
      | _, _, _, _ => badArgs
  | "c14.verify", [chain, addr, magic, text, sig] => some <|
      match Spec.chainByName? chain, parseAscii? addr, parseText? magic, parseText? text, parseHex? sig with
      | some ch, some addr, some magic, some text, some sig =>
          vm ch addr magic.toUTF8.toList text.toUTF8.toList sig
      | _, _, _, _, _ => badArgs
  | "c14.p2pkhText", [chain, pub] => some <|
      match Spec.chainByName? chain, parseHex? pub with
      | some ch, some pub => asciiHex (Model.Keys.p2pkhText ch.pubkeyAddr pub)
      | _, _ => badArgs
  | "c14.msg", [chain, secret, c, text, _other, text2, sig, ownT, otherT, p2shT, segT] => some <|
      -- verdicts on a signature the library produced for (secret, compression, text):
      -- length; header byte + recovery (reference SEC 1 recovery AND the model of `recover_compact` must
      -- both give the signer's key); the model's text of the signer's address equals the library's; then
      -- the model of VerifyMessage for the texts of: the signer's address, another key's address, the
      -- P2SH and the segwit address carrying the same hash160, and the signer's address with another text
      match Spec.chainByName? chain, parseHex? secret, parseBool? c, parseText? text,
            parseText? text2, parseHex? sig, parseAscii? ownT, parseAscii? otherT, parseAscii? p2shT,
            parseAscii? segT with
      | some ch, some secret, some c, some text, some text2, some sig, some ownT, some otherT, some p2shT,
        some segT =>
          let magic := Spec.Keys.messageMagic
          let msg := text.toUTF8.toList
          let pub := Model.Keys.pubOfSecret secret c
          let digest := Spec.Keys.msgDigest magic msg
          let hdr := match sig with | h :: _ => h.toNat | [] => 0
          let r := beNat ((sig.drop 1).take 32)
          let s := beNat ((sig.drop 33).take 32)
          let refOk := match Spec.Keys.headerDecode hdr with
            | some (recid, c') =>
                c' == c &&
                (match Secp256k1.recover (Secp256k1.digestNat digest) r s recid with
                 | some Q => Secp256k1.encode Q c == pub
                 | none => false)
            | none => false
          let modelOk := match Model.Keys.recoverCompact digest sig with
            | .ok (some pk) => pk == pub
            | _ => false
          let textOk := Model.Keys.p2pkhText ch.pubkeyAddr pub == ownT
          let own := vm ch ownT magic msg sig
          let oth := vm ch otherT magic msg sig
          let p2sh := vm ch p2shT magic msg sig
          let seg := vm ch segT magic msg sig
          let pert := vm ch ownT magic text2.toUTF8.toList sig
          s!"len={sig.length} hdr={bit (refOk && modelOk)} lowS={bit (Secp256k1.isLowS s)} addr={bit textOk} own={own} other={oth} p2sh={p2sh} segwit={seg} pert={pert}"
      | _, _, _, _, _, _, _, _, _, _ => badArgs
  | _, _ => none

end Driver.C14
