/-
  C18 — line-protocol ops of the P2P message model.

  Text form of a message (mirror: harness/props/c18.py), fields separated by one space:
    version <ver> <services> <time> <addr> <addr|-> <nonce|-> <subverhex|-> <height|-> <relay>
    verack | getaddr | mempool
    addr <addr,addr,…>                    addr := protover:time:services:iphex:port
    alert <msghex> <sighex>
    inv|getdata|notfound <inv,inv,…>      inv  := type:hashhex
    getblocks|getheaders <ver> <hash,hash,…> <hashstophex>
    headers <header/header/…>             header, tx, block as in Driver/TxFmt.lean
    tx <tx>      block <block>
    ping|pong <nonce>
    reject <messagehex> <ccodehex> <reasonhex>
  Ops:
    c18.frame  <chain> <msg>        → hex of to_bytes() | err:<family>, then `|W` or `|O`; W = the message is in the
                                      property's domain (WFMsg and a payload ≤ MAX_SIZE), O = outside
    c18.spec.frame <chain> <msg>    → hex of Spec.Msg.frameMsg
    c18.parse  <chain> <hexstream> [<pv>] (pv = the `protover` handed to stream_deserialize, default 60002) → `pos@msg@reframe~…` then `~eof` or `~err:<family>@pos`;
                                      `pos` = stream position after the call, msg = `none` for an
                                      unknown command, reframe = same | diff | err:<family>: whether
                                      to_bytes() of the parsed message equals the bytes consumed
                                      an error raised inside msg_deser is `err:<family>@pos@payload`
    c18.frombytes <chain> <hex>     → msg | none | err:<family>, then `|W` or `|O`   (W = canonical frame of the
                                      message returned, or a frame-level rejection; O = anything else)
    c18.magic  <chain>              → hex
    c18.hist   <step> <step> …      → outputs of the steps joined by `~` (see "histories" below)
-/
import Driver.Util
import Driver.TxFmt
import BtcVerif.Model.Messages
import BtcVerif.Spec.Chain

namespace Driver.C18
open BtcVerif Driver Driver.TxFmt

def parseAddr? (s : String) : Option NetAddr :=
  match s.splitOn ":" with
  | [pv, t, sv, ip, port] => do
      let pv ← parseNat? pv; let t ← parseNat? t; let sv ← parseNat? sv
      let ip ← parseHex? ip; let port ← parseNat? port
      pure { protover := pv, nTime := t, nServices := sv, ip := ip, port := port }
  | _ => none

def showAddr (a : NetAddr) : String :=
  s!"{a.protover}:{a.nTime}:{a.nServices}:{toHex a.ip}:{a.port}"

def parseInv? (s : String) : Option Inv :=
  match s.splitOn ":" with
  | [t, h] => do
      let t ← parseInt? t; let h ← parseHex? h
      pure { type := t, hash := h }
  | _ => none

def showInv (i : Inv) : String := s!"{i.type}:{toHex i.hash}"

def parseOpt? {α} (p : String → Option α) (s : String) : Option (Option α) :=
  if s == "-" then some none else (p s).map some

def showOpt {α} (f : α → String) : Option α → String
  | some x => f x
  | none => "-"

def parseMsg? (s : String) : Option Msg :=
  match s.splitOn " " with
  | ["version", ver, sv, t, to, fr, nonce, sub, height, relay] => do
      let ver ← parseInt? ver; let sv ← parseNat? sv; let t ← parseInt? t
      let to ← parseAddr? to; let fr ← parseOpt? parseAddr? fr
      let nonce ← parseOpt? parseNat? nonce; let sub ← parseOpt? parseHex? sub
      let height ← parseOpt? parseInt? height; let relay ← parseNat? relay
      pure (.version { nVersion := ver, nServices := sv, nTime := t, addrTo := to, addrFrom := fr,
                       nNonce := nonce, strSubVer := sub, nStartingHeight := height, fRelay := relay })
  | ["verack"] => some .verack
  | ["getaddr"] => some .getaddr
  | ["mempool"] => some .mempool
  | ["addr", as] => (splitList as ',').mapM parseAddr? |>.map Msg.addr
  | ["alert", m, sg] => do
      let m ← parseHex? m; let sg ← parseHex? sg
      pure (.alert m sg)
  | ["inv", l] => (splitList l ',').mapM parseInv? |>.map Msg.inv
  | ["getdata", l] => (splitList l ',').mapM parseInv? |>.map Msg.getdata
  | ["notfound", l] => (splitList l ',').mapM parseInv? |>.map Msg.notfound
  | ["getblocks", v, hs, stop] => do
      let v ← parseInt? v; let hs ← parseHexList? hs; let stop ← parseHex? stop
      pure (.getblocks { nVersion := v, vHave := hs } stop)
  | ["getheaders", v, hs, stop] => do
      let v ← parseInt? v; let hs ← parseHexList? hs; let stop ← parseHex? stop
      pure (.getheaders { nVersion := v, vHave := hs } stop)
  | ["headers", hs] => (splitList hs '/').mapM parseHeader? |>.map Msg.headers
  | ["tx", t] => (parseTx? t).map Msg.tx
  | ["block", b] => (parseBlock? b).map Msg.block
  | ["ping", n] => (parseNat? n).map Msg.ping
  | ["pong", n] => (parseNat? n).map Msg.pong
  | ["reject", m, c, r] => do
      let m ← parseHex? m; let c ← parseHex? c; let r ← parseHex? r
      pure (.reject m c r)
  | _ => none

def showInvs (l : List Inv) : String := ",".intercalate (l.map showInv)

def showMsg : Msg → String
  | .version v =>
      s!"version {v.nVersion} {v.nServices} {v.nTime} {showAddr v.addrTo} {showOpt showAddr v.addrFrom} " ++
      s!"{showOpt toString v.nNonce} {showOpt toHex v.strSubVer} {showOpt toString v.nStartingHeight} {v.fRelay}"
  | .verack => "verack"
  | .getaddr => "getaddr"
  | .mempool => "mempool"
  | .addr as => "addr " ++ ",".intercalate (as.map showAddr)
  | .alert m sg => s!"alert {toHex m} {toHex sg}"
  | .inv l => "inv " ++ showInvs l
  | .getdata l => "getdata " ++ showInvs l
  | .notfound l => "notfound " ++ showInvs l
  | .getblocks loc stop => s!"getblocks {loc.nVersion} {",".intercalate (loc.vHave.map toHex)} {toHex stop}"
  | .getheaders loc stop => s!"getheaders {loc.nVersion} {",".intercalate (loc.vHave.map toHex)} {toHex stop}"
  | .headers hs => "headers " ++ "/".intercalate (hs.map showHeader)
  | .tx t => "tx " ++ showTx t
  | .block b => "block " ++ showBlock b
  | .ping n => s!"ping {n}"
  | .pong n => s!"pong {n}"
  | .reject m c r => s!"reject {toHex m} {toHex c} {toHex r}"

def magicOf? (chain : String) : Option Bytes :=
  (Spec.chainByName? chain).map (fun p => p.messageStart.map UInt8.ofNat)

/-- "field values the protocol version carries", with a payload the length field and `ser_read` can honour -/
def inDomain (m : Msg) : Bool :=
  decide (Spec.Msg.WFMsg m) && decide ((Spec.Msg.payload m).length ≤ Spec.Wire.maxSize)

/-- `c18.parse`: the messages and the final error are those of `Model.Msg.parseAll` (the function
    `parse_stream`, `parse_stream_append` speak about); the positions come from `Model.Msg.parseTrace`
    (`parseAll_eq_trace`: same messages, same error; `parse_stream_trace`).  Should the two ever
    disagree in length the reply is `model-inconsistent`. -/
def parseReport (magic : Bytes) (pv : Nat) (s : Bytes) : String :=
  let (msgs, err) := Model.Msg.parseAll magic pv s
  let (tr, terr) := Model.Msg.parseTrace magic pv s
  if msgs.length ≠ tr.length then "model-inconsistent" else
  let total := s.length
  let step := fun (acc : List String × Bytes) (p : Option Msg × (Option Msg × Bytes)) =>
    let (out, before) := acc
    let (m, (_, r)) := p
    let consumed := before.take (before.length - r.length)
    let txt := match m with
      | some m =>
          let re := match Model.Msg.toBytes magic m with
            | .ok b => if b = consumed then "same" else "diff"
            | .error e => "err:" ++ e.family
          showMsg m ++ "@" ++ re
      | none => "none@-"
    (s!"{total - r.length}@{txt}" :: out, r)
  let (out, last) := (msgs.zip tr).foldl step ([], s)
  let fin := match err, terr with
    | none, none => "eof"
    | some e, some (_, r) =>
        -- an error raised inside msg_deser (header, length and checksum were accepted:
        -- `returned_was_accepted`, `rejected_before_dispatch`) is marked: the property does not say
        -- how a well-framed but malformed payload is treated
        let tag := if Model.Msg.frameAccepted magic last then "@payload" else ""
        s!"err:{e.family}@{total - r.length}{tag}"
    | _, _ => "model-inconsistent"
  "~".intercalate (fin :: out).reverse

/-! ### histories: one case = a sequence of steps on named message values, streams and the chain

  The model has value semantics: a register holds the CURRENT field values, the chain is the CURRENT
  chain; nothing else survives from one step to the next.  Steps (one per argument):
    C <chain>                      SelectParams
    N <reg>#<msg>#<variant>        a new message object with these field values
    E <reg>#<edit>#<msg>           an in-place edit of the live object; <msg> = the field values after it
    F <reg>                        to_bytes()                          → hex | err:<family> | noreg
    M <reg>                        msg_ser into a BytesIO (the payload)   → hex | err:<family> | noreg
    Z <reg>                        serialize()  (= to_bytes)              → hex | …
    G <reg>                        GetHash()    (SHA-256d of to_bytes)    → hex | …
    R <reg>                        repr()       (no output: only that the observer ran on the object)
    Q <reg> <reg>                  ==           (equal iff the frames are equal) → eq | ne
    X <sid> <hex>                  a new stream holding these raw bytes → len=<n>
    S <sid> <reg>*                 a new stream holding the frames of these registers → len=<n>
    A <sid> <reg>                  append the frame of <reg> to the stream (position kept) → len=<n>
    P <sid> <reg> [<pv>]           stream_deserialize(f, protover=pv) on the stream (default PROTO_VERSION);
                                   the message goes to <reg>
                                   → pos@msg | pos@none | err:<family>@pos
-/

structure HState where
  magic : Bytes
  regs : List (String × Msg)
  streams : List (String × Nat × Bytes)      -- bytes written so far, bytes not yet read
  out : List String

def setKey {α} (k : String) (v : α) (l : List (String × α)) : List (String × α) :=
  (k, v) :: l.filter (fun p => p.1 != k)

def frameOf (st : HState) (r : String) : Option (Res Bytes) :=
  (st.regs.lookup r).map (Model.Msg.toBytes st.magic)

/-- `P <sid> <reg> [<pv>]`: `stream_deserialize(f, protover=pv)` on the stream -/
def histParse (st : HState) (sid r : String) (pv : Nat) : Option HState :=
  match st.streams.lookup sid with
  | none => some { st with out := "nostream" :: st.out }
  | some (tot, rem) =>
      match Model.Msg.streamDeserialize st.magic pv rem with
      | (.ok (some m), rest) =>
          some { st with streams := setKey sid (tot, rest) st.streams, regs := setKey r m st.regs,
                         out := s!"{tot - rest.length}@{showMsg m}" :: st.out }
      | (.ok none, rest) =>
          some { st with streams := setKey sid (tot, rest) st.streams,
                         out := s!"{tot - rest.length}@none" :: st.out }
      | (.error e, rest) =>
          some { st with streams := setKey sid (tot, rest) st.streams,
                         out := s!"err:{e.family}@{tot - rest.length}" :: st.out }

def histStep (st : HState) (step : String) : Option HState :=
  match step.splitOn "#" with
  | [hd, a, b] =>
      (match hd.splitOn " " with
       | ["N", r] => (parseMsg? a).map (fun m => { st with regs := setKey r m st.regs })
       | ["E", r] => (parseMsg? b).map (fun m => { st with regs := setKey r m st.regs })
       | _ => none)
  | [hd] =>
      (match hd.splitOn " " with
       | ["C", ch] => (magicOf? ch).map (fun m => { st with magic := m })
       | ["F", r] =>
           let o := match frameOf st r with
             | none => "noreg"
             | some res => Res.render (res.map toHex)
           some { st with out := o :: st.out }
       | ["M", r] =>
           let o := match st.regs.lookup r with
             | none => "noreg"
             | some m => Res.render ((Model.Msg.msgSer m).map toHex)
           some { st with out := o :: st.out }
       | ["Z", r] =>
           let o := match frameOf st r with
             | none => "noreg"
             | some res => Res.render (res.map toHex)
           some { st with out := o :: st.out }
       | ["G", r] =>
           let o := match frameOf st r with
             | none => "noreg"
             | some res => Res.render (res.map (fun b => toHex (Crypto.hash256 b)))
           some { st with out := o :: st.out }
       | ["R", _] => some st
       | ["Q", r1, r2] =>
           let o := match frameOf st r1, frameOf st r2 with
             | some (.ok a), some (.ok b) => if a = b then "eq" else "ne"
             | none, _ => "noreg"
             | _, none => "noreg"
             | _, _ => "err"
           some { st with out := o :: st.out }
       | ["X", sid, hex] =>
           (parseHex? hex).map (fun b => { st with streams := setKey sid (b.length, b) st.streams,
                                                   out := s!"len={b.length}" :: st.out })
       | "S" :: sid :: rs =>
           let bytes := rs.foldl (fun acc r => match frameOf st r with
             | some (.ok b) => acc ++ b
             | _ => acc) []
           some { st with streams := setKey sid (bytes.length, bytes) st.streams,
                          out := s!"len={bytes.length}" :: st.out }
       | ["A", sid, r] =>
           (match st.streams.lookup sid, frameOf st r with
            | some (tot, rem), some (.ok b) =>
                some { st with streams := setKey sid (tot + b.length, rem ++ b) st.streams,
                               out := s!"len={b.length}" :: st.out }
            | _, _ => some { st with out := "len=0" :: st.out })
       | ["P", sid, r, pv] => (parseNat? pv).bind (fun pv => histParse st sid r pv)
       | ["P", sid, r] => histParse st sid r Model.Msg.PROTO_VERSION
       | _ => none)
  | _ => none

def hist (steps : List String) : Option String := do
  let init : HState := { magic := (magicOf? "mainnet").getD [], regs := [], streams := [], out := [] }
  let st ← steps.foldlM histStep init
  pure ("~".intercalate st.out.reverse)

def fromBytesReport (magic : Bytes) (pv : Nat) (s : Bytes) : String :=
  match Model.Msg.fromBytes magic pv s with
  | .ok (some m) =>
      let canonical := match Model.Msg.toBytes magic m with
        | .ok b => b == s.take b.length
        | .error _ => false
      showMsg m ++ (if canonical then "|W" else "|O")
  | .ok none => "none|O"
  | .error e => "err:" ++ e.family ++ (if Model.Msg.frameAccepted magic s then "|O" else "|W")

def handle (op : String) (args : List String) : Option String :=
  match op, args with
  | "c18.hist", steps => some ((hist steps).getD badArgs)
  | "c18.frame", [chain, msg] => some <|
      match magicOf? chain, parseMsg? msg with
      | some magic, some m =>
          Res.render ((Model.Msg.toBytes magic m).map toHex) ++ (if inDomain m then "|W" else "|O")
      | _, _ => badArgs
  | "c18.spec.frame", [chain, msg] => some <|
      match magicOf? chain, parseMsg? msg with
      | some magic, some m => toHex (Spec.Msg.frameMsg magic m)
      | _, _ => badArgs
  | "c18.payload", [msg] => some <|
      match parseMsg? msg with
      | some m => Res.render ((Model.Msg.msgSer m).map toHex)
      | _ => badArgs
  | "c18.parse", [chain, hex] => some <|
      match magicOf? chain, parseHex? hex with
      | some magic, some s => parseReport magic Model.Msg.PROTO_VERSION s
      | _, _ => badArgs
  | "c18.parse", [chain, hex, pv] => some <|
      match magicOf? chain, parseHex? hex, parseNat? pv with
      | some magic, some s, some pv => parseReport magic pv s
      | _, _, _ => badArgs
  | "c18.frombytes", [chain, hex] => some <|
      match magicOf? chain, parseHex? hex with
      | some magic, some s => fromBytesReport magic Model.Msg.PROTO_VERSION s
      | _, _ => badArgs
  | "c18.frombytes", [chain, hex, pv] => some <|
      match magicOf? chain, parseHex? hex, parseNat? pv with
      | some magic, some s, some pv => fromBytesReport magic pv s
      | _, _, _ => badArgs
  | "c18.magic", [chain] => some <|
      match magicOf? chain with
      | some m => toHex m
      | none => badArgs
  | _, _ => none

end Driver.C18
