/-
  C12 line-protocol ops.  A case is a history of SelectParams names (`,`-separated; each call's
  ValueError is caught by the caller) followed by one action under the chain that history selects.
  Text arguments travel as hex of their UTF-8 encoding.
-/
import Driver.Util
import Driver.C10
import BtcVerif.Crypto.Sha256
import BtcVerif.Crypto.Ripemd160
import BtcVerif.Model.Addr

namespace Driver.C12
open BtcVerif Driver
open BtcVerif.Spec.Addr (AddrClass Addr)
open BtcVerif.Model.Addr

def H : Bytes → Bytes := Crypto.hash256
def H160 : Bytes → Bytes := Crypto.hash160

def showAddr (a : Addr) : String := a.cls.name ++ "," ++ toString a.ver ++ "," ++ toHex a.payload

def showRes {α : Type} (f : α → String) : Res α → String
  | .ok a => f a
  | .error e => "err:" ++ e.family

def parseClass? : String → Option AddrClass
  | "P2PKH" => some .p2pkh | "P2SH" => some .p2sh | "P2WPKH" => some .p2wpkh | "P2WSH" => some .p2wsh
  | _ => none

def parseBool? : String → Option Bool
  | "1" => some true | "0" => some false | _ => none

/-- the SelectParams calls a case makes before its action: a history that starts with the marker
    `@fresh` runs in freshly imported modules (no call before the listed ones); any other history is
    run by the harness after its reset call `SelectParams('mainnet')` -/
def histNames (hist : String) : List String :=
  match splitList hist ',' with
  | "@fresh" :: r => r
  | l => "mainnet" :: l

def chainOf (hist : String) : Spec.ChainParams := (runHistory (histNames hist)).params

def coreKind : CoreObj → String
  | .full _ => "same-object"
  | .coreOnly _ => "core-only"

/-- address, its text and its scriptPubKey under `chain` -/
def showFull (chain : Spec.ChainParams) (r : Res Addr) : String :=
  match r with
  | .error e => "err:" ++ e.family
  | .ok a => showAddr a ++ "|" ++ showRes String.ofList (toText H chain a) ++ "|" ++ showRes toHex (toScript chain a)

def className : AddrClass → String
  | .p2pkh => "P2PKHBitcoinAddress" | .p2sh => "P2SHBitcoinAddress"
  | .p2wpkh => "P2WPKHBitcoinAddress" | .p2wsh => "P2WSHBitcoinAddress"

/-- observers of one address instance under the currently selected chain, in the given order -/
def observe (chain : Spec.ChainParams) (a : Addr) (obs : String) : String :=
  joinWith "/" <| obs.toList.map fun o =>
    match o with
    | 's' => showRes String.ofList (toText H chain a)
    | 'b' => toHex a.payload
    | 'k' => showRes toHex (toScript chain a)
    | 'v' => toString a.ver
    | 'r' => showRes (fun t => className a.cls ++ "('" ++ String.ofList t ++ "')") (toText H chain a)
    | 'e' => "True"                          -- a == bytes(a)
    | 'h' => "True"                          -- hash(a) == hash(bytes(a))
    | _ => "?"

/-- one step of a history; state = selected chain and the last address object created -/
def seqStep (acc : (ChainState × Option Addr) × List String) (step : String) :
    (ChainState × Option Addr) × List String :=
  let ((st, last), outs) := acc
  let step := if step.startsWith "=" then (step.drop 1).toString else step
  let made := fun (r : Res Addr) =>
    match r with
    | .ok a => ((st, some a), outs ++ [showAddr a])
    | .error e => ((st, last), outs ++ ["err:" ++ e.family])
  match step.splitOn ":" with
  | ["sel", n] =>
    let (st', e) := selectParams st n
    ((st', last), outs ++ [match e with | none => "ok" | some e => "err:" ++ e.family])
  | ["parse", t] =>
    (match C10.parseText? t with
     | some t => made (parse H st.params t)
     | none => ((st, last), outs ++ [badArgs]))
  | ["spk", x] =>
    (match parseHex? x with
     | some x => made (fromScript H160 st.params x)
     | none => ((st, last), outs ++ [badArgs]))
  | ["p2pkh", x, nc, bare] =>
    (match parseHex? x, parseBool? nc, parseBool? bare with
     | some x, some nc, some bare => made (p2pkhFromScript H160 st.params x nc bare)
     | _, _, _ => ((st, last), outs ++ [badArgs]))
  | ["o", obs] =>
    ((st, last), outs ++ [match last with | some a => observe st.params a obs | none => "none"])
  | _ => ((st, last), outs ++ [badArgs])

def handle (op : String) (args : List String) : Option String :=
  match op, args with
  -- a history of selections, conversions and observations in one process (starts after the harness's
  -- reset call SelectParams('mainnet')); every step answers from the selected chain alone
  -- direct from_bytes calls of the address classes: cls ∈ B58 P2SH P2PKH (ver = nVersion or "none") and
  -- B32 P2WSH P2WPKH (ver = witver; the two subclasses inherit CBech32BitcoinAddress.from_bytes)
  | "c12.frombytes", [hist, cls, ver, data] => some <| match parseHex? data with
      | none => badArgs
      | some d =>
        let chain := chainOf hist
        let v? : Option (Option Int) := if ver == "none" then some none else (parseInt? ver).map some
        (match cls, v? with
         | "B58", some (some v) => showFull chain (base58FromBytes chain d v)
         | "P2SH", some v => showFull chain (subclassFromBytes chain chain.scriptAddr d v)
         | "P2PKH", some v => showFull chain (subclassFromBytes chain chain.pubkeyAddr d v)
         | "B32", some (some v) | "P2WSH", some (some v) | "P2WPKH", some (some v) =>
             if v < 0 then badArgs else showFull chain (bech32FromBytes v.toNat (d.map UInt8.toNat))
         | _, _ => badArgs)
  | "c12.seq", steps => some <|
      let init : (ChainState × Option Addr) × List String := ((runHistory ["mainnet"], none), [])
      joinWith " ; " (steps.foldl seqStep init).2
  -- the state a history leaves, and the outcome of every call
  | "c12.select", [hist] => some <|
      let names := histNames hist
      let step := fun (acc : ChainState × List String) n =>
        let (st, e) := selectParams acc.1 n
        (st, acc.2 ++ [match e with | none => "ok" | some e => "err:" ++ e.family])
      let (st, outs) := names.foldl step (initState, [])
      -- the reset call of a non-fresh case is not part of the reported outcomes
      let outs := match splitList hist ',' with
        | "@fresh" :: _ => outs
        | _ => outs.drop 1
      st.params.name ++ "," ++ st.coreparams.fields.name ++ "," ++ coreKind st.coreparams ++ "," ++
        st.params.bech32Hrp ++ "," ++ toString st.params.pubkeyAddr ++ "," ++ toString st.params.scriptAddr ++
        "|" ++ joinWith "," outs
  -- standard script → address → text → address → script
  | "c12.conv", [hist, tmpl, payload] => some <| match parseClass? tmpl, parseHex? payload with
      | some t, some p =>
        let chain := chainOf hist
        let spk := Spec.Addr.stdScript t p
        (match fromScript H160 chain spk with
         | .error e => "err:" ++ e.family ++ "@fromScript"
         | .ok a =>
           match toText H chain a with
           | .error e => showAddr a ++ "|err:" ++ e.family ++ "@str"
           | .ok text =>
             match parse H chain text with
             | .error e => showAddr a ++ "|" ++ String.ofList text ++ "|err:" ++ e.family ++ "@parse"
             | .ok a' =>
               showAddr a ++ "|" ++ String.ofList text ++ "|" ++ showAddr a' ++ "|" ++
                 showRes toHex (toScript chain a') ++ "|" ++ showRes String.ofList (toText H chain a'))
      | _, _ => badArgs
  | "c12.fromspk", [hist, spk] => some <| match parseHex? spk with
      | some spk => let chain := chainOf hist; showFull chain (fromScript H160 chain spk)
      | none => badArgs
  | "c12.p2pkh", [hist, spk, nc, bare] => some <| match parseHex? spk, parseBool? nc, parseBool? bare with
      | some spk, some nc, some bare =>
        let chain := chainOf hist; showFull chain (p2pkhFromScript H160 chain spk nc bare)
      | _, _, _ => badArgs
  | "c12.parse", [hist, text] => some <| match C10.parseText? text with
      | some s => let chain := chainOf hist; showFull chain (parse H chain s)
      | none => badArgs
  -- an address object created under one selection and used under another
  | "c12.stale", [hist1, spk, hist2] => some <| match parseHex? spk with
      | some spk =>
        let st1 := runHistory (histNames hist1)
        let st2 := (splitList hist2 ',').foldl (fun st n => (selectParams st n).1) st1
        (match fromScript H160 st1.params spk with
         | .error e => "err:" ++ e.family
         | .ok a => showAddr a ++ "|" ++ showRes String.ofList (toText H st2.params a) ++ "|" ++
             showRes toHex (toScript st2.params a))
      | none => badArgs
  -- For a script that (after canonicalisation when nc = 1) is `41 <65-byte key> ac`: the full outcome the
  -- KNOWN defect D18 produces (address of hash160 of 64 key bytes; created under hist1, shown under hist1+hist2)
  -- and the conforming outcome (Spec.Addr.barePubkeyAddr: hash160 of the whole key), separated by " ;; ".
  -- "n/a" for every other script.
  | "c12.bare.expect", [hist1, spk, nc, hist2] => some <| match parseHex? spk, parseBool? nc with
      | some spk, some nc =>
        let st1 := runHistory (histNames hist1)
        let st2 := (splitList hist2 ',').foldl (fun st n => (selectParams st n).1) st1
        let canon : Option Bytes := if nc then (match canonicalize spk with | .ok s => some s | .error _ => none) else some spk
        (match canon with
         | none => "n/a"
         | some s =>
           if s.length == 67 && s[0]? == some 0x41 && s[66]? == some 0xac then
             let coded := bareUncompressedAsCoded H160 st1.params s
             let conf : Res Addr := .ok (Spec.Addr.barePubkeyAddr H160 st1.params (slice s 1 66))
             showFull st2.params coded ++ " ;; " ++ showFull st2.params conf
           else "n/a")
      | _, _ => badArgs
  | _, _ => none

end Driver.C12
