/-
  C02 — line-protocol ops of the identifier model (digests with the Lean SHA-256).

    c02.ids <tx>            GetTxid, GetHash, has_witness   → <txid>:<wtxid>:W<0|1> | err:<family>
    c02.spec.ids <tx>       Spec.txid, Spec.wtxid           → <txid>:<wtxid>:W<0|1>
    c02.hdrhash <header>    CBlockHeader.GetHash            → hex
    c02.blockhash <block>   CBlock.GetHash                  → hex
    c02.spec.blockhash <block>   H(80-byte header)          → hex
    c02.eq <tx> <tx>        Serializable.__eq__             → 1 | 0 | err:<family>
    c02.obj <kind> <obj>    GetHash() of an object of any serialisable class          → hex
    c02.objpair <kind> <a> <b>   a == b (by serialisation), GetHash of both       → <0|1>:<hashA>:<hashB>
      kind ∈ outpoint (hash,n) | txin | txout | swit | inwit (stack) | wit | tx | hdr | blk
    c02.hist.tx / c02.hist.blk <obj> <obsA> <obsB>   two observers on ONE object (see Driver/C01.lean) → <ansA>|<ansB>
    c02.objcross <kindA> <a> <kindB> <b>   a == b for objects of any two classes (NotImplemented → False)  → 1 | 0
    c02.pyhash <kind> <obj>   Model.objPyHashWith (for tx also Model.pyHashWith) run with the injective
                              stand-in `pyHash bs = leNat (bs ++ [1])`; the harness decodes the byte string
                              the model hashes and applies CPython's hash() to it      → hexadecimal | err:<family>
-/
import Driver.Util
import Driver.TxFmt
import Driver.C01
import BtcVerif.Model.Ident
import BtcVerif.Spec.Ident

namespace Driver.C02
open BtcVerif Driver Driver.TxFmt
open BtcVerif.Model.Ident

def wflag (t : Tx) : String := if t.hasWitness then "W1" else "W0"

def ids (t : Tx) : Res String := do
  let a ← getTxid t
  let b ← getHash t
  pure s!"{toHex a}:{toHex b}:{wflag t}"

def parseOutPoint? (s : String) : Option OutPoint :=
  match s.splitOn "," with
  | [h, n] => do
      let h ← parseHex? h; let n ← parseNat? n
      pure { hash := h, n := n }
  | _ => none

def parseObj? (kind s : String) : Option Obj :=
  match kind with
  | "outpoint" => (parseOutPoint? s).map .outPoint
  | "txin" => (parseTxIn? s).map .txIn
  | "txout" => (parseTxOut? s).map .txOut
  | "swit" => (parseStack? s).map .scriptWit
  | "inwit" => (parseStack? s).map .inWit
  | "wit" => (parseWit? s).map .wit
  | "tx" => (parseTx? s).map .tx
  | "hdr" => (parseHeader? s).map .header
  | "blk" => (parseBlock? s).map .block
  | _ => none

def objPair (a b : Obj) : Res String := do
  let e ← objEq ⟨.immutable, a⟩ ⟨.mutable, b⟩
  let ha ← a.getHashWith Crypto.hash256
  let hb ← b.getHashWith Crypto.hash256
  pure s!"{if e then "1" else "0"}:{toHex ha}:{toHex hb}"

/-- injective stand-in for CPython's `hash` of a bytes object (the preimage can be read back) -/
def pyHashStandIn (bs : Bytes) : Int := Int.ofNat (leNat (bs ++ [1]))

/-- the stand-in value in hexadecimal (it is never negative) -/
def hexOfInt (i : Int) : String := String.ofList (Nat.toDigits 16 i.toNat)

def pyHashOp (o : Obj) : Res String := do
  let h ← objPyHashWith pyHashStandIn ⟨.immutable, o⟩
  let h' ← objPyHashWith pyHashStandIn ⟨.mutable, o⟩
  if h ≠ h' then throw (.py "model-class-dependent-hash")
  match o with
  | .tx t =>
      let h2 ← pyHashWith pyHashStandIn ⟨.mutable, t⟩
      if h2 ≠ h then throw (.py "model-tx-hash-differs")
      pure (hexOfInt h)
  | _ => pure (hexOfInt h)

def handle (op : String) (args : List String) : Option String :=
  match op, args with
  | "c02.ids", [t] => some <| match parseTx? t with
      | some t => Res.render (ids t)
      | none => badArgs
  | "c02.spec.ids", [t] => some <| match parseTx? t with
      | some t => s!"{toHex (Spec.Ident.txid Crypto.hash256 t)}:{toHex (Spec.Ident.wtxid Crypto.hash256 t)}:{wflag t}"
      | none => badArgs
  | "c02.hdrhash", [h] => some <| match parseHeader? h with
      | some h => Res.render ((headerHash h).map toHex)
      | none => badArgs
  | "c02.blockhash", [b] => some <| match parseBlock? b with
      | some b => Res.render ((blockHash b).map toHex)
      | none => badArgs
  | "c02.spec.blockhash", [b] => some <| match parseBlock? b with
      | some b => toHex (Spec.Ident.blockHash Crypto.hash256 b)
      | none => badArgs
  | "c02.obj", [k, a] => some <| match parseObj? k a with
      | some o => Res.render ((o.getHashWith Crypto.hash256).map toHex)
      | none => badArgs
  | "c02.objpair", [k, a, b] => some <| match parseObj? k a, parseObj? k b with
      | some a, some b => Res.render (objPair a b)
      | _, _ => badArgs
  | "c02.objcross", [ka, a, kb, b] => some <| match parseObj? ka a, parseObj? kb b with
      | some a, some b => Res.render ((objEq ⟨.immutable, a⟩ ⟨.mutable, b⟩).map fun r => if r then "1" else "0")
      | _, _ => badArgs
  | "c02.pyhash", [k, a] => some <| match parseObj? k a with
      | some o => Res.render (pyHashOp o)
      | none => badArgs
  | "c02.hist.tx", [t, a, b] => some (Driver.C01.histOp Driver.C01.obsTx (parseTx? t) a b)
  | "c02.hist.blk", [blk, a, b] => some (Driver.C01.histOp Driver.C01.obsBlk (parseBlock? blk) a b)
  | "c02.eq", [a, b] => some <| match parseTx? a, parseTx? b with
      | some a, some b =>
          Res.render ((pyEq ⟨.immutable, a⟩ ⟨.mutable, b⟩).map fun r => if r then "1" else "0")
      | _, _ => badArgs
  | _, _ => none

end Driver.C02
