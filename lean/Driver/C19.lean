/-
  C19 line-protocol ops.

    c19.amountIn  method text          -> satoshis | err:<family>       (Model.Rpc.amountOfVal: a number text, NaN, ±Infinity,
                                                                         null, true, false; bad-args otherwise)
    c19.amountOut method sat emitted   -> satoshis | inexact            (Model.Rpc.satoshisDenoted of the text the proxy emitted)
    c19.lx        str                  -> hex | err:py:Error
    c19.b2lx      hex                  -> str
    c19.chain     kind serverstr       -> hex(lx s) '|' b2lx(lx s)      (hash returned by one call, passed to the next)
    c19.tx        txfmt                -> hex(ser tx) '|' show(deserialize(unhex(hex)))      likewise c19.header, c19.block
    c19.unhex     str                  -> hex | err:py:Error            (unhexlify_str, x)
    c19.hex       hex                  -> str                           (hexlify_str, b2x)
    c19.reply     method replyspec     -> result:<v> | raise:<Class>:<code> | err:py:IndexError
    c19.seq       steps                -> a history on two proxies: step answers ';'-joined, then '#' ids of proxy 0 '#' ids of proxy 1
                                          step := flush | <p>|in|<method>|<text> | <p>|out|<method>|<sat>|<emitted> | <p>|reply|<method>|<spec>
                                                | <p>|chain|<kind>|<str>      (every answer is the stateless one; ids by Model.Rpc.idsSent per proxy)
    c19.ids       tokens               -> Model.Rpc.idsSent: the ids of the `_call` requests, ','-joined

    replyspec := none | nonjson=<i> | nonutf8=<i> | nonobj=<i> | obj:<err>:<res>
    err       := absent | null | other=<i> | dict=<code>
    code      := absent | empty | int=<n> | dec=<number text> | true | false | null | str | nan | inf | -inf | unhashable=<i>
    res       := absent | v=<text>
-/
import Driver.Util
import Driver.TxFmt
import BtcVerif.Model.Rpc
import BtcVerif.Model.Wire

namespace Driver.C19
open BtcVerif Driver
open BtcVerif.Model.Rpc

def parseCode? (s : String) : Option CodeVal :=
  if s = "absent" ∨ s = "empty" then some .absent          -- "empty": the error object is `{}`
  else if s = "true" then some (.bool true)
  else if s = "false" then some (.bool false)
  else if s = "null" then some .null
  else if s = "str" then some .str
  else if s = "nan" ∨ s = "inf" ∨ s = "-inf" then some .float
  else if s.startsWith "unhashable=" then some .unhashable
  else if s.startsWith "int=" then (parseInt? (s.drop 4).toString).map .int
  else if s.startsWith "dec=" then
    (scanNumber (s.drop 4).toString.toList).map (fun t => .dec t.neg t.coeff t.expo)
  else none

def parseAmountVal (s : String) : AmountVal :=
  if s = "NaN" then .nan
  else if s = "Infinity" then .inf false
  else if s = "-Infinity" then .inf true
  else if s = "null" then .null
  else if s = "true" then .bool true
  else if s = "false" then .bool false
  else .num s.toList

def parseErr? (s : String) : Option ErrVal :=
  if s = "absent" then some .absent
  else if s = "null" then some .null
  else if s.startsWith "other=" then some .other
  else if s.startsWith "dict=" then (parseCode? (s.drop 5).toString).map .dict
  else none

def parseRes? (s : String) : Option (Option String) :=
  if s = "absent" then some none
  else if s.startsWith "v=" then some (some (s.drop 2).toString)
  else none

def parseReply? (s : String) : Option Reply :=
  if s = "none" then some .noResponse
  else if s.startsWith "nonjson=" then some .nonJson
  else if s.startsWith "nonutf8=" then some .nonUtf8
  else if s.startsWith "nonobj=" then some .nonObject
  else match s.splitOn ":" with
    | ["obj", e, r] => do
        let e ← parseErr? e
        let r ← parseRes? r
        pure (.obj e r)
    | _ => none

def showOutcome : Outcome → String
  | .result v => "result:" ++ v
  | .raise cls code => "raise:" ++ cls ++ ":" ++ code
  | .pyExc cls => "err:py:" ++ cls

/-- history tokens: what becomes of each `_call` (the fate travels into `Req.call`) -/
def parseReq? (s : String) : Option Req :=
  if s = "batch" then some .batch
  else if s = "ok" then some (.call (.replied (.obj .null (some "1"))))
  else if s = "err" then some (.call (.replied (.obj (.dict (.int (-1))) (some "@null"))))
  else if s = "bad" then some (.call (.replied .nonJson))
  else if s = "none" then some (.call (.replied .noResponse))
  else if s = "miss" then some (.call (.replied (.obj .absent none)))
  else if s = "nonutf8" then some (.call (.replied .nonUtf8))
  else if s = "nonobj" then some (.call (.replied .nonObject))
  else if s = "connfail" ∨ s = "reqfail" then some (.call .connectionError)
  else none

/-- `X.deserialize(unhexlify_str(hexlify_str(obj.serialize())))` -/
def transport {α} (ser : α → Res Bytes) (de : Model.Wire.Parser α) (show_ : α → String) (obj : α) : String :=
  match ser obj with
  | .error e => "err:" ++ e.family
  | .ok b =>
    let h := hexlify b
    match unhexlify h with
    | .error e => h ++ "|err:" ++ e.family
    | .ok b' =>
      match Model.Wire.deserialize de b' with
      | .ok o => h ++ "|" ++ show_ o
      | .extra _ _ => h ++ "|err:extra"
      | .err e => h ++ "|err:" ++ e.family

def handle1 (op : String) (args : List String) : Option String :=
  match op, args with
  | "c19.amountIn", [_, text] => some <| match amountOfVal (parseAmountVal text) with
      | some r => Res.render (r.map toString)
      | none => badArgs
  | "c19.amountOut", [_, _, emitted] => some <| match satoshisDenoted emitted.toList with
      | some k => toString k
      | none => "inexact"
  | "c19.lx", [s] => some <| Res.render ((lx s).map toHex)
  | "c19.unhex", [s] => some <| Res.render ((unhexlify s).map toHex)
  | "c19.hex", [h] => some <| match parseHex? h with
      | some b => hexlify b
      | none => badArgs
  | "c19.b2lx", [h] => some <| match parseHex? h with
      | some b => b2lx b
      | none => badArgs
  | "c19.chain", [_, s] => some <| match lx s with
      | .ok b => toHex b ++ "|" ++ b2lx b
      | .error e => "err:" ++ e.family
  | "c19.tx", [t] => some <| match TxFmt.parseTx? t with
      | some t => transport (fun t => Model.Wire.serTx t) Model.Wire.deTx TxFmt.showTx t
      | none => badArgs
  | "c19.header", [h] => some <| match TxFmt.parseHeader? h with
      | some h => transport Model.Wire.serHeader Model.Wire.deHeader TxFmt.showHeader h
      | none => badArgs
  | "c19.block", [b] => some <| match TxFmt.parseBlock? b with
      | some b => transport (fun b => Model.Wire.serBlock b) Model.Wire.deBlock TxFmt.showBlock b
      | none => badArgs
  -- b2lx(block_hash) of something that is not bytes: TypeError re-raised by the wrapper (an argument check of
  -- the typed methods, outside the property; the harness also checks that no request was sent)
  | "c19.nonbytes", [_, _] => some "err:py:TypeError"
  | "c19.reply", [m, r] => some <| match parseReply? r with
      | some r => showOutcome (methodOutcome m r)
      | none => badArgs
  | "c19.ids", [toks] => some <| match ((splitList toks ',').filter (· ≠ "close")).mapM parseReq? with
      | some reqs => joinWith "," ((idsSent PState.init reqs).map toString)
      | none => badArgs
  | _, _ => none



/-- a placeholder fate for calls whose reply was a result -/
def fateOk : Fate := .replied (.obj .null (some "x"))

/-- one step of a history: its (stateless) answer and the `_call`s it makes on its proxy -/
def seqStep (fields : List String) : Option (String × Nat × List Req) :=
  match fields with
  | [p, "close"] => do
      let p ← parseNat? p
      pure ("-", p, [])                       -- `close()` sends nothing and leaves the counter alone
  | [p, "in", m, text] => do
      let p ← parseNat? p
      let o ← handle1 "c19.amountIn" [m, text]
      pure (o, p, [.call fateOk])
  | [p, "out", m, sat, emitted] => do
      let p ← parseNat? p
      let k ← parseNat? sat
      let o := match satoshisDenoted emitted.toList with
        | some d => if d = (k : Int) then toString k else "inexact"
        | none => "inexact"
      let _ := m
      pure (o, p, [.call fateOk])
  | [p, "reply", m, spec] => do
      let p ← parseNat? p
      let r ← parseReply? spec
      pure (showOutcome (methodOutcome m r), p, [.call (.replied r)])
  | [p, "chain", k, s] => do
      let p ← parseNat? p
      let o ← handle1 "c19.chain" [k, s]
      -- the second call is made only when the first one returned a hash
      pure (o, p, match lx s with
                   | .ok _ => [.call fateOk, .call (.replied (.obj (.dict (.int (-1))) (some "@null")))]
                   | .error _ => [.call fateOk])
  | _ => none

def handle (op : String) (args : List String) : Option String :=
  match op, args with
  | "c19.seq", [steps] => some <|
      match (splitList steps ';').mapM (fun st =>
          if st = "flush" then some ("-", 0, []) else seqStep (st.splitOn "|")) with
      | some rs =>
          let outs := rs.map (·.1)
          let reqsOf (p : Nat) : List Req := (rs.filter (fun r => r.2.1 = p)).flatMap (·.2.2)
          let ids (p : Nat) : String := joinWith "," ((idsSent PState.init (reqsOf p)).map toString)
          joinWith ";" outs ++ "#" ++ ids 0 ++ "#" ++ ids 1
      | none => badArgs
  | _, _ => handle1 op args

end Driver.C19
