/-
  C06 / C07 — line-protocol ops of the script interpreter model and of the reference interpreter.

    c06.eval    script stack flags tx inIdx   Model.evalScript ~ Ref.evalScript
                   → `<model> ~ <ref>` with  `ok:<n>:<item hex,…>` (bottom first) | `err:<family>`
    c06.verify  scriptSig scriptPubKey flags tx inIdx   Model.verifyScript ~ Ref.verifyScript
                   → `<model> ~ <ref>` with  `ok` | `err:<family>`
    (`<ref>` is `-` outside the reference's domain: negative inIdx or CLEANSTACK without P2SH)
    c06.seq     (kind a0 a1 flags tx inIdx txref)*   a history of calls in one process: kind `e` = eval
                   (a0 = script, a1 = stack), kind `v` = verify (a0 = scriptSig, a1 = scriptPubKey); `txref`
                   says how the harness obtains txTo (the model is a pure function and ignores it)
                   → the step replies joined by ` ;; `
    c06.num     int                           Model.bn2vch ~ Ref.scriptNumSer          (hex ~ hex)
    c06.dec     hex                           Model.vch2bn ~ Ref.scriptNumDecode       (int ~ int)

  flags: decimal bit mask 1 = P2SH, 2 = NULLDUMMY, 4 = CLEANSTACK, 8 = DISCOURAGE_UPGRADABLE_NOPS.
  stack: `,`-separated hex items, bottom first; `-` for the empty stack.

  The concrete `Env` lives here (not in Model/Spec): SHA-1 / RIPEMD-160 / SHA-256 from Crypto/*, and
  `sigCheck` = driver-level transcription of `RawSignatureHash` (serialisation through Model.Wire,
  Python index semantics for a negative in-range `inIdx`) + SEC1 point decoding + strict DER +
  ECDSA verification from Crypto/Secp256k1.  The transaction must serialise (fields in wire range),
  otherwise the request is answered `bad-args`.
-/
import Driver.Util
import Driver.TxFmt
import BtcVerif.Model.ScriptEval
import BtcVerif.Spec.ScriptRef
import BtcVerif.Model.Wire
import BtcVerif.Crypto.Sha256
import BtcVerif.Crypto.Sha1
import BtcVerif.Crypto.Ripemd160
import BtcVerif.Crypto.Secp256k1
import BtcVerif.Crypto.Der

namespace Driver.C06
open BtcVerif Driver BtcVerif.Spec.Script

def hashOne : Bytes := 1 :: List.replicate 31 0

/-- Python `l[i]` position for an int index -/
def effIdx (len : Nat) (i : Int) : Option Nat :=
  if 0 ≤ i then (if i.toNat < len then some i.toNat else none)
  else if (-i).toNat ≤ len then some (len - (-i).toNat) else none

def blankTxOut : TxOut := { nValue := -1, scriptPubKey := [] }

/-- `FindAndDelete(script, CScript([OP_CODESEPARATOR]))` on a script that parses -/
def stripCodesep (script : Bytes) : Bytes :=
  match Model.ScriptEval.findAndDelete ⟨[], [], 0⟩ script [0xab] with
  | .ok b => b
  | .error _ => script

/-- script.py `RawSignatureHash(script, txTo, inIdx, hashtype)[0]`, on the inputs for which it
    returns (the raising cases are explicit in `Model.ScriptEval.checkSig`) -/
def rawSigHash (tx : Tx) (inIdx : Int) (script : Bytes) (ht : Nat) : Bytes :=
  if inIdx ≥ (tx.vin.length : Int) then hashOne else
  match effIdx tx.vin.length inIdx with
  | none => hashOne
  | some k =>
    let sc := stripCodesep script
    let vin1 := (tx.vin.map fun i => { i with scriptSig := [] }).modify k (fun i => { i with scriptSig := sc })
    let zeroOthers := vin1.mapIdx fun j i => if (j : Int) ≠ inIdx then { i with nSequence := 0 } else i
    let m := ht % 32
    let pruned : Option (List TxIn × List TxOut) :=
      if m = 2 then some (zeroOthers, [])
      else if m = 3 then
        (if inIdx ≥ (tx.vout.length : Int) then none else
         match effIdx tx.vout.length inIdx with
         | none => none
         | some ko =>
           match tx.vout[ko]? with
           | none => none
           | some tmp => some (zeroOthers, List.replicate inIdx.toNat blankTxOut ++ [tmp]))
      else some (vin1, tx.vout)
    match pruned with
    | none => hashOne
    | some (vin2, vout2) =>
      let vin3 := if ht / 128 % 2 = 1 then (match vin2[k]? with | some x => [x] | none => []) else vin2
      match Model.Wire.serTx { tx with vin := vin3, vout := vout2, wit := [] } with
      | .ok s => Crypto.hash256 (s ++ leBytes 4 ht)
      | .error _ => hashOne

/-- `CECKey.set_pubkey` + `CECKey.verify` on the property's signature domain -/
def ecdsaCheck (body pubkey digest : Bytes) : Bool :=
  match Crypto.Secp256k1.decode pubkey, Crypto.Secp256k1.derDecodeStrict body with
  | some P, some (r, s) => Crypto.Secp256k1.verify P (Crypto.Secp256k1.digestNat digest) r s
  | _, _ => false

def concreteHashes : Hashes :=
  { sha1 := Crypto.sha1, ripemd160 := Crypto.ripemd160, sha256 := Crypto.sha256 }

def concreteEnv (tx : Tx) (inIdx : Int) : Env :=
  { hashes := concreteHashes
    sigCheck := fun body pubkey script ht => ecdsaCheck body pubkey (rawSigHash tx inIdx script ht) }

def mkCtx (tx : Tx) (inIdx : Int) : Model.ScriptEval.Ctx :=
  { env := concreteEnv tx inIdx, inIdx := inIdx, nVin := tx.vin.length, nVout := tx.vout.length }

def parseFlags? (s : String) : Option Flags := do
  let n ← parseNat? s
  if n ≥ 16 then none else
  pure { p2sh := n % 2 = 1, nullDummy := n / 2 % 2 = 1, cleanStack := n / 4 % 2 = 1,
         discourageNops := n / 8 % 2 = 1 }

/-- bottom-first item list → top-first stack -/
def parseStack? (s : String) : Option (List Bytes) :=
  if s == "-" then some [] else ((s.splitOn ",").mapM parseHex?).map List.reverse

def showStack (st : List Bytes) : String :=
  s!"ok:{st.length}:" ++ ",".intercalate (st.reverse.map toHex)

def showErr (e : Model.ScriptEval.Err) : String := "err:" ++ e.toExc.family

/-- the transaction must serialise, so that the sighash transcription has no error branch -/
def txOk (tx : Tx) : Bool :=
  match Model.Wire.serTx tx with
  | .ok _ => true
  | .error _ => false

def evalBoth (script : Bytes) (stack : List Bytes) (fl : Flags) (tx : Tx) (inIdx : Int) : String :=
  let m := match Model.ScriptEval.evalScript (mkCtx tx inIdx) fl stack script with
    | .ok st => showStack st
    | .error e => showErr e
  let r := if inIdx < 0 then "-" else
    match Ref.evalScript (concreteEnv tx inIdx) fl stack script with
    | some st => showStack st
    | none => "err:validation"
  m ++ " ~ " ++ r

def verifyBoth (sig spk : Bytes) (fl : Flags) (tx : Tx) (inIdx : Int) : String :=
  let m := match Model.ScriptEval.verifyScript (mkCtx tx inIdx) fl sig spk with
    | .ok _ => "ok"
    | .error e => showErr e
  let r := if inIdx < 0 ∨ !fl.admissible then "-" else
    if Ref.verifyScript (concreteEnv tx inIdx) fl sig spk then "ok" else "err:validation"
  m ++ " ~ " ++ r

def stepReply (kind a0 a1 fl tx idx : String) : String :=
  match parseHex? a0, parseFlags? fl, TxFmt.parseTx? tx, parseInt? idx with
  | some a0, some fl, some tx, some idx =>
      if !txOk tx then badArgs
      else if kind == "e" then
        (match parseStack? a1 with
         | some st => evalBoth a0 st fl tx idx
         | none => badArgs)
      else if kind == "v" then
        (match parseHex? a1 with
         | some spk => verifyBoth a0 spk fl tx idx
         | none => badArgs)
      else badArgs
  | _, _, _, _ => badArgs

/-- replies of a history: groups of 7 fields -/
def seqReplies : List String → Option (List String)
  | [] => some []
  | kind :: a0 :: a1 :: fl :: tx :: idx :: _txref :: rest => do
      let rs ← seqReplies rest
      pure (stepReply kind a0 a1 fl tx idx :: rs)
  | _ => none

def handle (op : String) (args : List String) : Option String :=
  match op, args with
  | "c06.seq", steps => some <|
      match seqReplies steps with
      | some rs => if rs.any (· == badArgs) then badArgs else " ;; ".intercalate rs
      | none => badArgs
  | "c06.eval", [sc, st, fl, tx, idx] => some <|
      match parseHex? sc, parseStack? st, parseFlags? fl, TxFmt.parseTx? tx, parseInt? idx with
      | some sc, some st, some fl, some tx, some idx =>
          if txOk tx then evalBoth sc st fl tx idx else badArgs
      | _, _, _, _, _ => badArgs
  | "c06.verify", [sig, spk, fl, tx, idx] => some <|
      match parseHex? sig, parseHex? spk, parseFlags? fl, TxFmt.parseTx? tx, parseInt? idx with
      | some sig, some spk, some fl, some tx, some idx =>
          if txOk tx then verifyBoth sig spk fl tx idx else badArgs
      | _, _, _, _, _ => badArgs
  | "c06.num", [v] => some <|
      match parseInt? v with
      | some v =>
          (match Model.ScriptEval.bn2vch v with
           | .ok b => toHex b
           | .error e => showErr e) ++ " ~ " ++ toHex (Ref.scriptNumSer v)
      | none => badArgs
  | "c06.dec", [h] => some <|
      match parseHex? h with
      | some b =>
          (match Model.ScriptEval.vch2bn b with
           | .ok v => toString v
           | .error e => showErr e) ++ " ~ " ++ toString (Ref.scriptNumDecode b)
      | none => badArgs
  | _, _ => none

end Driver.C06
