/-
  C06 / C07 — line-protocol ops of the script interpreter model and of the reference interpreter.

    c06.eval    script stack flags tx inIdx   Model.evalScript ~ Ref.evalScript
                   → `<model> ~ <ref>` with  `ok:<n>:<item hex,…>` (bottom first) | `err:<family>`
    c06.verify  scriptSig scriptPubKey flags tx inIdx   Model.verifyScript ~ Ref.verifyScript
                   → `<model> ~ <ref>` with  `ok` | `err:<family>`
    (`<ref>` is `-` outside the domain of the equivalence theorems: a negative inIdx that does not wrap
     around both vin and vout — `IdxOK` of Props/C06Concrete.lean — or CLEANSTACK without P2SH)
    c06.seq     (kind a0 a1 flags tx inIdx txref)*   a history of calls in one process: kind `e` = eval
                   (a0 = script, a1 = stack), kind `E` = eval with the caller's stack list of the previous eval
                   step (as that call left it), kind `v` = verify (a0 = scriptSig, a1 = scriptPubKey), kind `o` =
                   an observer call on the script / transaction object (fixed reply `ok:obs`); `txref`
                   says how the harness obtains txTo (the model is a pure function and ignores it)
                   → the step replies joined by ` ;; `
    c06.num     int                           Model.bn2vch ~ Ref.scriptNumSer          (hex ~ hex)
    c06.dec     hex                           Model.vch2bn ~ Ref.scriptNumDecode       (int ~ int)

  flags: decimal bit mask 1 = P2SH, 2 = NULLDUMMY, 4 = CLEANSTACK, 8 = DISCOURAGE_UPGRADABLE_NOPS.
  stack: `,`-separated hex items, bottom first; `-` for the empty stack.

  The concrete `Env` is `Model.ScriptEval.Real.realEnv` (Model/ScriptEnvReal.lean): SHA-1 / RIPEMD-160 /
  SHA-256 from Crypto/*, `sigCheck` = `Model.Sighash.rawSignatureHash` (C03's model) + SEC1 point
  decoding + strict DER + ECDSA verification from Crypto/Secp256k1 — the very term the theorems of
  Props/C06Concrete.lean are about.  No transaction the text form can express is refused: fields
  outside wire range (nVersion ≥ 2³¹, nValue ≥ 2⁶³, nLockTime / nSequence / prevout.n ≥ 2³², hash ≠ 32 bytes)
  and a negative `inIdx` get the modelled outcome (`err:py:error` = struct.error, `err:valueerr`,
  `err:py:IndexError` where RawSignatureHash raises).  NOT expressible: negative values in the unsigned
  fields (`Tx` has `Nat` there) — `bad-args`; such mutable objects are outside every model.
-/
import Driver.Util
import Driver.TxFmt
import BtcVerif.Model.ScriptEval
import BtcVerif.Model.ScriptEnvReal
import BtcVerif.Spec.ScriptRef
import BtcVerif.Model.Wire
import BtcVerif.Crypto.Sha256
import BtcVerif.Crypto.Sha1
import BtcVerif.Crypto.Ripemd160
import BtcVerif.Crypto.Secp256k1
import BtcVerif.Crypto.Der

namespace Driver.C06
open BtcVerif Driver BtcVerif.Spec.Script

/-- the concrete environment is `Model.ScriptEval.Real` (the term Props/C06Concrete.lean talks about) -/
def concreteEnv (tx : Tx) (inIdx : Int) : Env := Model.ScriptEval.Real.realEnv tx inIdx

def mkCtx (tx : Tx) (inIdx : Int) : Model.ScriptEval.Ctx := Model.ScriptEval.Real.realCtx tx inIdx

def parseFlags? (s : String) : Option Flags := do
  let n ← parseNat? s
  if n ≥ 16 then none else
  pure { p2sh := n % 2 = 1, nullDummy := n / 2 % 2 = 1, cleanStack := n / 4 % 2 = 1,
         discourageNops := n / 8 % 2 = 1 }

/-- bottom-first item list → top-first stack -/
def parseStack? (s : String) : Option (List Bytes) :=
  if s == "-" then some [] else ((s.splitOn ",").mapM parseHex?).map List.reverse

def showStack (st : List Bytes) : String :=
  s!"ok:{st.length}:" ++ ",".intercalate (st.reverse.map toHex)

/-- `IdxOK` of Props/C06Concrete.lean: the indices for which the equivalence theorems speak
    (non-negative, or negative and wrapping around both `vin` and `vout`) -/
def idxOK (tx : Tx) (inIdx : Int) : Bool :=
  decide (0 ≤ inIdx) || (decide (-(tx.vin.length : Int) ≤ inIdx) && decide (-(tx.vout.length : Int) ≤ inIdx))

def showItems (st : List Bytes) : String := ",".intercalate (st.reverse.map toHex)

/-- `detail`: for an EvalScriptError also the captured state `{stack|altstack|nOpCount}` (items bottom
    first; the attributes that are `None` in Python show as empty / 0), `{verify}` for VerifyScriptError -/
def showErr (detail : Bool) (e : Model.ScriptEval.Err) : String :=
  let base := "err:" ++ e.toExc.family
  if !detail then base else
  match e with
  | .eval cap => base ++ "{" ++ showItems cap.stack ++ "|" ++ showItems cap.altstack ++ "|" ++ toString cap.nOpCount ++ "}"
  | .verify => base ++ "{verify}"
  | _ => base

def evalBoth (detail : Bool) (script : Bytes) (stack : List Bytes) (fl : Flags) (tx : Tx) (inIdx : Int) : String :=
  let m := match Model.ScriptEval.evalScript (mkCtx tx inIdx) fl stack script with
    | .ok st => showStack st
    | .error e => showErr detail e
  let r := if !idxOK tx inIdx then "-" else
    match Ref.evalScript (concreteEnv tx inIdx) fl stack script with
    | some st => showStack st
    | none => "err:validation"
  m ++ " ~ " ++ r

def verifyBoth (detail : Bool) (sig spk : Bytes) (fl : Flags) (tx : Tx) (inIdx : Int) : String :=
  let m := match Model.ScriptEval.verifyScript (mkCtx tx inIdx) fl sig spk with
    | .ok _ => "ok"
    | .error e => showErr detail e
  let r := if !idxOK tx inIdx || !fl.admissible then "-" else
    if Ref.verifyScript (concreteEnv tx inIdx) fl sig spk then "ok" else "err:validation"
  m ++ " ~ " ++ r

def stepReply (detail : Bool) (kind a0 a1 fl tx idx : String) : String :=
  match parseHex? a0, parseFlags? fl, TxFmt.parseTx? tx, parseInt? idx with
  | some a0, some fl, some tx, some idx =>
      if kind == "e" then
        (match parseStack? a1 with
         | some st => evalBoth detail a0 st fl tx idx
         | none => badArgs)
      else if kind == "v" then
        (match parseHex? a1 with
         | some spk => verifyBoth detail a0 spk fl tx idx
         | none => badArgs)
      else badArgs
  | _, _, _, _ => badArgs

/-- the caller's stack list after `EvalScript(stack, script, …)`: the final stack, or — the list is
    mutated in place — the state an EvalScriptError captured; unknown after any other exception -/
def stackAfter (script : Bytes) (stack : List Bytes) (fl : Flags) (tx : Tx) (inIdx : Int) : Option (List Bytes) :=
  match Model.ScriptEval.evalScript (mkCtx tx inIdx) fl stack script with
  | .ok st => some st
  | .error (.eval cap) => some cap.stack
  | .error _ => none

/-- replies of a history: groups of 7 fields.  The model is a pure function of each step's arguments; the only
    thing threaded through a history is what the CALLER keeps: kind `E` evaluates with the very stack list of the
    previous `e` / `E` step (`prev`).  Kind `o` (an observer call on the script / transaction object between two
    evaluations: is_p2sh, GetSigOpCount, GetTxid, …) has the fixed reply `ok:obs` — its result is C08's / C01's
    business, here it must only leave no trace. -/
def seqReplies (detail : Bool) : Option (List Bytes) → List String → Option (List String)
  | _, [] => some []
  | prev, kind :: a0 :: a1 :: fl :: tx :: idx :: _txref :: rest =>
      if kind == "o" then do
        let rs ← seqReplies detail prev rest
        pure ("ok:obs ~ ok:obs" :: rs)
      else if kind == "e" || kind == "E" then
        match parseHex? a0, (if kind == "E" then prev else parseStack? a1), parseFlags? fl, TxFmt.parseTx? tx, parseInt? idx with
        | some sc, some st, some fl, some tx, some idx => do
            let rs ← seqReplies detail (stackAfter sc st fl tx idx) rest
            pure (evalBoth detail sc st fl tx idx :: rs)
        | _, _, _, _, _ => some [badArgs]
      else do
        let rs ← seqReplies detail prev rest
        pure (stepReply detail kind a0 a1 fl tx idx :: rs)
  | _, _ => none

/-- `detail = true` is what C07 asks for (captured error state printed) -/
def handleWith (detail : Bool) (op : String) (args : List String) : Option String :=
  match op, args with
  | "c06.seq", steps => some <|
      match seqReplies detail none steps with
      | some rs => if rs.any (· == badArgs) then badArgs else " ;; ".intercalate rs
      | none => badArgs
  | "c06.eval", [sc, st, fl, tx, idx] => some <| stepReply detail "e" sc st fl tx idx
  | "c06.verify", [sig, spk, fl, tx, idx] => some <| stepReply detail "v" sig spk fl tx idx
  | "c06.num", [v] => some <|
      match parseInt? v with
      | some v =>
          (match Model.ScriptEval.bn2vch v with
           | .ok b => toHex b
           | .error e => showErr false e) ++ " ~ " ++ toHex (Ref.scriptNumSer v)
      | none => badArgs
  | "c06.dec", [h] => some <|
      match parseHex? h with
      | some b =>
          (match Model.ScriptEval.vch2bn b with
           | .ok v => toString v
           | .error e => showErr false e) ++ " ~ " ++ toString (Ref.scriptNumDecode b)
      | none => badArgs
  | _, _ => none

def handle (op : String) (args : List String) : Option String := handleWith false op args

end Driver.C06
