/-
  C04 — line-protocol ops for the BIP143 (witness v0) signature hash.

    c04.bip143       script tx idx ht amount|none   Model.signatureHashWitnessV0 → digest-hex | err:<family>
    c04.spec.bip143  script tx idx ht amount        Spec.bip143Sighash (ht ≥ 0)  → digest-hex | undefined
    c04.hist         script q1 q2 …                 see Driver/C03.lean `c03.hist`
-/
import Driver.Util
import Driver.TxFmt
import BtcVerif.Model.Sighash
import BtcVerif.Spec.Sighash
import Driver.C03

namespace Driver.C04
open BtcVerif Driver

def parseAmount? (s : String) : Option (Option Int) :=
  if s == "none" then some none else (parseInt? s).map some

def handle (op : String) (args : List String) : Option String :=
  match op, args with
  | "c04.bip143", [sc, tx, idx, ht, am] => some <|
      match parseHex? sc, TxFmt.parseTx? tx, parseNat? idx, parseInt? ht, parseAmount? am with
      | some sc, some tx, some idx, some ht, some am =>
          Res.render ((Model.Sighash.signatureHashWitnessV0 sc tx idx ht am).map toHex)
      | _, _, _, _, _ => badArgs
  | "c04.hist", args => some (C03.histReply args)      -- same thin history op as c03.hist
  | "c04.spec.bip143", [sc, tx, idx, ht, am] => some <|
      match parseHex? sc, TxFmt.parseTx? tx, parseNat? idx, parseNat? ht, parseInt? am with
      | some sc, some tx, some idx, some ht, some am =>
          (match Spec.Sighash.bip143Sighash sc tx idx ht am with
           | some d => toHex d
           | none => "undefined")
      | _, _, _, _, _ => badArgs
  | _, _ => none

end Driver.C04
