import Driver.Util

namespace Driver.C04
open BtcVerif Driver

def handle (_op : String) (_args : List String) : Option String := none

end Driver.C04
