/-
  C20 line-protocol ops.

    c20.murmur       seed hex            -> decimal | err:…                  (Model.Bloom.murmurHash3)
    c20.spec.murmur  seed hex            -> decimal                          (Spec.Bloom.murmur3)
    c20.ctor         nElements rate log(rate) 1/ln2^2 ln2   (rationals as num den pairs)
                                         -> "size k" | err:…                 (Model.Bloom.createPy decides the exceptions)
    c20.murmurSeq    seed:hex,seed:hex,…  -> the answers of consecutive MurmurHash3 calls, ','-joined (each is the stateless one)
    c20.multi        init|init|… ops      -> ops `<i>.<op>` on several filters alive at once; a failing op answers err:… and the
                                            history goes on with that filter unchanged (state advances through Model.Bloom.run)
    c20.hist         init ops            -> one token per op, ','-joined     (Model)
    c20.spec.hist    init ops            -> same, computed on the set-of-bit-indices Spec; `too-large` when
                                            data is non-empty and k > 100000 (not evaluated, not compared)

    init := n:<nElements>:<rate>:<len>:<k>:<tweak>:<flags>   fresh filter of <len> zero bytes
          | w:<hex>                                          CBloomFilter.deserialize(hex)
    op   := i:<hex> | o:<hash>:<n>      insert bytes / outpoint          -> "."
          | c:<hex> | q:<hash>:<n>      contains bytes / outpoint        -> "0" | "1"
          | d                           dump vData                       -> hex
          | s                           serialize()                      -> hex
          | r                           deserialize(serialize())         -> "."
          | z                           IsWithinSizeConstraints()        -> "0" | "1"
          | p                           nHashFuncs/nTweak/nFlags         -> "k/t/f"
    the first failing op contributes err:<family> and ends the history.
-/
import Driver.Util
import BtcVerif.Model.Bloom
import BtcVerif.Spec.Bloom
import BtcVerif.Spec.Wire

namespace Driver.C20
open BtcVerif Driver
open BtcVerif.Model.Bloom (Filter Elem)

inductive HOp
  | ins (x : Elem) | has (x : Elem) | dump | ser | reload | within | params

def parseOutPoint? (h n : String) : Option OutPoint := do
  let h ← parseHex? h
  let n ← parseNat? n
  pure { hash := h, n := n }

def parseOp? (s : String) : Option HOp :=
  match s.splitOn ":" with
  | ["i", h] => (parseHex? h).map (fun b => .ins (.bytes b))
  | ["c", h] => (parseHex? h).map (fun b => .has (.bytes b))
  | ["o", h, n] => (parseOutPoint? h n).map (fun o => .ins (.outpoint o))
  | ["q", h, n] => (parseOutPoint? h n).map (fun o => .has (.outpoint o))
  | ["d"] => some .dump
  | ["s"] => some .ser
  | ["r"] => some .reload
  | ["z"] => some .within
  | ["p"] => some .params
  | _ => none

def errTok (e : Exc) : String := "err:" ++ e.family

/-! ### Model -/

def modelInit? (s : String) : Option (Except String Filter) :=
  match s.splitOn ":" with
  | ["n", _, _, len, k, t, fl] => do
      let len ← parseNat? len; let k ← parseNat? k; let t ← parseNat? t; let fl ← parseNat? fl
      pure (.ok { vData := List.replicate len 0, nHashFuncs := k, nTweak := t, nFlags := fl })
  | ["w", h] => do
      let b ← parseHex? h
      pure (match Model.Bloom.deserialize b with
            | .ok f => .ok f
            | .extra _ _ => .error "err:extra"
            | .err e => .error (errTok e))
  | _ => none

def b01 (b : Bool) : String := if b then "1" else "0"

def toOp? : HOp → Option Model.Bloom.Op
  | .ins x => some (.insert x)
  | .reload => some .reload
  | _ => none

/-- the longest prefix of state-changing ops (inserts, round trips), as `Model.Bloom.Op`s -/
def takeOps : List HOp → List Model.Bloom.Op × List HOp
  | [] => ([], [])
  | h :: rest =>
      match toOp? h with
      | some o => let (os, r) := takeOps rest; (o :: os, r)
      | none => ([], h :: rest)

/-- the first `n` with `run f (ops.take n)` failing; `run` is the only thing that advances the state -/
def firstFailure (f : Filter) (ops : List Model.Bloom.Op) : Nat → Nat × Exc
  | 0 => (0, .py "unreachable")
  | fuel + 1 =>
      let n := ops.length - fuel
      match Model.Bloom.run f (ops.take n) with
      | .error e => (n, e)
      | .ok _ => firstFailure f ops fuel

/-- every state transition goes through `Model.Bloom.run` (the function `no_false_negative`,
    `run_ok`, `bits_after_history` are about); queries are evaluated on the state it returns -/
def modelRun (f : Filter) (ops : List HOp) (acc : Array String) (fuel : Nat) : Array String :=
  match fuel with
  | 0 => acc
  | fuel + 1 =>
    match ops with
    | [] => acc
    | op :: rest =>
      match toOp? op with
      | some _ =>
          let (seg, rest') := takeOps (op :: rest)
          match Model.Bloom.run f seg with
          | .ok g => modelRun g rest' (acc ++ Array.replicate seg.length ".") fuel
          | .error _ =>
              let (n, e) := firstFailure f seg seg.length
              (acc ++ Array.replicate (n - 1) ".").push (errTok e)
      | none =>
        match op with
        | .has x => match Model.Bloom.containsElem f x with
            | .ok b => modelRun f rest (acc.push (b01 b)) fuel
            | .error e => acc.push (errTok e)
        | .dump => modelRun f rest (acc.push (toHex f.vData)) fuel
        | .ser => match Model.Bloom.ser f with
            | .ok b => modelRun f rest (acc.push (toHex b)) fuel
            | .error e => acc.push (errTok e)
        | .within => modelRun f rest (acc.push (b01 (Model.Bloom.isWithinSizeConstraints f))) fuel
        | .params => modelRun f rest (acc.push s!"{f.nHashFuncs}/{f.nTweak}/{f.nFlags}") fuel
        | _ => acc

/-! ### Spec: the filter is the set of its bit indices (one Bool per bit) -/

structure SFilter where
  nbytes : Nat
  k : Nat
  tweak : Nat
  flags : Nat
  bits : Array Bool

def sOfData (d : Bytes) (k t fl : Nat) : SFilter :=
  { nbytes := d.length, k := k, tweak := t, flags := fl,
    bits := Array.ofFn (n := d.length * 8) (fun j => decide (Spec.Bloom.bitSet d j.val)) }

def sData (f : SFilter) : Bytes :=
  (List.range f.nbytes).map (fun i =>
    UInt8.ofNat ((List.range 8).foldl (fun acc b => if f.bits.getD (8 * i + b) false then acc + 2 ^ b else acc) 0))

/-- CompactSize-prefixed data, u32 nHashFuncs, u32 nTweak, u8 nFlags; exactly consumed -/
def sParseWire? (b : Bytes) : Option SFilter := do
  let (len, r) ← match b with
    | [] => none
    | x :: r =>
      if x.toNat < 0xfd then some (x.toNat, r)
      else if x.toNat = 0xfd then (if r.length < 2 then none else some (leNat (r.take 2), r.drop 2))
      else if x.toNat = 0xfe then (if r.length < 4 then none else some (leNat (r.take 4), r.drop 4))
      else (if r.length < 8 then none else some (leNat (r.take 8), r.drop 8))
  if r.length ≠ len + 9 then none
  let d := r.take len
  let t := r.drop len
  pure (sOfData d (leNat (t.take 4)) (leNat ((t.drop 4).take 4)) (leNat (t.drop 8)))

def specInit? (s : String) : Option SFilter :=
  match s.splitOn ":" with
  | ["n", _, _, len, k, t, fl] => do
      let len ← parseNat? len; let k ← parseNat? k; let t ← parseNat? t; let fl ← parseNat? fl
      pure { nbytes := len, k := k, tweak := t, flags := fl, bits := Array.replicate (len * 8) false }
  | ["w", h] => do
      let b ← parseHex? h
      sParseWire? b
  | _ => none

def sElemBytes : Elem → Bytes
  | .bytes b => b
  | .outpoint o => Spec.Wire.outPoint o

def sBits (f : SFilter) (e : Bytes) : List Nat :=
  Spec.Bloom.bitsOf (f.nbytes * 8) f.k (UInt32.ofNat f.tweak) e

def specRun (f : SFilter) (ops : List HOp) (acc : Array String) : Array String :=
  match ops with
  | [] => acc
  | op :: rest =>
    match op with
    | .ins x =>
        let g := if f.nbytes = 0 then f
                 else { f with bits := (sBits f (sElemBytes x)).foldl (fun a j => a.setIfInBounds j true) f.bits }
        specRun g rest (acc.push ".")
    | .has x =>
        let b := f.nbytes = 0 || (sBits f (sElemBytes x)).all (fun j => f.bits.getD j false)
        specRun f rest (acc.push (b01 b))
    | .dump => specRun f rest (acc.push (toHex (sData f)))
    | .ser => specRun f rest (acc.push (toHex (Spec.Wire.varBytes (sData f) ++ leBytes 4 f.k ++ leBytes 4 f.tweak
                ++ leBytes 1 f.flags)))
    | .reload => specRun f rest (acc.push ".")
    | .within => specRun f rest (acc.push (b01 (f.nbytes ≤ Spec.Bloom.MAX_BLOOM_FILTER_SIZE
                                                  && f.k ≤ Spec.Bloom.MAX_HASH_FUNCS)))
    | .params => specRun f rest (acc.push s!"{f.k}/{f.tweak}/{f.flags}")

/-- one op on one of several filters; a failing op leaves its filter as it was and the history goes on -/
def multiStep (fs : Array Filter) (i : Nat) (op : HOp) : Array Filter × String :=
  match fs[i]? with
  | none => (fs, badArgs)
  | some f =>
    match toOp? op with
    | some o => match Model.Bloom.run f [o] with
        | .ok g => (fs.set! i g, ".")
        | .error e => (fs, errTok e)
    | none =>
      match op with
      | .has x => (fs, match Model.Bloom.containsElem f x with | .ok b => b01 b | .error e => errTok e)
      | .dump => (fs, toHex f.vData)
      | .ser => (fs, match Model.Bloom.ser f with | .ok b => toHex b | .error e => errTok e)
      | .within => (fs, b01 (Model.Bloom.isWithinSizeConstraints f))
      | .params => (fs, s!"{f.nHashFuncs}/{f.nTweak}/{f.nFlags}")
      | _ => (fs, badArgs)

def parseMultiOp? (s : String) : Option (Nat × HOp) :=
  match s.splitOn "." with
  | [i, o] => do
      let i ← parseNat? i
      let o ← parseOp? o
      pure (i, o)
  | _ => none

def joinToks (a : Array String) : String := joinWith "," a.toList

def mkRat? (n d : String) : Option Rat := do
  let n ← parseInt? n
  let d ← parseNat? d
  if d = 0 then none else pure ((n : Rat) / (d : Rat))

def handle (op : String) (args : List String) : Option String :=
  match op, args with
  | "c20.murmur", [seed, d] => some <| match parseNat? seed, parseHex? d with
      | some s, some d => Res.render ((Model.Bloom.murmurHash3 s d).map toString)
      | _, _ => badArgs
  | "c20.murmurSeq", [calls] => some <|
      match (splitList calls ',').mapM (fun c => match c.splitOn ":" with
          | [s, d] => do let s ← parseNat? s; let d ← parseHex? d; pure (s, d)
          | _ => none) with
      | some cs => joinWith "," (cs.map (fun (s, d) => Res.render ((Model.Bloom.murmurHash3 s d).map toString)))
      | none => badArgs
  | "c20.multi", [inits, ops] => some <|
      match (splitList inits '|').mapM modelInit?, (splitList ops ',').mapM parseMultiOp? with
      | some is, some ops =>
          match is.mapM (fun r => match r with | .ok f => some f | .error _ => none) with
          | some fs =>
              let (_, outs) := ops.foldl (fun (st : Array Filter × Array String) (io : Nat × HOp) =>
                let (fs', o) := multiStep st.1 io.1 io.2
                (fs', st.2.push o)) (fs.toArray, #[])
              joinToks outs
          | none => badArgs
      | _, _ => badArgs
  | "c20.spec.murmur", [seed, d] => some <| match parseNat? seed, parseHex? d with
      | some s, some d => if s < 2 ^ 32 then toString (Spec.Bloom.murmur3 (UInt32.ofNat s) d).toNat else badArgs
      | _, _ => badArgs
  | "c20.ctor", [n, rn, rd, ln, ld, cn, cd, l2n, l2d] => some <|
      match parseInt? n, mkRat? rn rd, mkRat? ln ld, mkRat? cn cd, mkRat? l2n l2d with
      | some n, some rate, some logRate, some c, some l2 =>
          Res.render ((Model.Bloom.createPy n rate logRate c l2 0 0).map
            (fun f => s!"{f.vData.length} {f.nHashFuncs}"))
      | _, _, _, _, _ => badArgs
  | "c20.hist", [init, ops] => some <|
      match modelInit? init, (splitList ops ',').mapM parseOp? with
      | some (.ok f), some ops => joinToks (modelRun f ops #[] (ops.length + 1))
      | some (.error e), some _ => e
      | _, _ => badArgs
  | "c20.spec.hist", [init, ops] => some <|
      match specInit? init, (splitList ops ',').mapM parseOp? with
      | some f, some ops =>
          -- the set-of-bits Spec enumerates all k scheduled bits; beyond this bound it is not evaluated
          -- (the harness does not compare then; the Model op has no such bound)
          if f.nbytes ≠ 0 ∧ f.k > 100000 then "too-large" else joinToks (specRun f ops #[])
      | _, _ => badArgs
  | _, _ => none

end Driver.C20
