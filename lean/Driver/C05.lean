/-
  C05 — line-protocol ops: the commitment table and end-to-end verification with the Lean ECDSA.

    c05.table   ht i edit                       Spec.Commit.Committed → `committed` | `uncommitted`
    c05.apply   edit tx                         Spec.Commit.apply     → tx text
    c05.verify  scriptSig scriptPubKey flags tx idx
                                                Model.ScriptEval.verifyScript with the concrete
                                                signature checker below → `ok` | `err:<family>`
    c05.case    scriptSig scriptPubKey flags tx idx ht edit
                                                → `<base>#<edited>#<tx'>#<class>#<pred>`
        base    = verification against `tx`, edited = against `tx' = apply edit tx` (same scriptSig,
                  scriptPubKey, index), class = table row of the edit for (ht, idx), pred = what the
                  table theorems of Props/C05.lean predict for the digest `_CheckSig` verifies:
                  `same`   (uncommitted edit; committed edit that leaves every committed part as it was;
                            both transactions outside the regular case: digest is the constant 1)
                  `differs` (some committed part changed, or the edit moves the transaction into /
                            out of the "return one" case)
        edit `-` = no edit (class `-`, pred `same`).

  Signature checker: `sigCheck body pubkey scriptCode hashType` = ECDSA (Crypto/Secp256k1, strict DER,
  SEC1 keys) over the digest `Spec.Sighash.legacySighash scriptCode tx idx hashType` — the REFERENCE
  signature hash about which Props/C05.lean speaks (C03 proves the library's algorithm equal to it).
  Of c06's files only `Model.ScriptEval.verifyScript` / `Ctx` / `Err.toExc` and `Spec.Script.Env` /
  `Flags` are used.

    c05.tmpl    kind m keys sigs                the template scripts of Spec/Templates (about which the
                                                acceptance theorems speak) → `<scriptPubKey>#<scriptSig>`;
                                                kind ∈ p2pk p2pkh ms p2sh-p2pk p2sh-p2pkh p2sh-ms, keys / sigs
                                                `,`-separated hex; compared with what the library builds

  edit syntax:  ph:k:hex | pn:k:n | ss:k:hex | sq:k:n | va:k:int | pk:k:hex | ii:k:txin | ri:k | wi:k:l
              | io:k:txout | ro:k | wo:k:l | lt:n | ve:int | wt:wit         (txin/txout/wit as in TxFmt)
-/
import Driver.Util
import Driver.TxFmt
import BtcVerif.Spec.Commit
import BtcVerif.Spec.Templates
import BtcVerif.Model.ScriptEval
import BtcVerif.Crypto.Sha256
import BtcVerif.Crypto.Sha1
import BtcVerif.Crypto.Ripemd160
import BtcVerif.Crypto.Secp256k1
import BtcVerif.Crypto.Der

namespace Driver.C05
open BtcVerif Driver BtcVerif.Spec.Script BtcVerif.Spec.Commit

/-- `CECKey.set_pubkey` + `CECKey.verify` on the property's signature domain -/
def ecdsaCheck (body pubkey digest : Bytes) : Bool :=
  match Crypto.Secp256k1.decode pubkey, Crypto.Secp256k1.derDecodeStrict body with
  | some P, some (r, s) => Crypto.Secp256k1.verify P (Crypto.Secp256k1.digestNat digest) r s
  | _, _ => false

def concreteEnv (tx : Tx) (idx : Nat) : Env :=
  { hashes := { sha1 := Crypto.sha1, ripemd160 := Crypto.ripemd160, sha256 := Crypto.sha256 }
    sigCheck := fun body pubkey script ht =>
      ecdsaCheck body pubkey (Spec.Sighash.legacySighash script tx idx ht).1 }

def mkCtx (tx : Tx) (idx : Nat) : Model.ScriptEval.Ctx :=
  -- (c06, audit round 1: `Ctx` now carries RawSignatureHash's outcome instead of an `Env` plus index guards;
  --  same behaviour as before for an index ≥ 0: the Spec digest, nothing raised; `(mkCtx tx idx).env = concreteEnv tx idx`)
  { hashes := (concreteEnv tx idx).hashes
    sigHash := fun script ht => .ok (Spec.Sighash.legacySighash script tx idx ht).1
    sigVerify := ecdsaCheck }

def parseFlags? (s : String) : Option Flags := do
  let n ← parseNat? s
  if n ≥ 16 then none else
  pure { p2sh := n % 2 = 1, nullDummy := n / 2 % 2 = 1, cleanStack := n / 4 % 2 = 1,
         discourageNops := n / 8 % 2 = 1 }

def verify (sig spk : Bytes) (fl : Flags) (tx : Tx) (idx : Nat) : String :=
  match Model.ScriptEval.verifyScript (mkCtx tx idx) fl sig spk with
  | .ok _ => "ok"
  | .error e => "err:" ++ e.toExc.family

def parseEdit? (s : String) : Option Edit :=
  match s.splitOn ":" with
  | ["ph", k, h] => do pure (.setPrevHash (← parseNat? k) (← parseHex? h))
  | ["pn", k, n] => do pure (.setPrevN (← parseNat? k) (← parseNat? n))
  | ["ss", k, h] => do pure (.setScriptSig (← parseNat? k) (← parseHex? h))
  | ["sq", k, n] => do pure (.setSequence (← parseNat? k) (← parseNat? n))
  | ["va", k, v] => do pure (.setValue (← parseNat? k) (← parseInt? v))
  | ["pk", k, h] => do pure (.setSpk (← parseNat? k) (← parseHex? h))
  | ["ii", k, x] => do pure (.insertInput (← parseNat? k) (← TxFmt.parseTxIn? x))
  | ["ri", k] => do pure (.removeInput (← parseNat? k))
  | ["wi", k, l] => do pure (.swapInputs (← parseNat? k) (← parseNat? l))
  | ["io", k, o] => do pure (.insertOutput (← parseNat? k) (← TxFmt.parseTxOut? o))
  | ["ro", k] => do pure (.removeOutput (← parseNat? k))
  | ["wo", k, l] => do pure (.swapOutputs (← parseNat? k) (← parseNat? l))
  | ["lt", n] => do pure (.setLockTime (← parseNat? n))
  | ["ve", v] => do pure (.setVersion (← parseInt? v))
  | "wt" :: rest => do pure (.setWitness (← TxFmt.parseWit? (":".intercalate rest)))
  | _ => none

def className (ht idx : Nat) (e : Edit) : String :=
  if Committed ht idx e then "committed" else "uncommitted"

/-- what the table theorems predict for the digest that is verified -/
def predict (ht idx : Nat) (e : Edit) (t : Tx) : String :=
  let t' := apply e t
  if Uncommitted ht idx e then "same"                         -- uncommitted_edit_preserves
  else
    let r := decide (Regular ht idx t)
    let r' := decide (Regular ht idx t')
    if r && r' then
      (if (changedParts ht idx t t').isEmpty then "same"      -- agree_sighash_eq + changedParts_spec
       else "differs")                                        -- committed_edit_changes
    else if !r && !r' then "same"                             -- irregular_sighash
    else "differs"

def hash160 (x : Bytes) : Bytes := Crypto.ripemd160 (Crypto.sha256 x)

open BtcVerif.Spec.Templates in
def template (kind : String) (m : Nat) (keys sigs : List Bytes) : Option (Bytes × Bytes) :=
  match kind, keys, sigs with
  | "p2pk", [k], [s] => some (p2pkScript k, p2pkScriptSig s)
  | "p2pkh", [k], [s] => some (p2pkhScript (hash160 k), p2pkhScriptSig s k)
  | "ms", _, _ => some (multisigScript m keys, multisigScriptSig sigs)
  | "p2sh-p2pk", [k], [s] =>
      some (p2shScript (hash160 (p2pkScript k)), p2shScriptSig (p2pkScriptSig s) (p2pkScript k))
  | "p2sh-p2pkh", [k], [s] =>
      let r := p2pkhScript (hash160 k)
      some (p2shScript (hash160 r), p2shScriptSig (p2pkhScriptSig s k) r)
  | "p2sh-ms", _, _ =>
      let r := multisigScript m keys
      some (p2shScript (hash160 r), p2shScriptSig (multisigScriptSig sigs) r)
  | _, _, _ => none

def handle (op : String) (args : List String) : Option String :=
  match op, args with
  | "c05.table", [ht, i, e] => some <|
      match parseNat? ht, parseNat? i, parseEdit? e with
      | some ht, some i, some e => className ht i e
      | _, _, _ => badArgs
  | "c05.apply", [e, tx] => some <|
      match parseEdit? e, TxFmt.parseTx? tx with
      | some e, some tx => TxFmt.showTx (apply e tx)
      | _, _ => badArgs
  | "c05.tmpl", [kind, m, keys, sigs] => some <|
      match parseNat? m, parseHexList? keys, parseHexList? sigs with
      | some m, some keys, some sigs =>
          (match template kind m keys sigs with
           | some (spk, ssig) => toHex spk ++ "#" ++ toHex ssig
           | none => badArgs)
      | _, _, _ => badArgs
  | "c05.verify", [sig, spk, fl, tx, idx] => some <|
      match parseHex? sig, parseHex? spk, parseFlags? fl, TxFmt.parseTx? tx, parseNat? idx with
      | some sig, some spk, some fl, some tx, some idx => verify sig spk fl tx idx
      | _, _, _, _, _ => badArgs
  | "c05.case", [sig, spk, fl, tx, idx, ht, e] => some <|
      match parseHex? sig, parseHex? spk, parseFlags? fl, TxFmt.parseTx? tx, parseNat? idx, parseNat? ht with
      | some sig, some spk, some fl, some tx, some idx, some ht =>
          let base := verify sig spk fl tx idx
          if e == "-" then s!"{base}#{base}#{TxFmt.showTx tx}#-#same" else
          (match parseEdit? e with
           | some e =>
               let tx' := apply e tx
               s!"{base}#{verify sig spk fl tx' idx}#{TxFmt.showTx tx'}#{className ht idx e}#{predict ht idx e tx}"
           | none => badArgs)
      | _, _, _, _, _, _ => badArgs
  | _, _ => none

end Driver.C05
