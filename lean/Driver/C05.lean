/-
  C05 — line-protocol ops: the commitment table and end-to-end verification with the Lean ECDSA.

    c05.table   ht i edit                       Spec.Commit.Committed → `committed` | `uncommitted`
    c05.apply   edit tx                         Spec.Commit.apply     → tx text
    c05.verify  scriptSig scriptPubKey flags tx idx
                                                Model.ScriptEval.verifyScript with the concrete
                                                signature checker below → `ok` | `err:<family>`
    c05.case    scriptSig scriptPubKey flags tx idx hts edit      (hts: `,`-list, one hash type per signature, may be empty)
                                                → `<base>#<edited>#<tx'>#<class>#<pred>`
        base    = verification against `tx`, edited = against `tx' = apply edit tx` (same scriptSig,
                  scriptPubKey, index), class = table row of the edit for (ht, idx), pred = what the
                  table theorems of Props/C05.lean predict for the digest `_CheckSig` verifies:
                  `same`   (uncommitted edit; committed edit that leaves every committed part as it was;
                            both transactions outside the regular case: digest is the constant 1)
                  `differs` (some committed part changed, or the edit moves the transaction into /
                            out of the "return one" case)
        edit `-` = no edit (class `-`, pred `same`).  An edit that is not `Spec.Commit.applicable` (Python's
        list operation raises IndexError) is answered `<base>#inapplicable#<tx>#<class>#same`.
        Insertion positions beyond the end append (`list.insert`).

  Every verification is run in TWO contexts and the verdicts must coincide:
    `txCtx realHashes ecdsaCheck tx idx`  reference signature hash `Spec.Sighash.legacySighash` (Props/C05 Part 3)
    `Real.realCtx tx idx`                 `Model.Sighash.rawSignatureHash`, the model of the library's
                                          RawSignatureHash (Props/C05 Part 4)
  both with ECDSA = `Real.ecdsaCheck` (Crypto/Secp256k1, strict DER, SEC1 keys) and the executable hashes.

    c05.tmpl    kind m keys sigs                the template scripts of Spec/Templates (about which the
                                                acceptance theorems speak) → `<scriptPubKey>#<scriptSig>`;
                                                kind ∈ p2pk p2pkh ms p2sh-p2pk p2sh-p2pkh p2sh-ms, keys / sigs
                                                `,`-separated hex; compared with what the library builds

    c05.seq     txs scripts steps               a HISTORY: several calls in one case (state left behind by an earlier
                                                call must not matter; the model answers each step statelessly).
        txs `~`-separated transactions, scripts `,`-separated hex, steps `~`-separated, fields `!`-separated:
          F                          neutral first step                                   → `ok`
          V!sig!spk!flags!tx!idx     VerifyScript(scripts[sig], scripts[spk], txs[tx], idx) → verdict (both contexts)
          H!sc!tx!idx!ht             RawSignatureHash(scripts[sc], txs[tx], idx, ht)       → digest hex [`:err`]
          E!tx!edit                  the edit applied IN PLACE to txs[tx]                  → `applied` | `inapplicable`
          K!n                        one key object signs n digests; entry (j,k) = signature j verifies digest k
                                     → the n×n identity pattern `100/010/001`
        reply: the outcomes joined by `;`

  edit syntax:  ph:k:hex | pn:k:n | ss:k:hex | sq:k:n | va:k:int | pk:k:hex | ii:k:txin | ri:k | wi:k:l
              | io:k:txout | ro:k | wo:k:l | lt:n | ve:int | wt:wit         (txin/txout/wit as in TxFmt)
-/
import Driver.Util
import Driver.TxFmt
import BtcVerif.Spec.Commit
import BtcVerif.Spec.Templates
import BtcVerif.Model.ScriptEval
import BtcVerif.Model.SpendCtx
import BtcVerif.Model.ScriptEnvReal
import BtcVerif.Crypto.Sha256
import BtcVerif.Crypto.Sha1
import BtcVerif.Crypto.Ripemd160
import BtcVerif.Crypto.Secp256k1
import BtcVerif.Crypto.Der

namespace Driver.C05
open BtcVerif Driver BtcVerif.Spec.Script BtcVerif.Spec.Commit

/-- the context the theorems of Props/C05.lean Part 3 are about (named term, not a copy):
    reference signature hash + `Real.ecdsaCheck` + the executable hashes -/
def mkCtx (tx : Tx) (idx : Nat) : Model.ScriptEval.Ctx :=
  Model.ScriptEval.txCtx Model.ScriptEval.Real.realHashes Model.ScriptEval.Real.ecdsaCheck tx idx

/-- the context of the library model (Part 4): `Model.Sighash.rawSignatureHash` instead of the
    reference signature hash -/
def mkRealCtx (tx : Tx) (idx : Nat) : Model.ScriptEval.Ctx := Model.ScriptEval.Real.realCtx tx (idx : Int)

def parseFlags? (s : String) : Option Flags := do
  let n ← parseNat? s
  if n ≥ 16 then none else
  pure { p2sh := n % 2 = 1, nullDummy := n / 2 % 2 = 1, cleanStack := n / 4 % 2 = 1,
         discourageNops := n / 8 % 2 = 1 }

def render (r : Model.ScriptEval.M Unit) : String :=
  match r with
  | .ok _ => "ok"
  | .error e => "err:" ++ e.toExc.family

/-- verdict in the reference context; `!real=<verdict>` is appended when the context of the library
    model (Model.Sighash instead of Spec.Sighash) disagrees — Props/C05.lean Part 4 proves it cannot
    on the templates for transactions in wire range -/
def verify (sig spk : Bytes) (fl : Flags) (tx : Tx) (idx : Nat) : String :=
  let a := render (Model.ScriptEval.verifyScript (mkCtx tx idx) fl sig spk)
  let b := render (Model.ScriptEval.verifyScript (mkRealCtx tx idx) fl sig spk)
  if a == b then a else a ++ "!real=" ++ b

/-- reference context only (used for the unedited transaction of an edit case: the same transaction
    is verified in both contexts by the case with edit `-`) -/
def verifyRef (sig spk : Bytes) (fl : Flags) (tx : Tx) (idx : Nat) : String :=
  render (Model.ScriptEval.verifyScript (mkCtx tx idx) fl sig spk)

def parseEdit? (s : String) : Option Edit :=
  match s.splitOn ":" with
  | ["ph", k, h] => do pure (.setPrevHash (← parseNat? k) (← parseHex? h))
  | ["pn", k, n] => do pure (.setPrevN (← parseNat? k) (← parseNat? n))
  | ["ss", k, h] => do pure (.setScriptSig (← parseNat? k) (← parseHex? h))
  | ["sq", k, n] => do pure (.setSequence (← parseNat? k) (← parseNat? n))
  | ["va", k, v] => do pure (.setValue (← parseNat? k) (← parseInt? v))
  | ["pk", k, h] => do pure (.setSpk (← parseNat? k) (← parseHex? h))
  | ["ii", k, x] => do pure (.insertInput (← parseNat? k) (← TxFmt.parseTxIn? x))
  | ["ri", k] => do pure (.removeInput (← parseNat? k))
  | ["wi", k, l] => do pure (.swapInputs (← parseNat? k) (← parseNat? l))
  | ["io", k, o] => do pure (.insertOutput (← parseNat? k) (← TxFmt.parseTxOut? o))
  | ["ro", k] => do pure (.removeOutput (← parseNat? k))
  | ["wo", k, l] => do pure (.swapOutputs (← parseNat? k) (← parseNat? l))
  | ["lt", n] => do pure (.setLockTime (← parseNat? n))
  | ["ve", v] => do pure (.setVersion (← parseInt? v))
  | "wt" :: rest => do pure (.setWitness (← TxFmt.parseWit? (":".intercalate rest)))
  | _ => none

/-- table row of the edit for the hash types of the signatures involved (one per signature; several
    when the signatures of a multisig spend carry different hash types; none for 0-of-n) -/
def className (hts : List Nat) (idx : Nat) (e : Edit) : String :=
  if hts.isEmpty then "-" else if hts.any (fun ht => Committed ht idx e) then "committed" else "uncommitted"

/-- digest-level prediction for ONE hash type, from the parts (Props/C05.lean):
    both transactions regular: same iff no committed part changed (`preimage_eq_iff_agree` + `hcr`);
    both in the "return one" case: same (`irregular_sighash`); otherwise different -/
def predictSem (ht idx : Nat) (t t' : Tx) : Bool :=      -- true = same digest
  let r := decide (Regular ht idx t)
  let r' := decide (Regular ht idx t')
  if r && r' then (changedParts ht idx t t').isEmpty else (!r && !r')

/-- prediction for the verdict: every supplied signature must still verify, so the verdict can stay
    only if the digest stays for every hash type involved.  Cross-check of the syntactic table: an
    edit that is `Uncommitted` (and `insertSafe`) must be predicted `same` (`uncommitted_edit_preserves`),
    otherwise the reply is `table-contradiction`. -/
def predict (hts : List Nat) (idx : Nat) (e : Edit) (t : Tx) : String :=
  let t' := apply e t
  let sems := hts.map fun ht => predictSem ht idx t t'
  let bad := hts.any fun ht => Uncommitted ht idx e && insertSafe idx e t && !predictSem ht idx t t'
  if bad then "table-contradiction" else if sems.all id then "same" else "differs"

def hash160 (x : Bytes) : Bytes := Model.ScriptEval.Real.realHashes.hash160 x

open BtcVerif.Spec.Templates in
def template (kind : String) (m : Nat) (keys sigs : List Bytes) : Option (Bytes × Bytes) :=
  match kind, keys, sigs with
  | "p2pk", [k], [s] => some (p2pkScript k, p2pkScriptSig s)
  | "p2pkh", [k], [s] => some (p2pkhScript (hash160 k), p2pkhScriptSig s k)
  | "ms", _, _ => some (multisigScript m keys, multisigScriptSig sigs)
  | "p2sh-p2pk", [k], [s] =>
      some (p2shScript (hash160 (p2pkScript k)), p2shScriptSig (p2pkScriptSig s) (p2pkScript k))
  | "p2sh-p2pkh", [k], [s] =>
      let r := p2pkhScript (hash160 k)
      some (p2shScript (hash160 r), p2shScriptSig (p2pkhScriptSig s k) r)
  | "p2sh-ms", _, _ =>
      let r := multisigScript m keys
      some (p2shScript (hash160 r), p2shScriptSig (multisigScriptSig sigs) r)
  | _, _, _ => none

def seqStep (scripts : Array Bytes) (txs : Array Tx) (step : String) : Option (String × Array Tx) :=
  match step.splitOn "!" with
  | ["F"] => some ("ok", txs)
  | ["V", a, b, fl, t, idx] => do
      let sig ← scripts[(← parseNat? a)]?
      let spk ← scripts[(← parseNat? b)]?
      let tx ← txs[(← parseNat? t)]?
      pure (verify sig spk (← parseFlags? fl) tx (← parseNat? idx), txs)
  | ["H", a, t, idx, ht] => do
      let sc ← scripts[(← parseNat? a)]?
      let tx ← txs[(← parseNat? t)]?
      let (d, err) := Spec.Sighash.legacySighash sc tx (← parseNat? idx) (← parseNat? ht)
      pure (toHex d ++ (if err then ":err" else ""), txs)
  | "E" :: t :: rest => do
      let k ← parseNat? t
      let tx ← txs[k]?
      let e ← parseEdit? ("!".intercalate rest)
      if applicable e tx then pure ("applied", txs.set! k (apply e tx)) else pure ("inapplicable", txs)
  | ["K", n] => do
      let n ← parseNat? n
      pure ("/".intercalate ((List.range n).map fun j =>
        String.ofList ((List.range n).map fun k => if j = k then '1' else '0')), txs)
  | _ => none

def runSeq (scripts : Array Bytes) : Array Tx → List String → Option (List String)
  | _, [] => some []
  | txs, st :: rest => do
      let (o, txs') ← seqStep scripts txs st
      let os ← runSeq scripts txs' rest
      pure (o :: os)

def handle (op : String) (args : List String) : Option String :=
  match op, args with
  | "c05.table", [ht, i, e] => some <|
      match parseNat? ht, parseNat? i, parseEdit? e with
      | some ht, some i, some e => className [ht] i e
      | _, _, _ => badArgs
  | "c05.apply", [e, tx] => some <|
      match parseEdit? e, TxFmt.parseTx? tx with
      | some e, some tx => TxFmt.showTx (apply e tx)
      | _, _ => badArgs
  | "c05.tmpl", [kind, m, keys, sigs] => some <|
      match parseNat? m, parseHexList? keys, parseHexList? sigs with
      | some m, some keys, some sigs =>
          (match template kind m keys sigs with
           | some (spk, ssig) => toHex spk ++ "#" ++ toHex ssig
           | none => badArgs)
      | _, _, _ => badArgs
  | "c05.seq", [txs, scripts, steps] => some <|
      match (splitList txs '~').mapM TxFmt.parseTx?, parseHexList? scripts with
      | some txs, some scripts =>
          (match runSeq scripts.toArray txs.toArray (splitList steps '~') with
           | some os => ";".intercalate os
           | none => badArgs)
      | _, _ => badArgs
  | "c05.verify", [sig, spk, fl, tx, idx] => some <|
      match parseHex? sig, parseHex? spk, parseFlags? fl, TxFmt.parseTx? tx, parseNat? idx with
      | some sig, some spk, some fl, some tx, some idx => verify sig spk fl tx idx
      | _, _, _, _, _ => badArgs
  | "c05.case", [sig, spk, fl, tx, idx, ht, e] => some <|
      match parseHex? sig, parseHex? spk, parseFlags? fl, TxFmt.parseTx? tx, parseNat? idx, parseNatList? ht with
      | some sig, some spk, some fl, some tx, some idx, some ht =>
          if e == "-" then
            let base := verify sig spk fl tx idx
            s!"{base}#{base}#{TxFmt.showTx tx}#-#same" else
          (match parseEdit? e with
           | some e =>
               let base := verifyRef sig spk fl tx idx
               -- Python cannot carry the edit out (IndexError of the list operation): nothing to verify
               if !applicable e tx then s!"{base}#inapplicable#{TxFmt.showTx tx}#{className ht idx e}#same" else
               let tx' := apply e tx
               s!"{base}#{verify sig spk fl tx' idx}#{TxFmt.showTx tx'}#{className ht idx e}#{predict ht idx e tx}"
           | none => badArgs)
      | _, _, _, _, _, _ => badArgs
  | _, _ => none

end Driver.C05
