/-
  C03 — line-protocol ops for the legacy signature hash.

    c03.raw        script tx idx ht     Model.rawSignatureHash      → digest-hex | one:err | <hex>:err | err:<family>
    c03.spec.raw   script tx idx ht     Spec.legacySighash (ht ≥ 0) → same rendering
    c03.wrapper    script tx idx ht     Model.signatureHashBase     → digest-hex | err:<family>   (property-conforming)
    c03.wrapper.coded  script tx idx ht Model.signatureHashBaseAsCoded (with the witness-program assert, D17)
                                        → <as coded>|<property-conforming>   (both answers; the harness accepts the
                                          second only as the repaired state of known finding D17)
    c03.fad        script sig           Model.findAndDelete         → hex | err:<family>
    c03.spec.strip script               Spec.scriptCodeNoSep        → hex
    c03.spec.ops   script               Spec.ops                    → hex,hex,… | noparse
    c03.iswit      script               Model.isWitnessScriptPubKey → true | false | err:<family>
    c03.hist       script q1 q2 …       one history on one line: each q = algo@tx@idx@ht@amount with
                                        algo ∈ raw | wrap | v0 (amount `-` for raw/wrap); the existing models
                                        evaluated on each successive transaction value → r1,r2,…
-/
import Driver.Util
import Driver.TxFmt
import BtcVerif.Model.Sighash
import BtcVerif.Spec.Sighash

namespace Driver.C03
open BtcVerif Driver

def renderRaw (d : Bytes) (err : Bool) : String :=
  if err then (if d = Model.Sighash.HASH_ONE then "one:err" else toHex d ++ ":err") else toHex d

/-- one query of a history: the model of the named entry point on the given (current) transaction value -/
def histQuery (sc : Bytes) (q : String) : Option String :=
  match q.splitOn "@" with
  | [algo, tx, idx, ht, am] => do
      let tx ← TxFmt.parseTx? tx
      let idx ← parseNat? idx
      let ht ← parseInt? ht
      if algo == "raw" then
        pure (match Model.Sighash.rawSignatureHash sc tx idx ht with
              | .ok (d, e) => renderRaw d e
              | .error e => "err:" ++ e.family)
      else if algo == "wrap" then
        pure (Res.render ((Model.Sighash.signatureHashBase sc tx idx ht).map toHex))
      else if algo == "v0" then do
        let am ← if am == "none" then some none else (parseInt? am).map some
        pure (Res.render ((Model.Sighash.signatureHashWitnessV0 sc tx idx ht am).map toHex))
      else none
  | _ => none

def histReply (args : List String) : String :=
  match args with
  | sc :: qs =>
      (match parseHex? sc with
       | some sc =>
           (match qs.mapM (histQuery sc) with
            | some rs => joinWith "," rs
            | none => badArgs)
       | none => badArgs)
  | [] => badArgs

def handle (op : String) (args : List String) : Option String :=
  match op, args with
  | "c03.raw", [sc, tx, idx, ht] => some <|
      match parseHex? sc, TxFmt.parseTx? tx, parseNat? idx, parseInt? ht with
      | some sc, some tx, some idx, some ht =>
          (match Model.Sighash.rawSignatureHash sc tx idx ht with
           | .ok (d, e) => renderRaw d e
           | .error e => "err:" ++ e.family)
      | _, _, _, _ => badArgs
  | "c03.spec.raw", [sc, tx, idx, ht] => some <|
      match parseHex? sc, TxFmt.parseTx? tx, parseNat? idx, parseNat? ht with
      | some sc, some tx, some idx, some ht =>
          let (d, e) := Spec.Sighash.legacySighash sc tx idx ht
          if e then (if d = Spec.Sighash.hashOne then "one:err" else toHex d ++ ":err") else toHex d
      | _, _, _, _ => badArgs
  | "c03.wrapper", [sc, tx, idx, ht] => some <|
      match parseHex? sc, TxFmt.parseTx? tx, parseNat? idx, parseInt? ht with
      | some sc, some tx, some idx, some ht =>
          Res.render ((Model.Sighash.signatureHashBase sc tx idx ht).map toHex)
      | _, _, _, _ => badArgs
  | "c03.wrapper.coded", [sc, tx, idx, ht] => some <|
      match parseHex? sc, TxFmt.parseTx? tx, parseNat? idx, parseInt? ht with
      | some sc, some tx, some idx, some ht =>
          Res.render ((Model.Sighash.signatureHashBaseAsCoded sc tx idx ht).map toHex) ++ "|" ++
            Res.render ((Model.Sighash.signatureHashBase sc tx idx ht).map toHex)
      | _, _, _, _ => badArgs
  | "c03.fad", [sc, sig] => some <|
      match parseHex? sc, parseHex? sig with
      | some sc, some sig => Res.render ((Model.Sighash.findAndDelete sc sig).map toHex)
      | _, _ => badArgs
  | "c03.spec.strip", [sc] => some <|
      match parseHex? sc with
      | some sc => toHex (Spec.Sighash.scriptCodeNoSep sc)
      | none => badArgs
  | "c03.spec.ops", [sc] => some <|
      match parseHex? sc with
      | some sc =>
          (match Spec.Sighash.ops sc with
           | some l => joinWith "," (l.map toHex)
           | none => "noparse")
      | none => badArgs
  | "c03.hist", args => some (histReply args)
  | "c03.iswit", [sc] => some <|
      match parseHex? sc with
      | some sc => Res.render ((Model.Sighash.isWitnessScriptPubKey sc).map toString)
      | none => badArgs
  | _, _ => none

end Driver.C03
