/-
  C03 — line-protocol ops for the legacy signature hash.

    c03.raw        script tx idx ht     Model.rawSignatureHash      → digest-hex | one:err | <hex>:err | err:<family>
    c03.spec.raw   script tx idx ht     Spec.legacySighash (ht ≥ 0) → same rendering
    c03.wrapper    script tx idx ht     Model.signatureHashBase     → digest-hex | err:<family>
    c03.fad        script sig           Model.findAndDelete         → hex | err:<family>
    c03.spec.strip script               Spec.scriptCodeNoSep        → hex
    c03.spec.ops   script               Spec.ops                    → hex,hex,… | noparse
    c03.iswit      script               Model.isWitnessScriptPubKey → true | false | err:<family>
-/
import Driver.Util
import Driver.TxFmt
import BtcVerif.Model.Sighash
import BtcVerif.Spec.Sighash

namespace Driver.C03
open BtcVerif Driver

def renderRaw (d : Bytes) (err : Bool) : String :=
  if err then (if d = Model.Sighash.HASH_ONE then "one:err" else toHex d ++ ":err") else toHex d

def handle (op : String) (args : List String) : Option String :=
  match op, args with
  | "c03.raw", [sc, tx, idx, ht] => some <|
      match parseHex? sc, TxFmt.parseTx? tx, parseNat? idx, parseInt? ht with
      | some sc, some tx, some idx, some ht =>
          (match Model.Sighash.rawSignatureHash sc tx idx ht with
           | .ok (d, e) => renderRaw d e
           | .error e => "err:" ++ e.family)
      | _, _, _, _ => badArgs
  | "c03.spec.raw", [sc, tx, idx, ht] => some <|
      match parseHex? sc, TxFmt.parseTx? tx, parseNat? idx, parseNat? ht with
      | some sc, some tx, some idx, some ht =>
          let (d, e) := Spec.Sighash.legacySighash sc tx idx ht
          if e then (if d = Spec.Sighash.hashOne then "one:err" else toHex d ++ ":err") else toHex d
      | _, _, _, _ => badArgs
  | "c03.wrapper", [sc, tx, idx, ht] => some <|
      match parseHex? sc, TxFmt.parseTx? tx, parseNat? idx, parseInt? ht with
      | some sc, some tx, some idx, some ht =>
          Res.render ((Model.Sighash.signatureHashBase sc tx idx ht).map toHex)
      | _, _, _, _ => badArgs
  | "c03.fad", [sc, sig] => some <|
      match parseHex? sc, parseHex? sig with
      | some sc, some sig => Res.render ((Model.Sighash.findAndDelete sc sig).map toHex)
      | _, _ => badArgs
  | "c03.spec.strip", [sc] => some <|
      match parseHex? sc with
      | some sc => toHex (Spec.Sighash.scriptCodeNoSep sc)
      | none => badArgs
  | "c03.spec.ops", [sc] => some <|
      match parseHex? sc with
      | some sc =>
          (match Spec.Sighash.ops sc with
           | some l => joinWith "," (l.map toHex)
           | none => "noparse")
      | none => badArgs
  | "c03.iswit", [sc] => some <|
      match parseHex? sc with
      | some sc => Res.render ((Model.Sighash.isWitnessScriptPubKey sc).map toString)
      | none => badArgs
  | _, _ => none

end Driver.C03
