/-
  C09 driver: runs a whole history on the heap model (and, for `c09.spec`, on the value store).

    c09.run   <history>      per step:  out '#' 16-hex digest of the observation string
    c09.runv  <history>      per step:  out '#' observation string            (for diagnosis)
    c09.spec  <history>      like c09.runv, computed on Spec.ValueSem (values, no heap)
  steps are separated by ';' in request and reply.

  history := op (';' op)*            words of an op are separated by one space
    newtx|newctx ver lock vin vout wit        (vin/vout/wit in the TxFmt text form; '' = empty list)
    newhdr header          newblk header n1,n2,…
    snap T | mcopy T | del T | ser T | hash T | txid T | pyhash T | eq T T
    set T field value      field ∈ hash n scriptSig nSequence nValue scriptPubKey nVersion nLockTime
    setvin r vin | setvout r vout | addin r txin | repin r i txin | rmin r i
    addout r txout | repout r i txout | rmout r i | setwit r wit
    sighash r subscripthex inIdx hashtype | sighashw r inIdx hashtype
    verify r inIdx sub:ht,sub:ht,…
  extended catalogue (references to existing objects; audit F4):
    setref T slot S          T.<reference attribute #slot> = <object S>     (txin: 0=prevout; tx: 0=vin 1=vout 2=wit)
    setprev T hash,n         T.prevout = CMutableOutPoint(hash, n)
    appref L S | repref L i S          L.append(<S>) | L[i] = <S>           (L a vin/vout list, e.g. 3.0)
    newtxfrom VIN VOUT lock ver WIT|-  CMutableTransaction(<VIN>, <VOUT>, lock, ver[, <WIT>])   ('-': witness=None)
    newtxd ver lock vin vout           CMutableTransaction([fresh…], [fresh…], lock, ver)        (witness=None)
    newin PREV|- script seq            CMutableTxIn(<PREV> | None, script, seq)
    newcin PREV|- script seq           CTxIn(<PREV> | <default>, script, seq)                    (immutable class; D23)
    wlset W i ST | wlapp W ST          W.vtxinwit[i] = CTxInWitness(CScriptWitness(ST)) | W.vtxinwit.append(…)   (W a CTxWitness, e.g. 3.2)
    gethdr T                           T.get_header() / CBlockHeader(<the six header fields of T>)   (T a block or header)
    newblkfrom T n1,n2,…               CBlock(<the six header fields of T>, vtx=[roots])             (same header, other vtx)
    stset IW j hex | stapp IW hex      IW.scriptWitness.stack[j] = b | ….stack.append(b)         (IW a CTxInWitness, e.g. 3.2.0.1)
  container kinds (list / tuple / their subclasses / iterators; T2 only):
    mkseq in|out l|t|L|T T,T,…|-       a list / tuple / list-subclass / tuple-subclass of existing inputs / outputs
    newctxfrom VIN VOUT lock ver WIT|- g|n   CTransaction(<VIN>, <VOUT>, lock, ver[, <WIT>]); g: iterators are passed
    setwitc r wit cc                   as setwit; cc ∈ {l,t,L,T}² = containers (list, tuple, their subclasses) of vtxinwit and of each stack
  T := name('.'childindex)*   name = index of the user step that created the root object.
    c09.specx <history>      like c09.runv, computed on Spec.AliasSem (cells with explicit aliasing)
    c09.xcheck <history>     'same' if heap model and Spec.AliasSem agree on every observation, else 'diff@k'
    c09.runc <history>       c09.run output, then '@@', then the c09.xcheck verdict; here the comparison also
                             covers the digest of every `sighash` step: heap `rawSigHash` vs `Model.Sighash.rawSignatureHash`
                             on the value the root denotes (scripts that are their own FindAndDelete image)

  After every user step the driver observes every live object (every non-sequence object below
  every named root, preorder): mutability flag, serialize(), GetHash(), GetTxid(), hash() class,
  `==` with the first object of the same class family, and the `==` matrix of the roots.  All of
  it is done with `Model.Heap.step` on observation ops, so the theorems of Props/C09 cover it.
-/
import Driver.Util
import Driver.TxFmt
import BtcVerif.Model.HeapX
import BtcVerif.Model.Sighash

namespace Driver.C09
open BtcVerif Driver BtcVerif.Spec.ValueSem BtcVerif.Model.Heap BtcVerif.Spec.AliasSem

def noName : Nat := 1000000000

def parseTarget? (s : String) : Option Target :=
  match s.splitOn "." with
  | r :: p => do
      let r ← parseNat? r
      let p ← p.mapM parseNat?
      pure ⟨r, p⟩
  | [] => none

def parseIns? (s : String) : Option (List TxIn) := (splitList s '|').mapM TxFmt.parseTxIn?
def parseOuts? (s : String) : Option (List TxOut) := (splitList s '|').mapM TxFmt.parseTxOut?

def parseTxWords? (ver lock vin vout wit : String) : Option Tx := do
  let ver ← parseInt? ver; let lock ← parseNat? lock
  let vin ← parseIns? vin; let vout ← parseOuts? vout; let wit ← TxFmt.parseWit? wit
  pure { nVersion := ver, vin := vin, vout := vout, wit := wit, nLockTime := lock }

def parseField? (f v : String) : Option Field :=
  match f with
  | "hash" => (parseHex? v).map .hash
  | "n" => (parseNat? v).map .n
  | "scriptSig" => (parseHex? v).map .scriptSig
  | "nSequence" => (parseNat? v).map .nSequence
  | "nValue" => (parseInt? v).map .nValue
  | "scriptPubKey" => (parseHex? v).map .scriptPubKey
  | "nVersion" => (parseInt? v).map .nVersion
  | "nLockTime" => (parseNat? v).map .nLockTime
  | _ => none

def parseCall? (s : String) : Option (Bytes × Nat) :=
  match s.splitOn ":" with
  | [a, b] => do let a ← parseHex? a; let b ← parseNat? b; pure (a, b)
  | _ => none

def parseBaseOp? (s : String) : Option Op :=
  match s.splitOn " " with
  | ["newtx", a, b, c, d, e] => (parseTxWords? a b c d e).map .newTx
  | ["newctx", a, b, c, d, e] => (parseTxWords? a b c d e).map .newCTx
  | ["newhdr", h] => (TxFmt.parseHeader? h).map .newHeader
  | ["newblk", h, ns] => do
      let h ← TxFmt.parseHeader? h; let ns ← parseNatList? ns; pure (.newBlock h ns)
  | ["snap", t] => (parseTarget? t).map .snapshot
  | ["mcopy", t] => (parseTarget? t).map .mutCopy
  | ["del", t] => (parseTarget? t).map .delAttr
  | ["ser", t] => (parseTarget? t).map .ser
  | ["hash", t] => (parseTarget? t).map .getHash
  | ["txid", t] => (parseTarget? t).map .txid
  | ["pyhash", t] => (parseTarget? t).map .pyHash
  | ["eq", a, b] => do let a ← parseTarget? a; let b ← parseTarget? b; pure (.eq a b)
  | ["set", t, f, v] => do let t ← parseTarget? t; let f ← parseField? f v; pure (.assign t f)
  | ["setvin", r, l] => do let r ← parseNat? r; let l ← parseIns? l; pure (.setVin r l)
  | ["setvout", r, l] => do let r ← parseNat? r; let l ← parseOuts? l; pure (.setVout r l)
  | ["addin", r, v] => do let r ← parseNat? r; let v ← TxFmt.parseTxIn? v; pure (.appendIn r v)
  | ["repin", r, i, v] => do
      let r ← parseNat? r; let i ← parseNat? i; let v ← TxFmt.parseTxIn? v; pure (.replaceIn r i v)
  | ["rmin", r, i] => do let r ← parseNat? r; let i ← parseNat? i; pure (.removeIn r i)
  | ["addout", r, v] => do let r ← parseNat? r; let v ← TxFmt.parseTxOut? v; pure (.appendOut r v)
  | ["repout", r, i, v] => do
      let r ← parseNat? r; let i ← parseNat? i; let v ← TxFmt.parseTxOut? v; pure (.replaceOut r i v)
  | ["rmout", r, i] => do let r ← parseNat? r; let i ← parseNat? i; pure (.removeOut r i)
  | ["setwit", r, w] => do let r ← parseNat? r; let w ← TxFmt.parseWit? w; pure (.setWit r w)
  | ["sighash", r, sub, i, ht] => do
      let r ← parseNat? r; let sub ← parseHex? sub; let i ← parseNat? i; let ht ← parseNat? ht
      pure (.sighash r sub i ht)
  | ["sighashw", r, i, ht] => do
      let r ← parseNat? r; let i ← parseNat? i; let ht ← parseNat? ht; pure (.sighashW r i ht)
  | ["verify", r, i, cs] => do
      let r ← parseNat? r; let i ← parseNat? i
      let cs ← (if cs == "-" then some [] else (splitList cs ',').mapM parseCall?)
      pure (.verify r i cs)
  | _ => none

def parseOutPoint? (s : String) : Option OutPoint :=
  match s.splitOn "," with
  | [h, n] => do let h ← parseHex? h; let n ← parseNat? n; pure ⟨h, n⟩
  | _ => none

def parseOptTarget? (s : String) : Option (Option Target) :=
  if s == "-" then some none else (parseTarget? s).map some

def parseStack? (s : String) : Option WitStack :=
  match TxFmt.parseWit? s with
  | some [st] => some st
  | _ => none

def parseOpX? (s : String) : Option OpX :=
  match s.splitOn " " with
  | ["setref", t, k, src] => do
      let t ← parseTarget? t; let k ← parseNat? k; let src ← parseTarget? src; pure (.assignRef t k src)
  | ["setprev", t, o] => do let t ← parseTarget? t; let o ← parseOutPoint? o; pure (.setPrevout t o)
  | ["appref", l, src] => do let l ← parseTarget? l; let src ← parseTarget? src; pure (.appendRef l src)
  | ["repref", l, i, src] => do
      let l ← parseTarget? l; let i ← parseNat? i; let src ← parseTarget? src; pure (.replaceRef l i src)
  | ["newtxfrom", vi, vo, lock, ver, w] => do
      let vi ← parseTarget? vi; let vo ← parseTarget? vo; let lock ← parseNat? lock; let ver ← parseInt? ver
      let w ← parseOptTarget? w
      pure (.newTxFrom vi vo lock ver w)
  | ["newtxd", a, b, c, d] => (parseTxWords? a b c d "-").map .newTxDefault
  | ["newin", pr, sc, q] => do
      let pr ← parseOptTarget? pr; let sc ← parseHex? sc; let q ← parseNat? q; pure (.newTxInFrom pr sc q)
  | ["newcin", pr, sc, q] => do
      let pr ← parseOptTarget? pr; let sc ← parseHex? sc; let q ← parseNat? q; pure (.newCTxInFrom pr sc q)
  | ["wlset", t, i, st] => do
      let t ← parseTarget? t; let i ← parseNat? i; let st ← parseStack? st; pure (.witListEdit t (some i) st)
  | ["wlapp", t, st] => do let t ← parseTarget? t; let st ← parseStack? st; pure (.witListEdit t none st)
  | ["stset", t, j, b] => do
      let t ← parseTarget? t; let j ← parseNat? j; let b ← parseHex? b; pure (.stackEdit t (some j) b)
  | ["stapp", t, b] => do let t ← parseTarget? t; let b ← parseHex? b; pure (.stackEdit t none b)
  | ["gethdr", t] => (parseTarget? t).map .newHeaderFrom
  | ["newblkfrom", t, ns] => do let t ← parseTarget? t; let ns ← parseNatList? ns; pure (.newBlockFrom t ns)
  | _ => (parseBaseOp? s).map .base

/-! ### renaming user names to model/spec names -/

def mapRoot (tbl : List Nat) (u : Nat) : Nat := tbl[u]?.getD noName
def mapT (tbl : List Nat) (t : Target) : Target := ⟨mapRoot tbl t.root, t.path⟩

def renameOp (tbl : List Nat) : Op → Op
  | .newBlock h ns => .newBlock h (ns.map (mapRoot tbl))
  | .snapshot t => .snapshot (mapT tbl t)
  | .mutCopy t => .mutCopy (mapT tbl t)
  | .assign t f => .assign (mapT tbl t) f
  | .delAttr t => .delAttr (mapT tbl t)
  | .setVin r l => .setVin (mapRoot tbl r) l
  | .setVout r l => .setVout (mapRoot tbl r) l
  | .appendIn r v => .appendIn (mapRoot tbl r) v
  | .replaceIn r i v => .replaceIn (mapRoot tbl r) i v
  | .removeIn r i => .removeIn (mapRoot tbl r) i
  | .appendOut r v => .appendOut (mapRoot tbl r) v
  | .replaceOut r i v => .replaceOut (mapRoot tbl r) i v
  | .removeOut r i => .removeOut (mapRoot tbl r) i
  | .setWit r w => .setWit (mapRoot tbl r) w
  | .ser t => .ser (mapT tbl t)
  | .getHash t => .getHash (mapT tbl t)
  | .txid t => .txid (mapT tbl t)
  | .pyHash t => .pyHash (mapT tbl t)
  | .eq a b => .eq (mapT tbl a) (mapT tbl b)
  | .sighash r s i h => .sighash (mapRoot tbl r) s i h
  | .sighashW r i h => .sighashW (mapRoot tbl r) i h
  | .verify r i c => .verify (mapRoot tbl r) i c
  | op => op

def parseTargets? (s : String) : Option (List Target) :=
  if s == "-" then some [] else (splitList s ',').mapM parseTarget?

/-- container-kind ops: `mkseq in|out l|t|L|T T,T,…|-`, `newctxfrom VIN VOUT lock ver WIT|- [g]`,
    `setwitc r wit cc` (= setwit; `cc` says which Python containers the harness builds the witness from) -/
def parseOp? (s : String) : Option OpY :=
  match s.splitOn " " with
  | ["mkseq", k, c, items] => do
      let outs ← (if k == "in" then some false else if k == "out" then some true else none)
      let isList ← (if c == "l" || c == "L" then some true else if c == "t" || c == "T" then some false else none)
      let items ← parseTargets? items
      pure (.mkSeq outs isList items)
  | ["newctxfrom", vi, vo, lock, ver, w, _] => do
      let vi ← parseTarget? vi; let vo ← parseTarget? vo; let lock ← parseNat? lock; let ver ← parseInt? ver
      let w ← parseOptTarget? w
      pure (.newCTxFrom vi vo lock ver w)
  | ["setwitc", r, w, _] => do
      let r ← parseNat? r; let w ← TxFmt.parseWit? w; pure (.x (.base (.setWit r w)))
  | _ => (parseOpX? s).map .x

def renameOpX (tbl : List Nat) : OpX → OpX
  | .base op => .base (renameOp tbl op)
  | .assignRef t k src => .assignRef (mapT tbl t) k (mapT tbl src)
  | .setPrevout t v => .setPrevout (mapT tbl t) v
  | .appendRef l src => .appendRef (mapT tbl l) (mapT tbl src)
  | .replaceRef l i src => .replaceRef (mapT tbl l) i (mapT tbl src)
  | .newTxFrom vi vo lock ver w => .newTxFrom (mapT tbl vi) (mapT tbl vo) lock ver (w.map (mapT tbl))
  | .newTxDefault v => .newTxDefault v
  | .newTxInFrom pr sc q => .newTxInFrom (pr.map (mapT tbl)) sc q
  | .newCTxInFrom pr sc q => .newCTxInFrom (pr.map (mapT tbl)) sc q
  | .witListEdit t i st => .witListEdit (mapT tbl t) i st
  | .stackEdit t j b => .stackEdit (mapT tbl t) j b
  | .newHeaderFrom t => .newHeaderFrom (mapT tbl t)
  | .newBlockFrom t ns => .newBlockFrom (mapT tbl t) (ns.map (mapRoot tbl))

def renameOpY (tbl : List Nat) : OpY → OpY
  | .x op => .x (renameOpX tbl op)
  | .mkSeq o l items => .mkSeq o l (items.map (mapT tbl))
  | .newCTxFrom vi vo lock ver w => .newCTxFrom (mapT tbl vi) (mapT tbl vo) lock ver (w.map (mapT tbl))

/-! ### rendering -/

def short (b : Bytes) : String := toHex (b.take 8)

/-! transport compression of observation strings (not part of any observation): CRC-32 ‖ Adler-32, as
    `zlib.crc32` / `zlib.adler32` compute them — SHA-256 in the model would dominate the running time -/

def crcStep (c : UInt32) : UInt32 :=
  if c &&& (1 : UInt32) == (1 : UInt32) then (0xEDB88320 : UInt32) ^^^ (c >>> (1 : UInt32)) else c >>> (1 : UInt32)

def crcTable : Array UInt32 :=
  (List.range 256).toArray.map fun i =>
    let c : UInt32 := i.toUInt32
    crcStep (crcStep (crcStep (crcStep (crcStep (crcStep (crcStep (crcStep c)))))))

def crc32 (bs : List UInt8) : UInt32 :=
  let r : UInt32 := bs.foldl (fun (c : UInt32) (b : UInt8) =>
    let idx : UInt32 := (c ^^^ b.toUInt32) &&& (0xff : UInt32)
    (crcTable.getD idx.toNat (0 : UInt32)) ^^^ (c >>> (8 : UInt32))) (0xFFFFFFFF : UInt32)
  r ^^^ (0xFFFFFFFF : UInt32)

def adler32 (bs : List UInt8) : UInt32 :=
  let (a, b) := bs.foldl (fun (a, b) x => let a' := (a + x.toNat) % 65521; (a', (b + a') % 65521)) (1, 0)
  (b.toUInt32 <<< 16) ||| a.toUInt32

def be32 (x : UInt32) : List UInt8 := [(x >>> 24).toUInt8, (x >>> 16).toUInt8, (x >>> 8).toUInt8, x.toUInt8]

def cheapDigest (bs : List UInt8) : String := toHex (be32 (crc32 bs) ++ be32 (adler32 bs))

def showRes (r : Res Bytes) (f : Bytes → String) : String :=
  match r with
  | .ok b => f b
  | .error e => "err<" ++ e.family ++ ">"

/-- what the harness compares: that an exception was raised, not its class (the property names no class);
    the family stays in the strings the heap model and `Spec.AliasSem` are compared on -/
def relax (s : String) : String :=
  let (out, _) := s.toList.foldl (fun (acc, skip) c =>
      if skip then (acc, c != '>') else if c == '<' then (acc, true) else (c :: acc, false)) ([], false)
  String.ofList out.reverse

def showOut : Out → String
  | .done => "done" | .created => "created" | .na => "na" | .badRef => "badref"
  | .bytes r => "b:" ++ showRes r toHex
  | .bool (.ok b) => if b then "B:1" else "B:0"
  | .bool (.error e) => "B:err<" ++ e.family ++ ">"
  | .err e => "err<" ++ e.family ++ ">"

/-- a machine the driver can run a history on: the heap model or the value store -/
structure Machine (σ : Type) where
  step : σ → OpY → σ × Out
  nameCount : σ → Nat
  /-- the live objects below a root, preorder: (path, family, isMutable) of every non-sequence object -/
  targets : σ → Nat → List (List Nat × Nat × Bool)

/-! #### enumerating the live objects -/

def scFamily : Scalars → Nat
  | .outpoint _ _ => 0 | .txin _ _ => 1 | .txout _ _ => 2 | .inwit _ => 3 | .wit => 4 | .tx _ _ => 5
  | .header _ => 6 | .block _ => 6 | .seq _ => 7

mutual
def walkA (path : List Nat) : ATree → List (List Nat × Nat × Bool)
  | .node _ m sc kids =>
      let here := if sc.isSeq then [] else [(path, scFamily sc, m)]
      here ++ walkAs path 0 kids
def walkAs (path : List Nat) (i : Nat) : List ATree → List (List Nat × Nat × Bool)
  | [] => []
  | t :: ts => walkA (path ++ [i]) t ++ walkAs path (i + 1) ts
end

def heapTargets (s : St) (r : Nat) : List (List Nat × Nat × Bool) :=
  match s.root r with
  | none => []
  | some a =>
    match unfoldA D s.heap a with
    | none => []
    | some t => walkA [] t

/-- the same enumeration on a value (kids of a value = `Val.child 0, 1, …`) -/
def valKids (v : Val) : List Val :=
  match v with
  | .txin i => [.outpoint i.prevout]
  | .wit w => [.stacks w]
  | .tx t => [.ins t.vin, .outs t.vout, .wit t.wit]
  | .block b => [.txs b.vtx]
  | .ins l => l.map .txin
  | .outs l => l.map .txout
  | .stacks l => l.map .inwit
  | .txs l => l.map .tx
  | _ => []

def walkV : Nat → Bool → List Nat → Val → List (List Nat × Nat × Bool)
  | 0, _, _, _ => []
  | f + 1, m, path, v =>
      let here := if v.isSeq then [] else [(path, v.family, m)]
      here ++ ((valKids v).zipIdx.flatMap fun (k, i) => walkV f (m && !k.alwaysImm) (path ++ [i]) k)

def storeTargets (s : Store) (r : Nat) : List (List Nat × Nat × Bool) :=
  match (s[r]?).join with
  | none => []
  | some e => walkV D e.isMut [] e.val

def heapMachine : Machine St :=
  { step := Model.HeapX.stepY, nameCount := fun s => s.names.length, targets := heapTargets }

/-- the plain value store runs the `Spec.ValueSem.Op` part of the catalogue only -/
def specMachine : Machine Store :=
  { step := fun s op => match op with
      | .x (.base op) => Spec.ValueSem.step s op
      | _ => (Spec.ValueSem.bind s none, .na),
    nameCount := fun s => s.length, targets := storeTargets }

/-- enumeration of the live objects below a reference of the aliasing spec -/
def walkR : Nat → List Cell → List Nat → Ref → List (List Nat × Nat × Bool)
  | 0, _, _, _ => []
  | f + 1, _, path, .val v => walkV (f + 1) false path v
  | f + 1, cs, path, .cell c =>
    match cs[c]? with
    | none => []
    | some cell =>
      let here := if cell.sc.isSeq then [] else [(path, scFamily cell.sc, true)]
      here ++ (cell.refs.zipIdx.flatMap fun (k, i) => walkR f cs (path ++ [i]) k)

def xTargets (s : XStore) (r : Nat) : List (List Nat × Nat × Bool) :=
  match s.root r with
  | none => []
  | some rf => walkR D s.cells [] rf

def xMachine : Machine XStore :=
  { step := Spec.AliasSem.stepY, nameCount := fun s => s.names.length, targets := xTargets }

/-! #### one user step with its observations -/

def showPath (u : Nat) (p : List Nat) : String := ".".intercalate (toString u :: p.map toString)

def classIndex (seen : List String) (x : String) : Nat × List String :=
  match seen.idxOf? x with
  | some i => (i, seen)
  | none => (seen.length, seen ++ [x])

structure Acc (σ : Type) where
  st : σ
  firstOfFam : List (Nat × Target)
  pyClasses : List String
  outStrs : List String

/-- `rev = false`: serialize, GetHash, GetTxid, hash(), == ; `rev = true`: ==, hash(), GetTxid, GetHash, serialize
    (so `==` and `hash()` of an object are taken both before and after `GetHash` has filled its cache) -/
def observeTarget {σ} (m : Machine σ) (rev : Bool) (u : Nat) (acc : Acc σ) (mi : Nat) (x : List Nat × Nat × Bool) :
    Acc σ :=
  let (path, fam, isMut) := x
  let t : Target := ⟨mi, path⟩
  let t0? := acc.firstOfFam.lookup fam
  let eqStep (s : σ) : σ × String :=
    match t0? with
    | none => (s, "-")
    | some t0 => let (s', o) := m.step s (.x (.base (.eq t t0))); (s', showOut o)
  let (sa, eqA) := if rev then eqStep acc.st else (acc.st, "")
  let (sb, oPyA) := if rev then m.step sa (.x (.base (.pyHash t))) else (sa, Out.na)
  let (sc, oTxidA) := if rev then m.step sb (.x (.base (.txid t))) else (sb, Out.na)
  let (sd, oHashA) := if rev then m.step sc (.x (.base (.getHash t))) else (sc, Out.na)
  let (s1, oSer) := m.step sd (.x (.base (.ser t)))
  let (s2, oHashB) := if rev then (s1, Out.na) else m.step s1 (.x (.base (.getHash t)))
  let (s3, oTxidB) := if rev then (s2, Out.na) else m.step s2 (.x (.base (.txid t)))
  let (s4, oPyB) := if rev then (s3, Out.na) else m.step s3 (.x (.base (.pyHash t)))
  let oHash := if rev then oHashA else oHashB
  let oTxid := if rev then oTxidA else oTxidB
  let oPy := if rev then oPyA else oPyB
  let rb (o : Out) (f : Bytes → String) : String :=
    match o with
    | .bytes r => showRes r f
    | .na => "-"
    | o => showOut o
  let pyS := rb oPy cheapDigest
  let (ci, pcs) := if pyS.startsWith "err" then (0, acc.pyClasses) else classIndex acc.pyClasses pyS
  let pyOut := if pyS.startsWith "err" then pyS else toString ci
  let (s5, eqB) := if rev then (s4, "") else eqStep s4
  let eqS := if rev then eqA else eqB
  let fof := match t0? with
    | none => acc.firstOfFam ++ [(fam, t)]
    | some _ => acc.firstOfFam
  let str := s!"{showPath u path}:{if isMut then "M" else "I"}:{rb oSer cheapDigest}:{rb oHash short}:{rb oTxid short}:{pyOut}:{eqS}"
  { st := s5, firstOfFam := fof, pyClasses := pcs, outStrs := acc.outStrs ++ [str] }

def observeAll {σ} (m : Machine σ) (rev : Bool) (s : σ) (tbl : List Nat) : σ × String :=
  let live : List (Nat × Nat) := tbl.zipIdx.filter fun (mi, _) => !(m.targets s mi).isEmpty
  let acc0 : Acc σ := { st := s, firstOfFam := [], pyClasses := [], outStrs := [] }
  let acc := live.foldl (fun acc (mi, u) =>
      (m.targets acc.st mi).foldl (fun acc x => observeTarget m rev u acc mi x) acc) acc0
  -- `==` matrix of the roots
  -- the 16 most recent live roots (the end-of-history matrix takes the oldest objects)
  let liveM := live.drop (live.length - 16)
  let pairs := liveM.flatMap fun (mi, u) => (liveM.filter fun (_, u') => u < u').map fun (mj, _) => (mi, mj)
  let (s', bits) := pairs.foldl (fun (s, bits) (mi, mj) =>
      -- operand order alternates with the step parity
      let (s1, o) := m.step s (.x (.base (if rev then .eq ⟨mj, []⟩ ⟨mi, []⟩ else .eq ⟨mi, []⟩ ⟨mj, []⟩)))
      (s1, bits ++ (match o with
        | .bool (.ok true) => "1" | .bool (.ok false) => "0" | _ => "e"))) (acc.st, "")
  (s', ",".intercalate acc.outStrs ++ "#" ++ bits)

def extraOut (s : St) (tbl : List Nat) : OpY → String
  | .x (.base (.sighash r sub i ht)) =>
      match s.root (mapRoot tbl r) with
      | some a =>
        match rawSigHash s.heap a sub i ht with
        | some (_, d) => "=" ++ showRes d toHex
        | none => ""
      | none => ""
  | _ => ""

/-- is the script its own `FindAndDelete(script, OP_CODESEPARATOR)` (the heap `rawSigHash` takes the script
    after that step)? -/
def fadStable (sub : Bytes) : Bool :=
  match Model.Sighash.findAndDelete sub [0xab] with
  | .ok sub' => sub' == sub
  | .error _ => false

/-- cross-check of the digest (T2 tie of the unproved bridge `rawSigHash_eq_sighash_model`): heap side -/
def extraOutX (s : St) (tbl : List Nat) (op : OpY) : String :=
  match op with
  | .x (.base (.sighash _ sub _ _)) => if fadStable sub then extraOut s tbl op else "=skip"
  | _ => ""

/-- … and the same digest computed by `Model.Sighash.rawSignatureHash` (the model C03/C05/C06 reason about)
    on the transaction VALUE the root currently denotes in `Spec.AliasSem` -/
def extraSpecX (s : XStore) (tbl : List Nat) : OpY → String
  | .x (.base (.sighash r sub i ht)) =>
      if !fadStable sub then "=skip" else
      match s.root (mapRoot tbl r) with
      | some rf =>
        match Spec.AliasSem.eval s.cells rf with
        | some (.tx t) => "=" ++ showRes ((Model.Sighash.rawSignatureHash sub t i (ht : Int)).map (·.1)) toHex
        | _ => ""
      | none => ""
  | _ => ""

def digestStr (s : String) : String := cheapDigest s.toUTF8.toList

def endCap : Nat := 40

/-- at the end of a history: `a == b` for ALL ORDERED PAIRS (a, b) — also a = b, also across classes — of the
    first `endCap` live non-sequence objects (the nested ones included), row by row -/
def endMatrix {σ} (m : Machine σ) (s : σ) (tbl : List Nat) : String :=
  let objs : List Target := (tbl.flatMap fun mi => (m.targets s mi).map fun (p, _, _) => (⟨mi, p⟩ : Target)).take endCap
  let (_, rows) := objs.foldl (fun (s, rows) a =>
      let (s', row) := objs.foldl (fun (s, row) b =>
          let (s1, o) := m.step s (.x (.base (.eq a b)))
          (s1, row ++ (match o with
            | .bool (.ok true) => "1" | .bool (.ok false) => "0" | _ => "e"))) (s, "")
      (s', rows ++ [row])) (s, [])
  "/".intercalate rows

/-- per step (out, extra, observation string); a last element for the end-of-history matrix -/
def runHistoryL {σ} (m : Machine σ) (init : σ) (extra : σ → List Nat → OpY → String)
    (ops : List OpY) : List (String × String × String) :=
  let (sEnd, tblEnd, outs) := ops.foldl (fun (s, tbl, outs) op =>
      let op' := renameOpY tbl op
      let ex := extra s tbl op
      let mi := m.nameCount s
      let (s1, o) := m.step s op'
      let tbl1 := tbl ++ [mi]
      let (s2, obs) := observeAll m (tbl.length % 2 == 1) s1 tbl1
      -- in-place edits of a sequence inside an immutable-class object: the property requires the object to be
      -- unchanged afterwards (the observations), not a particular way of refusing (exception or edit of a copy)
      let oStr := match op', o with
        | .x (.witListEdit _ _ _), .err _ => "tried"
        | .x (.stackEdit _ _ _), .err _ => "tried"
        | _, _ => showOut o
      (s2, tbl1, outs ++ [(oStr, ex, obs)])) (init, [], [])
  outs ++ [("end", "", endMatrix m sEnd tblEnd)]

def render (verbose : Bool) (l : List (String × String × String)) : String :=
  ";".intercalate (l.map fun (o, ex, obs) =>
    relax (o ++ ex) ++ "#" ++ (if verbose then relax obs else digestStr (relax obs)))

def runHistory {σ} (m : Machine σ) (init : σ) (extra : σ → List Nat → OpY → String)
    (verbose : Bool) (ops : List OpY) : String :=
  render verbose (runHistoryL m init extra ops)

/-- the `extra` of the heap side as the cross-check sees it -/
def crossExtra (op : OpY) (ex : String) : String :=
  match op with
  | .x (.base (.sighash _ sub _ _)) => if fadStable sub then ex else "=skip"
  | _ => ex

def handle (op : String) (args : List String) : Option String :=
  match op, args with
  | "c09.run", [h] => some <| match (h.splitOn ";").mapM parseOp? with
      | some ops => runHistory heapMachine Model.Heap.init extraOut false ops
      | none => badArgs
  | "c09.runv", [h] => some <| match (h.splitOn ";").mapM parseOp? with
      | some ops => runHistory heapMachine Model.Heap.init extraOut true ops
      | none => badArgs
  | "c09.spec", [h] => some <| match (h.splitOn ";").mapM parseOp? with
      | some ops => runHistory specMachine Spec.ValueSem.init (fun _ _ _ => "") true ops
      | none => badArgs
  | "c09.specx", [h] => some <| match (h.splitOn ";").mapM parseOp? with
      | some ops => runHistory xMachine Spec.AliasSem.init extraSpecX true ops
      | none => badArgs
  | "c09.runc", [h] => some <| match (h.splitOn ";").mapM parseOp? with
      | some ops =>
        -- one run of the heap model serves both the reply and the cross-check
        let l := runHistoryL heapMachine Model.Heap.init extraOut ops
        let r := render false l
        let a := (l.zip (ops.map some ++ [none])).map fun ((o, ex, obs), op?) =>
          (o, (match op? with | some op => crossExtra op ex | none => ex), obs)
        let b := runHistoryL xMachine Spec.AliasSem.init extraSpecX ops
        match (a.zip b).zipIdx.find? (fun ((x, y), _) => x != y) with
        | none => r ++ "@@same"
        | some (_, k) => r ++ s!"@@diff@{k}"
      | none => badArgs
  | "c09.xcheck", [h] => some <| match (h.splitOn ";").mapM parseOp? with
      | some ops =>
        let a := (runHistory heapMachine Model.Heap.init (fun _ _ _ => "") true ops).splitOn ";"
        let b := (runHistory xMachine Spec.AliasSem.init (fun _ _ _ => "") true ops).splitOn ";"
        match (a.zip b).zipIdx.find? (fun ((x, y), _) => x != y) with
        | none => "same"
        | some (_, k) => s!"diff@{k}"
      | none => badArgs
  | _, _ => none

end Driver.C09
