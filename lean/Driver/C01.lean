/-
  C01 — line-protocol ops of the wire-format model.

    c01.ser.tx  <tx>            Model.serTx                      → hex | err:<family>
    c01.spec.tx <tx>            Spec.txBytes                     → hex
    c01.ser.hdr / c01.spec.hdr <header>,  c01.ser.blk / c01.spec.blk <block>   likewise
    c01.de.<k> <hex> <pad>      Serializable.deserialize(buf, allow_padding=pad) for
                                k ∈ {tx, txm (CMutableTransaction), hdr, blk}
                                → ok:<obj>:R<b> | extra:<obj>:<padhex>:R<b> | err:<family>
                                (R1 iff the parsed object re-serialises to the consumed bytes)
    c01.cuts.<k> <hex> <pos>    the c01.de outcome (pad = 0) of buf[:p] for every p in <pos>
                                (`*` = every strict prefix), run-length encoded
                                `<first p>x<count>=<outcome>` joined by `;`
    c01.varint.ser <int>        VarIntSerializer.serialize(i)            → hex | err:valueerr | err:py:error
    c01.varint.spec <nat>       Spec.compactSize                         → hex
    c01.varint.rt <nat>         deserialize(serialize(n) ++ 5a)          → <value>:5a
    c01.varint.de <hex>         VarIntSerializer.stream_deserialize on a stream   → <value>:<unread hex> | err:<family>
    c01.hist.tx  <tx>    <obsA> <obsB>   two observers applied one after the other to ONE object: the model
    c01.hist.blk <block> <obsA> <obsB>   answers are the stateless ones                     → <ansA>|<ansB>
        observers: ser (serialize()), ser0 / ser1 (serialize({'include_witness': False/True})), stream / stream0
        (stream_serialize into a BytesIO, default / include_witness=False), hash (GetHash), txid (GetTxid, tx only),
        pyh (hash(obj) == hash(bytes of the default serialisation)), eq (== a freshly built twin), weight
        (calc_weight / GetWeight)
-/
import Driver.Util
import Driver.TxFmt
import BtcVerif.Model.Wire
import BtcVerif.Model.Ident
import BtcVerif.Model.Merkle
import BtcVerif.Spec.Wire

namespace Driver.C01
open BtcVerif Driver Driver.TxFmt
open BtcVerif.Model.Wire

def renderBytes (r : Res Bytes) : String :=
  match r with
  | .ok b => toHex b
  | .error e => "err:" ++ e.family

structure Kind (α : Type) where
  parser : Parser α
  ser : α → Res Bytes
  render : α → String

def kTx : Kind Tx := ⟨deTx, fun t => serTx t, showTx⟩
def kTxM : Kind Tx := ⟨Model.Ident.deTxMutable, fun t => serTx t, showTx⟩
def kHdr : Kind Header := ⟨deHeader, serHeader, showHeader⟩
def kBlk : Kind Block := ⟨deBlock, fun b => serBlock b, showBlock⟩

def rflag (b : Bool) : String := if b then "R1" else "R0"

def renderDe {α} (k : Kind α) (buf : Bytes) (pad : Bool) : String :=
  match deserialize k.parser buf pad with
  | .err e => "err:" ++ e.family
  | .ok obj =>
      let r := match k.ser obj with
        | .ok s => if pad then s.isPrefixOf buf else s == buf
        | .error _ => false
      s!"ok:{k.render obj}:{rflag r}"
  | .extra obj p =>
      let r := match k.ser obj with
        | .ok s => s ++ p == buf
        | .error _ => false
      s!"extra:{k.render obj}:{toHex p}:{rflag r}"

/-- run-length encoding of (position, outcome) in list order -/
def rle (xs : List (Nat × String)) : String :=
  let groups := xs.foldl (fun (acc : List (Nat × Nat × String)) (p, o) =>
    match acc with
    | (s, c, o') :: rest => if o' == o then (s, c + 1, o') :: rest else (p, 1, o) :: acc
    | [] => [(p, 1, o)]) []
  ";".intercalate (groups.reverse.map fun (s, c, o) => s!"{s}x{c}={o}")

def cuts {α} (k : Kind α) (buf : Bytes) (pos : List Nat) : String :=
  rle (pos.map fun p => (p, renderDe k (buf.take p) false))

def parsePad? (s : String) : Option Bool :=
  if s == "0" then some false else if s == "1" then some true else none

def parsePos? (s : String) (n : Nat) : Option (List Nat) :=
  if s == "*" then some (List.range n) else parseNatList? s

def deOp {α} (k : Kind α) (hex pad : String) : String :=
  match parseHex? hex, parsePad? pad with
  | some b, some p => renderDe k b p
  | _, _ => badArgs

def cutsOp {α} (k : Kind α) (hex pos : String) : String :=
  match parseHex? hex with
  | some b => (match parsePos? pos b.length with
      | some ps => cuts k b ps
      | none => badArgs)
  | none => badArgs

def renderRes (r : Res String) : String :=
  match r with
  | .ok s => s
  | .error e => "err:" ++ e.family

/-- stateless answer of one observer on a transaction (`none` = unknown observer) -/
def obsTx (t : Tx) (o : String) : Option String :=
  match o with
  | "ser" | "ser1" | "stream" => some (renderBytes (serTx t))
  | "ser0" | "stream0" => some (renderBytes (serTx t false))
  | "hash" => some (renderRes ((Model.Ident.getHash t).map toHex))
  | "txid" => some (renderRes ((Model.Ident.getTxid t).map toHex))
  | "pyh" | "eq" => some (renderRes ((serTx t).map fun _ => "1"))
  | "weight" => some (renderRes ((Model.Merkle.calcWeight t).map toString))
  | _ => none

def obsBlk (b : Block) (o : String) : Option String :=
  match o with
  | "ser" | "ser1" | "stream" => some (renderBytes (serBlock b))
  | "ser0" | "stream0" => some (renderBytes (serBlock b false))
  | "hash" => some (renderRes ((Model.Ident.blockHash b).map toHex))
  | "pyh" | "eq" => some (renderRes ((serBlock b).map fun _ => "1"))
  | "weight" => some (renderRes ((Model.Merkle.getWeight b).map toString))
  | _ => none

def histOp {α} (obs : α → String → Option String) (x : Option α) (a b : String) : String :=
  match x with
  | none => badArgs
  | some x =>
    match obs x a, obs x b with
    | some ra, some rb => ra ++ "|" ++ rb
    | _, _ => badArgs

def handle (op : String) (args : List String) : Option String :=
  match op, args with
  | "c01.ser.tx", [t] => some <| match parseTx? t with
      | some t => renderBytes (serTx t)
      | none => badArgs
  | "c01.spec.tx", [t] => some <| match parseTx? t with
      | some t => toHex (Spec.Wire.txBytes t)
      | none => badArgs
  | "c01.ser.hdr", [h] => some <| match parseHeader? h with
      | some h => renderBytes (serHeader h)
      | none => badArgs
  | "c01.spec.hdr", [h] => some <| match parseHeader? h with
      | some h => toHex (Spec.Wire.header h)
      | none => badArgs
  | "c01.ser.blk", [b] => some <| match parseBlock? b with
      | some b => renderBytes (serBlock b)
      | none => badArgs
  | "c01.spec.blk", [b] => some <| match parseBlock? b with
      | some b => toHex (Spec.Wire.block b)
      | none => badArgs
  | "c01.varint.ser", [i] => some <| match parseInt? i with
      | some i => renderBytes (serVarIntInt i)
      | none => badArgs
  | "c01.varint.spec", [n] => some <| match parseNat? n with
      | some n => toHex (Spec.Wire.compactSize n)
      | none => badArgs
  | "c01.varint.rt", [n] => some <| match parseNat? n with
      | some n => (match serVarInt n with
          | .ok bs => (match deVarInt (bs ++ [0x5a]) with
              | .ok (v, rest) => s!"{v}:{toHex rest}"
              | .error e => "err:" ++ e.family)
          | .error e => "err:" ++ e.family)
      | none => badArgs
  | "c01.varint.de", [h] => some <| match parseHex? h with
      | some b => (match deVarInt b with
          | .ok (v, rest) => s!"{v}:{toHex rest}"
          | .error e => "err:" ++ e.family)
      | none => badArgs
  | "c01.hist.tx", [t, a, b] => some (histOp obsTx (parseTx? t) a b)
  | "c01.hist.blk", [blk, a, b] => some (histOp obsBlk (parseBlock? blk) a b)
  | "c01.de.tx", [h, p] => some (deOp kTx h p)
  | "c01.de.txm", [h, p] => some (deOp kTxM h p)
  | "c01.de.hdr", [h, p] => some (deOp kHdr h p)
  | "c01.de.blk", [h, p] => some (deOp kBlk h p)
  | "c01.cuts.tx", [h, p] => some (cutsOp kTx h p)
  | "c01.cuts.txm", [h, p] => some (cutsOp kTxM h p)
  | "c01.cuts.hdr", [h, p] => some (cutsOp kHdr h p)
  | "c01.cuts.blk", [h, p] => some (cutsOp kBlk h p)
  | _, _ => none

end Driver.C01
