/-
  C13 — keys, WIF, ECDSA.  The ops "c13.<primitive>" expose the reference primitives of
  BtcVerif/Crypto for cross-validation against Python (hashlib, OpenSSL via bitcoin.core.key).
-/
import Driver.Util
import BtcVerif.Crypto.Sha256
import BtcVerif.Crypto.Sha1
import BtcVerif.Crypto.Ripemd160
import BtcVerif.Crypto.Murmur3
import BtcVerif.Crypto.Secp256k1
import BtcVerif.Model.Keys
import BtcVerif.Spec.Chain
import Driver.KeysHist

namespace Driver.C13
open BtcVerif Driver
open BtcVerif.Crypto

def parseBool? (s : String) : Option Bool :=
  if s == "1" then some true else if s == "0" then some false else none

def bit (b : Bool) : String := if b then "1" else "0"

def hashOp (f : Bytes → Bytes) (x : String) : String :=
  match parseHex? x with
  | some b => toHex (f b)
  | none => badArgs

def primitives (op : String) (args : List String) : Option String :=
  match op, args with
  | "c13.sha1", [x] => some <| hashOp sha1 x
  | "c13.sha256", [x] => some <| hashOp sha256 x
  | "c13.hash256", [x] => some <| hashOp hash256 x
  | "c13.ripemd160", [x] => some <| hashOp ripemd160 x
  | "c13.hash160", [x] => some <| hashOp hash160 x
  | "c13.murmur3", [seed, x] => some <|
      match parseNat? seed, parseHex? x with
      | some s, some b => if s < 2 ^ 32 then toString (murmur3 (UInt32.ofNat s) b).toNat else badArgs
      | _, _ => badArgs
  | "c13.pubkey", [k, c] => some <|
      match parseNat? k, parseBool? c with
      | some k, some c => toHex (Secp256k1.pubkeyOf k c)
      | _, _ => badArgs
  | "c13.decode", [pk, c] => some <|
      match parseHex? pk, parseBool? c with
      | some pk, some c =>
          (match Secp256k1.decode pk with
           | some P => toHex (Secp256k1.encode P c)
           | none => "none")
      | _, _ => badArgs
  | "c13.mul", [k, pk, c] => some <|
      match parseNat? k, parseHex? pk, parseBool? c with
      | some k, some pk, some c =>
          (match Secp256k1.decode pk with
           | some P => toHex (Secp256k1.encode (Secp256k1.mul k P) c)
           | none => "none")
      | _, _, _ => badArgs
  | "c13.add", [a, b, c] => some <|
      match parseHex? a, parseHex? b, parseBool? c with
      | some a, some b, some c =>
          (match Secp256k1.decode a, Secp256k1.decode b with
           | some P, some Q => toHex (Secp256k1.encode (Secp256k1.add P Q) c)
           | _, _ => "none")
      | _, _, _ => badArgs
  | "c13.verify", [pk, h, r, s] => some <|
      match parseHex? pk, parseHex? h, parseNat? r, parseNat? s with
      | some pk, some h, some r, some s =>
          (match Secp256k1.decode pk with
           | some P => bit (Secp256k1.verify P (Secp256k1.digestNat h) r s)
           | none => "nopub")
      | _, _, _, _ => badArgs
  | "c13.verifyDer", [pk, h, sig] => some <|
      match parseHex? pk, parseHex? h, parseHex? sig with
      | some pk, some h, some sig =>
          (match Secp256k1.decode pk, Secp256k1.derDecodeStrict sig with
           | none, _ => "nopub"
           | _, none => "notder"
           | some P, some (r, s) => bit (Secp256k1.verify P (Secp256k1.digestNat h) r s))
      | _, _, _ => badArgs
  | "c13.sign", [d, h, k] => some <|
      match parseNat? d, parseHex? h, parseNat? k with
      | some d, some h, some k =>
          (match Secp256k1.sign d (Secp256k1.digestNat h) k with
           | some (r, s, recid) => s!"{r},{s},{recid}"
           | none => "none")
      | _, _, _ => badArgs
  | "c13.signLowS", [d, h, k] => some <|
      match parseNat? d, parseHex? h, parseNat? k with
      | some d, some h, some k =>
          (match Secp256k1.signLowS d (Secp256k1.digestNat h) k with
           | some (r, s, recid) => s!"{r},{s},{recid}"
           | none => "none")
      | _, _, _ => badArgs
  | "c13.recover", [h, r, s, recid, c] => some <|
      match parseHex? h, parseNat? r, parseNat? s, parseNat? recid, parseBool? c with
      | some h, some r, some s, some recid, some c =>
          (match Secp256k1.recover (Secp256k1.digestNat h) r s recid with
           | some P => toHex (Secp256k1.encode P c)
           | none => "none")
      | _, _, _, _, _ => badArgs
  | "c13.derEncode", [r, s] => some <|
      match parseNat? r, parseNat? s with
      | some r, some s => toHex (Secp256k1.derEncode r s)
      | _, _ => badArgs
  | "c13.derDecode", [sig] => some <|
      match parseHex? sig with
      | some sig =>
          (match Secp256k1.derDecodeStrict sig with
           | some (r, s) => s!"{r},{s}"
           | none => "none")
      | none => badArgs
  | "c13.lowS", [s] => some <|
      match parseNat? s with
      | some s => bit (Secp256k1.isLowS s)
      | none => badArgs
  | _, _ => none

/-- verdict on a signature the library produced: strict DER, low S (reference test and the model of
    `IsLowDERSignature`), reference verification under the key `secret·G`; and, when the raw output of
    `ECDSA_sign` was observed, the model of what `CECKey.sign` does with it (`signFinish`) must give
    exactly the signature the library returned -/
def signVerdict (secret : Bytes) (digest sig : Bytes) (raw : Option Bytes) : String :=
  match Secp256k1.derDecodeStrict sig with
  | none => "bad:not-strict-der"
  | some (r, s) =>
    let low := Secp256k1.isLowS s
    let mlow := Model.Keys.isLowDERSignature sig
    let ver := Secp256k1.verify (Secp256k1.mulG (beNat secret)) (Secp256k1.digestNat digest) r s
    let fin := match raw with
      | none => true
      | some raw => (match Model.Keys.signFinish digest raw with | .ok (some out) => out == sig | _ => false)
    if low && ver && fin && (match mlow with | .ok true => true | _ => false) then "ok"
    else s!"bad:lowS={bit low},verify={bit ver},signFinish={bit fin},modelLow={Res.render (mlow.map bit)}"

def glue (op : String) (args : List String) : Option String :=
  match op, args with
  | "c13.key", [chain, secret, c] => some <|
      match Spec.chainByName? chain, parseHex? secret, parseBool? c with
      | some ch, some secret, some c =>
          let payload := Model.Keys.wifPayload secret c
          let pub := Model.Keys.pubOfSecret secret c
          let rt := match Model.Keys.wifParse ch.secretKey ch.secretKey payload with
            | .ok (sec, c') =>
                let pub' := Model.Keys.pubOfSecret sec c'
                s!"{toHex sec},{bit (Model.Keys.isCompressed pub')},{toHex pub'}"
            | .error e => "err:" ++ e.family
          s!"pub={toHex pub} ver={ch.secretKey} payload={toHex payload} comp={bit (Model.Keys.isCompressed pub)} valid={bit (Model.Keys.isFullyValid pub)} rt={rt}"
      | _, _, _ => badArgs
  | "c13.wifparse", [chain, ver, payload] => some <|
      match Spec.chainByName? chain, parseNat? ver, parseHex? payload with
      | some ch, some ver, some payload =>
          (match Model.Keys.wifParse ch.secretKey ver payload with
           | .ok (sec, c) =>
               let pub := Model.Keys.pubOfSecret sec c
               s!"{toHex sec},{bit (Model.Keys.isCompressed pub)},{toHex pub}"
           | .error e => "err:" ++ e.family)
      | _, _, _ => badArgs
  | "c13.signcheck", [secret, _c, digest, sig, raw] => some <|
      match parseHex? secret, parseHex? digest, parseHex? sig with
      | some secret, some digest, some sig =>
          if raw == "-" then signVerdict secret digest sig none
          else (match parseHex? raw with
                | some raw => signVerdict secret digest sig (some raw)
                | none => badArgs)
      | _, _, _ => badArgs
  | "c13.signFinish", [digest, raw] => some <|
      match parseHex? digest, parseHex? raw with
      | some digest, some raw =>
          Res.render ((Model.Keys.signFinish digest raw).map fun o =>
            match o with | some b => toHex b | none => "None")
      | _, _ => badArgs
  | "c13.isLowDer", [sig] => some <|
      match parseHex? sig with
      | some sig => Res.render ((Model.Keys.isLowDERSignature sig).map bit)
      | none => badArgs
  | "c13.cmpBE", [a, b] => some <|
      match parseHex? a, parseHex? b with
      | some a, some b =>
          let r := Model.Keys.compareBigEndian a b
          if r > 0 then "1" else if r < 0 then "-1" else "0"
      | _, _ => badArgs
  | "c13.toLowS", [sig] => some <|
      match parseHex? sig with
      | some sig => Res.render ((Model.Keys.signatureToLowS sig).map fun o =>
          match o with | some b => toHex b | none => "None")
      | none => badArgs
  | "c13.fullyvalid", [pk] => some <|
      match parseHex? pk with
      | some pk => bit (Model.Keys.isFullyValid pk)
      | none => if pk == "-" then bit (Model.Keys.isFullyValid []) else badArgs
  | _, _ => none

def handle (op : String) (args : List String) : Option String :=
  if op == "c13.hist" then
    match args with
    | steps :: aux => some (KeysHist.run steps aux)
    | [] => some badArgs
  else
  match primitives op args with
  | some r => some r
  | none => glue op args

end Driver.C13
