import Driver.Util
import Driver.TxFmt
import BtcVerif.Model.BlockCheck
import BtcVerif.Spec.BlockCheck

namespace Driver.C16
open BtcVerif Driver Driver.TxFmt

def renderUnit (r : Res Unit) : String := Res.render (r.map (fun _ => "ok"))

def parseBool? (s : String) : Option Bool :=
  if s == "1" then some true else if s == "0" then some false else none

def verdict (b : Bool) : String := if b then "ok" else "err:validation"

/-- classification aid for the known-findings filter only (never compared with the real code):
    CheckBlock with the per-transaction loop starting at the second transaction, as in D10 -/
def checkBlockSkipCoinbase (p : Spec.ChainParams) (b : Block) (fPoW fMerkle : Bool) (now : Int) : Res Unit :=
  Model.BlockCheck.checkBlockWith (fun vtx => Model.BlockCheck.txLoop p vtx.tail 1 [] 0) p b fPoW fMerkle now

/-! ### sequences of observations on the same objects (`c16.seq`)

  Every step is answered statelessly: the model has no memory, so whatever the real code remembers
  from an earlier step (a memo, a scratch set, a counter, the previous chain) shows as a difference. -/

inductive Obj
  | blk (b : Block)
  | tx (t : Tx)

def parseObj? (s : String) : Option Obj :=
  if s.startsWith "B=" then (parseBlock? (s.drop 2).toString).map Obj.blk
  else if s.startsWith "Ti=" || s.startsWith "Tm=" then (parseTx? (s.drop 3).toString).map Obj.tx
  else none

def rBytes (r : Res Bytes) : String := Res.render (r.map toHex)
def rNat (r : Res Nat) : String := Res.render (r.map toString)
def rLen (r : Res Bytes) : String := Res.render (r.map (fun x => toString x.length))

/-- the transaction a step addresses: object `i` itself (k = "-") or transaction `k` of block `i` -/
def txOf (objs : List Obj) (i k : String) : Option Tx := do
  let i ← parseNat? i
  match ← objs[i]? with
  | .tx t => if k == "-" then some t else none
  | .blk b => do let k ← parseNat? k; b.vtx[k]?

def blkOf (objs : List Obj) (i : String) : Option Block := do
  let i ← parseNat? i
  match ← objs[i]? with
  | .blk b => some b
  | .tx _ => none

def step (objs : List Obj) (s : String) : Option String :=
  match s.splitOn ":" with
  | ["flush"] => some "f"
  | ["new", _] => some "n"
  | ["mr", i] => (blkOf objs i).map fun b => rBytes (Model.Merkle.calcMerkleRoot b.vtx)
  | ["wr", i] => (blkOf objs i).map fun b => rBytes (Model.Merkle.calcWitnessMerkleRoot b.vtx)
  | ["gw", i] => (blkOf objs i).map fun b => rNat (Model.Merkle.getWeight b)
  | ["s0", i] => (blkOf objs i).map fun b => rLen (Model.Wire.serBlock b false)
  | ["s1", i] => (blkOf objs i).map fun b => rLen (Model.Wire.serBlock b true)
  | ["bh", i] => (blkOf objs i).map fun b =>
      rBytes ((Model.BlockCheck.getHeader b.hdr).bind fun h => (Model.Wire.serHeader h).map Crypto.hash256)
  | ["ci", i] => (blkOf objs i).map fun b => rNat (Model.BlockCheck.witnessCommitmentIndex b.vtx)
  | ["ctor", i] => (blkOf objs i).map fun b =>
      Res.render ((Model.Merkle.blockCtor b.hdr b.vtx).map (fun r => "ok:" ++ toHex r.hdr.hashMerkleRoot))
  | ["cb", i, chain, now, fpow, fmerkle] => do
      let b ← blkOf objs i
      let p ← Spec.chainByName? chain
      let now ← parseInt? now
      let f ← parseBool? fpow
      let g ← parseBool? fmerkle
      pure (renderUnit (Model.BlockCheck.checkBlock p b f g now))
  | ["ch", i, chain, now, fpow] => do
      let b ← blkOf objs i
      let p ← Spec.chainByName? chain
      let now ← parseInt? now
      let f ← parseBool? fpow
      pure (renderUnit ((Model.BlockCheck.getHeader b.hdr).bind fun h =>
        Model.BlockCheck.checkBlockHeader p h f now))
  | ["tid", i, k] => (txOf objs i k).map fun t => rBytes (Model.Merkle.getTxid t)
  | ["wid", i, k] => (txOf objs i k).map fun t => rBytes (Model.Merkle.getHash t)
  | ["tw", i, k] => (txOf objs i k).map fun t => rNat (Model.Merkle.calcWeight t)
  | ["ts0", i, k] => (txOf objs i k).map fun t => rLen (Model.Wire.serTx t false)
  | ["ts1", i, k] => (txOf objs i k).map fun t => rLen (Model.Wire.serTx t true)
  | ["th", i, k] => (txOf objs i k).map fun t => Res.render ((Model.Wire.serTx t true).map fun _ => "h")
  | ["tc", i, k, chain] => do
      let t ← txOf objs i k
      let p ← Spec.chainByName? chain
      pure (renderUnit (Model.BlockCheck.checkTx p t))
  | ["so", i, k] => (txOf objs i k).map fun t => toString (Model.BlockCheck.legacySigOpCount t)
  | ["tcb", i, k] => (txOf objs i k).map fun t => if t.isCoinbase then "1" else "0"
  | ["thw", i, k] => (txOf objs i k).map fun t => if witIsNull t.wit then "0" else "1"
  | _ => none

def seq (args : List String) : Option String :=
  match args with
  | n :: rest => do
      let n ← parseNat? n
      if rest.length < n then none
      let objs ← (rest.take n).mapM parseObj?
      let outs ← (rest.drop n).mapM (step objs)
      pure (",".intercalate outs)
  | [] => none

def handle (op : String) (args : List String) : Option String :=
  match op, args with
  | "c16.seq", _ => some ((seq args).getD badArgs)
  | "c16.checktx", [chain, tx] => some <|
      match Spec.chainByName? chain, parseTx? tx with
      | some p, some t => renderUnit (Model.BlockCheck.checkTx p t)
      | _, _ => badArgs
  | "c16.spec.checktx", [chain, tx] => some <|
      match Spec.chainByName? chain, parseTx? tx with
      | some p, some t => verdict (decide (Spec.BlockCheck.ValidTx p t))
      | _, _ => badArgs
  | "c16.checkheader", [chain, now, fpow, hdr] => some <|
      match Spec.chainByName? chain, parseInt? now, parseBool? fpow, parseHeader? hdr with
      | some p, some now, some f, some h => renderUnit (Model.BlockCheck.checkBlockHeader p h f now)
      | _, _, _, _ => badArgs
  | "c16.spec.checkheader", [chain, now, fpow, hdr] => some <|
      match Spec.chainByName? chain, parseInt? now, parseBool? fpow, parseHeader? hdr with
      | some p, some now, some f, some h => verdict (decide (Spec.BlockCheck.ValidHeader p now f h))
      | _, _, _, _ => badArgs
  | "c16.checkblock", [chain, now, fpow, fmerkle, blk] => some <|
      match Spec.chainByName? chain, parseInt? now, parseBool? fpow, parseBool? fmerkle, parseBlock? blk with
      | some p, some now, some f, some g, some b => renderUnit (Model.BlockCheck.checkBlock p b f g now)
      | _, _, _, _, _ => badArgs
  | "c16.spec.checkblock", [chain, now, fpow, fmerkle, blk] => some <|
      match Spec.chainByName? chain, parseInt? now, parseBool? fpow, parseBool? fmerkle, parseBlock? blk with
      | some p, some now, some f, some g, some b => verdict (decide (Spec.BlockCheck.ValidBlock p now f g b))
      | _, _, _, _, _ => badArgs
  | "c16.skipcb.checkblock", [chain, now, fpow, fmerkle, blk] => some <|
      match Spec.chainByName? chain, parseInt? now, parseBool? fpow, parseBool? fmerkle, parseBlock? blk with
      | some p, some now, some f, some g, some b => renderUnit (checkBlockSkipCoinbase p b f g now)
      | _, _, _, _, _ => badArgs
  | "c16.sigops", [script] => some <| match parseHex? script with
      | some s => toString (Model.BlockCheck.sigOpCount s)
      | none => badArgs
  | "c16.spec.sigops", [script] => some <| match parseHex? script with
      | some s => toString (Spec.BlockCheck.sigOps s)
      | none => badArgs
  | "c16.txsigops", [tx] => some <| match parseTx? tx with
      | some t => toString (Model.BlockCheck.legacySigOpCount t)
      | none => badArgs
  | "c16.commitidx", [blk] => some <| match parseBlock? blk with
      | some b => Res.render ((Model.BlockCheck.witnessCommitmentIndex b.vtx).map toString)
      | none => badArgs
  | _, _ => none

end Driver.C16
