import Driver.Util
import Driver.TxFmt
import BtcVerif.Model.BlockCheck
import BtcVerif.Spec.BlockCheck

namespace Driver.C16
open BtcVerif Driver Driver.TxFmt

def renderUnit (r : Res Unit) : String := Res.render (r.map (fun _ => "ok"))

def parseBool? (s : String) : Option Bool :=
  if s == "1" then some true else if s == "0" then some false else none

def verdict (b : Bool) : String := if b then "ok" else "err:validation"

/-- classification aid for the known-findings filter only (never compared with the real code):
    CheckBlock with the per-transaction loop starting at the second transaction, as in D10 -/
def checkBlockSkipCoinbase (p : Spec.ChainParams) (b : Block) (fPoW fMerkle : Bool) (now : Int) : Res Unit :=
  Model.BlockCheck.checkBlockWith (fun vtx => Model.BlockCheck.txLoop p vtx.tail 1 [] 0) p b fPoW fMerkle now

def handle (op : String) (args : List String) : Option String :=
  match op, args with
  | "c16.checktx", [chain, tx] => some <|
      match Spec.chainByName? chain, parseTx? tx with
      | some p, some t => renderUnit (Model.BlockCheck.checkTx p t)
      | _, _ => badArgs
  | "c16.spec.checktx", [chain, tx] => some <|
      match Spec.chainByName? chain, parseTx? tx with
      | some p, some t => verdict (decide (Spec.BlockCheck.ValidTx p t))
      | _, _ => badArgs
  | "c16.checkheader", [chain, now, fpow, hdr] => some <|
      match Spec.chainByName? chain, parseInt? now, parseBool? fpow, parseHeader? hdr with
      | some p, some now, some f, some h => renderUnit (Model.BlockCheck.checkBlockHeader p h f now)
      | _, _, _, _ => badArgs
  | "c16.spec.checkheader", [chain, now, fpow, hdr] => some <|
      match Spec.chainByName? chain, parseInt? now, parseBool? fpow, parseHeader? hdr with
      | some p, some now, some f, some h => verdict (decide (Spec.BlockCheck.ValidHeader p now f h))
      | _, _, _, _ => badArgs
  | "c16.checkblock", [chain, now, fpow, fmerkle, blk] => some <|
      match Spec.chainByName? chain, parseInt? now, parseBool? fpow, parseBool? fmerkle, parseBlock? blk with
      | some p, some now, some f, some g, some b => renderUnit (Model.BlockCheck.checkBlock p b f g now)
      | _, _, _, _, _ => badArgs
  | "c16.spec.checkblock", [chain, now, fpow, fmerkle, blk] => some <|
      match Spec.chainByName? chain, parseInt? now, parseBool? fpow, parseBool? fmerkle, parseBlock? blk with
      | some p, some now, some f, some g, some b => verdict (decide (Spec.BlockCheck.ValidBlock p now f g b))
      | _, _, _, _, _ => badArgs
  | "c16.skipcb.checkblock", [chain, now, fpow, fmerkle, blk] => some <|
      match Spec.chainByName? chain, parseInt? now, parseBool? fpow, parseBool? fmerkle, parseBlock? blk with
      | some p, some now, some f, some g, some b => renderUnit (checkBlockSkipCoinbase p b f g now)
      | _, _, _, _, _ => badArgs
  | "c16.sigops", [script] => some <| match parseHex? script with
      | some s => toString (Model.BlockCheck.sigOpCount s)
      | none => badArgs
  | "c16.spec.sigops", [script] => some <| match parseHex? script with
      | some s => toString (Spec.BlockCheck.sigOps s)
      | none => badArgs
  | "c16.txsigops", [tx] => some <| match parseTx? tx with
      | some t => toString (Model.BlockCheck.legacySigOpCount t)
      | none => badArgs
  | "c16.commitidx", [blk] => some <| match parseBlock? blk with
      | some b => Res.render ((Model.BlockCheck.witnessCommitmentIndex b.vtx).map toString)
      | none => badArgs
  | _, _ => none

end Driver.C16
