import Driver.Util
import BtcVerif.Model.Compact
import BtcVerif.Spec.Compact
import BtcVerif.Spec.Chain

namespace Driver.C17
open BtcVerif Driver

def handle (op : String) (args : List String) : Option String :=
  match op, args with
  | "c17.fromCompact", [c] => some <| match parseNat? c with
      | some c => toString (Model.fromCompact c)
      | none => badArgs
  | "c17.toCompact", [v] => some <| match parseNat? v with
      | some v => toString (Model.toCompact v)
      | none => badArgs
  | "c17.truncTop3", [v] => some <| match parseNat? v with
      | some v => toString (Spec.truncTop3 v)
      | none => badArgs
  | "c17.pow", [limit, hash, bits] => some <|
      match parseNat? limit, parseHex? hash, parseNat? bits with
      | some l, some h, some b =>
          (match Model.checkPoW l h b with
           | .ok => "ok"
           | .errPow => "err:validation"
           | .pyStructError => "err:py:error")
      | _, _, _ => badArgs
  | "c17.spec.pow", [limit, hash, bits] => some <|
      match parseNat? limit, parseHex? hash, parseNat? bits with
      | some l, some h, some b =>
          if Spec.powValid l h b then "ok" else "err:validation"
      | _, _, _ => badArgs
  | "c17.limit", [chain] => some <| match Spec.chainByName? chain with
      | some p => toString p.powLimit
      | none => badArgs
  | "c17.powChain", [chain, hash, bits] => some <|
      match Spec.chainByName? chain, parseHex? hash, parseNat? bits with
      | some p, some h, some b =>
          (match Model.checkPoW p.powLimit h b with
           | .ok => "ok"
           | .errPow => "err:validation"
           | .pyStructError => "err:py:error")
      | _, _, _ => badArgs
  -- a history of checks, each under the chain selected for it: chain hash bits chain hash bits ...
  -- the model has no state to carry: every step is the function of (selected chain, hash, nBits)
  | "c17.powSeq", args => some <|
      let rec go : List String → Option (List String)
        | [] => some []
        | chain :: hash :: bits :: rest =>
            match Spec.chainByName? chain, parseHex? hash, parseNat? bits, go rest with
            | some p, some h, some b, some tl =>
                some ((match Model.checkPoW p.powLimit h b with
                       | .ok => "ok"
                       | .errPow => "err:validation"
                       | .pyStructError => "err:py:error") :: tl)
            | _, _, _, _ => none
        | _ => none
      match go args with
      | some outs => ",".intercalate outs
      | none => badArgs
  | "c17.spec.powChain", [chain, hash, bits] => some <|
      match Spec.chainByName? chain, parseHex? hash, parseNat? bits with
      | some p, some h, some b => if Spec.powValid p.powLimit h b then "ok" else "err:validation"
      | _, _, _ => badArgs
  | _, _ => none

end Driver.C17
