/-
  Tests of the Spec (DESIGN §4, trusted base): line-protocol ops used by harness/specvec.py to replay
  Bitcoin's own test vectors (/repo/bitcoin/tests/data/*.json) and standard published vectors through
  the hand-written reference definitions `Spec.*` / `Crypto.*` ONLY.  Nothing here imports or calls
  `Model.*`; the expected answers come from the vector files, never from python-bitcoinlib.

    sv.verify  scriptSig scriptPubKey flags tx inIdx der
                 `Spec.Script.Ref.verifyScript` with the environment
                   hashes   := Crypto.sha1 / ripemd160 / sha256
                   sigCheck := ECDSA over `Spec.Sighash.legacySighash scriptCode tx inIdx hashType`
                 `der` = `lax`  : signatures parsed as Bitcoin consensus does without DERSIG
                                   (transcription of `ecdsa_signature_parse_der_lax`, Core pubkey.cpp)
                 `der` = `strict`: `Crypto.Secp256k1.derDecodeStrict` (BIP66 form only)
                 → `ok` | `fail`
    sv.b32.valid  hrp text        direct evaluation of the clauses of `Spec.Bech32.Decodes`
                 (the existential witnesses are determined by the text)
                 → `valid:<ver>:<program hex>` | `invalid:<first clause that fails>`
    sv.b32.enc  hrp ver prog      `Spec.Bech32.encodeAddr`           → text | `none`
    sv.msgaddr  chain msg sig     Core's signed-message check, from the Spec pieces:
                 `Spec.Keys.msgDigest messageMagic msg`, `Spec.Keys.headerDecode`,
                 `Crypto.Secp256k1.recover`/`encode`, `Crypto.hash160`, `Spec.Base58.checkEnc` with the
                 chain's P2PKH version byte  → the address the signature commits to | `err:<why>`
    sv.wifaddr  chain wif         `Spec.Base58.dec` + `checkSplit?`, version = chain.secretKey, payload =
                 `Spec.Keys.wifPayload secret compressed`, public key `pubkeyOf`, P2PKH address as above
                 → `<address>:<secret hex>:<0|1>` | `err:<why>`
    sv.opcodes                    `Spec.opcodesByName` as `name=value,…`

  hrp / text / msg / wif travel as hex of their UTF-8 encoding; flags as in Driver/C06.lean
  (1 = P2SH, 2 = NULLDUMMY, 4 = CLEANSTACK, 8 = DISCOURAGE_UPGRADABLE_NOPS).  Mathlib-free.
-/
import Driver.Util
import Driver.TxFmt
import BtcVerif.Spec.ScriptRef
import BtcVerif.Spec.Sighash
import BtcVerif.Spec.Bech32
import BtcVerif.Spec.Base58
import BtcVerif.Spec.Keys
import BtcVerif.Spec.Chain
import BtcVerif.Spec.Opcodes
import BtcVerif.Crypto.Sha256
import BtcVerif.Crypto.Sha1
import BtcVerif.Crypto.Ripemd160
import BtcVerif.Crypto.Secp256k1
import BtcVerif.Crypto.Der

namespace Driver.SpecVec
open BtcVerif Driver BtcVerif.Spec.Script

/-! ### signatures as consensus reads them (no DERSIG): `ecdsa_signature_parse_der_lax` -/

/-- one `02 <len> <content>` element; returns the content octets and what follows.
    Long-form lengths: leading zero length octets are skipped, at most three may remain. -/
def laxInt : Bytes → Option (Bytes × Bytes)
  | tag :: lb :: rest =>
    if tag.toNat ≠ 0x02 then none else
    let l := lb.toNat
    if l ≥ 0x80 then
      let k := l - 0x80
      if k > rest.length then none else
      let lenOctets := (rest.take k).dropWhile (· == 0)
      let rest' := rest.drop k
      if lenOctets.length ≥ 4 then none else
      let n := beNat lenOctets
      if n > rest'.length then none else some (rest'.take n, rest'.drop n)
    else if l > rest.length then none else some (rest.take l, rest.drop l)
  | _ => none

/-- `some (r, s)` when the lax parser returns 1; an integer wider than 32 bytes after stripping
    zeros, or `r`/`s ≥ n`, yields the "correctly-parsed but invalid" signature (0, 0).
    The sequence length is skipped, not checked; bytes after S are ignored. -/
def derDecodeLax : Bytes → Option (Nat × Nat)
  | tag :: lb :: rest =>
    if tag.toNat ≠ 0x30 then none else
    let l := lb.toNat
    let body : Option Bytes :=
      if l ≥ 0x80 then (if l - 0x80 > rest.length then none else some (rest.drop (l - 0x80)))
      else some rest
    match body with
    | none => none
    | some body =>
      match laxInt body with
      | none => none
      | some (rb, rest1) =>
        match laxInt rest1 with
        | none => none
        | some (sb, _) =>
          let rb := rb.dropWhile (· == 0)
          let sb := sb.dropWhile (· == 0)
          if rb.length > 32 ∨ sb.length > 32 then some (0, 0) else
          let r := beNat rb
          let s := beNat sb
          if r ≥ Crypto.Secp256k1.n ∨ s ≥ Crypto.Secp256k1.n then some (0, 0) else some (r, s)
  | _ => none

def hashes : Hashes :=
  { sha1 := Crypto.sha1, ripemd160 := Crypto.ripemd160, sha256 := Crypto.sha256 }

/-- the signature checker of `TransactionSignatureChecker::CheckECDSASignature` for SigVersion::BASE:
    digest from `Spec.Sighash.legacySighash` (the historical digest "one" included), SEC1 key, ECDSA -/
def specEnv (lax : Bool) (tx : Tx) (nIn : Nat) : Env :=
  { hashes := hashes
    sigCheck := fun body pubkey scriptCode ht =>
      let digest := (Spec.Sighash.legacySighash scriptCode tx nIn ht).1
      let sig := if lax then derDecodeLax body else Crypto.Secp256k1.derDecodeStrict body
      match Crypto.Secp256k1.decode pubkey, sig with
      | some P, some (r, s) => Crypto.Secp256k1.verify P (Crypto.Secp256k1.digestNat digest) r s
      | _, _ => false }

def parseFlags? (s : String) : Option Flags := do
  let n ← parseNat? s
  if n ≥ 16 then none else
  pure { p2sh := n % 2 = 1, nullDummy := n / 2 % 2 = 1, cleanStack := n / 4 % 2 = 1,
         discourageNops := n / 8 % 2 = 1 }

def parseText? (hexUtf8 : String) : Option (List Char) := do
  let bs ← parseHex? hexUtf8
  let s ← String.fromUTF8? (ByteArray.mk bs.toArray)
  pure s.toList

/-! ### `Spec.Bech32.Decodes h s ver prog`, clause by clause -/

open BtcVerif.Spec.Bech32 in
/-- Every existential witness of `Decodes` is a function of `(h, s)`: `dchars` is what follows
    `h ++ "1"` in the lower-case form, the values are the charset positions, `ck` the last six,
    `pad = 5·|rest| mod 8`, `prog` the top `8·⌊5·|rest|/8⌋` bits.  The clauses are then checked in the
    order of the definition. -/
def b32Decide (h s : List Char) : String :=
  if ¬ s.all (fun c => 33 ≤ c.toNat ∧ c.toNat ≤ 126) then "invalid:not-printable-ascii" else
  if s.any Char.isLower ∧ s.any Char.isUpper then "invalid:mixed-case" else
  if s.length > 90 then "invalid:too-long" else
  if h = [] then "invalid:empty-hrp" else
  let low := lowerStr s
  let pre := h ++ ['1']
  if ¬ pre.isPrefixOf low then "invalid:prefix-or-separator" else
  let dchars := low.drop pre.length
  match dchars.mapM (fun c => charset.idxOf? c) with
  | none => "invalid:character-outside-charset"
  | some vals =>
    if dataChars? vals ≠ some dchars then "invalid:character-outside-charset" else
    match vals with
    | [] => "invalid:data-too-short"
    | ver :: tl =>
      if tl.length < 6 then "invalid:data-too-short" else
      let rest := tl.take (tl.length - 6)
      if polymod (hrpExpand h ++ vals) ≠ 1 then "invalid:checksum" else
      if ver > 16 then "invalid:witness-version" else
      let bits := 5 * rest.length
      let pad := bits % 8
      let nprog := bits / 8
      if pad ≥ 5 then "invalid:padding-5-or-more-bits" else
      let v := beValue 32 rest
      let prog := beDigits 256 nprog (v / 2 ^ pad)
      if v ≠ beValue 256 prog * 2 ^ pad then "invalid:non-zero-padding" else
      if prog.length < 2 ∨ prog.length > 40 then "invalid:program-length" else
      if ver = 0 ∧ prog.length ≠ 20 ∧ prog.length ≠ 32 then "invalid:v0-program-length" else
      s!"valid:{ver}:{toHex (prog.map UInt8.ofNat)}"

/-! ### signed messages and WIF -/

def H : Bytes → Bytes := Crypto.hash256

def p2pkhText (ch : Spec.ChainParams) (pub : Bytes) : String :=
  String.ofList (Spec.Base58.checkEnc H (UInt8.ofNat ch.pubkeyAddr) (Crypto.hash160 pub))

def msgAddr (ch : Spec.ChainParams) (msg sig : Bytes) : String :=
  match sig with
  | hdr :: rs =>
    if rs.length ≠ 64 then "err:length" else
    match Spec.Keys.headerDecode hdr.toNat with
    | none => "err:header"
    | some (recid, compressed) =>
      let digest := Spec.Keys.msgDigest Spec.Keys.messageMagic msg
      match Crypto.Secp256k1.recover (Crypto.Secp256k1.digestNat digest) (beNat (rs.take 32))
              (beNat (rs.drop 32)) recid with
      | none => "err:recover"
      | some Q => p2pkhText ch (Crypto.Secp256k1.encode Q compressed)
  | [] => "err:length"

def wifAddr (ch : Spec.ChainParams) (wif : List Char) : String :=
  match Spec.Base58.dec wif with
  | none => "err:b58"
  | some k =>
    match Spec.Base58.checkSplit? H k with
    | none => "err:checksum"
    | some (v, payload) =>
      if v.toNat ≠ ch.secretKey then "err:version" else
      let secret := payload.take 32
      let compressed := payload.length = 33
      if payload ≠ Spec.Keys.wifPayload secret compressed ∨ secret.length ≠ 32 then "err:payload" else
      let d := beNat secret
      if d = 0 ∨ d ≥ Crypto.Secp256k1.n then "err:range" else
      s!"{p2pkhText ch (Crypto.Secp256k1.pubkeyOf d compressed)}:{toHex secret}:{if compressed then "1" else "0"}"

def handle (op : String) (args : List String) : Option String :=
  match op, args with
  | "sv.verify", [sig, spk, fl, tx, idx, der] => some <|
      match parseHex? sig, parseHex? spk, parseFlags? fl, TxFmt.parseTx? tx, parseNat? idx with
      | some sig, some spk, some fl, some tx, some idx =>
          if der ≠ "lax" ∧ der ≠ "strict" then badArgs else
          if Ref.verifyScript (specEnv (der == "lax") tx idx) fl sig spk then "ok" else "fail"
      | _, _, _, _, _ => badArgs
  | "sv.b32.valid", [h, s] => some <|
      match parseText? h, parseText? s with
      | some h, some s => b32Decide h s
      | _, _ => badArgs
  | "sv.b32.enc", [h, v, p] => some <|
      match parseText? h, parseNat? v, parseHex? p with
      | some h, some v, some p =>
          (match Spec.Bech32.encodeAddr h v (p.map UInt8.toNat) with
           | some s => String.ofList s
           | none => "none")
      | _, _, _ => badArgs
  | "sv.msgaddr", [chain, msg, sig] => some <|
      match Spec.chainByName? chain, parseHex? msg, parseHex? sig with
      | some ch, some msg, some sig => msgAddr ch msg sig
      | _, _, _ => badArgs
  | "sv.wifaddr", [chain, wif] => some <|
      match Spec.chainByName? chain, parseText? wif with
      | some ch, some wif => wifAddr ch wif
      | _, _ => badArgs
  | "sv.opcodes", [] => some <|
      joinWith "," (Spec.opcodesByName.map fun (n, v) => s!"{n}={v}")
  | _, _ => none

end Driver.SpecVec
