/-
  Line-protocol helpers for the model driver (Mathlib-free).
  One request per input line:  op <TAB> arg1 <TAB> arg2 ...
  One reply per line (never contains a newline).
-/
import BtcVerif.Basic.Bytes

namespace Driver
open BtcVerif

def parseNat? (s : String) : Option Nat := s.toNat?

def parseInt? (s : String) : Option Int := s.toInt?

def parseHex? (s : String) : Option Bytes := ofHex? s

/-- split on a single character, keeping empty fields; "" ↦ [] -/
def splitList (s : String) (sep : Char) : List String :=
  if s.isEmpty then [] else s.splitOn (String.singleton sep)

def parseHexList? (s : String) (sep : Char := ',') : Option (List Bytes) :=
  (splitList s sep).mapM parseHex?

def parseNatList? (s : String) (sep : Char := ',') : Option (List Nat) :=
  (splitList s sep).mapM parseNat?

def parseIntList? (s : String) (sep : Char := ',') : Option (List Int) :=
  (splitList s sep).mapM parseInt?

def joinWith (sep : String) (xs : List String) : String := sep.intercalate xs

def badArgs : String := "bad-args"

end Driver
