import Driver.Util
import BtcVerif.Model.Bech32
import BtcVerif.Spec.Chain

/-!
  Line-protocol ops of the bech32 / segwit-address model.
  Python strings travel as `,`-separated decimal code points (so that blanks, tabs, non-ASCII and the
  empty string are all representable); replies that are addresses are printable ASCII and sent plain.
-/
namespace Driver.C11
open BtcVerif Driver
open BtcVerif.Model.Bech32

/-- A Python `str` can hold lone surrogates (U+D800..U+DFFF), a Lean `Char` cannot.  They are mapped to the
    private-use code points U+E000..U+E7FF.  This does not change any outcome of the modelled functions:
    every code point above 126 in the string given to `bech32_decode` is refused by its first test before
    anything else looks at it; in an `hrp` argument such a code point only takes part in an equality test
    against an all-ASCII string (`decode`) or in `hrp_expand`, whose result is unobservable because the
    self-check of `encode` then refuses the string. -/
def parseStr? (s : String) : Option (List Char) := do
  let ns ← parseNatList? s
  ns.mapM (fun n =>
    if n.isValidChar then some (Char.ofNat n)
    else if 0xD800 ≤ n ∧ n ≤ 0xDFFF then some (Char.ofNat (0xE000 + (n - 0xD800)))
    else none)

def showNats (l : List Nat) : String := joinWith "," (l.map toString)

def showStr (s : List Char) : String := showNats (s.map Char.toNat)

def showProg (v : Nat) (p : List Nat) : String :=
  toString v ++ ":" ++ toHex (p.map UInt8.ofNat)

def showDecode : Res (Option (Nat × List Nat)) → String
  | .error e => "err:" ++ e.family
  | .ok none => "none"
  | .ok (some (v, p)) => showProg v p

def showEncode : Res (Option (List Char)) → String
  | .error e => "err:" ++ e.family
  | .ok none => "none"
  | .ok (some s) => String.ofList s

def handle1 (op : String) (args : List String) : Option String :=
  match op, args with
  | "c11.polymod", [vs] => some <| match parseNatList? vs with
      | some vs => toString (polymod vs)
      | none => badArgs
  | "c11.hrpExpand", [h] => some <| match parseStr? h with
      | some h => showNats (hrpExpand h)
      | none => badArgs
  | "c11.createChecksum", [h, d] => some <| match parseStr? h, parseNatList? d with
      | some h, some d => showNats (createChecksum h d)
      | _, _ => badArgs
  | "c11.verifyChecksum", [h, d] => some <| match parseStr? h, parseNatList? d with
      | some h, some d => if verifyChecksum h d then "True" else "False"
      | _, _ => badArgs
  | "c11.convertbits", [d, f, t, p] => some <|
      match parseNatList? d, parseNat? f, parseNat? t, parseNat? p with
      | some d, some f, some t, some p =>
          if h : 0 < t then
            (match convertbits d f t (p != 0) h with
             | none => "none"
             | some r => "[" ++ showNats r ++ "]")
          else badArgs                                   -- outside the precondition of convertbits
      | _, _, _, _ => badArgs
  | "c11.b32enc", [h, d] => some <| match parseStr? h, parseNatList? d with
      | some h, some d =>
          (match bech32Encode h d with
           | .ok s => "s:" ++ showStr s
           | .error e => "err:" ++ e.family)
      | _, _ => badArgs
  | "c11.b32dec", [s] => some <| match parseStr? s with
      | some s =>
          (match bech32Decode s with
           | none => "none"
           | some (h, d) => showStr h ++ ";" ++ showNats d)
      | none => badArgs
  | "c11.decode", [h, s] => some <| match parseStr? h, parseStr? s with
      | some h, some s => showDecode (decodeR h s)
      | _, _ => badArgs
  | "c11.encode", [h, v, p] => some <| match parseStr? h, parseNat? v, parseHex? p with
      | some h, some v, some p => showEncode (encodeR h v p)
      | _, _, _ => badArgs
  | "c11.new", [chain, s] => some <| match Spec.chainByName? chain, parseStr? s with
      | some c, some s =>
          (match cbech32New c.bech32Hrp.toList s with
           | .ok (v, p) => toString v ++ ":" ++ toHex p
           | .error e => "err:" ++ e.family)
      | _, _ => badArgs
  | "c11.str", [chain, v, p] => some <| match Spec.chainByName? chain, parseNat? v, parseHex? p with
      | some c, some v, some p =>
          -- str(CBech32Data.from_bytes(v, p))
          (match fromBytes v (p.map UInt8.toNat) with
           | .error e => "err:" ++ e.family
           | .ok (v, p) =>
             match cbech32Str c.bech32Hrp.toList v p with
             | .ok s => String.ofList s
             | .error e => "err:" ++ e.family)
      | _, _, _ => badArgs
  | _, _ => none

/-! ### histories and observer sequences (the model is stateless: each step is answered on its own) -/

/-- one step of a history `kind;arg;arg…`; a step whose kind starts with `~` is executed by the harness for
    its side effects only and is reported as `-` by both sides (its own outcome is outside the property) -/
def stepOut (step : String) : String :=
  match step.splitOn ";" with
  | k :: args => if k.startsWith "~" then "-" else (handle1 ("c11." ++ k) args).getD "bad-op"
  | [] => "bad-op"

/-- observers of one `CBech32Data` object `(ver, prog)`, under the chain selected at that moment -/
def observe (ver : Nat) (prog : Bytes) : Spec.ChainParams → List String → List String
  | _, [] => []
  | chain, tok :: rest =>
    let strR := cbech32Str chain.bech32Hrp.toList ver prog
    let here (o : String) := o :: observe ver prog chain rest
    match tok.splitOn ":" with
    | ["str"] => here (match strR with | .ok s => String.ofList s | .error e => "err:" ++ e.family)
    | ["repr"] => here (match strR with
        | .ok s => "CBech32Data('" ++ String.ofList s ++ "')" | .error e => "err:" ++ e.family)
    | ["bytes"] => here (toHex prog)
    | ["tobytes"] => here (toHex prog)
    | ["witver"] => here (toString ver)
    | ["len"] => here (toString prog.length)
    | ["hash"] => here "True"                                  -- hash(o) == hash(bytes(o))
    | ["eq", h] => here (match parseHex? h with | some b => (if b = prog then "True" else "False") | none => badArgs)
    | ["ne", h] => here (match parseHex? h with | some b => (if b = prog then "False" else "True") | none => badArgs)
    | ["sel", c] => (match Spec.chainByName? c with
        | some chain' => "-" :: observe ver prog chain' rest
        | none => [badArgs])
    | _ => [badArgs]

def handle (op : String) (args : List String) : Option String :=
  match op, args with
  | "c11.seq", steps => some (joinWith " " (steps.map stepOut))
  | "c11.obj", chain :: how :: payload :: toks => some <|
      match Spec.chainByName? chain with
      | none => badArgs
      | some c =>
        let built : Option (Res (Nat × Bytes)) :=
          match how with
          | "new" => (parseStr? payload).map (cbech32New c.bech32Hrp.toList)
          | "fb" => (match payload.splitOn ":" with
              | [v, h] => (match parseNat? v, parseHex? h with
                  | some v, some h => some (fromBytes v (h.map UInt8.toNat))
                  | _, _ => none)
              | _ => none)
          | _ => none
        match built with
        | none => badArgs
        | some (.error e) => "err:" ++ e.family
        | some (.ok (v, p)) => joinWith " " ("ok" :: observe v p c toks)
  | _, _ => handle1 op args

end Driver.C11
