import Driver.Util

namespace Driver.C07
open BtcVerif Driver

def handle (_op : String) (_args : List String) : Option String := none

end Driver.C07
