/-
  C07 — totality / containment ops: the same executable model as C06 (Driver/C06.lean), under the
  property's own op names so that the two checks stay independent on the line protocol.

    c07.verify  scriptSig scriptPubKey flags tx inIdx   → `<model> ~ <ref>`   (see Driver/C06.lean); an
                   EvalScriptError carries the captured state: `err:validation{stack|altstack|nOpCount}`
    c07.eval    script stack flags tx inIdx             → `<model> ~ <ref>`
    c07.seq     (kind a0 a1 flags tx inIdx txref)*      → step replies joined by ` ;; `
-/
import Driver.Util
import Driver.C06

namespace Driver.C07
open BtcVerif Driver

def handle (op : String) (args : List String) : Option String :=
  match op with
  | "c07.verify" => C06.handleWith true "c06.verify" args
  | "c07.eval" => C06.handleWith true "c06.eval" args
  | "c07.seq" => C06.handleWith true "c06.seq" args
  | _ => none

end Driver.C07
