/-
  btcmodel — executable side of the behavioural correspondence (T2).
  Reads one request per line on stdin, writes exactly one reply line per request.
  The reply of an unknown operation is `bad-op` (never a default value).
-/
import Driver.Util
import Driver.C01
import Driver.C02
import Driver.C03
import Driver.C04
import Driver.C05
import Driver.C06
import Driver.C07
import Driver.C08
import Driver.C09
import Driver.C10
import Driver.C11
import Driver.C12
import Driver.C13
import Driver.C14
import Driver.C15
import Driver.C16
import Driver.C17
import Driver.C18
import Driver.C19
import Driver.C20
import Driver.SpecVec

namespace Driver

def handlers : List (String × (String → List String → Option String)) :=
  [ ("c01.", C01.handle), ("c02.", C02.handle), ("c03.", C03.handle), ("c04.", C04.handle),
    ("c05.", C05.handle), ("c06.", C06.handle), ("c07.", C07.handle), ("c08.", C08.handle),
    ("c09.", C09.handle), ("c10.", C10.handle), ("c11.", C11.handle), ("c12.", C12.handle),
    ("c13.", C13.handle), ("c14.", C14.handle), ("c15.", C15.handle), ("c16.", C16.handle),
    ("c17.", C17.handle), ("c18.", C18.handle), ("c19.", C19.handle), ("c20.", C20.handle),
    ("sv.", SpecVec.handle) ]

def dispatch (line : String) : String :=
  match line.splitOn "\t" with
  | [] => "bad-op"
  | op :: args =>
    match handlers.find? (fun (p, _) => op.startsWith p) with
    | some (_, h) => (h op args).getD "bad-op"
    | none => "bad-op"

partial def loop (hin hout : IO.FS.Stream) : IO Unit := do
  let line ← hin.getLine
  if line.isEmpty then
    hout.flush
    return ()
  let l := if line.endsWith "\n" then (line.dropEnd 1).toString else line
  hout.putStrLn (dispatch l)
  loop hin hout

end Driver

def main : IO Unit := do
  let hin ← IO.getStdin
  let hout ← IO.getStdout
  Driver.loop hin hout
