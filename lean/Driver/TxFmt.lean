/-
  Text form of transactions / headers / blocks on the line protocol (mirror: harness/txfmt.py).

    tx     := ver ';' lock ';' vin ';' vout ';' wit
    vin    := '' | txin ('|' txin)*          txin  := hash ',' n ',' script ',' seq
    vout   := '' | txout ('|' txout)*        txout := value ',' script
    wit    := '-' | stack ('|' stack)*       stack := count (':' item)*        ('-' = no entries)
    header := ver ',' prev ',' merkle ',' time ',' bits ',' nonce
    block  := header ('/' tx)*
-/
import Driver.Util
import BtcVerif.Basic.Tx

namespace Driver.TxFmt
open BtcVerif Driver

def parseTxIn? (s : String) : Option TxIn :=
  match s.splitOn "," with
  | [h, n, sc, q] => do
      let h ← parseHex? h; let n ← parseNat? n; let sc ← parseHex? sc; let q ← parseNat? q
      pure { prevout := { hash := h, n := n }, scriptSig := sc, nSequence := q }
  | _ => none

def parseTxOut? (s : String) : Option TxOut :=
  match s.splitOn "," with
  | [v, sc] => do
      let v ← parseInt? v; let sc ← parseHex? sc
      pure { nValue := v, scriptPubKey := sc }
  | _ => none

def parseStack? (s : String) : Option WitStack :=
  match s.splitOn ":" with
  | k :: items => do
      let k ← parseNat? k
      if items.length ≠ k then none else items.mapM parseHex?
  | [] => none

def parseWit? (s : String) : Option (List WitStack) :=
  if s == "-" then some [] else (s.splitOn "|").mapM parseStack?

def parseTx? (s : String) : Option Tx :=
  match s.splitOn ";" with
  | [ver, lock, vin, vout, wit] => do
      let ver ← parseInt? ver; let lock ← parseNat? lock
      let vin ← (splitList vin '|').mapM parseTxIn?
      let vout ← (splitList vout '|').mapM parseTxOut?
      let wit ← parseWit? wit
      pure { nVersion := ver, vin := vin, vout := vout, wit := wit, nLockTime := lock }
  | _ => none

def parseHeader? (s : String) : Option Header :=
  match s.splitOn "," with
  | [v, p, m, t, b, n] => do
      let v ← parseInt? v; let p ← parseHex? p; let m ← parseHex? m
      let t ← parseNat? t; let b ← parseNat? b; let n ← parseNat? n
      pure { nVersion := v, hashPrevBlock := p, hashMerkleRoot := m, nTime := t, nBits := b, nNonce := n }
  | _ => none

def parseBlock? (s : String) : Option Block :=
  match s.splitOn "/" with
  | h :: txs => do
      let h ← parseHeader? h
      let txs ← txs.mapM parseTx?
      pure { hdr := h, vtx := txs }
  | [] => none

def showTxIn (i : TxIn) : String :=
  s!"{toHex i.prevout.hash},{i.prevout.n},{toHex i.scriptSig},{i.nSequence}"

def showTxOut (o : TxOut) : String := s!"{o.nValue},{toHex o.scriptPubKey}"

def showStack (st : WitStack) : String :=
  ":".intercalate (toString st.length :: st.map toHex)

def showWit (w : List WitStack) : String :=
  if w.isEmpty then "-" else "|".intercalate (w.map showStack)

def showTx (t : Tx) : String :=
  s!"{t.nVersion};{t.nLockTime};{"|".intercalate (t.vin.map showTxIn)};{"|".intercalate (t.vout.map showTxOut)};{showWit t.wit}"

def showHeader (h : Header) : String :=
  s!"{h.nVersion},{toHex h.hashPrevBlock},{toHex h.hashMerkleRoot},{h.nTime},{h.nBits},{h.nNonce}"

def showBlock (b : Block) : String := "/".intercalate (showHeader b.hdr :: b.vtx.map showTx)

end Driver.TxFmt
