/-
  C07 — script verification is total, contained and side-effect free: property theorems.

  All statements are about `Model.ScriptEval` (the mirror of scripteval.py in which every Python
  exception site is an explicit outcome) and quantify over ARBITRARY byte lists as scripts.
  Hypotheses: `HashesOK` (the hash primitives return at most 520 bytes — 20/32 for the real ones),
  `∀ cls, ¬ c.Raises cls` (the modelled `RawSignatureHash` raises nothing but CScriptInvalidError:
  for the real one, `0 ≤ inIdx` and a transaction in wire range — a negative index below −|vin| is
  known finding D7), `fl.admissible` (CLEANSTACK ⇒ P2SH; the other four flag sets are known finding D6).  Helper lemmas: Proofs/ScriptEval*.lean,
  Proofs/ScriptVerify.lean.  Side-effect freedom on the Python heap is C09's subject; here the
  model is a pure function of its arguments, and the tie (harness/props/c07.py) checks that the
  real call leaves `txTo.serialize()` and both scripts unchanged.
-/
import BtcVerif.Proofs.ScriptVerify

namespace BtcVerif.C07
open BtcVerif BtcVerif.Spec.Script BtcVerif.Model.ScriptEval

/-- totality: the model of `VerifyScript` is a total function (structural / well-founded
    recursion checked by Lean, no fuel) and returns one of the two constructors -/
theorem verify_total (c : Ctx) (fl : Flags) (sig spk : Bytes) :
    verifyScript c fl sig spk = .ok () ∨ ∃ e, verifyScript c fl sig spk = .error e := by
  cases h : verifyScript c fl sig spk with
  | ok u => left; rfl
  | error e => right; exact ⟨e, rfl⟩

/-- `only_known_findings_class`: the only foreign (non-ValidationError) exceptions `VerifyScript`
    can raise are an exception that `RawSignatureHash` itself raised, with that exception's class
    (`Ctx.Raises`: for the real one and a transaction in wire range that is IndexError for
    `inIdx < −|vin|`, known finding D7 — `C06.Concrete.raises_real_iff`), or AssertionError when the
    flag set has CLEANSTACK without P2SH (D6).  No CScriptInvalidError, IndexError from the stack,
    KeyError from `OPCODE_NAMES`, struct.error of the number codec, ValueError, TypeError,
    UnboundLocalError or `assert len(stack)` failure is reachable, for arbitrary byte strings. -/
theorem only_known_findings (c : Ctx) (fl : Flags) (hh : HashesOK c.env.hashes) (sig spk : Bytes) (e : Err)
    (h : verifyScript c fl sig spk = .error e) (hv : e.isValidation = false) :
    ∃ cls, e = .py cls ∧ (c.Raises cls ∨ (cls = "AssertionError" ∧ fl.admissible = false)) := by
  have := verifyScript_verok (c := c) (fl := fl) hh sig spk
  rw [h] at this
  cases e with
  | eval cap => simp [Err.isValidation] at hv
  | verify => simp [Err.isValidation] at hv
  | invalid cap => exact absurd this id
  | py cls => exact ⟨cls, rfl, this⟩

/-- containment: when `RawSignatureHash` raises nothing but CScriptInvalidError (in-range index,
    transaction in wire range) and the flag set is admissible, `VerifyScript` on arbitrary byte
    strings returns normally or raises a ValidationError -/
theorem verify_contained (c : Ctx) (fl : Flags) (hh : HashesOK c.env.hashes) (hi : ∀ cls, ¬ c.Raises cls)
    (hf : fl.admissible = true) (sig spk : Bytes) :
    verifyScript c fl sig spk = .ok () ∨
    ∃ e, verifyScript c fl sig spk = .error e ∧ e.isValidation = true := by
  rcases verify_total c fl sig spk with h | ⟨e, h⟩
  · left; exact h
  · right
    refine ⟨e, h, ?_⟩
    cases hv : e.isValidation with
    | true => rfl
    | false =>
      obtain ⟨cls, _, h1 | ⟨_, h2⟩⟩ := only_known_findings c fl hh sig spk e h hv
      · exact absurd h1 (hi cls)
      · rw [hf] at h2; cases h2

/-- the state captured in an EvalScriptError raised by `VerifyScript` respects the interpreter's
    limits: at most 1000 + 3 items on stack and altstack together, at most 201 + 20 counted
    operations, every element at most 520 bytes (whatever the index and the flags) -/
theorem error_state_limits (c : Ctx) (fl : Flags) (hh : HashesOK c.env.hashes) (sig spk : Bytes)
    (cap : Captured) (h : verifyScript c fl sig spk = .error (.eval cap)) :
    cap.stack.length + cap.altstack.length ≤ 1003 ∧ cap.nOpCount ≤ 221 ∧
    (∀ x ∈ cap.stack, x.length ≤ 520) ∧ (∀ x ∈ cap.altstack, x.length ≤ 520) := by
  have := verifyScript_verok (c := c) (fl := fl) hh sig spk
  rw [h] at this
  exact this

/-- `EvalScript` from a caller-supplied stack within the limits: final stack or ValidationError,
    for any script bytes -/
theorem eval_contained (c : Ctx) (fl : Flags) (hh : HashesOK c.env.hashes) (hi : ∀ cls, ¬ c.Raises cls)
    (stack : List Bytes) (script : Bytes) (B : Nat) (hB : 520 ≤ B) (hB2 : B < 2 ^ 32)
    (hs : stack.length ≤ 1000) (he : ∀ x ∈ stack, x.length ≤ B) :
    (∃ s, evalScript c fl stack script = .ok s) ∨
    ∃ cap, evalScript c fl stack script = .error (.eval cap) := by
  obtain ⟨h1, h2⟩ := evalScript_ok (c := c) (B := B) fl stack script hs he hB hB2 hh
  cases hr : evalScript c fl stack script with
  | ok s => left; exact ⟨s, rfl⟩
  | error e =>
    rw [hr] at h1
    cases e with
    | eval cap => right; exact ⟨cap, rfl⟩
    | verify => exact absurd h1 id
    | invalid cap => exact absurd hr (h2 cap)
    | py cls => exact absurd h1 (hi cls)

/-- limits as an invariant of `EvalScript` (by induction over the loop): the final stack has at
    most 1000 items, an error state at most 1003 and 221 counted operations, and no element ever
    exceeds max(520, the largest initial element) -/
theorem eval_state_limits (c : Ctx) (fl : Flags) (hh : HashesOK c.env.hashes)
    (stack : List Bytes) (script : Bytes) (B : Nat) (hB : 520 ≤ B) (hB2 : B < 2 ^ 32)
    (hs : stack.length ≤ 1000) (he : ∀ x ∈ stack, x.length ≤ B) :
    (∀ s, evalScript c fl stack script = .ok s → s.length ≤ 1000 ∧ ∀ x ∈ s, x.length ≤ B) ∧
    (∀ cap, evalScript c fl stack script = .error (.eval cap) →
      cap.stack.length + cap.altstack.length ≤ 1003 ∧ cap.nOpCount ≤ 221 ∧
      (∀ x ∈ cap.stack, x.length ≤ B) ∧ (∀ x ∈ cap.altstack, x.length ≤ B)) := by
  obtain ⟨h1, _⟩ := evalScript_ok (c := c) (B := B) fl stack script hs he hB hB2 hh
  constructor
  · intro s hr; rw [hr] at h1; exact h1
  · intro cap hr; rw [hr] at h1; exact h1

/-- the tight bound: BETWEEN operations (at the head of every loop iteration that is reached) the
    interpreter's limits hold exactly — at most 1000 items on stack and altstack together and at
    most 201 counted operations; only the state captured by an error raised inside an operation can
    exceed them (by the at most 3 items / 20 keys that operation added: `error_state_limits`) -/
theorem state_limits_between_ops (c : Ctx) (fl : Flags) (hh : HashesOK c.env.hashes) (script : Bytes)
    (hlen : script.length ≤ Spec.MAX_SCRIPT_SIZE)
    (op : Model.Script.RawOp) (hop : op.opcode ≤ 0x4e → op.data.isSome) (B : Nat) (hB : 520 ≤ B)
    (hB2 : B < 2 ^ 32) (st st' : St)
    (h1 : st.stack.length + st.alt.length ≤ 1000) (h2 : st.nOpCount ≤ 201)
    (h3 : ∀ x ∈ st.stack, x.length ≤ B) (h4 : ∀ x ∈ st.alt, x.length ≤ B)
    (hs : step c fl script op st = .ok st') :
    st'.stack.length + st'.alt.length ≤ 1000 ∧ st'.nOpCount ≤ 201 ∧
    (∀ x ∈ st'.stack, x.length ≤ B) ∧ (∀ x ∈ st'.alt, x.length ≤ B) := by
  have := step_ok (c := c) fl script hlen op ⟨h1, h2, h3, h4⟩ hop hB hB2 hh
  rw [hs] at this
  exact this

/-- the loop of `_EvalScript` over `pre ++ rest` is the loop over `pre` followed by the loop over `rest`
    from the state reached (the iterator error, if any, is met after the last operation) -/
theorem loop_append (c : Ctx) (fl : Flags) (script : Bytes) (tail : Option Model.Script.IterErr)
    (pre rest : List Model.Script.RawOp) (st : St) :
    loop c fl script tail (pre ++ rest) st =
      (loop c fl script none pre st >>= fun st' => loop c fl script tail rest st') := by
  induction pre generalizing st with
  | nil => simp [loop, bind, Except.bind]
  | cons op pre ih =>
    simp only [List.cons_append, loop, bind, Except.bind]
    cases step c fl script op st with
    | error e => rfl
    | ok st' => simpa [bind, Except.bind] using ih st'

/-- `state_limits_between_ops` lifted over the whole run of `EvalScript(stack, script, …)`: split the
    operations of the script anywhere, `pre ++ rest`; if the run reaches the head of the iteration that
    would execute `rest` (i.e. the loop over `pre` returns a state), that state is within the TIGHT
    limits — at most 1000 items on stack and altstack together, at most 201 counted operations, no
    element longer than max(520, caller's elements).  By `loop_append` the run of the whole script is
    the run over `pre` followed by the run over `rest` from that state.  The three chained evaluations of
    `VerifyScript` each start from a stack within these limits (`eval_state_limits`), so the statement
    applies to each of them. -/
theorem state_limits_every_iteration (c : Ctx) (fl : Flags) (hh : HashesOK c.env.hashes) (script : Bytes)
    (hlen : script.length ≤ Spec.MAX_SCRIPT_SIZE) (stack : List Bytes) (B : Nat) (hB : 520 ≤ B) (hB2 : B < 2 ^ 32)
    (hs : stack.length ≤ 1000) (he : ∀ x ∈ stack, x.length ≤ B)
    (pre rest : List Model.Script.RawOp) (hops : (Model.Script.rawIter script).1 = pre ++ rest) (st' : St)
    (hrun : loop c fl script none pre ⟨stack, [], [], 0, 0⟩ = .ok st') :
    st'.stack.length + st'.alt.length ≤ 1000 ∧ st'.nOpCount ≤ 201 ∧
    (∀ x ∈ st'.stack, x.length ≤ B) ∧ (∀ x ∈ st'.alt, x.length ≤ B) := by
  have hpre : Pre B ⟨stack, [], [], 0, 0⟩ := ⟨by simp; omega, by simp, he, fun x hx => by simp at hx⟩
  have := loop_ok (c := c) fl script hlen none pre
    (fun o ho => rawIter_data script o (by rw [hops]; exact List.mem_append_left _ ho)) hB hB2 hh _ hpre
  rw [hrun] at this
  exact this

/-! ### non-vacuity -/

/-- a context meeting the hypotheses: 20-byte hashes, index 0 of a 1-input transaction -/
def exampleCtx : Ctx :=
  { hashes := { sha1 := fun _ => List.replicate 20 0, ripemd160 := fun _ => List.replicate 20 0,
                sha256 := fun _ => List.replicate 32 0 },
    sigHash := fun _ _ => .ok (List.replicate 32 0), sigVerify := fun _ _ _ => false }

example : HashesOK exampleCtx.env.hashes := by
  intro x; simp [exampleCtx, Ctx.env]

example : ∀ cls, ¬ exampleCtx.Raises cls := by
  rintro cls ⟨_, _, x, _, _, h, _⟩; simp [exampleCtx] at h

example : (Flags.all.filter Flags.admissible).length = 12 := by decide

example : ({ p2sh := true, cleanStack := true } : Flags).admissible = true := by decide

/-- D6 is a genuine outcome of the model: with flags {CLEANSTACK} the accepting pair
    (scriptSig = "", scriptPubKey = push 01) reaches `assert SCRIPT_VERIFY_P2SH in flags` -/
example : verifyScript exampleCtx { cleanStack := true } [] [0x01, 0x01] = .error (.py "AssertionError") := by
  have h1 : Model.Script.rawIter [] = ([], none) := rawIterFrom_none (by simp [Model.Script.rawStep])
  have h2 : Model.Script.rawIter [0x01, 0x01] = ([⟨1, some [1], 0⟩], none) := by
    have hs : Model.Script.rawStep 0 [0x01, 0x01] = some (.op ⟨1, some [1], 0⟩ []) := by
      simp [Model.Script.rawStep]
    rw [Model.Script.rawIter, rawIterFrom_op hs, rawIterFrom_none (by simp [Model.Script.rawStep])]
  simp [verifyScript, evalScript, evalScriptRaw, h1, h2, loop, step, countOp, dispatch, checkExec,
    Spec.disabledOpcodes, Spec.MAX_SCRIPT_SIZE, Spec.MAX_SCRIPT_ELEMENT_SIZE, Spec.MAX_STACK_SIZE,
    checkTopTrue, pyIdx, castToBool, castToBoolFrom, verifyCleanStack, bind, Except.bind]

/-- … and with P2SH added the same pair is accepted -/
example : verifyScript exampleCtx { cleanStack := true, p2sh := true } [] [0x01, 0x01] = .ok () := by
  have h1 : Model.Script.rawIter [] = ([], none) := rawIterFrom_none (by simp [Model.Script.rawStep])
  have h2 : Model.Script.rawIter [0x01, 0x01] = ([⟨1, some [1], 0⟩], none) := by
    have hs : Model.Script.rawStep 0 [0x01, 0x01] = some (.op ⟨1, some [1], 0⟩ []) := by
      simp [Model.Script.rawStep]
    rw [Model.Script.rawIter, rawIterFrom_op hs, rawIterFrom_none (by simp [Model.Script.rawStep])]
  simp [verifyScript, evalScript, evalScriptRaw, h1, h2, loop, step, countOp, dispatch, checkExec,
    Spec.disabledOpcodes, Spec.MAX_SCRIPT_SIZE, Spec.MAX_SCRIPT_ELEMENT_SIZE, Spec.MAX_STACK_SIZE,
    checkTopTrue, pyIdx, castToBool, castToBoolFrom, verifyCleanStack, isP2sh, bind, Except.bind]

end BtcVerif.C07
