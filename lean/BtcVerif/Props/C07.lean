/-
  C07 — script verification is total, contained and side-effect free: property theorems.
  (M1 placeholder.)
-/
import BtcVerif.Model.ScriptEval

namespace BtcVerif.C07
end BtcVerif.C07
