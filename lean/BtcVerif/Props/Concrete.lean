/-
  Discharge of the digest-length hypotheses that property theorems of C10, C15, C16, C18 and C06/C07
  carry, for the executable hash functions of Crypto/ (lengths proved in Proofs/CryptoLen.lean).
  Nothing here unfolds a compression function: the digest is written out as a fixed-size literal.
-/
import BtcVerif.Proofs.CryptoLen
import BtcVerif.Props.C10
import BtcVerif.Props.C15
import BtcVerif.Props.C16
import BtcVerif.Props.C18
import BtcVerif.Proofs.ScriptEvalInv
import BtcVerif.Model.ScriptEnvReal
import BtcVerif.Props.Coherence

namespace BtcVerif.Concrete
open BtcVerif BtcVerif.Crypto

/-- C15: SHA-256d digests are 32 bytes -/
theorem c15_hashLen : C15.HashLen := hash256_length

/-- C16: the same fact under C16's name -/
theorem c16_hashLen : C16.HashLen := hash256_length

/-- C18: the checksum field (first four bytes of SHA-256d) has four bytes -/
theorem c18_checksumLen : Spec.Msg.ChecksumLen := by
  intro p
  simp [Spec.Msg.checksum, hash256_length]

/-- C10: the Base58Check round trip with the real checksum hash SHA-256d, no hypothesis left -/
theorem c10_check_roundtrip_sha256 (v : UInt8) (p : Bytes) :
    ∃ d, Model.Base58.fromBytes p (v.toNat : Int) = .ok d ∧ d = ⟨v, p⟩ ∧
      Model.Base58.new hash256 (Model.Base58.str hash256 d) = .ok ⟨v, p⟩ :=
  C10.check_roundtrip hash256 (fun x => by rw [hash256_length]; omega) v p

/-- C06/C07: outputs of the real hash opcodes fit a stack element (20, 20 and 32 ≤ 520 bytes), for the
    record of hash primitives the concrete environment (`Model.ScriptEval.Real.realHashes`, the one the
    C06/C07 model driver runs with) is built from -/
theorem hashesOK_real : Model.ScriptEval.HashesOK Model.ScriptEval.Real.realHashes := by
  intro x
  simp [Model.ScriptEval.Real.realHashes, sha1_length, ripemd160_length, sha256_length]

/-- derived primitives of that record: HASH160 is 20 bytes, HASH256 is 32 bytes -/
theorem real_hash160_length (x : Bytes) : (Model.ScriptEval.Real.realHashes.hash160 x).length = 20 :=
  ripemd160_length _
theorem real_hash256_length (x : Bytes) : (Model.ScriptEval.Real.realHashes.hash256 x).length = 32 :=
  sha256_length _

/-- C13, text level with the real checksum hash: the WIF string of a 32-byte secret under each chain's
    SECRET_KEY version byte parses back to the same secret and flag — hence the same public key -/
theorem c13_wif_text_roundtrip_sha256 (p : Spec.ChainParams) (hp : p ∈ Spec.chainTable) (secret : Bytes) (c : Bool)
    (hs : secret.length = 32) :
    ∃ d, Model.Base58.fromBytes (Model.Keys.wifPayload secret c) (p.secretKey : Int) = .ok d ∧
      ∃ d', Model.Base58.new hash256 (Model.Base58.str hash256 d) = .ok d' ∧
        ∃ sec c', Model.Keys.wifParse p.secretKey d'.nVersion.toNat d'.data = .ok (sec, c') ∧
          sec = secret ∧ c' = c ∧ Model.Keys.pubOfSecret sec c' = Model.Keys.pubOfSecret secret c := by
  obtain ⟨d, h1, d', h2, h3⟩ :=
    BtcVerif.Coherence.wif_text_roundtrip_chains hash256 (fun x => by rw [hash256_length]; omega) p hp secret c hs
  exact ⟨d, h1, d', h2, secret, c, h3, rfl, rfl, rfl⟩

end BtcVerif.Concrete
