/-
  C18 — P2P messages: property theorems (filled in below).
-/
import BtcVerif.Model.Messages

namespace BtcVerif.C18
open BtcVerif

end BtcVerif.C18
