/-
  C18 — P2P messages: framing, payload layout and stream parsing exact and invertible.
  Statements use only Model.Msg.* (mirror of bitcoin/messages.py + bitcoin/net.py, with the
  stream position part of every outcome) and Spec.Msg.* (the protocol documentation's layout).
  Helper lemmas live in Proofs/Messages.lean.

  Spec and Model are written independently: the Spec's command table, its 12-byte command field
  ("name then NULs up to 12"), its checksum (first four bytes of SHA-256d) and its protocol-version
  constants are its own; the Model has its own transcription of the `command` class attributes, pads
  with `b"\x00" * (12 - len(command))`, chains two SHA-256 calls and carries net.py's constants.
  `frame_eq_spec` is where they meet.  `ChecksumLen` (SHA-256d digests are 32 bytes) is proved
  (`checksum_len`, from Proofs/CryptoLen.lean); no theorem carries it as a hypothesis any more.
  No theorem needs collision resistance: `bad_checksum_rejected` is stated for a checksum field that
  differs from the checksum of the payload actually carried.

  Domain.  `WFMsg` is "field values the protocol version carries" for EVERY protocol version of
  `version` (fields from 106 / 209 / 70001 as the protocol documentation and BIP37 prescribe; 10300
  excluded, the reference client and the library read it as 300).  All theorems, framing and parsing,
  hold on all of it.  (For the shipped code the framing theorems were false below 70001: `msg_ser`
  wrote every field whatever nVersion — finding D20; the model is written for the repaired code.)
-/
import BtcVerif.Proofs.Messages

namespace BtcVerif.C18
open BtcVerif Model.Wire Model.Msg Spec.Msg

/-- the four chains' magic values are 4 bytes long (so the theorems below apply to each chain) -/
theorem chain_magic_length : ∀ p ∈ BtcVerif.Spec.chainTable, (p.messageStart.map UInt8.ofNat).length = 4 := by
  decide

/-! ### framing produces the prescribed bytes -/

/-- `msg_ser` of every type writes the payload the protocol prescribes -/
theorem payload_eq_spec (m : Msg) (hwf : WFMsg m) : msgSer m = .ok (payload m) := msgSer_ok m hwf

/-- `to_bytes` = magic ‖ NUL-padded command ‖ u32 length ‖ checksum ‖ prescribed payload -/
theorem frame_eq_spec (magic : Bytes) (m : Msg) (hwf : WFMsg m)
    (hlen : (payload m).length < 2 ^ 32) :
    toBytes magic m = .ok (frameMsg magic m) := by
  obtain ⟨hc, _⟩ := command_props m
  unfold toBytes
  rw [msgSer_ok m hwf]
  simp only [Res.ok_bind, Model.Msg.frame, frameMsg, Spec.Msg.frame, checksum_eq, command_eq,
    commandField_eq _ hc]
  rw [packU_ok 4 _ (by norm_num; exact hlen)]
  simp

/-- the checksum field is four bytes long: SHA-256d digests have 32 -/
theorem checksum_len : ChecksumLen := checksumLen

/-- the model's command constants (its transcription of the `command` class attributes) are the
    protocol's command names -/
theorem command_eq_spec (m : Msg) : Model.Msg.command m = Spec.Msg.command m := command_eq m

/-! ### parsing inverts framing -/

/-- the `messagemap` entry for the type's command parses the prescribed payload back to the same
    field values (`norm`: an all-empty transaction witness comes back as no witness), whatever
    bytes follow -/
theorem payload_roundtrip (pv : Nat) (m : Msg) (hwf : WFMsg m) (hpv : AddrProto pv m) :
    ∃ p, msgDeser pv (Spec.Msg.command m) = some p ∧ ∀ rest, p (payload m ++ rest) = .ok (norm m, rest) :=
  payload_parse pv m hwf hpv

/-- parsing a frame followed by anything returns the message and leaves exactly what followed -/
theorem parse_frame (pv : Nat) (magic : Bytes) (hm : magic.length = 4) (m : Msg)
    (hwf : WFMsg m) (hpv : AddrProto pv m) (hlen : (payload m).length ≤ Spec.Wire.maxSize) (rest : Bytes) :
    streamDeserialize magic pv (frameMsg magic m ++ rest) = (.ok (some (norm m)), rest) := by
  obtain ⟨hc, hz⟩ := command_props m
  obtain ⟨p, hp, hrt⟩ := payload_parse pv m hwf hpv
  have h := hrt []
  rw [List.append_nil] at h
  unfold frameMsg
  rw [streamDeserialize_frame checksumLen magic pv (Spec.Msg.command m) (payload m) rest hm hc hz hlen]
  simp [dispatch, hp, h]

/-- re-framing what parsing yields is byte-identical to framing the original -/
theorem reframe_identical (magic : Bytes) (m : Msg) : toBytes magic (norm m) = toBytes magic m := by
  unfold toBytes
  rw [msgSer_norm, command_norm]

/-- frame → parse → frame reproduces the frame -/
theorem parse_reframe (pv : Nat) (magic : Bytes) (hm : magic.length = 4) (m : Msg)
    (hwf : WFMsg m) (hpv : AddrProto pv m) (hlen : (payload m).length ≤ Spec.Wire.maxSize) (rest : Bytes) :
    ∃ m', streamDeserialize magic pv (frameMsg magic m ++ rest) = (.ok (some m'), rest) ∧
      toBytes magic m' = .ok (frameMsg magic m) := by
  refine ⟨norm m, parse_frame pv magic hm m hwf hpv hlen rest, ?_⟩
  rw [reframe_identical]
  exact frame_eq_spec magic m hwf (by
    have : Spec.Wire.maxSize < 2 ^ 32 := by decide
    omega)

/-- `from_bytes` ignores what follows the first frame -/
theorem fromBytes_frame (pv : Nat) (magic : Bytes) (hm : magic.length = 4) (m : Msg)
    (hwf : WFMsg m) (hpv : AddrProto pv m) (hlen : (payload m).length ≤ Spec.Wire.maxSize) (extra : Bytes) :
    fromBytes magic pv (frameMsg magic m ++ extra) = .ok (some (norm m)) := by
  unfold fromBytes
  rw [parse_frame pv magic hm m hwf hpv hlen extra]

/-- a stream of concatenated frames yields the messages in order, each call consuming exactly
    its frame, and the loop ends without an error -/
theorem parse_stream (pv : Nat) (magic : Bytes) (hm : magic.length = 4) (ms : List Msg)
    (h : ∀ m ∈ ms, WFMsg m ∧ AddrProto pv m ∧ (payload m).length ≤ Spec.Wire.maxSize) :
    parseAll magic pv ((ms.map (frameMsg magic)).flatten) = (ms.map (fun m => some (norm m)), none) := by
  unfold parseAll
  suffices H : ∀ fuel, ((ms.map (frameMsg magic)).flatten).length ≤ fuel →
      parseAllAux magic pv fuel ((ms.map (frameMsg magic)).flatten) = (ms.map (fun m => some (norm m)), none) from
    H _ (Nat.le_refl _)
  induction ms with
  | nil => intro fuel _; cases fuel <;> simp [parseAllAux]
  | cons m ms ih =>
    intro fuel hf
    obtain ⟨hwf, hpv, hlen⟩ := h m (by simp)
    have hfl : 24 ≤ (frameMsg magic m).length := by
      obtain ⟨hc, _⟩ := command_props m
      have := checksumLen (payload m)
      simp [frameMsg, Spec.Msg.frame, hm, commandField_length _ hc, this]
      omega
    simp only [List.map_cons, List.flatten_cons, List.length_append] at hf ⊢
    cases fuel with
    | zero => omega
    | succ fuel =>
      have hne : (frameMsg magic m ++ (ms.map (frameMsg magic)).flatten).isEmpty = false := by
        cases hq : frameMsg magic m with
        | nil => rw [hq] at hfl; simp at hfl
        | cons => rfl
      simp only [parseAllAux, hne, Bool.false_eq_true, if_false]
      rw [parse_frame pv magic hm m hwf hpv hlen]
      simp only
      rw [ih (fun x hx => h x (by simp [hx])) fuel (by omega)]

/-- frames followed by anything: the messages of the frames in order, each call consuming exactly
    its frame, then whatever reading the remainder yields (e.g. the error of a faulty frame) — so a
    fault after `n` good frames is reported after exactly those `n` messages -/
theorem parse_stream_append (pv : Nat) (magic : Bytes) (hm : magic.length = 4) (ms : List Msg)
    (h : ∀ m ∈ ms, WFMsg m ∧ AddrProto pv m ∧ (payload m).length ≤ Spec.Wire.maxSize) (tail : Bytes) :
    parseAll magic pv ((ms.map (frameMsg magic)).flatten ++ tail) =
      (ms.map (fun m => some (norm m)) ++ (parseAll magic pv tail).1, (parseAll magic pv tail).2) := by
  induction ms with
  | nil => simp
  | cons m ms ih =>
    obtain ⟨hwf, hpv, hlen⟩ := h m (by simp)
    have hfl : 24 ≤ (frameMsg magic m).length := by
      obtain ⟨hc, _⟩ := command_props m
      have := checksumLen (payload m)
      simp [frameMsg, Spec.Msg.frame, hm, commandField_length _ hc, this]
      omega
    have ih' := ih (fun x hx => h x (by simp [hx]))
    simp only [List.map_cons, List.flatten_cons, List.append_assoc, List.cons_append]
    generalize hS : (ms.map (frameMsg magic)).flatten ++ tail = S at ih' ⊢
    unfold parseAll at ih' ⊢
    have hl : (frameMsg magic m ++ S).length = (frameMsg magic m).length + S.length := List.length_append
    obtain ⟨f, hf⟩ : ∃ f, (frameMsg magic m ++ S).length = f + 1 := ⟨(frameMsg magic m ++ S).length - 1, by omega⟩
    have hne : (frameMsg magic m ++ S).isEmpty = false := by
      cases hq : frameMsg magic m with
      | nil => rw [hq] at hfl; simp at hfl
      | cons => rfl
    rw [hf]
    simp only [parseAllAux, hne, Bool.false_eq_true, if_false]
    rw [parse_frame pv magic hm m hwf hpv hlen]
    simp only
    rw [parseAllAux_fuel magic pv f S.length S (by omega) (Nat.le_refl _), ih']

/-- the loop with positions: after the i-th message exactly the frames that follow it (and `tail`)
    remain unread; `parse_stream_append` is its projection -/
theorem parse_stream_trace (pv : Nat) (magic : Bytes) (hm : magic.length = 4) (ms : List Msg)
    (h : ∀ m ∈ ms, WFMsg m ∧ AddrProto pv m ∧ (payload m).length ≤ Spec.Wire.maxSize) (tail : Bytes) :
    parseTrace magic pv ((ms.map (frameMsg magic)).flatten ++ tail) =
      (streamTrace magic ms tail ++ (parseTrace magic pv tail).1, (parseTrace magic pv tail).2) := by
  induction ms with
  | nil => simp [streamTrace]
  | cons m ms ih =>
    obtain ⟨hwf, hpv, hlen⟩ := h m (by simp)
    have hfl : 24 ≤ (frameMsg magic m).length := by
      obtain ⟨hc, _⟩ := command_props m
      have := checksumLen (payload m)
      simp [frameMsg, Spec.Msg.frame, hm, commandField_length _ hc, this]
      omega
    have ih' := ih (fun x hx => h x (by simp [hx]))
    rw [streamTrace_norm]
    simp only [List.map_cons, List.flatten_cons, List.append_assoc, List.cons_append]
    generalize hS : (ms.map (frameMsg magic)).flatten ++ tail = S at ih' ⊢
    unfold parseTrace at ih' ⊢
    have hl : (frameMsg magic m ++ S).length = (frameMsg magic m).length + S.length := List.length_append
    obtain ⟨f, hf⟩ : ∃ f, (frameMsg magic m ++ S).length = f + 1 := ⟨(frameMsg magic m ++ S).length - 1, by omega⟩
    have hne : (frameMsg magic m ++ S).isEmpty = false := by
      cases hq : frameMsg magic m with
      | nil => rw [hq] at hfl; simp at hfl
      | cons => rfl
    rw [hf]
    simp only [parseTraceAux, hne, Bool.false_eq_true, if_false]
    rw [parse_frame pv magic hm m hwf hpv hlen]
    simp only
    rw [parseTraceAux_fuel magic pv f S.length S (by omega) (Nat.le_refl _), ih']

/-- `parseAll` (what the other stream theorems speak about) is the projection of `parseTrace` (what
    the driver prints, with positions): same messages, same final error -/
theorem parseAll_eq_trace (pv : Nat) (magic s : Bytes) :
    parseAll magic pv s = ((parseTrace magic pv s).1.map Prod.fst, (parseTrace magic pv s).2.map Prod.fst) :=
  parseAllAux_eq_trace magic pv s.length s

/-! ### rejection: wrong magic, wrong checksum, truncation, impossible length -/

/-- a stream that does not start with the chain's magic is rejected (ValueError once the 24
    header bytes could be read, truncation error before); the header is consumed, nothing more -/
theorem bad_magic_rejected (pv : Nat) (magic s : Bytes) (h : s.take 4 ≠ magic) :
    streamDeserialize magic pv s =
      if s.length < 24 then (.error .trunc, []) else (.error .valueerr, s.drop 24) := by
  by_cases hs : s.length < 24
  · rw [if_pos hs]; exact streamDeserialize_short magic pv s hs
  · rw [if_neg hs, streamDeserialize_unfold magic pv s (by omega), if_pos h]

/-- a frame whose checksum field differs from the checksum of the payload it carries is rejected
    with ValueError, whatever its command and payload; the frame is consumed -/
theorem bad_checksum_rejected (pv : Nat) (magic cmdField cks payload rest : Bytes) (hm : magic.length = 4)
    (hc : cmdField.length = 12) (hk : cks.length = 4) (hp : payload.length ≤ Spec.Wire.maxSize)
    (hbad : cks ≠ Model.Msg.checksum payload) :
    streamDeserialize magic pv (magic ++ cmdField ++ leBytes 4 payload.length ++ cks ++ (payload ++ rest)) =
      (.error .valueerr, rest) := by
  have hp32 : payload.length < 256 ^ 4 := by
    have : Spec.Wire.maxSize < 256 ^ 4 := by decide
    omega
  obtain ⟨g0, g1, g2, g3, g4, g5⟩ := stream_fields magic cmdField (leBytes 4 payload.length) cks
    (payload ++ rest) hm hc (leBytes_length _ _) hk
  rw [streamDeserialize_unfold _ _ _ g0, g1, g3, g4, g5, leNat_leBytes, Nat.mod_eq_of_lt hp32]
  have h1 : ¬ payload.length > MAX_SIZE := by
    have : MAX_SIZE = Spec.Wire.maxSize := rfl
    omega
  have h2 : ¬ (magic ++ cmdField ++ leBytes 4 payload.length ++ cks ++ (payload ++ rest)).length - 24 <
      payload.length := by
    simp [hm, hc, hk]; omega
  have h3 : (payload ++ rest).take payload.length = payload := List.take_left' rfl
  have h4 : (magic ++ cmdField ++ leBytes 4 payload.length ++ cks ++ (payload ++ rest)).drop
      (24 + payload.length) = rest := by
    rw [← List.drop_drop, g5, List.drop_left' rfl]
  simp only [ne_eq, not_true_eq_false, if_false, h1, h2, h3, h4, hbad, not_false_eq_true, if_true]

/-- a frame whose payload was altered in transit (same length, header untouched) is rejected unless
    the altered payload has the same 32-bit checksum — the one cryptographic assumption, explicit -/
theorem corrupted_payload_rejected (pv : Nat) (magic cmd payload payload' rest : Bytes)
    (hm : magic.length = 4) (hc : cmd.length ≤ 12) (hl : payload'.length = payload.length)
    (hp : payload.length ≤ Spec.Wire.maxSize)
    (hno : Model.Msg.checksum payload' ≠ Model.Msg.checksum payload) :
    streamDeserialize magic pv (magic ++ commandField cmd ++ leBytes 4 payload.length ++
      Model.Msg.checksum payload ++ (payload' ++ rest)) = (.error .valueerr, rest) := by
  have := bad_checksum_rejected pv magic (commandField cmd) (Model.Msg.checksum payload) payload' rest hm
    (commandField_length cmd hc) (checksumLen payload) (by omega) (fun h => hno h.symm)
  rw [hl] at this
  exact this

/-- whatever is returned (a message, or `None` for an unknown command) came from a frame with the
    right magic, an honourable length and a matching checksum, and exactly that frame was consumed:
    no rejected stream is ever returned as a message -/
theorem accepted_frame_valid (pv : Nat) (magic s : Bytes) (m : Option Msg) (r : Bytes)
    (h : streamDeserialize magic pv s = (.ok m, r)) :
    24 ≤ s.length ∧ s.take 4 = magic ∧ declaredLen s ≤ MAX_SIZE ∧ 24 + declaredLen s ≤ s.length ∧
    (s.drop 20).take 4 = Model.Msg.checksum ((s.drop 24).take (declaredLen s)) ∧
    r = s.drop (24 + declaredLen s) :=
  streamDeserialize_ok_valid magic pv s m r h

/-- the driver's classification of an error as frame-level or payload-level rests on this: when the
    header tests fail the outcome is one of the three frame-level errors, and anything returned
    passed them -/
theorem rejected_before_dispatch (pv : Nat) (magic s : Bytes) (h : frameAccepted magic s = false) :
    ∃ e r, streamDeserialize magic pv s = (.error e, r) ∧ (e = .trunc ∨ e = .valueerr ∨ e = .sererr) :=
  not_accepted_error magic pv s h

theorem returned_was_accepted (pv : Nat) (magic s : Bytes) (m : Option Msg) (r : Bytes)
    (h : streamDeserialize magic pv s = (.ok m, r)) : frameAccepted magic s = true := by
  obtain ⟨h1, h2, h3, h4, h5, _⟩ := streamDeserialize_ok_valid magic pv s m r h
  exact (frameAccepted_iff magic s).mpr ⟨h1, h2, h3, h4, h5⟩

/-- every strict prefix of a frame raises the truncation error (the stream is exhausted) -/
theorem truncated_frame_trunc (pv : Nat) (magic cmd payload : Bytes) (hm : magic.length = 4)
    (hc : cmd.length ≤ 12) (hp : payload.length ≤ Spec.Wire.maxSize) (p : Bytes)
    (hpre : p <+: Spec.Msg.frame magic cmd payload) (hne : p ≠ Spec.Msg.frame magic cmd payload) :
    streamDeserialize magic pv p = (.error .trunc, []) := by
  have hk : (Spec.Msg.checksum payload).length = 4 := checksumLen payload
  have hcf := commandField_length cmd hc
  have hp32 : payload.length < 256 ^ 4 := by
    have : Spec.Wire.maxSize < 256 ^ 4 := by decide
    omega
  have hfl : (Spec.Msg.frame magic cmd payload).length = 24 + payload.length := by
    simp [Spec.Msg.frame, hm, hcf, hk]; omega
  have hlt : p.length < 24 + payload.length := by
    have h1 := hpre.length_le
    rcases Nat.lt_or_ge p.length (24 + payload.length) with h | h
    · exact h
    · exact absurd (hpre.eq_of_length (by omega)) hne
  by_cases hs : p.length < 24
  · exact streamDeserialize_short magic pv p hs
  · have hhl : (magic ++ commandField cmd ++ leBytes 4 payload.length ++ Spec.Msg.checksum payload).length = 24 := by
      simp [hm, hcf, hk]
    have hp' : p = magic ++ commandField cmd ++ leBytes 4 payload.length ++ Spec.Msg.checksum payload ++
        payload.take (p.length - 24) := by
      refine (List.prefix_iff_eq_take.mp hpre).trans ?_
      unfold Spec.Msg.frame
      rw [List.take_append, List.take_of_length_le (by omega), hhl]
    obtain ⟨g0, g1, g2, g3, g4, g5⟩ := stream_fields magic (commandField cmd) (leBytes 4 payload.length)
      (Spec.Msg.checksum payload) (payload.take (p.length - 24)) hm hcf (leBytes_length _ _) hk
    rw [hp', streamDeserialize_unfold _ _ _ g0, g1, g3, leNat_leBytes, Nat.mod_eq_of_lt hp32]
    have h1 : ¬ payload.length > MAX_SIZE := by
      have : MAX_SIZE = Spec.Wire.maxSize := rfl
      omega
    have h2 : (magic ++ commandField cmd ++ leBytes 4 payload.length ++ Spec.Msg.checksum payload ++
        payload.take (p.length - 24)).length - 24 < payload.length := by
      simp [hm, hcf, hk]; omega
    simp only [ne_eq, not_true_eq_false, if_false, h1, h2, if_true]

/-- a declared length that cannot be honoured is rejected: above MAX_SIZE without reading a byte
    past the 24-byte header, otherwise (more than the stream holds) with the truncation error
    after reading what is available — never beyond the stream, never a message.
    (False for the shipped signed-length code, D14.) -/
theorem length_guard (pv : Nat) (magic s : Bytes) (h24 : 24 ≤ s.length) (hm : s.take 4 = magic) :
    (declaredLen s > MAX_SIZE → streamDeserialize magic pv s = (.error .sererr, s.drop 24)) ∧
    (declaredLen s ≤ MAX_SIZE → declaredLen s > s.length - 24 →
      streamDeserialize magic pv s = (.error .trunc, [])) := by
  constructor
  · intro h
    rw [streamDeserialize_unfold magic pv s h24]
    simp [hm, h]
  · intro h1 h2
    rw [streamDeserialize_unfold magic pv s h24]
    have : ¬ declaredLen s > MAX_SIZE := by omega
    simp [hm, this, h2]

/-- when the declared length can be honoured the call never reads beyond the frame: the stream
    position afterwards is the end of the header (magic rejected) or the end of the frame -/
theorem position_le_frame_end (pv : Nat) (magic s : Bytes) (h24 : 24 ≤ s.length)
    (hfit : declaredLen s ≤ s.length - 24) (hmax : declaredLen s ≤ MAX_SIZE) :
    (streamDeserialize magic pv s).2 = s.drop 24 ∨
    (streamDeserialize magic pv s).2 = s.drop (24 + declaredLen s) := by
  rw [streamDeserialize_unfold magic pv s h24]
  have c2 : ¬ declaredLen s > MAX_SIZE := by omega
  have c3 : ¬ s.length - 24 < declaredLen s := by omega
  by_cases c1 : s.take 4 ≠ magic
  · left; rw [if_pos c1]
  · right
    rw [if_neg c1, if_neg c2, if_neg c3]
    by_cases c4 : (s.drop 20).take 4 ≠ Model.Msg.checksum ((s.drop 24).take (declaredLen s))
    · rw [if_pos c4]
    · rw [if_neg c4, dispatch_snd]

/-! ### non-vacuity: concrete non-trivial values meet the hypotheses -/

/-- an IPv4-mapped address with time, services, port -/
def exAddr : NetAddr :=
  { protover := 60002, nTime := 1700000000, nServices := 1033,
    ip := ipv4Compat ++ [10, 0, 0, 1], port := 8333 }

example : WFAddr exAddr := by decide

example : WFMsg (.addr [exAddr, { exAddr with ip := List.replicate 16 0x20, port := 0xffff }]) := by
  refine ⟨by decide, ?_⟩
  intro a ha
  simp only [List.mem_cons, List.mem_nil_iff, or_false] at ha
  rcases ha with rfl | rfl <;> decide

example : WFMsg (.version
    { nVersion := 70015, nServices := 1033, nTime := 1700000000,
      addrTo := { exAddr with nTime := 0 }, addrFrom := some { exAddr with nTime := 0, port := 18333 },
      nNonce := some 0xdeadbeefcafe, strSubVer := some (asc ['/', 'x', ':', '1', '/']),
      nStartingHeight := some 800000, fRelay := 1 }) := by
  decide

/-- the library's own default protocol version: a `version` message of version 60002 carries every
    field except the relay flag -/
def exVersion60002 : VersionMsg :=
  { nVersion := 60002, nServices := 1, nTime := 1700000000, addrTo := { exAddr with nTime := 0 },
    addrFrom := some { exAddr with nTime := 0 }, nNonce := some 7, strSubVer := some [],
    nStartingHeight := some (-1), fRelay := 1 }

example : WFMsg (.version exVersion60002) := by decide
/-- D20: at 60002 the prescribed payload has 85 bytes (no relay byte), and that is what `msg_ser` writes -/
example : (payload (.version exVersion60002)).length = 85 := by decide
example : (msgSer (.version exVersion60002)).toOption.map List.length = some 85 := by
  rw [payload_eq_spec _ (by decide)]
  decide
/-- D24: a version field of 10300 is in the domain and is carried as 10300 -/
example : WFMsg (.version { exVersion60002 with nVersion := 10300 }) := by decide

/-- D25: an address of protocol version 31401 carries no time field (26 bytes), and the reader that is
    told the protocol version reads it back -/
def exOldAddr : NetAddr := { exAddr with protover := 31401, nTime := 0 }

example : WFMsg (.addr [exOldAddr]) ∧ AddrProto 31401 (.addr [exOldAddr]) := by decide
example : (payload (.addr [exOldAddr])).length = 27 := by decide
example : (payload (.addr [exAddr])).length = 31 := by decide
example : AddrProto 60002 (.version exVersion60002) := by decide

/-- a version-105 message: four fields only, nothing else carried -/
def exVersion105 : VersionMsg :=
  { exVersion60002 with nVersion := 105, addrFrom := none, nNonce := none, strSubVer := none,
                        nStartingHeight := none }

example : WFMsg (.version exVersion105) := by decide

example : WFMsg (.inv [{ type := 1, hash := List.replicate 32 0xab }, { type := 0x40000002, hash := List.replicate 32 1 }]) := by
  refine ⟨by decide, ?_⟩
  intro i hi
  simp only [List.mem_cons, List.mem_nil_iff, or_false] at hi
  rcases hi with rfl | rfl <;> decide

example : WFMsg (.getheaders { nVersion := 70015, vHave := [List.replicate 32 7] } (List.replicate 32 0)) := by
  refine ⟨⟨by decide, by decide, by decide, ?_⟩, by decide⟩
  intro h hh
  simp only [List.mem_cons, List.mem_nil_iff, or_false] at hh
  subst hh; decide

/-- a two-input witness transaction and a block holding it -/
def exTx : Tx :=
  { nVersion := 2, nLockTime := 0xffffffff,
    vin := [{ prevout := { hash := List.replicate 32 0xaa, n := 0 }, scriptSig := [], nSequence := 0xfffffffe },
            { prevout := { hash := List.replicate 32 0xbb, n := 1 }, scriptSig := [0x51], nSequence := 0 }],
    vout := [{ nValue := 5000000000, scriptPubKey := [0x00, 0x14] ++ List.replicate 20 7 }],
    wit := [[List.replicate 72 1, List.replicate 33 2], []] }

example : WFMsg (.tx exTx) := by decide
def exHeader : Header :=
  { nVersion := 0x20000000, hashPrevBlock := List.replicate 32 1, hashMerkleRoot := List.replicate 32 2,
    nTime := 1700000000, nBits := 0x207fffff, nNonce := 0xffffffff }

example : WFMsg (.block { hdr := exHeader, vtx := [exTx] }) := by decide
example : WFMsg (.headers [exHeader, { exHeader with nVersion := -1 }]) := by decide

example : WFMsg (.reject (asc ['t', 'x']) [0x10] (asc ['b', 'a', 'd'])) := by decide
example : WFMsg (.ping 0xffffffffffffffff) := by decide

/-- D15: the prescribed payload of a `headers` message with two headers has 163 bytes -/
example (h1 h2 : Header) : (payload (.headers [h1, h2])).length =
    1 + (Spec.Wire.header h1).length + 1 + (Spec.Wire.header h2).length + 1 := by
  simp [payload, Spec.Wire.vec, headerEntry, Spec.Wire.compactSize]; omega

/-- D14: a header declaring length 0xffffffff is refused with 24 bytes consumed, whatever follows -/
example (pv : Nat) (magic rest : Bytes) (hm : magic.length = 4) (cmdField cks : Bytes) (hc : cmdField.length = 12)
    (hk : cks.length = 4) :
    streamDeserialize magic pv (magic ++ cmdField ++ [0xff, 0xff, 0xff, 0xff] ++ cks ++ rest) =
      (.error .sererr, rest) := by
  obtain ⟨g0, g1, _, g3, _, g5⟩ := stream_fields magic cmdField [0xff, 0xff, 0xff, 0xff] cks rest hm hc rfl hk
  have := (length_guard pv magic _ g0 g1).1 (by rw [g3]; decide)
  rw [this, g5]

end BtcVerif.C18
