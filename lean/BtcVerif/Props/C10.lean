import BtcVerif.Model.Base58
namespace BtcVerif.C10
end BtcVerif.C10
