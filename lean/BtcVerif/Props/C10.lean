/-
  C10 — Base58/Base58Check are exact inverses and reject exactly the invalid strings.

  Statements use only Model.Base58.* (mirror of bitcoin/base58.py) and Spec.Base58.* (the
  big-integer definition and the version+checksum rule).  Strings are `List Char`; the hash `H`
  (bitcoin.core.Hash) is an opaque parameter.  Helper lemmas live in Proofs/Base58.lean.
-/
import BtcVerif.Proofs.Base58
import BtcVerif.Proofs.CryptoLen

namespace BtcVerif.C10
open BtcVerif BtcVerif.Base58Proofs
open BtcVerif.Spec.Base58 (alphabetChars enc dec CheckRule checkSplit? checkEnc)
open BtcVerif.Model.Base58 (encode decode fromBytes str B58Data)

/-- the encoder equals the reference: `'1'^z ++ numeral58 (big-endian value)` — every byte string -/
theorem encode_eq_spec (b : Bytes) : encode b = enc b := encode_eq_enc b

/-- the decoder equals the reference on every string: the reference value on strings over the
    alphabet, InvalidBase58Error otherwise (in particular never `binascii.Error`) -/
theorem decode_eq_spec (s : List Char) :
    decode s = match dec s with
               | some b => .ok b
               | none => .error .b58err := decode_eq_dec s

/-- decoding an encoding returns the byte string (leading zero bytes preserved) — every byte string -/
theorem decode_encode (b : Bytes) : decode (encode b) = .ok b := by
  rw [decode_eq_spec, encode_eq_spec, spec_dec_enc]

/-- every string over the alphabet decodes, and encoding the result returns the string
    (leading '1' characters preserved; all-'1' strings included) -/
theorem encode_decode (s : List Char) (hs : ∀ c ∈ s, c ∈ alphabetChars) :
    ∃ b, decode s = .ok b ∧ encode b = s := by
  have hv := (value58_isSome_iff s).mpr hs
  obtain ⟨n, hn⟩ := Option.isSome_iff_exists.mp hv
  have hd : dec s = some (List.replicate (Spec.Base58.leadingOnes s) 0 ++ Spec.Base58.bytesBE n) := by
    simp [dec, hn]
  refine ⟨List.replicate (Spec.Base58.leadingOnes s) 0 ++ Spec.Base58.bytesBE n, ?_, ?_⟩
  · rw [decode_eq_spec, hd]
  · rw [encode_eq_spec]; exact spec_enc_dec s _ hd

/-- the invalid-base58 error is raised exactly for strings with a character outside the alphabet -/
theorem decode_invalid_char (s : List Char) :
    decode s = .error .b58err ↔ ∃ c ∈ s, c ∉ alphabetChars := by
  rw [decode_eq_spec]
  have h := value58_isSome_iff s
  cases hv : Spec.Base58.value58 s with
  | none =>
    have hd : dec s = none := by simp [dec, hv]
    rw [hd]
    simp only [true_iff]
    rw [hv] at h
    by_contra hcon
    have : ∀ c ∈ s, c ∈ alphabetChars := by
      intro c hc; by_contra hx; exact hcon ⟨c, hc, hx⟩
    have := h.mpr this
    simp at this
  | some n =>
    have hd : dec s = some (List.replicate (Spec.Base58.leadingOnes s) 0 ++ Spec.Base58.bytesBE n) := by
      simp [dec, hv]
    rw [hd]
    simp only [reduceCtorEq, false_iff, not_exists, not_and, not_not]
    exact h.mp (by rw [hv]; rfl)

/-- `decode` raises no Python-level exception on any string (the `unhexlify` site is dead) -/
theorem decode_no_python_error (s : List Char) (cls : String) : decode s ≠ .error (.py cls) := by
  rw [decode_eq_spec]; cases dec s <;> simp

/-- the reference decoder inverts the reference encoder … -/
theorem spec_dec_enc (b : Bytes) : dec (enc b) = some b := Base58Proofs.spec_dec_enc b

/-- … and vice versa: the reference codec is a bijection bytes ↔ alphabet strings -/
theorem spec_enc_dec (s : List Char) (b : Bytes) (h : dec s = some b) : enc b = s :=
  Base58Proofs.spec_enc_dec s b h

/-- consequence of the two inverse laws: encoding is injective on byte strings … -/
theorem encode_injective (a b : Bytes) (h : encode a = encode b) : a = b := by
  have ha := decode_encode a
  rw [h, decode_encode b] at ha
  injection ha with ha
  exact ha.symm

/-- … and decoding is injective on the strings it accepts (no two texts denote one byte string) -/
theorem decode_injective (s t : List Char) (b : Bytes) (hs : decode s = .ok b) (ht : decode t = .ok b) :
    s = t := by
  rw [decode_eq_spec] at hs ht
  have hs' : dec s = some b := by
    cases h : dec s with
    | none => rw [h] at hs; cases hs
    | some x => rw [h] at hs; injection hs with hs; rw [hs]
  have ht' : dec t = some b := by
    cases h : dec t with
    | none => rw [h] at ht; cases ht
    | some x => rw [h] at ht; injection ht with ht; rw [ht]
  rw [← spec_enc_dec s b hs', ← spec_enc_dec t b ht']

/-- `CBase58Data(s)` = reference decoding followed by the reference check rule, on every string -/
theorem check_eq_spec (H : Bytes → Bytes) (s : List Char) :
    Model.Base58.new H s =
      match dec s with
      | none => .error .b58err
      | some k => match checkSplit? H k with
                  | some (v, p) => .ok ⟨v, p⟩
                  | none => .error .b58checksum := new_eq_spec H s

/-- a string is accepted as (version, payload) exactly when it decodes to `version ‖ payload ‖ c`
    with `c` the first four bytes of `H (version ‖ payload)` -/
theorem check_accepts_iff (H : Bytes → Bytes) (s : List Char) (v : UInt8) (p : Bytes) :
    Model.Base58.new H s = .ok ⟨v, p⟩ ↔ ∃ k, dec s = some k ∧ CheckRule H v p k := by
  rw [check_eq_spec]
  cases hd : dec s with
  | none => simp
  | some k =>
    simp only [Option.some.injEq, exists_eq_left']
    rw [← checkSplit_iff]
    cases hc : checkSplit? H k with
    | none => simp
    | some vp =>
      obtain ⟨v', p'⟩ := vp
      simp [B58Data.mk.injEq]

/-- a decodable string that does not satisfy the rule for any (version, payload) raises the checksum
    error; this includes every decoded string shorter than five bytes -/
theorem check_rejects (H : Bytes → Bytes) (s : List Char) (k : Bytes) (hd : dec s = some k)
    (hno : ¬ ∃ v p, CheckRule H v p k) : Model.Base58.new H s = .error .b58checksum := by
  rw [check_eq_spec, hd]
  cases hc : checkSplit? H k with
  | none => simp [hc]
  | some vp =>
    obtain ⟨v, p⟩ := vp
    exact absurd ⟨v, p, (checkSplit_iff H k v p).mp hc⟩ hno

/-- nothing else can happen: a value, the checksum error or the invalid-base58 error
    (the `verbyte[0]` IndexError site and the `from_bytes` ValueError are dead) -/
theorem check_outcomes (H : Bytes → Bytes) (s : List Char) :
    (∃ d, Model.Base58.new H s = .ok d) ∨ Model.Base58.new H s = .error .b58checksum ∨
      Model.Base58.new H s = .error .b58err := by
  rw [check_eq_spec]
  cases dec s with
  | none => simp
  | some k =>
    cases hc : checkSplit? H k with
    | none => simp [hc]
    | some vp => obtain ⟨v, p⟩ := vp; simp [hc]

/-- the text form of `from_bytes(payload, v)` is the reference encoding of
    `v ‖ payload ‖ H(v ‖ payload)[:4]`; `from_bytes` accepts exactly `0 ≤ v ≤ 255` -/
theorem str_eq_spec (H : Bytes → Bytes) (v : Int) (p : Bytes) :
    (0 ≤ v ∧ v ≤ 255 → ∃ d, fromBytes p v = .ok d ∧ d = ⟨UInt8.ofNat v.toNat, p⟩ ∧
        str H d = checkEnc H (UInt8.ofNat v.toNat) p) ∧
    (¬ (0 ≤ v ∧ v ≤ 255) → fromBytes p v = .error .valueerr) := by
  constructor
  · intro hv
    refine ⟨⟨UInt8.ofNat v.toNat, p⟩, by simp [fromBytes, hv], rfl, ?_⟩
    simp [str, checkEnc, encode_eq_spec]
  · intro hv; simp [fromBytes, hv]

/-- the text form of every (version, payload) decodes back to the same version and payload:
    all versions 0..255, all payloads of any length.  `hH`: the hash returns at least four bytes. -/
theorem check_roundtrip (H : Bytes → Bytes) (hH : ∀ x, 4 ≤ (H x).length) (v : UInt8) (p : Bytes) :
    ∃ d, fromBytes p (v.toNat : Int) = .ok d ∧ d = ⟨v, p⟩ ∧
      Model.Base58.new H (str H d) = .ok ⟨v, p⟩ := by
  have hv : (v.toNat : Int) ≤ 255 := by have := v.toNat_lt; omega
  refine ⟨⟨v, p⟩, by simp [fromBytes, UInt8.ofNat_toNat, hv], rfl, ?_⟩
  rw [check_accepts_iff]
  refine ⟨v :: p ++ (H (v :: p)).take 4, ?_, (H (v :: p)).take 4, rfl, ?_, rfl⟩
  · simp only [str, encode_eq_spec]; exact Base58Proofs.spec_dec_enc _
  · rw [List.length_take]; have := hH (v :: p); omega

/-- `check_roundtrip` for the real hash (SHA-256d): no hypothesis on the hash is left -/
theorem check_roundtrip_sha256d (v : UInt8) (p : Bytes) :
    ∃ d, fromBytes p (v.toNat : Int) = .ok d ∧ d = ⟨v, p⟩ ∧
      Model.Base58.new Crypto.hash256 (str Crypto.hash256 d) = .ok ⟨v, p⟩ :=
  check_roundtrip Crypto.hash256 (fun x => by rw [Crypto.hash256_length]; omega) v p

/-! ### non-vacuity -/

-- leading zero bytes / '1' characters: "11" + numeral of 0x61 for 00 00 61, and back
example : decode (encode [0, 0, 0x61]) = .ok [0, 0, 0x61] := decode_encode _
example : ∃ b, decode ['1', '1', '2', 'g'] = .ok b ∧ encode b = ['1', '1', '2', 'g'] :=
  encode_decode _ (by decide)
example : decode ['1', 'l'] = .error .b58err := (decode_invalid_char _).mpr (by decide)
-- the hypotheses of `encode_decode` / `decode_invalid_char` are satisfiable
example : ∀ c ∈ ['1', '1', '2', 'g'], c ∈ alphabetChars := by decide
example : ∃ c ∈ ['1', 'l'], c ∉ alphabetChars := by decide
-- the rule accepts a five-byte string and refuses the four-byte string of D8 for every hash:
-- with a constant hash `H _ = [1,2,3,4]`, `7 ‖ 1 2 3 4` is (version 7, empty payload) …
example : CheckRule (fun _ => [1, 2, 3, 4]) 7 [] [7, 1, 2, 3, 4] := ⟨[1, 2, 3, 4], rfl, rfl, rfl⟩
-- … and no (version, payload) is read out of the four bytes `1 2 3 4`
example : checkSplit? (fun _ => [1, 2, 3, 4]) [1, 2, 3, 4] = none := by decide

end BtcVerif.C10
