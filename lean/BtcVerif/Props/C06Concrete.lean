/-
  C06 / C07 for the CONCRETE environment (Model/ScriptEnvReal.lean — the term the driver evaluates):
  hashes = Crypto.sha1 / ripemd160 / sha256; `sigHash` = the model of `RawSignatureHash` for any
  Python int index (C03's model for `inIdx ≥ 0`, the wrap-around transcription `rawSignatureHashNeg`
  for `inIdx < 0`) with every exception an explicit outcome; `sigVerify` = SEC1 / strict-DER
  decoding and ECDSA verification over Crypto.Secp256k1.

  Nothing about the environment is assumed here:
  * `hashesOK_real` — digest lengths, from Proofs/CryptoLen.lean;
  * `codesepInsensitive_real` — from C03 (`findAndDelete_codesep`, `findAndDelete_invalid`,
    `parses_iff`): the legacy signature hash removes every OP_CODESEPARATOR *operation* from the
    script code before hashing, so the separator operation the model keeps in front of the subscript
    (`CodeRel`) does not change the digest, for script codes that tokenise and for those that do not;
  * `sigHashOK_real`, `raises_real_iff` — every outcome of `RawSignatureHash`.
  The hypotheses that remain are about the CALL:
  * `FieldsWF tx` — transaction fields in wire range (otherwise `from_tx` / `serialize` raise
    ValueError / struct.error, which the model propagates as `.py` outcomes — outside every theorem here
    except the limit theorems, which need nothing);
  * `IdxOK tx inIdx` — `0 ≤ inIdx`, or `−|vin| ≤ inIdx` and `−|vout| ≤ inIdx` (Python's negative
    indexing WRAPS there and nothing is raised: the equivalence and containment theorems hold for
    those indices too, against the reference run with the wrapped signature check).  For the other
    negative indices IndexError escapes (known finding D7): `only_known_findings_real` pins the class
    and the index range;
  * flags admissible for `VerifyScript`; `EvalScript`: caller stack of at most 1000 items, each at
    most `B < 2³²` bytes.
  Helper lemmas: Proofs/ScriptEnvReal.lean.
-/
import BtcVerif.Proofs.ScriptEnvReal
import BtcVerif.Proofs.CryptoLen
import BtcVerif.Props.C06
import BtcVerif.Props.C07

namespace BtcVerif.C06.Concrete
open BtcVerif BtcVerif.Spec BtcVerif.Spec.Script BtcVerif.Model.Script BtcVerif.Model.ScriptEval
open BtcVerif.Model.ScriptEval.Real

/-- the modelled `RawSignatureHash` does not see a leading OP_CODESEPARATOR operation of the script
    code (any script code, any transaction, any Python int index and hash type) -/
theorem rawSignatureHash_ignores_leading_codesep (sc : Bytes) (tx : Tx) (i : Int) (ht : Int) :
    rawSignatureHashInt ((0xab : UInt8) :: sc) tx i ht = rawSignatureHashInt sc tx i ht :=
  rawSignatureHashInt_codesep sc tx i ht

/-- hence the concrete signature check satisfies the hypothesis of `C06.eval_equiv` / `verify_equiv` -/
theorem codesepInsensitive_real (tx : Tx) (inIdx : Int) : CodesepInsensitive (realEnv tx inIdx) :=
  realEnv_codesepInsensitive tx inIdx

/-- the executable SHA-1 / RIPEMD-160 / SHA-256 return 20 / 20 / 32 bytes: `HashesOK` discharged -/
theorem hashesOK_real : HashesOK realHashes := by
  intro x
  simp only [realHashes, Crypto.sha1_length, Crypto.ripemd160_length, Crypto.sha256_length]
  omega

/-- for a transaction in wire range and an index that is non-negative or wraps, `RawSignatureHash`
    returns a digest for every script code (≤ 10 000 bytes) that tokenises and every hash-type byte -/
theorem sigHashOK_real (tx : Tx) (inIdx : Int) (hwf : Sighash.FieldsWF tx) (hidx : IdxOK tx inIdx) :
    SigHashOK (realCtx tx inIdx) :=
  Real.sigHashOK_real tx inIdx hwf hidx

/-- the exceptions other than CScriptInvalidError that `RawSignatureHash` hands to the interpreter, for
    a transaction in wire range: IndexError and nothing else, exactly at the negative indices that
    do not wrap around both lists (D7) -/
theorem raises_real_iff (tx : Tx) (inIdx : Int) (hwf : Sighash.FieldsWF tx) (cls : String) :
    (realCtx tx inIdx).Raises cls ↔
      (cls = "IndexError" ∧ inIdx < 0 ∧ (inIdx < -(tx.vin.length : Int) ∨ inIdx < -(tx.vout.length : Int))) :=
  Real.raises_real_iff tx inIdx hwf cls

/-- coherence of the two models of `FindAndDelete`: the interpreter's (Model/ScriptEval) returns
    what C03's (Model/Sighash) returns, and raises CScriptInvalidError on the same scripts -/
theorem findAndDelete_coherent (cap : Captured) (script sig : Bytes) :
    findAndDelete cap script sig =
      match Model.Sighash.findAndDelete script sig with
      | .ok r => .ok r
      | .error _ => .error (.invalid cap) :=
  findAndDelete_models_agree cap script sig

/-- `eval_equiv` for the concrete environment -/
theorem eval_equiv_real (tx : Tx) (inIdx : Int) (fl : Flags) (stack : List Bytes) (script : Bytes) (B : Nat)
    (hwf : Sighash.FieldsWF tx) (hidx : IdxOK tx inIdx) (hB : 520 ≤ B) (hB2 : B < 2 ^ 32)
    (hs : stack.length ≤ 1000) (he : ∀ x ∈ stack, x.length ≤ B) :
    match evalScript (realCtx tx inIdx) fl stack script with
    | .ok s' => Ref.evalScript (realEnv tx inIdx) fl stack script = some s'
    | .error _ => Ref.evalScript (realEnv tx inIdx) fl stack script = none :=
  C06.eval_equiv (realCtx tx inIdx) fl stack script B hB hB2 hashesOK_real
    (sigHashOK_real tx inIdx hwf hidx) (codesepInsensitive_real tx inIdx) hs he

/-- `verify_equiv` for the concrete environment: arbitrary scriptSig / scriptPubKey bytes, any
    transaction in wire range, any index that is non-negative or wraps, the 12 admissible flag sets -/
theorem verify_equiv_real (tx : Tx) (inIdx : Int) (fl : Flags) (sig spk : Bytes)
    (hwf : Sighash.FieldsWF tx) (hidx : IdxOK tx inIdx) (hf : fl.admissible = true) :
    (verifyScript (realCtx tx inIdx) fl sig spk = .ok ()) ↔
      (Ref.verifyScript (realEnv tx inIdx) fl sig spk = true) :=
  C06.verify_equiv (realCtx tx inIdx) fl sig spk hf hashesOK_real (sigHashOK_real tx inIdx hwf hidx)
    (codesepInsensitive_real tx inIdx)

/-- `only_known_findings_class` for the concrete environment: for a transaction in wire range,
    ARBITRARY scriptSig / scriptPubKey bytes, any Python int index and any of the 16 flag sets, an
    exception of `VerifyScript` that is not a ValidationError is
    * IndexError, and then `inIdx < 0` and `inIdx < −|vin|` or `inIdx < −|vout|` (D7), or
    * AssertionError, and then the flag set has CLEANSTACK without P2SH (D6). -/
theorem only_known_findings_real (tx : Tx) (inIdx : Int) (fl : Flags) (sig spk : Bytes)
    (hwf : Sighash.FieldsWF tx) (e : Err)
    (h : verifyScript (realCtx tx inIdx) fl sig spk = .error e) (hv : e.isValidation = false) :
    (e = .py "IndexError" ∧ inIdx < 0 ∧ (inIdx < -(tx.vin.length : Int) ∨ inIdx < -(tx.vout.length : Int))) ∨
    (e = .py "AssertionError" ∧ fl.admissible = false) := by
  obtain ⟨cls, rfl, h1 | ⟨rfl, h2⟩⟩ := C07.only_known_findings (realCtx tx inIdx) fl hashesOK_real sig spk e h hv
  · left
    obtain ⟨rfl, h3, h4⟩ := (raises_real_iff tx inIdx hwf cls).mp h1
    exact ⟨rfl, h3, h4⟩
  · right; exact ⟨rfl, h2⟩

/-- `verify_contained` for the concrete environment -/
theorem verify_contained_real (tx : Tx) (inIdx : Int) (fl : Flags) (sig spk : Bytes)
    (hwf : Sighash.FieldsWF tx) (hidx : IdxOK tx inIdx) (hf : fl.admissible = true) :
    verifyScript (realCtx tx inIdx) fl sig spk = .ok () ∨
    ∃ e, verifyScript (realCtx tx inIdx) fl sig spk = .error e ∧ e.isValidation = true :=
  C07.verify_contained (realCtx tx inIdx) fl hashesOK_real (no_raises_real tx inIdx hwf hidx) hf sig spk

/-- `eval_contained` for the concrete environment -/
theorem eval_contained_real (tx : Tx) (inIdx : Int) (fl : Flags) (stack : List Bytes) (script : Bytes) (B : Nat)
    (hwf : Sighash.FieldsWF tx) (hidx : IdxOK tx inIdx) (hB : 520 ≤ B) (hB2 : B < 2 ^ 32)
    (hs : stack.length ≤ 1000) (he : ∀ x ∈ stack, x.length ≤ B) :
    (∃ s, evalScript (realCtx tx inIdx) fl stack script = .ok s) ∨
    ∃ cap, evalScript (realCtx tx inIdx) fl stack script = .error (.eval cap) :=
  C07.eval_contained (realCtx tx inIdx) fl hashesOK_real (no_raises_real tx inIdx hwf hidx) stack script B hB hB2 hs he

/-- `error_state_limits` for the concrete environment: NO hypothesis — any transaction (in wire range
    or not), any Python int index, any of the 16 flag sets, arbitrary bytes -/
theorem error_state_limits_real (tx : Tx) (inIdx : Int) (fl : Flags) (sig spk : Bytes) (cap : Captured)
    (h : verifyScript (realCtx tx inIdx) fl sig spk = .error (.eval cap)) :
    cap.stack.length + cap.altstack.length ≤ 1003 ∧ cap.nOpCount ≤ 221 ∧
    (∀ x ∈ cap.stack, x.length ≤ 520) ∧ (∀ x ∈ cap.altstack, x.length ≤ 520) :=
  C07.error_state_limits (realCtx tx inIdx) fl hashesOK_real sig spk cap h

/-! ### non-vacuity -/

example : ({ p2sh := true } : Flags).admissible = true := by decide

/-- `IdxOK` has negative members: −1 for a transaction with an input and an output -/
example (tx : Tx) (h1 : 1 ≤ tx.vin.length) (h2 : 1 ≤ tx.vout.length) : IdxOK tx (-1) := by
  right; omega

/-- D7 is reachable: below −|vin| some signature hash raises IndexError -/
example (tx : Tx) (hwf : Sighash.FieldsWF tx) : (realCtx tx (-(tx.vin.length : Int) - 1)).Raises "IndexError" :=
  (raises_real_iff tx _ hwf _).mpr ⟨rfl, by omega, Or.inl (by omega)⟩

end BtcVerif.C06.Concrete
