/-
  C06 / C07 for the CONCRETE environment (Model/ScriptEnvReal.lean — the term the driver evaluates):
  hashes = Crypto.sha1 / ripemd160 / sha256, `sigCheck` = C03's model of `RawSignatureHash` followed
  by SEC1 / strict-DER decoding and ECDSA verification over Crypto.Secp256k1.

  `CodesepInsensitive` is PROVED here from C03 (`findAndDelete_codesep`, `findAndDelete_invalid`,
  `parses_iff`): the legacy signature hash removes every OP_CODESEPARATOR *operation* from the
  script code before hashing, so the separator operation the model keeps in front of the
  subscript (`CodeRel`) does not change the digest — for script codes that tokenise and for those
  that do not (then both sides raise).  The remaining hypotheses are the honest ones:
  * `HashesOK realHashes` — digest lengths of the executable SHA-1 / RIPEMD-160 / SHA-256
    (to be discharged from Proofs/CryptoLen.lean when it lands on branch `crypto`);
  * the input index is a natural number (`realCtx tx ↑inIdx`), flags admissible for `VerifyScript`;
  * `EvalScript`: caller stack of at most 1000 items, each at most `B < 2³²` bytes.
  Helper lemmas: Proofs/ScriptEnvReal.lean.
-/
import BtcVerif.Proofs.ScriptEnvReal
import BtcVerif.Props.C06
import BtcVerif.Props.C07

namespace BtcVerif.C06.Concrete
open BtcVerif BtcVerif.Spec BtcVerif.Spec.Script BtcVerif.Model.Script BtcVerif.Model.ScriptEval
open BtcVerif.Model.ScriptEval.Real

/-- the modelled `RawSignatureHash` does not see a leading OP_CODESEPARATOR operation of the script
    code (any script code, any transaction, index and hash type) -/
theorem rawSignatureHash_ignores_leading_codesep (sc : Bytes) (tx : Tx) (i : Nat) (ht : Int) :
    Model.Sighash.rawSignatureHash ((0xab : UInt8) :: sc) tx i ht = Model.Sighash.rawSignatureHash sc tx i ht :=
  rawSignatureHash_codesep sc tx i ht

/-- hence the concrete signature check satisfies the hypothesis of `C06.eval_equiv` / `verify_equiv` -/
theorem codesepInsensitive_real (tx : Tx) (inIdx : Nat) : CodesepInsensitive (realEnv tx inIdx) :=
  realEnv_codesepInsensitive tx inIdx

/-- coherence of the two models of `FindAndDelete`: the interpreter's (Model/ScriptEval) returns
    what C03's (Model/Sighash) returns, and raises CScriptInvalidError on the same scripts -/
theorem findAndDelete_coherent (cap : Captured) (script sig : Bytes) :
    findAndDelete cap script sig =
      match Model.Sighash.findAndDelete script sig with
      | .ok r => .ok r
      | .error _ => .error (.invalid cap) :=
  findAndDelete_models_agree cap script sig

theorem realCtx_env (tx : Tx) (inIdx : Nat) : (realCtx tx (inIdx : Int)).env = realEnv tx inIdx := by
  simp [realCtx]

/-- `eval_equiv` for the concrete environment -/
theorem eval_equiv_real (tx : Tx) (inIdx : Nat) (fl : Flags) (stack : List Bytes) (script : Bytes) (B : Nat)
    (hh : HashesOK realHashes) (hB : 520 ≤ B) (hB2 : B < 2 ^ 32)
    (hs : stack.length ≤ 1000) (he : ∀ x ∈ stack, x.length ≤ B) :
    match evalScript (realCtx tx inIdx) fl stack script with
    | .ok s' => Ref.evalScript (realEnv tx inIdx) fl stack script = some s'
    | .error _ => Ref.evalScript (realEnv tx inIdx) fl stack script = none := by
  have h := C06.eval_equiv (realCtx tx inIdx) fl stack script B hB hB2
    (by rw [realCtx_env]; exact hh) (by simp [realCtx])
    (by rw [realCtx_env]; exact codesepInsensitive_real tx inIdx) hs he
  rw [realCtx_env] at h
  exact h

/-- `verify_equiv` for the concrete environment: arbitrary scriptSig / scriptPubKey bytes, any
    transaction and input index, the 12 admissible flag sets -/
theorem verify_equiv_real (tx : Tx) (inIdx : Nat) (fl : Flags) (sig spk : Bytes)
    (hh : HashesOK realHashes) (hf : fl.admissible = true) :
    (verifyScript (realCtx tx inIdx) fl sig spk = .ok ()) ↔
      (Ref.verifyScript (realEnv tx inIdx) fl sig spk = true) := by
  have h := C06.verify_equiv (realCtx tx inIdx) fl sig spk hf
    (by rw [realCtx_env]; exact hh) (by simp [realCtx])
    (by rw [realCtx_env]; exact codesepInsensitive_real tx inIdx)
  rw [realCtx_env] at h
  exact h

/-- `verify_contained` for the concrete environment -/
theorem verify_contained_real (tx : Tx) (inIdx : Nat) (fl : Flags) (sig spk : Bytes)
    (hh : HashesOK realHashes) (hf : fl.admissible = true) :
    verifyScript (realCtx tx inIdx) fl sig spk = .ok () ∨
    ∃ e, verifyScript (realCtx tx inIdx) fl sig spk = .error e ∧ e.isValidation = true :=
  C07.verify_contained (realCtx tx inIdx) fl (by rw [realCtx_env]; exact hh) (by simp [realCtx]) hf sig spk

/-- `error_state_limits` for the concrete environment (any integer index, any flag set) -/
theorem error_state_limits_real (tx : Tx) (inIdx : Int) (fl : Flags) (sig spk : Bytes)
    (hh : HashesOK realHashes) (cap : Captured)
    (h : verifyScript (realCtx tx inIdx) fl sig spk = .error (.eval cap)) :
    cap.stack.length + cap.altstack.length ≤ 1003 ∧ cap.nOpCount ≤ 221 ∧
    (∀ x ∈ cap.stack, x.length ≤ 520) ∧ (∀ x ∈ cap.altstack, x.length ≤ 520) :=
  C07.error_state_limits (realCtx tx inIdx) fl (by simpa [realCtx, realEnv] using hh) sig spk cap h

/-! ### non-vacuity -/

/-- an admissible flag set exists, and the separator lemma is about a genuine operation boundary:
    a 0xab byte inside a push is NOT removed (C03 `exScript`) -/
example : ({ p2sh := true } : Flags).admissible = true := by decide

end BtcVerif.C06.Concrete
