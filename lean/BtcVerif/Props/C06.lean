/-
  C06 — Script evaluation agrees with reference Script semantics: property theorems.

  `Model.ScriptEval` mirrors bitcoin/core/scripteval.py (repaired for D4 / D5); `Spec.Script.Ref`
  is the reference interpreter in the shape of Bitcoin Core's interpreter.cpp.  Both use the same
  opaque primitives `Env` (three hash functions, `sigCheck`).  Helper lemmas:
  Proofs/ScriptEquiv*.lean, Proofs/ScriptNumCodec.lean, Proofs/ScriptOpEnc.lean, Proofs/ScriptFad.lean.

  PROVED for EVERY opcode class: pushes (all four encodings, truncation), small integers, flow
  control (IF / NOTIF / ELSE / ENDIF with `vfExec`, VERIFY, RETURN), stack and altstack manipulation,
  SIZE, EQUAL(VERIFY), the unary and binary numeric opcodes with the 4-byte operand rule, WITHIN,
  the five hash opcodes, OP_CODESEPARATOR, OP_CHECKSIG(VERIFY) and OP_CHECKMULTISIG(VERIFY) with
  `FindAndDelete` of the signatures, the dummy element and NULLDUMMY, NOP and the upgradable NOPs
  (DISCOURAGE_UPGRADABLE_NOPS), disabled opcodes and OP_VERIF / OP_VERNOTIF in executed and
  unexecuted branches, reserved and unknown opcodes, and the limits (10 000 bytes, 520 bytes,
  201 counted operations including multisig keys, 1 000 stack items, checked after every operation
  including pushes).

  Hypotheses of the full theorems (`eval_equiv`, `eval_stack`, `verify_equiv`):
  * `SigHashOK c` — `RawSignatureHash` returns a digest for every script code that tokenises (true of the
    real one for a transaction in wire range and `0 ≤ inIdx` or a negative index that wraps around
    `vin` and `vout`: `C06.Concrete.sigHashOK_real`; the other negative indices: C07, D7);
  * `CodesepInsensitive c.env` — the signature check does not depend on a leading
    OP_CODESEPARATOR of the script code: the model keeps the last executed separator in front of the
    subscript, the reference starts after it, and the legacy signature hash removes every
    separator before hashing (proved for the real one: `C06.Concrete.codesepInsensitive_real`);
  * `HashesOK` — hash outputs are at most 520 bytes (20 / 32 for the real ones: `C06.Concrete.hashesOK_real`);
  * for `EvalScript` from a caller-supplied stack: at most 1 000 items of less than 2³² bytes
    (C07's invariant carries this through the run; `VerifyScript` starts from the empty stack).
  The `_partial` variants need none of these and hold for scripts without the four signature opcodes.
-/
import BtcVerif.Proofs.ScriptEquivFull
import BtcVerif.Proofs.ScriptNumCodec

namespace BtcVerif.C06
open BtcVerif BtcVerif.Spec BtcVerif.Spec.Script BtcVerif.Model.Script BtcVerif.Model.ScriptEval

/-! ### building blocks that hold without restriction -/

/-- `_CastToBool` is Core's `CastToBool` on every byte string -/
theorem castToBool_equiv (s : Bytes) : castToBool s = Ref.castToBool s := castToBool_eq s

/-- `bn2vch` (through `bn2mpi` / `mpi2vch`) is `CScriptNum::serialize` on every integer -/
theorem num_encode_equiv (v : Int) : bn2vch v = .ok (Ref.scriptNumSer v) := bn2vch_eq v

/-- `vch2bn` is `CScriptNum::set_vch` on every byte string that CPython can `struct.pack` the
    length of -/
theorem num_decode_equiv (s : Bytes) (h : s.length < 2 ^ 32) : vch2bn s = .ok (Ref.scriptNumDecode s) :=
  vch2bn_eq s h

/-- `_CastToBigNum` fails exactly when `CScriptNum(vch, false, 4)` throws, else yields its value -/
theorem num_operand_equiv (s : Bytes) (st : St) :
    match Ref.scriptNum? s with
    | none => ∃ e, castToBigNum s st = .error e
    | some v => castToBigNum s st = .ok v := castToBigNum_eq s st

/-- one step of `CScript.raw_iter` against `CScript::GetOp` on the same suffix: same opcode, same
    pushed data, same remaining bytes; a malformed push on one side is one on the other -/
theorem tokenise_equiv (idx : Nat) (s : Bytes) :
    match rawStep idx s with
    | none => s = []
    | some (.err _) => s ≠ [] ∧ Ref.getOp s = none
    | some (.op o rest) => Ref.getOp s = some (o.opcode, o.data.getD [], rest) ∧ o.sopIdx = idx := by
  have h := rawStep_getOp idx s
  cases hr : rawStep idx s with
  | none => rw [hr] at h; exact h
  | some st =>
    rw [hr] at h
    cases st with
    | err e => exact h
    | op o rest => exact ⟨h.1, h.2.1⟩

/-- `CScript.is_push_only` is `CScript::IsPushOnly`, `is_p2sh` is `IsPayToScriptHash` -/
theorem predicates_equiv (s : Bytes) :
    isPushOnly s = Ref.isPushOnly s ∧ isP2sh s = Ref.isPayToScriptHash s :=
  ⟨isPushOnly_eq s, isP2sh_eq s⟩

/-! ### simulation -/

/-- `step_equiv`: one iteration of the interpreter loop on corresponding states.  If the model's
    iteration succeeds so does the reference's, in the corresponding state (same stack, altstack,
    `vfExec`, operation count; `pbegincodehash` related by `CodeRel`); if the model raises, the
    reference returns false.  This variant has no side hypotheses and covers every opcode class
    except the four signature opcodes (`uncoveredOps`); those are covered by `step_simT`
    (Proofs/ScriptEquivFull.lean) under the hypotheses of `eval_equiv`. -/
theorem step_equiv (c : Ctx) (fl : Flags) (script : Bytes) (op : RawOp) (pc' code : Bytes) (st : St)
    (hcov : op.opcode ∉ uncoveredOps)
    (hd1 : op.opcode ≤ 0x4e → op.data.isSome) (hd2 : op.opcode > 0x4e → op.data = none)
    (hsep : op.opcode = 0xab → script.drop op.sopIdx = 0xab :: pc')
    (hcode : CodeRel script st.pbegin code) (hnop : st.nOpCount ≤ MAX_OPS_PER_SCRIPT) :
    match step c fl script op st with
    | .ok st' => ∃ code', Ref.loopBody c.env fl op.opcode (op.data.getD []) pc' (toRef st code) =
        some (toRef st' code') ∧ CodeRel script st'.pbegin code' ∧ st'.nOpCount ≤ MAX_OPS_PER_SCRIPT
    | .error _ => Ref.loopBody c.env fl op.opcode (op.data.getD []) pc' (toRef st code) = none :=
  step_sim c fl script op pc' code st hcov hd1 hd2 hsep hcode hnop

/-- hypothesis-free variant of `eval_equiv` + `eval_stack`: for ANY initial stack (no size bound),
    flag set, context and script bytes free of the four signature opcodes, `EvalScript` fails
    exactly when the reference fails, and otherwise leaves exactly the reference's final stack.
    (`_partial`: restricted to `ScriptCovered` scripts; the unrestricted statement is `eval_equiv`.) -/
theorem eval_equiv_partial (c : Ctx) (fl : Flags) (stack : List Bytes) (script : Bytes)
    (hcov : ScriptCovered script) :
    match evalScript c fl stack script with
    | .ok s' => Ref.evalScript c.env fl stack script = some s'
    | .error _ => Ref.evalScript c.env fl stack script = none :=
  evalScript_sim c fl stack script hcov

/-- fails ↔ fails, in iff form -/
theorem eval_fails_iff_partial (c : Ctx) (fl : Flags) (stack : List Bytes) (script : Bytes)
    (hcov : ScriptCovered script) :
    (∃ e, evalScript c fl stack script = .error e) ↔ Ref.evalScript c.env fl stack script = none := by
  have h := eval_equiv_partial c fl stack script hcov
  cases hm : evalScript c fl stack script with
  | ok s' => rw [hm] at h; simp [h]
  | error e => rw [hm] at h; simp [h]

/-- same final stack when both succeed -/
theorem eval_stack_partial (c : Ctx) (fl : Flags) (stack : List Bytes) (script : Bytes)
    (hcov : ScriptCovered script) (s1 s2 : List Bytes)
    (h1 : evalScript c fl stack script = .ok s1) (h2 : Ref.evalScript c.env fl stack script = some s2) :
    s1 = s2 := by
  have h := eval_equiv_partial c fl stack script hcov
  rw [h1] at h
  rw [h] at h2
  exact Option.some.inj h2

/-- hypothesis-free variant of `verify_equiv` (`_partial`: scriptSig, scriptPubKey and — for P2SH —
    the redeem script free of the four signature opcodes; no assumption on the context).  Covers the
    P2SH rules (push-only scriptSig, redeem script = last element of the copied stack) and
    CLEANSTACK.  The unrestricted statement is `verify_equiv`. -/
theorem verify_equiv_partial (c : Ctx) (fl : Flags) (sig spk : Bytes) (hf : fl.admissible = true)
    (hsig : ScriptCovered sig) (hspk : ScriptCovered spk)
    (hredeem : ∀ s1 x r, evalScript c fl [] sig = .ok s1 → s1 = x :: r → ScriptCovered x) :
    (verifyScript c fl sig spk = .ok ()) ↔ (Ref.verifyScript c.env fl sig spk = true) := by
  have h := verifyScript_sim c fl sig spk hf hsig hspk hredeem
  cases hm : verifyScript c fl sig spk with
  | ok u => rw [hm] at h; simp only [VerSim] at h; simp [h]
  | error e => rw [hm] at h; simp only [VerSim] at h; simp [h]

/-! ### the full statements -/

/-- `FindAndDelete(script, CScript([sig]))`: CScriptInvalidError when `raw_iter` raises, otherwise
    exactly the reference's (Core's tolerant) result -/
theorem findAndDelete_equiv (cap : Captured) (script sig : Bytes) (h : sig.length < 2 ^ 32) :
    findAndDelete cap script (Ref.pushEnc sig) =
      if (rawIter script).2.isSome then .error (.invalid cap)
      else .ok (Ref.findAndDelete script (Ref.pushEnc sig)) :=
  findAndDelete_eq cap script _ (pushEnc_pat sig h)

/-- `step_equiv_full`: one iteration of the interpreter loop on corresponding states, EVERY opcode
    class (the signature-checking opcodes included).  `tailP` stands for "the script has a malformed
    push further on": only then may the model stop with CScriptInvalidError (raised by the `raw_iter`
    inside `FindAndDelete`) while the reference carries on — and fails at that push
    (`evalLoop_tail_fail`). -/
theorem step_equiv_full (c : Ctx) (fl : Flags) (script : Bytes) (op : RawOp) (pc' code : Bytes) (st : St)
    (tailP : Prop)
    (hd1 : op.opcode ≤ 0x4e → op.data.isSome) (hd2 : op.opcode > 0x4e → op.data = none)
    (hsep : op.opcode = 0xab → script.drop op.sopIdx = 0xab :: pc')
    (hcode : CodeRel script st.pbegin code) (hnop : st.nOpCount ≤ MAX_OPS_PER_SCRIPT)
    (hsh : SigHashOK c) (hcs : CodesepInsensitive c.env) (hel : ∀ x ∈ st.stack, x.length < 2 ^ 32)
    (htl : (rawIter (script.drop st.pbegin)).2.isSome → tailP) (hsl : script.length ≤ MAX_SCRIPT_SIZE) :
    match step c fl script op st with
    | .ok st' => ∃ code', Ref.loopBody c.env fl op.opcode (op.data.getD []) pc' (toRef st code) =
        some (toRef st' code') ∧ CodeRel script st'.pbegin code' ∧ st'.nOpCount ≤ MAX_OPS_PER_SCRIPT ∧
        (st'.pbegin = st.pbegin ∨ st'.pbegin = op.sopIdx)
    | .error e => Ref.loopBody c.env fl op.opcode (op.data.getD []) pc' (toRef st code) = none ∨
        (tailP ∧ ∃ cap, e = .invalid cap) :=
  step_simT c fl script op pc' code st tailP hd1 hd2 hsep hcode hnop hsh hcs hel htl hsl

/-- `eval_equiv`: for every script (arbitrary bytes, every opcode), flag set and initial stack
    within the limits, `EvalScript` fails exactly when the reference fails, and otherwise leaves
    exactly the reference's final stack -/
theorem eval_equiv (c : Ctx) (fl : Flags) (stack : List Bytes) (script : Bytes) (B : Nat)
    (hB : 520 ≤ B) (hB2 : B < 2 ^ 32) (hh : HashesOK c.env.hashes) (hsh : SigHashOK c)
    (hcs : CodesepInsensitive c.env) (hs : stack.length ≤ 1000) (he : ∀ x ∈ stack, x.length ≤ B) :
    match evalScript c fl stack script with
    | .ok s' => Ref.evalScript c.env fl stack script = some s'
    | .error _ => Ref.evalScript c.env fl stack script = none :=
  evalScript_simT c fl stack script B hB hB2 hh hsh hcs hs he

/-- fails ↔ fails -/
theorem eval_fails_iff (c : Ctx) (fl : Flags) (stack : List Bytes) (script : Bytes) (B : Nat)
    (hB : 520 ≤ B) (hB2 : B < 2 ^ 32) (hh : HashesOK c.env.hashes) (hsh : SigHashOK c)
    (hcs : CodesepInsensitive c.env) (hs : stack.length ≤ 1000) (he : ∀ x ∈ stack, x.length ≤ B) :
    (∃ e, evalScript c fl stack script = .error e) ↔ Ref.evalScript c.env fl stack script = none := by
  have h := eval_equiv c fl stack script B hB hB2 hh hsh hcs hs he
  cases hm : evalScript c fl stack script with
  | ok s' => rw [hm] at h; simp [h]
  | error e => rw [hm] at h; simp [h]

/-- `eval_stack`: same final stack when both succeed -/
theorem eval_stack (c : Ctx) (fl : Flags) (stack : List Bytes) (script : Bytes) (B : Nat)
    (hB : 520 ≤ B) (hB2 : B < 2 ^ 32) (hh : HashesOK c.env.hashes) (hsh : SigHashOK c)
    (hcs : CodesepInsensitive c.env) (hs : stack.length ≤ 1000) (he : ∀ x ∈ stack, x.length ≤ B)
    (s1 s2 : List Bytes) (h1 : evalScript c fl stack script = .ok s1)
    (h2 : Ref.evalScript c.env fl stack script = some s2) : s1 = s2 := by
  have h := eval_equiv c fl stack script B hB hB2 hh hsh hcs hs he
  rw [h1] at h
  rw [h] at h2
  exact Option.some.inj h2

/-- `verify_equiv`: under each of the 12 admissible flag sets, for arbitrary scriptSig and
    scriptPubKey bytes, `VerifyScript` accepts exactly when the reference accepts -/
theorem verify_equiv (c : Ctx) (fl : Flags) (sig spk : Bytes) (hf : fl.admissible = true)
    (hh : HashesOK c.env.hashes) (hsh : SigHashOK c) (hcs : CodesepInsensitive c.env) :
    (verifyScript c fl sig spk = .ok ()) ↔ (Ref.verifyScript c.env fl sig spk = true) := by
  have h := verifyScript_simT c fl sig spk hf hh hsh hcs
  cases hm : verifyScript c fl sig spk with
  | ok u => rw [hm] at h; simp only [VerSim] at h; simp [h]
  | error e => rw [hm] at h; simp only [VerSim] at h; simp [h]

/-! ### non-vacuity -/

example : ({ p2sh := true, cleanStack := true, nullDummy := true, discourageNops := true } : Flags).admissible = true := by
  decide

/-- the coverage hypothesis is met by scripts over the rest of the alphabet, e.g. `1 2 ADD 3 EQUAL` … -/
example : ScriptCovered [0x51, 0x52, 0x93, 0x53, 0x87] := by
  intro o ho
  have h : (rawIter [0x51, 0x52, 0x93, 0x53, 0x87]).1.map (·.opcode) = [0x51, 0x52, 0x93, 0x53, 0x87] := by
    simp [rawIter, rawIterFrom_op (idx := 0) (s := [0x51, 0x52, 0x93, 0x53, 0x87]) (o := ⟨0x51, none, 0⟩)
        (rest := [0x52, 0x93, 0x53, 0x87]) (by simp [rawStep]),
      rawIterFrom_op (idx := 1) (s := [0x52, 0x93, 0x53, 0x87]) (o := ⟨0x52, none, 1⟩)
        (rest := [0x93, 0x53, 0x87]) (by simp [rawStep]),
      rawIterFrom_op (idx := 2) (s := [0x93, 0x53, 0x87]) (o := ⟨0x93, none, 2⟩)
        (rest := [0x53, 0x87]) (by simp [rawStep]),
      rawIterFrom_op (idx := 3) (s := [0x53, 0x87]) (o := ⟨0x53, none, 3⟩)
        (rest := [0x87]) (by simp [rawStep]),
      rawIterFrom_op (idx := 4) (s := [0x87]) (o := ⟨0x87, none, 4⟩)
        (rest := []) (by simp [rawStep]),
      rawIterFrom_none (idx := 5) (s := []) (by simp [rawStep])]
  have hm : o.opcode ∈ (rawIter [0x51, 0x52, 0x93, 0x53, 0x87]).1.map (·.opcode) := List.mem_map_of_mem ho
  rw [h] at hm
  simp only [List.mem_cons, List.mem_nil_iff, or_false] at hm
  simp only [uncoveredOps, List.mem_cons, List.mem_nil_iff, or_false]
  omega

/-- … and by the empty script, on which both sides return the initial stack -/
example (c : Ctx) (fl : Flags) (st : List Bytes) : Ref.evalScript c.env fl st [] = some st := by
  simp [Ref.evalScript, evalLoop_nil, MAX_SCRIPT_SIZE]

/-- the hypotheses of the full theorems are met, e.g. by a signature check that hashes the script code
    with every OP_CODESEPARATOR byte removed from its front -/
example : CodesepInsensitive
    ({ hashes := { sha1 := fun _ => [], ripemd160 := fun _ => [], sha256 := fun _ => [] },
       sigCheck := fun body _ sc _ => body == sc.dropWhile (· == 0xab) } : Env) := by
  intro body pk sc ht
  simp [List.dropWhile]

end BtcVerif.C06
