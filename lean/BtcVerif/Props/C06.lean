/-
  C06 — Script evaluation agrees with reference Script semantics: property theorems.
  (M1 placeholder: the model and the reference interpreter are built and tied; theorems follow.)
-/
import BtcVerif.Model.ScriptEval
import BtcVerif.Spec.ScriptRef

namespace BtcVerif.C06
end BtcVerif.C06
