/-
  C17 — compact targets and the proof-of-work check: property theorems.
  Statements use only Model.* (mirror of the Python) and Spec.* (Bitcoin Core's definitions).
  Helper lemmas live in Proofs/Compact.lean.
-/
import BtcVerif.Proofs.Compact

namespace BtcVerif.C17
open BtcVerif

/-- decoding a compact value whose sign bit is clear yields mantissa·256^(exponent−3),
    floor for exponents below 3 (all 32-bit compact values) -/
theorem decode_spec (c : Nat) (hc : c < 2 ^ 32) (hs : (c / 2 ^ 23) % 2 = 0) :
    Model.fromCompact c = Spec.decodeMantExp (c % 2 ^ 23) (c / 2 ^ 24) := by
  have he : (c / 2 ^ 24) % 256 = c / 2 ^ 24 := by omega
  have hm : c % 2 ^ 24 = c % 2 ^ 23 := by omega
  unfold Model.fromCompact Spec.decodeMantExp
  simp only [he, hm, pow8]

/-- encoding any 256-bit integer yields a canonical compact value … -/
theorem toCompact_canonical (v : Nat) (hv : v < 2 ^ 256) : Spec.canonical (Model.toCompact v) := by
  by_cases h0 : v = 0
  · subst h0; left; simp [Model.toCompact, nbytes_zero]
  · have hb := nbytes_bounds v h0
    have hle := nbytes_le32 v hv
    have hpos : 1 ≤ nbytes v := by rw [nbytes_pos h0]; omega
    unfold Model.toCompact
    generalize nbytes v = nb at *
    by_cases h3 : nb ≤ 3
    · simp only [h3, if_true]
      have hv24 : v < 2 ^ 24 := by
        have : (256:Nat) ^ nb ≤ 256 ^ 3 := Nat.pow_le_pow_right (by omega) h3
        omega
      have hc : v % 2 ^ 24 * 2 ^ (8 * (3 - nb)) < 2 ^ 24 := by
        interval_cases nb <;> simp at hb ⊢ <;> omega
      split
      · apply canonical_mk _ _ (by omega) (by omega)
        interval_cases nb <;> simp at * <;> omega
      · apply canonical_mk _ _ hc (by omega)
        interval_cases nb <;> simp at * <;> omega
    · simp only [h3, if_false]
      have hc : v / 2 ^ (8 * (nb - 3)) % 2 ^ 24 < 2 ^ 24 := Nat.mod_lt _ (by omega)
      split
      · apply canonical_mk _ _ (by omega) (by omega)
        interval_cases nb <;> simp at * <;> omega
      · apply canonical_mk _ _ hc (by omega)
        interval_cases nb <;> simp at * <;> omega

/-- … in particular the sign bit is never set -/
theorem compact_signbit_clear (v : Nat) (hv : v < 2 ^ 256) : (Model.toCompact v / 2 ^ 23) % 2 = 0 := by
  rcases toCompact_canonical v hv with h | ⟨_, _, _, h, _⟩
  · rw [h]; simp
  · omega

/-- decoding the encoding of a 256-bit integer gives the integer truncated to its three most
    significant (sign-magnitude) bytes -/
theorem decode_encode (v : Nat) (hv : v < 2 ^ 256) :
    Model.fromCompact (Model.toCompact v) = Spec.truncTop3 v := by
  by_cases h0 : v = 0
  · subst h0; simp [Model.toCompact, Model.fromCompact, Spec.truncTop3, nbytes_zero]
  · have hb := nbytes_bounds v h0
    have hle := nbytes_le32 v hv
    have hpos : 1 ≤ nbytes v := by rw [nbytes_pos h0]; omega
    unfold Model.toCompact Spec.truncTop3
    generalize nbytes v = nb at *
    by_cases h3 : nb ≤ 3
    · simp only [h3, if_true]
      have hv24 : v < 2 ^ 24 := by
        have : (256:Nat) ^ nb ≤ 256 ^ 3 := Nat.pow_le_pow_right (by omega) h3
        omega
      have hc : v % 2 ^ 24 * 2 ^ (8 * (3 - nb)) < 2 ^ 24 := by
        interval_cases nb <;> simp at hb ⊢ <;> omega
      split
      · rw [fromCompact_mk _ _ (by omega) (by omega)]
        interval_cases nb <;> simp at * <;> (try split_ifs) <;> omega
      · rw [fromCompact_mk _ _ hc (by omega)]
        interval_cases nb <;> simp at * <;> (try split_ifs) <;> omega
    · simp only [h3, if_false]
      have hc : v / 2 ^ (8 * (nb - 3)) % 2 ^ 24 < 2 ^ 24 := Nat.mod_lt _ (by omega)
      split
      · rw [fromCompact_mk _ _ (by omega) (by omega)]
        interval_cases nb <;> simp at * <;> (try split_ifs) <;> omega
      · rw [fromCompact_mk _ _ hc (by omega)]
        interval_cases nb <;> simp at * <;> (try split_ifs) <;> omega

/-- decoding then re-encoding is the identity on canonical compact values (all exponents 1..255) -/
theorem encode_decode (c : Nat) (hc : Spec.canonical c) :
    Model.toCompact (Model.fromCompact c) = c := by
  rcases hc with rfl | ⟨he1, he255, hm1, hm2, hlow⟩
  · simp [Model.toCompact, Model.fromCompact, nbytes_zero]
  · generalize hE : c / 2 ^ 24 = e at *
    generalize hM : c % 2 ^ 24 = m at *
    have hcm : c = m + e * 2 ^ 24 := by omega
    have hfc : Model.fromCompact c = if e ≤ 3 then m / 2 ^ (8 * (3 - e)) else m * 2 ^ (8 * (e - 3)) := by
      unfold Model.fromCompact
      have : e % 256 = e := by omega
      simp only [hE, hM, this]
    rw [hfc]
    by_cases h3 : e ≤ 3
    · simp only [h3, if_true]
      have h123 : e = 1 ∨ e = 2 ∨ e = 3 := by omega
      rcases h123 with rfl | rfl | rfl
      · -- e = 1: m = k·65536, 1 ≤ k ≤ 0x7f
        simp at hlow ⊢
        have hv1 : 256 ^ 0 ≤ m / 65536 := by simp; omega
        have hv2 : m / 65536 < 256 ^ (0+1) := by simp; omega
        rw [toCompact_mk _ _ (nbytes_eq hv1 hv2)]
        simp; split_ifs <;> omega
      · simp at hlow ⊢
        by_cases hb : m < 0x10000
        · have hv1 : 256 ^ 0 ≤ m / 256 := by simp; omega
          have hv2 : m / 256 < 256 ^ (0+1) := by simp; omega
          rw [toCompact_mk _ _ (nbytes_eq hv1 hv2)]
          simp; split_ifs <;> omega
        · have hv1 : 256 ^ 1 ≤ m / 256 := by simp; omega
          have hv2 : m / 256 < 256 ^ (1+1) := by simp; omega
          rw [toCompact_mk _ _ (nbytes_eq hv1 hv2)]
          simp; split_ifs <;> omega
      · simp at hlow ⊢
        by_cases hb : m < 0x10000
        · have hv1 : 256 ^ 1 ≤ m := by simp; omega
          have hv2 : m < 256 ^ (1+1) := by simp; omega
          rw [toCompact_mk _ _ (nbytes_eq hv1 hv2)]
          simp; split_ifs <;> omega
        · have hv1 : 256 ^ 2 ≤ m := by simp; omega
          have hv2 : m < 256 ^ (2+1) := by simp; omega
          rw [toCompact_mk _ _ (nbytes_eq hv1 hv2)]
          simp; split_ifs <;> omega
    · simp only [h3, if_false]
      obtain ⟨k, rfl⟩ : ∃ k, e = k + 4 := ⟨e - 4, by omega⟩
      have hk : k + 4 - 3 = k + 1 := by omega
      rw [hk, pow8]
      generalize hP : (256:Nat) ^ k = P
      have hPpos : 0 < P := by rw [← hP]; exact Nat.pow_pos (by omega)
      have hP1 : (256:Nat) ^ (k + 1) = P * 256 := by rw [Nat.pow_succ, hP]
      by_cases hb : m < 0x10000
      · have hv1 : 256 ^ (k + 2) ≤ m * 256 ^ (k + 1) := by
          rw [show (256:Nat) ^ (k + 2) = 256 * 256 ^ (k+1) by rw [Nat.pow_succ]; omega]
          exact Nat.mul_le_mul_right _ (by omega)
        have hv2 : m * 256 ^ (k + 1) < 256 ^ (k + 2 + 1) := by
          rw [show (256:Nat) ^ (k + 2 + 1) = 65536 * 256 ^ (k+1) by
            rw [Nat.pow_succ, Nat.pow_succ]; omega]
          exact Nat.mul_lt_mul_of_pos_right (by omega) (Nat.pow_pos (by omega))
        rw [toCompact_mk _ _ (nbytes_eq hv1 hv2)]
        have key : (if k + 2 + 1 ≤ 3 then (m * 256 ^ (k + 1)) % 2 ^ 24 * 2 ^ (8 * (3 - (k + 2 + 1)))
            else (m * 256 ^ (k + 1)) / 2 ^ (8 * (k + 2 + 1 - 3)) % 2 ^ 24) = m * 256 := by
          by_cases hk0 : k = 0
          · subst hk0; simp; omega
          · have : ¬ (k + 2 + 1 ≤ 3) := by omega
            simp only [this, if_false]
            rw [show k + 2 + 1 - 3 = k by omega, pow8, hP, hP1,
              show m * (P * 256) = (m * 256) * P by rw [Nat.mul_comm P 256, Nat.mul_assoc],
              Nat.mul_div_cancel _ hPpos]
            omega
        simp only [key]
        split_ifs <;> omega
      · have hv1 : 256 ^ (k + 3) ≤ m * 256 ^ (k + 1) := by
          rw [show (256:Nat) ^ (k + 3) = 65536 * 256 ^ (k+1) by
            rw [Nat.pow_succ, Nat.pow_succ]; omega]
          exact Nat.mul_le_mul_right _ (by omega)
        have hv2 : m * 256 ^ (k + 1) < 256 ^ (k + 3 + 1) := by
          rw [show (256:Nat) ^ (k + 3 + 1) = 16777216 * 256 ^ (k+1) by
            rw [Nat.pow_succ, Nat.pow_succ, Nat.pow_succ]; omega]
          exact Nat.mul_lt_mul_of_pos_right (by omega) (Nat.pow_pos (by omega))
        rw [toCompact_mk _ _ (nbytes_eq hv1 hv2)]
        have h4 : ¬ (k + 3 + 1 ≤ 3) := by omega
        simp only [h4, if_false]
        rw [show k + 3 + 1 - 3 = k + 1 by omega, pow8, Nat.mul_div_cancel _ (Nat.pow_pos (by omega))]
        split_ifs <;> omega

/-- the proof-of-work check accepts exactly when Bitcoin Core's does: not negative, not
    overflowing, non-zero, at most the chain limit, and hash (little-endian) ≤ target -/
theorem pow_iff (limit : Nat) (hl : limit < 2 ^ 256) (hash : Bytes) (hh : hash.length = 32)
    (bits : Nat) (hb : bits < 2 ^ 32) :
    Model.checkPoW limit hash bits = .ok ↔ Spec.powValid limit hash bits := by
  have htake : hash.take 32 = hash := by rw [← hh]; exact List.take_length
  have he : (bits / 2 ^ 24) % 256 = bits / 2 ^ 24 := by omega
  have hlen : ¬ (hash.length < 32) := by omega
  unfold Model.checkPoW Spec.powValid Spec.compactNeg Spec.compactOvf Spec.compactValue
    Model.uint256FromStr Model.fromCompact
  simp only [htake, he, hlen, if_false]
  generalize leNat hash = L
  generalize hW : bits % 2 ^ 23 = w
  have hw : w < 2 ^ 23 := by omega
  generalize hS : bits / 2 ^ 24 = s
  by_cases hs : (bits / 2 ^ 23) % 2 = 1
  · -- sign bit set: model rejects; Core says negative (nWord ≠ 0) or zero (nWord = 0)
    simp only [hs, if_true]
    by_cases hw0 : w = 0
    · subst hw0; simp
    · simp [hw0]
  · have hm : bits % 2 ^ 24 = w := by omega
    simp only [hs, if_false, hm, and_false, not_false_eq_true, true_and]
    by_cases h3 : s ≤ 3
    · have hno : ¬ (s > 34 ∨ (w > 0xff ∧ s > 33) ∨ (w > 0xffff ∧ s > 32)) := by omega
      simp only [h3, if_true, hno, and_false, not_false_eq_true, true_and]
      generalize w / 2 ^ (8 * (3 - s)) = v
      by_cases h1 : 0 < v ∧ v ≤ limit
      · by_cases h2 : L > v
        · simp [h1, h2]
        · simp [h1, h2]; omega
      · simp [h1]; omega
    · have h3' : 3 < s := by omega
      simp only [h3, if_false, ovf_iff w s hw h3']
      generalize w * 2 ^ (8 * (s - 3)) = U
      by_cases hU : 2 ^ 256 ≤ U
      · have : ¬ (0 < U ∧ U ≤ limit) := by omega
        simp only [this, not_false_eq_true, if_true, hU, not_true_eq_false, false_and]
        simp
      · have hmod : U % 2 ^ 256 = U := Nat.mod_eq_of_lt (by omega)
        simp only [hmod, hU, not_false_eq_true, true_and]
        by_cases h1 : 0 < U ∧ U ≤ limit
        · by_cases h2 : L > U
          · simp [h1, h2]
          · simp [h1, h2]; omega
        · simp [h1]; omega

/-- rejection is a validation error: for a hash of at least 32 bytes (a digest) the only outcomes
    are acceptance and `CheckProofOfWorkError`; the `struct.error` branch of `uint256_from_str` is dead -/
theorem pow_reject_is_validation (limit : Nat) (hash : Bytes) (hh : 32 ≤ hash.length) (bits : Nat) :
    Model.checkPoW limit hash bits = .ok ∨ Model.checkPoW limit hash bits = .errPow := by
  have hlen : ¬ (hash.length < 32) := by omega
  unfold Model.checkPoW Model.uint256FromStr
  simp only [hlen, if_false]
  split
  · right; rfl
  · split
    · right; rfl
    · split
      · right; rfl
      · left; rfl

/-- outside the property's domain, recorded so that the model is not totalised: a hash shorter than
    32 bytes with an admissible target makes `struct.error` escape -/
theorem pow_short_hash (limit : Nat) (hash : Bytes) (hh : hash.length < 32) (bits : Nat)
    (hs : (bits / 2 ^ 23) % 2 = 0) (ht : 0 < Model.fromCompact bits ∧ Model.fromCompact bits ≤ limit) :
    Model.checkPoW limit hash bits = .pyStructError := by
  unfold Model.checkPoW Model.uint256FromStr
  have h1 : ¬ ((bits / 2 ^ 23) % 2 = 1) := by omega
  have h2 : ¬ ¬ (0 < Model.fromCompact bits ∧ Model.fromCompact bits ≤ limit) := fun h => h ht
  simp only [h1, if_false, h2, hh, if_true]

/-- the byte length used by `compact_from_uint256` is Python's `(v.bit_length() + 7) >> 3` -/
theorem nbytes_is_python (v : Nat) : nbytes v = (bitLength v + 7) / 8 := nbytes_eq_bitlength v

/-- the proof-of-work clause in the property's own words: accepted exactly when the compact value has
    its sign bit clear and denotes (mantissa·256^(exponent−3), floor below 3) a positive target no
    greater than the chain's limit that the little-endian hash does not exceed.  ("Non-overflowing" is
    subsumed: a target ≤ limit < 2²⁵⁶ fits 256 bits.) -/
theorem pow_iff_target (limit : Nat) (hash : Bytes) (hh : hash.length = 32) (bits : Nat) (hb : bits < 2 ^ 32) :
    Model.checkPoW limit hash bits = .ok ↔
      (bits / 2 ^ 23) % 2 = 0 ∧
      0 < Spec.decodeMantExp (bits % 2 ^ 23) (bits / 2 ^ 24) ∧
      Spec.decodeMantExp (bits % 2 ^ 23) (bits / 2 ^ 24) ≤ limit ∧
      leNat hash ≤ Spec.decodeMantExp (bits % 2 ^ 23) (bits / 2 ^ 24) := by
  have htake : hash.take 32 = hash := by rw [← hh]; exact List.take_length
  have hlen : ¬ (hash.length < 32) := by omega
  by_cases hs : (bits / 2 ^ 23) % 2 = 1
  · have h0 : ¬ ((bits / 2 ^ 23) % 2 = 0) := by omega
    unfold Model.checkPoW
    simp only [hs, if_true]
    constructor
    · intro h; cases h
    · intro h; exact absurd h.1 (by decide)
  · have hs0 : (bits / 2 ^ 23) % 2 = 0 := by omega
    rw [← decode_spec bits hb hs0]
    unfold Model.checkPoW Model.uint256FromStr
    simp only [hs, if_false, hlen, htake, hs0, true_and]
    generalize Model.fromCompact bits = T
    generalize leNat hash = L
    by_cases h1 : 0 < T ∧ T ≤ limit
    · by_cases h2 : L > T
      · simp [h1, h2]
      · simp [h1, h2]; omega
    · simp [h1]; omega

/-! ### what "truncated" means quantitatively (Spec sanity + consequences for the model) -/

/-- truncation never rounds up … -/
theorem truncTop3_le (v : Nat) : Spec.truncTop3 v ≤ v := by
  unfold Spec.truncTop3
  simp only []
  split <;> split <;> first | exact Nat.le_refl _ | exact Nat.div_mul_le_self _ _

/-- … and drops less than one unit of the lowest kept byte (256^(nbytes−2) bounds both branches) -/
theorem truncTop3_close (v : Nat) : v - Spec.truncTop3 v < 256 ^ (nbytes v - 2) := by
  unfold Spec.truncTop3
  simp only []
  have hp2 : 0 < 256 ^ (nbytes v - 2) := Nat.pow_pos (by omega)
  have hp3 : 0 < 256 ^ (nbytes v - 3) := Nat.pow_pos (by omega)
  have hmono : 256 ^ (nbytes v - 3) ≤ 256 ^ (nbytes v - 2) := Nat.pow_le_pow_right (by omega) (by omega)
  split <;> split
  · omega
  · have := Nat.mod_lt v hp2
    have := Nat.div_add_mod v (256 ^ (nbytes v - 2))
    have := Nat.mul_comm (256 ^ (nbytes v - 2)) (v / 256 ^ (nbytes v - 2))
    omega
  · omega
  · have := Nat.mod_lt v hp3
    have := Nat.div_add_mod v (256 ^ (nbytes v - 3))
    have := Nat.mul_comm (256 ^ (nbytes v - 3)) (v / 256 ^ (nbytes v - 3))
    omega

/-- the decoded encoding of a 256-bit integer never exceeds the integer … -/
theorem decode_encode_le (v : Nat) (hv : v < 2 ^ 256) : Model.fromCompact (Model.toCompact v) ≤ v := by
  rw [decode_encode v hv]; exact truncTop3_le v

/-- … so a hash accepted against the encoded target is below the un-truncated integer as well -/
theorem pow_accept_below_value (limit : Nat) (hash : Bytes) (hh : hash.length = 32) (v : Nat) (hv : v < 2 ^ 256)
    (hok : Model.checkPoW limit hash (Model.toCompact v) = .ok) : leNat hash ≤ v := by
  have hle := decode_encode_le v hv
  unfold Model.checkPoW at hok
  simp only [Model.uint256FromStr, hh, Nat.lt_irrefl, if_false, List.take_of_length_le (Nat.le_of_eq hh)] at hok
  split at hok
  · exact absurd hok (by decide)
  · split at hok
    · exact absurd hok (by decide)
    · split at hok
      · exact absurd hok (by decide)
      · omega

/-- encoding is idempotent through decoding: re-encoding the decoded encoding changes nothing -/
theorem encode_decode_encode (v : Nat) (hv : v < 2 ^ 256) :
    Model.toCompact (Model.fromCompact (Model.toCompact v)) = Model.toCompact v :=
  encode_decode _ (toCompact_canonical v hv)

/-! ### non-vacuity: concrete values meeting the hypotheses -/

example : Spec.canonical 0x1d00ffff := by right; decide
example : Spec.canonical 0x207fffff := by right; decide
example : ¬ Spec.canonical 0x1c800001 := by
  intro h; rcases h with h | h
  · exact absurd h (by decide)
  · exact absurd h.2.2.2.1 (by decide)
/-- the reading of "three most significant bytes" fixed in DESIGN §6 C17 -/
example : Spec.truncTop3 0x80ffff = 0x80ff00 := by
  have h : nbytes 0x80ffff = 3 := nbytes_eq (k := 2) (by decide) (by decide)
  simp [Spec.truncTop3, h]
example : Model.fromCompact (Model.toCompact 0x80ffff) = 0x80ff00 := by
  have h : nbytes 0x80ffff = 3 := nbytes_eq (k := 2) (by decide) (by decide)
  simp [Model.toCompact, Model.fromCompact, h]
/-- D13: a compact value with the sign bit set is rejected whatever the hash -/
example (h : Bytes) : Model.checkPoW (2 ^ 255) h 0x1c800001 = .errPow := by
  simp [Model.checkPoW]

/-- the limit is compared on VALUES, not on compact words (round-9 seed C17r9): a non-canonical compact
    word numerically above the encoded limit still denotes a target below the limit and is accepted -/
example : Model.toCompact (2 ^ 224 - 1) < 0x1e000001 ∧
    Model.checkPoW (2 ^ 224 - 1) (List.replicate 32 0) 0x1e000001 = .ok := by
  have hn : nbytes (2 ^ 224 - 1) = 28 := nbytes_eq (k := 27) (by decide) (by decide)
  constructor
  · unfold Model.toCompact; rw [hn]; decide
  · decide

end BtcVerif.C17
