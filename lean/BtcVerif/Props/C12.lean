import BtcVerif.Model.Addr
namespace BtcVerif.C12
end BtcVerif.C12
