/-
  C12 — addresses map one-to-one to standard scripts, on the selected chain only.

  Statements use `Model.Addr.*` (mirror of bitcoin/__init__.py SelectParams and bitcoin/wallet.py) and
  `Spec.Addr.*` / `Spec.chainTable` (what the chain table prescribes; `ValidFor` = C10's check rule
  with the chain's version byte, or C11's BIP173 predicate with the chain's prefix).  `H` is
  bitcoin.core.Hash, `H160` is Hash160 — opaque; `hH` says the hash has at least four bytes.
  Helper lemmas live in Proofs/Addr{,Std,Text}.lean.
-/
import BtcVerif.Proofs.AddrText
import BtcVerif.Proofs.CryptoLen

namespace BtcVerif.C12
open BtcVerif BtcVerif.Spec BtcVerif.AddrProofs
open BtcVerif.Spec.Addr (AddrClass Addr ValidFor selected stdScript prescribedAddr prescribedVer prescribedText)
open BtcVerif.Model.Addr

/-! ### chain selection -/

/-- one `SelectParams(name)`: a chain name makes both globals ONE object holding that chain's
    parameters; any other name raises ValueError and leaves both unchanged -/
theorem select_step (st : ChainState) (name : String) :
    selectParams st name = match chainByName? name with
                           | some q => (⟨q, .full q⟩, none)
                           | none => (st, some .valueerr) := selectParams_eq st name

/-- after every history of `SelectParams` calls (valid and unknown names, any length) starting from
    the state `import bitcoin` leaves:
    * `bitcoin.params` — the only global wallet.py / bech32.py read — is the parameter record of the
      last chain named (mainnet if none was), and the core fields of `bitcoin.core.coreparams` are
      that chain's;
    * from the first successful call on, `bitcoin.core.coreparams` is the same object as
      `bitcoin.params`;
    * before it, `bitcoin.core.coreparams` is the core-only `CoreMainParams()` (no prefixes, no HRP,
      no magic). -/
theorem select_inv (history : List String) :
    (runHistory history).params = selected history ∧
    (runHistory history).coreparams.fields = Spec.Addr.coreFields (selected history) ∧
    ((∃ n ∈ history, (chainByName? n).isSome) →
        (runHistory history).coreparams = .full (selected history)) ∧
    ((∀ n ∈ history, chainByName? n = none) →
        (runHistory history).coreparams = .coreOnly (Spec.Addr.coreFields mainnet)) := by
  have h := foldl_select_from initState history
  have hsel : selFrom mainnet history = selected history := rfl
  unfold runHistory
  rw [h]
  by_cases hnil : history.filterMap chainByName? = []
  · have hall : ∀ n ∈ history, chainByName? n = none := by
      intro n hn
      cases hc : chainByName? n with
      | none => rfl
      | some q =>
        have : q ∈ history.filterMap chainByName? := List.mem_filterMap.2 ⟨n, hn, hc⟩
        rw [hnil] at this; cases this
    have hs : selected history = mainnet := by unfold selected; rw [hnil]; rfl
    rw [if_pos hnil, hs]
    refine ⟨rfl, rfl, ?_, fun _ => rfl⟩
    rintro ⟨n, hn, hsome⟩
    rw [hall n hn] at hsome; cases hsome
  · rw [if_neg hnil]
    refine ⟨hsel, by rw [← hsel]; rfl, fun _ => by rw [← hsel]; rfl, ?_⟩
    intro hall
    exfalso; apply hnil
    rw [List.filterMap_eq_nil_iff]
    exact hall

/-- the selected parameters are always one of the four rows of the chain table -/
theorem selected_mem (history : List String) : selected history ∈ chainTable := by
  unfold selected
  cases h : (history.filterMap chainByName?).getLast? with
  | none => simp [chainTable]
  | some q =>
    have hm := List.mem_of_getLast? h
    obtain ⟨n, _, hn⟩ := List.mem_filterMap.1 hm
    exact chainByName_mem hn

/-! ### round trip of the four templates under the four chains -/

/-- for every chain of the table, every template and every payload of the template's length:
    script → address gives the class / version byte (witness version) / payload the table prescribes;
    its text is the prescribed text (Base58Check under the chain's version byte, BIP173 under the
    chain's prefix); text → address gives the same address; address → script gives the script back -/
theorem roundtrip (H H160 : Bytes → Bytes) (hH : ∀ x, 4 ≤ (H x).length) (chain : ChainParams)
    (hc : chain ∈ chainTable) (t : AddrClass) (payload : Bytes) (hlen : payload.length = t.payloadLen) :
    fromScript H160 chain (stdScript t payload) = .ok (prescribedAddr chain t payload) ∧
    ∃ text, toText H chain (prescribedAddr chain t payload) = .ok text ∧
      prescribedText H chain t payload = some text ∧
      parse H chain text = .ok (prescribedAddr chain t payload) ∧
      toScript chain (prescribedAddr chain t payload) = .ok (stdScript t payload) := by
  obtain ⟨hpk, hsc, hne⟩ := chain_versions chain hc
  have hpk256 : chain.pubkeyAddr < 256 := by omega
  have hsc256 : chain.scriptAddr < 256 := by omega
  have hts := toScript_std chain t payload hlen
  cases t with
  | p2wpkh =>
    refine ⟨fromScript_p2wpkh H160 chain payload hlen, ?_⟩
    obtain ⟨text, h1, h2, h3⟩ := segwit_text_roundtrip H chain hc .p2wpkh (Or.inl rfl) payload hlen
    exact ⟨text, h1, h2, h3, hts⟩
  | p2wsh =>
    refine ⟨fromScript_p2wsh H160 chain payload hlen, ?_⟩
    obtain ⟨text, h1, h2, h3⟩ := segwit_text_roundtrip H chain hc .p2wsh (Or.inr rfl) payload hlen
    exact ⟨text, h1, h2, h3, hts⟩
  | p2pkh =>
    refine ⟨fromScript_p2pkh H160 chain payload hlen hpk256 hne, ?_⟩
    obtain ⟨hv, hvn⟩ := tableVersion_cases chain hc .p2pkh (Or.inl rfl)
    simp only [prescribedVer] at hv hvn
    refine ⟨Base58.checkEnc H (UInt8.ofNat chain.pubkeyAddr) payload, ?_, rfl, ?_, hts⟩
    · simp [toText, prescribedAddr, prescribedVer, hpk256, str_eq_checkEnc]
    · rw [parse_checkEnc H hH chain hc _ payload hlen hv]
      simp only [classify, hvn, hne, if_false, if_true, prescribedAddr, prescribedVer]
  | p2sh =>
    refine ⟨fromScript_p2sh H160 chain payload hlen hsc256, ?_⟩
    obtain ⟨hv, hvn⟩ := tableVersion_cases chain hc .p2sh (Or.inr rfl)
    simp only [prescribedVer] at hv hvn
    refine ⟨Base58.checkEnc H (UInt8.ofNat chain.scriptAddr) payload, ?_, rfl, ?_, hts⟩
    · simp [toText, prescribedAddr, prescribedVer, hsc256, str_eq_checkEnc]
    · rw [parse_checkEnc H hH chain hc _ payload hlen hv]
      simp only [classify, hvn, if_true, prescribedAddr, prescribedVer]

/-- the same after any sequence of chain selections: the conversions use the parameters of the last
    chain selected -/
theorem roundtrip_after_history (H H160 : Bytes → Bytes) (hH : ∀ x, 4 ≤ (H x).length)
    (history : List String) (t : AddrClass) (payload : Bytes) (hlen : payload.length = t.payloadLen) :
    let chain := (runHistory history).params
    chain = selected history ∧
    fromScript H160 chain (stdScript t payload) = .ok (prescribedAddr chain t payload) ∧
    ∃ text, toText H chain (prescribedAddr chain t payload) = .ok text ∧
      prescribedText H chain t payload = some text ∧
      parse H chain text = .ok (prescribedAddr chain t payload) ∧
      toScript chain (prescribedAddr chain t payload) = .ok (stdScript t payload) := by
  have hs := (select_inv history).1
  refine ⟨hs, ?_⟩
  have hc : (runHistory history).params ∈ chainTable := by rw [hs]; exact selected_mem history
  exact roundtrip H H160 hH _ hc t payload hlen

/-! ### variants accepted by the P2PKH converter -/

/-- non-canonical pushes: any script whose canonical re-encoding (`CScript(tuple(script))`) is the
    standard P2PKH script of `payload` is read by the P2PKH converter as the prescribed P2PKH address -/
theorem noncanonical_p2pkh (H160 : Bytes → Bytes) (chain : ChainParams) (hc : chain ∈ chainTable)
    (spk payload : Bytes) (hlen : payload.length = 20) (bare : Bool)
    (hcanon : canonicalize spk = .ok (stdScript .p2pkh payload)) :
    p2pkhFromScript H160 chain spk true bare = .ok (prescribedAddr chain .p2pkh payload) := by
  obtain ⟨hpk, _, hne⟩ := chain_versions chain hc
  exact p2pkhFromScript_of_canon H160 chain spk payload hlen (by omega) hne bare hcanon

/-- bare-pubkey scripts `<pubkey> CHECKSIG` with a 33- or 65-byte key (any bytes): the P2PKH converter
    gives the P2PKH address of the hash160 of the WHOLE pushed key under the chain's version byte.
    (D18: the shipped code hashes only 64 of the 65 bytes of an uncompressed key — pinned by
    test_wallet.py, known finding; the model states the property-conforming behaviour.) -/
theorem bare_pubkey (H160 : Bytes → Bytes) (chain : ChainParams) (hc : chain ∈ chainTable)
    (pubkey : Bytes) (hl : pubkey.length = 33 ∨ pubkey.length = 65) :
    p2pkhFromScript H160 chain (Spec.Addr.barePubkeyScript pubkey) true true =
      .ok (Spec.Addr.barePubkeyAddr H160 chain pubkey) := by
  obtain ⟨hpk, _, hne⟩ := chain_versions chain hc
  exact p2pkhFromScript_barePubkey H160 chain pubkey hl (by omega) hne

/-- the same through the public dispatcher `CBitcoinAddress.from_scriptPubKey` -/
theorem bare_pubkey_dispatch (H160 : Bytes → Bytes) (chain : ChainParams) (hc : chain ∈ chainTable)
    (pubkey : Bytes) (hl : pubkey.length = 33 ∨ pubkey.length = 65) :
    fromScript H160 chain (Spec.Addr.barePubkeyScript pubkey) =
      .ok (Spec.Addr.barePubkeyAddr H160 chain pubkey) := by
  obtain ⟨hpk, _, hne⟩ := chain_versions chain hc
  exact fromScript_barePubkey H160 chain pubkey hl (by omega) hne

/-- with `accept_bare_checksig=False` a bare-pubkey script is refused with the address error -/
theorem bare_pubkey_flag_off (H160 : Bytes → Bytes) (chain : ChainParams) (pubkey : Bytes)
    (hl : pubkey.length = 33 ∨ pubkey.length = 65) :
    p2pkhFromScript H160 chain (Spec.Addr.barePubkeyScript pubkey) true false = .error .addrerr :=
  p2pkhFromScript_barePubkey_off H160 chain pubkey hl

/-! ### refusal -/

/-- `CBitcoinAddress(s)` on an arbitrary string under an arbitrary chain record: either an address
    that `s` validly denotes for that chain, or CBitcoinAddressError — no other outcome (no
    AssertionError, IndexError, ValueError, Bech32Error or Base58Error escapes) -/
theorem refuse_total (H : Bytes → Bytes) (chain : ChainParams) (s : List Char) :
    (∃ a, parse H chain s = .ok a ∧ ValidFor H chain a s) ∨ parse H chain s = .error .addrerr := by
  unfold parse
  rcases bech32New_cases chain s with ⟨a, ha, _, hv⟩ | ⟨h, _⟩ | ⟨h, _⟩
  · left; exact ⟨a, by rw [ha], hv H⟩
  · rw [h]
    rcases base58New_cases H chain s with ⟨a, ha, _, hv⟩ | h' | h' | h'
    · left; exact ⟨a, by rw [ha], hv⟩
    · right; rw [h']
    · right; rw [h']
    · right; rw [h']
  · right; rw [h]

/-- a valid segwit address of the chain with a witness version other than 0 is refused with the
    address error (D9: the shipped code fails an `assert` here) -/
theorem unsupported_witver_refused (H : Bytes → Bytes) (chain : ChainParams) (s : List Char) (v : Nat)
    (p : List Nat) (hd : Bech32.Decodes chain.bech32Hrp.toList s v p) (hv : v ≠ 0) :
    parse H chain s = .error .addrerr := by
  have := (BtcVerif.Bech32.decodeR_iff _ _ _ _).2 hd
  simp [parse, bech32New, this, bech32FromBytes, hv]

/-- base58: the address text of chain `A` (P2PKH or P2SH, 20-byte payload) is refused under any chain
    `B` neither of whose version bytes is `A`'s — unconditionally -/
theorem cross_chain_refused_base58 (H : Bytes → Bytes) (hH : ∀ x, 4 ≤ (H x).length) (A B : ChainParams)
    (hA : A ∈ chainTable) (hB : B ∈ chainTable) (t : AddrClass) (ht : t = .p2pkh ∨ t = .p2sh)
    (payload : Bytes) (hlen : payload.length = 20)
    (hdiff : prescribedVer A t ≠ B.pubkeyAddr ∧ prescribedVer A t ≠ B.scriptAddr) :
    ∃ text, prescribedText H A t payload = some text ∧ parse H B text = .error .addrerr := by
  obtain ⟨hv, hvn⟩ := tableVersion_cases A hA t ht
  refine ⟨Base58.checkEnc H (UInt8.ofNat (prescribedVer A t)) payload, ?_, ?_⟩
  · rcases ht with rfl | rfl <;> rfl
  · rw [parse_checkEnc H hH B hB _ payload hlen hv]
    simp only [classify, hvn, hdiff.1, hdiff.2, if_false]

/-- bech32: a valid segwit address of chain `A` is refused by the bech32 reader of a chain `B` with a
    different prefix; the base58 re-reading refuses it as well unless the text happens to be a valid
    Base58Check string (32-bit checksum) — explicit hypothesis `hnc` -/
theorem cross_chain_refused_bech32 (H : Bytes → Bytes) (A B : ChainParams) (hA : A ∈ chainTable)
    (hB : B ∈ chainTable) (hne : A.bech32Hrp ≠ B.bech32Hrp) (s : List Char) (v : Nat) (p : List Nat)
    (hd : Bech32.Decodes A.bech32Hrp.toList s v p)
    (hnc : ¬ ∃ v' p' k, Base58.dec s = some k ∧ Base58.CheckRule H v' p' k) :
    bech32New B s = .error .bech32err ∧ parse H B s = .error .addrerr := by
  have hb := bech32New_other_chain A B hA hB hne s v p hd
  refine ⟨hb, ?_⟩
  unfold parse
  rw [hb]
  rcases base58New_cases H B s with ⟨a, _, hcls, hv⟩ | h' | h' | h'
  · exfalso
    rcases hcls with h | h <;> simp only [ValidFor, h] at hv <;>
      exact hnc ⟨_, _, hv.2.2⟩
  · rw [h']
  · rw [h']
  · rw [h']

/-- the hypothesis `hnc` of `cross_chain_refused_bech32` holds whenever the text has a character
    outside the base58 alphabet (`0`, `l`, … — most segwit addresses have one) -/
theorem hnc_of_nonbase58_char (H : Bytes → Bytes) (s : List Char)
    (hch : ∃ c ∈ s, c ∉ Spec.Base58.alphabetChars) :
    ¬ ∃ v' p' k, Base58.dec s = some k ∧ Base58.CheckRule H v' p' k := by
  rintro ⟨_, _, k, hd, _⟩
  have herr := (C10.decode_invalid_char s).2 hch
  rw [C10.decode_eq_spec, hd] at herr
  cases herr

/-- hence: a valid segwit address of chain `A` that contains such a character is refused under every
    chain `B` with a different prefix — unconditionally -/
theorem cross_chain_refused_bech32_of_char (H : Bytes → Bytes) (A B : ChainParams) (hA : A ∈ chainTable)
    (hB : B ∈ chainTable) (hne : A.bech32Hrp ≠ B.bech32Hrp) (s : List Char) (v : Nat) (p : List Nat)
    (hd : Bech32.Decodes A.bech32Hrp.toList s v p) (hch : ∃ c ∈ s, c ∉ Spec.Base58.alphabetChars) :
    parse H B s = .error .addrerr :=
  (cross_chain_refused_bech32 H A B hA hB hne s v p hd (hnc_of_nonbase58_char H s hch)).2

/-! ### the same for the real hash (SHA-256d, `Crypto.hash256_length`) -/

theorem hash256_ge4 (x : Bytes) : 4 ≤ (Crypto.hash256 x).length := by
  rw [Crypto.hash256_length]; omega

/-- `roundtrip_after_history` with `H` = SHA-256d: no hypothesis on the hash is left -/
theorem roundtrip_sha256d (H160 : Bytes → Bytes) (history : List String) (t : AddrClass) (payload : Bytes)
    (hlen : payload.length = t.payloadLen) :
    let chain := (runHistory history).params
    chain = selected history ∧
    fromScript H160 chain (stdScript t payload) = .ok (prescribedAddr chain t payload) ∧
    ∃ text, toText Crypto.hash256 chain (prescribedAddr chain t payload) = .ok text ∧
      prescribedText Crypto.hash256 chain t payload = some text ∧
      parse Crypto.hash256 chain text = .ok (prescribedAddr chain t payload) ∧
      toScript chain (prescribedAddr chain t payload) = .ok (stdScript t payload) :=
  roundtrip_after_history Crypto.hash256 H160 hash256_ge4 history t payload hlen

/-- `cross_chain_refused_base58` with `H` = SHA-256d -/
theorem cross_chain_refused_base58_sha256d (A B : ChainParams) (hA : A ∈ chainTable) (hB : B ∈ chainTable)
    (t : AddrClass) (ht : t = .p2pkh ∨ t = .p2sh) (payload : Bytes) (hlen : payload.length = 20)
    (hdiff : prescribedVer A t ≠ B.pubkeyAddr ∧ prescribedVer A t ≠ B.scriptAddr) :
    ∃ text, prescribedText Crypto.hash256 A t payload = some text ∧
      parse Crypto.hash256 B text = .error .addrerr :=
  cross_chain_refused_base58 Crypto.hash256 hash256_ge4 A B hA hB t ht payload hlen hdiff

/-! ### non-vacuity -/

-- the table has the four chains and their prefixes differ as the cross-chain theorems need
example : mainnet ∈ chainTable ∧ regtest ∈ chainTable ∧ mainnet.bech32Hrp ≠ regtest.bech32Hrp := by decide
example : prescribedVer mainnet .p2pkh ≠ testnet.pubkeyAddr ∧ prescribedVer mainnet .p2pkh ≠ testnet.scriptAddr := by
  decide
-- a history with unknown names
example : selected ["testnet", "foo", "regtest", "bar"] = regtest := by decide
example : (List.replicate 20 (0xab : UInt8)).length = AddrClass.p2pkh.payloadLen := by decide
-- the fresh-import state: params is mainnet, coreparams the core-only object
example : runHistory [] = ⟨mainnet, .coreOnly (Spec.Addr.coreFields mainnet)⟩ := rfl
example : (runHistory ["foo", "signet"]).coreparams = .full signet := by decide
example : (List.replicate 65 (4 : UInt8)).length = 33 ∨ (List.replicate 65 (4 : UInt8)).length = 65 := by decide
-- the character hypothesis of `cross_chain_refused_bech32_of_char`: BIP173's first vector contains '0'
example : ∃ c ∈ "bc1qw508d6qejxtdg4y5r3zarvary0c5xw7kv8f3t4".toList, c ∉ Spec.Base58.alphabetChars :=
  ⟨'0', by decide, by decide⟩
-- `hH` is satisfiable
example : ∀ x : Bytes, 4 ≤ ((fun _ => [1, 2, 3, 4]) x : Bytes).length := by intro _; simp

end BtcVerif.C12
