/-
  C09 — value semantics: property theorems (see Proofs/Heap*.lean for the helper lemmas).
-/
import BtcVerif.Model.Heap

namespace BtcVerif.C09

end BtcVerif.C09
