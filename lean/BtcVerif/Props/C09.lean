/-
  C09 — value semantics: immutables never change, mutables never serve stale identity.

  `Model.Heap` is the reference-semantics model of the classes (object graph on a heap, `from_*`
  constructors, cache slots, `RawSignatureHash` executed on the heap); `Spec.ValueSem` is the
  value-semantics reference (a store of plain values, no sharing, no cache).  The invariant and all
  helper lemmas live in Proofs/Heap*.lean; this file states the property theorems.

  `Inv s` (Proofs/HeapInv.lean) is the conjunction of
    (i)   `immClosed` — an immutable object refers to immutable objects only, hence (`immutable_reach`)
          everything reachable from an immutable-class object is immutable-class;
    (ii)  `cacheOK`   — every filled `_cached_GetHash` / `_cached__hash__` slot of an immutable object
          equals the identifier recomputed from the current serialisation;
    (iii) `sep`       — no mutable object is reachable from two named roots (nor twice from one);
    and well-formedness: `kindOK` (classes without mutable variant are immutable), `roots` (every name
    denotes a well-typed object graph whose flags are the ones the value level predicts), `defaults`
    (the shared default-argument objects are intact).

  **What the refinement theorems do and do not say (audit F3).**  `Model.Heap` and `Spec.ValueSem`
  deliberately share the following terms, so that a refinement statement is about *state* only:
    `serVal` (= `Model.Wire.ser*`), `identOf` (GetHash = SHA-256d of the serialisation / of the header),
    `txidOf` (GetTxid), `pyHashOf`/`pyHashBytes` (Python `hash()` as an opaque function of the bytes,
    here the identity), `eqVals` (`__eq__`: class relation, reflected order), `validTx`/`validCtor`
    (constructor range checks), `newBlockHdr`/`newBlockVal`/`merkleRoot` (the checks of
    `CBlock.__init__`), `Field.apply` vs `applySc` (same field table), and — for the aliasing
    catalogue — `Scalars`/`assemble`.
  Consequently `refines_value_spec` (and `refines_alias_spec`, stated below as UNPROVED and tied by T2) can only rule out aliasing, caching and
  mutability-class errors: "the heap, with its sharing, its cache slots and its two class variants,
  always answers as if every object were recomputed from its current field values".  The *content* of
  serialisation, identifiers and `==` is the business of C01/C02 (`Model.Wire`, `Model.Ident`), the
  constructor checks of C16, the merkle root of C15; the digest of `RawSignatureHash` of C03.
  The bridge to C02's class clause is `heap_ident_eq_value` below; the bridge of the heap `rawSigHash` digest to
  `Model.Sighash` is `rawSigHash_eq_sighash_model` (UNPROVED, `…_partial` + T2 tie, at the end of the file).

  **Finding D23 (audit 2, N4).**  The first sentence of C09 has no catalogue restriction: an object of an
  immutable class whose content can change violates it.  The model is therefore property-conforming for the
  constructors of the immutable classes — `CTxWitness(vtxinwit)` / `CScriptWitness(stack)` hold tuples,
  `CTxIn(prevout, …)` an immutable copy of the outpoint — and `InvX` has no exception: everything reachable
  from an immutable-class object is immutable (`immutable_reach_ext`, `immutable_reach_reachable_ext`,
  `witness_list_edit_rejected_ext`, `witness_stack_edit_rejected_ext`).  /repo before
  fixes/D23-immutables-freeze-constructor-arguments.patch stores the caller's list / mutable outpoint; the check
  reports it (signature `D23-immutable-holds-mutable-part`, corpus/C09/D23-immutable-holds-mutable-part.json).
-/
import BtcVerif.Proofs.HeapAll
import BtcVerif.Proofs.ValueFrame
import BtcVerif.Proofs.HeapX8
import BtcVerif.Model.Sighash

namespace BtcVerif.C09
open BtcVerif BtcVerif.Model.Heap BtcVerif.Spec.ValueSem BtcVerif.Spec.AliasSem

/-- the initial heap (only the shared default arguments) satisfies the invariant -/
theorem inv_init : Inv Model.Heap.init := inv_init'

/-- every operation of the catalogue preserves the invariant -/
theorem inv_step {s : St} (hinv : Inv s) (op : Op) : Inv (Model.Heap.step s op).1 :=
  (sim_all hinv (rel_denote hinv) op).1

/-- the invariant holds after every history -/
theorem inv_reachable (ops : List Op) : Inv (Model.Heap.run Model.Heap.init ops).1 :=
  (run_sim ops inv_init' rel_init').1

/-- **refinement**: whatever a history lets the caller observe — returned bytes (serialisation,
    `GetHash`, `GetTxid`, `hash()`), results of `==`, exceptions, created/not created — is what the
    same history yields on plain values without sharing and without caches -/
theorem refines_value_spec (ops : List Op) :
    (Model.Heap.run Model.Heap.init ops).2 = (Spec.ValueSem.run Spec.ValueSem.init ops).2 :=
  (run_sim ops inv_init' rel_init').2.2

/-- the same from any state satisfying the invariant, against any related store -/
theorem refines_from {s : St} {sp : Store} (hinv : Inv s) (hrel : Rel s sp) (ops : List Op) :
    (Model.Heap.run s ops).2 = (Spec.ValueSem.run sp ops).2 :=
  (run_sim ops hinv hrel).2.2

/-- one step: outputs agree and the states stay related -/
theorem step_refines {s : St} {sp : Store} (hinv : Inv s) (hrel : Rel s sp) (op : Op) :
    Rel (Model.Heap.step s op).1 (Spec.ValueSem.step sp op).1 ∧
      (Model.Heap.step s op).2 = (Spec.ValueSem.step sp op).2 :=
  (sim_all hinv hrel op).2

/-- (i) everything reachable from an immutable-class object is immutable-class -/
theorem immutable_reach {s : St} (hinv : Inv s) {f : Nat} {a : Addr} {t : ATree}
    (hu : unfoldA f s.heap a = some t) (hm : t.isMut = false) :
    ∀ x ∈ addrs t, ∃ ox : Obj, s.heap[x]? = some ox ∧ ox.isMut = false :=
  imm_reach hinv.immClosed hu hm

/-- (ii) a filled `_cached_GetHash` equals the identifier recomputed from the current field values,
    and a filled `_cached__hash__` the hash of the current serialisation -/
theorem cache_correct {s : St} (hinv : Inv s) {a : Addr} {o : Obj} (ho : s.heap[a]? = some o)
    (hm : o.isMut = false) :
    (∀ c, o.cHash = some c → ∃ v, absVal s.heap a = some v ∧ identOf v = .ok c) ∧
    (∀ c, o.cPy = some c → ∃ v, absVal s.heap a = some v ∧ pyHashOf v = .ok c) :=
  hinv.cacheOK a o ho hm

/-- (iii) a mutable object in the mutable part of one named root does not occur below another name -/
theorem no_shared_mutable {s : St} (hinv : Inv s) {r r' : Nat} {a b : Addr} {ta tb : ATree} (hrr : r ≠ r')
    (hr : s.root r = some a) (hr' : s.root r' = some b) (ha : unfoldA D s.heap a = some ta)
    (hb : unfoldA D s.heap b = some tb) {x : Addr} {ox : Obj} (hox : s.heap[x]? = some ox)
    (hmx : ox.isMut = true) (hx : 1 ≤ cnt x ta) : x ∉ addrs tb := by
  have h2 := total_two (h := s.heap) (y := x) hrr (root_mem hr) (root_mem hr')
  have e1 : nameCnt s.heap x (some a) = cnt x ta := by simp [nameCnt, cntAt, ha]
  have e2 : nameCnt s.heap x (some b) = cnt x tb := by simp [nameCnt, cntAt, hb]
  rw [e1, e2] at h2
  have := hinv.sep x
  exact not_mem_of_cnt_zero hinv.immClosed hox hmx hb (by omega)

/-- **bridge to C02** (audit, C02 §5): in a state satisfying the invariant, `GetHash()` of the object
    at any address — instance of a mutable or of an immutable class, cache slot filled or empty —
    returns the identifier of the value the object currently has -/
theorem heap_ident_eq_value {s : St} (hinv : Inv s) {a : Addr} {v : Val} (h : absVal s.heap a = some v) :
    ∃ h', getHashAt s.heap a = some (h', identOf v) := by
  have ho : ∃ o : Obj, s.heap[a]? = some o := by
    simp only [absVal] at h
    cases hu : unfoldA D s.heap a with
    | none => simp [hu] at h
    | some t =>
      rw [D_eq] at hu
      obtain ⟨o, _, ho, _, _⟩ := unfoldA_succ hu
      exact ⟨o, ho⟩
  obtain ⟨o, ho⟩ := ho
  simp only [getHashAt, ho, h, Option.bind_eq_bind, Option.bind_some]
  by_cases hm : o.isMut = true
  · exact ⟨s.heap, by simp [hm]⟩
  · have hm' : o.isMut = false := by simpa using hm
    simp only [hm', Bool.false_eq_true, if_false]
    cases hc : o.cHash with
    | some c =>
      obtain ⟨v', hv', hi⟩ := (hinv.cacheOK a o ho hm').1 c hc
      rw [h] at hv'; cases hv'
      exact ⟨s.heap, by simp [hi]⟩
    | none =>
      cases hid : identOf v with
      | ok c => exact ⟨_, rfl⟩
      | error e => exact ⟨_, rfl⟩

/-- the same for Python `hash()` -/
theorem heap_pyhash_eq_value {s : St} (hinv : Inv s) {a : Addr} {v : Val} (h : absVal s.heap a = some v) :
    ∃ h', pyHashAt s.heap a = some (h', pyHashOf v) := by
  have ho : ∃ o : Obj, s.heap[a]? = some o := by
    simp only [absVal] at h
    cases hu : unfoldA D s.heap a with
    | none => simp [hu] at h
    | some t =>
      rw [D_eq] at hu
      obtain ⟨o, _, ho, _, _⟩ := unfoldA_succ hu
      exact ⟨o, ho⟩
  obtain ⟨o, ho⟩ := ho
  simp only [pyHashAt, ho, h, Option.bind_eq_bind, Option.bind_some]
  by_cases hm : o.isMut = true
  · exact ⟨s.heap, by simp [hm]⟩
  · have hm' : o.isMut = false := by simpa using hm
    simp only [hm', Bool.false_eq_true, if_false]
    cases hc : o.cPy with
    | some c =>
      obtain ⟨v', hv', hi⟩ := (hinv.cacheOK a o ho hm').2 c hc
      rw [h] at hv'; cases hv'
      exact ⟨s.heap, by simp [hi]⟩
    | none =>
      cases hid : pyHashOf v with
      | ok c => exact ⟨_, rfl⟩
      | error e => exact ⟨_, rfl⟩

/-- assigning an attribute of an instance of an immutable class raises `AttributeError` and
    changes nothing -/
theorem immutable_setattr_rejected (s : St) (t : Target) (f : Field) {x : Addr} {o : Obj}
    (ht : s.target t = some x) (ho : s.heap[x]? = some o) (hm : o.isMut = false) (hs : o.sc.isSeq = false) :
    Model.Heap.step s (.assign t f) = (s.skip, .err attributeError) := by
  simp [Model.Heap.step, ht, ho, hs, assignAt, hm]

/-- deleting an attribute of an instance of an immutable class raises `AttributeError` -/
theorem immutable_delattr_rejected (s : St) (t : Target) {x : Addr} {o : Obj}
    (ht : s.target t = some x) (ho : s.heap[x]? = some o) (hm : o.isMut = false) (hs : o.sc.isSeq = false) :
    Model.Heap.step s (.delAttr t) = (s.skip, .err attributeError) := by
  simp [Model.Heap.step, ht, ho, hs, hm]

/-- `RawSignatureHash(script, tx, inIdx, hashtype)` leaves every existing object exactly as it was
    (slots, references and caches): the heap only grows by the private copy and what the surgery
    allocates, and no name is bound -/
theorem sighash_preserves_heap {s : St} (hinv : Inv s) (r : Nat) (sub : Bytes) (i ht : Nat) :
    ∃ e, (Model.Heap.step s (.sighash r sub i ht)).1.heap = s.heap ++ e ∧
      (Model.Heap.step s (.sighash r sub i ht)).1.names = s.names ++ [none] := by
  cases hr : s.root r with
  | none => simp only [Model.Heap.step, hr]; exact ⟨[], by simp [St.skip, St.bind], rfl⟩
  | some a =>
    cases habs : absVal s.heap a with
    | none => simp only [Model.Heap.step, hr, habs]; exact ⟨[], by simp [St.skip, St.bind], rfl⟩
    | some v =>
      cases v with
      | tx tv =>
        obtain ⟨h', d, es, g⟩ := rawSigHash_ok hinv habs sub i ht
        obtain ⟨⟨e, he, _⟩, _⟩ := g
        simp only [Model.Heap.step, hr, habs, es]
        exact ⟨e, he, rfl⟩
      | _ => simp only [Model.Heap.step, hr, habs]; exact ⟨[], by simp [St.skip, St.bind], rfl⟩

/-- `VerifyScript(scriptSig, scriptPubKey, tx, inIdx, flags)` — which touches `tx` only through
    `RawSignatureHash`, any number of times, with any scripts and hash types — leaves every existing
    object exactly as it was -/
theorem verify_preserves_heap {s : St} (hinv : Inv s) (r i : Nat) (calls : List (Bytes × Nat)) :
    ∃ e, (Model.Heap.step s (.verify r i calls)).1.heap = s.heap ++ e ∧
      (Model.Heap.step s (.verify r i calls)).1.names = s.names ++ [none] := by
  cases hr : s.root r with
  | none => simp only [Model.Heap.step, hr]; exact ⟨[], by simp [St.skip, St.bind], rfl⟩
  | some a =>
    cases habs : absVal s.heap a with
    | none => simp only [Model.Heap.step, hr, habs]; exact ⟨[], by simp [St.skip, St.bind], rfl⟩
    | some v =>
      cases v with
      | tx tv =>
        have gself : Good s.heap s.heap := ⟨⟨[], by simp, by simp⟩, hinv.immClosed⟩
        obtain ⟨h', es, g⟩ := rawSigHashes_ok hinv i calls s.heap gself habs
        obtain ⟨⟨e, he, _⟩, _⟩ := g
        simp only [Model.Heap.step, hr, habs, es]
        exact ⟨e, he, rfl⟩
      | _ => simp only [Model.Heap.step, hr, habs]; exact ⟨[], by simp [St.skip, St.bind], rfl⟩

/-- … in particular the value, the class and the cache slots of every object are the same after
    the call as before -/
theorem sighash_keeps_objects {s : St} (hinv : Inv s) (r : Nat) (sub : Bytes) (i ht : Nat) {x : Addr} {o : Obj}
    (ho : s.heap[x]? = some o) : (Model.Heap.step s (.sighash r sub i ht)).1.heap[x]? = some o := by
  obtain ⟨e, he, _⟩ := sighash_preserves_heap hinv r sub i ht
  rw [he]; exact getElem?_append_of_some e ho

theorem verify_keeps_objects {s : St} (hinv : Inv s) (r i : Nat) (calls : List (Bytes × Nat)) {x : Addr} {o : Obj}
    (ho : s.heap[x]? = some o) : (Model.Heap.step s (.verify r i calls)).1.heap[x]? = some o := by
  obtain ⟨e, he, _⟩ := verify_preserves_heap hinv r i calls
  rw [he]; exact getElem?_append_of_some e ho

/-- the class (mutable / immutable variant) and the current value of the object at any target are
    the ones the value store predicts -/
theorem target_refines {s : St} {sp : Store} (hinv : Inv s) (hrel : Rel s sp) {t : Target} {x : Addr}
    (ht : s.target t = some x) :
    ∃ (o : Obj) (v : Val), s.heap[x]? = some o ∧ absVal s.heap x = some v ∧ lookup sp t = some (o.isMut, v) := by
  obtain ⟨I⟩ := target_some hinv hrel ht
  exact ⟨I.o, I.vx, I.ho, I.habs, by rw [← I.hom]; exact I.hlook⟩

/-- a target that does not resolve on the heap does not exist on the value store either -/
theorem target_refines_none {s : St} {sp : Store} (hinv : Inv s) (hrel : Rel s sp) {t : Target}
    (ht : s.target t = none) : lookup sp t = none := target_none hinv hrel ht

/-! ### what the refinement means for copies -/

/-- on plain values, one step changes the entry of a name only if it is the mutable root the
    operation edits (`Op.edits`): immutable entries never change, and an edit of one object never
    changes another -/
theorem value_frame (sp : Store) (op : Op) {r : Nat} {e : Entry} (h : (sp[r]?).join = some e) :
    (((Spec.ValueSem.step sp op).1[r]?).join = some e) ∨ (op.edits = some r ∧ e.isMut = true) :=
  step_frame sp op h

theorem value_frame_run : ∀ (ops : List Op) (sp : Store) {r : Nat} {e : Entry}, (sp[r]?).join = some e →
    (∀ op ∈ ops, op.edits = some r → e.isMut = false) → (((Spec.ValueSem.run sp ops).1[r]?).join = some e)
  | [], sp, r, e, h, _ => h
  | op :: ops, sp, r, e, h, hops => by
    simp only [Spec.ValueSem.run]
    rcases step_frame sp op h with h1 | ⟨h1, h2⟩
    · exact value_frame_run ops _ h1 (fun op' hop' => hops op' (by simp [hop']))
    · have := hops op (by simp) h1
      rw [h2] at this; cases this

theorem spec_run_append (sp : Store) (a b : List Op) :
    Spec.ValueSem.run sp (a ++ b) =
      ((Spec.ValueSem.run (Spec.ValueSem.run sp a).1 b).1,
        (Spec.ValueSem.run sp a).2 ++ (Spec.ValueSem.run (Spec.ValueSem.run sp a).1 b).2) := by
  induction a generalizing sp with
  | nil => simp [Spec.ValueSem.run]
  | cons op a ih => simp [Spec.ValueSem.run, ih]

/-- **copies are independent** (heap model, any history): let name `r` denote, after the history
    `pre`, an object with value `v` (immutable snapshot, or mutable copy).  Whatever `post` does —
    edits of the object it was copied from, of other copies, signature hashing, script verification —
    as long as `post` does not edit `r` itself (an immutable `r` cannot be edited at all), serialising
    `r` afterwards yields the serialisation of `v`. -/
theorem copy_unaffected (pre post : List Op) {r : Nat} {e : Entry}
    (h : (((Spec.ValueSem.run Spec.ValueSem.init pre).1)[r]?).join = some e)
    (hpost : ∀ op ∈ post, op.edits = some r → e.isMut = false) (hs : e.val.isSeq = false) :
    (Model.Heap.run Model.Heap.init (pre ++ post ++ [.ser ⟨r, []⟩])).2.getLast? = some (.bytes (serVal e.val)) := by
  rw [refines_value_spec, List.append_assoc, spec_run_append, spec_run_append]
  have h2 := value_frame_run post _ h hpost
  simp only [Spec.ValueSem.run, Spec.ValueSem.step, observe, lookup, h2, Option.bind_eq_bind, Option.bind_some,
    Val.getM, hs]
  simp

/-! ### the extended catalogue: arguments may be REFERENCES to existing objects (audit F4)

  `Spec.AliasSem.OpX` adds to the catalogue `obj.attr = <existing object>`, `lst.append(<existing object>)`,
  `lst[i] = <existing object>`, `CMutableTransaction(<existing vin>, <existing vout>, …)`,
  `CMutableTxIn(<existing outpoint>, …)`, the `witness=None` constructor path, `CTxIn(<existing outpoint>, …)`
  and the edits of a witness's `vtxinwit` / `scriptWitness.stack` sequences.  After such steps objects
  legitimately share state, so separation is no longer a state invariant.  `InvX` (Proofs/HeapX1.lean)
  keeps what stays true of every reachable heap: (i') closure of immutability WITHOUT EXCEPTION — an
  immutable-class object refers to immutable objects only, never to a mutable object or a Python list
  (audit 2 / D23: the model is property-conforming, the constructors of the immutable classes freeze
  what they are given; /repo before the D23 repair stores the caller's list / mutable outpoint, which the
  check reports as a violation), (ii) correctness of every filled cache, classes, one-step typing of
  references, the shared default objects.
  Clause (iii) is restated as in DESIGN §6 — a property of the copy operations: `copy_fresh_ext`. -/

theorem inv_init_ext : InvX Model.Heap.init.heap := invx_init

/-- every operation of the extended catalogue preserves the invariant -/
theorem inv_step_ext {s : St} (hinv : InvX s.heap) (op : OpX) : InvX (Model.HeapX.stepX s op).1.heap :=
  invx_step hinv op

theorem inv_reachable_ext (ops : List OpX) : InvX (Model.HeapX.runX Model.Heap.init ops).1.heap :=
  invx_run ops invx_init

/-- (ii) under arbitrary user-made aliasing: a filled cache slot of an immutable object (outpoint,
    input, output, witness, transaction, header, block) equals the identifier recomputed from the
    object's current serialisation -/
theorem cache_correct_ext {h : Heap} (hinv : InvX h) {a : Addr} {o : Obj} (ho : h[a]? = some o)
    (hm : o.isMut = false) :
    (∀ c, o.cHash = some c → ∃ v, absVal h a = some v ∧ identOf v = .ok c) ∧
    (∀ c, o.cPy = some c → ∃ v, absVal h a = some v ∧ pyHashOf v = .ok c) :=
  hinv.cacheOK a o ho hm

/-- (i') everything reachable from an immutable object is immutable (no exception) -/
theorem immutable_reach_ext {h : Heap} (hinv : InvX h) {f : Nat} {a : Addr} {t : ATree} {o : Obj}
    (hu : unfoldA f h a = some t) (ho : h[a]? = some o) (hm : o.isMut = false) :
    ∀ x ∈ addrs t, ∃ ox : Obj, h[x]? = some ox ∧ ox.isMut = false :=
  imm_reachX hinv.immClosed hinv.kindOK hinv.typed hu (fun o' ho' => by rw [ho] at ho'; cases ho'; exact hm)

/-- **(iii) as in DESIGN §6**: no mutable object is reachable from two roots where one was created by
    a copy operation from the other.  After `CMutableX.from_x(src)` every writable object reachable
    from the copy was allocated by the copy operation (address beyond the old heap), and the old heap
    is untouched — whatever sharing the caller had set up before.  (For `CX.from_x`, the immutable
    snapshot, `immutable_reach_ext` says that nothing writable is reachable at all.) -/
theorem copy_fresh_ext {h : Heap} (hinv : InvX h) {a : Addr} {ta : ATree} {p : Plan}
    (hu : unfoldA D h a = some ta) (hp : planClone true D h a = some p) :
    InvX (allocPlan h p).1 ∧ (∃ e, (allocPlan h p).1 = h ++ e) ∧
    ∃ t', unfoldA D (allocPlan h p).1 (allocPlan h p).2 = some t' ∧
      ∀ (x : Addr) (ox : Obj), x ∈ addrs t' → (allocPlan h p).1[x]? = some ox → ox.isMut = true →
        h.length ≤ x :=
  copy_fresh hinv hu hp

/-- `RawSignatureHash` under arbitrary aliasing: every existing object is left exactly as it was -/
theorem sighash_preserves_heap_ext {s : St} (hinv : InvX s.heap) (r : Nat) (sub : Bytes) (i ht : Nat) :
    ∃ e, (Model.HeapX.stepX s (.base (.sighash r sub i ht))).1.heap = s.heap ++ e := by
  show ∃ e, (Model.Heap.step s (.sighash r sub i ht)).1.heap = s.heap ++ e
  simp only [Model.Heap.step]
  (repeat' split) <;> first
    | (rename_i hr; exact (rawSigHash_ext hinv hr).2)
    | exact ⟨[], (List.append_nil _).symm⟩

/-- `VerifyScript` (any number of `RawSignatureHash` calls) under arbitrary aliasing -/
theorem verify_preserves_heap_ext {s : St} (hinv : InvX s.heap) (r i : Nat) (calls : List (Bytes × Nat)) :
    ∃ e, (Model.HeapX.stepX s (.base (.verify r i calls))).1.heap = s.heap ++ e := by
  show ∃ e, (Model.Heap.step s (.verify r i calls)).1.heap = s.heap ++ e
  simp only [Model.Heap.step]
  (repeat' split) <;> first
    | (rename_i hr; exact (rawSigHashes_ext hinv calls hinv ⟨[], by simp⟩ hr).2)
    | exact ⟨[], (List.append_nil _).symm⟩

/-- `GetHash()` at any address of a heap satisfying `InvX` — mutable or immutable class, cache filled
    or not, shared or not — is the identifier of the object's current value -/
theorem heap_ident_eq_value_ext {h : Heap} (hinv : InvX h) {a : Addr} {o : Obj} {v : Val}
    (ho : h[a]? = some o) (hv : absVal h a = some v) : ∃ h', getHashAt h a = some (h', identOf v) := by
  simp only [getHashAt, ho, hv, Option.bind_eq_bind, Option.bind_some]
  by_cases hm : o.isMut = true
  · exact ⟨h, by simp [hm]⟩
  · have hm' : o.isMut = false := by simpa using hm
    simp only [hm', Bool.false_eq_true, if_false]
    cases hc : o.cHash with
    | some c =>
      obtain ⟨v', hv', hi⟩ := (hinv.cacheOK a o ho hm').1 c hc
      rw [hv] at hv'; cases hv'
      exact ⟨h, by simp [hi]⟩
    | none =>
      cases hid : identOf v with
      | ok c => exact ⟨_, rfl⟩
      | error e => exact ⟨_, rfl⟩

/-- storing a reference into an attribute of an instance of an immutable class raises `AttributeError` -/
theorem immutable_setref_rejected_ext (s : St) (t src : Target) (slot : Nat) {x y cur : Addr} {o : Obj}
    (ht : s.target t = some x) (hs : s.target src = some y) (ho : s.heap[x]? = some o)
    (hseq : o.sc.isSeq = false) (hcur : o.refs[slot]? = some cur)
    (hk : Model.HeapX.kindAt s.heap cur = Model.HeapX.kindAt s.heap y) (hm : o.isMut = false) :
    Model.HeapX.stepX s (.assignRef t slot src) = (s.skip, .err attributeError) := by
  simp [Model.HeapX.stepX, ht, hs, ho, hseq, hcur, hk, hm]

/-- **immutables never change** (extended catalogue, any aliasing): no operation changes the class,
    the value slots or the references of an immutable object — only its cache slots may be filled -/
theorem immutable_slots_stable_ext {s : St} (hinv : InvX s.heap) (op : OpX) {a : Addr} {o : Obj}
    (ho : s.heap[a]? = some o) (hm : o.isMut = false) :
    ∃ o' : Obj, (Model.HeapX.stepX s op).1.heap[a]? = some o' ∧ o'.isMut = false ∧ o'.sc = o.sc ∧ o'.refs = o.refs := by
  obtain ⟨o', ho', e1, e2, e3⟩ := (trx_step hinv op).keep a o ho hm
  exact ⟨o', ho', by rw [e1, hm], e2, e3⟩

/-- … hence **a snapshot is never affected**: the value (and so the serialisation, identifiers, hash,
    equality) of an immutable object is the same after any operation — edits through any alias of the
    object it was taken from, signature hashing, script verification, further copies … -/
theorem immutable_value_stable_ext {s : St} (hinv : InvX s.heap) (op : OpX) {a : Addr} {o : Obj} {v : Val}
    (ho : s.heap[a]? = some o) (hm : o.isMut = false) (hv : absVal s.heap a = some v) :
    absVal (Model.HeapX.stepX s op).1.heap a = some v := by
  simp only [absVal] at hv ⊢
  cases hu : unfoldA D s.heap a with
  | none => simp [hu] at hv
  | some t =>
    rw [unfoldA_keep hinv.immClosed hinv.kindOK hinv.typed (trx_step hinv op).keep hu
      (fun o' ho' => by rw [ho] at ho'; cases ho'; exact hm)]
    simpa [hu] using hv

/-- the same over any history -/
theorem immutable_value_stable_run_ext {s : St} (hinv : InvX s.heap) (ops : List OpX) {a : Addr} {o : Obj} {v : Val}
    (ho : s.heap[a]? = some o) (hm : o.isMut = false) (hv : absVal s.heap a = some v) :
    absVal (Model.HeapX.runX s ops).1.heap a = some v := by
  simp only [absVal] at hv ⊢
  cases hu : unfoldA D s.heap a with
  | none => simp [hu] at hv
  | some t =>
    rw [unfoldA_keep hinv.immClosed hinv.kindOK hinv.typed (trx_run ops hinv).keep hu
      (fun o' ho' => by rw [ho] at ho'; cases ho'; exact hm)]
    simpa [hu] using hv

/-- **identifiers reflect the current field values, shared ones included**: `GetHash()` on any target
    returns the identifier of the value obtained by walking the object graph as it is now -/
theorem getHash_reflects_value_ext {s : St} (hinv : InvX s.heap) (t : Target) {x : Addr} {o : Obj} {v : Val}
    (ht : s.target t = some x) (ho : s.heap[x]? = some o) (hv : absVal s.heap x = some v) (hs : o.sc.isSeq = false) :
    (Model.HeapX.stepX s (.base (.getHash t))).2 = .bytes (identOf v) := by
  obtain ⟨h', hg⟩ := heap_ident_eq_value_ext hinv ho hv
  show (Model.Heap.step s (.getHash t)).2 = _
  simp [Model.Heap.step, observeAt, ht, ho, hv, hs, hg]

/-- `serialize()` likewise (no cache is involved: this is the definition of the model) -/
theorem ser_reflects_value_ext (s : St) (t : Target) {x : Addr} {o : Obj} {v : Val}
    (ht : s.target t = some x) (ho : s.heap[x]? = some o) (hv : absVal s.heap x = some v) (hs : o.sc.isSeq = false) :
    (Model.HeapX.stepX s (.base (.ser t))).2 = .bytes (serVal v) := by
  show (Model.Heap.step s (.ser t)).2 = _
  simp [Model.Heap.step, observeAt, ht, ho, hv, hs]

/-- … in every heap the extended catalogue can reach: whatever the history (default witnesses, `CTxIn` built
    over a caller's mutable outpoint, user-made sharing of lists and objects), nothing mutable — no object of a
    mutable class, no Python list — is reachable from an object of an immutable class -/
theorem immutable_reach_reachable_ext (ops : List OpX) {f : Nat} {a : Addr} {t : ATree} {o : Obj}
    (hu : unfoldA f (Model.HeapX.runX Model.Heap.init ops).1.heap a = some t)
    (ho : (Model.HeapX.runX Model.Heap.init ops).1.heap[a]? = some o) (hm : o.isMut = false) :
    ∀ x ∈ addrs t, ∃ ox : Obj, (Model.HeapX.runX Model.Heap.init ops).1.heap[x]? = some ox ∧ ox.isMut = false :=
  immutable_reach_ext (inv_reachable_ext ops) hu ho hm

/-- `w.vtxinwit[i] = …` raises TypeError and `w.vtxinwit.append(…)` AttributeError for every `CTxWitness`
    object `w` (also the default one of `CMutableTransaction(vin, vout)`, also one built from a list): the
    sequence inside an immutable-class object is a tuple -/
theorem witness_list_edit_rejected_ext (s : St) (t : Target) (i : Option Nat) (st : WitStack) {x : Addr}
    (ht : s.target t = some x) (hk : Model.HeapX.kindAt s.heap x = some 4) :
    Model.HeapX.stepX s (.witListEdit t i st) =
      (s.skip, .err (if i.isSome then typeError else attributeError)) := by
  simp [Model.HeapX.stepX, ht, hk]

/-- likewise `iw.scriptWitness.stack[j] = b` / `.append(b)` for every `CTxInWitness` object -/
theorem witness_stack_edit_rejected_ext (s : St) (t : Target) (j : Option Nat) (b : Bytes) {x : Addr}
    (ht : s.target t = some x) (hk : Model.HeapX.kindAt s.heap x = some 3) :
    Model.HeapX.stepX s (.stackEdit t j b) =
      (s.skip, .err (if j.isSome then typeError else attributeError)) := by
  simp [Model.HeapX.stepX, ht, hk]

theorem runX_base (s : St) : ∀ ops : List Op,
    Model.HeapX.runX s (ops.map OpX.base) = Model.Heap.run s ops
  | [] => rfl
  | op :: ops => by
    simp only [List.map_cons, Model.HeapX.runX, Model.Heap.run, Model.HeapX.stepX]
    rw [runX_base _ ops]

/-- the proved part of `refines_alias_spec` (below): on histories WITHOUT by-reference operations — all
    arguments are fresh values, so no sharing can arise and a cell store is not needed — the heap model
    of the extended catalogue yields, observation by observation, what the value store `Spec.ValueSem`
    yields.  Missing for the full statement: the 10 operations of `OpX` that are not `.base`, and the
    reference side `Spec.AliasSem` in place of `Spec.ValueSem` (that `Spec.AliasSem.stepBase` agrees with
    `Spec.ValueSem.step` on such histories is not proved either; both are compared with the heap model
    on every generated case by `c09.runc`). -/
theorem refines_alias_spec_partial (ops : List Op) :
    (Model.HeapX.runX Model.Heap.init (ops.map OpX.base)).2 = (Spec.ValueSem.run Spec.ValueSem.init ops).2 := by
  rw [runX_base, refines_value_spec]

-- UNPROVED (full statement): the heap model of the extended catalogue refines the store of cells with
-- explicit aliasing (`Spec.AliasSem`), on every observable, for every history:
--
--   theorem refines_alias_spec (ops : List OpX) :
--       (Model.HeapX.runX Model.Heap.init ops).2 = (Spec.AliasSem.runX Spec.AliasSem.init ops).2
--
-- together with its corollary `copy_unaffected_ext` (serialising a name after any later history that
-- does not write a cell reachable from it yields the serialisation it had).  What is proved instead
-- (`…_ext` above): the invariant `InvX` for every operation and history (`inv_step_ext`,
-- `inv_reachable_ext`), hence correctness of every cache under arbitrary aliasing (`cache_correct_ext`,
-- `heap_ident_eq_value_ext`, `getHash_reflects_value_ext`); immutability of every immutable object and
-- stability of its value — snapshots are never affected — under every operation and history
-- (`immutable_slots_stable_ext`, `immutable_value_stable_ext`, `immutable_value_stable_run_ext`);
-- freshness of everything writable in a mutable copy at the time it is made (`copy_fresh_ext`);
-- `RawSignatureHash`/`VerifyScript` leave every existing object as it is (`sighash_preserves_heap_ext`,
-- `verify_preserves_heap_ext`).  Missing for the full statement: the simulation relation between
-- addresses of mutable objects and cells (an injection extended by every allocation) and its
-- preservation by the 35 operations; in particular that a mutable copy stays unaffected by LATER edits
-- of other objects (it follows from `copy_fresh_ext` plus a frame argument per operation).  The
-- statement is tied by T2 instead: `c09.runc` runs every generated history on `Model.HeapX` and on
-- `Spec.AliasSem` and compares all observations (harness: every case of both tiers).
-- Proved part: `refines_alias_spec_partial` (histories without by-reference operations).

/-! ### `==`, `!=` and `hash()` cohere (both catalogues: they are computed by `eqVals` / `pyHashOf` on current values) -/

/-- `a == b` is true only for objects of related classes with the same serialisation — for a `CBlock` that is
    header AND transactions, so a block never equals its bare header nor a block with the same header and
    another `vtx` — and then `hash(a) == hash(b)` (`!=` is `not ==`, `Serializable.__ne__`) -/
theorem eq_true_ser_hash (ma mb : Bool) (va vb : Val) (h : eqVals ma va mb vb = .ok true) :
    va.family = vb.family ∧ serVal va = serVal vb ∧ pyHashOf va = pyHashOf vb := by
  unfold eqVals at h
  by_cases hf : va.family = vb.family
  · simp only [hf, ne_eq, not_true_eq_false, if_false] at h
    refine ⟨hf, ?_⟩
    have aux : ∀ (r : Bool) (x y : Res Bytes),
        (if r then (do let b ← y; let a ← x; pure (a == b)) else (do let a ← x; let b ← y; pure (a == b)))
          = (.ok true : Res Bool) → x = y := by
      intro r x y hr
      cases x <;> cases y <;> cases r <;>
        simp [Bind.bind, Except.bind, Pure.pure, Except.pure] at hr ⊢ <;> first | exact hr | exact hr.symm
    have key : serVal va = serVal vb := aux _ _ _ h
    exact ⟨key, by simp only [pyHashOf, key]⟩
  · simp [hf] at h

/-- a block and its header differ in serialisation whenever the block serialises: `==` is false -/
example : eqVals false (.block ⟨⟨2, List.replicate 32 0, List.replicate 32 1, 1, 2, 3⟩, []⟩) false
    (.header ⟨2, List.replicate 32 0, List.replicate 32 1, 1, 2, 3⟩) = .ok false := by
  rfl

/-! ### the digest of the heap `RawSignatureHash` and `Model.Sighash` (audit 2, Q4) -/

theorem validTx_eq_fromTxOk (t : Tx) :
    validTx t = (t.vin.all Model.Sighash.fromTxInOk && decide (t.nLockTime ≤ 0xffffffff)) := by
  rw [Bool.eq_iff_iff]
  simp only [validTx, validTxIn, validOutPoint, Model.Sighash.fromTxInOk, Bool.and_eq_true, List.all_eq_true,
    decide_eq_true_eq, beq_iff_eq]
  constructor
  · rintro ⟨h1, h2⟩; exact ⟨fun i hi => ⟨⟨(h2 i hi).1.1, (h2 i hi).1.2⟩, (h2 i hi).2⟩, h1⟩
  · rintro ⟨h1, h2⟩; exact ⟨h2, fun i hi => ⟨⟨(h1 i hi).1.1, (h1 i hi).1.2⟩, (h1 i hi).2⟩⟩

/-- the proved part of the bridge `rawSigHash_eq_sighash_model` (below): on the two exits taken before the
    private copy is edited — input index out of range (`HASH_ONE`), `CMutableTransaction.from_tx` raising
    ValueError — the heap execution leaves the heap as it is and yields what `Model.Sighash.rawSignatureHash`
    yields on the value at that address, for every script.  Missing: the main path (the value of the private
    copy after each surgery step); it is compared on every generated `sighash` step by `c09.runc`. -/
theorem rawSigHash_eq_sighash_model_partial {h : Heap} {a : Addr} {t : Tx} (script sub : Bytes) (inIdx ht : Nat)
    (habs : absVal h a = some (.tx t)) (hexit : inIdx ≥ t.vin.length ∨ validTx t = false) :
    rawSigHash h a sub inIdx ht =
      some (h, (Model.Sighash.rawSignatureHash script t inIdx (ht : Int)).map (·.1)) := by
  simp only [rawSigHash, habs, Model.Sighash.rawSignatureHash]
  by_cases hi : inIdx ≥ t.vin.length
  · simp only [hi, if_true]
    rfl
  · have hv : validTx t = false := hexit.resolve_left hi
    simp only [hi, if_false, hv, Bool.not_false, if_true]
    have hf : Model.Sighash.fromTx t = .error .valueerr := by
      simp only [Model.Sighash.fromTx]
      rw [validTx_eq_fromTxOk] at hv
      simp only [hv]
      rfl
    simp only [hf]
    rfl

-- UNPROVED (full statement): the digest the heap execution of `RawSignatureHash` computes is the digest
-- `Model.Sighash.rawSignatureHash` (the model C03/C05/C06 are about) computes on the VALUE of the transaction
-- object at that address — whatever sharing the caller has set up:
--
--   theorem rawSigHash_eq_sighash_model {h h' : Heap} (hinv : InvX h) {a : Addr} {t : Tx} {script sub : Bytes}
--       {inIdx ht : Nat} {d : Res Bytes} (habs : absVal h a = some (.tx t))
--       (hfad : Model.Sighash.findAndDelete script [0xab] = .ok sub)
--       (hr : rawSigHash h a sub inIdx ht = some (h', d)) :
--       d = (Model.Sighash.rawSignatureHash script t inIdx (ht : Int)).map (·.1)
--
-- Proved: `rawSigHash_eq_sighash_model_partial` (the exits before the surgery), `rawSigHash_ext` /
-- `sighash_preserves_heap_ext` (the execution is not stuck on a heap satisfying `InvX` and leaves every existing
-- object as it is), `copy_fresh_ext` (the private copy shares nothing writable).  Missing: the value of the
-- private copy after each step of the surgery (`sigScripts`, `sigNone`, `sigSingle`, `sigAnyone`, `sigWit`)
-- equals `pruneOutputs`/`pruneInputs`/… of `Model.Sighash` applied to `t`.  T2 tie: `c09.runc` computes both
-- digests on every `sighash` step of every generated history and reports a difference as `@@diff@k`; the
-- harness in addition compares the heap digest with Python's `RawSignatureHash`.

/-! ### non-vacuity: concrete histories -/

def tx0 : Tx :=
  { nVersion := 1, vin := [⟨⟨List.replicate 32 0x11, 0⟩, [0x51], 0xffffffff⟩], vout := [⟨5, [0x76]⟩],
    wit := [], nLockTime := 0 }

/-- snapshot, then mutate an outpoint of the source: the snapshot is no longer equal to the source,
    and assigning to the snapshot raises `AttributeError` -/
example :
    (Model.Heap.run Model.Heap.init
      [.newTx tx0, .snapshot ⟨0, []⟩, .eq ⟨0, []⟩ ⟨1, []⟩, .assign ⟨0, [0, 0, 0]⟩ (.n 7), .eq ⟨0, []⟩ ⟨1, []⟩,
       .assign ⟨1, []⟩ (.nLockTime 3), .delAttr ⟨1, [0, 0]⟩]).2 =
    [.created, .created, .bool (.ok true), .done, .bool (.ok false), .err attributeError, .err attributeError] := by
  rfl

set_option maxHeartbeats 4000000 in
/-- mutable copy, edits of the copy's lists, signature hash of the source: all run (nothing is stuck) -/
example :
    (Model.Heap.run Model.Heap.init
      [.newTx tx0, .mutCopy ⟨0, []⟩, .appendIn 1 ⟨⟨List.replicate 32 0x22, 1⟩, [], 5⟩, .removeOut 1 0,
       .sighash 0 [0x51] 0 3, .verify 0 0 [([0xac], 1)], .eq ⟨0, []⟩ ⟨1, []⟩]).2 =
    [.created, .created, .done, .done, .done, .done, .bool (.ok false)] := by
  rfl

/-- the hypotheses of `immutable_setattr_rejected` are met by the snapshot of the first example -/
example : ∃ (s : St) (x : Addr) (o : Obj), s.target ⟨1, [0, 0]⟩ = some x ∧ s.heap[x]? = some o ∧
    o.isMut = false ∧ o.sc.isSeq = false ∧ Inv s :=
  ⟨(Model.Heap.run Model.Heap.init [.newTx tx0, .snapshot ⟨0, []⟩]).1, _, _, rfl, rfl, rfl, rfl,
    inv_reachable _⟩

/-- the hypotheses of `copy_unaffected` are met: name 1 is the snapshot of `tx0`; the later history
    edits only name 0 -/
example :
    (((Spec.ValueSem.run Spec.ValueSem.init [.newTx tx0, .snapshot ⟨0, []⟩]).1)[1]?).join = some ⟨false, .tx tx0⟩ ∧
    (∀ op ∈ [Op.assign ⟨0, [0, 0, 0]⟩ (.n 7), .appendOut 0 ⟨1, []⟩, .sighash 0 [0x51] 0 1],
      op.edits = some 1 → (⟨false, .tx tx0⟩ : Entry).isMut = false) :=
  ⟨rfl, fun _ _ _ => rfl⟩

/-- aliasing through the extended catalogue: `tx1.vin = tx0.vin`, snapshot of `tx1`, edit through
    `tx0`: the two mutable transactions change together, the snapshot does not; the default witness is an
    immutable object over a tuple: its list edits are rejected, its cached hash stays right; `CTxIn` over a
    caller's mutable outpoint keeps a copy: editing the outpoint afterwards does not reach it -/
example :
    (Model.HeapX.runX Model.Heap.init
      [.base (.newTx tx0), .newTxDefault tx0, .assignRef ⟨1, []⟩ 0 ⟨0, [0]⟩, .base (.snapshot ⟨1, []⟩),
       .base (.eq ⟨0, []⟩ ⟨1, []⟩), .base (.assign ⟨0, [0, 0, 0]⟩ (.n 7)), .base (.eq ⟨0, []⟩ ⟨1, []⟩),
       .base (.eq ⟨1, []⟩ ⟨3, []⟩), .base (.getHash ⟨1, [2]⟩), .base (.setWit 1 [[[1]]]),
       .base (.eq ⟨1, [2]⟩ ⟨3, [2]⟩), .witListEdit ⟨3, [2]⟩ (some 0) [[7]], .witListEdit ⟨1, [2]⟩ none [],
       .stackEdit ⟨1, [2, 0, 0]⟩ (some 0) [7], .newCTxInFrom (some ⟨0, [0, 0, 0]⟩) [0x51] 5,
       .base (.getHash ⟨14, []⟩), .base (.assign ⟨0, [0, 0, 0]⟩ (.n 9)), .base (.getHash ⟨14, []⟩),
       .base (.ser ⟨14, [0]⟩)]).2 =
    [.created, .created, .done, .created, .bool (.ok true), .done, .bool (.ok true), .bool (.ok false),
     .bytes (identOf (.wit [[]])), .done, .bool (.ok false), .err typeError, .err attributeError, .err typeError,
     .created, .bytes (identOf (.txin ⟨⟨List.replicate 32 0x11, 7⟩, [0x51], 5⟩)), .done,
     .bytes (identOf (.txin ⟨⟨List.replicate 32 0x11, 7⟩, [0x51], 5⟩)),
     .bytes (serVal (.outpoint ⟨List.replicate 32 0x11, 7⟩))] := by
  rfl

end BtcVerif.C09
