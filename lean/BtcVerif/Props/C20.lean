/-
  C20 — Bloom filter: property theorems.
  Statements use only Model.Bloom.* (mirror of bitcoin/bloom.py, with the CVE-2013-5700 guard of D16)
  and Spec.Bloom.* (MurmurHash3 x86_32 on UInt32, the BIP37 bit schedule, a filter as the set of its
  bit indices).  Helper lemmas live in Proofs/Bloom.lean.

  Partial by design (DESIGN §6 C20): `math.log` and the float products of the constructor are the
  abstract rationals `x`, `y` of `Model.Bloom.create`; `caps` holds for all of them.  The exact size
  for a given (nElements, nFPRate) is not claimed by the property.
-/
import BtcVerif.Proofs.Bloom

namespace BtcVerif.C20
open BtcVerif Model.Bloom
open BtcVerif.Bloom

/-- the model's field ranges on the wire (`struct '<IIB'`, `ser_read`'s MAX_SIZE) -/
def WF (f : Filter) : Prop :=
  f.vData.length ≤ Model.Wire.MAX_SIZE ∧ f.nHashFuncs < 2 ^ 32 ∧ f.nTweak < 2 ^ 32 ∧ f.nFlags < 2 ^ 8

/-- `MurmurHash3(seed, data)` on unbounded Python ints with late masking: for every 32-bit seed and
    every byte string (all four tail lengths, any number of blocks) neither `assert` fires, no slice is
    short, no index is out of range, and the value is the reference MurmurHash3 x86_32. -/
theorem murmur_eq_spec (seed : Nat) (hs : seed < 2 ^ 32) (data : Bytes) :
    murmurHash3 seed data = .ok (Spec.Bloom.murmur3 (UInt32.ofNat seed) data).toNat :=
  murmurHash3_eq seed hs data

/-- `bloom_hash(i, e)` is the BIP37 schedule: reference Murmur with seed `i*0xFBA4C795 + nTweak`
    (uint32 wrap-around), modulo the number of filter bits — for any tweak, even one outside 32 bits. -/
theorem bloom_hash_eq_schedule (f : Filter) (i : Nat) (e : Bytes) (hne : f.vData.length ≠ 0) :
    bloomHash f i e = .ok (Spec.Bloom.bitIndex (f.vData.length * 8) (UInt32.ofNat f.nTweak) i e) :=
  bloomHash_eq f i e hne

/-- `insert` never fails (any data, any hash-function count, any tweak), keeps length and parameters,
    and the bits set afterwards are exactly the old bits plus the bits the BIP37 schedule selects. -/
theorem bits_eq_schedule (f : Filter) (e : Bytes) :
    ∃ g, Model.Bloom.insert f e = .ok g ∧ g.vData.length = f.vData.length ∧ g.nHashFuncs = f.nHashFuncs ∧
      g.nTweak = f.nTweak ∧ g.nFlags = f.nFlags ∧
      ∀ j, Spec.Bloom.bitSet g.vData j ↔ (Spec.Bloom.bitSet f.vData j ∨ (f.vData ≠ [] ∧
        j ∈ Spec.Bloom.bitsOf (f.vData.length * 8) f.nHashFuncs (UInt32.ofNat f.nTweak) e)) :=
  insert_spec f e

/-- `contains` never fails and answers exactly the BIP37 membership predicate (all scheduled bits set,
    or no data at all). -/
theorem contains_eq_spec (f : Filter) (e : Bytes) :
    ∃ b, Model.Bloom.contains f e = .ok b ∧
      (b = true ↔ Spec.Bloom.specMatches f.vData f.nHashFuncs (UInt32.ofNat f.nTweak) e) :=
  contains_spec f e

/-- no false negatives: after any history of inserts (bytes or outpoints) and serialise/deserialise
    round trips that ran, every element inserted anywhere in the history is reported as contained. -/
theorem no_false_negative : ∀ (history : List Op) (f0 f : Filter) (x : Elem),
    f0.vData.length ≤ Model.Wire.MAX_SIZE → run f0 history = .ok f → Op.insert x ∈ history →
    containsElem f x = .ok true
  | [], _, _, _, _, _, hmem => by cases hmem
  | op :: ops, f0, f, x, hlen, hrun, hmem => by
    rw [run_cons] at hrun
    obtain ⟨g, h1, h2⟩ := bind_eq_ok hrun
    have s1 := step_sub f0 g op hlen h1
    have hlen' : g.vData.length ≤ Model.Wire.MAX_SIZE := by rw [s1.1]; exact hlen
    rcases List.mem_cons.mp hmem with heq | hin
    · subst heq
      change insertElem f0 x = .ok g at h1
      rw [insertElem_unfold] at h1
      obtain ⟨e, he, h1⟩ := bind_eq_ok h1
      have hm := (insert_sub f0 g e h1).2
      have hm' := (run_sub ops g f hlen' h2).matches e hm
      obtain ⟨b, hb, hbi⟩ := contains_spec f e
      rw [containsElem_unfold, he, bind_ok, hb, hbi.mpr hm']
    · exact no_false_negative ops g f x hlen' h2 hin

/-- histories always run on well-formed filters with well-formed outpoints: the hypothesis
    `run f0 history = .ok f` of `no_false_negative` is never the reason it holds -/
theorem run_ok : ∀ (history : List Op) (f0 : Filter), WF f0 →
    (∀ o, Op.insert (.outpoint o) ∈ history → o.hash.length = 32 ∧ o.n < 2 ^ 32) →
    ∃ f, run f0 history = .ok f
  | [], f0, _, _ => ⟨f0, rfl⟩
  | op :: ops, f0, hwf, hops => by
    have hstep : ∃ g, step f0 op = .ok g ∧ WF g := by
      cases op with
      | insert x =>
        have hx : ∃ e, x.toBytes = .ok e := by
          cases x with
          | bytes b => exact ⟨b, rfl⟩
          | outpoint o =>
            obtain ⟨h32, hn⟩ := hops o (List.mem_cons_self)
            refine ⟨o.hash ++ leBytes 4 o.n, ?_⟩
            show Model.Wire.serOutPoint o = _
            unfold Model.Wire.serOutPoint Model.Wire.packU
            have h1 : ¬ (o.hash.length ≠ 32) := by omega
            have h2 : o.n < 256 ^ 4 := by omega
            simp only [h1, h2, if_false, if_true]
            rfl
        obtain ⟨e, he⟩ := hx
        obtain ⟨g, hg, hl, hk, ht, hfl, _⟩ := insert_spec f0 e
        refine ⟨g, ?_, ?_⟩
        · show insertElem f0 _ = _
          rw [insertElem_unfold, he, bind_ok, hg]
        · unfold WF at *; rw [hl, hk, ht, hfl]; exact hwf
      | reload =>
        obtain ⟨hl, hk, ht, hfl⟩ := hwf
        have hser : ∃ enc, ser f0 = .ok enc := by
          have hv : ∃ l, Model.Wire.serVarInt f0.vData.length = .ok l := by
            have hM := maxsize_val
            unfold Model.Wire.serVarInt Model.Wire.packU
            by_cases a1 : f0.vData.length < 0xfd
            · exact ⟨_, by rw [if_pos a1]⟩
            · rw [if_neg a1]
              by_cases a2 : f0.vData.length ≤ 0xffff
              · rw [if_pos a2, if_pos (by omega)]; exact ⟨_, rfl⟩
              · rw [if_neg a2, if_pos (by omega), if_pos (by omega)]; exact ⟨_, rfl⟩
          obtain ⟨l, hl'⟩ := hv
          refine ⟨l ++ f0.vData ++ leBytes 4 f0.nHashFuncs ++ leBytes 4 f0.nTweak ++ leBytes 1 f0.nFlags, ?_⟩
          rw [ser_unfold, serBytes_unfold, hl', bind_ok, pure_ok, bind_ok]
          unfold Model.Wire.packU
          rw [if_pos (by omega), bind_ok, if_pos (by omega), bind_ok, if_pos (by omega), bind_ok, pure_ok]
        obtain ⟨enc, henc⟩ := hser
        refine ⟨f0, ?_, ⟨hl, hk, ht, hfl⟩⟩
        show reload f0 = _
        rw [reload_unfold, henc, bind_ok, deserialize_ser f0 enc henc hl]
        rfl
    obtain ⟨g, hg, hwg⟩ := hstep
    obtain ⟨f, hf⟩ := run_ok ops g hwg (fun o ho => hops o (List.mem_cons_of_mem _ ho))
    exact ⟨f, by rw [run_cons, hg, bind_ok, hf]⟩

/-- size and hash-function count respect the protocol maxima, whatever the float expressions of the
    constructor evaluate to — including when they raise (PARTIAL: `x`, `y` abstract `math.log` and the
    float products; `y` may depend on the size just built) -/
theorem caps (x : Res Rat) (y : Nat → Res Rat) (nTweak nFlags : Nat) (f : Filter)
    (h : create x y nTweak nFlags = .ok f) :
    f.vData.length ≤ 36000 ∧ f.nHashFuncs ≤ 50 ∧ isWithinSizeConstraints f = true := by
  rw [create_unfold] at h
  obtain ⟨xv, _, h⟩ := bind_eq_ok h
  obtain ⟨n, hn, h⟩ := bind_eq_ok h
  obtain ⟨yv, _, h⟩ := bind_eq_ok h
  obtain ⟨k, hk, h⟩ := bind_eq_ok h
  rw [pure_ok] at h; cases h
  have h1 := sizeBytes_le xv n hn
  have h2 := hashFuncs_le yv k hk
  refine ⟨by simpa using h1, h2, ?_⟩
  unfold isWithinSizeConstraints
  simp only [MAX_BLOOM_FILTER_SIZE, Spec.Bloom.MAX_BLOOM_FILTER_SIZE, MAX_HASH_FUNCS, Spec.Bloom.MAX_HASH_FUNCS,
    Bool.and_eq_true, List.length_replicate]
  exact ⟨decide_eq_true h1, decide_eq_true h2⟩

/-- the filter built is never larger than requested: for non-negative values of the float
    expressions, `8·|vData| ≤ x` and `nHashFuncs ≤ y(|vData|)` — the caps only ever shrink it -/
theorem created_le_requested (x : Rat) (hx : 0 ≤ x) (y : Nat → Rat) (hy : ∀ n, 0 ≤ y n) (nTweak nFlags : Nat)
    (f : Filter) (h : create (.ok x) (fun n => .ok (y n)) nTweak nFlags = .ok f) :
    ((f.vData.length : Int) : Rat) * 8 ≤ x ∧ ((f.nHashFuncs : Int) : Rat) ≤ y f.vData.length := by
  rw [create_unfold, bind_ok] at h
  obtain ⟨n, hn, h⟩ := bind_eq_ok h
  rw [bind_ok] at h
  obtain ⟨k, hk, h⟩ := bind_eq_ok h
  rw [pure_ok] at h; cases h
  simp only [List.length_replicate]
  exact ⟨sizeBytes_bits_le x hx n hn, hashFuncs_le_y (y n) (hy n) k hk⟩

/-- the constructor does not fail on the property's domain (non-negative float values) and the
    exceptions of the float expressions (`math.log` domain error, division by `nElements = 0`) and of
    `bytearray(negative)` are outcomes of the model, not hidden -/
theorem create_ok (x : Rat) (hx : 0 ≤ x) (y : Nat → Rat) (hy : ∀ n, 0 ≤ y n) (nTweak nFlags : Nat) :
    ∃ f, create (.ok x) (fun n => .ok (y n)) nTweak nFlags = .ok f := by
  have hmin : ∀ (v c : Rat), 0 ≤ v → 0 ≤ c → 0 ≤ min v c := by
    intro v c h1 h2; rw [Rat.min_def]; split <;> assumption
  have htr : ∀ v : Rat, 0 ≤ v → ¬ (truncInt v < 0) := by
    intro v hv
    unfold truncInt
    rw [if_pos hv]
    have := Rat.floor_monotone hv
    rw [show ((0 : Rat)) = ((0 : Int) : Rat) by rfl, Rat.floor_intCast] at this
    omega
  have h8 : 0 ≤ min x ((MAX_BLOOM_FILTER_SIZE * 8 : Nat) : Rat) / 8 := by
    have := hmin x ((MAX_BLOOM_FILTER_SIZE * 8 : Nat) : Rat) hx
      (by simp [MAX_BLOOM_FILTER_SIZE, Spec.Bloom.MAX_BLOOM_FILTER_SIZE]; decide)
    grind
  have hs : ∃ n, sizeBytes x = .ok n := by
    unfold sizeBytes; simp only []; rw [if_neg (htr _ h8)]; exact ⟨_, rfl⟩
  obtain ⟨n, hn⟩ := hs
  have hk : ∃ k, hashFuncs (y n) = .ok k := by
    unfold hashFuncs; simp only []
    rw [if_neg (htr _ (hmin _ _ (hy n) (by simp [MAX_HASH_FUNCS, Spec.Bloom.MAX_HASH_FUNCS]; decide)))]
    exact ⟨_, rfl⟩
  obtain ⟨k, hk⟩ := hk
  exact ⟨_, by rw [create_unfold, bind_ok, hn, bind_ok, bind_ok, hk, bind_ok, pure_ok]⟩

/-- the constructor's exceptions are decided by the model from its arguments: a rate ≤ 0 is refused by
    `math.log` (ValueError) before anything else … -/
theorem ctor_rate_nonpos (n : Int) (rate lg c l2 : Rat) (t fl : Nat) (h : rate ≤ 0) :
    createPy n rate lg c l2 t fl = .error .valueerr := by
  unfold createPy
  rw [if_pos h]
  rfl

/-- … and `nElements = 0` (with a valid rate) divides by zero when the hash-function count is computed -/
theorem ctor_zero_elements (rate lg c l2 : Rat) (t fl : Nat) (h : 0 < rate) :
    createPy 0 rate lg c l2 t fl = .error zeroDivisionError := by
  unfold createPy
  have hr : ¬ rate ≤ 0 := by grind
  rw [if_neg hr]
  have hx : -c * ((0 : Int) : Rat) * lg = 0 := by grind
  rw [hx]
  obtain ⟨f, hf⟩ := create_ok 0 (by grind) (fun _ => 0) (fun _ => by grind) 0 0
  rw [create_unfold, bind_ok] at hf
  obtain ⟨n, hn, _⟩ := bind_eq_ok hf
  rw [create_unfold, bind_ok, hn, bind_ok]
  rfl

/-- … and whenever it does build a filter, the caps hold -/
theorem ctor_caps (n : Int) (rate lg c l2 : Rat) (t fl : Nat) (f : Filter)
    (h : createPy n rate lg c l2 t fl = .ok f) :
    f.vData.length ≤ 36000 ∧ f.nHashFuncs ≤ 50 ∧ isWithinSizeConstraints f = true :=
  caps _ _ t fl f h

example : create (.error .valueerr) (fun _ => .ok 1) 0 0 = .error .valueerr := rfl
example : create (.ok 100) (fun _ => .error zeroDivisionError) 0 0 = .error zeroDivisionError := by
  obtain ⟨f, hf⟩ := create_ok 100 (by grind) (fun _ => 0) (fun _ => by grind) 0 0
  rw [create_unfold, bind_ok] at hf
  obtain ⟨n, hn, _⟩ := bind_eq_ok hf
  rw [create_unfold, bind_ok, hn, bind_ok]
  rfl

/-- the bits set after any history are *exactly* the initial bits plus the bits the BIP37 schedule
    selects for the elements inserted in it (serialise/deserialise round trips change nothing) -/
theorem bits_after_history (history : List Op) (f0 f : Filter) (hlen : f0.vData.length ≤ Model.Wire.MAX_SIZE)
    (hrun : run f0 history = .ok f) (j : Nat) :
    Spec.Bloom.bitSet f.vData j ↔ (Spec.Bloom.bitSet f0.vData j ∨
      ∃ x e, Op.insert x ∈ history ∧ x.toBytes = .ok e ∧ f0.vData ≠ [] ∧
        j ∈ Spec.Bloom.bitsOf (f0.vData.length * 8) f0.nHashFuncs (UInt32.ofNat f0.nTweak) e) :=
  bits_after_run history f0 f hlen hrun j

/-- the wire form is lossless: whatever `serialize` emits (it refuses fields outside `'<IIB'`)
    deserialises, from any stream position, to the same data, hash count, tweak and flags, consuming
    exactly the encoding; `deserialize` of exactly the encoding succeeds -/
theorem ser_roundtrip (f : Filter) (enc rest : Bytes) (h : ser f = .ok enc)
    (hlen : f.vData.length ≤ Model.Wire.MAX_SIZE) :
    de (enc ++ rest) = .ok (f, rest) ∧ deserialize enc = .ok f :=
  ⟨de_ser f enc rest h hlen, deserialize_ser f enc h hlen⟩

/-- … hence every membership answer is preserved by a round trip -/
theorem reload_preserves_answers (f g : Filter) (hlen : f.vData.length ≤ Model.Wire.MAX_SIZE)
    (h : reload f = .ok g) (x : Elem) : containsElem g x = containsElem f x := by
  rw [reload_eq f g hlen h]

/-- a filter whose data is empty (as can arrive from the wire, with any hash-function count) matches
    every element and ignores inserts instead of failing (CVE-2013-5700 rule; false for the shipped
    code, D16) -/
theorem empty_matches_all (f : Filter) (h : f.vData = []) (e : Bytes) :
    Model.Bloom.contains f e = .ok true ∧ Model.Bloom.insert f e = .ok f := by
  have h0 : f.vData.length = 0 := by rw [h]; rfl
  unfold Model.Bloom.contains Model.Bloom.insert
  rw [if_pos h0, if_pos h0]
  exact ⟨rfl, rfl⟩

/-- the deserialiser accepts empty data with any `nHashFuncs`: such filters do arrive -/
theorem empty_arrives (k t : Nat) (fl : Nat) (hk : k < 2 ^ 32) (ht : t < 2 ^ 32) (hf : fl < 2 ^ 8) :
    deserialize ([0x00] ++ leBytes 4 k ++ leBytes 4 t ++ leBytes 1 fl) =
      .ok { vData := [], nHashFuncs := k, nTweak := t, nFlags := fl } := by
  have hs : ser { vData := [], nHashFuncs := k, nTweak := t, nFlags := fl } =
      .ok ([0x00] ++ leBytes 4 k ++ leBytes 4 t ++ leBytes 1 fl) := by
    rw [ser_unfold, serBytes_unfold]
    unfold Model.Wire.serVarInt Model.Wire.packU
    simp only [List.length_nil]
    rw [if_pos (by omega), bind_ok, pure_ok, bind_ok, if_pos (by omega), bind_ok, if_pos (by omega), bind_ok,
      if_pos (by omega), bind_ok, pure_ok]
    rfl
  exact deserialize_ser _ _ hs (by simp)

/-! ### non-vacuity -/

/-- the D16 replay: `00 03000000 00000000 01` is a well-formed filter with no data and k = 3 … -/
example : deserialize [0x00, 3, 0, 0, 0, 0, 0, 0, 0, 1] =
    .ok { vData := [], nHashFuncs := 3, nTweak := 0, nFlags := 1 } := by
  have := empty_arrives 3 0 1 (by omega) (by omega) (by omega)
  simpa [leBytes] using this
/-- … which matches `b"abc"` -/
example : Model.Bloom.contains { vData := [], nHashFuncs := 3, nTweak := 0, nFlags := 1 } [0x61, 0x62, 0x63] =
    .ok true := (empty_matches_all _ rfl _).1

example : WF { vData := [0, 0, 0], nHashFuncs := 5, nTweak := 0xffffffff, nFlags := 1 } := by
  unfold WF; simp [Model.Wire.MAX_SIZE]
/-- a history meeting the hypotheses of `no_false_negative` / `run_ok` -/
example : ∃ f, run { vData := [0, 0, 0], nHashFuncs := 5, nTweak := 7, nFlags := 1 }
    [.insert (.bytes [1, 2, 3, 4, 5]), .reload, .insert (.outpoint { hash := List.replicate 32 9, n := 1 })]
      = .ok f := by
  apply run_ok
  · unfold WF; simp [Model.Wire.MAX_SIZE]
  · intro o ho
    simp at ho
    subst ho
    simp
/-- seeds of the schedule are below 2^32, as `murmur_eq_spec` requires -/
example (i t : Nat) : (i * 0xFBA4C795 + t) &&& 0xFFFFFFFF < 2 ^ 32 := by
  rw [and_M32]; exact Nat.mod_lt _ (by omega)
/-- the reference vectors of MurmurHash3 x86_32 -/
example : Spec.Bloom.murmur3 0 [] = 0 := by decide
example : Spec.Bloom.murmur3 0xFBA4C795 [0] = 0xea3f0b17 := by decide
example : Spec.Bloom.murmur3 0 [0x00, 0x11, 0x22, 0x33, 0x44, 0x55, 0x66] = 0xb074502c := by decide

end BtcVerif.C20
