import BtcVerif.Model.Bloom
import BtcVerif.Spec.Bloom

namespace BtcVerif.C20
end BtcVerif.C20
