/-
  C04 — BIP143 witness-v0 signature hash: property theorems.
  `Model.Sighash.signatureHashWitnessV0` mirrors the SIGVERSION_WITNESS_V0 branch of
  `SignatureHash` (with nLockTime packed as '<I', the repair of D1); `Spec.Sighash.bip143Sighash`
  is the BIP143 text.  Helper lemmas live in Proofs/Sighash.lean.
-/
import BtcVerif.Proofs.Sighash

namespace BtcVerif.C04
open BtcVerif Spec.Sighash Model.Sighash SighashProofs

/-- For every transaction whose fields lie in their wire ranges, every existing input, every script
    code (any length below 2^64), every amount in [0, 2^63) and every hash-type byte, the modelled
    code returns exactly the BIP143 digest. -/
theorem bip143_eq_spec (sc : Bytes) (tx : Tx) (i : Nat) (ht : Nat) (amount : Int)
    (hwf : FieldsWF tx) (hi : i < tx.vin.length) (hsc : sc.length < 2 ^ 64)
    (ha : 0 ≤ amount ∧ amount < 2 ^ 63) (hht : ht < 256) :
    ∃ d, bip143Sighash sc tx i ht amount = some d ∧
         signatureHashWitnessV0 sc tx i (ht : Int) (some amount) = .ok d := by
  have hget : tx.vin[i]? = some tx.vin[i] := List.getElem?_eq_getElem hi
  refine ⟨Crypto.hash256 (bip143Preimage sc tx i tx.vin[i] ht amount), ?_, ?_⟩
  · simp [bip143Sighash, hget]
  · exact bip143_eq sc tx i _ ht amount hwf hget hsc (by omega) ha.2 (htRel_cast ht) (packI_ht (by omega))

/-- the same under the wire-format well-formedness predicate of C01 -/
theorem bip143_eq_spec_wf (sc : Bytes) (tx : Tx) (i : Nat) (ht : Nat) (amount : Int)
    (hwf : Spec.Wire.WFTx tx) (hi : i < tx.vin.length) (hsc : sc.length ≤ Spec.Wire.maxSize)
    (ha : 0 ≤ amount ∧ amount < 2 ^ 63) (hht : ht < 256) :
    ∃ d, bip143Sighash sc tx i ht amount = some d ∧
         signatureHashWitnessV0 sc tx i (ht : Int) (some amount) = .ok d :=
  bip143_eq_spec sc tx i ht amount (fieldsWF_of_WFTx hwf) hi
    (by unfold Spec.Wire.maxSize at hsc; omega) ha hht

/-- "Defined for the whole wire range of every field": on an in-range transaction, an existing
    input, an amount in the int64 range and a hash type in the int32 range the code returns a digest —
    no struct.error / IndexError / AssertionError branch is reachable.  In particular lock times and
    sequence numbers up to 2^32−1 and amounts up to 2^63−1.
    (False for the shipped code, D1: `'<i'` on nLockTime.) -/
theorem bip143_defined (sc : Bytes) (tx : Tx) (i : Nat) (ht : Nat) (amount : Int)
    (hwf : FieldsWF tx) (hi : i < tx.vin.length) (hsc : sc.length < 2 ^ 64)
    (ha : -(2 ^ 63 : Int) ≤ amount ∧ amount < 2 ^ 63) (hht : ht < 2 ^ 31) :
    ∃ d, signatureHashWitnessV0 sc tx i (ht : Int) (some amount) = .ok d := by
  have hget : tx.vin[i]? = some tx.vin[i] := List.getElem?_eq_getElem hi
  exact ⟨_, bip143_eq sc tx i _ ht amount hwf hget hsc ha.1 ha.2 (htRel_cast ht) (packI_ht hht)⟩

/-- … stated as "the stray-exception branches are unreachable" -/
theorem bip143_no_pyexc (sc : Bytes) (tx : Tx) (i : Nat) (ht : Nat) (amount : Int)
    (hwf : FieldsWF tx) (hi : i < tx.vin.length) (hsc : sc.length < 2 ^ 64)
    (ha : -(2 ^ 63 : Int) ≤ amount ∧ amount < 2 ^ 63) (hht : ht < 2 ^ 31) (e : Exc) :
    signatureHashWitnessV0 sc tx i (ht : Int) (some amount) ≠ .error e := by
  obtain ⟨d, h⟩ := bip143_defined sc tx i ht amount hwf hi hsc ha hht
  rw [h]; intro he; cases he

/-- Python ints as hash type, negative ones included: for every `h` in the int32 range the digest is
    the BIP143 digest for the two's-complement reading `h mod 2^32`. -/
theorem bip143_eq_spec_int (sc : Bytes) (tx : Tx) (i : Nat) (h : Int) (amount : Int)
    (hwf : FieldsWF tx) (hi : i < tx.vin.length) (hsc : sc.length < 2 ^ 64)
    (ha : -(2 ^ 63 : Int) ≤ amount ∧ amount < 2 ^ 63) (h1 : -(2 ^ 31 : Int) ≤ h) (h2 : h < 2 ^ 31) :
    ∃ d, bip143Sighash sc tx i (h % 4294967296).toNat amount = some d ∧
         signatureHashWitnessV0 sc tx i h (some amount) = .ok d := by
  have hget : tx.vin[i]? = some tx.vin[i] := List.getElem?_eq_getElem hi
  refine ⟨Crypto.hash256 (bip143Preimage sc tx i tx.vin[i] (h % 4294967296).toNat amount), ?_, ?_⟩
  · simp [bip143Sighash, hget]
  · exact bip143_eq sc tx i _ _ amount hwf hget hsc ha.1 ha.2 (htRel_int32 h) (packI_int32 h1 h2)

/-- The BIP143 digest depends on the transaction only through the committed fields: version, the
    inputs' outpoints and sequence numbers, the outputs and the lock time.  Two transactions that
    differ only in scriptSigs and / or witness data have the same digest (for every input, script
    code, amount and hash type). -/
theorem bip143_ignores_scriptSig_witness (sc : Bytes) (t t' : Tx) (i ht : Nat) (amount : Int)
    (hv : t'.nVersion = t.nVersion)
    (hin : t'.vin.map (fun x => (x.prevout, x.nSequence)) = t.vin.map (fun x => (x.prevout, x.nSequence)))
    (hout : t'.vout = t.vout) (hl : t'.nLockTime = t.nLockTime) :
    bip143Sighash sc t' i ht amount = bip143Sighash sc t i ht amount := by
  have hp : t'.vin.map (fun x => Spec.Wire.outPoint x.prevout) = t.vin.map (fun x => Spec.Wire.outPoint x.prevout) := by
    have := congrArg (List.map (fun p : OutPoint × Nat => Spec.Wire.outPoint p.1)) hin
    rw [List.map_map, List.map_map] at this
    exact this
  have hs : t'.vin.map (fun x => leBytes 4 x.nSequence) = t.vin.map (fun x => leBytes 4 x.nSequence) := by
    have := congrArg (List.map (fun p : OutPoint × Nat => leBytes 4 p.2)) hin
    rw [List.map_map, List.map_map] at this
    exact this
  have hi : (t'.vin[i]?).map (fun x => (x.prevout, x.nSequence)) = (t.vin[i]?).map (fun x => (x.prevout, x.nSequence)) := by
    rw [← List.getElem?_map, ← List.getElem?_map, hin]
  unfold bip143Sighash
  cases h' : t'.vin[i]? with
  | none =>
    rw [h'] at hi
    cases h0 : t.vin[i]? with
    | none => simp only [Option.map_none]
    | some x => rw [h0] at hi; simp at hi
  | some x' =>
    rw [h'] at hi
    cases h0 : t.vin[i]? with
    | none => rw [h0] at hi; simp at hi
    | some x =>
      rw [h0] at hi
      simp only [Option.map_some, Option.some.injEq, Prod.mk.injEq] at hi
      obtain ⟨hpo, hsq⟩ := hi
      have hpre : bip143Preimage sc t' i x' ht amount = bip143Preimage sc t i x ht amount := by
        unfold bip143Preimage hashPrevouts hashSequence hashOutputs
        rw [hv, hp, hs, hout, hl, hpo, hsq]
      simp only [Option.map_some, hpre]

/-- a non-existing input index is the only failure on in-range data: IndexError (`txTo.vin[inIdx]`) -/
theorem bip143_index_error (sc : Bytes) (tx : Tx) (i : Nat) (ht : Nat) (amount : Option Int)
    (hwf : FieldsWF tx) (hi : tx.vin.length ≤ i) :
    signatureHashWitnessV0 sc tx i (ht : Int) amount = .error indexError := by
  have hp := v0HashPrevouts_eq tx ht (htRel_cast ht) hwf
  have hs := v0HashSequence_eq tx ht (htRel_cast ht) hwf
  have ho := v0HashOutputs_eq tx i ht (htRel_cast ht) hwf
  obtain ⟨hv1, hv2, _⟩ := hwf
  have hver : Model.Wire.packI 4 tx.nVersion = .ok (leBytesInt 4 tx.nVersion) :=
    packI_ok (by simpa using hv1) (by simpa using hv2)
  have hget : pyGetNat tx.vin i = .error indexError := by
    simp [pyGetNat, List.getElem?_eq_none_iff.mpr hi]
  simp only [signatureHashWitnessV0, hp, hs, ho, hver, hget, bind_ok, bind_err]

/-! ### non-vacuity -/

/-- a two-input witness transaction with nLockTime = 2^32−1, nSequence = 2^31 -/
def exTx : Tx :=
  { nVersion := 2
    vin := [ { prevout := { hash := List.replicate 32 0xaa, n := 0 }, scriptSig := [], nSequence := 2 ^ 31 },
             { prevout := { hash := List.replicate 32 0xbb, n := 0xffffffff }, scriptSig := [0x51], nSequence := 0xffffffff } ]
    vout := [ { nValue := 5000000000, scriptPubKey := [0x00, 0x14] ++ List.replicate 20 0xcc } ]
    wit := [[[0x01]], []]
    nLockTime := 0xffffffff }

example : FieldsWF exTx := by
  refine ⟨by decide, by decide, by decide, by decide, ?_, ?_, by decide⟩
  · intro i hi
    simp only [exTx, List.mem_cons, List.not_mem_nil, or_false] at hi
    rcases hi with rfl | rfl <;> refine ⟨⟨by decide, by decide⟩, by decide⟩
  · intro o ho
    simp only [exTx, List.mem_cons, List.not_mem_nil, or_false] at ho
    subst ho
    refine ⟨by decide, by decide, by decide⟩

example : (1 : Nat) < exTx.vin.length := by decide

end BtcVerif.C04
