import BtcVerif.Model.Sighash
import BtcVerif.Spec.Sighash

namespace BtcVerif.C04
end BtcVerif.C04
