/-
  C05 — signed inputs verify; exactly what the hash type commits to is protected.

  PART 1 (this section of the file): the COMMITMENT TABLE of the legacy signature hash, exact, for
  all transactions, all script codes, every signing index and every hash-type value.

  `Spec.Commit.committed ht i p` is the table over the *parts* of a transaction, `Spec.Commit.Committed
  ht i e` / `Uncommitted ht i e` the table over the *edits* of the catalogue `Spec.Commit.Edit`
  (set any field of any input / output, insert / remove / swap inputs or outputs, nLockTime, nVersion,
  witness).  `pre` = `Spec.Sighash.legacyPreimage` (the hashed message) and `Spec.Sighash.legacySighash`
  (digest and error indication) are the reference definitions of C03; by `C03.raw_eq_spec` the
  library's `RawSignatureHash` computes exactly these, so every statement below is a statement about
  the digests `_CheckSig` verifies.

  What is proved outright (no cryptographic assumption):
    * parts agree on everything committed  ⇒  same digest and same error indication (all inputs);
    * some committed part differs          ⇒  the hashed MESSAGES differ (regular case, wire ranges),
      by injectivity of the wire encoding — a corollary of C01's round trip;
    * an `Uncommitted` edit never touches a committed part; only `Committed` edits can.
  What is a cryptographic ASSUMPTION and therefore an explicit hypothesis, never an axiom:
    * "different messages ⇒ different digests" is collision resistance of SHA-256d; it appears as
      the hypothesis `hcr` of `committed_edit_changes_digest` for exactly the two messages at hand;
    * "a signature valid for one digest is not valid for another / not valid under another key" is
      ECDSA unforgeability; it is not expressible as a theorem about the verifier and is checked
      only empirically by the tie (harness/props/c05.py).
-/
import BtcVerif.Proofs.Commit

namespace BtcVerif.C05
open BtcVerif BtcVerif.Spec.Sighash BtcVerif.Spec.Commit BtcVerif.Spec.Wire BtcVerif.CommitProofs

/-! ### the table over parts -/

/-- **Everything the digest depends on is in the table.**  Two transactions that agree on every
    part the hash type commits to have the same signature hash — same digest, same error
    indication — whatever else differs (scriptSigs, witness, uncommitted inputs / outputs / sequence
    numbers, counts).  No hypothesis: any transactions, any index (existing or not), any `ht`. -/
theorem agree_sighash_eq (sc : Bytes) (t t' : Tx) (i ht : Nat) (h : Agree ht i t t') :
    legacySighash sc t' i ht = legacySighash sc t i ht :=
  sighash_eq_of_agree h sc

/-- **Everything in the table is hashed.**  In the regular case (input `i` exists; under SINGLE
    output `i` exists) and for fields in their wire ranges, the hashed messages are equal exactly when
    the two transactions agree on every committed part. -/
theorem preimage_eq_iff_agree (sc : Bytes) (t t' : Tx) (i ht : Nat) (hsc : sc.length ≤ maxSize)
    (wf : WFc t) (wf' : WFc t') (hr : Regular ht i t) (hr' : Regular ht i t') :
    legacyPreimage sc t' i ht = legacyPreimage sc t i ht ↔ Agree ht i t t' :=
  ⟨fun h => agree_of_sigTx_eq hr hr' (sigTx_eq_of_preimage_eq hsc wf wf' hr hr' h),
   fun h => preimage_eq_of_agree h sc hr.2⟩

/-- a differing committed part ⇒ different hashed messages -/
theorem committed_part_changes_preimage (sc : Bytes) (t t' : Tx) (i ht : Nat) (hsc : sc.length ≤ maxSize)
    (wf : WFc t) (wf' : WFc t') (hr : Regular ht i t) (hr' : Regular ht i t')
    (p : Part) (hp : committed ht i p = true) (hne : p.get t' ≠ p.get t) :
    legacyPreimage sc t' i ht ≠ legacyPreimage sc t i ht :=
  fun h => hne ((preimage_eq_iff_agree sc t t' i ht hsc wf wf' hr hr').1 h p hp)

/-- outside the regular case the digest is the constant 1 with the error indication, whatever the
    transaction (the SIGHASH_SINGLE bug): nothing is committed there -/
theorem irregular_sighash (sc : Bytes) (t : Tx) (i ht : Nat) (h : ¬ Regular ht i t) :
    legacySighash sc t i ht = (hashOne, true) := by
  unfold legacySighash
  unfold Regular at h
  by_cases h1 : i ≥ t.vin.length
  · rw [if_pos h1]
  · rw [if_neg h1]
    have h2 : isSingle ht = true ∧ i ≥ t.vout.length := by
      by_cases hs : isSingle ht = true
      · refine ⟨hs, ?_⟩
        apply Nat.le_of_not_lt
        intro hlt
        exact h ⟨by omega, fun _ => hlt⟩
      · exact absurd ⟨by omega, fun hs' => absurd hs' hs⟩ h
    rw [if_pos h2]

/-! ### the table over edits -/

/-- the edit table is a total, two-valued classification -/
theorem table_total (ht i : Nat) (e : Edit) : Committed ht i e = !Uncommitted ht i e := by
  unfold Uncommitted; simp

/-- an `Uncommitted` edit leaves every committed part of every transaction as it was -/
theorem uncommitted_edit_agree (ht i : Nat) (e : Edit) (t : Tx) (h : Uncommitted ht i e = true) :
    Agree ht i t (apply e t) :=
  uncommitted_agree ht i e t (by simpa [Uncommitted] using h)

/-- **uncommitted_edit_preserves.**  Changes confined to parts the hash type leaves uncommitted do
    not change the signature hash: digest-level equality (and same error indication) for every
    transaction, script code, index and hash-type value, without any hypothesis. -/
theorem uncommitted_edit_preserves (sc : Bytes) (t : Tx) (i ht : Nat) (e : Edit)
    (h : Uncommitted ht i e = true) :
    legacySighash sc (apply e t) i ht = legacySighash sc t i ht :=
  agree_sighash_eq sc t (apply e t) i ht (uncommitted_edit_agree ht i e t h)

/-- only `Committed` edits can change a committed part -/
theorem changes_only_if_committed (ht i : Nat) (e : Edit) (t : Tx) (h : changes ht i e t) :
    Committed ht i e = true :=
  committed_of_changes h

/-- **committed_edit_changes.**  A `Committed` edit that changes a committed part of the transaction
    changes the hashed message (regular case before and after, fields in wire range before and
    after).  (`changes` already implies `Committed`, see `changes_only_if_committed`; the hypothesis is
    kept so that the statement reads as the table row.) -/
theorem committed_edit_changes (sc : Bytes) (t : Tx) (i ht : Nat) (e : Edit)
    (_hC : Committed ht i e = true) (hch : changes ht i e t)
    (hsc : sc.length ≤ maxSize) (wf : WFc t) (wf' : WFc (apply e t))
    (hr : Regular ht i t) (hr' : Regular ht i (apply e t)) :
    legacyPreimage sc (apply e t) i ht ≠ legacyPreimage sc t i ht := by
  obtain ⟨p, hp, hne⟩ := hch
  exact committed_part_changes_preimage sc t (apply e t) i ht hsc wf wf' hr hr' p hp hne

/-- … hence the digest changes, PROVIDED SHA-256d does not collide on these two messages.  `hcr` is
    the cryptographic assumption (collision resistance), stated for exactly the two messages. -/
theorem committed_edit_changes_digest (sc : Bytes) (t : Tx) (i ht : Nat) (e : Edit)
    (hC : Committed ht i e = true) (hch : changes ht i e t)
    (hsc : sc.length ≤ maxSize) (wf : WFc t) (wf' : WFc (apply e t))
    (hr : Regular ht i t) (hr' : Regular ht i (apply e t))
    (hcr : Crypto.hash256 (legacyPreimage sc (apply e t) i ht) = Crypto.hash256 (legacyPreimage sc t i ht) →
            legacyPreimage sc (apply e t) i ht = legacyPreimage sc t i ht) :
    (legacySighash sc (apply e t) i ht).1 ≠ (legacySighash sc t i ht).1 := by
  have hne := committed_edit_changes sc t i ht e hC hch hsc wf wf' hr hr'
  have reg : ∀ u : Tx, Regular ht i u → legacySighash sc u i ht = (Crypto.hash256 (legacyPreimage sc u i ht), false) := by
    intro u hu
    unfold legacySighash
    rw [if_neg (by have := hu.1; omega), if_neg (by rintro ⟨hs, hge⟩; have := hu.2 hs; omega)]
  rw [reg _ hr, reg _ hr']
  exact fun h => hne (hcr h)

/-- when does a `Committed` edit change a committed part?  A field edit (prevout hash / index,
    nSequence, value, scriptPubKey, nLockTime, nVersion): whenever it changes the transaction at all. -/
theorem committed_field_edit_changes (ht i : Nat) (e : Edit) (t : Tx) (hC : Committed ht i e = true)
    (hf : isFieldSet e = true) (hne : apply e t ≠ t) : changes ht i e t :=
  changes_of_field_edit hC hf hne

/-- … inserting / removing an input (without ANYONECANPAY) or an output (mode ALL) at an existing
    position: always (the count is committed). -/
theorem committed_count_edit_changes (ht i : Nat) (t : Tx) :
    (∀ k x, isAnyoneCanPay ht = false → k ≤ t.vin.length → changes ht i (.insertInput k x) t) ∧
    (∀ k, isAnyoneCanPay ht = false → k < t.vin.length → changes ht i (.removeInput k) t) ∧
    (∀ k o, isAll ht = true → k ≤ t.vout.length → changes ht i (.insertOutput k o) t) ∧
    (∀ k, isAll ht = true → k < t.vout.length → changes ht i (.removeOutput k) t) :=
  changes_of_count_edit

/-- for the remaining `Committed` edits (insert / remove at or before `i` under ANYONECANPAY resp.
    SINGLE, swaps) it depends on the values that move; the executable comparison `changedParts`
    (used by the driver) decides it -/
theorem changedParts_spec (ht i : Nat) (t t' : Tx) : changedParts ht i t t' = [] ↔ Agree ht i t t' :=
  changedParts_nil_iff ht i t t'

theorem changes_iff_changedParts (ht i : Nat) (e : Edit) (t : Tx) :
    changes ht i e t ↔ changedParts ht i t (apply e t) ≠ [] := by
  rw [Ne, changedParts_spec]
  unfold changes Agree
  constructor
  · rintro ⟨p, hp, hne⟩ h
    exact hne (h p hp)
  · intro h
    apply Classical.byContradiction
    intro hn
    apply h
    intro p hp
    apply Classical.byContradiction
    intro hne
    exact hn ⟨p, hp, hne⟩

/-- the signing input's own nSequence and outpoint are committed under EVERY hash type -/
theorem own_input_always_committed (ht i : Nat) :
    committed ht i (.sequence i) = true ∧ committed ht i (.prevHash i) = true ∧
    committed ht i (.prevN i) = true ∧ committed ht i .version = true ∧ committed ht i .lockTime = true := by
  simp [committed]

/-- scriptSigs and the witness are committed under NO hash type -/
theorem scriptSig_witness_never_committed (ht i k : Nat) :
    committed ht i (.scriptSig k) = false ∧ committed ht i .witness = false := by
  simp [committed]

/-- the mode is selected by `ht % 32` and bit 0x80 only: hash-type values with the same residue and
    the same ANYONECANPAY bit have the same table (the digests still differ: `ht` itself is hashed) -/
theorem table_depends_on_mode_only (ht ht' i : Nat) (hm : ht % 32 = ht' % 32)
    (ha : ht / 128 % 2 = ht' / 128 % 2) (p : Part) : committed ht i p = committed ht' i p := by
  have h1 : isNone ht = isNone ht' := by unfold isNone; rw [hm]
  have h2 : isSingle ht = isSingle ht' := by unfold isSingle; rw [hm]
  have h3 : isAnyoneCanPay ht = isAnyoneCanPay ht' := by
    unfold isAnyoneCanPay SIGHASH_ANYONECANPAY; rw [ha]
  cases p <;> simp [committed, isAll, h1, h2, h3]

/-! ### non-vacuity of Part 1 -/

/-- 3 inputs, 3 outputs -/
def exTx : Tx :=
  { nVersion := 2
    vin := [ { prevout := { hash := List.replicate 32 0x11, n := 0 }, scriptSig := [0x51], nSequence := 0xffffffff },
             { prevout := { hash := List.replicate 32 0x22, n := 1 }, scriptSig := [], nSequence := 5 },
             { prevout := { hash := List.replicate 32 0x33, n := 7 }, scriptSig := [0x00], nSequence := 0xfffffffe } ]
    vout := [ { nValue := 1000, scriptPubKey := [0x51] }, { nValue := 2000, scriptPubKey := [0x52] },
              { nValue := 0, scriptPubKey := [0x6a] } ]
    wit := []
    nLockTime := 500000000 }

example : WFc exTx := by
  refine ⟨by decide, by decide, by decide, by decide, ?_, ?_, by decide⟩
  · intro x hx
    simp only [exTx, List.mem_cons, List.not_mem_nil, or_false] at hx
    rcases hx with rfl | rfl | rfl <;> exact ⟨⟨by decide, by decide⟩, by decide⟩
  · intro o ho
    simp only [exTx, List.mem_cons, List.not_mem_nil, or_false] at ho
    rcases ho with rfl | rfl | rfl <;> exact ⟨by decide, by decide, by decide⟩

example : Regular 3 1 exTx := by decide
example : Regular 0x83 2 exTx := by decide
/-- SINGLE at an index without output is NOT regular … -/
example : ¬ Regular 3 1 { exTx with vout := [] } := by decide
/-- … while ALL / NONE at the same index are -/
example : Regular 1 1 { exTx with vout := [] } ∧ Regular 2 1 { exTx with vout := [] } := by decide

-- rows of the table, signing input 1
/-- another input's nSequence: committed under ALL, not under NONE / SINGLE / any ANYONECANPAY -/
example : Committed 1 1 (.setSequence 0 7) = true ∧ Uncommitted 2 1 (.setSequence 0 7) = true ∧
    Uncommitted 3 1 (.setSequence 0 7) = true ∧ Uncommitted 0x81 1 (.setSequence 0 7) = true := by decide
/-- the own nSequence: always -/
example : ∀ ht ∈ [0, 1, 2, 3, 4, 0x1f, 0x22, 0x43, 0x80, 0x81, 0x82, 0x83, 0xe3, 0xff],
    Committed ht 1 (.setSequence 1 7) = true := by decide
/-- outputs under SINGLE: only the one at the signing index; under NONE none; undefined type bytes
    (0, 4, 0x1f) behave as ALL; 0x22 is NONE, 0x43 is SINGLE (bits 0x20 / 0x40 select nothing) -/
example : Committed 3 1 (.setValue 1 5) = true ∧ Uncommitted 3 1 (.setValue 0 5) = true ∧
    Uncommitted 3 1 (.setValue 2 5) = true ∧ Uncommitted 2 1 (.setValue 1 5) = true ∧
    Committed 0 1 (.setValue 2 5) = true ∧ Committed 4 1 (.setValue 2 5) = true ∧
    Committed 0x1f 1 (.setValue 2 5) = true ∧ Uncommitted 0x22 1 (.setValue 1 5) = true ∧
    Committed 0x43 1 (.setValue 1 5) = true ∧ Uncommitted 0x43 1 (.setValue 2 5) = true := by decide
/-- inserting an input after the signing index: uncommitted exactly under ANYONECANPAY -/
example : Uncommitted 0x81 1 (.insertInput 2 ⟨⟨[], 0⟩, [], 0⟩) = true ∧
    Committed 0x81 1 (.insertInput 1 ⟨⟨[], 0⟩, [], 0⟩) = true ∧
    Committed 1 1 (.insertInput 2 ⟨⟨[], 0⟩, [], 0⟩) = true := by decide
/-- an edit that is `Committed` and does change a committed part … -/
example : changes 3 1 (.setValue 1 5) exTx := ⟨.value 1, by decide, by decide⟩
/-- … and one that is `Committed` but writes the value already there -/
example : ¬ changes 3 1 (.setValue 1 2000) exTx := by
  rw [changes_iff_changedParts]; decide
/-- swapping two inputs that differ is seen under ALL; under ANYONECANPAY only if `i` is involved -/
example : changedParts 1 1 exTx (apply (.swapInputs 0 2) exTx) ≠ [] ∧
    changedParts 0x81 1 exTx (apply (.swapInputs 0 2) exTx) = [] := by decide

end BtcVerif.C05
