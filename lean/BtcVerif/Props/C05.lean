/-
  C05 — signed inputs verify; exactly what the hash type commits to is protected.

  PART 1 (this section of the file): the COMMITMENT TABLE of the legacy signature hash, exact, for
  all transactions, all script codes, every signing index and every hash-type value.

  `Spec.Commit.committed ht i p` is the table over the *parts* of a transaction, `Spec.Commit.Committed
  ht i e` / `Uncommitted ht i e` the table over the *edits* of the catalogue `Spec.Commit.Edit`
  (set any field of any input / output, insert / remove / swap inputs or outputs, nLockTime, nVersion,
  witness).  `pre` = `Spec.Sighash.legacyPreimage` (the hashed message) and `Spec.Sighash.legacySighash`
  (digest and error indication) are the reference definitions of C03; by `C03.raw_eq_spec` the
  library's `RawSignatureHash` computes exactly these, so every statement below is a statement about
  the digests `_CheckSig` verifies.

  What is proved outright (no cryptographic assumption):
    * parts agree on everything committed  ⇒  same digest and same error indication (all inputs);
    * some committed part differs          ⇒  the hashed MESSAGES differ (regular case, wire ranges),
      by injectivity of the wire encoding — a corollary of C01's round trip;
    * an `Uncommitted` edit never touches a committed part; only `Committed` edits can.
  What is a cryptographic ASSUMPTION and therefore an explicit hypothesis, never an axiom:
    * "different messages ⇒ different digests" is collision resistance of SHA-256d; it appears as
      the hypothesis `hcr` of `committed_edit_changes_digest` for exactly the two messages at hand;
    * "the signature that was made for the old digest does not verify for the new, different digest"
      (`hunf` of the `*_committed_edit_rejects` theorems of Part 3) is ECDSA unforgeability for that
      ONE instance.  It is not, and must not be, the blanket claim "a signature verifies for one digest
      only", which is false for ECDSA (audit finding F1);
    * "the library's signer produces a signature the verifier accepts" (`horacle` of the
      `template_accepts_*` theorems) is ECDSA correctness of OpenSSL's signer; proving it for the Lean
      curve would need the group law.  It is established only by the end-to-end run of the tie.

  PART 2: closed-form verdicts of the interpreter model (C06) on the standard templates, any context.
  PART 3: verdicts under edits of the transaction, reference context `txCtx`.
  PART 4: the same for the CONCRETE context of the library model (`Real.realCtx`: the model of
          `RawSignatureHash` + the Lean ECDSA + the executable hashes): the digest Part 1 speaks about
          is the digest the modelled `_CheckSig` verifies (C03 `raw_eq_spec`, side conditions proved).
-/
import BtcVerif.Proofs.Commit
import BtcVerif.Proofs.C05Templates
import BtcVerif.Proofs.C05Real

namespace BtcVerif.C05
open BtcVerif BtcVerif.Spec.Sighash BtcVerif.Spec.Commit BtcVerif.Spec.Wire BtcVerif.CommitProofs

/-! ### the table over parts -/

/-- **Everything the digest depends on is in the table.**  Two transactions that agree on every
    part the hash type commits to have the same signature hash — same digest, same error
    indication — whatever else differs (scriptSigs, witness, uncommitted inputs / outputs / sequence
    numbers, counts).  No hypothesis: any transactions, any index (existing or not), any `ht`. -/
theorem agree_sighash_eq (sc : Bytes) (t t' : Tx) (i ht : Nat) (h : Agree ht i t t') :
    legacySighash sc t' i ht = legacySighash sc t i ht :=
  sighash_eq_of_agree h sc

/-- **Everything in the table is hashed.**  In the regular case (input `i` exists; under SINGLE
    output `i` exists) and for fields in their wire ranges, the hashed messages are equal exactly when
    the two transactions agree on every committed part. -/
theorem preimage_eq_iff_agree (sc : Bytes) (t t' : Tx) (i ht : Nat) (hsc : sc.length ≤ maxSize)
    (wf : WFc t) (wf' : WFc t') (hr : Regular ht i t) (hr' : Regular ht i t') :
    legacyPreimage sc t' i ht = legacyPreimage sc t i ht ↔ Agree ht i t t' :=
  ⟨fun h => agree_of_sigTx_eq hr hr' (sigTx_eq_of_preimage_eq hsc wf wf' hr hr' h),
   fun h => preimage_eq_of_agree h sc hr.2⟩

/-- a differing committed part ⇒ different hashed messages -/
theorem committed_part_changes_preimage (sc : Bytes) (t t' : Tx) (i ht : Nat) (hsc : sc.length ≤ maxSize)
    (wf : WFc t) (wf' : WFc t') (hr : Regular ht i t) (hr' : Regular ht i t')
    (p : Part) (hp : committed ht i p = true) (hne : p.get t' ≠ p.get t) :
    legacyPreimage sc t' i ht ≠ legacyPreimage sc t i ht :=
  fun h => hne ((preimage_eq_iff_agree sc t t' i ht hsc wf wf' hr hr').1 h p hp)

/-- outside the regular case the digest is the constant 1 with the error indication, whatever the
    transaction (the SIGHASH_SINGLE bug): nothing is committed there -/
theorem irregular_sighash (sc : Bytes) (t : Tx) (i ht : Nat) (h : ¬ Regular ht i t) :
    legacySighash sc t i ht = (hashOne, true) := by
  unfold legacySighash
  unfold Regular at h
  by_cases h1 : i ≥ t.vin.length
  · rw [if_pos h1]
  · rw [if_neg h1]
    have h2 : isSingle ht = true ∧ i ≥ t.vout.length := by
      by_cases hs : isSingle ht = true
      · refine ⟨hs, ?_⟩
        apply Nat.le_of_not_lt
        intro hlt
        exact h ⟨by omega, fun _ => hlt⟩
      · exact absurd ⟨by omega, fun hs' => absurd hs' hs⟩ h
    rw [if_pos h2]

/-- in the regular case the digest is the double SHA-256 of the hashed message, without error flag -/
theorem regular_sighash (sc : Bytes) (t : Tx) (i ht : Nat) (h : Regular ht i t) :
    legacySighash sc t i ht = (Crypto.hash256 (legacyPreimage sc t i ht), false) := by
  unfold legacySighash
  rw [if_neg (by have := h.1; omega), if_neg (by rintro ⟨hs, hge⟩; have := h.2 hs; omega)]

/-! ### the table over edits -/

/-- the edit table is a total, two-valued classification -/
theorem table_total (ht i : Nat) (e : Edit) : Committed ht i e = !Uncommitted ht i e := by
  unfold Uncommitted; simp

/-- an `Uncommitted` edit leaves every committed part of every transaction as it was -/
theorem uncommitted_edit_agree (ht i : Nat) (e : Edit) (t : Tx) (h : Uncommitted ht i e = true)
    (hsafe : insertSafe i e t = true) : Agree ht i t (apply e t) :=
  uncommitted_agree ht i e t (by simpa [Uncommitted] using h) hsafe

/-- **uncommitted_edit_preserves.**  Changes confined to parts the hash type leaves uncommitted do
    not change the signature hash: digest-level equality (and same error indication) for every
    transaction, script code, index and hash-type value, without any hypothesis. -/
theorem uncommitted_edit_preserves (sc : Bytes) (t : Tx) (i ht : Nat) (e : Edit)
    (h : Uncommitted ht i e = true) (hsafe : insertSafe i e t = true) :
    legacySighash sc (apply e t) i ht = legacySighash sc t i ht :=
  agree_sighash_eq sc t (apply e t) i ht (uncommitted_edit_agree ht i e t h hsafe)

/-- only `Committed` edits can change a committed part -/
theorem changes_only_if_committed (ht i : Nat) (e : Edit) (t : Tx) (h : changes ht i e t)
    (hsafe : insertSafe i e t = true) : Committed ht i e = true :=
  committed_of_changes h hsafe

/-- **committed_edit_changes.**  A `Committed` edit that changes a committed part of the transaction
    changes the hashed message (regular case before and after, fields in wire range before and
    after).  (`changes` already implies `Committed`, see `changes_only_if_committed`; the hypothesis is
    kept so that the statement reads as the table row.) -/
theorem committed_edit_changes (sc : Bytes) (t : Tx) (i ht : Nat) (e : Edit)
    (_hC : Committed ht i e = true) (hch : changes ht i e t)
    (hsc : sc.length ≤ maxSize) (wf : WFc t) (wf' : WFc (apply e t))
    (hr : Regular ht i t) (hr' : Regular ht i (apply e t)) :
    legacyPreimage sc (apply e t) i ht ≠ legacyPreimage sc t i ht := by
  obtain ⟨p, hp, hne⟩ := hch
  exact committed_part_changes_preimage sc t (apply e t) i ht hsc wf wf' hr hr' p hp hne

/-- … hence the digest changes, PROVIDED SHA-256d does not collide on these two messages.  `hcr` is
    the cryptographic assumption (collision resistance), stated for exactly the two messages. -/
theorem committed_edit_changes_digest (sc : Bytes) (t : Tx) (i ht : Nat) (e : Edit)
    (hC : Committed ht i e = true) (hch : changes ht i e t)
    (hsc : sc.length ≤ maxSize) (wf : WFc t) (wf' : WFc (apply e t))
    (hr : Regular ht i t) (hr' : Regular ht i (apply e t))
    (hcr : Crypto.hash256 (legacyPreimage sc (apply e t) i ht) = Crypto.hash256 (legacyPreimage sc t i ht) →
            legacyPreimage sc (apply e t) i ht = legacyPreimage sc t i ht) :
    (legacySighash sc (apply e t) i ht).1 ≠ (legacySighash sc t i ht).1 := by
  have hne := committed_edit_changes sc t i ht e hC hch hsc wf wf' hr hr'
  have reg : ∀ u : Tx, Regular ht i u → legacySighash sc u i ht = (Crypto.hash256 (legacyPreimage sc u i ht), false) := by
    intro u hu
    unfold legacySighash
    rw [if_neg (by have := hu.1; omega), if_neg (by rintro ⟨hs, hge⟩; have := hu.2 hs; omega)]
  rw [reg _ hr, reg _ hr']
  exact fun h => hne (hcr h)

/-- when does a `Committed` edit change a committed part?  A field edit (prevout hash / index,
    nSequence, value, scriptPubKey, nLockTime, nVersion): whenever it changes the transaction at all. -/
theorem committed_field_edit_changes (ht i : Nat) (e : Edit) (t : Tx) (hC : Committed ht i e = true)
    (hf : isFieldSet e = true) (hne : apply e t ≠ t) : changes ht i e t :=
  changes_of_field_edit hC hf hne

/-- … inserting / removing an input (without ANYONECANPAY) or an output (mode ALL) at an existing
    position: always (the count is committed). -/
theorem committed_count_edit_changes (ht i : Nat) (t : Tx) :
    (∀ k x, isAnyoneCanPay ht = false → changes ht i (.insertInput k x) t) ∧
    (∀ k, isAnyoneCanPay ht = false → k < t.vin.length → changes ht i (.removeInput k) t) ∧
    (∀ k o, isAll ht = true → changes ht i (.insertOutput k o) t) ∧
    (∀ k, isAll ht = true → k < t.vout.length → changes ht i (.removeOutput k) t) :=
  changes_of_count_edit

/-- for the remaining `Committed` edits (insert / remove at or before `i` under ANYONECANPAY resp.
    SINGLE, swaps) it depends on the values that move; the executable comparison `changedParts`
    (used by the driver) decides it -/
theorem changedParts_spec (ht i : Nat) (t t' : Tx) : changedParts ht i t t' = [] ↔ Agree ht i t t' :=
  changedParts_nil_iff ht i t t'

theorem changes_iff_changedParts (ht i : Nat) (e : Edit) (t : Tx) :
    changes ht i e t ↔ changedParts ht i t (apply e t) ≠ [] := by
  rw [Ne, changedParts_spec]
  unfold changes Agree
  constructor
  · rintro ⟨p, hp, hne⟩ h
    exact hne (h p hp)
  · intro h
    apply Classical.byContradiction
    intro hn
    apply h
    intro p hp
    apply Classical.byContradiction
    intro hne
    exact hn ⟨p, hp, hne⟩

/-- the signing input's own nSequence and outpoint are committed under EVERY hash type -/
theorem own_input_always_committed (ht i : Nat) :
    committed ht i (.sequence i) = true ∧ committed ht i (.prevHash i) = true ∧
    committed ht i (.prevN i) = true ∧ committed ht i .version = true ∧ committed ht i .lockTime = true := by
  simp [committed]

/-- scriptSigs and the witness are committed under NO hash type -/
theorem scriptSig_witness_never_committed (ht i k : Nat) :
    committed ht i (.scriptSig k) = false ∧ committed ht i .witness = false := by
  simp [committed]

/-- the mode is selected by `ht % 32` and bit 0x80 only: hash-type values with the same residue and
    the same ANYONECANPAY bit have the same table (the digests still differ: `ht` itself is hashed) -/
theorem table_depends_on_mode_only (ht ht' i : Nat) (hm : ht % 32 = ht' % 32)
    (ha : ht / 128 % 2 = ht' / 128 % 2) (p : Part) : committed ht i p = committed ht' i p := by
  have h1 : isNone ht = isNone ht' := by unfold isNone; rw [hm]
  have h2 : isSingle ht = isSingle ht' := by unfold isSingle; rw [hm]
  have h3 : isAnyoneCanPay ht = isAnyoneCanPay ht' := by
    unfold isAnyoneCanPay SIGHASH_ANYONECANPAY; rw [ha]
  cases p <;> simp [committed, isAll, h1, h2, h3]

/-! ### the catalogue and Python's list mutation -/

theorem swapAt_none {α} (xs : List α) (k l : Nat) (h : ¬ (k < xs.length ∧ l < xs.length)) : swapAt xs k l = xs := by
  unfold swapAt
  by_cases hk : k < xs.length
  · have hl : ¬ l < xs.length := fun hl => h ⟨hk, hl⟩
    rw [List.getElem?_eq_none (by omega : xs.length ≤ l)]
    cases xs[k]? <;> rfl
  · rw [List.getElem?_eq_none (by omega : xs.length ≤ k)]

/-- an edit Python cannot carry out (IndexError) leaves the transaction as it was -/
theorem apply_not_applicable (e : Edit) (t : Tx) (h : applicable e t = false) : apply e t = t := by
  cases e <;> simp only [applicable, decide_eq_false_iff_not, Nat.not_lt, Bool.and_eq_false_iff] at h <;>
    simp only [apply]
  all_goals first
    | (rw [List.modify_eq_self (by omega)])
    | (rw [List.eraseIdx_of_length_le (by omega)])
    | (rw [swapAt_none _ _ _ (by omega)])
    | cases h

/-! ### non-vacuity of Part 1 -/

/-- 3 inputs, 3 outputs -/
def exTx : Tx :=
  { nVersion := 2
    vin := [ { prevout := { hash := List.replicate 32 0x11, n := 0 }, scriptSig := [0x51], nSequence := 0xffffffff },
             { prevout := { hash := List.replicate 32 0x22, n := 1 }, scriptSig := [], nSequence := 5 },
             { prevout := { hash := List.replicate 32 0x33, n := 7 }, scriptSig := [0x00], nSequence := 0xfffffffe } ]
    vout := [ { nValue := 1000, scriptPubKey := [0x51] }, { nValue := 2000, scriptPubKey := [0x52] },
              { nValue := 0, scriptPubKey := [0x6a] } ]
    wit := []
    nLockTime := 500000000 }

example : WFc exTx := by
  refine ⟨by decide, by decide, by decide, by decide, ?_, ?_, by decide⟩
  · intro x hx
    simp only [exTx, List.mem_cons, List.not_mem_nil, or_false] at hx
    rcases hx with rfl | rfl | rfl <;> exact ⟨⟨by decide, by decide⟩, by decide⟩
  · intro o ho
    simp only [exTx, List.mem_cons, List.not_mem_nil, or_false] at ho
    rcases ho with rfl | rfl | rfl <;> exact ⟨by decide, by decide, by decide⟩

example : Regular 3 1 exTx := by decide
example : Regular 0x83 2 exTx := by decide
/-- SINGLE at an index without output is NOT regular … -/
example : ¬ Regular 3 1 { exTx with vout := [] } := by decide
/-- … while ALL / NONE at the same index are -/
example : Regular 1 1 { exTx with vout := [] } ∧ Regular 2 1 { exTx with vout := [] } := by decide

-- rows of the table, signing input 1
/-- another input's nSequence: committed under ALL, not under NONE / SINGLE / any ANYONECANPAY -/
example : Committed 1 1 (.setSequence 0 7) = true ∧ Uncommitted 2 1 (.setSequence 0 7) = true ∧
    Uncommitted 3 1 (.setSequence 0 7) = true ∧ Uncommitted 0x81 1 (.setSequence 0 7) = true := by decide
/-- the own nSequence: always -/
example : ∀ ht ∈ [0, 1, 2, 3, 4, 0x1f, 0x22, 0x43, 0x80, 0x81, 0x82, 0x83, 0xe3, 0xff],
    Committed ht 1 (.setSequence 1 7) = true := by decide
/-- outputs under SINGLE: only the one at the signing index; under NONE none; undefined type bytes
    (0, 4, 0x1f) behave as ALL; 0x22 is NONE, 0x43 is SINGLE (bits 0x20 / 0x40 select nothing) -/
example : Committed 3 1 (.setValue 1 5) = true ∧ Uncommitted 3 1 (.setValue 0 5) = true ∧
    Uncommitted 3 1 (.setValue 2 5) = true ∧ Uncommitted 2 1 (.setValue 1 5) = true ∧
    Committed 0 1 (.setValue 2 5) = true ∧ Committed 4 1 (.setValue 2 5) = true ∧
    Committed 0x1f 1 (.setValue 2 5) = true ∧ Uncommitted 0x22 1 (.setValue 1 5) = true ∧
    Committed 0x43 1 (.setValue 1 5) = true ∧ Uncommitted 0x43 1 (.setValue 2 5) = true := by decide
/-- inserting an input after the signing index: uncommitted exactly under ANYONECANPAY -/
example : Uncommitted 0x81 1 (.insertInput 2 ⟨⟨[], 0⟩, [], 0⟩) = true ∧
    Committed 0x81 1 (.insertInput 1 ⟨⟨[], 0⟩, [], 0⟩) = true ∧
    Committed 1 1 (.insertInput 2 ⟨⟨[], 0⟩, [], 0⟩) = true := by decide
/-- an edit that is `Committed` and does change a committed part … -/
example : changes 3 1 (.setValue 1 5) exTx := ⟨.value 1, by decide, by decide⟩
/-- … and one that is `Committed` but writes the value already there -/
example : ¬ changes 3 1 (.setValue 1 2000) exTx := by
  rw [changes_iff_changedParts]; decide
/-- swapping two inputs that differ is seen under ALL; under ANYONECANPAY only if `i` is involved -/
example : changedParts 1 1 exTx (apply (.swapInputs 0 2) exTx) ≠ [] ∧
    changedParts 0x81 1 exTx (apply (.swapInputs 0 2) exTx) = [] := by decide

/-- insertion beyond the end appends (Python `list.insert`); removal / field writes beyond the end are
    not applicable (IndexError) and leave the transaction unchanged -/
example : apply (.insertInput 7 ⟨⟨[], 0⟩, [], 0⟩) exTx = { exTx with vin := exTx.vin ++ [⟨⟨[], 0⟩, [], 0⟩] } := by decide
example : applicable (.removeInput 3) exTx = false ∧ apply (.removeInput 3) exTx = exTx := by decide
/-- why `insertSafe`: signing input 3 of a 3-input transaction (the "return one" case) under ANYONECANPAY,
    `insertInput 4` is `Uncommitted` by the table (4 > 3) but appends at position 3, creating input 3 -/
example : Uncommitted 0x81 3 (.insertInput 4 ⟨⟨[], 0⟩, [], 0⟩) = true ∧
    insertSafe 3 (.insertInput 4 ⟨⟨[], 0⟩, [], 0⟩) exTx = false ∧
    ¬ Regular 0x81 3 exTx ∧ Regular 0x81 3 (apply (.insertInput 4 ⟨⟨[], 0⟩, [], 0⟩) exTx) := by decide

/-! ## PART 2 — acceptance: the interpreter model of C06 on the standard templates

  `Model.ScriptEval.verifyScript` (the model of `VerifyScript`, property C06) is evaluated symbolically
  on the template scripts of `Spec.Templates` for ARBITRARY keys, signatures, flags and contexts.
  Signature checking is abstract: `c.env.sigCheck body key scriptCode hashType` is any function (in the
  driver: Lean ECDSA over the reference signature hash of the spending transaction).

  Each `*_verify` theorem is an exact closed form: the verdict of VerifyScript is `ok` when the
  signature oracle accepts and `VerifyScriptError` when it does not — nothing else about the
  transaction, flags (any of the 12 admissible sets) or key / signature bytes matters.
  `template_accepts_*` / `template_rejects_wrong_key_*` are its two halves.

  CRYPTOGRAPHIC ASSUMPTIONS (hypotheses, never axioms): "the oracle accepts the signature the library
  made with key j for the digest of the spending transaction" is ECDSA correctness of the signer;
  "the oracle rejects a signature made with any other key, or for another digest" is ECDSA
  unforgeability.  Neither is provable about a verifier; both appear as the hypotheses `horacle`,
  `hunf` below, and the tie checks them empirically with the Lean ECDSA against OpenSSL.

  `c.SigTotal` (every Part 2 theorem): the context's `RawSignatureHash` returns a digest — raises
  nothing — for every script code of at most 10 000 bytes that tokenises and every hash-type byte.
  (Since C06/C07's audit round the context carries the OUTCOME of RawSignatureHash; this hypothesis
  replaces the former `0 ≤ inIdx`.)  It holds for the reference context `txCtx` unconditionally
  (`txCtx_sigTotal`: the reference digest is total) and for the context of the library model
  `Real.realCtx tx i` whenever `tx` is in wire range and `i ≥ 0` (`realCtx_sigTotal`, from C03).
  Without it `_CheckSig` can raise IndexError / struct.error (known findings D7, out-of-range fields)
  and the verdict is not a VerifyScriptError.

  Size hypotheses (`… < 0x4c`): keys (33 / 65 bytes) and DER signatures with hash-type byte (9 … 74
  bytes) are pushed directly.  `body.length + 1 ≠ key.length` etc. exclude the contrived case in which
  the signature push itself occurs in the script code (FindAndDelete would then remove it). -/

section templates
open BtcVerif.Model.ScriptEval BtcVerif.Spec.Script BtcVerif.Spec.Templates BtcVerif.C05T

/-- pay-to-pubkey -/
theorem p2pk_verify (c : Ctx) (fl : Flags) (body : Bytes) (ht : UInt8) (key : Bytes)
    (hfl : fl.admissible = true) (htot : c.SigTotal) (hk : key.length < 0x4c) (hs : body.length + 1 < 0x4c)
    (hne : body.length + 1 ≠ key.length) :
    verifyScript c fl (p2pkScriptSig (body ++ [ht])) (p2pkScript key) =
      if c.env.sigCheck body key (p2pkScript key) ht.toNat then .ok () else .error .verify :=
  verify_p2pk c fl body ht key hfl htot hk hs hne

theorem template_accepts_p2pk (c : Ctx) (fl : Flags) (body : Bytes) (ht : UInt8) (key : Bytes)
    (hfl : fl.admissible = true) (htot : c.SigTotal) (hk : key.length < 0x4c) (hs : body.length + 1 < 0x4c)
    (hne : body.length + 1 ≠ key.length)
    (horacle : c.env.sigCheck body key (p2pkScript key) ht.toNat = true) :
    verifyScript c fl (p2pkScriptSig (body ++ [ht])) (p2pkScript key) = .ok () := by
  rw [p2pk_verify c fl body ht key hfl htot hk hs hne, horacle]; rfl

theorem template_rejects_wrong_key_p2pk (c : Ctx) (fl : Flags) (body : Bytes) (ht : UInt8) (key : Bytes)
    (hfl : fl.admissible = true) (htot : c.SigTotal) (hk : key.length < 0x4c) (hs : body.length + 1 < 0x4c)
    (hne : body.length + 1 ≠ key.length)
    (horacle : c.env.sigCheck body key (p2pkScript key) ht.toNat = false) :
    verifyScript c fl (p2pkScriptSig (body ++ [ht])) (p2pkScript key) = .error .verify := by
  rw [p2pk_verify c fl body ht key hfl htot hk hs hne, horacle]; rfl

/-- pay-to-pubkey-hash, spent with the key whose HASH160 the script commits to -/
theorem p2pkh_verify (c : Ctx) (fl : Flags) (body : Bytes) (ht : UInt8) (key : Bytes)
    (hfl : fl.admissible = true) (htot : c.SigTotal) (hk : key.length < 0x4c) (hs : body.length + 1 < 0x4c)
    (hhl : (c.env.hashes.hash160 key).length = 20) (hne : body.length + 1 ≠ 20) :
    verifyScript c fl (p2pkhScriptSig (body ++ [ht]) key) (p2pkhScript (c.env.hashes.hash160 key)) =
      if c.env.sigCheck body key (p2pkhScript (c.env.hashes.hash160 key)) ht.toNat then .ok ()
      else .error .verify :=
  verify_p2pkh c fl body ht key hfl htot hk hs hhl hne

theorem template_accepts_p2pkh (c : Ctx) (fl : Flags) (body : Bytes) (ht : UInt8) (key : Bytes)
    (hfl : fl.admissible = true) (htot : c.SigTotal) (hk : key.length < 0x4c) (hs : body.length + 1 < 0x4c)
    (hhl : (c.env.hashes.hash160 key).length = 20) (hne : body.length + 1 ≠ 20)
    (horacle : c.env.sigCheck body key (p2pkhScript (c.env.hashes.hash160 key)) ht.toNat = true) :
    verifyScript c fl (p2pkhScriptSig (body ++ [ht]) key) (p2pkhScript (c.env.hashes.hash160 key)) = .ok () := by
  rw [p2pkh_verify c fl body ht key hfl htot hk hs hhl hne, horacle]; rfl

/-- … with the right key but a signature the oracle rejects (made by another key / for another digest) -/
theorem template_rejects_wrong_key_p2pkh (c : Ctx) (fl : Flags) (body : Bytes) (ht : UInt8) (key : Bytes)
    (hfl : fl.admissible = true) (htot : c.SigTotal) (hk : key.length < 0x4c) (hs : body.length + 1 < 0x4c)
    (hhl : (c.env.hashes.hash160 key).length = 20) (hne : body.length + 1 ≠ 20)
    (horacle : c.env.sigCheck body key (p2pkhScript (c.env.hashes.hash160 key)) ht.toNat = false) :
    verifyScript c fl (p2pkhScriptSig (body ++ [ht]) key) (p2pkhScript (c.env.hashes.hash160 key)) =
      .error .verify := by
  rw [p2pkh_verify c fl body ht key hfl htot hk hs hhl hne, horacle]; rfl

/-- … with another key altogether (its hash is not the committed one): rejected at OP_EQUALVERIFY with
    an EvalScriptError, whatever the signature and whatever the oracle says.  (That two different keys
    have different HASH160 values is collision resistance — here simply the hypothesis `hne`.) -/
theorem template_rejects_other_key_p2pkh (c : Ctx) (fl : Flags) (sig key h : Bytes)
    (hk : key.length < 0x4c) (hs : sig.length < 0x4c) (hhl : h.length = 20)
    (hne : c.env.hashes.hash160 key ≠ h) :
    ∃ cap, verifyScript c fl (p2pkhScriptSig sig key) (p2pkhScript h) = .error (.eval cap) :=
  verify_p2pkh_other_key c fl sig key h hk hs hhl hne

/-- "valid signatures in key order" is what the multisig loop decides -/
theorem matching_iff_greedy_reverse (chk : Bytes → Bytes → Bool) (sigs keys : List Bytes) :
    greedy chk sigs.reverse keys.reverse = true ↔ Matching chk sigs keys := by
  rw [greedy_iff_matching]
  constructor
  · intro h
    have := h.reverse
    simpa using this
  · exact fun h => h.reverse

/-- bare m-of-n multisig, 1 ≤ m ≤ n ≤ 20: accepted exactly when the m signatures can be assigned, in
    order, to m of the n keys such that the oracle accepts each pair -/
theorem multisig_verify (c : Ctx) (fl : Flags) (m : Nat) (keys sigs : List Bytes)
    (hfl : fl.admissible = true) (htot : c.SigTotal) (hm1 : 1 ≤ m) (hmn : m ≤ keys.length)
    (hn : keys.length ≤ 20) (hsl : sigs.length = m)
    (hk : ∀ k ∈ keys, k.length < 0x4c) (hs : ∀ s ∈ sigs, s.length < 0x4c) (hs1 : ∀ s ∈ sigs, s.length ≠ 1)
    (hne : ∀ s ∈ sigs, ∀ k ∈ keys, s.length ≠ k.length) :
    (Matching (chkSig c.env (multisigScript m keys)) sigs keys →
      verifyScript c fl (multisigScriptSig sigs) (multisigScript m keys) = .ok ()) ∧
    (¬ Matching (chkSig c.env (multisigScript m keys)) sigs keys →
      verifyScript c fl (multisigScriptSig sigs) (multisigScript m keys) = .error .verify) := by
  rw [verify_multisig c fl m keys sigs hfl htot hm1 hmn hn hsl hk hs hs1 hne, ← matching_iff_greedy_reverse]
  constructor
  · intro h; rw [h]; rfl
  · intro h
    have : greedy (chkSig c.env (multisigScript m keys)) sigs.reverse keys.reverse = false := by
      cases hg : greedy (chkSig c.env (multisigScript m keys)) sigs.reverse keys.reverse
      · rfl
      · exact absurd hg h
    rw [this]; rfl

/-- every signature accepted for "its" key, the keys in order (`pos` strictly increasing): accepted -/
theorem template_accepts_multisig (c : Ctx) (fl : Flags) (m : Nat) (keys sigs : List Bytes)
    (hfl : fl.admissible = true) (htot : c.SigTotal) (hm1 : 1 ≤ m) (hmn : m ≤ keys.length)
    (hn : keys.length ≤ 20) (hsl : sigs.length = m)
    (hk : ∀ k ∈ keys, k.length < 0x4c) (hs : ∀ s ∈ sigs, s.length < 0x4c) (hs1 : ∀ s ∈ sigs, s.length ≠ 1)
    (hne : ∀ s ∈ sigs, ∀ k ∈ keys, s.length ≠ k.length)
    (horacle : Matching (chkSig c.env (multisigScript m keys)) sigs keys) :
    verifyScript c fl (multisigScriptSig sigs) (multisigScript m keys) = .ok () :=
  (multisig_verify c fl m keys sigs hfl htot hm1 hmn hn hsl hk hs hs1 hne).1 horacle

/-- signatures repeated from one key, out of key order, or from a key that is not in the script
    admit no such assignment: rejected -/
theorem template_rejects_wrong_key_multisig (c : Ctx) (fl : Flags) (m : Nat) (keys sigs : List Bytes)
    (hfl : fl.admissible = true) (htot : c.SigTotal) (hm1 : 1 ≤ m) (hmn : m ≤ keys.length)
    (hn : keys.length ≤ 20) (hsl : sigs.length = m)
    (hk : ∀ k ∈ keys, k.length < 0x4c) (hs : ∀ s ∈ sigs, s.length < 0x4c) (hs1 : ∀ s ∈ sigs, s.length ≠ 1)
    (hne : ∀ s ∈ sigs, ∀ k ∈ keys, s.length ≠ k.length)
    (horacle : ¬ Matching (chkSig c.env (multisigScript m keys)) sigs keys) :
    verifyScript c fl (multisigScriptSig sigs) (multisigScript m keys) = .error .verify :=
  (multisig_verify c fl m keys sigs hfl htot hm1 hmn hn hsl hk hs hs1 hne).2 horacle

/-- P2SH wrapping of pay-to-pubkey (flag P2SH set) -/
theorem p2sh_p2pk_verify (c : Ctx) (fl : Flags) (body : Bytes) (ht : UInt8) (key : Bytes)
    (hfl : fl.admissible = true) (hp : fl.p2sh = true) (htot : c.SigTotal) (hk : key.length + 2 < 0x4c)
    (hs : body.length + 1 < 0x4c) (hhl : ∀ x, (c.env.hashes.hash160 x).length = 20)
    (hne : body.length + 1 ≠ key.length) :
    verifyScript c fl (p2shScriptSig (p2pkScriptSig (body ++ [ht])) (p2pkScript key))
        (p2shScript (c.env.hashes.hash160 (p2pkScript key))) =
      if c.env.sigCheck body key (p2pkScript key) ht.toNat then .ok () else .error .verify := by
  have hrl : (p2pkScript key).length < 0x4c := by simp [p2pkScript, pushData]; omega
  have : p2shScriptSig (p2pkScriptSig (body ++ [ht])) (p2pkScript key) =
      pushData (body ++ [ht]) ++ pushData (p2pkScript key) := by
    simp only [p2shScriptSig, p2pkScriptSig, pushEnc, hrl, if_true, pushData]
  rw [this]
  exact verify_p2sh_p2pk c fl body ht key hfl hp htot hk hs hhl hne

/-- P2SH wrapping of pay-to-pubkey-hash -/
theorem p2sh_p2pkh_verify (c : Ctx) (fl : Flags) (body : Bytes) (ht : UInt8) (key : Bytes)
    (hfl : fl.admissible = true) (hp : fl.p2sh = true) (htot : c.SigTotal) (hk : key.length < 0x4c)
    (hs : body.length + 1 < 0x4c) (hhl : ∀ x, (c.env.hashes.hash160 x).length = 20) (hne : body.length + 1 ≠ 20) :
    verifyScript c fl
        (p2shScriptSig (p2pkhScriptSig (body ++ [ht]) key) (p2pkhScript (c.env.hashes.hash160 key)))
        (p2shScript (c.env.hashes.hash160 (p2pkhScript (c.env.hashes.hash160 key)))) =
      if c.env.sigCheck body key (p2pkhScript (c.env.hashes.hash160 key)) ht.toNat then .ok ()
      else .error .verify := by
  have hrl : (p2pkhScript (c.env.hashes.hash160 key)).length < 0x4c := by
    simp [p2pkhScript, pushData, hhl key]
  have : p2shScriptSig (p2pkhScriptSig (body ++ [ht]) key) (p2pkhScript (c.env.hashes.hash160 key)) =
      pushData (body ++ [ht]) ++ pushData key ++ pushData (p2pkhScript (c.env.hashes.hash160 key)) := by
    simp only [p2shScriptSig, p2pkhScriptSig, pushEnc, hrl, if_true, pushData]
  rw [this]
  exact verify_p2sh_p2pkh c fl body ht key hfl hp htot hk hs hhl hne

/-- P2SH wrapping of m-of-n multisig (serialised script within the 520-byte element limit) -/
theorem p2sh_multisig_verify (c : Ctx) (fl : Flags) (m : Nat) (keys sigs : List Bytes)
    (hfl : fl.admissible = true) (hp : fl.p2sh = true) (htot : c.SigTotal) (hm1 : 1 ≤ m) (hmn : m ≤ keys.length)
    (hn : keys.length ≤ 20) (hsl : sigs.length = m)
    (hk : ∀ k ∈ keys, k.length < 0x4c) (hs : ∀ s ∈ sigs, s.length < 0x4c) (hs1 : ∀ s ∈ sigs, s.length ≠ 1)
    (hne : ∀ s ∈ sigs, ∀ k ∈ keys, s.length ≠ k.length)
    (hrl : (multisigScript m keys).length ≤ 520) (hhl : ∀ x, (c.env.hashes.hash160 x).length = 20) :
    let redeem := multisigScript m keys
    let spend := verifyScript c fl (p2shScriptSig (multisigScriptSig sigs) redeem)
      (p2shScript (c.env.hashes.hash160 redeem))
    (Matching (chkSig c.env redeem) sigs keys → spend = .ok ()) ∧
    (¬ Matching (chkSig c.env redeem) sigs keys → spend = .error .verify) := by
  intro redeem spend
  have e := verify_p2sh_multisig c fl m keys sigs hfl hp htot hm1 hmn hn hsl hk hs hs1 hne hrl hhl
  simp only at e
  have hspend : spend = if greedy (chkSig c.env redeem) sigs.reverse keys.reverse then .ok () else .error .verify := e
  rw [hspend, ← matching_iff_greedy_reverse]
  constructor
  · intro h; rw [h]; rfl
  · intro h
    have : greedy (chkSig c.env redeem) sigs.reverse keys.reverse = false := by
      cases hg : greedy (chkSig c.env redeem) sigs.reverse keys.reverse
      · rfl
      · exact absurd hg h
    rw [this]; rfl

end templates

/-! ## PART 3 — both parts together: the verdict of VerifyScript under edits of the transaction

  `txCtx hashes ecdsa tx i` is the context in which `VerifyScript(scriptSig, scriptPubKey, tx, i)` runs:
  signatures are checked by `ecdsa body key digest` (ANY function) against the legacy signature hash
  of `tx`.  For every template:
    * an edit that is `Uncommitted` for the hash type of the signature(s) leaves the verdict unchanged
      (no assumption at all);
    * (an edit that is `Uncommitted` needs the side condition `insertSafe`: an insertion beyond the
      end appends, which is "after position i" only if position i exists);
    * for a `Committed` edit that changes a committed part, WHAT IS PROVED is exactly this and no more:
        (a) the digest of the edited transaction differs from the original one, given `hcr`
            (SHA-256d does not collide on the two hashed messages) — `committed_edit_changes_digest`;
        (b) a signature that the verifier does not accept for the digest at hand is rejected by the
            template with VerifyScriptError — `template_rejects_wrong_key_*`.
      The `*_committed_edit_rejects` theorems are the composition of (a) and (b) through the
      hypothesis `hunf : new digest ≠ old digest → ecdsa body key (new digest) = false`.  Under the size
      hypotheses the CONSEQUENT of `hunf` is equivalent to the conclusion (`*_verify`: verdict =
      `if ecdsa … then ok else VerifyScriptError`), so these theorems add to (a) only the plumbing (b):
      they say "IF the old signature does not verify for the new, different digest THEN the spend is
      rejected".  That the old signature does not verify for a new digest is ECDSA unforgeability for
      that instance; it is assumed, never proved, and it is NOT the blanket claim "a signature is valid
      for one digest only", which is false for ECDSA: (r, s) valid for z under secret d also verifies
      for −z − 2rd mod n, and every digest has the representatives z and z + n below 2^256; with the
      abscissa candidates r and r + n this leaves at most a handful (≤ 8) of exceptional 256-bit values
      of the new digest for which `hunf` fails, which an editor of the transaction can hit only by
      inverting SHA-256d (audit 1 F1, audit 2 F1).
      `*_committed_edit_rejects` do not assume that the signature was valid for the ORIGINAL
      transaction; `*_committed_edit_flips` add that (`horacle`, ECDSA correctness of the signer, also
      assumed) and conclude "accepted before ∧ rejected after". -/

section edits
open BtcVerif.Model.ScriptEval BtcVerif.Spec.Script BtcVerif.Spec.Templates BtcVerif.C05T
variable (hashes : Hashes) (ecdsa : Bytes → Bytes → Bytes → Bool) (tx : Tx) (i : Nat) (e : Edit) (fl : Flags)

theorem txCtx_sigTotal : (txCtx hashes ecdsa tx i).SigTotal := ⟨fun _ _ _ _ _ => ⟨_, rfl⟩⟩

/-- the signature oracle of the edited transaction agrees with that of the original on every
    signature whose hash type leaves the edit uncommitted -/
theorem sigCheck_uncommitted_edit (body key sc : Bytes) (ht : Nat) (h : Uncommitted ht i e = true)
    (hsafe : insertSafe i e tx = true) :
    (txEnv hashes ecdsa (apply e tx) i).sigCheck body key sc ht = (txEnv hashes ecdsa tx i).sigCheck body key sc ht := by
  simp only [txEnv, uncommitted_edit_preserves sc tx i ht e h hsafe]

theorem chkSig_uncommitted_edit (sc sig key : Bytes)
    (h : ∀ ht, sig.getLast? = some ht → Uncommitted ht.toNat i e = true) (hsafe : insertSafe i e tx = true) :
    chkSig (txEnv hashes ecdsa (apply e tx) i) sc sig key = chkSig (txEnv hashes ecdsa tx i) sc sig key := by
  unfold chkSig
  cases hl : sig.getLast? with
  | none => rfl
  | some ht => exact sigCheck_uncommitted_edit hashes ecdsa tx i e _ _ _ _ (h ht hl) hsafe

/-- the oracle of the edited transaction rejects what was accepted, under the two cryptographic
    hypotheses -/
theorem sigCheck_committed_edit (body key sc : Bytes) (ht : Nat)
    (hC : Committed ht i e = true) (hch : changes ht i e tx)
    (hsc : sc.length ≤ maxSize) (wf : WFc tx) (wf' : WFc (apply e tx))
    (hr : Regular ht i tx) (hr' : Regular ht i (apply e tx))
    (hcr : Crypto.hash256 (legacyPreimage sc (apply e tx) i ht) = Crypto.hash256 (legacyPreimage sc tx i ht) →
            legacyPreimage sc (apply e tx) i ht = legacyPreimage sc tx i ht)
    (hunf : (legacySighash sc (apply e tx) i ht).1 ≠ (legacySighash sc tx i ht).1 →
      ecdsa body key (legacySighash sc (apply e tx) i ht).1 = false) :
    (txEnv hashes ecdsa (apply e tx) i).sigCheck body key sc ht = false := by
  simp only [txEnv]
  exact hunf (committed_edit_changes_digest sc tx i ht e hC hch hsc wf wf' hr hr' hcr)

/-! ### uncommitted edits: same verdict (no assumption) -/

theorem p2pk_uncommitted_edit_same_verdict (body : Bytes) (ht : UInt8) (key : Bytes)
    (hfl : fl.admissible = true) (hk : key.length < 0x4c) (hs : body.length + 1 < 0x4c)
    (hne : body.length + 1 ≠ key.length) (hU : Uncommitted ht.toNat i e = true) (hsafe : insertSafe i e tx = true) :
    verifyScript (txCtx hashes ecdsa (apply e tx) i) fl (p2pkScriptSig (body ++ [ht])) (p2pkScript key) =
      verifyScript (txCtx hashes ecdsa tx i) fl (p2pkScriptSig (body ++ [ht])) (p2pkScript key) := by
  rw [p2pk_verify _ fl body ht key hfl (txCtx_sigTotal ..) hk hs hne,
    p2pk_verify _ fl body ht key hfl (txCtx_sigTotal ..) hk hs hne]
  show (if (txEnv hashes ecdsa (apply e tx) i).sigCheck _ _ _ _ = true then _ else _) = _
  rw [sigCheck_uncommitted_edit hashes ecdsa tx i e _ _ _ _ hU hsafe]
  rfl

theorem p2pkh_uncommitted_edit_same_verdict (body : Bytes) (ht : UInt8) (key : Bytes)
    (hfl : fl.admissible = true) (hk : key.length < 0x4c) (hs : body.length + 1 < 0x4c)
    (hhl : (hashes.hash160 key).length = 20) (hne : body.length + 1 ≠ 20) (hU : Uncommitted ht.toNat i e = true) (hsafe : insertSafe i e tx = true) :
    verifyScript (txCtx hashes ecdsa (apply e tx) i) fl (p2pkhScriptSig (body ++ [ht]) key)
        (p2pkhScript (hashes.hash160 key)) =
      verifyScript (txCtx hashes ecdsa tx i) fl (p2pkhScriptSig (body ++ [ht]) key)
        (p2pkhScript (hashes.hash160 key)) := by
  have e1 := p2pkh_verify (txCtx hashes ecdsa (apply e tx) i) fl body ht key hfl (txCtx_sigTotal ..) hk hs hhl hne
  have e2 := p2pkh_verify (txCtx hashes ecdsa tx i) fl body ht key hfl (txCtx_sigTotal ..) hk hs hhl hne
  rw [show (txCtx hashes ecdsa (apply e tx) i).env.hashes.hash160 key = hashes.hash160 key from rfl] at e1
  rw [show (txCtx hashes ecdsa tx i).env.hashes.hash160 key = hashes.hash160 key from rfl] at e2
  rw [e1, e2]
  show (if (txEnv hashes ecdsa (apply e tx) i).sigCheck _ _ _ _ = true then _ else _) = _
  rw [sigCheck_uncommitted_edit hashes ecdsa tx i e _ _ _ _ hU hsafe]
  rfl

theorem multisig_uncommitted_edit_same_verdict (m : Nat) (keys sigs : List Bytes)
    (hfl : fl.admissible = true) (hm1 : 1 ≤ m) (hmn : m ≤ keys.length) (hn : keys.length ≤ 20)
    (hsl : sigs.length = m) (hk : ∀ k ∈ keys, k.length < 0x4c) (hs : ∀ s ∈ sigs, s.length < 0x4c)
    (hs1 : ∀ s ∈ sigs, s.length ≠ 1) (hne : ∀ s ∈ sigs, ∀ k ∈ keys, s.length ≠ k.length)
    (hU : ∀ s ∈ sigs, ∀ ht, s.getLast? = some ht → Uncommitted ht.toNat i e = true)
    (hsafe : insertSafe i e tx = true) :
    verifyScript (txCtx hashes ecdsa (apply e tx) i) fl (multisigScriptSig sigs) (multisigScript m keys) =
      verifyScript (txCtx hashes ecdsa tx i) fl (multisigScriptSig sigs) (multisigScript m keys) := by
  rw [verify_multisig _ fl m keys sigs hfl (txCtx_sigTotal ..) hm1 hmn hn hsl hk hs hs1 hne,
    verify_multisig _ fl m keys sigs hfl (txCtx_sigTotal ..) hm1 hmn hn hsl hk hs hs1 hne]
  have : greedy (chkSig (txCtx hashes ecdsa (apply e tx) i).env (multisigScript m keys)) sigs.reverse keys.reverse =
      greedy (chkSig (txCtx hashes ecdsa tx i).env (multisigScript m keys)) sigs.reverse keys.reverse := by
    apply greedy_congr
    intro s hs' k
    exact chkSig_uncommitted_edit hashes ecdsa tx i e _ s k (hU s (by simpa using hs')) hsafe
  rw [this]

/-! ### committed edits: the kept signature is rejected if it does not verify for the new digest -/

theorem p2pk_committed_edit_rejects (body : Bytes) (ht : UInt8) (key : Bytes)
    (hfl : fl.admissible = true) (hk : key.length < 0x4c) (hs : body.length + 1 < 0x4c)
    (hne : body.length + 1 ≠ key.length)
    (hC : Committed ht.toNat i e = true) (hch : changes ht.toNat i e tx)
    (wf : WFc tx) (wf' : WFc (apply e tx)) (hr : Regular ht.toNat i tx) (hr' : Regular ht.toNat i (apply e tx))
    (hcr : Crypto.hash256 (legacyPreimage (p2pkScript key) (apply e tx) i ht.toNat) =
             Crypto.hash256 (legacyPreimage (p2pkScript key) tx i ht.toNat) →
           legacyPreimage (p2pkScript key) (apply e tx) i ht.toNat = legacyPreimage (p2pkScript key) tx i ht.toNat)
    (hunf : (legacySighash (p2pkScript key) (apply e tx) i ht.toNat).1 ≠ (legacySighash (p2pkScript key) tx i ht.toNat).1 →
      ecdsa body key (legacySighash (p2pkScript key) (apply e tx) i ht.toNat).1 = false) :
    verifyScript (txCtx hashes ecdsa (apply e tx) i) fl (p2pkScriptSig (body ++ [ht])) (p2pkScript key) =
      .error .verify := by
  apply template_rejects_wrong_key_p2pk _ fl body ht key hfl (txCtx_sigTotal ..) hk hs hne
  have hsc : (p2pkScript key).length ≤ maxSize := by
    simp [p2pkScript, pushData, maxSize]; omega
  exact sigCheck_committed_edit hashes ecdsa tx i e body key _ _ hC hch hsc wf wf' hr hr' hcr hunf

theorem p2pkh_committed_edit_rejects (body : Bytes) (ht : UInt8) (key : Bytes)
    (hfl : fl.admissible = true) (hk : key.length < 0x4c) (hs : body.length + 1 < 0x4c)
    (hhl : (hashes.hash160 key).length = 20) (hne : body.length + 1 ≠ 20)
    (hC : Committed ht.toNat i e = true) (hch : changes ht.toNat i e tx)
    (wf : WFc tx) (wf' : WFc (apply e tx)) (hr : Regular ht.toNat i tx) (hr' : Regular ht.toNat i (apply e tx))
    (hcr : Crypto.hash256 (legacyPreimage (p2pkhScript (hashes.hash160 key)) (apply e tx) i ht.toNat) =
             Crypto.hash256 (legacyPreimage (p2pkhScript (hashes.hash160 key)) tx i ht.toNat) →
           legacyPreimage (p2pkhScript (hashes.hash160 key)) (apply e tx) i ht.toNat =
             legacyPreimage (p2pkhScript (hashes.hash160 key)) tx i ht.toNat)
    (hunf : (legacySighash (p2pkhScript (hashes.hash160 key)) (apply e tx) i ht.toNat).1 ≠
        (legacySighash (p2pkhScript (hashes.hash160 key)) tx i ht.toNat).1 →
      ecdsa body key (legacySighash (p2pkhScript (hashes.hash160 key)) (apply e tx) i ht.toNat).1 = false) :
    verifyScript (txCtx hashes ecdsa (apply e tx) i) fl (p2pkhScriptSig (body ++ [ht]) key)
        (p2pkhScript (hashes.hash160 key)) = .error .verify := by
  have hsc : (p2pkhScript (hashes.hash160 key)).length ≤ maxSize := by
    simp [p2pkhScript, pushData, maxSize, hhl]
  exact template_rejects_wrong_key_p2pkh (txCtx hashes ecdsa (apply e tx) i) fl body ht key hfl (txCtx_sigTotal ..)
    hk hs hhl hne (sigCheck_committed_edit hashes ecdsa tx i e body key _ _ hC hch hsc wf wf' hr hr' hcr hunf)

/-- the oracle of the edited transaction rejects every signature of the list, whatever the key -/
theorem chkSig_committed_edit (sc : Bytes) (sigs keys : List Bytes) (hsc : sc.length ≤ maxSize)
    (wf : WFc tx) (wf' : WFc (apply e tx))
    (hB : ∀ s ∈ sigs, ∀ ht, s.getLast? = some ht →
      Committed ht.toNat i e = true ∧ changes ht.toNat i e tx ∧ Regular ht.toNat i tx ∧
      Regular ht.toNat i (apply e tx) ∧
      (Crypto.hash256 (legacyPreimage sc (apply e tx) i ht.toNat) = Crypto.hash256 (legacyPreimage sc tx i ht.toNat) →
        legacyPreimage sc (apply e tx) i ht.toNat = legacyPreimage sc tx i ht.toNat) ∧
      (∀ k ∈ keys, (legacySighash sc (apply e tx) i ht.toNat).1 ≠ (legacySighash sc tx i ht.toNat).1 →
        ecdsa s.dropLast k (legacySighash sc (apply e tx) i ht.toNat).1 = false)) :
    ∀ s ∈ sigs, ∀ k ∈ keys, chkSig (txEnv hashes ecdsa (apply e tx) i) sc s k = false := by
  intro s hs k hkm
  unfold chkSig
  cases hl : s.getLast? with
  | none => rfl
  | some ht =>
    obtain ⟨hC, hch, hr, hr', hcr, hunf⟩ := hB s hs ht hl
    exact sigCheck_committed_edit hashes ecdsa tx i e _ k sc _ hC hch hsc wf wf' hr hr' hcr (hunf k hkm)

theorem multisig_committed_edit_rejects (m : Nat) (keys sigs : List Bytes)
    (hfl : fl.admissible = true) (hm1 : 1 ≤ m) (hmn : m ≤ keys.length) (hn : keys.length ≤ 20)
    (hsl : sigs.length = m) (hk : ∀ k ∈ keys, k.length < 0x4c) (hs : ∀ s ∈ sigs, s.length < 0x4c)
    (hs1 : ∀ s ∈ sigs, s.length ≠ 1) (hne : ∀ s ∈ sigs, ∀ k ∈ keys, s.length ≠ k.length)
    (wf : WFc tx) (wf' : WFc (apply e tx))
    (hB : ∀ s ∈ sigs, ∀ ht, s.getLast? = some ht →
      Committed ht.toNat i e = true ∧ changes ht.toNat i e tx ∧ Regular ht.toNat i tx ∧
      Regular ht.toNat i (apply e tx) ∧
      (Crypto.hash256 (legacyPreimage (multisigScript m keys) (apply e tx) i ht.toNat) =
          Crypto.hash256 (legacyPreimage (multisigScript m keys) tx i ht.toNat) →
        legacyPreimage (multisigScript m keys) (apply e tx) i ht.toNat =
          legacyPreimage (multisigScript m keys) tx i ht.toNat) ∧
      (∀ k ∈ keys, (legacySighash (multisigScript m keys) (apply e tx) i ht.toNat).1 ≠
          (legacySighash (multisigScript m keys) tx i ht.toNat).1 →
        ecdsa s.dropLast k (legacySighash (multisigScript m keys) (apply e tx) i ht.toNat).1 = false)) :
    verifyScript (txCtx hashes ecdsa (apply e tx) i) fl (multisigScriptSig sigs) (multisigScript m keys) =
      .error .verify := by
  have hL := pushAll_length_le keys hk
  have hp1 := numPush_length_le m
  have hp2 := numPush_length_le keys.length
  have hsc : (multisigScript m keys).length ≤ maxSize := by
    simp only [multisigScript, List.length_append, List.length_singleton, maxSize]; omega
  rw [verify_multisig _ fl m keys sigs hfl (txCtx_sigTotal ..) hm1 hmn hn hsl hk hs hs1 hne]
  have hf := chkSig_committed_edit hashes ecdsa tx i e (multisigScript m keys) sigs keys hsc wf wf' hB
  have : greedy (chkSig (txCtx hashes ecdsa (apply e tx) i).env (multisigScript m keys)) sigs.reverse keys.reverse =
      false := by
    apply greedy_all_false_mem
    · intro h
      have : sigs.length = 0 := by simpa using congrArg List.length h
      omega
    · intro s hs' k hk'
      exact hf s (by simpa using hs') k (by simpa using hk')
  rw [this]; rfl

/-! ### the same for the P2SH wrappings (the script code is the serialised script) -/

theorem p2sh_p2pkh_uncommitted_edit_same_verdict (body : Bytes) (ht : UInt8) (key : Bytes)
    (hfl : fl.admissible = true) (hp : fl.p2sh = true) (hk : key.length < 0x4c) (hs : body.length + 1 < 0x4c)
    (hhl : ∀ x, (hashes.hash160 x).length = 20) (hne : body.length + 1 ≠ 20) (hU : Uncommitted ht.toNat i e = true) (hsafe : insertSafe i e tx = true) :
    let redeem := p2pkhScript (hashes.hash160 key)
    verifyScript (txCtx hashes ecdsa (apply e tx) i) fl (p2shScriptSig (p2pkhScriptSig (body ++ [ht]) key) redeem)
        (p2shScript (hashes.hash160 redeem)) =
      verifyScript (txCtx hashes ecdsa tx i) fl (p2shScriptSig (p2pkhScriptSig (body ++ [ht]) key) redeem)
        (p2shScript (hashes.hash160 redeem)) := by
  intro redeem
  have e1 := p2sh_p2pkh_verify (txCtx hashes ecdsa (apply e tx) i) fl body ht key hfl hp (txCtx_sigTotal ..) hk hs hhl hne
  have e2 := p2sh_p2pkh_verify (txCtx hashes ecdsa tx i) fl body ht key hfl hp (txCtx_sigTotal ..) hk hs hhl hne
  rw [show (txCtx hashes ecdsa (apply e tx) i).env.hashes = hashes from rfl] at e1
  rw [show (txCtx hashes ecdsa tx i).env.hashes = hashes from rfl] at e2
  rw [e1, e2]
  show (if (txEnv hashes ecdsa (apply e tx) i).sigCheck _ _ _ _ = true then _ else _) = _
  rw [sigCheck_uncommitted_edit hashes ecdsa tx i e _ _ _ _ hU hsafe]
  rfl

theorem p2sh_multisig_uncommitted_edit_same_verdict (m : Nat) (keys sigs : List Bytes)
    (hfl : fl.admissible = true) (hp : fl.p2sh = true) (hm1 : 1 ≤ m) (hmn : m ≤ keys.length)
    (hn : keys.length ≤ 20) (hsl : sigs.length = m) (hk : ∀ k ∈ keys, k.length < 0x4c)
    (hs : ∀ s ∈ sigs, s.length < 0x4c) (hs1 : ∀ s ∈ sigs, s.length ≠ 1)
    (hne : ∀ s ∈ sigs, ∀ k ∈ keys, s.length ≠ k.length)
    (hrl : (multisigScript m keys).length ≤ 520) (hhl : ∀ x, (hashes.hash160 x).length = 20)
    (hU : ∀ s ∈ sigs, ∀ ht, s.getLast? = some ht → Uncommitted ht.toNat i e = true)
    (hsafe : insertSafe i e tx = true) :
    let redeem := multisigScript m keys
    verifyScript (txCtx hashes ecdsa (apply e tx) i) fl (p2shScriptSig (multisigScriptSig sigs) redeem)
        (p2shScript (hashes.hash160 redeem)) =
      verifyScript (txCtx hashes ecdsa tx i) fl (p2shScriptSig (multisigScriptSig sigs) redeem)
        (p2shScript (hashes.hash160 redeem)) := by
  intro redeem
  have e1 := verify_p2sh_multisig (txCtx hashes ecdsa (apply e tx) i) fl m keys sigs hfl hp (txCtx_sigTotal ..)
    hm1 hmn hn hsl hk hs hs1 hne hrl hhl
  have e2 := verify_p2sh_multisig (txCtx hashes ecdsa tx i) fl m keys sigs hfl hp (txCtx_sigTotal ..)
    hm1 hmn hn hsl hk hs hs1 hne hrl hhl
  simp only at e1 e2
  rw [show (txCtx hashes ecdsa (apply e tx) i).env.hashes = hashes from rfl] at e1
  rw [show (txCtx hashes ecdsa tx i).env.hashes = hashes from rfl] at e2
  show verifyScript _ fl (multisigScriptSig sigs ++ pushEnc (multisigScript m keys)) _ =
    verifyScript _ fl (multisigScriptSig sigs ++ pushEnc (multisigScript m keys)) _
  rw [e1, e2]
  have : greedy (chkSig (txCtx hashes ecdsa (apply e tx) i).env (multisigScript m keys)) sigs.reverse keys.reverse =
      greedy (chkSig (txCtx hashes ecdsa tx i).env (multisigScript m keys)) sigs.reverse keys.reverse := by
    apply greedy_congr
    intro s hs' k
    exact chkSig_uncommitted_edit hashes ecdsa tx i e _ s k (hU s (by simpa using hs')) hsafe
  rw [this]

theorem p2sh_p2pk_uncommitted_edit_same_verdict (body : Bytes) (ht : UInt8) (key : Bytes)
    (hfl : fl.admissible = true) (hp : fl.p2sh = true) (hk : key.length + 2 < 0x4c) (hs : body.length + 1 < 0x4c)
    (hhl : ∀ x, (hashes.hash160 x).length = 20) (hne : body.length + 1 ≠ key.length)
    (hU : Uncommitted ht.toNat i e = true) (hsafe : insertSafe i e tx = true) :
    verifyScript (txCtx hashes ecdsa (apply e tx) i) fl
        (p2shScriptSig (p2pkScriptSig (body ++ [ht])) (p2pkScript key)) (p2shScript (hashes.hash160 (p2pkScript key))) =
      verifyScript (txCtx hashes ecdsa tx i) fl
        (p2shScriptSig (p2pkScriptSig (body ++ [ht])) (p2pkScript key)) (p2shScript (hashes.hash160 (p2pkScript key))) := by
  have e1 := p2sh_p2pk_verify (txCtx hashes ecdsa (apply e tx) i) fl body ht key hfl hp (txCtx_sigTotal ..) hk hs hhl hne
  have e2 := p2sh_p2pk_verify (txCtx hashes ecdsa tx i) fl body ht key hfl hp (txCtx_sigTotal ..) hk hs hhl hne
  rw [show (txCtx hashes ecdsa (apply e tx) i).env.hashes = hashes from rfl] at e1
  rw [show (txCtx hashes ecdsa tx i).env.hashes = hashes from rfl] at e2
  rw [e1, e2]
  show (if (txEnv hashes ecdsa (apply e tx) i).sigCheck _ _ _ _ = true then _ else _) = _
  rw [sigCheck_uncommitted_edit hashes ecdsa tx i e _ _ _ _ hU hsafe]
  rfl

theorem p2sh_p2pk_committed_edit_rejects (body : Bytes) (ht : UInt8) (key : Bytes)
    (hfl : fl.admissible = true) (hp : fl.p2sh = true) (hk : key.length + 2 < 0x4c) (hs : body.length + 1 < 0x4c)
    (hhl : ∀ x, (hashes.hash160 x).length = 20) (hne : body.length + 1 ≠ key.length)
    (hC : Committed ht.toNat i e = true) (hch : changes ht.toNat i e tx)
    (wf : WFc tx) (wf' : WFc (apply e tx)) (hr : Regular ht.toNat i tx) (hr' : Regular ht.toNat i (apply e tx))
    (hcr : Crypto.hash256 (legacyPreimage (p2pkScript key) (apply e tx) i ht.toNat) =
             Crypto.hash256 (legacyPreimage (p2pkScript key) tx i ht.toNat) →
           legacyPreimage (p2pkScript key) (apply e tx) i ht.toNat = legacyPreimage (p2pkScript key) tx i ht.toNat)
    (hunf : (legacySighash (p2pkScript key) (apply e tx) i ht.toNat).1 ≠ (legacySighash (p2pkScript key) tx i ht.toNat).1 →
      ecdsa body key (legacySighash (p2pkScript key) (apply e tx) i ht.toNat).1 = false) :
    verifyScript (txCtx hashes ecdsa (apply e tx) i) fl
        (p2shScriptSig (p2pkScriptSig (body ++ [ht])) (p2pkScript key)) (p2shScript (hashes.hash160 (p2pkScript key))) =
      .error .verify := by
  have e1 := p2sh_p2pk_verify (txCtx hashes ecdsa (apply e tx) i) fl body ht key hfl hp (txCtx_sigTotal ..) hk hs hhl hne
  rw [show (txCtx hashes ecdsa (apply e tx) i).env.hashes = hashes from rfl] at e1
  have hsc : (p2pkScript key).length ≤ maxSize := by
    simp [p2pkScript, pushData, maxSize]; omega
  have := sigCheck_committed_edit hashes ecdsa tx i e body key _ _ hC hch hsc wf wf' hr hr' hcr hunf
  rw [e1]
  show (if (txEnv hashes ecdsa (apply e tx) i).sigCheck _ _ _ _ = true then _ else _) = _
  rw [this]; rfl

theorem p2sh_p2pkh_committed_edit_rejects (body : Bytes) (ht : UInt8) (key : Bytes)
    (hfl : fl.admissible = true) (hp : fl.p2sh = true) (hk : key.length < 0x4c) (hs : body.length + 1 < 0x4c)
    (hhl : ∀ x, (hashes.hash160 x).length = 20) (hne : body.length + 1 ≠ 20)
    (hC : Committed ht.toNat i e = true) (hch : changes ht.toNat i e tx)
    (wf : WFc tx) (wf' : WFc (apply e tx)) (hr : Regular ht.toNat i tx) (hr' : Regular ht.toNat i (apply e tx))
    (hcr : Crypto.hash256 (legacyPreimage (p2pkhScript (hashes.hash160 key)) (apply e tx) i ht.toNat) =
             Crypto.hash256 (legacyPreimage (p2pkhScript (hashes.hash160 key)) tx i ht.toNat) →
           legacyPreimage (p2pkhScript (hashes.hash160 key)) (apply e tx) i ht.toNat =
             legacyPreimage (p2pkhScript (hashes.hash160 key)) tx i ht.toNat)
    (hunf : (legacySighash (p2pkhScript (hashes.hash160 key)) (apply e tx) i ht.toNat).1 ≠
        (legacySighash (p2pkhScript (hashes.hash160 key)) tx i ht.toNat).1 →
      ecdsa body key (legacySighash (p2pkhScript (hashes.hash160 key)) (apply e tx) i ht.toNat).1 = false) :
    let redeem := p2pkhScript (hashes.hash160 key)
    verifyScript (txCtx hashes ecdsa (apply e tx) i) fl (p2shScriptSig (p2pkhScriptSig (body ++ [ht]) key) redeem)
        (p2shScript (hashes.hash160 redeem)) = .error .verify := by
  intro redeem
  have e1 := p2sh_p2pkh_verify (txCtx hashes ecdsa (apply e tx) i) fl body ht key hfl hp (txCtx_sigTotal ..) hk hs hhl hne
  rw [show (txCtx hashes ecdsa (apply e tx) i).env.hashes = hashes from rfl] at e1
  have hsc : (p2pkhScript (hashes.hash160 key)).length ≤ maxSize := by
    simp [p2pkhScript, pushData, maxSize, hhl]
  have := sigCheck_committed_edit hashes ecdsa tx i e body key _ _ hC hch hsc wf wf' hr hr' hcr hunf
  rw [e1]
  show (if (txEnv hashes ecdsa (apply e tx) i).sigCheck _ _ _ _ = true then _ else _) = _
  rw [this]; rfl

theorem p2sh_multisig_committed_edit_rejects (m : Nat) (keys sigs : List Bytes)
    (hfl : fl.admissible = true) (hp : fl.p2sh = true) (hm1 : 1 ≤ m) (hmn : m ≤ keys.length)
    (hn : keys.length ≤ 20) (hsl : sigs.length = m) (hk : ∀ k ∈ keys, k.length < 0x4c)
    (hs : ∀ s ∈ sigs, s.length < 0x4c) (hs1 : ∀ s ∈ sigs, s.length ≠ 1)
    (hne : ∀ s ∈ sigs, ∀ k ∈ keys, s.length ≠ k.length)
    (hrl : (multisigScript m keys).length ≤ 520) (hhl : ∀ x, (hashes.hash160 x).length = 20)
    (wf : WFc tx) (wf' : WFc (apply e tx))
    (hB : ∀ s ∈ sigs, ∀ ht, s.getLast? = some ht →
      Committed ht.toNat i e = true ∧ changes ht.toNat i e tx ∧ Regular ht.toNat i tx ∧
      Regular ht.toNat i (apply e tx) ∧
      (Crypto.hash256 (legacyPreimage (multisigScript m keys) (apply e tx) i ht.toNat) =
          Crypto.hash256 (legacyPreimage (multisigScript m keys) tx i ht.toNat) →
        legacyPreimage (multisigScript m keys) (apply e tx) i ht.toNat =
          legacyPreimage (multisigScript m keys) tx i ht.toNat) ∧
      (∀ k ∈ keys, (legacySighash (multisigScript m keys) (apply e tx) i ht.toNat).1 ≠
          (legacySighash (multisigScript m keys) tx i ht.toNat).1 →
        ecdsa s.dropLast k (legacySighash (multisigScript m keys) (apply e tx) i ht.toNat).1 = false)) :
    let redeem := multisigScript m keys
    verifyScript (txCtx hashes ecdsa (apply e tx) i) fl (p2shScriptSig (multisigScriptSig sigs) redeem)
        (p2shScript (hashes.hash160 redeem)) = .error .verify := by
  intro redeem
  have e1 := verify_p2sh_multisig (txCtx hashes ecdsa (apply e tx) i) fl m keys sigs hfl hp (txCtx_sigTotal ..)
    hm1 hmn hn hsl hk hs hs1 hne hrl hhl
  simp only at e1
  rw [show (txCtx hashes ecdsa (apply e tx) i).env.hashes = hashes from rfl] at e1
  show verifyScript _ fl (multisigScriptSig sigs ++ pushEnc (multisigScript m keys)) _ = _
  rw [e1]
  have hsc : (multisigScript m keys).length ≤ maxSize := by simp only [maxSize]; omega
  have hf := chkSig_committed_edit hashes ecdsa tx i e (multisigScript m keys) sigs keys hsc wf wf' hB
  have : greedy (chkSig (txCtx hashes ecdsa (apply e tx) i).env (multisigScript m keys)) sigs.reverse keys.reverse =
      false := by
    apply greedy_all_false_mem
    · intro h
      have : sigs.length = 0 := by simpa using congrArg List.length h
      omega
    · intro s hs' k hk'
      exact hf s (by simpa using hs') k (by simpa using hk')
  rw [this]; rfl

/-! ### accepted before, rejected after

  The `*_committed_edit_rejects` theorems above do not assume that the signature was valid for the
  ORIGINAL transaction.  These do: `horacle` (the verifier accepts the signature for the original
  digest — ECDSA correctness of the signer, a hypothesis) is added and the conclusion is the pair
  "accepted before the edit ∧ VerifyScriptError after it". -/

theorem p2pk_committed_edit_flips (body : Bytes) (ht : UInt8) (key : Bytes)
    (hfl : fl.admissible = true) (hk : key.length < 0x4c) (hs : body.length + 1 < 0x4c)
    (hne : body.length + 1 ≠ key.length)
    (hC : Committed ht.toNat i e = true) (hch : changes ht.toNat i e tx)
    (wf : WFc tx) (wf' : WFc (apply e tx)) (hr : Regular ht.toNat i tx) (hr' : Regular ht.toNat i (apply e tx))
    (hcr : Crypto.hash256 (legacyPreimage (p2pkScript key) (apply e tx) i ht.toNat) =
             Crypto.hash256 (legacyPreimage (p2pkScript key) tx i ht.toNat) →
           legacyPreimage (p2pkScript key) (apply e tx) i ht.toNat = legacyPreimage (p2pkScript key) tx i ht.toNat)
    (hunf : (legacySighash (p2pkScript key) (apply e tx) i ht.toNat).1 ≠ (legacySighash (p2pkScript key) tx i ht.toNat).1 →
      ecdsa body key (legacySighash (p2pkScript key) (apply e tx) i ht.toNat).1 = false)
    (horacle : ecdsa body key (legacySighash (p2pkScript key) tx i ht.toNat).1 = true) :
    (verifyScript (txCtx hashes ecdsa tx i) fl (p2pkScriptSig (body ++ [ht])) (p2pkScript key) = .ok ()) ∧
    (verifyScript (txCtx hashes ecdsa (apply e tx) i) fl (p2pkScriptSig (body ++ [ht])) (p2pkScript key) =
      .error .verify) := by
  exact ⟨template_accepts_p2pk (txCtx hashes ecdsa tx i) fl body ht key hfl (txCtx_sigTotal ..) hk hs hne horacle,
    p2pk_committed_edit_rejects hashes ecdsa tx i e fl body ht key hfl hk hs hne hC hch wf wf' hr hr' hcr hunf⟩

theorem p2pkh_committed_edit_flips (body : Bytes) (ht : UInt8) (key : Bytes)
    (hfl : fl.admissible = true) (hk : key.length < 0x4c) (hs : body.length + 1 < 0x4c)
    (hhl : (hashes.hash160 key).length = 20) (hne : body.length + 1 ≠ 20)
    (hC : Committed ht.toNat i e = true) (hch : changes ht.toNat i e tx)
    (wf : WFc tx) (wf' : WFc (apply e tx)) (hr : Regular ht.toNat i tx) (hr' : Regular ht.toNat i (apply e tx))
    (hcr : Crypto.hash256 (legacyPreimage (p2pkhScript (hashes.hash160 key)) (apply e tx) i ht.toNat) =
             Crypto.hash256 (legacyPreimage (p2pkhScript (hashes.hash160 key)) tx i ht.toNat) →
           legacyPreimage (p2pkhScript (hashes.hash160 key)) (apply e tx) i ht.toNat =
             legacyPreimage (p2pkhScript (hashes.hash160 key)) tx i ht.toNat)
    (hunf : (legacySighash (p2pkhScript (hashes.hash160 key)) (apply e tx) i ht.toNat).1 ≠
        (legacySighash (p2pkhScript (hashes.hash160 key)) tx i ht.toNat).1 →
      ecdsa body key (legacySighash (p2pkhScript (hashes.hash160 key)) (apply e tx) i ht.toNat).1 = false)
    (horacle : ecdsa body key (legacySighash (p2pkhScript (hashes.hash160 key)) tx i ht.toNat).1 = true) :
    (verifyScript (txCtx hashes ecdsa tx i) fl (p2pkhScriptSig (body ++ [ht]) key)
        (p2pkhScript (hashes.hash160 key)) = .ok ()) ∧
    (verifyScript (txCtx hashes ecdsa (apply e tx) i) fl (p2pkhScriptSig (body ++ [ht]) key)
        (p2pkhScript (hashes.hash160 key)) = .error .verify) := by
  exact ⟨template_accepts_p2pkh (txCtx hashes ecdsa tx i) fl body ht key hfl (txCtx_sigTotal ..) hk hs hhl hne horacle,
    p2pkh_committed_edit_rejects hashes ecdsa tx i e fl body ht key hfl hk hs hhl hne hC hch wf wf' hr hr' hcr hunf⟩

theorem multisig_committed_edit_flips (m : Nat) (keys sigs : List Bytes)
    (hfl : fl.admissible = true) (hm1 : 1 ≤ m) (hmn : m ≤ keys.length) (hn : keys.length ≤ 20)
    (hsl : sigs.length = m) (hk : ∀ k ∈ keys, k.length < 0x4c) (hs : ∀ s ∈ sigs, s.length < 0x4c)
    (hs1 : ∀ s ∈ sigs, s.length ≠ 1) (hne : ∀ s ∈ sigs, ∀ k ∈ keys, s.length ≠ k.length)
    (wf : WFc tx) (wf' : WFc (apply e tx))
    (hB : ∀ s ∈ sigs, ∀ ht, s.getLast? = some ht →
      Committed ht.toNat i e = true ∧ changes ht.toNat i e tx ∧ Regular ht.toNat i tx ∧
      Regular ht.toNat i (apply e tx) ∧
      (Crypto.hash256 (legacyPreimage (multisigScript m keys) (apply e tx) i ht.toNat) =
          Crypto.hash256 (legacyPreimage (multisigScript m keys) tx i ht.toNat) →
        legacyPreimage (multisigScript m keys) (apply e tx) i ht.toNat =
          legacyPreimage (multisigScript m keys) tx i ht.toNat) ∧
      (∀ k ∈ keys, (legacySighash (multisigScript m keys) (apply e tx) i ht.toNat).1 ≠
          (legacySighash (multisigScript m keys) tx i ht.toNat).1 →
        ecdsa s.dropLast k (legacySighash (multisigScript m keys) (apply e tx) i ht.toNat).1 = false))
    (horacle : Matching (chkSig (txEnv hashes ecdsa tx i) (multisigScript m keys)) sigs keys) :
    (verifyScript (txCtx hashes ecdsa tx i) fl (multisigScriptSig sigs) (multisigScript m keys) = .ok ()) ∧
    (verifyScript (txCtx hashes ecdsa (apply e tx) i) fl (multisigScriptSig sigs) (multisigScript m keys) =
      .error .verify) := by
  exact ⟨template_accepts_multisig (txCtx hashes ecdsa tx i) fl m keys sigs hfl (txCtx_sigTotal ..) hm1 hmn hn hsl hk hs hs1 hne horacle,
    multisig_committed_edit_rejects hashes ecdsa tx i e fl m keys sigs hfl hm1 hmn hn hsl hk hs hs1 hne wf wf' hB⟩

theorem p2sh_p2pk_committed_edit_flips (body : Bytes) (ht : UInt8) (key : Bytes)
    (hfl : fl.admissible = true) (hp : fl.p2sh = true) (hk : key.length + 2 < 0x4c) (hs : body.length + 1 < 0x4c)
    (hhl : ∀ x, (hashes.hash160 x).length = 20) (hne : body.length + 1 ≠ key.length)
    (hC : Committed ht.toNat i e = true) (hch : changes ht.toNat i e tx)
    (wf : WFc tx) (wf' : WFc (apply e tx)) (hr : Regular ht.toNat i tx) (hr' : Regular ht.toNat i (apply e tx))
    (hcr : Crypto.hash256 (legacyPreimage (p2pkScript key) (apply e tx) i ht.toNat) =
             Crypto.hash256 (legacyPreimage (p2pkScript key) tx i ht.toNat) →
           legacyPreimage (p2pkScript key) (apply e tx) i ht.toNat = legacyPreimage (p2pkScript key) tx i ht.toNat)
    (hunf : (legacySighash (p2pkScript key) (apply e tx) i ht.toNat).1 ≠ (legacySighash (p2pkScript key) tx i ht.toNat).1 →
      ecdsa body key (legacySighash (p2pkScript key) (apply e tx) i ht.toNat).1 = false)
    (horacle : ecdsa body key (legacySighash (p2pkScript key) tx i ht.toNat).1 = true) :
    (verifyScript (txCtx hashes ecdsa tx i) fl
        (p2shScriptSig (p2pkScriptSig (body ++ [ht])) (p2pkScript key)) (p2shScript (hashes.hash160 (p2pkScript key))) = .ok ()) ∧
    (verifyScript (txCtx hashes ecdsa (apply e tx) i) fl
        (p2shScriptSig (p2pkScriptSig (body ++ [ht])) (p2pkScript key)) (p2shScript (hashes.hash160 (p2pkScript key))) =
      .error .verify) := by
  exact ⟨(by
    have := p2sh_p2pk_verify (txCtx hashes ecdsa tx i) fl body ht key hfl hp (txCtx_sigTotal ..) hk hs hhl hne
    rw [show (txCtx hashes ecdsa tx i).env.hashes = hashes from rfl] at this
    rw [this]; exact if_pos horacle),
    p2sh_p2pk_committed_edit_rejects hashes ecdsa tx i e fl body ht key hfl hp hk hs hhl hne hC hch wf wf' hr hr' hcr hunf⟩

theorem p2sh_p2pkh_committed_edit_flips (body : Bytes) (ht : UInt8) (key : Bytes)
    (hfl : fl.admissible = true) (hp : fl.p2sh = true) (hk : key.length < 0x4c) (hs : body.length + 1 < 0x4c)
    (hhl : ∀ x, (hashes.hash160 x).length = 20) (hne : body.length + 1 ≠ 20)
    (hC : Committed ht.toNat i e = true) (hch : changes ht.toNat i e tx)
    (wf : WFc tx) (wf' : WFc (apply e tx)) (hr : Regular ht.toNat i tx) (hr' : Regular ht.toNat i (apply e tx))
    (hcr : Crypto.hash256 (legacyPreimage (p2pkhScript (hashes.hash160 key)) (apply e tx) i ht.toNat) =
             Crypto.hash256 (legacyPreimage (p2pkhScript (hashes.hash160 key)) tx i ht.toNat) →
           legacyPreimage (p2pkhScript (hashes.hash160 key)) (apply e tx) i ht.toNat =
             legacyPreimage (p2pkhScript (hashes.hash160 key)) tx i ht.toNat)
    (hunf : (legacySighash (p2pkhScript (hashes.hash160 key)) (apply e tx) i ht.toNat).1 ≠
        (legacySighash (p2pkhScript (hashes.hash160 key)) tx i ht.toNat).1 →
      ecdsa body key (legacySighash (p2pkhScript (hashes.hash160 key)) (apply e tx) i ht.toNat).1 = false)
    (horacle : ecdsa body key (legacySighash (p2pkhScript (hashes.hash160 key)) tx i ht.toNat).1 = true) :
    let redeem := p2pkhScript (hashes.hash160 key)
    (verifyScript (txCtx hashes ecdsa tx i) fl (p2shScriptSig (p2pkhScriptSig (body ++ [ht]) key) redeem)
        (p2shScript (hashes.hash160 redeem)) = .ok ()) ∧
    (verifyScript (txCtx hashes ecdsa (apply e tx) i) fl (p2shScriptSig (p2pkhScriptSig (body ++ [ht]) key) redeem)
        (p2shScript (hashes.hash160 redeem)) = .error .verify) := by
  intro redeem
  exact ⟨(by
    have := p2sh_p2pkh_verify (txCtx hashes ecdsa tx i) fl body ht key hfl hp (txCtx_sigTotal ..) hk hs hhl hne
    rw [show (txCtx hashes ecdsa tx i).env.hashes = hashes from rfl] at this
    rw [this]; exact if_pos horacle),
    p2sh_p2pkh_committed_edit_rejects hashes ecdsa tx i e fl body ht key hfl hp hk hs hhl hne hC hch wf wf' hr hr' hcr hunf⟩

theorem p2sh_multisig_committed_edit_flips (m : Nat) (keys sigs : List Bytes)
    (hfl : fl.admissible = true) (hp : fl.p2sh = true) (hm1 : 1 ≤ m) (hmn : m ≤ keys.length)
    (hn : keys.length ≤ 20) (hsl : sigs.length = m) (hk : ∀ k ∈ keys, k.length < 0x4c)
    (hs : ∀ s ∈ sigs, s.length < 0x4c) (hs1 : ∀ s ∈ sigs, s.length ≠ 1)
    (hne : ∀ s ∈ sigs, ∀ k ∈ keys, s.length ≠ k.length)
    (hrl : (multisigScript m keys).length ≤ 520) (hhl : ∀ x, (hashes.hash160 x).length = 20)
    (wf : WFc tx) (wf' : WFc (apply e tx))
    (hB : ∀ s ∈ sigs, ∀ ht, s.getLast? = some ht →
      Committed ht.toNat i e = true ∧ changes ht.toNat i e tx ∧ Regular ht.toNat i tx ∧
      Regular ht.toNat i (apply e tx) ∧
      (Crypto.hash256 (legacyPreimage (multisigScript m keys) (apply e tx) i ht.toNat) =
          Crypto.hash256 (legacyPreimage (multisigScript m keys) tx i ht.toNat) →
        legacyPreimage (multisigScript m keys) (apply e tx) i ht.toNat =
          legacyPreimage (multisigScript m keys) tx i ht.toNat) ∧
      (∀ k ∈ keys, (legacySighash (multisigScript m keys) (apply e tx) i ht.toNat).1 ≠
          (legacySighash (multisigScript m keys) tx i ht.toNat).1 →
        ecdsa s.dropLast k (legacySighash (multisigScript m keys) (apply e tx) i ht.toNat).1 = false))
    (horacle : Matching (chkSig (txEnv hashes ecdsa tx i) (multisigScript m keys)) sigs keys) :
    let redeem := multisigScript m keys
    (verifyScript (txCtx hashes ecdsa tx i) fl (p2shScriptSig (multisigScriptSig sigs) redeem)
        (p2shScript (hashes.hash160 redeem)) = .ok ()) ∧
    (verifyScript (txCtx hashes ecdsa (apply e tx) i) fl (p2shScriptSig (multisigScriptSig sigs) redeem)
        (p2shScript (hashes.hash160 redeem)) = .error .verify) := by
  intro redeem
  exact ⟨(p2sh_multisig_verify (txCtx hashes ecdsa tx i) fl m keys sigs hfl hp (txCtx_sigTotal ..) hm1 hmn hn hsl hk hs hs1 hne hrl hhl).1 horacle,
    p2sh_multisig_committed_edit_rejects hashes ecdsa tx i e fl m keys sigs hfl hp hm1 hmn hn hsl hk hs hs1 hne hrl hhl wf wf' hB⟩

end edits


/-! ## PART 4 — the concrete environment of the library model

  `Model.ScriptEval.Real.realCtx tx i` (Model/ScriptEnvReal.lean, engineer c06) is the context the
  model of `VerifyScript(…, tx, i)` really runs in: `_CheckSig` computes
  `Model.Sighash.rawSignatureHash` — the MODEL of the library's `RawSignatureHash` (C03) — and checks
  the signature with SEC1 decoding, strict DER and ECDSA over secp256k1 (`Real.ecdsaCheck`); the hash
  opcodes are the executable SHA-1 / RIPEMD-160 / SHA-256.
  The theorems below compose the template verdicts of Part 2 with C03's `Model = Spec` theorem: the
  side conditions of `C03.raw_eq_spec` (script code tokenises, shorter than 2^64, one-byte hash type)
  are PROVED for every template script code; what remains is `FieldsWF tx` (fields in wire range),
  which also yields `(realCtx tx i).SigTotal` for the index `i ≥ 0` (`realCtx_sigTotal`).
  The HASH160 length hypothesis of Part 2 is discharged for the real hashes (Proofs/CryptoLen).
  So: the digest about which Part 1 speaks (`Spec.Sighash.legacySighash`) is the digest the modelled
  `_CheckSig` verifies, and the verdict of the modelled VerifyScript on a template is exactly
  "ECDSA accepts (signature, key, that digest)". -/

section real
open BtcVerif.Model.ScriptEval BtcVerif.Spec.Script BtcVerif.Spec.Templates BtcVerif.C05T
open BtcVerif.Model.ScriptEval.Real

variable (tx : Tx) (i : Nat) (fl : Flags)

/-- the concrete signature check is ECDSA over the reference digest, for every script code that
    tokenises (C03 `raw_eq_spec` composed with the definition of `realSigCheck`) -/
theorem realSigCheck_eq_spec (body key sc : Bytes) (ht : Nat) (hp : parses sc) (hsc : sc.length < 2 ^ 64)
    (hwf : FieldsWF tx) (hht : ht < 256) :
    (realCtx tx (i : Int)).env.sigCheck body key sc ht = ecdsaCheck body key (legacySighash sc tx i ht).1 :=
  real_sigCheck tx i body key sc ht hp hsc hwf hht

/-- the template script codes tokenise (side condition of C03 discharged) -/
theorem template_script_codes_parse :
    (∀ key : Bytes, key.length < 0x4c → parses (p2pkScript key)) ∧
    (∀ h : Bytes, h.length < 0x4c → parses (p2pkhScript h)) ∧
    (∀ (m : Nat) (keys : List Bytes), (∀ k ∈ keys, k.length < 0x4c) → parses (multisigScript m keys)) :=
  ⟨parses_p2pk, parses_p2pkh, parses_multisig⟩

theorem p2pk_verify_real (body : Bytes) (ht : UInt8) (key : Bytes)
    (hfl : fl.admissible = true) (hwf : FieldsWF tx) (hk : key.length < 0x4c) (hs : body.length + 1 < 0x4c)
    (hne : body.length + 1 ≠ key.length) :
    verifyScript (realCtx tx (i : Int)) fl (p2pkScriptSig (body ++ [ht])) (p2pkScript key) =
      if ecdsaCheck body key (legacySighash (p2pkScript key) tx i ht.toNat).1 then .ok () else .error .verify := by
  have hl : (p2pkScript key).length < 2 ^ 64 := by simp [p2pkScript, pushData]; omega
  rw [p2pk_verify _ fl body ht key hfl (realCtx_sigTotal tx i hwf) hk hs hne,
    realSigCheck_eq_spec tx i body key _ _ (parses_p2pk key hk) hl hwf ht.toNat_lt]

theorem p2pkh_verify_real (body : Bytes) (ht : UInt8) (key : Bytes)
    (hfl : fl.admissible = true) (hwf : FieldsWF tx) (hk : key.length < 0x4c) (hs : body.length + 1 < 0x4c)
    (hne : body.length + 1 ≠ 20) :
    verifyScript (realCtx tx (i : Int)) fl (p2pkhScriptSig (body ++ [ht]) key) (p2pkhScript (realHashes.hash160 key)) =
      if ecdsaCheck body key (legacySighash (p2pkhScript (realHashes.hash160 key)) tx i ht.toNat).1 then .ok ()
      else .error .verify := by
  have hh := realHashes_hash160_length key
  have hl : (p2pkhScript (realHashes.hash160 key)).length < 2 ^ 64 := by simp [p2pkhScript, pushData, hh]
  have e := p2pkh_verify (realCtx tx (i : Int)) fl body ht key hfl (realCtx_sigTotal tx i hwf) hk hs
    (real_hash160_length tx i key) hne
  rw [show (realCtx tx (i : Int)).env.hashes.hash160 key = realHashes.hash160 key from rfl] at e
  rw [e, realSigCheck_eq_spec tx i body key _ _ (parses_p2pkh _ (by omega)) hl hwf ht.toNat_lt]

/-- multisig: the oracle of the matcher is ECDSA over the reference digest -/
theorem multisig_verify_real (m : Nat) (keys sigs : List Bytes)
    (hfl : fl.admissible = true) (hwf : FieldsWF tx) (hm1 : 1 ≤ m) (hmn : m ≤ keys.length)
    (hn : keys.length ≤ 20) (hsl : sigs.length = m)
    (hk : ∀ k ∈ keys, k.length < 0x4c) (hs : ∀ s ∈ sigs, s.length < 0x4c) (hs1 : ∀ s ∈ sigs, s.length ≠ 1)
    (hne : ∀ s ∈ sigs, ∀ k ∈ keys, s.length ≠ k.length) :
    let chk := chkSig (txEnv realHashes ecdsaCheck tx i) (multisigScript m keys)
    (Matching chk sigs keys →
      verifyScript (realCtx tx (i : Int)) fl (multisigScriptSig sigs) (multisigScript m keys) = .ok ()) ∧
    (¬ Matching chk sigs keys →
      verifyScript (realCtx tx (i : Int)) fl (multisigScriptSig sigs) (multisigScript m keys) = .error .verify) := by
  intro chk
  have hl : (multisigScript m keys).length < 2 ^ 64 := by
    have := multisig_length_le m keys hk; omega
  have hchk : chkSig (realCtx tx (i : Int)).env (multisigScript m keys) = chk := by
    funext s k
    exact real_chkSig tx i _ s k (parses_multisig m keys hk) hl hwf
  have := multisig_verify (realCtx tx (i : Int)) fl m keys sigs hfl (realCtx_sigTotal tx i hwf) hm1 hmn hn hsl hk hs hs1 hne
  rw [hchk] at this
  exact this

theorem p2sh_p2pk_verify_real (body : Bytes) (ht : UInt8) (key : Bytes)
    (hfl : fl.admissible = true) (hp : fl.p2sh = true) (hwf : FieldsWF tx) (hk : key.length + 2 < 0x4c)
    (hs : body.length + 1 < 0x4c) (hne : body.length + 1 ≠ key.length) :
    verifyScript (realCtx tx (i : Int)) fl (p2shScriptSig (p2pkScriptSig (body ++ [ht])) (p2pkScript key))
        (p2shScript (realHashes.hash160 (p2pkScript key))) =
      if ecdsaCheck body key (legacySighash (p2pkScript key) tx i ht.toNat).1 then .ok () else .error .verify := by
  have hl : (p2pkScript key).length < 2 ^ 64 := by simp [p2pkScript, pushData]; omega
  have e := p2sh_p2pk_verify (realCtx tx (i : Int)) fl body ht key hfl hp (realCtx_sigTotal tx i hwf) hk hs
    (real_hash160_length tx i) hne
  rw [show (realCtx tx (i : Int)).env.hashes = realHashes from rfl] at e
  rw [e, realSigCheck_eq_spec tx i body key _ _ (parses_p2pk key (by omega)) hl hwf ht.toNat_lt]

theorem p2sh_p2pkh_verify_real (body : Bytes) (ht : UInt8) (key : Bytes)
    (hfl : fl.admissible = true) (hp : fl.p2sh = true) (hwf : FieldsWF tx) (hk : key.length < 0x4c)
    (hs : body.length + 1 < 0x4c) (hne : body.length + 1 ≠ 20) :
    let redeem := p2pkhScript (realHashes.hash160 key)
    verifyScript (realCtx tx (i : Int)) fl (p2shScriptSig (p2pkhScriptSig (body ++ [ht]) key) redeem)
        (p2shScript (realHashes.hash160 redeem)) =
      if ecdsaCheck body key (legacySighash redeem tx i ht.toNat).1 then .ok () else .error .verify := by
  intro redeem
  have hh := realHashes_hash160_length key
  have hl : redeem.length < 2 ^ 64 := by simp [redeem, p2pkhScript, pushData, hh]
  have e := p2sh_p2pkh_verify (realCtx tx (i : Int)) fl body ht key hfl hp (realCtx_sigTotal tx i hwf) hk hs
    (real_hash160_length tx i) hne
  rw [show (realCtx tx (i : Int)).env.hashes = realHashes from rfl] at e
  rw [e, realSigCheck_eq_spec tx i body key _ _ (parses_p2pkh _ (by omega)) hl hwf ht.toNat_lt]

theorem p2sh_multisig_verify_real (m : Nat) (keys sigs : List Bytes)
    (hfl : fl.admissible = true) (hp : fl.p2sh = true) (hwf : FieldsWF tx) (hm1 : 1 ≤ m) (hmn : m ≤ keys.length)
    (hn : keys.length ≤ 20) (hsl : sigs.length = m)
    (hk : ∀ k ∈ keys, k.length < 0x4c) (hs : ∀ s ∈ sigs, s.length < 0x4c) (hs1 : ∀ s ∈ sigs, s.length ≠ 1)
    (hne : ∀ s ∈ sigs, ∀ k ∈ keys, s.length ≠ k.length) (hrl : (multisigScript m keys).length ≤ 520) :
    let redeem := multisigScript m keys
    let chk := chkSig (txEnv realHashes ecdsaCheck tx i) redeem
    let spend := verifyScript (realCtx tx (i : Int)) fl (p2shScriptSig (multisigScriptSig sigs) redeem)
      (p2shScript (realHashes.hash160 redeem))
    (Matching chk sigs keys → spend = .ok ()) ∧ (¬ Matching chk sigs keys → spend = .error .verify) := by
  intro redeem chk spend
  have hchk : chkSig (realCtx tx (i : Int)).env redeem = chk := by
    funext s k
    exact real_chkSig tx i _ s k (parses_multisig m keys hk) (by show (multisigScript m keys).length < 2 ^ 64; omega) hwf
  have := p2sh_multisig_verify (realCtx tx (i : Int)) fl m keys sigs hfl hp (realCtx_sigTotal tx i hwf) hm1 hmn hn hsl hk hs
    hs1 hne hrl (real_hash160_length tx i)
  simp only at this
  rw [show (realCtx tx (i : Int)).env.hashes = realHashes from rfl, hchk] at this
  exact this

end real



section realedits
open BtcVerif.Model.ScriptEval BtcVerif.Spec.Script BtcVerif.Spec.Templates BtcVerif.C05T
open BtcVerif.Model.ScriptEval.Real

/-! ### Part 3 for the real environment

  On every template the verdict in the real context equals the verdict in the reference context
  `txCtx realHashes ecdsaCheck tx i` (`*_real_eq_reference`), so the verdict-under-edit theorems of
  Part 3 hold for the model of the library verbatim (`ecdsa := Real.ecdsaCheck`). -/

variable (tx : Tx) (i : Nat) (e : Edit) (fl : Flags)

theorem fieldsWF_of_WFc {t : Tx} (h : WFc t) : FieldsWF t := by
  obtain ⟨a, b, c, d, e, f, g⟩ := h
  refine ⟨a, b, c, d, e, ?_, g⟩
  intro o ho
  obtain ⟨h1, h2, h3⟩ := f o ho
  exact ⟨h1, h2, by unfold maxSize at h3; omega⟩

theorem p2pk_real_eq_reference (body : Bytes) (ht : UInt8) (key : Bytes)
    (hfl : fl.admissible = true) (hwf : FieldsWF tx) (hk : key.length < 0x4c) (hs : body.length + 1 < 0x4c)
    (hne : body.length + 1 ≠ key.length) :
    verifyScript (realCtx tx (i : Int)) fl (p2pkScriptSig (body ++ [ht])) (p2pkScript key) =
      verifyScript (txCtx realHashes ecdsaCheck tx i) fl (p2pkScriptSig (body ++ [ht])) (p2pkScript key) := by
  rw [p2pk_verify_real tx i fl body ht key hfl hwf hk hs hne,
    p2pk_verify _ fl body ht key hfl (txCtx_sigTotal ..) hk hs hne]
  rfl

theorem p2pkh_real_eq_reference (body : Bytes) (ht : UInt8) (key : Bytes)
    (hfl : fl.admissible = true) (hwf : FieldsWF tx) (hk : key.length < 0x4c) (hs : body.length + 1 < 0x4c)
    (hne : body.length + 1 ≠ 20) :
    verifyScript (realCtx tx (i : Int)) fl (p2pkhScriptSig (body ++ [ht]) key) (p2pkhScript (realHashes.hash160 key)) =
      verifyScript (txCtx realHashes ecdsaCheck tx i) fl (p2pkhScriptSig (body ++ [ht]) key)
        (p2pkhScript (realHashes.hash160 key)) := by
  have e2 := p2pkh_verify (txCtx realHashes ecdsaCheck tx i) fl body ht key hfl (txCtx_sigTotal ..) hk hs
    (realHashes_hash160_length key) hne
  rw [show (txCtx realHashes ecdsaCheck tx i).env.hashes.hash160 key = realHashes.hash160 key from rfl] at e2
  rw [p2pkh_verify_real tx i fl body ht key hfl hwf hk hs hne, e2]
  rfl

theorem multisig_real_eq_reference (m : Nat) (keys sigs : List Bytes)
    (hfl : fl.admissible = true) (hwf : FieldsWF tx) (hm1 : 1 ≤ m) (hmn : m ≤ keys.length)
    (hn : keys.length ≤ 20) (hsl : sigs.length = m)
    (hk : ∀ k ∈ keys, k.length < 0x4c) (hs : ∀ s ∈ sigs, s.length < 0x4c) (hs1 : ∀ s ∈ sigs, s.length ≠ 1)
    (hne : ∀ s ∈ sigs, ∀ k ∈ keys, s.length ≠ k.length) :
    verifyScript (realCtx tx (i : Int)) fl (multisigScriptSig sigs) (multisigScript m keys) =
      verifyScript (txCtx realHashes ecdsaCheck tx i) fl (multisigScriptSig sigs) (multisigScript m keys) := by
  have hl : (multisigScript m keys).length < 2 ^ 64 := by
    have := multisig_length_le m keys hk; omega
  rw [verify_multisig _ fl m keys sigs hfl (realCtx_sigTotal tx i hwf) hm1 hmn hn hsl hk hs hs1 hne,
    verify_multisig _ fl m keys sigs hfl (txCtx_sigTotal ..) hm1 hmn hn hsl hk hs hs1 hne]
  have : chkSig (realCtx tx (i : Int)).env (multisigScript m keys) =
      chkSig (txCtx realHashes ecdsaCheck tx i).env (multisigScript m keys) := by
    funext s k
    exact real_chkSig tx i _ s k (parses_multisig m keys hk) hl hwf
  rw [this]

theorem p2sh_p2pk_real_eq_reference (body : Bytes) (ht : UInt8) (key : Bytes)
    (hfl : fl.admissible = true) (hp : fl.p2sh = true) (hwf : FieldsWF tx) (hk : key.length + 2 < 0x4c)
    (hs : body.length + 1 < 0x4c) (hne : body.length + 1 ≠ key.length) :
    verifyScript (realCtx tx (i : Int)) fl (p2shScriptSig (p2pkScriptSig (body ++ [ht])) (p2pkScript key))
        (p2shScript (realHashes.hash160 (p2pkScript key))) =
      verifyScript (txCtx realHashes ecdsaCheck tx i) fl (p2shScriptSig (p2pkScriptSig (body ++ [ht])) (p2pkScript key))
        (p2shScript (realHashes.hash160 (p2pkScript key))) := by
  have e2 := p2sh_p2pk_verify (txCtx realHashes ecdsaCheck tx i) fl body ht key hfl hp (txCtx_sigTotal ..) hk hs
    realHashes_hash160_length hne
  rw [show (txCtx realHashes ecdsaCheck tx i).env.hashes = realHashes from rfl] at e2
  rw [p2sh_p2pk_verify_real tx i fl body ht key hfl hp hwf hk hs hne, e2]
  rfl

theorem p2sh_p2pkh_real_eq_reference (body : Bytes) (ht : UInt8) (key : Bytes)
    (hfl : fl.admissible = true) (hp : fl.p2sh = true) (hwf : FieldsWF tx) (hk : key.length < 0x4c)
    (hs : body.length + 1 < 0x4c) (hne : body.length + 1 ≠ 20) :
    let redeem := p2pkhScript (realHashes.hash160 key)
    verifyScript (realCtx tx (i : Int)) fl (p2shScriptSig (p2pkhScriptSig (body ++ [ht]) key) redeem)
        (p2shScript (realHashes.hash160 redeem)) =
      verifyScript (txCtx realHashes ecdsaCheck tx i) fl (p2shScriptSig (p2pkhScriptSig (body ++ [ht]) key) redeem)
        (p2shScript (realHashes.hash160 redeem)) := by
  intro redeem
  have e1 := p2sh_p2pkh_verify_real tx i fl body ht key hfl hp hwf hk hs hne
  have e2 := p2sh_p2pkh_verify (txCtx realHashes ecdsaCheck tx i) fl body ht key hfl hp (txCtx_sigTotal ..) hk hs
    realHashes_hash160_length hne
  rw [show (txCtx realHashes ecdsaCheck tx i).env.hashes = realHashes from rfl] at e2
  simp only at e1
  rw [e1, e2]
  rfl

theorem p2sh_multisig_real_eq_reference (m : Nat) (keys sigs : List Bytes)
    (hfl : fl.admissible = true) (hp : fl.p2sh = true) (hwf : FieldsWF tx) (hm1 : 1 ≤ m) (hmn : m ≤ keys.length)
    (hn : keys.length ≤ 20) (hsl : sigs.length = m)
    (hk : ∀ k ∈ keys, k.length < 0x4c) (hs : ∀ s ∈ sigs, s.length < 0x4c) (hs1 : ∀ s ∈ sigs, s.length ≠ 1)
    (hne : ∀ s ∈ sigs, ∀ k ∈ keys, s.length ≠ k.length) (hrl : (multisigScript m keys).length ≤ 520) :
    let redeem := multisigScript m keys
    verifyScript (realCtx tx (i : Int)) fl (p2shScriptSig (multisigScriptSig sigs) redeem)
        (p2shScript (realHashes.hash160 redeem)) =
      verifyScript (txCtx realHashes ecdsaCheck tx i) fl (p2shScriptSig (multisigScriptSig sigs) redeem)
        (p2shScript (realHashes.hash160 redeem)) := by
  intro redeem
  have e1 := verify_p2sh_multisig (realCtx tx (i : Int)) fl m keys sigs hfl hp (realCtx_sigTotal tx i hwf)
    hm1 hmn hn hsl hk hs hs1 hne hrl (real_hash160_length tx i)
  have e2 := verify_p2sh_multisig (txCtx realHashes ecdsaCheck tx i) fl m keys sigs hfl hp (txCtx_sigTotal ..)
    hm1 hmn hn hsl hk hs hs1 hne hrl realHashes_hash160_length
  simp only at e1 e2
  rw [show (realCtx tx (i : Int)).env.hashes = realHashes from rfl] at e1
  rw [show (txCtx realHashes ecdsaCheck tx i).env.hashes = realHashes from rfl] at e2
  show verifyScript _ fl (multisigScriptSig sigs ++ pushEnc (multisigScript m keys)) _ =
    verifyScript _ fl (multisigScriptSig sigs ++ pushEnc (multisigScript m keys)) _
  rw [e1, e2]
  have : chkSig (realCtx tx (i : Int)).env (multisigScript m keys) =
      chkSig (txCtx realHashes ecdsaCheck tx i).env (multisigScript m keys) := by
    funext s k
    exact real_chkSig tx i _ s k (parses_multisig m keys hk) (by omega) hwf
  rw [this]

/-! uncommitted edits, real environment (wire range before and after the edit) -/

theorem p2pk_uncommitted_edit_same_verdict_real (body : Bytes) (ht : UInt8) (key : Bytes)
    (hfl : fl.admissible = true) (hwf : FieldsWF tx) (hwf' : FieldsWF (apply e tx))
    (hk : key.length < 0x4c) (hs : body.length + 1 < 0x4c) (hne : body.length + 1 ≠ key.length)
    (hU : Uncommitted ht.toNat i e = true) (hsafe : insertSafe i e tx = true) :
    verifyScript (realCtx (apply e tx) (i : Int)) fl (p2pkScriptSig (body ++ [ht])) (p2pkScript key) =
      verifyScript (realCtx tx (i : Int)) fl (p2pkScriptSig (body ++ [ht])) (p2pkScript key) := by
  rw [p2pk_real_eq_reference _ i fl body ht key hfl hwf' hk hs hne,
    p2pk_real_eq_reference _ i fl body ht key hfl hwf hk hs hne]
  exact p2pk_uncommitted_edit_same_verdict realHashes ecdsaCheck tx i e fl body ht key hfl hk hs hne hU hsafe

theorem p2pkh_uncommitted_edit_same_verdict_real (body : Bytes) (ht : UInt8) (key : Bytes)
    (hfl : fl.admissible = true) (hwf : FieldsWF tx) (hwf' : FieldsWF (apply e tx))
    (hk : key.length < 0x4c) (hs : body.length + 1 < 0x4c) (hne : body.length + 1 ≠ 20)
    (hU : Uncommitted ht.toNat i e = true) (hsafe : insertSafe i e tx = true) :
    verifyScript (realCtx (apply e tx) (i : Int)) fl (p2pkhScriptSig (body ++ [ht]) key)
        (p2pkhScript (realHashes.hash160 key)) =
      verifyScript (realCtx tx (i : Int)) fl (p2pkhScriptSig (body ++ [ht]) key)
        (p2pkhScript (realHashes.hash160 key)) := by
  rw [p2pkh_real_eq_reference _ i fl body ht key hfl hwf' hk hs hne,
    p2pkh_real_eq_reference _ i fl body ht key hfl hwf hk hs hne]
  exact p2pkh_uncommitted_edit_same_verdict realHashes ecdsaCheck tx i e fl body ht key hfl hk hs
    (realHashes_hash160_length key) hne hU hsafe

theorem multisig_uncommitted_edit_same_verdict_real (m : Nat) (keys sigs : List Bytes)
    (hfl : fl.admissible = true) (hwf : FieldsWF tx) (hwf' : FieldsWF (apply e tx))
    (hm1 : 1 ≤ m) (hmn : m ≤ keys.length) (hn : keys.length ≤ 20)
    (hsl : sigs.length = m) (hk : ∀ k ∈ keys, k.length < 0x4c) (hs : ∀ s ∈ sigs, s.length < 0x4c)
    (hs1 : ∀ s ∈ sigs, s.length ≠ 1) (hne : ∀ s ∈ sigs, ∀ k ∈ keys, s.length ≠ k.length)
    (hU : ∀ s ∈ sigs, ∀ ht, s.getLast? = some ht → Uncommitted ht.toNat i e = true)
    (hsafe : insertSafe i e tx = true) :
    verifyScript (realCtx (apply e tx) (i : Int)) fl (multisigScriptSig sigs) (multisigScript m keys) =
      verifyScript (realCtx tx (i : Int)) fl (multisigScriptSig sigs) (multisigScript m keys) := by
  rw [multisig_real_eq_reference _ i fl m keys sigs hfl hwf' hm1 hmn hn hsl hk hs hs1 hne,
    multisig_real_eq_reference _ i fl m keys sigs hfl hwf hm1 hmn hn hsl hk hs hs1 hne]
  exact multisig_uncommitted_edit_same_verdict realHashes ecdsaCheck tx i e fl m keys sigs hfl hm1 hmn hn hsl hk hs
    hs1 hne hU hsafe

theorem p2sh_p2pk_uncommitted_edit_same_verdict_real (body : Bytes) (ht : UInt8) (key : Bytes)
    (hfl : fl.admissible = true) (hp : fl.p2sh = true) (hwf : FieldsWF tx) (hwf' : FieldsWF (apply e tx))
    (hk : key.length + 2 < 0x4c) (hs : body.length + 1 < 0x4c) (hne : body.length + 1 ≠ key.length)
    (hU : Uncommitted ht.toNat i e = true) (hsafe : insertSafe i e tx = true) :
    verifyScript (realCtx (apply e tx) (i : Int)) fl
        (p2shScriptSig (p2pkScriptSig (body ++ [ht])) (p2pkScript key)) (p2shScript (realHashes.hash160 (p2pkScript key))) =
      verifyScript (realCtx tx (i : Int)) fl
        (p2shScriptSig (p2pkScriptSig (body ++ [ht])) (p2pkScript key)) (p2shScript (realHashes.hash160 (p2pkScript key))) := by
  rw [p2sh_p2pk_real_eq_reference _ i fl body ht key hfl hp hwf' hk hs hne,
    p2sh_p2pk_real_eq_reference _ i fl body ht key hfl hp hwf hk hs hne]
  exact p2sh_p2pk_uncommitted_edit_same_verdict realHashes ecdsaCheck tx i e fl body ht key hfl hp hk hs
    realHashes_hash160_length hne hU hsafe

theorem p2sh_p2pkh_uncommitted_edit_same_verdict_real (body : Bytes) (ht : UInt8) (key : Bytes)
    (hfl : fl.admissible = true) (hp : fl.p2sh = true) (hwf : FieldsWF tx) (hwf' : FieldsWF (apply e tx))
    (hk : key.length < 0x4c) (hs : body.length + 1 < 0x4c) (hne : body.length + 1 ≠ 20)
    (hU : Uncommitted ht.toNat i e = true) (hsafe : insertSafe i e tx = true) :
    let redeem := p2pkhScript (realHashes.hash160 key)
    verifyScript (realCtx (apply e tx) (i : Int)) fl (p2shScriptSig (p2pkhScriptSig (body ++ [ht]) key) redeem)
        (p2shScript (realHashes.hash160 redeem)) =
      verifyScript (realCtx tx (i : Int)) fl (p2shScriptSig (p2pkhScriptSig (body ++ [ht]) key) redeem)
        (p2shScript (realHashes.hash160 redeem)) := by
  intro redeem
  have a := p2sh_p2pkh_real_eq_reference (apply e tx) i fl body ht key hfl hp hwf' hk hs hne
  have b := p2sh_p2pkh_real_eq_reference tx i fl body ht key hfl hp hwf hk hs hne
  simp only at a b
  rw [a, b]
  exact p2sh_p2pkh_uncommitted_edit_same_verdict realHashes ecdsaCheck tx i e fl body ht key hfl hp hk hs
    realHashes_hash160_length hne hU hsafe

theorem p2sh_multisig_uncommitted_edit_same_verdict_real (m : Nat) (keys sigs : List Bytes)
    (hfl : fl.admissible = true) (hp : fl.p2sh = true) (hwf : FieldsWF tx) (hwf' : FieldsWF (apply e tx))
    (hm1 : 1 ≤ m) (hmn : m ≤ keys.length) (hn : keys.length ≤ 20) (hsl : sigs.length = m)
    (hk : ∀ k ∈ keys, k.length < 0x4c) (hs : ∀ s ∈ sigs, s.length < 0x4c) (hs1 : ∀ s ∈ sigs, s.length ≠ 1)
    (hne : ∀ s ∈ sigs, ∀ k ∈ keys, s.length ≠ k.length) (hrl : (multisigScript m keys).length ≤ 520)
    (hU : ∀ s ∈ sigs, ∀ ht, s.getLast? = some ht → Uncommitted ht.toNat i e = true)
    (hsafe : insertSafe i e tx = true) :
    let redeem := multisigScript m keys
    verifyScript (realCtx (apply e tx) (i : Int)) fl (p2shScriptSig (multisigScriptSig sigs) redeem)
        (p2shScript (realHashes.hash160 redeem)) =
      verifyScript (realCtx tx (i : Int)) fl (p2shScriptSig (multisigScriptSig sigs) redeem)
        (p2shScript (realHashes.hash160 redeem)) := by
  intro redeem
  have a := p2sh_multisig_real_eq_reference (apply e tx) i fl m keys sigs hfl hp hwf' hm1 hmn hn hsl hk hs hs1 hne hrl
  have b := p2sh_multisig_real_eq_reference tx i fl m keys sigs hfl hp hwf hm1 hmn hn hsl hk hs hs1 hne hrl
  simp only at a b
  rw [a, b]
  exact p2sh_multisig_uncommitted_edit_same_verdict realHashes ecdsaCheck tx i e fl m keys sigs hfl hp hm1 hmn hn hsl
    hk hs hs1 hne hrl realHashes_hash160_length hU hsafe

/-! committed edits, real environment: `hunf` now speaks about the real verifier `Real.ecdsaCheck`
    (same remark: composition of `committed_edit_changes_digest` with the template's closed form) -/

theorem p2pk_committed_edit_rejects_real (body : Bytes) (ht : UInt8) (key : Bytes)
    (hfl : fl.admissible = true) (hk : key.length < 0x4c) (hs : body.length + 1 < 0x4c)
    (hne : body.length + 1 ≠ key.length)
    (hC : Committed ht.toNat i e = true) (hch : changes ht.toNat i e tx)
    (wf : WFc tx) (wf' : WFc (apply e tx)) (hr : Regular ht.toNat i tx) (hr' : Regular ht.toNat i (apply e tx))
    (hcr : Crypto.hash256 (legacyPreimage (p2pkScript key) (apply e tx) i ht.toNat) =
             Crypto.hash256 (legacyPreimage (p2pkScript key) tx i ht.toNat) →
           legacyPreimage (p2pkScript key) (apply e tx) i ht.toNat = legacyPreimage (p2pkScript key) tx i ht.toNat)
    (hunf : (legacySighash (p2pkScript key) (apply e tx) i ht.toNat).1 ≠ (legacySighash (p2pkScript key) tx i ht.toNat).1 →
      ecdsaCheck body key (legacySighash (p2pkScript key) (apply e tx) i ht.toNat).1 = false) :
    verifyScript (realCtx (apply e tx) (i : Int)) fl (p2pkScriptSig (body ++ [ht])) (p2pkScript key) =
      .error .verify := by
  rw [p2pk_real_eq_reference _ i fl body ht key hfl (fieldsWF_of_WFc wf') hk hs hne]
  exact p2pk_committed_edit_rejects realHashes ecdsaCheck tx i e fl body ht key hfl hk hs hne hC hch wf wf' hr hr'
    hcr hunf

theorem p2pkh_committed_edit_rejects_real (body : Bytes) (ht : UInt8) (key : Bytes)
    (hfl : fl.admissible = true) (hk : key.length < 0x4c) (hs : body.length + 1 < 0x4c) (hne : body.length + 1 ≠ 20)
    (hC : Committed ht.toNat i e = true) (hch : changes ht.toNat i e tx)
    (wf : WFc tx) (wf' : WFc (apply e tx)) (hr : Regular ht.toNat i tx) (hr' : Regular ht.toNat i (apply e tx))
    (hcr : Crypto.hash256 (legacyPreimage (p2pkhScript (realHashes.hash160 key)) (apply e tx) i ht.toNat) =
             Crypto.hash256 (legacyPreimage (p2pkhScript (realHashes.hash160 key)) tx i ht.toNat) →
           legacyPreimage (p2pkhScript (realHashes.hash160 key)) (apply e tx) i ht.toNat =
             legacyPreimage (p2pkhScript (realHashes.hash160 key)) tx i ht.toNat)
    (hunf : (legacySighash (p2pkhScript (realHashes.hash160 key)) (apply e tx) i ht.toNat).1 ≠
        (legacySighash (p2pkhScript (realHashes.hash160 key)) tx i ht.toNat).1 →
      ecdsaCheck body key (legacySighash (p2pkhScript (realHashes.hash160 key)) (apply e tx) i ht.toNat).1 = false) :
    verifyScript (realCtx (apply e tx) (i : Int)) fl (p2pkhScriptSig (body ++ [ht]) key)
        (p2pkhScript (realHashes.hash160 key)) = .error .verify := by
  rw [p2pkh_real_eq_reference _ i fl body ht key hfl (fieldsWF_of_WFc wf') hk hs hne]
  exact p2pkh_committed_edit_rejects realHashes ecdsaCheck tx i e fl body ht key hfl hk hs
    (realHashes_hash160_length key) hne hC hch wf wf' hr hr' hcr hunf

theorem multisig_committed_edit_rejects_real (m : Nat) (keys sigs : List Bytes)
    (hfl : fl.admissible = true) (hm1 : 1 ≤ m) (hmn : m ≤ keys.length) (hn : keys.length ≤ 20)
    (hsl : sigs.length = m) (hk : ∀ k ∈ keys, k.length < 0x4c) (hs : ∀ s ∈ sigs, s.length < 0x4c)
    (hs1 : ∀ s ∈ sigs, s.length ≠ 1) (hne : ∀ s ∈ sigs, ∀ k ∈ keys, s.length ≠ k.length)
    (wf : WFc tx) (wf' : WFc (apply e tx))
    (hB : ∀ s ∈ sigs, ∀ ht, s.getLast? = some ht →
      Committed ht.toNat i e = true ∧ changes ht.toNat i e tx ∧ Regular ht.toNat i tx ∧
      Regular ht.toNat i (apply e tx) ∧
      (Crypto.hash256 (legacyPreimage (multisigScript m keys) (apply e tx) i ht.toNat) =
          Crypto.hash256 (legacyPreimage (multisigScript m keys) tx i ht.toNat) →
        legacyPreimage (multisigScript m keys) (apply e tx) i ht.toNat =
          legacyPreimage (multisigScript m keys) tx i ht.toNat) ∧
      (∀ k ∈ keys, (legacySighash (multisigScript m keys) (apply e tx) i ht.toNat).1 ≠
          (legacySighash (multisigScript m keys) tx i ht.toNat).1 →
        ecdsaCheck s.dropLast k (legacySighash (multisigScript m keys) (apply e tx) i ht.toNat).1 = false)) :
    verifyScript (realCtx (apply e tx) (i : Int)) fl (multisigScriptSig sigs) (multisigScript m keys) =
      .error .verify := by
  rw [multisig_real_eq_reference _ i fl m keys sigs hfl (fieldsWF_of_WFc wf') hm1 hmn hn hsl hk hs hs1 hne]
  exact multisig_committed_edit_rejects realHashes ecdsaCheck tx i e fl m keys sigs hfl hm1 hmn hn hsl hk hs hs1 hne
    wf wf' hB

theorem p2sh_p2pk_committed_edit_rejects_real (body : Bytes) (ht : UInt8) (key : Bytes)
    (hfl : fl.admissible = true) (hp : fl.p2sh = true) (hk : key.length + 2 < 0x4c) (hs : body.length + 1 < 0x4c)
    (hne : body.length + 1 ≠ key.length)
    (hC : Committed ht.toNat i e = true) (hch : changes ht.toNat i e tx)
    (wf : WFc tx) (wf' : WFc (apply e tx)) (hr : Regular ht.toNat i tx) (hr' : Regular ht.toNat i (apply e tx))
    (hcr : Crypto.hash256 (legacyPreimage (p2pkScript key) (apply e tx) i ht.toNat) =
             Crypto.hash256 (legacyPreimage (p2pkScript key) tx i ht.toNat) →
           legacyPreimage (p2pkScript key) (apply e tx) i ht.toNat = legacyPreimage (p2pkScript key) tx i ht.toNat)
    (hunf : (legacySighash (p2pkScript key) (apply e tx) i ht.toNat).1 ≠ (legacySighash (p2pkScript key) tx i ht.toNat).1 →
      ecdsaCheck body key (legacySighash (p2pkScript key) (apply e tx) i ht.toNat).1 = false) :
    verifyScript (realCtx (apply e tx) (i : Int)) fl
        (p2shScriptSig (p2pkScriptSig (body ++ [ht])) (p2pkScript key)) (p2shScript (realHashes.hash160 (p2pkScript key))) =
      .error .verify := by
  rw [p2sh_p2pk_real_eq_reference _ i fl body ht key hfl hp (fieldsWF_of_WFc wf') hk hs hne]
  exact p2sh_p2pk_committed_edit_rejects realHashes ecdsaCheck tx i e fl body ht key hfl hp hk hs
    realHashes_hash160_length hne hC hch wf wf' hr hr' hcr hunf

theorem p2sh_p2pkh_committed_edit_rejects_real (body : Bytes) (ht : UInt8) (key : Bytes)
    (hfl : fl.admissible = true) (hp : fl.p2sh = true) (hk : key.length < 0x4c) (hs : body.length + 1 < 0x4c)
    (hne : body.length + 1 ≠ 20)
    (hC : Committed ht.toNat i e = true) (hch : changes ht.toNat i e tx)
    (wf : WFc tx) (wf' : WFc (apply e tx)) (hr : Regular ht.toNat i tx) (hr' : Regular ht.toNat i (apply e tx))
    (hcr : Crypto.hash256 (legacyPreimage (p2pkhScript (realHashes.hash160 key)) (apply e tx) i ht.toNat) =
             Crypto.hash256 (legacyPreimage (p2pkhScript (realHashes.hash160 key)) tx i ht.toNat) →
           legacyPreimage (p2pkhScript (realHashes.hash160 key)) (apply e tx) i ht.toNat =
             legacyPreimage (p2pkhScript (realHashes.hash160 key)) tx i ht.toNat)
    (hunf : (legacySighash (p2pkhScript (realHashes.hash160 key)) (apply e tx) i ht.toNat).1 ≠
        (legacySighash (p2pkhScript (realHashes.hash160 key)) tx i ht.toNat).1 →
      ecdsaCheck body key (legacySighash (p2pkhScript (realHashes.hash160 key)) (apply e tx) i ht.toNat).1 = false) :
    let redeem := p2pkhScript (realHashes.hash160 key)
    verifyScript (realCtx (apply e tx) (i : Int)) fl (p2shScriptSig (p2pkhScriptSig (body ++ [ht]) key) redeem)
        (p2shScript (realHashes.hash160 redeem)) = .error .verify := by
  intro redeem
  have a := p2sh_p2pkh_real_eq_reference (apply e tx) i fl body ht key hfl hp (fieldsWF_of_WFc wf') hk hs hne
  simp only at a
  rw [a]
  exact p2sh_p2pkh_committed_edit_rejects realHashes ecdsaCheck tx i e fl body ht key hfl hp hk hs
    realHashes_hash160_length hne hC hch wf wf' hr hr' hcr hunf

theorem p2sh_multisig_committed_edit_rejects_real (m : Nat) (keys sigs : List Bytes)
    (hfl : fl.admissible = true) (hp : fl.p2sh = true) (hm1 : 1 ≤ m) (hmn : m ≤ keys.length)
    (hn : keys.length ≤ 20) (hsl : sigs.length = m) (hk : ∀ k ∈ keys, k.length < 0x4c)
    (hs : ∀ s ∈ sigs, s.length < 0x4c) (hs1 : ∀ s ∈ sigs, s.length ≠ 1)
    (hne : ∀ s ∈ sigs, ∀ k ∈ keys, s.length ≠ k.length) (hrl : (multisigScript m keys).length ≤ 520)
    (wf : WFc tx) (wf' : WFc (apply e tx))
    (hB : ∀ s ∈ sigs, ∀ ht, s.getLast? = some ht →
      Committed ht.toNat i e = true ∧ changes ht.toNat i e tx ∧ Regular ht.toNat i tx ∧
      Regular ht.toNat i (apply e tx) ∧
      (Crypto.hash256 (legacyPreimage (multisigScript m keys) (apply e tx) i ht.toNat) =
          Crypto.hash256 (legacyPreimage (multisigScript m keys) tx i ht.toNat) →
        legacyPreimage (multisigScript m keys) (apply e tx) i ht.toNat =
          legacyPreimage (multisigScript m keys) tx i ht.toNat) ∧
      (∀ k ∈ keys, (legacySighash (multisigScript m keys) (apply e tx) i ht.toNat).1 ≠
          (legacySighash (multisigScript m keys) tx i ht.toNat).1 →
        ecdsaCheck s.dropLast k (legacySighash (multisigScript m keys) (apply e tx) i ht.toNat).1 = false)) :
    let redeem := multisigScript m keys
    verifyScript (realCtx (apply e tx) (i : Int)) fl (p2shScriptSig (multisigScriptSig sigs) redeem)
        (p2shScript (realHashes.hash160 redeem)) = .error .verify := by
  intro redeem
  have a := p2sh_multisig_real_eq_reference (apply e tx) i fl m keys sigs hfl hp (fieldsWF_of_WFc wf') hm1 hmn hn hsl
    hk hs hs1 hne hrl
  simp only at a
  rw [a]
  exact p2sh_multisig_committed_edit_rejects realHashes ecdsaCheck tx i e fl m keys sigs hfl hp hm1 hmn hn hsl hk hs
    hs1 hne hrl realHashes_hash160_length wf wf' hB

/-! accepted before ∧ rejected after, real environment -/

theorem p2pk_committed_edit_flips_real (body : Bytes) (ht : UInt8) (key : Bytes)
    (hfl : fl.admissible = true) (hk : key.length < 0x4c) (hs : body.length + 1 < 0x4c)
    (hne : body.length + 1 ≠ key.length)
    (hC : Committed ht.toNat i e = true) (hch : changes ht.toNat i e tx)
    (wf : WFc tx) (wf' : WFc (apply e tx)) (hr : Regular ht.toNat i tx) (hr' : Regular ht.toNat i (apply e tx))
    (hcr : Crypto.hash256 (legacyPreimage (p2pkScript key) (apply e tx) i ht.toNat) =
             Crypto.hash256 (legacyPreimage (p2pkScript key) tx i ht.toNat) →
           legacyPreimage (p2pkScript key) (apply e tx) i ht.toNat = legacyPreimage (p2pkScript key) tx i ht.toNat)
    (hunf : (legacySighash (p2pkScript key) (apply e tx) i ht.toNat).1 ≠ (legacySighash (p2pkScript key) tx i ht.toNat).1 →
      ecdsaCheck body key (legacySighash (p2pkScript key) (apply e tx) i ht.toNat).1 = false)
    (horacle : ecdsaCheck body key (legacySighash (p2pkScript key) tx i ht.toNat).1 = true) :
    (verifyScript (realCtx tx (i : Int)) fl (p2pkScriptSig (body ++ [ht])) (p2pkScript key) = .ok ()) ∧
    (verifyScript (realCtx (apply e tx) (i : Int)) fl (p2pkScriptSig (body ++ [ht])) (p2pkScript key) =
      .error .verify) := by
  exact ⟨(by rw [p2pk_verify_real tx i fl body ht key hfl (fieldsWF_of_WFc wf) hk hs hne]; exact if_pos horacle),
    p2pk_committed_edit_rejects_real tx i e fl body ht key hfl hk hs hne hC hch wf wf' hr hr' hcr hunf⟩

theorem p2pkh_committed_edit_flips_real (body : Bytes) (ht : UInt8) (key : Bytes)
    (hfl : fl.admissible = true) (hk : key.length < 0x4c) (hs : body.length + 1 < 0x4c) (hne : body.length + 1 ≠ 20)
    (hC : Committed ht.toNat i e = true) (hch : changes ht.toNat i e tx)
    (wf : WFc tx) (wf' : WFc (apply e tx)) (hr : Regular ht.toNat i tx) (hr' : Regular ht.toNat i (apply e tx))
    (hcr : Crypto.hash256 (legacyPreimage (p2pkhScript (realHashes.hash160 key)) (apply e tx) i ht.toNat) =
             Crypto.hash256 (legacyPreimage (p2pkhScript (realHashes.hash160 key)) tx i ht.toNat) →
           legacyPreimage (p2pkhScript (realHashes.hash160 key)) (apply e tx) i ht.toNat =
             legacyPreimage (p2pkhScript (realHashes.hash160 key)) tx i ht.toNat)
    (hunf : (legacySighash (p2pkhScript (realHashes.hash160 key)) (apply e tx) i ht.toNat).1 ≠
        (legacySighash (p2pkhScript (realHashes.hash160 key)) tx i ht.toNat).1 →
      ecdsaCheck body key (legacySighash (p2pkhScript (realHashes.hash160 key)) (apply e tx) i ht.toNat).1 = false)
    (horacle : ecdsaCheck body key (legacySighash (p2pkhScript (realHashes.hash160 key)) tx i ht.toNat).1 = true) :
    (verifyScript (realCtx tx (i : Int)) fl (p2pkhScriptSig (body ++ [ht]) key)
        (p2pkhScript (realHashes.hash160 key)) = .ok ()) ∧
    (verifyScript (realCtx (apply e tx) (i : Int)) fl (p2pkhScriptSig (body ++ [ht]) key)
        (p2pkhScript (realHashes.hash160 key)) = .error .verify) := by
  exact ⟨(by rw [p2pkh_verify_real tx i fl body ht key hfl (fieldsWF_of_WFc wf) hk hs hne]; exact if_pos horacle),
    p2pkh_committed_edit_rejects_real tx i e fl body ht key hfl hk hs hne hC hch wf wf' hr hr' hcr hunf⟩

theorem multisig_committed_edit_flips_real (m : Nat) (keys sigs : List Bytes)
    (hfl : fl.admissible = true) (hm1 : 1 ≤ m) (hmn : m ≤ keys.length) (hn : keys.length ≤ 20)
    (hsl : sigs.length = m) (hk : ∀ k ∈ keys, k.length < 0x4c) (hs : ∀ s ∈ sigs, s.length < 0x4c)
    (hs1 : ∀ s ∈ sigs, s.length ≠ 1) (hne : ∀ s ∈ sigs, ∀ k ∈ keys, s.length ≠ k.length)
    (wf : WFc tx) (wf' : WFc (apply e tx))
    (hB : ∀ s ∈ sigs, ∀ ht, s.getLast? = some ht →
      Committed ht.toNat i e = true ∧ changes ht.toNat i e tx ∧ Regular ht.toNat i tx ∧
      Regular ht.toNat i (apply e tx) ∧
      (Crypto.hash256 (legacyPreimage (multisigScript m keys) (apply e tx) i ht.toNat) =
          Crypto.hash256 (legacyPreimage (multisigScript m keys) tx i ht.toNat) →
        legacyPreimage (multisigScript m keys) (apply e tx) i ht.toNat =
          legacyPreimage (multisigScript m keys) tx i ht.toNat) ∧
      (∀ k ∈ keys, (legacySighash (multisigScript m keys) (apply e tx) i ht.toNat).1 ≠
          (legacySighash (multisigScript m keys) tx i ht.toNat).1 →
        ecdsaCheck s.dropLast k (legacySighash (multisigScript m keys) (apply e tx) i ht.toNat).1 = false))
    (horacle : Matching (chkSig (txEnv realHashes ecdsaCheck tx i) (multisigScript m keys)) sigs keys) :
    (verifyScript (realCtx tx (i : Int)) fl (multisigScriptSig sigs) (multisigScript m keys) = .ok ()) ∧
    (verifyScript (realCtx (apply e tx) (i : Int)) fl (multisigScriptSig sigs) (multisigScript m keys) =
      .error .verify) := by
  exact ⟨(multisig_verify_real tx i fl m keys sigs hfl (fieldsWF_of_WFc wf) hm1 hmn hn hsl hk hs hs1 hne).1 horacle,
    multisig_committed_edit_rejects_real tx i e fl m keys sigs hfl hm1 hmn hn hsl hk hs hs1 hne wf wf' hB⟩

theorem p2sh_p2pk_committed_edit_flips_real (body : Bytes) (ht : UInt8) (key : Bytes)
    (hfl : fl.admissible = true) (hp : fl.p2sh = true) (hk : key.length + 2 < 0x4c) (hs : body.length + 1 < 0x4c)
    (hne : body.length + 1 ≠ key.length)
    (hC : Committed ht.toNat i e = true) (hch : changes ht.toNat i e tx)
    (wf : WFc tx) (wf' : WFc (apply e tx)) (hr : Regular ht.toNat i tx) (hr' : Regular ht.toNat i (apply e tx))
    (hcr : Crypto.hash256 (legacyPreimage (p2pkScript key) (apply e tx) i ht.toNat) =
             Crypto.hash256 (legacyPreimage (p2pkScript key) tx i ht.toNat) →
           legacyPreimage (p2pkScript key) (apply e tx) i ht.toNat = legacyPreimage (p2pkScript key) tx i ht.toNat)
    (hunf : (legacySighash (p2pkScript key) (apply e tx) i ht.toNat).1 ≠ (legacySighash (p2pkScript key) tx i ht.toNat).1 →
      ecdsaCheck body key (legacySighash (p2pkScript key) (apply e tx) i ht.toNat).1 = false)
    (horacle : ecdsaCheck body key (legacySighash (p2pkScript key) tx i ht.toNat).1 = true) :
    (verifyScript (realCtx tx (i : Int)) fl
        (p2shScriptSig (p2pkScriptSig (body ++ [ht])) (p2pkScript key)) (p2shScript (realHashes.hash160 (p2pkScript key))) = .ok ()) ∧
    (verifyScript (realCtx (apply e tx) (i : Int)) fl
        (p2shScriptSig (p2pkScriptSig (body ++ [ht])) (p2pkScript key)) (p2shScript (realHashes.hash160 (p2pkScript key))) =
      .error .verify) := by
  exact ⟨(by rw [p2sh_p2pk_verify_real tx i fl body ht key hfl hp (fieldsWF_of_WFc wf) hk hs hne]; exact if_pos horacle),
    p2sh_p2pk_committed_edit_rejects_real tx i e fl body ht key hfl hp hk hs hne hC hch wf wf' hr hr' hcr hunf⟩

theorem p2sh_p2pkh_committed_edit_flips_real (body : Bytes) (ht : UInt8) (key : Bytes)
    (hfl : fl.admissible = true) (hp : fl.p2sh = true) (hk : key.length < 0x4c) (hs : body.length + 1 < 0x4c)
    (hne : body.length + 1 ≠ 20)
    (hC : Committed ht.toNat i e = true) (hch : changes ht.toNat i e tx)
    (wf : WFc tx) (wf' : WFc (apply e tx)) (hr : Regular ht.toNat i tx) (hr' : Regular ht.toNat i (apply e tx))
    (hcr : Crypto.hash256 (legacyPreimage (p2pkhScript (realHashes.hash160 key)) (apply e tx) i ht.toNat) =
             Crypto.hash256 (legacyPreimage (p2pkhScript (realHashes.hash160 key)) tx i ht.toNat) →
           legacyPreimage (p2pkhScript (realHashes.hash160 key)) (apply e tx) i ht.toNat =
             legacyPreimage (p2pkhScript (realHashes.hash160 key)) tx i ht.toNat)
    (hunf : (legacySighash (p2pkhScript (realHashes.hash160 key)) (apply e tx) i ht.toNat).1 ≠
        (legacySighash (p2pkhScript (realHashes.hash160 key)) tx i ht.toNat).1 →
      ecdsaCheck body key (legacySighash (p2pkhScript (realHashes.hash160 key)) (apply e tx) i ht.toNat).1 = false)
    (horacle : ecdsaCheck body key (legacySighash (p2pkhScript (realHashes.hash160 key)) tx i ht.toNat).1 = true) :
    let redeem := p2pkhScript (realHashes.hash160 key)
    (verifyScript (realCtx tx (i : Int)) fl (p2shScriptSig (p2pkhScriptSig (body ++ [ht]) key) redeem)
        (p2shScript (realHashes.hash160 redeem)) = .ok ()) ∧
    (verifyScript (realCtx (apply e tx) (i : Int)) fl (p2shScriptSig (p2pkhScriptSig (body ++ [ht]) key) redeem)
        (p2shScript (realHashes.hash160 redeem)) = .error .verify) := by
  intro redeem
  exact ⟨(by
    have := p2sh_p2pkh_verify_real tx i fl body ht key hfl hp (fieldsWF_of_WFc wf) hk hs hne
    simp only at this
    rw [this]; exact if_pos horacle),
    p2sh_p2pkh_committed_edit_rejects_real tx i e fl body ht key hfl hp hk hs hne hC hch wf wf' hr hr' hcr hunf⟩

theorem p2sh_multisig_committed_edit_flips_real (m : Nat) (keys sigs : List Bytes)
    (hfl : fl.admissible = true) (hp : fl.p2sh = true) (hm1 : 1 ≤ m) (hmn : m ≤ keys.length)
    (hn : keys.length ≤ 20) (hsl : sigs.length = m) (hk : ∀ k ∈ keys, k.length < 0x4c)
    (hs : ∀ s ∈ sigs, s.length < 0x4c) (hs1 : ∀ s ∈ sigs, s.length ≠ 1)
    (hne : ∀ s ∈ sigs, ∀ k ∈ keys, s.length ≠ k.length) (hrl : (multisigScript m keys).length ≤ 520)
    (wf : WFc tx) (wf' : WFc (apply e tx))
    (hB : ∀ s ∈ sigs, ∀ ht, s.getLast? = some ht →
      Committed ht.toNat i e = true ∧ changes ht.toNat i e tx ∧ Regular ht.toNat i tx ∧
      Regular ht.toNat i (apply e tx) ∧
      (Crypto.hash256 (legacyPreimage (multisigScript m keys) (apply e tx) i ht.toNat) =
          Crypto.hash256 (legacyPreimage (multisigScript m keys) tx i ht.toNat) →
        legacyPreimage (multisigScript m keys) (apply e tx) i ht.toNat =
          legacyPreimage (multisigScript m keys) tx i ht.toNat) ∧
      (∀ k ∈ keys, (legacySighash (multisigScript m keys) (apply e tx) i ht.toNat).1 ≠
          (legacySighash (multisigScript m keys) tx i ht.toNat).1 →
        ecdsaCheck s.dropLast k (legacySighash (multisigScript m keys) (apply e tx) i ht.toNat).1 = false))
    (horacle : Matching (chkSig (txEnv realHashes ecdsaCheck tx i) (multisigScript m keys)) sigs keys) :
    let redeem := multisigScript m keys
    (verifyScript (realCtx tx (i : Int)) fl (p2shScriptSig (multisigScriptSig sigs) redeem)
        (p2shScript (realHashes.hash160 redeem)) = .ok ()) ∧
    (verifyScript (realCtx (apply e tx) (i : Int)) fl (p2shScriptSig (multisigScriptSig sigs) redeem)
        (p2shScript (realHashes.hash160 redeem)) = .error .verify) := by
  intro redeem
  exact ⟨(p2sh_multisig_verify_real tx i fl m keys sigs hfl hp (fieldsWF_of_WFc wf) hm1 hmn hn hsl hk hs hs1 hne hrl).1 horacle,
    p2sh_multisig_committed_edit_rejects_real tx i e fl m keys sigs hfl hp hm1 hmn hn hsl hk hs hs1 hne hrl wf wf' hB⟩

end realedits

/-! ### non-vacuity of Parts 2 and 3 -/

section examples
open BtcVerif.Model.ScriptEval BtcVerif.Spec.Script BtcVerif.Spec.Templates BtcVerif.C05T

/-- a toy oracle: "signature j was made by key j" is read off the second byte -/
def exEnv : Env :=
  { hashes := { sha1 := fun _ => [], ripemd160 := fun _ => List.replicate 20 7, sha256 := fun x => x }
    sigCheck := fun body key _ _ => body[1]? == key[1]? }
def exCtx : Ctx :=
  { hashes := exEnv.hashes, sigHash := fun _ _ => .ok [], sigVerify := fun body key _ => body[1]? == key[1]? }
theorem exCtx_total : exCtx.SigTotal := ⟨fun _ _ _ _ _ => ⟨_, rfl⟩⟩
def exKey (j : UInt8) : Bytes := 2 :: List.replicate 32 j
def exBody (j : UInt8) : Bytes := 0x30 :: j :: List.replicate 68 0
def exFlags : Flags := { p2sh := true, nullDummy := true, cleanStack := true, discourageNops := false }

example : verifyScript exCtx exFlags (p2pkScriptSig (exBody 5 ++ [0x83])) (p2pkScript (exKey 5)) = .ok () :=
  template_accepts_p2pk exCtx exFlags (exBody 5) 0x83 (exKey 5) (by decide) exCtx_total (by decide) (by decide)
    (by decide) (by decide)

example : verifyScript exCtx exFlags (p2pkScriptSig (exBody 6 ++ [0x83])) (p2pkScript (exKey 5)) = .error .verify :=
  template_rejects_wrong_key_p2pk exCtx exFlags (exBody 6) 0x83 (exKey 5) (by decide) exCtx_total (by decide)
    (by decide) (by decide) (by decide)

example : verifyScript exCtx exFlags (p2pkhScriptSig (exBody 5 ++ [1]) (exKey 5))
    (p2pkhScript (exEnv.hashes.hash160 (exKey 5))) = .ok () :=
  template_accepts_p2pkh exCtx exFlags (exBody 5) 1 (exKey 5) (by decide) exCtx_total (by decide) (by decide)
    (by decide) (by decide) (by decide)

/-- 2-of-3 with the signatures of keys 1 and 3, in key order: accepted … -/
example : verifyScript exCtx exFlags (multisigScriptSig [exBody 1 ++ [1], exBody 3 ++ [2]])
    (multisigScript 2 [exKey 1, exKey 2, exKey 3]) = .ok () :=
  template_accepts_multisig exCtx exFlags 2 [exKey 1, exKey 2, exKey 3] [exBody 1 ++ [1], exBody 3 ++ [2]]
    (by decide) exCtx_total (by decide) (by decide) (by decide) (by decide) (by decide) (by decide) (by decide)
    (by decide) (.take (by decide) (.skip (.take (by decide) (.nil _))))

/-- … out of key order, or the same signature twice: rejected -/
example : verifyScript exCtx exFlags (multisigScriptSig [exBody 3 ++ [1], exBody 1 ++ [1]])
    (multisigScript 2 [exKey 1, exKey 2, exKey 3]) = .error .verify :=
  template_rejects_wrong_key_multisig exCtx exFlags 2 [exKey 1, exKey 2, exKey 3] [exBody 3 ++ [1], exBody 1 ++ [1]]
    (by decide) exCtx_total (by decide) (by decide) (by decide) (by decide) (by decide) (by decide) (by decide)
    (by decide) (by rw [← matching_iff_greedy_reverse]; decide)

example : verifyScript exCtx exFlags (multisigScriptSig [exBody 1 ++ [1], exBody 1 ++ [1]])
    (multisigScript 2 [exKey 1, exKey 2, exKey 3]) = .error .verify :=
  template_rejects_wrong_key_multisig exCtx exFlags 2 [exKey 1, exKey 2, exKey 3] [exBody 1 ++ [1], exBody 1 ++ [1]]
    (by decide) exCtx_total (by decide) (by decide) (by decide) (by decide) (by decide) (by decide) (by decide)
    (by decide) (by rw [← matching_iff_greedy_reverse]; decide)

/-- the hypotheses of the edit theorems are met: under SINGLE|ANYONECANPAY, signing input 1 of `exTx`,
    changing output 0 is uncommitted, changing output 1 is committed and changes a committed part -/
example : Uncommitted (0x83 : UInt8).toNat 1 (.setValue 0 5) = true := by decide
example : Committed (0x83 : UInt8).toNat 1 (.setValue 1 5) = true ∧ changes (0x83 : UInt8).toNat 1 (.setValue 1 5) exTx ∧
    Regular (0x83 : UInt8).toNat 1 exTx ∧ Regular (0x83 : UInt8).toNat 1 (apply (.setValue 1 5) exTx) :=
  ⟨by decide, ⟨.value 1, by decide, by decide⟩, by decide, by decide⟩

end examples


/-! ### non-vacuity of Part 3: a toy signature scheme on a concrete transaction

  `toySig key d` "signs" the digest `d` by writing it down behind a tag of the key; `toyEcdsa` accepts
  exactly that string.  (For this toy scheme a signature IS valid for one digest only — the property
  that real ECDSA lacks, see the header of Part 3 — which is why `hunf` can be proved outright here.)
  SHA-256d is not evaluated by the kernel, so the one thing that stays a hypothesis of the example is
  `hcr` for the two concrete messages (true when evaluated by the compiled code; not provable in the
  kernel). -/

section toy
open BtcVerif.Model.ScriptEval BtcVerif.Spec.Script BtcVerif.Spec.Templates BtcVerif.C05T

def toySig (key d : Bytes) : Bytes := 0x30 :: (key.take 8 ++ d)
def toyEcdsa (sig key d : Bytes) : Bool := decide (sig = toySig key d)
def toyCtx (t : Tx) : Ctx := txCtx exEnv.hashes toyEcdsa t 1

/-- the digest input 1 of `exTx` signs for pay-to-pubkey to `exKey 5` under SINGLE|ANYONECANPAY -/
def exDigest (t : Tx) : Bytes := (legacySighash (p2pkScript (exKey 5)) t 1 (0x83 : UInt8).toNat).1

theorem exDigest_length (t : Tx) (h : Regular (0x83 : UInt8).toNat 1 t) : (exDigest t).length = 32 := by
  unfold exDigest
  rw [regular_sighash _ _ _ _ h]
  exact Crypto.hash256_length _

theorem exKey_take (j : UInt8) : (exKey j).take 8 = [2, j, j, j, j, j, j, j] := rfl

theorem toySig_size (j : UInt8) (t : Tx) (h : Regular (0x83 : UInt8).toNat 1 t) :
    (toySig (exKey j) (exDigest t)).length + 1 < 0x4c ∧ (toySig (exKey j) (exDigest t)).length + 1 ≠ (exKey 5).length := by
  simp [toySig, exDigest_length t h, exKey]

/-- ACCEPTS: the input signed by the toy signer is accepted (`template_accepts_p2pk`, all hypotheses met) -/
example : verifyScript (toyCtx exTx) exFlags (p2pkScriptSig (toySig (exKey 5) (exDigest exTx) ++ [0x83]))
    (p2pkScript (exKey 5)) = .ok () :=
  template_accepts_p2pk (toyCtx exTx) exFlags _ 0x83 (exKey 5) (by decide) (txCtx_sigTotal ..) (by decide)
    (toySig_size 5 exTx (by decide)).1 (toySig_size 5 exTx (by decide)).2
    (by simp [toyCtx, txCtx, Ctx.env, toyEcdsa, exDigest])

/-- REJECTS, wrong key: the same digest signed by key 6 does not spend an output of key 5 -/
example : verifyScript (toyCtx exTx) exFlags (p2pkScriptSig (toySig (exKey 6) (exDigest exTx) ++ [0x83]))
    (p2pkScript (exKey 5)) = .error .verify :=
  template_rejects_wrong_key_p2pk (toyCtx exTx) exFlags _ 0x83 (exKey 5) (by decide) (txCtx_sigTotal ..) (by decide)
    (toySig_size 6 exTx (by decide)).1 (toySig_size 6 exTx (by decide)).2
    (by simp [toyCtx, txCtx, Ctx.env, toyEcdsa, toySig, exKey_take])

/-- UNCOMMITTED edit: output 0 is not committed under SINGLE|ANYONECANPAY at input 1 — still accepted -/
example : verifyScript (toyCtx (apply (.setValue 0 5) exTx)) exFlags
    (p2pkScriptSig (toySig (exKey 5) (exDigest exTx) ++ [0x83])) (p2pkScript (exKey 5)) = .ok () := by
  have h := p2pk_uncommitted_edit_same_verdict exEnv.hashes toyEcdsa exTx 1 (.setValue 0 5) exFlags
    (toySig (exKey 5) (exDigest exTx)) 0x83 (exKey 5) (by decide) (by decide)
    (toySig_size 5 exTx (by decide)).1 (toySig_size 5 exTx (by decide)).2 (by decide) (by decide)
  show verifyScript (txCtx exEnv.hashes toyEcdsa (apply (.setValue 0 5) exTx) 1) _ _ _ = _
  rw [h]
  exact template_accepts_p2pk (toyCtx exTx) exFlags _ 0x83 (exKey 5) (by decide) (txCtx_sigTotal ..) (by decide)
    (toySig_size 5 exTx (by decide)).1 (toySig_size 5 exTx (by decide)).2
    (by simp [toyCtx, txCtx, Ctx.env, toyEcdsa, exDigest])

theorem exTx_edited_wf : WFc (apply (.setValue 1 5) exTx) := by
  refine ⟨by decide, by decide, by decide, by decide, ?_, ?_, by decide⟩
  · intro x hx
    have : (apply (.setValue 1 5) exTx).vin = exTx.vin := rfl
    rw [this] at hx
    simp only [exTx, List.mem_cons, List.not_mem_nil, or_false] at hx
    rcases hx with rfl | rfl | rfl <;> exact ⟨⟨by decide, by decide⟩, by decide⟩
  · intro o ho
    have : (apply (.setValue 1 5) exTx).vout =
        [ { nValue := 1000, scriptPubKey := [0x51] }, { nValue := 5, scriptPubKey := [0x52] },
          { nValue := 0, scriptPubKey := [0x6a] } ] := by decide
    rw [this] at ho
    simp only [List.mem_cons, List.not_mem_nil, or_false] at ho
    rcases ho with rfl | rfl | rfl <;> exact ⟨by decide, by decide, by decide⟩

theorem exTx_wf : WFc exTx := by
  refine ⟨by decide, by decide, by decide, by decide, ?_, ?_, by decide⟩
  · intro x hx
    simp only [exTx, List.mem_cons, List.not_mem_nil, or_false] at hx
    rcases hx with rfl | rfl | rfl <;> exact ⟨⟨by decide, by decide⟩, by decide⟩
  · intro o ho
    simp only [exTx, List.mem_cons, List.not_mem_nil, or_false] at ho
    rcases ho with rfl | rfl | rfl <;> exact ⟨by decide, by decide, by decide⟩

/-- REJECTS, committed edit: output 1 IS committed; with the signature kept the spend is rejected.
    Every hypothesis of `p2pk_committed_edit_rejects` is discharged for the toy scheme except `hcr`
    (SHA-256d does not collide on the two concrete messages), which the kernel cannot evaluate. -/
example
    (hcr : Crypto.hash256 (legacyPreimage (p2pkScript (exKey 5)) (apply (.setValue 1 5) exTx) 1 (0x83 : UInt8).toNat) =
             Crypto.hash256 (legacyPreimage (p2pkScript (exKey 5)) exTx 1 (0x83 : UInt8).toNat) →
           legacyPreimage (p2pkScript (exKey 5)) (apply (.setValue 1 5) exTx) 1 (0x83 : UInt8).toNat =
             legacyPreimage (p2pkScript (exKey 5)) exTx 1 (0x83 : UInt8).toNat) :
    verifyScript (toyCtx (apply (.setValue 1 5) exTx)) exFlags
      (p2pkScriptSig (toySig (exKey 5) (exDigest exTx) ++ [0x83])) (p2pkScript (exKey 5)) = .error .verify :=
  p2pk_committed_edit_rejects exEnv.hashes toyEcdsa exTx 1 (.setValue 1 5) exFlags
    (toySig (exKey 5) (exDigest exTx)) 0x83 (exKey 5) (by decide) (by decide)
    (toySig_size 5 exTx (by decide)).1 (toySig_size 5 exTx (by decide)).2
    (by decide) ⟨.value 1, by decide, by decide⟩ exTx_wf exTx_edited_wf (by decide) (by decide) hcr
    (by
      intro hne
      simp only [toyEcdsa, toySig, decide_eq_false_iff_not, List.cons.injEq, true_and, List.append_cancel_left_eq]
      exact fun h => hne h.symm)

end toy

/-! ### a `_real` theorem instantiated: everything discharged but the cryptographic hypotheses -/

section realexample
open BtcVerif.Model.ScriptEval BtcVerif.Spec.Script BtcVerif.Spec.Templates BtcVerif.C05T
open BtcVerif.Model.ScriptEval.Real

/-- the model of the library (`Real.realCtx`: modelled RawSignatureHash + Lean ECDSA + real hashes),
    pay-to-pubkey, input 1 of `exTx`, SINGLE|ANYONECANPAY, output 1 edited: all structural hypotheses
    of `p2pk_committed_edit_flips_real` hold; what remains are exactly the three cryptographic ones —
    the verifier accepts the signature for the original digest (`horacle`), SHA-256d does not collide
    on the two messages (`hcr`), the kept signature does not verify for the new digest (`hunf`) -/
example (body : Bytes) (hs : body.length + 1 < 0x4c) (hne : body.length + 1 ≠ 33)
    (horacle : ecdsaCheck body (exKey 5) (legacySighash (p2pkScript (exKey 5)) exTx 1 (0x83 : UInt8).toNat).1 = true)
    (hcr : Crypto.hash256 (legacyPreimage (p2pkScript (exKey 5)) (apply (.setValue 1 5) exTx) 1 (0x83 : UInt8).toNat) =
             Crypto.hash256 (legacyPreimage (p2pkScript (exKey 5)) exTx 1 (0x83 : UInt8).toNat) →
           legacyPreimage (p2pkScript (exKey 5)) (apply (.setValue 1 5) exTx) 1 (0x83 : UInt8).toNat =
             legacyPreimage (p2pkScript (exKey 5)) exTx 1 (0x83 : UInt8).toNat)
    (hunf : (legacySighash (p2pkScript (exKey 5)) (apply (.setValue 1 5) exTx) 1 (0x83 : UInt8).toNat).1 ≠
        (legacySighash (p2pkScript (exKey 5)) exTx 1 (0x83 : UInt8).toNat).1 →
      ecdsaCheck body (exKey 5) (legacySighash (p2pkScript (exKey 5)) (apply (.setValue 1 5) exTx) 1 (0x83 : UInt8).toNat).1 = false) :
    verifyScript (realCtx exTx (1 : Nat)) exFlags (p2pkScriptSig (body ++ [0x83])) (p2pkScript (exKey 5)) = .ok () ∧
    verifyScript (realCtx (apply (.setValue 1 5) exTx) (1 : Nat)) exFlags (p2pkScriptSig (body ++ [0x83]))
      (p2pkScript (exKey 5)) = .error .verify :=
  p2pk_committed_edit_flips_real exTx 1 (.setValue 1 5) exFlags body 0x83 (exKey 5) (by decide) (by decide) hs
    (by simpa [exKey] using hne) (by decide) ⟨.value 1, by decide, by decide⟩ exTx_wf exTx_edited_wf (by decide)
    (by decide) hcr hunf horacle

end realexample

end BtcVerif.C05
