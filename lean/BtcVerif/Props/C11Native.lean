/-
  C11 — `detects_le4`: corruption of a valid address by three or four character substitutions is
  rejected.  THE ONLY FILE OF THE PROJECT THAT USES `native_decide` (DESIGN §4): the two facts
  `check3 = true` and `check4 = true` are finite computations (a table of ≈ 85 k normalised 2-pattern
  syndromes and ≈ 3.7 M look-ups along orbits of the linear map `T`) far beyond kernel evaluation;
  they are evaluated by compiled code and therefore depend on `Lean.ofReduceBool` / `Lean.trustCompiler`.
  Everything else — the reduction of the claim about strings to these two computations — is proved
  in Proofs/Bech32Code4.lean and Proofs/Bech32Detect.lean with the standard axioms only.
  No other theorem of the project depends on this file.
-/
import BtcVerif.Proofs.Bech32Code4
import BtcVerif.Props.C11

namespace BtcVerif.C11
open BtcVerif BtcVerif.Bech32
open BtcVerif.Spec.Bech32 (ValidSegwit lowerStr)

theorem check3_true : Bech32.check3 = true := by native_decide

theorem check4_true : Bech32.check4 = true := by native_decide

/-- a valid address and any string of the same length whose lowercase form differs from it in exactly
    three or four characters (anywhere): the latter is rejected -/
theorem detects_le4 (h s s' : List Char) (hv : Model.Bech32.decode h s ≠ none)
    (hl : s'.length = s.length)
    (hd : hamming (lowerStr s) (lowerStr s') = 3 ∨ hamming (lowerStr s) (lowerStr s') = 4) :
    Model.Bech32.decode h s' = none := by
  cases hd' : Model.Bech32.decode h s' with
  | none => rfl
  | some vp =>
    have hs : ValidSegwit h s := (decode_ne_none_iff h s).1 hv
    have hs' : ValidSegwit h s' := (decode_ne_none_iff h s').1 (by rw [hd']; simp)
    obtain ⟨E, hE, hEl, hw, hrun⟩ := valid_pair_syndrome h s s' hs hs' hl
    exact absurd hrun (syndrome_ne_zero_34 check3_true check4_true E hE (by omega) (by omega))

/-- in terms of explicit substitutions: after at most four character substitutions a valid address
    is rejected, unless the substitutions changed nothing but letter case -/
theorem detects_substitutions_le4 (h s : List Char) (subs : List (Nat × Char))
    (hv : Model.Bech32.decode h s ≠ none) (hn : subs.length ≤ 4) :
    Model.Bech32.decode h (substitute s subs) = none ∨ lowerStr (substitute s subs) = lowerStr s := by
  have hl := substitute_length s subs
  have hle := hamming_substitute_le s subs
  by_cases h0 : hamming (lowerStr s) (lowerStr (substitute s subs)) = 0
  · right
    exact (hamming_eq_zero _ _ (by simp [lowerStr, hl]) h0).symm
  · left
    by_cases h2 : hamming (lowerStr s) (lowerStr (substitute s subs)) ≤ 2
    · exact detects_le2 h s _ hv hl (by omega)
    · exact detects_le4 h s _ hv hl (by omega)

end BtcVerif.C11
