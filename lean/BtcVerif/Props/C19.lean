/-
  C19 — RPC proxy: property theorems.
  Statements use only Model.Rpc.* (mirror of bitcoin/rpc.py and of x/lx/b2lx) and Spec.Rpc.* (the
  number grammar of JSON with its exact value, Bitcoin Core's reversed-hex form of hashes, the table
  of registered error classes).  Helper lemmas live in Proofs/Rpc.lean.

  PARTIAL (DESIGN §6 C19): amounts *sent* go through `float(amount)/COIN` and `float.__repr__`.
  IEEE-754 rounding and shortest-repr are not modelled; see the UNPROVED block at the end.  The
  correspondence run re-parses every emitted request body with exact decimal arithmetic.
-/
import BtcVerif.Proofs.Rpc
import BtcVerif.Proofs.RpcFloat

namespace BtcVerif.C19
open BtcVerif Model.Rpc
open BtcVerif.Rpc
open BtcVerif.Spec.Rpc (NumText)

/-! ### amounts received -/

/-- Every JSON number text that denotes exactly `k` satoshis — in any form the grammar allows: fixed
    point with any number of (zero) extra decimals, exponent notation, a plain integer, either sign of
    zero — is converted to exactly `k`.  `|k| < 10^28` is the precision of the decimal context; the
    money range ends at 2.1·10^15.  `InLimits`: the numeral is within CPython's own size limits (integers
    of at most 4300 digits, exponents within ±10^18); beyond them `json.loads` refuses the body. -/
theorem amount_in_exact (t : NumText) (hwf : t.WF) (hlim : InLimits t) (k : Int) (hk : k.natAbs < 10 ^ 28)
    (h : t.denotes k) : amountIn t.render = some (.ok k) := by
  unfold amountIn
  rw [scanNumber_render t hwf]
  show some (amountInNum t) = _
  rw [amountInNum_exact t hlim k hk h]

/-- for JSON integers (no fraction, no exponent) the conversion is exact for every value Python's `int()`
    accepts (4300 digits) -/
theorem amount_in_exact_int (t : NumText) (hwf : t.WF) (hf : t.frac = none) (he : t.exp = none)
    (hlen : t.intDigits.length ≤ INT_MAX_STR_DIGITS) :
    amountIn t.render =
      some (.ok (applySign t.neg (Spec.Rpc.digitsVal t.intDigits * Spec.Rpc.COIN))) := by
  unfold amountIn
  rw [scanNumber_render t hwf]
  show some (amountInNum t) = _
  unfold amountInNum
  rw [if_pos ⟨hf, he⟩, if_neg (by omega)]

/-! ### hashes and hex transport -/

/-- `unhexlify_str(hexlify_str(b)) = b`: serialised transactions, headers and blocks cross the hex
    encoding bit-exactly (what is serialised and what deserialisation makes of the bytes is C01) -/
theorem hex_transport (b : Bytes) : unhexlify (hexlify b) = .ok b := by
  unfold unhexlify hexlify
  rw [ofHex_toHex]

/-- … so deserialising what arrived is deserialising what was serialised -/
theorem transport_de {α : Type} (de : Bytes → α) (b : Bytes) :
    (unhexlify (hexlify b)).map de = .ok (de b) := by
  rw [hex_transport]; rfl

/-- what is sent for a hash is Bitcoin Core's form of it: the hex of the bytes in reverse order -/
theorem b2lx_is_core_form (h : Bytes) : b2lx h = Spec.Rpc.coreHex h := rfl

/-- a hash survives the trip out and back, for byte strings of any length … -/
theorem hash_roundtrip_bytes (h : Bytes) : lx (b2lx h) = .ok h := by
  unfold lx b2lx
  rw [hex_transport]
  show Except.ok h.reverse.reverse = _
  rw [List.reverse_reverse]

/-- … and a hash string returned by one call can be passed to another unchanged: for every lower-case
    hex string that `lx` accepts (64 digits in particular), `b2lx (lx s) = s` -/
theorem hash_roundtrip_text (s : String) (hl : ∀ c ∈ s.toList, Spec.Rpc.isLowerHexChar c = true) (b : Bytes)
    (h : lx s = .ok b) : b2lx b = s := by
  unfold lx unhexlify at h
  cases hx : ofHex? s with
  | none => rw [hx] at h; cases h
  | some raw =>
    rw [hx] at h
    have hb : b = raw.reverse := by cases h; rfl
    unfold b2lx hexlify
    rw [hb, List.reverse_reverse]
    exact toHex_ofHex s raw hl hx

/-- both directions together, in the shape of the property text -/
theorem hash_roundtrip (h : Bytes) (s : String) (hl : ∀ c ∈ s.toList, Spec.Rpc.isLowerHexChar c = true) :
    lx (b2lx h) = .ok h ∧ ∀ b, lx s = .ok b → b2lx b = s :=
  ⟨hash_roundtrip_bytes h, fun b hb => hash_roundtrip_text s hl b hb⟩

/-- every even-length lower-case hex string is accepted by `lx` (so the hypothesis above is met by
    what Bitcoin Core sends) -/
theorem lx_accepts (b : Bytes) : lx (Spec.Rpc.coreHex b) = .ok b := hash_roundtrip_bytes b

/-! ### error replies -/

/-- An error reply — `error` present and not null — never yields a result: it raises the class
    registered for its code (the base class for unregistered, non-numeric or missing codes, and for a
    non-dict error), whatever `result` says. -/
theorem error_reply_raises (err : ErrVal) (res : Option String) (hne : err ≠ .absent ∧ err ≠ .null) :
    (∃ cls code, callOutcome (.obj err res) = .raise cls code ∧
      (∀ c, err = .dict c → cls = classFor c ∧ code = c.show) ∧
      (err = .other → cls = Spec.Rpc.baseClass)) ∧
    ∀ v, callOutcome (.obj err res) ≠ .result v := by
  cases err with
  | absent => exact absurd rfl hne.1
  | null => exact absurd rfl hne.2
  | dict c =>
    refine ⟨⟨classFor c, c.show, rfl, ?_, ?_⟩, ?_⟩
    · intro c' h; cases h; exact ⟨rfl, rfl⟩
    · intro h; cases h
    · intro v h; cases h
  | other =>
    refine ⟨⟨Spec.Rpc.classOf (-344), "-344", rfl, ?_, ?_⟩, ?_⟩
    · intro c h; cases h
    · intro _; decide
    · intro v h; cases h

/-- an integer code gets exactly the class of the table, every other code shape the base class unless
    it compares equal to an integer (`-5.0`, as Python's dict lookup does) -/
theorem class_of_int_code (n : Int) : classFor (.int n) = Spec.Rpc.classOf n := rfl

theorem class_of_registered : classFor (.int (-5)) = "InvalidAddressOrKeyError" ∧
    classFor (.int (-8)) = "InvalidParameterError" ∧ classFor (.int (-28)) = "InWarmupError" ∧
    classFor (.int (-2)) = "ForbiddenBySafeModeError" ∧ classFor (.int (-25)) = "VerifyError" ∧
    classFor (.int (-26)) = "VerifyRejectedError" ∧ classFor (.int (-27)) = "VerifyAlreadyInChainError" := by
  decide

theorem class_of_odd_codes : classFor .absent = Spec.Rpc.baseClass ∧ classFor .null = Spec.Rpc.baseClass ∧
    classFor .str = Spec.Rpc.baseClass ∧ classFor (.bool true) = Spec.Rpc.baseClass ∧
    classFor (.bool false) = Spec.Rpc.baseClass ∧ classFor .unhashable = Spec.Rpc.baseClass := by decide

/-- an error reply whose `code` is a JSON array or object is still an error reply: it raises the base
    RPC error class and never yields a result (false for the shipped code, D19: `dict.get` on an
    unhashable key raises TypeError) -/
theorem unhashable_code_raises (res : Option String) :
    callOutcome (.obj (.dict .unhashable) res) = .raise Spec.Rpc.baseClass "unhashable" := rfl

/-- bodies that are no reply object at all — not UTF-8, or JSON that is not an object — are not error
    replies; what `_call` does with them today is an escaping CPython exception (never a result).
    These are observations of the model, outside the statement of the property. -/
theorem non_reply_outcomes : callOutcome .nonUtf8 = .pyExc "UnicodeDecodeError" ∧
    callOutcome .nonObject = .pyExc "AttributeError" ∧
    callOutcome .nonJson = .raise Spec.Rpc.baseClass "-342" ∧
    callOutcome .noResponse = .raise Spec.Rpc.baseClass "-342" := by decide

/-- every JSON number text standing for an amount is converted to an integer, refused with
    decimal.Overflow, or — numerals beyond CPython's size limits — rejected with the whole body as
    JSONRPCError(-342); no other exception comes out of `int(Decimal(text) * COIN)` … -/
theorem amount_in_outcomes (t : NumText) (hwf : t.WF) :
    (∃ k, amountIn t.render = some (.ok k)) ∨ amountIn t.render = some (.error overflow) ∨
      amountIn t.render = some (.error .rpcerr) := by
  unfold amountIn
  rw [scanNumber_render t hwf]
  rcases amountInNum_outcomes t with ⟨k, hk⟩ | hk | hk
  · left; exact ⟨k, by show some (amountInNum t) = _; rw [hk]⟩
  · right; left; show some (amountInNum t) = _; rw [hk]
  · right; right; show some (amountInNum t) = _; rw [hk]

/-- … whereas the other JSON values that can stand in an amount's place raise CPython's own
    exceptions (observations, not part of the property: NaN → ValueError, ±Infinity → OverflowError,
    null → TypeError; true/false are taken as 1/0 BTC) -/
theorem amount_special_values : amountOfVal .nan = some (.error .valueerr) ∧
    amountOfVal (.inf false) = some (.error (.py "OverflowError")) ∧
    amountOfVal (.inf true) = some (.error (.py "OverflowError")) ∧
    amountOfVal .null = some (.error (.py "TypeError")) ∧
    amountOfVal (.bool true) = some (.ok 100000000) ∧ amountOfVal (.bool false) = some (.ok 0) := by
  refine ⟨rfl, rfl, rfl, rfl, rfl, rfl⟩

/-- a missing or unparsable HTTP response, and a reply without `result`, raise as well -/
theorem no_result_without_result (r : Reply) (v : String) (h : callOutcome r = .result v) :
    ∃ err, (err = .absent ∨ err = .null) ∧ r = .obj err (some v) := by
  cases r with
  | noResponse => cases h
  | nonJson => cases h
  | nonUtf8 => cases h
  | nonObject => cases h
  | obj err res =>
    cases err with
    | dict c => cases h
    | other => cases h
    | absent =>
      cases res with
      | none => cases h
      | some w => cases h; exact ⟨.absent, Or.inl rfl, rfl⟩
    | null =>
      cases res with
      | none => cases h
      | some w => cases h; exact ⟨.null, Or.inr rfl, rfl⟩

/-- the typed Proxy methods never turn an error reply into a result either: they re-raise, or convert
    the documented class into IndexError -/
theorem method_error_never_result (m : String) (err : ErrVal) (res : Option String)
    (hne : err ≠ .absent ∧ err ≠ .null) (v : String) : methodOutcome m (.obj err res) ≠ .result v := by
  obtain ⟨⟨cls, code, hc, _⟩, _⟩ := error_reply_raises err res hne
  unfold methodOutcome
  rw [hc]
  simp only []
  split <;> simp

/-! ### request ids -/

theorem idsSent_cons (s : PState) (r : Req) (rs : List Req) :
    idsSent s (r :: rs) = (match (stepReq s r).2 with | some n => [n] | none => []) ++ idsSent (stepReq s r).1 rs := rfl

/-- every id sent from state `s` on is larger than the counter in `s` -/
theorem ids_gt_counter : ∀ (rs : List Req) (s : PState), ∀ n ∈ idsSent s rs, s.idCount < n
  | [], _, n, h => by cases h
  | r :: rs, s, n, h => by
    rw [idsSent_cons] at h
    cases r with
    | call f =>
      rcases List.mem_append.mp h with h1 | h1
      · have : n = s.idCount + 1 := by simpa [stepReq] using h1
        omega
      · have := ids_gt_counter rs _ n h1
        simp only [stepReq] at this
        omega
    | batch =>
      rcases List.mem_append.mp h with h1 | h1
      · simp [stepReq] at h1
      · exact ids_gt_counter rs _ n h1

/-- over any history of requests on one proxy, the ids the proxy sends strictly increase — whatever
    becomes of each call (`Req.call` carries its fate: any reply, including none, garbage, non-UTF-8,
    non-object, error or result, or a connection that raises), with batches in between -/
theorem ids_strictly_increase : ∀ (rs : List Req) (s : PState), (idsSent s rs).Pairwise (· < ·)
  | [], _ => List.Pairwise.nil
  | r :: rs, s => by
    rw [idsSent_cons]
    cases r with
    | call f =>
      show List.Pairwise (· < ·) ([s.idCount + 1] ++ idsSent _ rs)
      rw [List.singleton_append, List.pairwise_cons]
      refine ⟨?_, ids_strictly_increase rs _⟩
      intro n hn
      have := ids_gt_counter rs _ n hn
      simpa [stepReq] using this
    | batch =>
      show List.Pairwise (· < ·) ([] ++ idsSent _ rs)
      rw [List.nil_append]
      exact ids_strictly_increase rs _

/-- the counter is independent of what happens to the calls: two histories that differ only in the
    fates of their calls send the same ids -/
theorem ids_independent_of_fate : ∀ (rs rs' : List Req) (s : PState),
    List.Forall₂ (fun a b => (a = .batch ↔ b = .batch)) rs rs' → idsSent s rs = idsSent s rs'
  | [], [], _, _ => rfl
  | r :: rs, r' :: rs', s, h => by
    cases h with
    | cons h1 h2 =>
      rw [idsSent_cons, idsSent_cons]
      cases r with
      | call f =>
        cases r' with
        | call f' =>
          show [s.idCount + 1] ++ idsSent _ rs = [s.idCount + 1] ++ idsSent _ rs'
          rw [ids_independent_of_fate rs rs' _ h2]
          rfl
        | batch => exact absurd (h1.mpr rfl) (by simp)
      | batch =>
        cases r' with
        | call f' => exact absurd (h1.mp rfl) (by simp)
        | batch =>
          show [] ++ idsSent s rs = [] ++ idsSent s rs'
          rw [ids_independent_of_fate rs rs' s h2]

/-- and a fresh proxy counts 1, 2, 3, … whatever the fates -/
theorem ids_of_calls (fs : List Fate) (s : PState) :
    idsSent s (fs.map .call) = (List.range' (s.idCount + 1) fs.length) := by
  induction fs generalizing s with
  | nil => rfl
  | cons f fs ih =>
    rw [List.map_cons, idsSent_cons]
    show [s.idCount + 1] ++ idsSent { idCount := s.idCount + 1 } (fs.map .call) = _
    rw [ih]
    rfl

/-! ### amounts sent: what the check executes on the emitted text -/

/-- `satoshisDenoted` (run by the driver on the JSON number the proxy put into the request body) returns
    `k` only if the text denotes exactly `k` satoshis … -/
theorem satoshis_denoted_sound (t : NumText) (hwf : t.WF) (k : Int) (h : satoshisDenoted t.render = some k) :
    t.denotes k := satoshisDenoted_sound t hwf k h

/-- … and returns it whenever the text denotes whole satoshis -/
theorem satoshis_denoted_complete (t : NumText) (hwf : t.WF) (k : Int) (h : t.denotes k) :
    ∃ k', satoshisDenoted t.render = some k' ∧ k'.natAbs = k.natAbs := satoshisDenoted_complete t hwf k h

/-- the conclusion of `amount_out_exact_partial` (`m · 10^p = a / 10^8` over the rationals) is the
    same statement as `denotesSat` over the integers, which is what `satoshisDenoted` decides -/
theorem numeral_denotes_iff (m : ℕ) (p : ℤ) (a : ℕ) :
    decVal m p = (a : ℚ) / 10 ^ 8 ↔ Spec.Rpc.denotesSat false m p (a : ℤ) := decVal_iff_denotes m p a

/-! ### non-vacuity -/

/-- "0.10000000" is well formed and denotes 10 000 000 satoshis -/
example : (⟨false, ['0'], some ['1', '0', '0', '0', '0', '0', '0', '0'], none⟩ : NumText).WF := by
  refine ⟨by simp, by decide, Or.inl rfl, ?_, ?_⟩
  · intro f h; cases h; exact ⟨by simp, by decide⟩
  · intro m s ds h; cases h
example : (⟨false, ['0'], some ['1', '0', '0', '0', '0', '0', '0', '0'], none⟩ : NumText).denotes 10000000 := by
  refine ⟨by decide, by decide, by decide⟩
/-- "1e-8" denotes one satoshi, "-21000000" denotes −21·10^14 -/
example : (⟨false, ['1'], none, some ('e', some '-', ['8'])⟩ : NumText).denotes 1 := by
  refine ⟨by decide, by decide, by decide⟩
example : (⟨false, ['0'], some ['1', '0', '0', '0', '0', '0', '0', '0'], none⟩ : NumText).render =
    "0.10000000".toList := by decide
/-- … hence, by `amount_in_exact`, the text "0.10000000" is converted to 10 000 000 -/
example : amountIn "0.10000000".toList = some (.ok 10000000) := by
  have hwf : (⟨false, ['0'], some ['1', '0', '0', '0', '0', '0', '0', '0'], none⟩ : NumText).WF := by
    refine ⟨by simp, by decide, Or.inl rfl, ?_, ?_⟩
    · intro f h; cases h; exact ⟨by simp, by decide⟩
    · intro m s ds h; cases h
  have hlim : InLimits (⟨false, ['0'], some ['1', '0', '0', '0', '0', '0', '0', '0'], none⟩ : NumText) := by
    refine ⟨by decide, by decide, ?_⟩
    have h1 := ndigits_le_of_lt
      (⟨false, ['0'], some ['1', '0', '0', '0', '0', '0', '0', '0'], none⟩ : NumText).coeff 28 (by decide) (by omega)
    have h2 : (⟨false, ['0'], some ['1', '0', '0', '0', '0', '0', '0', '0'], none⟩ : NumText).expo = -8 := by decide
    rw [h2]; unfold MAX_EMAX; omega
  exact amount_in_exact ⟨false, ['0'], some ['1', '0', '0', '0', '0', '0', '0', '0'], none⟩ hwf hlim 10000000
    (by decide) ⟨by decide, by decide, by decide⟩
/-- error replies meeting the hypothesis -/
example : (ErrVal.dict (.int (-5))) ≠ .absent ∧ (ErrVal.dict (.int (-5))) ≠ .null := by decide
example : callOutcome (.obj (.dict (.int (-5))) (some "x")) = .raise "InvalidAddressOrKeyError" "-5" := by decide
example : callOutcome (.obj (.dict (.dec true 50 (-1))) none) = .raise "InvalidAddressOrKeyError" "dec" := by decide
example : callOutcome (.obj .other (some "x")) = .raise "JSONRPCError" "-344" := by decide
example : callOutcome (.obj (.dict .unhashable) (some "x")) = .raise "JSONRPCError" "unhashable" := by decide
example : methodOutcome "getblock" (.obj (.dict (.int (-5))) none) = .pyExc "IndexError" := by decide
example : idsSent PState.init [.call (.replied .nonUtf8), .batch, .call .connectionError,
    .call (.replied (.obj .absent (some "1")))] = [1, 2, 3] := by decide
example : methodOutcome "gettxout" (.obj .null (some "@null")) = .pyExc "IndexError" := by decide
/-- the genesis block hash in Core's form -/
example : b2lx [0x6f, 0xe2, 0x8c, 0x0a] = "0a8ce26f" := by decide

/-
-- UNPROVED (full statement): amounts sent.
--   For every amount `0 ≤ a ≤ 21·10^14`, the JSON text `json.dumps` emits for `float(a)/COIN` denotes
--   exactly `a / 10^8`:
--       ∀ a ≤ 21·10^14,  valueOf (floatRepr (fdiv (ofInt a) (ofInt 10^8))) = a / 10^8
--   where `fdiv` is IEEE-754 binary64 division with round-to-nearest-even and `floatRepr` is CPython's
--   `float.__repr__` (the shortest decimal string that parses back to the same double).
--   Missing: a model of binary64 and of `float.__repr__`; neither is derivable from the Python
--   sources of /repo.  The proved version below, `amount_out_exact_partial`, takes the two facts about
--   them that the argument needs as explicit hypotheses.
-/

/-- PARTIAL (send side).  What is missing relative to the full statement above: `rn` ("the double
    nearest to") and the emitted numeral `m · 10^p` are not computed from a model of IEEE-754 and of
    `float.__repr__`; instead
      * `hspacing` assumes the spacing of binary64 on the money range only: for `y ∈ [10^-8, 21·10^6]`
        (normal doubles; no subnormals, no overflow) a positive real with the same nearest double as
        `y` differs from it by at most 2^-52 of the larger one (round-to-nearest, 53-bit significand:
        the rounding interval of a normal double `q` is at most `ulp(q) ≤ q·2^-52` wide, ≤ 2^-28 here) —
        a statement IEEE-754 binary64 satisfies, unlike the unrestricted one,
      * `hrt` and `hshort` assume the contract of `float.__repr__`: the numeral parses back to the
        double that was formatted, and no numeral with fewer significant digits does.
    Under these, for every amount `0 < a ≤ 21·10^14` the numeral denotes exactly `a / 10^8`.
    (`a = 0` is formatted as `0.0`.)  The correspondence run checks the conclusion on the real
    `float`/`repr` by re-parsing every request body with exact decimal arithmetic. -/
theorem amount_out_exact_partial
    (rn : ℚ → ℚ)
    (hspacing : ∀ x y : ℚ, 0 < x → (1 : ℚ) / 10 ^ 8 ≤ y → y ≤ 21 * 10 ^ 6 → rn x = rn y →
      |x - y| ≤ max x y / 2 ^ 52)
    (a : ℕ) (ha : 0 < a) (ha2 : a ≤ 21 * 10 ^ 14)
    (m : ℕ) (p : ℤ) (hm : m % 10 ≠ 0)
    (hrt : rn (decVal m p) = rn ((a : ℚ) / 10 ^ 8))
    (hshort : ∀ (m' : ℕ) (p' : ℤ), m' % 10 ≠ 0 → rn (decVal m' p') = rn ((a : ℚ) / 10 ^ 8) →
      ndigits m ≤ ndigits m') :
    decVal m p = (a : ℚ) / 10 ^ 8 :=
  repr_denotes_amount rn hspacing a ha ha2 m p hm hrt hshort

/-- the hypotheses are satisfiable: with exact arithmetic for `rn` (every real its own "double") the
    spacing bound holds trivially and the shortest numeral of 0.5 BTC is `5 · 10^-1` -/
example : decVal 5 (-1) = ((50000000 : ℕ) : ℚ) / 10 ^ 8 := by
  apply amount_out_exact_partial id _ 50000000 (by norm_num) (by norm_num) 5 (-1) (by norm_num)
  · show decVal 5 (-1) = _
    unfold decVal; norm_num
  · intro m' p' _ _
    have : ndigits 5 = 1 := by rw [ndigits]; simp
    rw [this]; exact ndigits_pos m'
  · intro x y _ hy _ h
    have : x = y := h
    subst this
    simp only [sub_self, abs_zero, max_self]
    positivity

end BtcVerif.C19
