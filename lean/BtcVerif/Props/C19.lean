import BtcVerif.Model.Rpc
import BtcVerif.Spec.Rpc

namespace BtcVerif.C19
end BtcVerif.C19
