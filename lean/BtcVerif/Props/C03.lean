import BtcVerif.Model.Sighash
import BtcVerif.Spec.Sighash

namespace BtcVerif.C03
end BtcVerif.C03
