/-
  C03 — legacy signature hash: property theorems.

  `Model.Sighash.*` mirrors `FindAndDelete`, `RawSignatureHash`, `SignatureHash` (SIGVERSION_BASE),
  `CScript.is_witness_scriptpubkey` and the scratch copy `CMutableTransaction.from_tx`;
  `Spec.Sighash.legacySighash` is Bitcoin Core's on-the-fly `CTransactionSignatureSerializer`
  formulation.  SHA-256d (`Crypto.hash256`) is an opaque symbol: no theorem unfolds it.
  Helper lemmas live in Proofs/Sighash.lean, Proofs/SighashScript.lean, Proofs/SighashLegacy.lean.

  Purity ("never changes the transaction it was given") holds for the model by construction (it is
  a function of values); the aliasing half is C09's heap model and is observed by the tie.
-/
import BtcVerif.Proofs.SighashLegacy

namespace BtcVerif.C03
open BtcVerif Spec.Sighash Model.Sighash SighashProofs

/-- A script is tokenised without error by the Python generator `raw_iter` exactly when every byte
    belongs to a complete operation in the sense of Core's `GetOp`. -/
theorem parses_iff (s : Bytes) : (Model.Script.rawIter s).2 = none ↔ parses s :=
  parses_iff_rawIter s

/-- For scripts that parse, `FindAndDelete(script, CScript([OP_CODESEPARATOR]))` is Core's
    `SerializeScriptCode` body: the script with every OP_CODESEPARATOR *operation* removed … -/
theorem findAndDelete_codesep (s : Bytes) (h : parses s) :
    findAndDelete s [0xab] = .ok (scriptCodeNoSep s) :=
  findAndDelete_parses h

/-- … i.e. the concatenation, in order, of the operations that are not a bare OP_CODESEPARATOR;
    `l` are the byte strings of the operations (opcode, length field, payload), so 0xab bytes inside
    push payloads or length fields are untouched. -/
theorem findAndDelete_ops (s : Bytes) (l : List Bytes) (h : ops s = some l) :
    findAndDelete s [0xab] = .ok ((l.filter (· ≠ [0xab])).flatten) ∧ l.flatten = s := by
  have hp : parses s := by unfold parses; rw [h]; rfl
  obtain ⟨h1, h2⟩ := noSep_of_ops s.length s l (Nat.le_refl _) h
  exact ⟨by rw [findAndDelete_parses hp, h1]; rfl, h2⟩

/-- a script that does not parse makes FindAndDelete (hence RawSignatureHash) raise CScriptInvalidError -/
theorem findAndDelete_invalid (s sig : Bytes) (h : ¬ parses s) :
    findAndDelete s sig = .error .invalidscript :=
  findAndDelete_not_parses sig h

/-- **Model = Spec.**  For every subscript that parses, every transaction whose fields lie in their
    wire ranges (any number of inputs and outputs, with or without witness), every input index
    (including the non-existing ones: `i ≥ |vin|` is covered) and every hash-type byte, the modelled
    `RawSignatureHash` returns exactly the consensus digest and error indication. -/
theorem raw_eq_spec (sc : Bytes) (tx : Tx) (i ht : Nat) (hp : parses sc) (hsc : sc.length < 2 ^ 64)
    (hwf : FieldsWF tx) (hht : ht < 256) :
    rawSignatureHash sc tx i (ht : Int) = .ok (legacySighash sc tx i ht) :=
  raw_eq sc tx i ht hp hsc hwf (htRel_cast ht) (packI_ht (by omega))

/-- the same for every hash type in `[0, 2^31)` (the masks select the mode, all four bytes are hashed) -/
theorem raw_eq_spec_int32 (sc : Bytes) (tx : Tx) (i ht : Nat) (hp : parses sc) (hsc : sc.length < 2 ^ 64)
    (hwf : FieldsWF tx) (hht : ht < 2 ^ 31) :
    rawSignatureHash sc tx i (ht : Int) = .ok (legacySighash sc tx i ht) :=
  raw_eq sc tx i ht hp hsc hwf (htRel_cast ht) (packI_ht hht)

/-- the same under the wire-format well-formedness predicate of C01, for every `i ≤ |vin|` -/
theorem raw_eq_spec_wf (sc : Bytes) (tx : Tx) (i ht : Nat) (hp : parses sc)
    (hsc : sc.length ≤ Spec.Wire.maxSize) (hwf : Spec.Wire.WFTx tx) (_hi : i ≤ tx.vin.length) (hht : ht < 256) :
    rawSignatureHash sc tx i (ht : Int) = .ok (legacySighash sc tx i ht) :=
  raw_eq sc tx i ht hp (by unfold Spec.Wire.maxSize at hsc; omega) (fieldsWF_of_WFTx hwf) (htRel_cast ht)
    (packI_ht (by omega))

/-- Python ints as hash type, negative ones included: for every `h` in the int32 range the result is
    the consensus digest for the two's-complement reading `h mod 2^32` (what Core's `int nHashType`
    holds): the masks `h & 0x1f`, `h & 0x80` select the mode and all four bytes are hashed. -/
theorem raw_eq_spec_int (sc : Bytes) (tx : Tx) (i : Nat) (h : Int) (hp : parses sc) (hsc : sc.length < 2 ^ 64)
    (hwf : FieldsWF tx) (h1 : -(2 ^ 31 : Int) ≤ h) (h2 : h < 2 ^ 31) :
    rawSignatureHash sc tx i h = .ok (legacySighash sc tx i (h % 4294967296).toNat) :=
  raw_eq sc tx i _ hp hsc hwf (htRel_int32 h) (packI_int32 h1 h2)

/-- Outside the int32 range the two "constant one" cases are still answered (they return before the
    hash type is packed); every other call raises struct.error from `struct.pack('<i', hashtype)`. -/
theorem raw_hashtype_range (sc : Bytes) (tx : Tx) (i : Nat) (h : Int) (hp : parses sc) (hsc : sc.length < 2 ^ 64)
    (hwf : FieldsWF tx) (hh : h < -(2 ^ 31 : Int) ∨ (2 ^ 31 : Int) ≤ h) :
    rawSignatureHash sc tx i h =
      if i ≥ tx.vin.length ∨ (h % 32 = 3 ∧ i ≥ tx.vout.length) then .ok (1 :: List.replicate 31 0, true)
      else .error structError := by
  rw [raw_eq_gen sc tx i _ hp hsc hwf (htRel_int32 h), packI_out_of_range hh]
  have hs : isSingle (h % 4294967296).toNat = true ↔ h % 32 = 3 := (ht_single_iff (htRel_int32 h)).symm
  by_cases hi : i ≥ tx.vin.length
  · rw [if_pos hi, if_pos (Or.inl hi)]; rfl
  · rw [if_neg hi]
    by_cases h3 : h % 32 = 3 ∧ i ≥ tx.vout.length
    · rw [if_pos ⟨hs.mpr h3.1, h3.2⟩, if_pos (Or.inr h3)]; rfl
    · rw [if_neg (fun hc => h3 ⟨hs.mp hc.1, hc.2⟩), if_neg (fun hc => hc.elim hi h3)]; rfl

/-- The error indication is raised exactly when the input index does not exist or SIGHASH_SINGLE
    has no matching output, and then the digest is the historical constant 1. -/
theorem err_iff (sc : Bytes) (tx : Tx) (i ht : Nat) (hp : parses sc) (hsc : sc.length < 2 ^ 64)
    (hwf : FieldsWF tx) (hht : ht < 256) :
    ∃ d e, rawSignatureHash sc tx i (ht : Int) = .ok (d, e) ∧
      (e = true ↔ (i ≥ tx.vin.length ∨ (ht % 32 = 3 ∧ i ≥ tx.vout.length))) ∧
      (e = true → d = 1 :: List.replicate 31 0) := by
  refine ⟨(legacySighash sc tx i ht).1, (legacySighash sc tx i ht).2, raw_eq_spec sc tx i ht hp hsc hwf hht, ?_, ?_⟩
  · unfold legacySighash
    have hs : isSingle ht = true ↔ ht % 32 = 3 := by
      unfold isSingle SIGHASH_SINGLE; rw [decide_eq_true_iff]
    by_cases h1 : i ≥ tx.vin.length
    · simp [h1]
    · by_cases h2 : isSingle ht = true ∧ i ≥ tx.vout.length
      · rw [if_neg h1, if_pos h2]; simp [hs.mp h2.1, h2.2]
      · rw [if_neg h1, if_neg h2]
        simp only [Bool.false_eq_true, false_iff, not_or, not_and]
        exact ⟨h1, fun h3 => by simpa using fun hh => h2 ⟨hs.mpr h3, hh⟩⟩
  · unfold legacySighash
    split
    · intro _; rfl
    · split
      · intro _; rfl
      · intro h; cases h

/-- No stray Python exception (IndexError, struct.error, AssertionError, ValueError of the scratch
    copy) can escape `RawSignatureHash` on the property's domain. -/
theorem raw_no_pyexc (sc : Bytes) (tx : Tx) (i ht : Nat) (hp : parses sc) (hsc : sc.length < 2 ^ 64)
    (hwf : FieldsWF tx) (hht : ht < 256) (e : Exc) :
    rawSignatureHash sc tx i (ht : Int) ≠ .error e := by
  rw [raw_eq_spec sc tx i ht hp hsc hwf hht]; intro h; cases h

/-- `is_witness_scriptpubkey` — with its signed `'<bb'` unpack and `CScriptOp(head[0])` on a possibly
    negative value — never raises and decides exactly BIP141's witness-program shape. -/
theorem isWitnessScriptPubKey_spec (s : Bytes) : isWitnessScriptPubKey s = .ok (isWitnessProgram s) :=
  isWitnessScriptPubKey_eq s

/-- The convenience form (property-conforming model, see D17 below): the consensus digest when there
    is no error indication and ValueError when there is one — for EVERY subscript that parses. -/
theorem wrapper_eq_spec (sc : Bytes) (tx : Tx) (i ht : Nat) (hp : parses sc) (hsc : sc.length < 2 ^ 64)
    (hwf : FieldsWF tx) (hht : ht < 256) :
    signatureHashBase sc tx i (ht : Int) =
      if (legacySighash sc tx i ht).2 then .error .valueerr
      else .ok (legacySighash sc tx i ht).1 := by
  unfold signatureHashBase
  rw [raw_eq_spec sc tx i ht hp hsc hwf hht]
  cases h : (legacySighash sc tx i ht).2 <;> simp [bind_ok, h] <;> rfl

/-- The convenience form raises ValueError exactly when the raw form reports an error (index does
    not exist / SINGLE without matching output). -/
theorem wrapper_raises_iff (sc : Bytes) (tx : Tx) (i ht : Nat) (hp : parses sc) (hsc : sc.length < 2 ^ 64)
    (hwf : FieldsWF tx) (hht : ht < 256) :
    signatureHashBase sc tx i (ht : Int) = .error .valueerr ↔
      (i ≥ tx.vin.length ∨ (ht % 32 = 3 ∧ i ≥ tx.vout.length)) := by
  obtain ⟨d, e, hraw, hiff, _⟩ := err_iff sc tx i ht hp hsc hwf hht
  have hspec := raw_eq_spec sc tx i ht hp hsc hwf hht
  rw [hraw] at hspec
  have he : (legacySighash sc tx i ht).2 = e := by
    have := congrArg (fun r => match r with | Except.ok p => p.2 | Except.error _ => false) hspec
    simpa using this.symm
  rw [wrapper_eq_spec sc tx i ht hp hsc hwf hht, he, ← hiff]
  cases e <;> simp

/-- **Known finding D17** — what the shipped wrapper does instead: `assert not
    script.is_witness_scriptpubkey()` comes first, so for every subscript that has the shape of a
    witness program (all of which parse, hence lie inside the property's quantifier) the call raises
    AssertionError whatever the transaction, index and hash type — neither the digest nor ValueError. -/
theorem wrapper_witness_program_asserts (sc : Bytes) (tx : Tx) (i : Nat) (h : Int)
    (hw : isWitnessProgram sc = true) :
    signatureHashBaseAsCoded sc tx i h = .error assertionError := by
  unfold signatureHashBaseAsCoded
  rw [isWitnessScriptPubKey_eq, hw]; rfl

/-- on every other subscript the shipped wrapper is the property-conforming one -/
theorem wrapper_as_coded_eq (sc : Bytes) (tx : Tx) (i : Nat) (h : Int) (hw : isWitnessProgram sc = false) :
    signatureHashBaseAsCoded sc tx i h = signatureHashBase sc tx i h := by
  unfold signatureHashBaseAsCoded
  rw [isWitnessScriptPubKey_eq, hw]; rfl

/-- a witness program always parses (a version opcode and one complete direct push) -/
theorem witness_program_parses (sc : Bytes) (hw : isWitnessProgram sc = true) : parses sc := by
  unfold isWitnessProgram at hw
  rcases sc with _ | ⟨v, _ | ⟨l, rest⟩⟩
  · simp at hw
  · simp at hw
  · simp only [List.length_cons, decide_eq_true_eq] at hw
    obtain ⟨hv, h4, h42, hl⟩ := hw
    have hvn : ¬ v.toNat ≤ 0x4e ∨ v.toNat = 0 := by omega
    have hl1 : l.toNat < 0x4c := by omega
    have hrest : rest.length = l.toNat := by omega
    have hpush : getOp (l :: rest) = some (l, 1 + 0 + l.toNat) := by
      simp only [getOp]
      rw [if_pos (by omega), if_pos hl1]
      simp only
      rw [if_neg (by omega)]
    have hdrop : (l :: rest).drop (1 + 0 + l.toNat) = [] := by
      apply List.drop_eq_nil_of_le; simp only [List.length_cons]; omega
    have hops_push : ops (l :: rest) = some [l :: rest] := by
      rw [ops_eq, hpush]
      simp only [hdrop]
      rw [ops_eq]
      simp only [getOp_nil, if_true, Option.map_some]
      congr 2
      apply List.take_of_length_le; simp only [List.length_cons]; omega
    have hv1 : getOp (v :: l :: rest) = some (v, 1) := by
      simp only [getOp]
      rcases hvn with hbig | hz
      · rw [if_neg hbig]
      · rw [if_pos (by omega), if_pos (by omega)]
        simp only
        rw [if_neg (by simp [hz])]
        simp [hz]
    unfold parses
    rw [ops_eq, hv1]
    simp only [List.drop_succ_cons, List.drop_zero, hops_push, Option.map_some, Option.isSome_some]

/-! ### non-vacuity -/

/-- `OP_CODESEPARATOR PUSH1(ab) OP_CODESEPARATOR PUSHDATA1(ab ab) OP_CHECKSIG OP_CODESEPARATOR` parses;
    the three separator operations go, the 0xab payload bytes stay -/
def exScript : Bytes := [0xab, 0x01, 0xab, 0xab, 0x4c, 0x02, 0xab, 0xab, 0xac, 0xab]

example : ops exScript = some [[0xab], [0x01, 0xab], [0xab], [0x4c, 0x02, 0xab, 0xab], [0xac], [0xab]] := by
  simp [exScript, ops_eq, getOp, leNat]
example : parses exScript := by
  unfold parses; simp [exScript, ops_eq, getOp, leNat]
example : scriptCodeNoSep exScript = [0x01, 0xab, 0x4c, 0x02, 0xab, 0xab, 0xac] := by
  simp [exScript, scriptCodeNoSep_eq, getOp, leNat, OP_CODESEPARATOR]
/-- a truncated push does not parse -/
example : ¬ parses [0xab, 0x02, 0x01] := by
  unfold parses; simp [ops_eq, getOp, leNat]

/-- a 3-input / 1-output transaction in range: index 1 under SIGHASH_SINGLE has no matching output -/
def exTx : Tx :=
  { nVersion := -1
    vin := [ { prevout := { hash := List.replicate 32 0x11, n := 0 }, scriptSig := [0x51], nSequence := 0 },
             { prevout := { hash := List.replicate 32 0x22, n := 1 }, scriptSig := [], nSequence := 0xffffffff },
             { prevout := { hash := List.replicate 32 0x33, n := 0xffffffff }, scriptSig := [], nSequence := 2 ^ 31 } ]
    vout := [ { nValue := 0, scriptPubKey := [0xab] } ]
    wit := [[], [[0x01]], []]
    nLockTime := 0xffffffff }

example : FieldsWF exTx := by
  refine ⟨by decide, by decide, by decide, by decide, ?_, ?_, by decide⟩
  · intro i hi
    simp only [exTx, List.mem_cons, List.not_mem_nil, or_false] at hi
    rcases hi with rfl | rfl | rfl <;> refine ⟨⟨by decide, by decide⟩, by decide⟩
  · intro o ho
    simp only [exTx, List.mem_cons, List.not_mem_nil, or_false] at ho
    subst ho
    refine ⟨by decide, by decide, by decide⟩

example : isWitnessProgram ([0x00, 0x14] ++ List.replicate 20 0x77) = true := by decide
example : isWitnessProgram exScript = false := by decide

end BtcVerif.C03
