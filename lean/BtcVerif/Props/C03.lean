/-
  C03 — legacy signature hash: property theorems.

  `Model.Sighash.*` mirrors `FindAndDelete`, `RawSignatureHash`, `SignatureHash` (SIGVERSION_BASE),
  `CScript.is_witness_scriptpubkey` and the scratch copy `CMutableTransaction.from_tx`;
  `Spec.Sighash.legacySighash` is Bitcoin Core's on-the-fly `CTransactionSignatureSerializer`
  formulation.  SHA-256d (`Crypto.hash256`) is an opaque symbol: no theorem unfolds it.
  Helper lemmas live in Proofs/Sighash.lean, Proofs/SighashScript.lean, Proofs/SighashLegacy.lean.

  Purity ("never changes the transaction it was given") holds for the model by construction (it is
  a function of values); the aliasing half is C09's heap model and is observed by the tie.
-/
import BtcVerif.Proofs.SighashLegacy

namespace BtcVerif.C03
open BtcVerif Spec.Sighash Model.Sighash SighashProofs

/-- A script is tokenised without error by the Python generator `raw_iter` exactly when every byte
    belongs to a complete operation in the sense of Core's `GetOp`. -/
theorem parses_iff (s : Bytes) : (Model.Script.rawIter s).2 = none ↔ parses s :=
  parses_iff_rawIter s

/-- For scripts that parse, `FindAndDelete(script, CScript([OP_CODESEPARATOR]))` is Core's
    `SerializeScriptCode` body: the script with every OP_CODESEPARATOR *operation* removed … -/
theorem findAndDelete_codesep (s : Bytes) (h : parses s) :
    findAndDelete s [0xab] = .ok (scriptCodeNoSep s) :=
  findAndDelete_parses h

/-- … i.e. the concatenation, in order, of the operations that are not a bare OP_CODESEPARATOR;
    `l` are the byte strings of the operations (opcode, length field, payload), so 0xab bytes inside
    push payloads or length fields are untouched. -/
theorem findAndDelete_ops (s : Bytes) (l : List Bytes) (h : ops s = some l) :
    findAndDelete s [0xab] = .ok ((l.filter (· ≠ [0xab])).flatten) ∧ l.flatten = s := by
  have hp : parses s := by unfold parses; rw [h]; rfl
  obtain ⟨h1, h2⟩ := noSep_of_ops s.length s l (Nat.le_refl _) h
  exact ⟨by rw [findAndDelete_parses hp, h1]; rfl, h2⟩

/-- a script that does not parse makes FindAndDelete (hence RawSignatureHash) raise CScriptInvalidError -/
theorem findAndDelete_invalid (s sig : Bytes) (h : ¬ parses s) :
    findAndDelete s sig = .error .invalidscript :=
  findAndDelete_not_parses sig h

/-- **Model = Spec.**  For every subscript that parses, every transaction whose fields lie in their
    wire ranges (any number of inputs and outputs, with or without witness), every input index
    (including the non-existing ones: `i ≥ |vin|` is covered) and every hash-type byte, the modelled
    `RawSignatureHash` returns exactly the consensus digest and error indication. -/
theorem raw_eq_spec (sc : Bytes) (tx : Tx) (i ht : Nat) (hp : parses sc) (hsc : sc.length < 2 ^ 64)
    (hwf : FieldsWF tx) (hht : ht < 256) :
    rawSignatureHash sc tx i (ht : Int) = .ok (legacySighash sc tx i ht) :=
  raw_eq sc tx i ht hp hsc hwf (by omega)

/-- the same for every hash type in `[0, 2^31)` (the masks select the mode, all four bytes are hashed) -/
theorem raw_eq_spec_int32 (sc : Bytes) (tx : Tx) (i ht : Nat) (hp : parses sc) (hsc : sc.length < 2 ^ 64)
    (hwf : FieldsWF tx) (hht : ht < 2 ^ 31) :
    rawSignatureHash sc tx i (ht : Int) = .ok (legacySighash sc tx i ht) :=
  raw_eq sc tx i ht hp hsc hwf hht

/-- the same under the wire-format well-formedness predicate of C01, for every `i ≤ |vin|` -/
theorem raw_eq_spec_wf (sc : Bytes) (tx : Tx) (i ht : Nat) (hp : parses sc)
    (hsc : sc.length ≤ Spec.Wire.maxSize) (hwf : Spec.Wire.WFTx tx) (_hi : i ≤ tx.vin.length) (hht : ht < 256) :
    rawSignatureHash sc tx i (ht : Int) = .ok (legacySighash sc tx i ht) :=
  raw_eq sc tx i ht hp (by unfold Spec.Wire.maxSize at hsc; omega) (fieldsWF_of_WFTx hwf) (by omega)

/-- The error indication is raised exactly when the input index does not exist or SIGHASH_SINGLE
    has no matching output, and then the digest is the historical constant 1. -/
theorem err_iff (sc : Bytes) (tx : Tx) (i ht : Nat) (hp : parses sc) (hsc : sc.length < 2 ^ 64)
    (hwf : FieldsWF tx) (hht : ht < 256) :
    ∃ d e, rawSignatureHash sc tx i (ht : Int) = .ok (d, e) ∧
      (e = true ↔ (i ≥ tx.vin.length ∨ (ht % 32 = 3 ∧ i ≥ tx.vout.length))) ∧
      (e = true → d = 1 :: List.replicate 31 0) := by
  refine ⟨(legacySighash sc tx i ht).1, (legacySighash sc tx i ht).2, raw_eq_spec sc tx i ht hp hsc hwf hht, ?_, ?_⟩
  · unfold legacySighash
    have hs : isSingle ht = true ↔ ht % 32 = 3 := by
      unfold isSingle SIGHASH_SINGLE; rw [decide_eq_true_iff]
    by_cases h1 : i ≥ tx.vin.length
    · simp [h1]
    · by_cases h2 : isSingle ht = true ∧ i ≥ tx.vout.length
      · rw [if_neg h1, if_pos h2]; simp [hs.mp h2.1, h2.2]
      · rw [if_neg h1, if_neg h2]
        simp only [Bool.false_eq_true, false_iff, not_or, not_and]
        exact ⟨h1, fun h3 => by simpa using fun hh => h2 ⟨hs.mpr h3, hh⟩⟩
  · unfold legacySighash
    split
    · intro _; rfl
    · split
      · intro _; rfl
      · intro h; cases h

/-- No stray Python exception (IndexError, struct.error, AssertionError, ValueError of the scratch
    copy) can escape `RawSignatureHash` on the property's domain. -/
theorem raw_no_pyexc (sc : Bytes) (tx : Tx) (i ht : Nat) (hp : parses sc) (hsc : sc.length < 2 ^ 64)
    (hwf : FieldsWF tx) (hht : ht < 256) (e : Exc) :
    rawSignatureHash sc tx i (ht : Int) ≠ .error e := by
  rw [raw_eq_spec sc tx i ht hp hsc hwf hht]; intro h; cases h

/-- `is_witness_scriptpubkey` — with its signed `'<bb'` unpack and `CScriptOp(head[0])` on a possibly
    negative value — never raises and decides exactly BIP141's witness-program shape. -/
theorem isWitnessScriptPubKey_spec (s : Bytes) : isWitnessScriptPubKey s = .ok (isWitnessProgram s) :=
  isWitnessScriptPubKey_eq s

/-- The convenience form: AssertionError on a witness program; otherwise the consensus digest when
    there is no error indication and ValueError when there is one. -/
theorem wrapper_eq_spec (sc : Bytes) (tx : Tx) (i ht : Nat) (hp : parses sc) (hsc : sc.length < 2 ^ 64)
    (hwf : FieldsWF tx) (hht : ht < 256) :
    signatureHashBase sc tx i (ht : Int) =
      if isWitnessProgram sc then .error assertionError
      else if (legacySighash sc tx i ht).2 then .error .valueerr
      else .ok (legacySighash sc tx i ht).1 := by
  unfold signatureHashBase
  rw [isWitnessScriptPubKey_eq, raw_eq_spec sc tx i ht hp hsc hwf hht]
  cases isWitnessProgram sc
  · cases h : (legacySighash sc tx i ht).2 <;> simp [bind_ok, h] <;> rfl
  · rfl

/-- The convenience form raises ValueError exactly when the raw form reports an error (index does
    not exist / SINGLE without matching output), for subscripts that are not witness programs. -/
theorem wrapper_raises_iff (sc : Bytes) (tx : Tx) (i ht : Nat) (hp : parses sc) (hsc : sc.length < 2 ^ 64)
    (hwf : FieldsWF tx) (hht : ht < 256) (hw : isWitnessProgram sc = false) :
    signatureHashBase sc tx i (ht : Int) = .error .valueerr ↔
      (i ≥ tx.vin.length ∨ (ht % 32 = 3 ∧ i ≥ tx.vout.length)) := by
  obtain ⟨d, e, hraw, hiff, _⟩ := err_iff sc tx i ht hp hsc hwf hht
  have hspec := raw_eq_spec sc tx i ht hp hsc hwf hht
  rw [hraw] at hspec
  have he : (legacySighash sc tx i ht).2 = e := by
    have := congrArg (fun r => match r with | Except.ok p => p.2 | Except.error _ => false) hspec
    simpa using this.symm
  rw [wrapper_eq_spec sc tx i ht hp hsc hwf hht, hw, he, ← hiff]
  cases e <;> simp

/-! ### non-vacuity -/

/-- `OP_CODESEPARATOR PUSH1(ab) OP_CODESEPARATOR PUSHDATA1(ab ab) OP_CHECKSIG OP_CODESEPARATOR` parses;
    the three separator operations go, the 0xab payload bytes stay -/
def exScript : Bytes := [0xab, 0x01, 0xab, 0xab, 0x4c, 0x02, 0xab, 0xab, 0xac, 0xab]

example : ops exScript = some [[0xab], [0x01, 0xab], [0xab], [0x4c, 0x02, 0xab, 0xab], [0xac], [0xab]] := by
  simp [exScript, ops_eq, getOp, leNat]
example : parses exScript := by
  unfold parses; simp [exScript, ops_eq, getOp, leNat]
example : scriptCodeNoSep exScript = [0x01, 0xab, 0x4c, 0x02, 0xab, 0xab, 0xac] := by
  simp [exScript, scriptCodeNoSep_eq, getOp, leNat, OP_CODESEPARATOR]
/-- a truncated push does not parse -/
example : ¬ parses [0xab, 0x02, 0x01] := by
  unfold parses; simp [ops_eq, getOp, leNat]

/-- a 3-input / 1-output transaction in range: index 1 under SIGHASH_SINGLE has no matching output -/
def exTx : Tx :=
  { nVersion := -1
    vin := [ { prevout := { hash := List.replicate 32 0x11, n := 0 }, scriptSig := [0x51], nSequence := 0 },
             { prevout := { hash := List.replicate 32 0x22, n := 1 }, scriptSig := [], nSequence := 0xffffffff },
             { prevout := { hash := List.replicate 32 0x33, n := 0xffffffff }, scriptSig := [], nSequence := 2 ^ 31 } ]
    vout := [ { nValue := 0, scriptPubKey := [0xab] } ]
    wit := [[], [[0x01]], []]
    nLockTime := 0xffffffff }

example : FieldsWF exTx := by
  refine ⟨by decide, by decide, by decide, by decide, ?_, ?_, by decide⟩
  · intro i hi
    simp only [exTx, List.mem_cons, List.not_mem_nil, or_false] at hi
    rcases hi with rfl | rfl | rfl <;> refine ⟨⟨by decide, by decide⟩, by decide⟩
  · intro o ho
    simp only [exTx, List.mem_cons, List.not_mem_nil, or_false] at ho
    subst ho
    refine ⟨by decide, by decide, by decide⟩

example : isWitnessProgram ([0x00, 0x14] ++ List.replicate 20 0x77) = true := by decide
example : isWitnessProgram exScript = false := by decide

end BtcVerif.C03
