import BtcVerif.Model.Merkle
import BtcVerif.Spec.Merkle

namespace BtcVerif.C15
end BtcVerif.C15
