/-
  C15 — merkle roots, witness merkle root, constructor decision and weights: property theorems.
  Statements use only Model.Merkle.* (mirror of the Python), Spec.Merkle.* / Spec.Wire.* (reference
  definitions) and the range predicates `TxRange` / `BlockRange` ("fields in wire range").
  Helper lemmas live in Proofs/Merkle.lean and Proofs/SerSpec.lean.  `hash256` is opaque throughout.
-/
import BtcVerif.Proofs.Merkle

namespace BtcVerif.C15
open BtcVerif BtcVerif.Crypto BtcVerif.Model.Merkle BtcVerif.Model.Wire
open BtcVerif.Spec.Merkle (TxRange BlockRange)

/-- the loop over the growing array equals the recursive definition, for every non-empty list of
    hashes: the tree is built without IndexError and its last node is `Spec.Merkle.root` -/
theorem merkle_loop_eq_rec (hs : List Bytes) (hne : hs ≠ []) :
    ∃ tree, buildTreeFromTxids hs = .ok tree ∧ tree.getLast? = Spec.Merkle.root hs :=
  MerkleProofs.buildTree_spec hs hne

/-- `build_merkle_tree_from_txids(hs)[-1]` is the reference root -/
theorem merkle_root_of_hashes (hs : List Bytes) (hne : hs ≠ []) :
    ∃ r, (buildTreeFromTxids hs).bind lastOf = .ok r ∧ Spec.Merkle.root hs = some r := by
  obtain ⟨tree, r, ht, hl, hs'⟩ := MerkleProofs.root_spec hs hne
  exact ⟨r, by simp [ht, hl, Except.bind], hs'⟩

/-- `GetTxid` is the hash of the legacy encoding whatever the witness, `GetHash` the BIP141 wtxid -/
theorem txid_eq (t : Tx) (h : TxRange t) :
    getTxid t = .ok (Spec.Merkle.txid t) ∧ getHash t = .ok (Spec.Merkle.wtxid t) :=
  ⟨MerkleProofs.getTxid_ok t h, MerkleProofs.getHash_ok t h⟩

/-- `calc_merkle_root` of a non-empty transaction list is the reference merkle root of the txids;
    of an empty list it is ValueError -/
theorem merkle_root_eq (vtx : List Tx) (hr : ∀ t ∈ vtx, TxRange t) :
    (vtx ≠ [] → ∃ r, calcMerkleRoot vtx = .ok r ∧ Spec.Merkle.merkleRoot vtx = some r) ∧
    (vtx = [] → calcMerkleRoot vtx = .error .valueerr) := by
  constructor
  · intro hne
    obtain ⟨_, r, _, _, hc, hs⟩ := MerkleProofs.calcMerkleRoot_spec vtx hne hr
    exact ⟨r, hc, hs⟩
  · intro h; subst h; simp [calcMerkleRoot]

/-- `calc_witness_merkle_root`: the BIP141 witness root (coinbase entry zeroed) when some
    transaction carries witness data, NoWitnessData when none does, ValueError for no transactions -/
theorem witness_root_eq (vtx : List Tx) (hr : ∀ t ∈ vtx, TxRange t) :
    ((∃ t ∈ vtx, t.hasWitness = true) →
      ∃ r, calcWitnessMerkleRoot vtx = .ok r ∧ Spec.Merkle.witnessRoot vtx = some r) ∧
    (vtx ≠ [] → (∀ t ∈ vtx, t.hasWitness = false) → calcWitnessMerkleRoot vtx = .error noWitnessData) ∧
    (vtx = [] → calcWitnessMerkleRoot vtx = .error .valueerr) := by
  obtain ⟨hnone, hsome⟩ := MerkleProofs.buildWitnessTree_spec vtx hr
  refine ⟨?_, ?_, ?_⟩
  · rintro ⟨t, ht, hw⟩
    have hany : vtx.any (·.hasWitness) = true := List.any_eq_true.mpr ⟨t, ht, hw⟩
    obtain ⟨tree, r, hb, hl, hs⟩ := hsome hany
    have hlen : vtx.length ≠ 0 := by
      cases vtx with
      | nil => simp at ht
      | cons _ _ => simp
    exact ⟨r, by simp [calcWitnessMerkleRoot, hlen, hb, hl], hs⟩
  · intro hne hall
    have hany : vtx.any (·.hasWitness) = false := by
      rw [List.any_eq_false]; intro t ht; simp [hall t ht]
    have hlen : vtx.length ≠ 0 := by
      cases vtx with
      | nil => exact absurd rfl hne
      | cons _ _ => simp
    simp [calcWitnessMerkleRoot, hlen, hnone hany]
  · intro h; subst h; simp [calcWitnessMerkleRoot]

/-- the known malleability of the consensus algorithm (CVE-2012-2459): because a last unpaired node is
    paired with itself, a list of odd length > 1 and the same list with its last hash repeated have the
    same root — the Spec is Bitcoin's merkle tree, not an idealised one -/
theorem merkle_mutation_cve (hs : List Bytes) (hne : hs ≠ []) (hodd : hs.length % 2 = 1) (h1 : 1 < hs.length) :
    Spec.Merkle.root (hs ++ [hs.getLast hne]) = Spec.Merkle.root hs := by
  have key : ∀ (l : List Bytes) (x : Bytes), (l ++ [x]).length % 2 = 1 →
      Spec.Merkle.pairUp (l ++ [x] ++ [x]) = Spec.Merkle.pairUp (l ++ [x]) := by
    intro l
    induction l using Spec.Merkle.pairUp.induct with
    | case1 => intro x _; simp [Spec.Merkle.pairUp]
    | case2 a => intro x h; simp at h
    | case3 a b rest ih =>
      intro x h
      have h' : (rest ++ [x]).length % 2 = 1 := by simp at h ⊢; omega
      simp only [List.cons_append, Spec.Merkle.pairUp]
      rw [← ih x h']
  obtain ⟨l, hl⟩ : ∃ l, hs = l ++ [hs.getLast hne] := ⟨hs.dropLast, (List.dropLast_concat_getLast hne).symm⟩
  have hp : Spec.Merkle.pairUp (hs ++ [hs.getLast hne]) = Spec.Merkle.pairUp hs := by
    have := key l (hs.getLast hne) (by rw [← hl]; exact hodd)
    rw [← hl] at this; exact this
  rw [MerkleProofs.root_pairUp (hs ++ [hs.getLast hne]) (by simp; omega),
    MerkleProofs.root_pairUp hs (by omega), hp]

/-- every digest is 32 bytes long (a fact about SHA-256 that the theorems below take as an explicit
    hypothesis, because `hash256` is never unfolded) -/
def HashLen : Prop := ∀ x : Bytes, (hash256 x).length = 32

/-- the constructor's decision on a non-empty transaction list: a declared root different from
    the computed one (and not all-zero) is refused with a validation error, whatever else holds -/
theorem ctor_refuses (hdr : Header) (vtx : List Tx) (hne : vtx ≠ []) (hr : ∀ t ∈ vtx, TxRange t)
    (r : Bytes) (hroot : Spec.Merkle.merkleRoot vtx = some r)
    (hz : hdr.hashMerkleRoot ≠ Spec.Merkle.zero32) (hd : hdr.hashMerkleRoot ≠ r) :
    blockCtor hdr vtx = .error .validation := by
  obtain ⟨tree, r', hb, hl, _, hs⟩ := MerkleProofs.calcMerkleRoot_spec vtx hne hr
  have hrr : r' = r := by rw [hroot] at hs; exact (Option.some.inj hs).symm
  subst hrr
  have hlen : vtx.length ≠ 0 := by
    cases vtx with
    | nil => exact absurd rfl hne
    | cons _ _ => simp
  have hz' : hdr.hashMerkleRoot ≠ zero32 := hz
  simp [blockCtor, hlen, hb, hl, hz', hd]

/-- the constructor's decision, positive half: an all-zero declared root is replaced by the
    computed root, a declared root equal to the computed one is kept; nothing else changes -/
theorem ctor_decision (hdr : Header) (vtx : List Tx) (hne : vtx ≠ []) (hr : ∀ t ∈ vtx, TxRange t)
    (hprev : hdr.hashPrevBlock.length = 32) (r : Bytes) (hroot : Spec.Merkle.merkleRoot vtx = some r)
    (hlen32 : r.length = 32) :
    (hdr.hashMerkleRoot = Spec.Merkle.zero32 ∨ hdr.hashMerkleRoot = r →
      blockCtor hdr vtx = .ok { hdr := { hdr with hashMerkleRoot := r }, vtx := vtx }) ∧
    (hdr.hashMerkleRoot ≠ Spec.Merkle.zero32 → hdr.hashMerkleRoot ≠ r →
      blockCtor hdr vtx = .error .validation) := by
  refine ⟨?_, fun hz hd => ctor_refuses hdr vtx hne hr r hroot hz hd⟩
  intro hcase
  obtain ⟨tree, r', hb, hl, _, hs⟩ := MerkleProofs.calcMerkleRoot_spec vtx hne hr
  have hrr : r' = r := by rw [hroot] at hs; exact (Option.some.inj hs).symm
  subst hrr
  have hlen : vtx.length ≠ 0 := by
    cases vtx with
    | nil => exact absurd rfl hne
    | cons _ _ => simp
  obtain ⟨hnone, hsome⟩ := MerkleProofs.buildWitnessTree_spec vtx hr
  have hwt : ∃ o, buildWitnessTree vtx = .ok o := by
    cases hany : vtx.any (·.hasWitness) with
    | false => exact ⟨none, hnone hany⟩
    | true => obtain ⟨t, _, h, _, _⟩ := hsome hany; exact ⟨some t, h⟩
  obtain ⟨o, ho⟩ := hwt
  by_cases hz : hdr.hashMerkleRoot = zero32
  · simp [blockCtor, hlen, hb, hl, hz, hprev, hlen32, ho]
  · have hd : hdr.hashMerkleRoot = r' := by
      rcases hcase with h | h
      · exact absurd h hz
      · exact h
    simp [blockCtor, hlen, hb, hl, hprev, hlen32, ho, hd]

/-- the computed root of a non-empty transaction list is a digest, hence 32 bytes, so the
    length hypothesis of `ctor_decision` follows from `HashLen` -/
theorem merkleRoot_length (hH : HashLen) (vtx : List Tx) (r : Bytes)
    (hroot : Spec.Merkle.merkleRoot vtx = some r) : r.length = 32 := by
  have key : ∀ (n : Nat) (hs : List Bytes), hs.length = n → (∀ h ∈ hs, h.length = 32) →
      ∀ r, Spec.Merkle.root hs = some r → r.length = 32 := by
    intro n
    induction n using Nat.strongRecOn with
    | _ n ih =>
      intro hs hn hall r hr
      match hs, hn, hall, hr with
      | [], _, _, hr => simp [Spec.Merkle.root] at hr
      | [h], _, hall, hr =>
        simp [Spec.Merkle.root] at hr; subst hr; exact hall _ (by simp)
      | a :: b :: rest, hn, hall, hr =>
        rw [Spec.Merkle.root] at hr
        have hl := Spec.Merkle.pairUp_length (a :: b :: rest)
        have hp : ∀ l : List Bytes, ∀ h ∈ Spec.Merkle.pairUp l, h.length = 32 := by
          intro l
          induction l using Spec.Merkle.pairUp.induct with
          | case1 => simp [Spec.Merkle.pairUp]
          | case2 a => intro h hh; simp [Spec.Merkle.pairUp] at hh; subst hh; exact hH _
          | case3 a b rest ih2 =>
            intro h hh
            simp only [Spec.Merkle.pairUp, List.mem_cons] at hh
            rcases hh with hh | hh
            · subst hh; exact hH _
            · exact ih2 h hh
        exact ih _ (by rw [hl, ← hn]; simp; omega) _ rfl (hp _) r hr
  exact key _ (vtx.map Spec.Merkle.txid) rfl (by
    intro h hh; simp only [List.mem_map] at hh; obtain ⟨t, _, rfl⟩ := hh; exact hH _) r hroot

/-- a block without transactions: nothing is checked, the declared root is kept -/
theorem ctor_no_tx (hdr : Header) (hprev : hdr.hashPrevBlock.length = 32)
    (hm : hdr.hashMerkleRoot.length = 32) :
    blockCtor hdr [] = .ok { hdr := hdr, vtx := [] } := by
  cases hdr
  simp_all [blockCtor, buildWitnessTree, pure, Except.pure]

/-- serialising with an all-empty witness equals the witness-stripped serialisation (what
    justifies the `len(self.serialize()) * 4` shortcut), straight from `Model.Wire.serTx` -/
theorem serTx_null_witness (t : Tx) (h : witIsNull t.wit = true) : serTx t true = serTx t.strip true := by
  unfold serTx
  rw [h]
  simp [Tx.strip, witIsNull]

/-- weight = 3·|stripped| + |full|, in both branches of `calc_weight`, stated on the model's own
    serialiser (no range hypothesis: whenever the two serialisations exist) -/
theorem weight_eq_ser (t : Tx) (hin : t.vin ≠ []) (hout : t.vout ≠ []) (stripped full : Bytes)
    (hs : serTx t.strip true = .ok stripped) (hf : serTx t true = .ok full) :
    calcWeight t = .ok (3 * stripped.length + full.length) := by
  have h1 : t.vin.length > 0 := List.length_pos_iff.mpr hin
  have h2 : t.vout.length > 0 := List.length_pos_iff.mpr hout
  by_cases hw : witIsNull t.wit = true
  · have : full = stripped := by
      rw [serTx_null_witness t hw, hs] at hf; exact (Except.ok.inj hf).symm
    subst this
    simp [calcWeight, h1, h2, hw, hf, Except.map]; omega
  · have hv := MerkleProofs.ctorValid_of_ser t true full hf
    simp [calcWeight, h1, h2, hw, hv, hs, hf, Except.map]; omega

/-- weight equals the BIP141 definition over the wire format -/
theorem weight_eq (t : Tx) (h : TxRange t) (hin : t.vin ≠ []) (hout : t.vout ≠ []) :
    calcWeight t = .ok (Spec.Merkle.txWeight t) :=
  weight_eq_ser t hin hout _ _ (SerSpec.serTx_strip t h) (SerSpec.serTx_true t h)

/-- the documented precondition: no inputs or no outputs is an AssertionError -/
theorem weight_asserts (t : Tx) (h : t.vin = [] ∨ t.vout = []) : calcWeight t = .error assertionError := by
  rcases h with h | h
  · simp [calcWeight, h]
  · by_cases h1 : t.vin.length > 0
    · simp [calcWeight, h]
    · simp [calcWeight, h1]

/-- block weight = 3·|stripped block| + |full block| -/
theorem block_weight_eq (b : Block) (h : BlockRange b) : getWeight b = .ok (Spec.Merkle.blockWeight b) :=
  MerkleProofs.getWeight_ok b h

/-! ### non-vacuity -/

/-- a 2-input / 2-output transaction with one non-empty witness stack and a 300-byte script -/
def exTx : Tx :=
  { nVersion := 2,
    vin := [{ prevout := { hash := List.replicate 32 7, n := 1 }, scriptSig := List.replicate 300 0x51, nSequence := 0xfffffffe },
            { prevout := { hash := List.replicate 32 9, n := 0 }, scriptSig := [], nSequence := 0xffffffff }],
    vout := [{ nValue := 5000000000, scriptPubKey := [0x51] }, { nValue := 0, scriptPubKey := [0x6a, 0x01, 0x02] }],
    wit := [[[1, 2, 3], []], []],
    nLockTime := 500000000 }

set_option maxRecDepth 8000 in
example : TxRange exTx := by decide
example : exTx.hasWitness = true := by decide
example : exTx.vin ≠ [] ∧ exTx.vout ≠ [] := by decide
/-- three hashes: the odd level duplicates the last node -/
example (a b c : Bytes) :
    Spec.Merkle.root [a, b, c] = some (hash256 (hash256 (a ++ b) ++ hash256 (c ++ c))) := by
  simp [Spec.Merkle.root, Spec.Merkle.pairUp]
example (a b c : Bytes) : ∃ tree, buildTreeFromTxids [a, b, c] = .ok tree ∧
    tree.getLast? = some (hash256 (hash256 (a ++ b) ++ hash256 (c ++ c))) := by
  obtain ⟨tree, h1, h2⟩ := merkle_loop_eq_rec [a, b, c] (by simp)
  exact ⟨tree, h1, by rw [h2]; simp [Spec.Merkle.root, Spec.Merkle.pairUp]⟩

end BtcVerif.C15
