/-
  C01 — transaction / block wire format: exact bytes, lossless round trip, clean errors.

  `Model.Wire.*` mirrors bitcoin/core/serialize.py and the stream_(de)serialize methods;
  `Spec.Wire.*` is the wire format as plain concatenations.  `WFTx`/`WFHeader`/`WFBlock` are the
  property's "fields in their wire ranges" (int32 version, uint32 index/sequence/locktime/time/bits/
  nonce, int64 value, 32-byte hashes, ≥ 1 input, one witness stack per input or none, script and
  witness-item lengths ≤ MAX_SIZE, counts < 2^64).  All theorems are for every such value, of any size.
  Helper lemmas: Proofs/Codec.lean (codec library), Proofs/Wire.lean.
-/
import BtcVerif.Proofs.Ident

namespace BtcVerif.C01
open BtcVerif BtcVerif.Model.Wire BtcVerif.Spec.Wire BtcVerif.Codec

/-! ### serialisation produces exactly the prescribed bytes -/

/-- `CTransaction.serialize()` = the wire format's byte string (extended form iff `hasWitness`, by
    the definition of `Spec.Wire.txBytes`) -/
theorem ser_eq_spec (t : Tx) (wf : WFTx t) : serTx t = .ok (txBytes t) := serTx_ok wf

/-- `serialize(include_witness=False)` = the legacy byte string, whatever the witness -/
theorem ser_stripped_eq_spec (t : Tx) (wf : WFTx t) : serTx t false = .ok (txLegacy t) :=
  serTx_noWitness_ok wf

theorem serHeader_eq_spec (h : Header) (wf : WFHeader h) : serHeader h = .ok (header h) :=
  serHeader_ok wf

theorem serBlock_eq_spec (b : Block) (wf : WFBlock b) : serBlock b = .ok (block b) := serBlock_ok wf

/-- the header encoding is 80 bytes -/
theorem header_length (h : Header) (wf : WFHeader h) : (header h).length = 80 := by
  obtain ⟨_, _, hp, hm, _⟩ := wf
  simp [header, leBytesInt_length, hp, hm]

/-- bytes 4 and 5 of an encoding are the BIP144 marker and flag -/
def usesExtendedForm (bs : Bytes) : Bool := (bs.drop 4).take 2 == [0x00, 0x01]

/-- the Spec's condition ("some witness stack is non-empty", `Basic/Tx.lean`) is an existential over
    the stacks; it is defined independently of the model's `is_null` loop -/
theorem hasWitness_iff (t : Tx) : t.hasWitness = true ↔ ∃ s ∈ t.wit, s ≠ [] := Tx.hasWitness_iff t

/-- the model's mirror of `CTxWitness.is_null` (the test `stream_serialize` branches on) answers
    `True` exactly when no stack is non-empty — a theorem, not a shared definition -/
theorem isNull_mirror_iff (w : List WitStack) : witIsNull w = true ↔ ¬ ∃ s ∈ w, s ≠ [] := by
  have := Tx.hasWitness_eq_not_witIsNull { nVersion := 0, vin := [], vout := [], wit := w, nLockTime := 0 }
  have h2 := Tx.hasWitness_iff { nVersion := 0, vin := [], vout := [], wit := w, nLockTime := 0 }
  simp only at this h2
  rw [← h2, this]
  cases witIsNull w <;> simp

/-- the marker/flag form is produced (by the model, which branches on the `is_null` mirror) if and
    only if some witness stack is non-empty (the Spec's independent condition) -/
theorem marker_iff (t : Tx) (wf : WFTx t) (bs : Bytes) (h : serTx t = .ok bs) :
    usesExtendedForm bs = true ↔ t.hasWitness = true := by
  rw [ser_eq_spec t wf] at h
  injection h with h
  subst h
  unfold usesExtendedForm txBytes
  by_cases hw : t.hasWitness = true
  · simp only [hw, if_true, iff_true]
    rw [txExtended_eq, List.drop_left' (leBytesInt_length 4 _)]
    simp
  · have hw' : t.hasWitness = false := by simpa using hw
    simp only [hw', Bool.false_eq_true, if_false, iff_false]
    obtain ⟨b, c, E, hE, hb⟩ := legacyBody_shape t wf.2.2.1
    rw [txLegacy_eq, List.drop_left' (leBytesInt_length 4 _), hE]
    simp [hb]

/-! ### deserialisation inverts serialisation -/

/-- deserialising the encoding (followed by anything) returns the same field values — the only
    normalisation being that an all-empty witness becomes the witness with no entries, as the Python
    constructor path yields — consumes exactly the encoding, and the result re-serialises to the
    same bytes -/
theorem de_ser (t : Tx) (wf : WFTx t) (bs : Bytes) (h : serTx t = .ok bs) (rest : Bytes) :
    deTx (bs ++ rest) = .ok (normTx t, rest) ∧ serTx (normTx t) = .ok bs := by
  rw [ser_eq_spec t wf] at h
  injection h with h
  subst h
  refine ⟨(dec_deTx t wf).1 rest, ?_⟩
  rw [ser_eq_spec _ (wf_normTx wf), txBytes_normTx]

/-- field values are untouched by the normalisation -/
theorem normTx_fields (t : Tx) :
    (normTx t).nVersion = t.nVersion ∧ (normTx t).vin = t.vin ∧ (normTx t).vout = t.vout ∧
    (normTx t).nLockTime = t.nLockTime ∧ (normTx t).wit.flatten = t.wit.flatten := by
  unfold normTx
  split
  · simp
  · rename_i h
    refine ⟨rfl, rfl, rfl, rfl, ?_⟩
    have h' : witIsNull t.wit = true := by
      rw [Tx.hasWitness_eq_not_witIsNull] at h; simpa using h
    simp only [witIsNull, List.all_eq_true, List.isEmpty_iff] at h'
    simp only [List.flatten_nil]
    symm
    rw [List.flatten_eq_nil_iff]
    exact h'

theorem deHeader_ser (h : Header) (wf : WFHeader h) (bs : Bytes) (hs : serHeader h = .ok bs) (rest : Bytes) :
    deHeader (bs ++ rest) = .ok (h, rest) := by
  rw [serHeader_eq_spec h wf] at hs
  injection hs with hs
  subst hs
  exact (dec_deHeader h wf).1 rest

theorem deBlock_ser (b : Block) (wf : WFBlock b) (bs : Bytes) (hs : serBlock b = .ok bs) (rest : Bytes) :
    deBlock (bs ++ rest) = .ok (normBlock b, rest) ∧ serBlock (normBlock b) = .ok bs := by
  rw [serBlock_eq_spec b wf] at hs
  injection hs with hs
  subst hs
  refine ⟨(dec_deBlock b wf).1 rest, ?_⟩
  rw [serBlock_eq_spec _ (wf_normBlock wf), block_normBlock]

/-! ### `deserialize`: exact input, strict prefixes, surplus bytes -/

theorem exact_ok (t : Tx) (wf : WFTx t) (bs : Bytes) (h : serTx t = .ok bs) (pad : Bool) :
    deserialize deTx bs pad = .ok (normTx t) := by
  rw [ser_eq_spec t wf] at h; injection h with h; subst h
  exact (dec_deTx t wf).deserialize_exact pad

/-- every strict prefix of a valid encoding raises the truncation error (never another outcome) -/
theorem prefix_trunc (t : Tx) (wf : WFTx t) (bs : Bytes) (h : serTx t = .ok bs) (p : Bytes)
    (hp : p <+: bs) (hne : p ≠ bs) (pad : Bool) : deserialize deTx p pad = .err .trunc := by
  rw [ser_eq_spec t wf] at h; injection h with h; subst h
  exact (dec_deTx t wf).deserialize_prefix hp hne pad

/-- a valid encoding followed by surplus bytes raises the extra-data error carrying the parsed
    object and exactly the surplus -/
theorem extra_data (t : Tx) (wf : WFTx t) (bs : Bytes) (h : serTx t = .ok bs) (e : Bytes) (he : e ≠ []) :
    deserialize deTx (bs ++ e) false = .extra (normTx t) e := by
  rw [ser_eq_spec t wf] at h; injection h with h; subst h
  exact (dec_deTx t wf).deserialize_extra he

/-- … unless padding was explicitly allowed -/
theorem padding_allowed (t : Tx) (wf : WFTx t) (bs : Bytes) (h : serTx t = .ok bs) (e : Bytes) :
    deserialize deTx (bs ++ e) true = .ok (normTx t) := by
  rw [ser_eq_spec t wf] at h; injection h with h; subst h
  exact (dec_deTx t wf).deserialize_padding

theorem header_exact_ok (h : Header) (wf : WFHeader h) (bs : Bytes) (hs : serHeader h = .ok bs) (pad : Bool) :
    deserialize deHeader bs pad = .ok h := by
  rw [serHeader_eq_spec h wf] at hs; injection hs with hs; subst hs
  exact (dec_deHeader h wf).deserialize_exact pad

theorem header_prefix_trunc (h : Header) (wf : WFHeader h) (bs : Bytes) (hs : serHeader h = .ok bs)
    (p : Bytes) (hp : p <+: bs) (hne : p ≠ bs) (pad : Bool) : deserialize deHeader p pad = .err .trunc := by
  rw [serHeader_eq_spec h wf] at hs; injection hs with hs; subst hs
  exact (dec_deHeader h wf).deserialize_prefix hp hne pad

theorem header_extra_data (h : Header) (wf : WFHeader h) (bs : Bytes) (hs : serHeader h = .ok bs)
    (e : Bytes) (he : e ≠ []) : deserialize deHeader (bs ++ e) false = .extra h e := by
  rw [serHeader_eq_spec h wf] at hs; injection hs with hs; subst hs
  exact (dec_deHeader h wf).deserialize_extra he

theorem header_padding_allowed (h : Header) (wf : WFHeader h) (bs : Bytes) (hs : serHeader h = .ok bs)
    (e : Bytes) : deserialize deHeader (bs ++ e) true = .ok h := by
  rw [serHeader_eq_spec h wf] at hs; injection hs with hs; subst hs
  exact (dec_deHeader h wf).deserialize_padding

theorem block_exact_ok (b : Block) (wf : WFBlock b) (bs : Bytes) (hs : serBlock b = .ok bs) (pad : Bool) :
    deserialize deBlock bs pad = .ok (normBlock b) := by
  rw [serBlock_eq_spec b wf] at hs; injection hs with hs; subst hs
  exact (dec_deBlock b wf).deserialize_exact pad

/-- blocks of any number (0..n) of well-formed transactions: every strict prefix truncates -/
theorem block_prefix_trunc (b : Block) (wf : WFBlock b) (bs : Bytes) (hs : serBlock b = .ok bs)
    (p : Bytes) (hp : p <+: bs) (hne : p ≠ bs) (pad : Bool) : deserialize deBlock p pad = .err .trunc := by
  rw [serBlock_eq_spec b wf] at hs; injection hs with hs; subst hs
  exact (dec_deBlock b wf).deserialize_prefix hp hne pad

theorem block_extra_data (b : Block) (wf : WFBlock b) (bs : Bytes) (hs : serBlock b = .ok bs)
    (e : Bytes) (he : e ≠ []) : deserialize deBlock (bs ++ e) false = .extra (normBlock b) e := by
  rw [serBlock_eq_spec b wf] at hs; injection hs with hs; subst hs
  exact (dec_deBlock b wf).deserialize_extra he

theorem block_padding_allowed (b : Block) (wf : WFBlock b) (bs : Bytes) (hs : serBlock b = .ok bs)
    (e : Bytes) : deserialize deBlock (bs ++ e) true = .ok (normBlock b) := by
  rw [serBlock_eq_spec b wf] at hs; injection hs with hs; subst hs
  exact (dec_deBlock b wf).deserialize_padding

/-! ### the mutable class: `CMutableTransaction.deserialize` -/

open BtcVerif.Model.Ident in
/-- `CMutableTransaction.stream_deserialize` returns the same field values; on the legacy path the
    constructor default gives one empty stack per input (`mutableDefaultWit`), which serialises to
    the same bytes -/
theorem de_ser_mutable (t : Tx) (wf : WFTx t) (bs : Bytes) (h : serTx t = .ok bs) (rest : Bytes) :
    deTxMutable (bs ++ rest) = .ok (mutableDefaultWit (normTx t), rest) ∧
    serTx (mutableDefaultWit (normTx t)) = .ok bs := by
  rw [ser_eq_spec t wf] at h; injection h with h; subst h
  refine ⟨(dec_deTxMutable t wf).1 rest, ?_⟩
  rw [ser_eq_spec _ (wf_mutableDefaultWit (wf_normTx wf)), txBytes_mutableDefaultWit, txBytes_normTx]

open BtcVerif.Model.Ident in
/-- the default witness only adds empty stacks: every other field, and every witness item, is as in
    the immutable result -/
theorem mutableDefaultWit_fields (t : Tx) :
    (mutableDefaultWit t).nVersion = t.nVersion ∧ (mutableDefaultWit t).vin = t.vin ∧
    (mutableDefaultWit t).vout = t.vout ∧ (mutableDefaultWit t).nLockTime = t.nLockTime ∧
    (mutableDefaultWit t).wit.flatten = t.wit.flatten := by
  unfold mutableDefaultWit
  split
  · rename_i h
    refine ⟨rfl, rfl, rfl, rfl, ?_⟩
    rw [List.isEmpty_iff.1 h]
    simp
  · simp

open BtcVerif.Model.Ident in
theorem mutable_prefix_trunc (t : Tx) (wf : WFTx t) (bs : Bytes) (h : serTx t = .ok bs) (p : Bytes)
    (hp : p <+: bs) (hne : p ≠ bs) (pad : Bool) : deserialize deTxMutable p pad = .err .trunc := by
  rw [ser_eq_spec t wf] at h; injection h with h; subst h
  exact (dec_deTxMutable t wf).deserialize_prefix hp hne pad

open BtcVerif.Model.Ident in
theorem mutable_extra_data (t : Tx) (wf : WFTx t) (bs : Bytes) (h : serTx t = .ok bs) (e : Bytes) (he : e ≠ []) :
    deserialize deTxMutable (bs ++ e) false = .extra (mutableDefaultWit (normTx t)) e ∧
    deserialize deTxMutable (bs ++ e) true = .ok (mutableDefaultWit (normTx t)) ∧
    deserialize deTxMutable bs false = .ok (mutableDefaultWit (normTx t)) := by
  rw [ser_eq_spec t wf] at h; injection h with h; subst h
  exact ⟨(dec_deTxMutable t wf).deserialize_extra he, (dec_deTxMutable t wf).deserialize_padding,
    (dec_deTxMutable t wf).deserialize_exact false⟩

/-! ### arbitrary byte strings: no other exception type, ever

    Beyond prefixes and extensions of valid encodings: for ANY input the parsers end in an object,
    `SerializationTruncationError` or `SerializationError` (MAX_SIZE) — the model's `py …` outcomes
    (struct.error, AssertionError, IndexError …) are unreachable from `deserialize`. -/

theorem deTx_total (bs : Bytes) :
    (∃ r, deTx bs = .ok r) ∨ deTx bs = .error .trunc ∨ deTx bs = .error .sererr :=
  (clean_deTx bs).cases

open BtcVerif.Model.Ident in
theorem deTxMutable_total (bs : Bytes) :
    (∃ r, deTxMutable bs = .ok r) ∨ deTxMutable bs = .error .trunc ∨ deTxMutable bs = .error .sererr :=
  (clean_deTxMutable bs).cases

theorem deHeader_total (bs : Bytes) :
    (∃ r, deHeader bs = .ok r) ∨ deHeader bs = .error .trunc ∨ deHeader bs = .error .sererr :=
  (clean_deHeader bs).cases

theorem deBlock_total (bs : Bytes) :
    (∃ r, deBlock bs = .ok r) ∨ deBlock bs = .error .trunc ∨ deBlock bs = .error .sererr :=
  (clean_deBlock bs).cases

/-- `deserialize(buf, allow_padding)` on any buffer: an object, the extra-data error (non-empty
    surplus), truncation or the size guard — for all four classes -/
theorem deserialize_total (buf : Bytes) (pad : Bool) :
    ((∃ a, deserialize deTx buf pad = .ok a) ∨ (∃ a x, x ≠ [] ∧ deserialize deTx buf pad = .extra a x) ∨
      deserialize deTx buf pad = .err .trunc ∨ deserialize deTx buf pad = .err .sererr) ∧
    ((∃ a, deserialize deHeader buf pad = .ok a) ∨ (∃ a x, x ≠ [] ∧ deserialize deHeader buf pad = .extra a x) ∨
      deserialize deHeader buf pad = .err .trunc ∨ deserialize deHeader buf pad = .err .sererr) ∧
    ((∃ a, deserialize deBlock buf pad = .ok a) ∨ (∃ a x, x ≠ [] ∧ deserialize deBlock buf pad = .extra a x) ∨
      deserialize deBlock buf pad = .err .trunc ∨ deserialize deBlock buf pad = .err .sererr) :=
  ⟨clean_deTx.deserialize buf pad, clean_deHeader.deserialize buf pad, clean_deBlock.deserialize buf pad⟩

/-! ### CompactSize on its own (`VarIntSerializer`), every Python int -/

/-- `VarIntSerializer.serialize(i)`: ValueError below zero, the CompactSize bytes on `[0, 2^64)`,
    `struct.error` from 2^64 on — no other outcome -/
theorem varint_ser (i : Int) :
    (i < 0 → serVarIntInt i = .error .valueerr) ∧
    (0 ≤ i → i < 2 ^ 64 → serVarIntInt i = .ok (compactSize i.toNat)) ∧
    ((2 : Int) ^ 64 ≤ i → serVarIntInt i = .error structError) := by
  refine ⟨fun h => by simp [serVarIntInt, h], fun h0 h1 => ?_, fun h => ?_⟩
  · have : ¬ i < 0 := by omega
    simp only [serVarIntInt, this, if_false]
    exact serVarInt_ok (by omega)
  · have h0 : ¬ i < 0 := by omega
    have hn : ¬ i.toNat < 2 ^ 64 := by omega
    simp only [serVarIntInt, h0, if_false, serVarInt]
    have h1 : ¬ i.toNat < 0xfd := by omega
    have h2 : ¬ i.toNat ≤ 0xffff := by omega
    have h3 : ¬ i.toNat ≤ 0xffffffff := by omega
    have h4 : ¬ i.toNat < 256 ^ 8 := by omega
    simp only [h1, h2, h3, if_false, packU, h4]
    rfl

/-- write then read: the value comes back and the stream is left where the encoding ends -/
theorem varint_roundtrip (n : Nat) (h : n < 2 ^ 64) (rest : Bytes) :
    ∃ bs, serVarInt n = .ok bs ∧ bs = compactSize n ∧ deVarInt (bs ++ rest) = .ok (n, rest) :=
  ⟨compactSize n, serVarInt_ok h, rfl, (dec_deVarInt n h).1 rest⟩

/-- reading any byte string: a value, or truncation (the guard cannot fire: at most 8 bytes are asked) -/
theorem varint_de_total (bs : Bytes) :
    (∃ r, deVarInt bs = .ok r) ∨ deVarInt bs = .error .trunc ∨ deVarInt bs = .error .sererr :=
  (clean_deVarInt bs).cases

/-- non-canonical encodings are accepted on the read side, as in the code (Bitcoin Core rejects them) -/
example : deVarInt [0xfd, 0x00, 0x00, 0x07] = .ok (0, [0x07]) ∧ deVarInt [0xff, 1, 0, 0, 0, 0, 0, 0, 0] = .ok (1, []) ∧
    deVarInt [0xfe, 0xfc, 0, 0, 0] = .ok (0xfc, []) := by
  refine ⟨by rfl, by rfl, by rfl⟩

/-- the three codecs are sound in the sense of the codec library (DESIGN §5); for transactions the
    decoder returns the normal form, so the statement is for values in normal form -/
theorem tx_codec_sound : Sound txBytes deTx (fun t => WFTx t ∧ normTx t = t) := by
  constructor
  · intro t rest ⟨wf, hn⟩
    have := (dec_deTx t wf).1 rest
    rwa [hn] at this
  · intro t p ⟨wf, _⟩ hp hne
    exact (dec_deTx t wf).2 p hp hne

theorem header_codec_sound : Sound header deHeader WFHeader :=
  (sound_iff _ _ _).2 dec_deHeader

theorem block_codec_sound : Sound block deBlock (fun b => WFBlock b ∧ normBlock b = b) := by
  constructor
  · intro b rest ⟨wf, hn⟩
    have := (dec_deBlock b wf).1 rest
    rwa [hn] at this
  · intro b p ⟨wf, _⟩ hp hne
    exact (dec_deBlock b wf).2 p hp hne

/-! ### non-vacuity: the hypotheses are met by concrete, non-trivial values -/

/-- a 2-input / 1-output witness transaction with a 0x10000-byte script -/
def exTx : Tx :=
  { nVersion := -2147483648
    vin := [ { prevout := { hash := List.replicate 32 0xab, n := 4294967295 },
               scriptSig := List.replicate 0x10000 0x51, nSequence := 4294967294 },
             { prevout := { hash := List.replicate 32 0x01, n := 0 }, scriptSig := [], nSequence := 0 } ]
    vout := [ { nValue := 9223372036854775807, scriptPubKey := List.replicate 0xfd 0x6a } ]
    wit := [ [], [ [], List.replicate 0x4c 0x30, [0x01] ] ]
    nLockTime := 2147483648 }

example : WFTx exTx := by
  refine ⟨by decide, by decide, by decide, by decide, by decide, ?_, ?_, Or.inr rfl, ?_, by decide⟩
  · intro i hi
    simp only [exTx, List.mem_cons, List.mem_nil_iff, or_false] at hi
    rcases hi with rfl | rfl <;>
      refine ⟨⟨?_, ?_⟩, ?_, ?_⟩ <;> simp only [List.length_replicate, List.length_nil, maxSize] <;> omega
  · intro o ho
    simp only [exTx, List.mem_cons, List.mem_nil_iff, or_false] at ho
    subst ho
    refine ⟨?_, ?_, ?_⟩ <;> simp only [List.length_replicate, maxSize] <;> omega
  · intro s hs
    simp only [exTx, List.mem_cons, List.mem_nil_iff, or_false] at hs
    rcases hs with rfl | rfl
    · exact ⟨by decide, by simp⟩
    · refine ⟨by decide, ?_⟩
      intro b hb
      simp only [List.mem_cons, List.mem_nil_iff, or_false] at hb
      rcases hb with rfl | rfl | rfl <;>
        simp only [List.length_replicate, List.length_nil, List.length_cons, maxSize] <;> omega

example : exTx.hasWitness = true := by decide

/-- a witness-free transaction with an all-empty witness: normalised by the round trip -/
def exTxNull : Tx := { exTx with wit := [[], []] }

example : exTxNull.hasWitness = false ∧ exTxNull.wit ≠ [] ∧ (normTx exTxNull).wit = [] := by
  refine ⟨by decide, by decide, ?_⟩
  rw [normTx_of_not_hasWitness (by decide)]

def exHeader : Header :=
  { nVersion := 536870912, hashPrevBlock := List.replicate 32 0x11, hashMerkleRoot := List.replicate 32 0x22,
    nTime := 4294967295, nBits := 0x1d00ffff, nNonce := 0 }

example : WFHeader exHeader := by
  refine ⟨by decide, by decide, by simp [exHeader], by simp [exHeader], by decide, by decide, by decide⟩

/-- blocks with zero transactions are in the domain -/
example : WFBlock { hdr := exHeader, vtx := [] } := by
  refine ⟨?_, by decide, by simp⟩
  refine ⟨by decide, by decide, by simp [exHeader], by simp [exHeader], by decide, by decide, by decide⟩

/-- the hypothesis `1 ≤ |vin|` cannot be dropped: a zero-input, one-output transaction serialises
    to bytes whose vin-count/vout-count pair `00 01` reads as marker and flag; the parser returns a
    different object (no outputs) and leaves seven bytes unread -/
example :
    let t : Tx := { nVersion := 1, vin := [], vout := [{ nValue := 0, scriptPubKey := [] }], wit := [], nLockTime := 0 }
    serTx t = .ok [1, 0, 0, 0, 0, 1, 0, 0, 0, 0, 0, 0, 0, 0, 0, 0, 0, 0, 0] ∧
    deTx [1, 0, 0, 0, 0, 1, 0, 0, 0, 0, 0, 0, 0, 0, 0, 0, 0, 0, 0] =
      .ok ({ nVersion := 1, vin := [], vout := [], wit := [], nLockTime := 0 }, [0, 0, 0, 0, 0, 0, 0]) := by
  constructor <;> rfl

/-- the MAX_SIZE bound on script lengths cannot be dropped from `prefix_trunc`: a stream that stops
    right after a length field of MAX_SIZE + 1 is answered with `sererr`, not truncation -/
example : deTx ([2, 0, 0, 0, 1] ++ List.replicate 36 0 ++ [0xfe, 0x01, 0x00, 0x00, 0x02]) = .error .sererr := by
  rfl

end BtcVerif.C01
