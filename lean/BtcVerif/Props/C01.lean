import BtcVerif.Model.Wire
import BtcVerif.Spec.Wire

namespace BtcVerif.C01
end BtcVerif.C01
