/-
  C02 — identifiers: txid ignores witness, wtxid covers it, block hash = header hash; mutable and
  immutable objects agree.

  `Model.Ident.*` mirrors GetTxid / GetHash / CBlock.GetHash / __eq__ / __hash__; `Spec.Ident.*` is
  BIP141's definition.  The hash function is an arbitrary `H` in every statement (the instances
  `getTxid` … fix it to SHA-256d, which is never unfolded).  The only cryptographic assumption —
  SHA-256d not colliding on the two preimages — is an explicit hypothesis of
  `wtxid_ne_txid_of_injOn`.  Helper lemmas: Proofs/Ident.lean.
-/
import BtcVerif.Proofs.Ident

namespace BtcVerif.C02
open BtcVerif BtcVerif.Model.Wire BtcVerif.Model.Ident BtcVerif.Spec.Wire BtcVerif.Codec

variable (H : Bytes → Bytes)

/-! ### txid -/

/-- the txid is the hash of the witness-stripped (legacy) serialisation -/
theorem txid_eq_spec (t : Tx) (wf : WFTx t) : getTxidWith H t = .ok (Spec.Ident.txid H t) := by
  rw [getTxidWith_eq H t wf.2.2.2.2.2.2.2.2.1 (ctorValid_of_wf wf),
    C01_ser_strip t wf]
  rfl
where
  C01_ser_strip (t : Tx) (wf : WFTx t) : serTx { t with wit := [] } = .ok (txLegacy t) := by
    rw [serTx_ok (wf_strip wf), txBytes_strip]

/-- the txid is unchanged by adding, removing or altering witness data: any two witness assignments
    (any number of stacks, all-empty stacks and the witness object without entries included) give
    the same result.  The only hypothesis on the transaction is that the stripped copy `GetTxid`
    builds passes the `CTransaction`/`CTxIn`/`COutPoint` constructors (`ctorValid`; implied by `WFTx`,
    always true of immutable objects) — the result may still be the same *error* on both sides. -/
theorem txid_witness_indep (t : Tx) (w w' : List WitStack) (hw : ∀ s ∈ w, WFWitStack s)
    (hw' : ∀ s ∈ w', WFWitStack s) (hc : ctorValid t = true) :
    getTxidWith H { t with wit := w } = getTxidWith H { t with wit := w' } := by
  rw [getTxidWith_eq H { t with wit := w } hw hc, getTxidWith_eq H { t with wit := w' } hw' hc]

/-- between two witness objects that both have entries, no hypothesis on the fields at all: when the
    constructors refuse the stripped copy both sides raise ValueError -/
theorem txid_witness_indep_entries (t : Tx) (w w' : List WitStack) (hw : ∀ s ∈ w, WFWitStack s)
    (hw' : ∀ s ∈ w', WFWitStack s) (hn : w ≠ []) (hn' : w' ≠ []) :
    getTxidWith H { t with wit := w } = getTxidWith H { t with wit := w' } := by
  cases hc : ctorValid t with
  | true => exact txid_witness_indep H t w w' hw hw' hc
  | false =>
    rw [getTxidWith_valueerr H { t with wit := w } hw hn hc,
      getTxidWith_valueerr H { t with wit := w' } hw' hn' hc]

/-! ### wtxid -/

/-- the witness hash is the hash of the full serialisation -/
theorem wtxid_eq_spec (t : Tx) (wf : WFTx t) : getHashWith H t = .ok (Spec.Ident.wtxid H t) := by
  unfold getHashWith
  rw [serTx_ok wf]
  rfl

/-- the full serialisation equals the stripped one exactly when no witness stack is non-empty -/
theorem full_eq_stripped_iff (t : Tx) (wf : WFTx t) :
    serTx t = serTx t.strip ↔ t.hasWitness = false := by
  have hs : serTx t.strip = .ok (txLegacy t) := by
    show serTx { t with wit := [] } = _
    rw [serTx_ok (wf_strip wf), txBytes_strip]
  rw [serTx_ok wf, hs]
  unfold txBytes
  by_cases hw : t.hasWitness = true
  · simp only [hw, if_true, Bool.true_eq_false, iff_false]
    intro h
    injection h with h
    exact txExtended_ne_txLegacy t wf.2.2.1 h
  · have hw' : t.hasWitness = false := by simpa using hw
    simp [hw']

/-- without witness data the two identifiers coincide, for every hash function -/
theorem wtxid_eq_txid_of_no_witness (t : Tx) (wf : WFTx t) (h : t.hasWitness = false) :
    getHashWith H t = getTxidWith H t := by
  rw [wtxid_eq_spec H t wf, txid_eq_spec H t wf]
  simp [Spec.Ident.wtxid, Spec.Ident.txid, txBytes, h]

/-- with witness data the two preimages differ … -/
theorem preimages_differ (t : Tx) (wf : WFTx t) (h : t.hasWitness = true) :
    txBytes t ≠ txLegacy t := by
  simp only [txBytes, h, if_true]
  exact txExtended_ne_txLegacy t wf.2.2.1

/-- … hence the identifiers differ unless the hash collides on exactly these two byte strings
    (collision-freeness is the stated hypothesis) -/
theorem wtxid_ne_txid_of_injOn (t : Tx) (wf : WFTx t) (h : t.hasWitness = true)
    (hinj : H (txBytes t) = H (txLegacy t) → txBytes t = txLegacy t) :
    getHashWith H t ≠ getTxidWith H t := by
  rw [wtxid_eq_spec H t wf, txid_eq_spec H t wf]
  intro heq
  injection heq with heq
  exact preimages_differ t wf h (hinj heq)

/-- "differs from the txid exactly when some witness stack is non-empty" -/
theorem wtxid_ne_txid_iff (t : Tx) (wf : WFTx t)
    (hinj : H (txBytes t) = H (txLegacy t) → txBytes t = txLegacy t) :
    getHashWith H t ≠ getTxidWith H t ↔ t.hasWitness = true := by
  constructor
  · intro hne
    by_cases hw : t.hasWitness = true
    · exact hw
    · exact absurd (wtxid_eq_txid_of_no_witness H t wf (by simpa using hw)) hne
  · intro hw
    exact wtxid_ne_txid_of_injOn H t wf hw hinj

/-! ### blocks -/

/-- a block's hash is the hash of its 80-byte header -/
theorem blockhash_eq_spec (b : Block) (wf : WFHeader b.hdr) :
    blockHashWith H b = .ok (Spec.Ident.blockHash H b) ∧ (header b.hdr).length = 80 := by
  obtain ⟨hv1, hv2, hp, hm, ht, hb, hn⟩ := wf
  refine ⟨?_, ?_⟩
  · unfold blockHashWith getHeader headerHashWith
    have h1 : ¬ b.hdr.hashPrevBlock.length ≠ 32 := by simp [hp]
    have h2 : ¬ b.hdr.hashMerkleRoot.length ≠ 32 := by simp [hm]
    simp only [h1, h2, if_false]
    show (serHeader b.hdr >>= fun s => pure (H s)) = _
    rw [serHeader_ok ⟨hv1, hv2, hp, hm, ht, hb, hn⟩]
    rfl
  · simp [header, leBytesInt_length, hp, hm]

/-- … whatever transactions it carries (no hypothesis at all).  NOTE: true by `rfl` — `blockHashWith`
    never reads `vtx`, exactly as `CBlock.GetHash` hashes `get_header()`; the statement records that
    shape, its behavioural content is the differential run (blocks sharing a header). -/
theorem blockhash_indep_vtx (h : Header) (v v' : List Tx) :
    blockHashWith H { hdr := h, vtx := v } = blockHashWith H { hdr := h, vtx := v' } := rfl

/-- `CBlock.GetHash` = `CBlockHeader.GetHash` of the header fields -/
theorem blockhash_eq_headerhash (b : Block) (wf : WFHeader b.hdr) :
    blockHashWith H b = headerHashWith H b.hdr := by
  obtain ⟨_, _, hp, hm, _⟩ := wf
  unfold blockHashWith getHeader
  have h1 : ¬ b.hdr.hashPrevBlock.length ≠ 32 := by simp [hp]
  have h2 : ¬ b.hdr.hashMerkleRoot.length ≠ 32 := by simp [hm]
  simp only [h1, h2, if_false]
  rfl

theorem headerhash_eq_spec (h : Header) (wf : WFHeader h) :
    headerHashWith H h = .ok (Spec.Ident.headerHash H h) := by
  unfold headerHashWith
  rw [serHeader_ok wf]
  rfl

/-! ### mutable / immutable objects -/

/-- `==` holds exactly when the two serialisations are the same byte string; the class tags do not
    enter -/
theorem eq_iff_ser_eq (a b : TxObj) :
    pyEq a b = .ok true ↔ ∃ bs, serTx a.val = .ok bs ∧ serTx b.val = .ok bs := by
  unfold pyEq
  cases ha : serTx a.val with
  | error e => simp [err_bind]
  | ok x =>
    cases hb : serTx b.val with
    | error e =>
      simp only [ok_bind]
      show (Except.error e : Res Bool) = .ok true ↔ _
      simp
    | ok y =>
      simp only [ok_bind]
      show (Except.ok (x == y) : Res Bool) = .ok true ↔ _
      constructor
      · intro h
        injection h with h
        have : x = y := by simpa using h
        exact ⟨x, rfl, by rw [this]⟩
      · rintro ⟨bs, h1, h2⟩
        injection h1 with h1
        injection h2 with h2
        subst h1 h2
        simp

/-- on well-formed values `==` decides equality of field values (up to the normal form of an
    all-empty witness), for any combination of the two classes -/
theorem eq_iff_fields_eq (a b : TxObj) (wa : WFTx a.val) (wb : WFTx b.val) :
    pyEq a b = .ok true ↔ normTx a.val = normTx b.val := by
  rw [eq_iff_ser_eq, serTx_ok wa, serTx_ok wb]
  constructor
  · rintro ⟨bs, h1, h2⟩
    injection h1 with h1
    injection h2 with h2
    exact txBytes_inj wa wb (h1.trans h2.symm)
  · intro h
    refine ⟨txBytes a.val, rfl, ?_⟩
    rw [← txBytes_normTx a.val, h, txBytes_normTx]

/-- objects with equal serialisations have equal Python hashes, whatever their classes (`pyHash` is
    any function of the byte string) -/
theorem hash_eq_of_ser_eq (pyHash : Bytes → Int) (a b : TxObj) (h : serTx a.val = serTx b.val) :
    pyHashWith pyHash a = pyHashWith pyHash b := by
  unfold pyHashWith
  rw [h]

/-- a mutable and an immutable object with equal field values report identical txid, wtxid,
    equality and Python hash.  NOTE: three of the four conjuncts are `rfl` because the model's
    functions never read the class tag (`GetTxid`, `GetHash`, `__eq__`, `__hash__` are inherited
    unchanged by the mutable classes; what differs in Python — `__make_mutable` undoing the cached
    `GetHash`/`__hash__` — is C09's heap model).  The clause is carried by the differential run
    (`c02.obj`, `c02.objpair`, `c02.pyhash`) and by `C09.heap_ident_eq_value`. -/
theorem ids_of_equal_fields (pyHash : Bytes → Int) (t : Tx) (wf : WFTx t) :
    let a : TxObj := ⟨.immutable, t⟩
    let b : TxObj := ⟨.mutable, t⟩
    getTxidWith H a.val = getTxidWith H b.val ∧ getHashWith H a.val = getHashWith H b.val ∧
    pyEq a b = .ok true ∧ pyHashWith pyHash a = pyHashWith pyHash b := by
  refine ⟨rfl, rfl, ?_, rfl⟩
  exact (eq_iff_fields_eq _ _ wf wf).2 rfl

/-! ### every serialisable class (COutPoint … CBlock and the mutable twins) -/

theorem objEq_same_family (a b : PyObj) (hf : a.val.family = b.val.family) :
    objEq a b = (a.val.ser >>= fun x => b.val.ser >>= fun y => pure (x == y)) := by
  unfold objEq
  simp only [hf, ne_eq, not_true_eq_false, if_false]

/-- objects of classes that are not related by `isinstance` (e.g. `CScriptWitness` and
    `CTxInWitness`, which serialise identically): `__eq__` returns `NotImplemented` in both directions
    and `==` is `False`, whatever the serialisations -/
theorem objEq_cross_family (a b : PyObj) (h : a.val.family ≠ b.val.family) : objEq a b = .ok false := by
  unfold objEq
  simp only [h, ne_eq, not_false_eq_true, if_true]
  rfl

/-- `==` between two objects of one class family (mutable/immutable twins; header/block) holds
    exactly when their serialisations are the same byte string.  NOTE: the class tag `cls` is not read
    by `objEq` — that the mutable class behaves like the immutable one is *built into* this model
    (it mirrors `Serializable.__eq__`, which the mutable classes inherit unchanged); the content of
    the mutable/immutable clause is carried by the differential run and by C09
    (`C09.heap_ident_eq_value`, `C09.heap_pyhash_eq_value`: cached or not, mutable or not, the heap
    object reports the identifiers of its current field values). -/
theorem objEq_iff_ser_eq (a b : PyObj) (hf : a.val.family = b.val.family) :
    objEq a b = .ok true ↔ ∃ bs, a.val.ser = .ok bs ∧ b.val.ser = .ok bs := by
  rw [objEq_same_family a b hf]
  cases ha : a.val.ser with
  | error e => simp [err_bind]
  | ok x =>
    cases hb : b.val.ser with
    | error e =>
      simp only [ok_bind]
      show (Except.error e : Res Bool) = .ok true ↔ _
      simp
    | ok y =>
      simp only [ok_bind]
      show (Except.ok (x == y) : Res Bool) = .ok true ↔ _
      constructor
      · intro h
        injection h with h
        have : x = y := by simpa using h
        exact ⟨x, rfl, by rw [this]⟩
      · rintro ⟨bs, h1, h2⟩
        injection h1 with h1
        injection h2 with h2
        subst h1 h2
        simp

/-- objects with different serialisations compare unequal, whatever their classes -/
theorem objEq_false_of_ser_ne (a b : PyObj) (x y : Bytes) (ha : a.val.ser = .ok x) (hb : b.val.ser = .ok y)
    (hne : x ≠ y) : objEq a b = .ok false := by
  by_cases hf : a.val.family = b.val.family
  · rw [objEq_same_family a b hf, ha, hb]
    simp only [ok_bind]
    show (Except.ok (x == y) : Res Bool) = _
    have : (x == y) = false := by simpa using hne
    rw [this]
  · exact objEq_cross_family a b hf

/-- the Python hash is a function of the serialisation only: equal serialisations, equal hashes —
    in particular a mutable object and its immutable twin are interchangeable as dict / set keys -/
theorem objHash_eq_of_ser_eq (pyHash : Bytes → Int) (a b : PyObj) (h : a.val.ser = b.val.ser) :
    objPyHashWith pyHash a = objPyHashWith pyHash b := by
  unfold objPyHashWith
  rw [h]

/-- `GetHash()` is the hash of the serialisation for every class but `CBlock` (header hash) -/
theorem obj_getHash_eq (o : Obj) :
    o.getHashWith H = match o with
      | .block b => blockHashWith H b
      | o => o.ser.map H := by
  cases o <;> simp only [Obj.getHashWith] <;> (cases Obj.ser _ <;> rfl)

/-- a mutable and an immutable object of any class with equal field values: identical `GetHash()`,
    `==` in both directions and identical Python hash (whenever the fields serialise at all).
    NOTE: definitional in this model (the class tag is never read, see `objEq_iff_ser_eq`); the
    bridge that gives the clause content is `C09.heap_ident_eq_value`. -/
theorem obj_class_indep (pyHash : Bytes → Int) (o : Obj) (bs : Bytes) (hs : o.ser = .ok bs) :
    let a : PyObj := ⟨.immutable, o⟩
    let b : PyObj := ⟨.mutable, o⟩
    a.val.getHashWith H = b.val.getHashWith H ∧ objEq a b = .ok true ∧ objEq b a = .ok true ∧
    objPyHashWith pyHash a = objPyHashWith pyHash b ∧ objPyHashWith pyHash a = .ok (pyHash bs) := by
  refine ⟨rfl, ?_, ?_, rfl, ?_⟩
  · exact (objEq_iff_ser_eq _ _ rfl).2 ⟨bs, hs, hs⟩
  · exact (objEq_iff_ser_eq _ _ rfl).2 ⟨bs, hs, hs⟩
  · show (o.ser >>= fun x => pure (pyHash x)) = _
    rw [hs]; rfl

/-- the component serialisations are the wire-format byte strings (so `GetHash()` of a component is
    `H` of its Spec bytes) -/
theorem obj_ser_eq_spec :
    (∀ o, WFOutPoint o → (Obj.outPoint o).ser = .ok (outPoint o)) ∧
    (∀ i, WFTxIn i → (Obj.txIn i).ser = .ok (txIn i)) ∧
    (∀ o, WFTxOut o → (Obj.txOut o).ser = .ok (txOut o)) ∧
    (∀ s, WFWitStack s → (Obj.scriptWit s).ser = .ok (witStack s) ∧ (Obj.inWit s).ser = .ok (witStack s)) ∧
    (∀ w, (∀ s ∈ w, WFWitStack s) → (Obj.wit w).ser = .ok ((w.map witStack).flatten)) ∧
    (∀ t, WFTx t → (Obj.tx t).ser = .ok (txBytes t)) ∧
    (∀ h, WFHeader h → (Obj.header h).ser = .ok (header h)) ∧
    (∀ b, WFBlock b → (Obj.block b).ser = .ok (block b)) :=
  ⟨fun _ h => serOutPoint_ok h, fun _ h => serTxIn_ok h, fun _ h => serTxOut_ok h,
   fun _ h => ⟨serWitStack_ok h, serWitStack_ok h⟩, fun _ h => serWitness_ok h,
   fun _ h => serTx_ok h, fun _ h => serHeader_ok h, fun _ h => serBlock_ok h⟩

/-! ### non-vacuity -/

def exTx : Tx :=
  { nVersion := 2
    vin := [ { prevout := { hash := List.replicate 32 0xab, n := 1 }, scriptSig := [], nSequence := 4294967295 } ]
    vout := [ { nValue := 5000000000, scriptPubKey := [0x00, 0x14] ++ List.replicate 20 0x77 } ]
    wit := [ [ List.replicate 71 0x30, List.replicate 33 0x02 ] ]
    nLockTime := 0 }

example : WFTx exTx := by
  refine ⟨by decide, by decide, by decide, by decide, by decide, ?_, ?_, Or.inr rfl, ?_, by decide⟩
  · intro i hi
    simp only [exTx, List.mem_cons, List.mem_nil_iff, or_false] at hi
    subst hi
    refine ⟨⟨?_, ?_⟩, ?_, ?_⟩ <;> simp only [List.length_replicate, List.length_nil, maxSize] <;> omega
  · intro o ho
    simp only [exTx, List.mem_cons, List.mem_nil_iff, or_false] at ho
    subst ho
    refine ⟨by decide, by decide, ?_⟩
    simp [maxSize]
  · intro s hs
    simp only [exTx, List.mem_cons, List.mem_nil_iff, or_false] at hs
    subst hs
    refine ⟨by decide, ?_⟩
    intro b hb
    simp only [List.mem_cons, List.mem_nil_iff, or_false] at hb
    rcases hb with rfl | rfl <;> simp only [List.length_replicate, maxSize] <;> omega

example : exTx.hasWitness = true := by decide

/-- all-empty stacks and "no entries" are two different witness assignments with the same txid -/
example : getTxidWith H { exTx with wit := [[]] } = getTxidWith H { exTx with wit := [] } :=
  txid_witness_indep H exTx [[]] [] (by simp [WFWitStack]) (by simp) (by decide)

end BtcVerif.C02
