import BtcVerif.Model.Ident
import BtcVerif.Spec.Ident

namespace BtcVerif.C02
end BtcVerif.C02
