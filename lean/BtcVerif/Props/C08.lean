/-
  C08 — script building, tokenising, number codec and classification predicates: property theorems.
  Statements use only Model.Script.* (mirror of bitcoin/core/script.py and _bignum.py) and
  Spec.Script.* (Bitcoin Core's definitions).  Helper lemmas live in Proofs/C08*.lean.

  Every theorem quantifies over ALL integers / byte strings / token lists.  The only size side
  conditions are the ones the Python code itself has: `struct.pack(">I", n)` needs n < 2³² and
  `encode_op_pushdata` refuses more than 2³²−1 bytes.
-/
import BtcVerif.Proofs.C08Char

namespace BtcVerif.C08
open BtcVerif
open BtcVerif.Spec.Script (Token)

/-! ### script-number codec -/

/-- decoding the reference encoding of any integer gives the integer back -/
theorem numDecode_numEncode (z : Int) : Spec.Script.numDecode (Spec.Script.numEncode z) = z :=
  BtcVerif.numDecode_numEncode z

/-- the reference encoding of any integer passes Core's minimality test -/
theorem numEncode_minimal (z : Int) : Spec.Script.minimal (Spec.Script.numEncode z) :=
  BtcVerif.numEncode_minimal z

/-- every minimal string is the encoding of the integer it decodes to: with the two theorems above,
    numEncode / numDecode are a bijection between Int and the minimal strings -/
theorem numEncode_numDecode_of_minimal (b : Bytes) (h : Spec.Script.minimal b) :
    Spec.Script.numEncode (Spec.Script.numDecode b) = b :=
  BtcVerif.numEncode_numDecode b h

/-- `bn2vch` (through bn2mpi: bit_length, have_ext, sign-bit juggling, reversal) computes the
    reference encoding for every integer; its IndexError sites are dead and the only failure is
    `struct.pack(">I", size)` for an encoding of 2³² bytes or more -/
theorem bn2vch_eq_spec (z : Int) :
    Model.Script.bn2vch z =
      if (Spec.Script.numEncode z).length < 2 ^ 32 then .ok (Spec.Script.numEncode z)
      else .error structError :=
  bn2vch_eq z

/-- `vch2bn` (through vch2mpi / mpi2bn) computes the reference decoding of every byte string, minimal
    or not; it never returns None and never raises IndexError; the only failure is `struct.pack`
    on a length of 2³² or more -/
theorem vch2bn_eq_spec (b : Bytes) :
    Model.Script.vch2bn b =
      if b.length < 2 ^ 32 then .ok (some (Spec.Script.numDecode b)) else .error structError :=
  vch2bn_eq b

/-- `bn2vch` succeeds on every integer of magnitude below 128·256ⁿ for n + 1 < 2³² -/
theorem bn2vch_defined (z : Int) (n : Nat) (hz : z.natAbs < 128 * 256 ^ n) (hn : n + 1 < 2 ^ 32) :
    Model.Script.bn2vch z = .ok (Spec.Script.numEncode z) := by
  rw [bn2vch_eq_spec, if_pos]
  rw [numEncode_length]
  by_cases h0 : z.natAbs = 0
  · rw [h0, numLen_zero]; omega
  · obtain ⟨j, hj, h1, _⟩ := numLen_pos h0
    have : 256 ^ j < 256 ^ (n + 1) := by rw [pow256_succ]; omega
    have : j < n + 1 := (Nat.pow_lt_pow_iff_right (a := 256) (by omega)).mp this
    omega

/-- vch2bn ∘ bn2vch = id on every integer on which bn2vch is defined -/
theorem vch2bn_bn2vch (z : Int) (b : Bytes) (h : Model.Script.bn2vch z = .ok b) :
    Model.Script.vch2bn b = .ok (some z) := by
  rw [bn2vch_eq_spec] at h
  split at h
  · rename_i hl
    simp only [Except.ok.injEq] at h
    subst h
    rw [vch2bn_eq_spec, if_pos hl, numDecode_numEncode]
  · simp at h

/-- whatever bn2vch returns is minimal -/
theorem bn2vch_minimal (z : Int) (b : Bytes) (h : Model.Script.bn2vch z = .ok b) :
    Spec.Script.minimal b := by
  rw [bn2vch_eq_spec] at h
  split at h
  · simp only [Except.ok.injEq] at h
    subst h; exact numEncode_minimal z
  · simp at h

/-- every minimal string (shorter than 2³² bytes) is what bn2vch returns for the integer vch2bn
    reads from it: bn2vch / vch2bn are a bijection between integers and minimal strings -/
theorem bn2vch_vch2bn_of_minimal (b : Bytes) (hm : Spec.Script.minimal b) (hl : b.length < 2 ^ 32) :
    ∃ z, Model.Script.vch2bn b = .ok (some z) ∧ Model.Script.bn2vch z = .ok b := by
  refine ⟨Spec.Script.numDecode b, by rw [vch2bn_eq_spec, if_pos hl], ?_⟩
  rw [bn2vch_eq_spec, numEncode_numDecode_of_minimal b hm, if_pos hl]

/-- bn2vch is injective -/
theorem bn2vch_injective (z z' : Int) (b : Bytes) (h : Model.Script.bn2vch z = .ok b)
    (h' : Model.Script.bn2vch z' = .ok b) : z = z' := by
  have a := vch2bn_bn2vch z b h
  have a' := vch2bn_bn2vch z' b h'
  rw [a] at a'
  simpa using a'

/-! ### building -/

/-- `CScript(iterable)` produces exactly the bytes of the reference builder, and fails exactly when
    the reference builder has no encoding (an element of 2³² bytes or more) -/
theorem build_eq_spec (ts : List Token) (b : Bytes) :
    Model.Script.build ts = .ok b ↔ Spec.Script.build ts = some b :=
  build_ok_iff ts b

theorem build_fails_iff (ts : List Token) :
    (∃ e, Model.Script.build ts = .error e) ↔ Spec.Script.build ts = none := by
  rw [← build_toOption]
  rcases Model.Script.build ts with e | r <;> simp [Except.toOption]

/-- `script + other` appends the reference bytes of the token; an element that is not a script
    element raises TypeError -/
theorem add_eq_spec (s : Bytes) (t : Token) (b : Bytes) :
    Model.Script.add s t = .ok b ↔ ∃ a, Spec.Script.tokenBytes t = some a ∧ b = s ++ a := by
  unfold Model.Script.add
  rw [coerceInstance_eq]
  by_cases ho : t = .other
  · subst ho; simp [Spec.Script.tokenBytes]
  · simp only [ho, if_false]
    rcases Spec.Script.tokenBytes t with _ | a
    · simp
    · simp [eq_comm]

theorem add_other_typeerror (s : Bytes) : Model.Script.add s .other = .error (.py "TypeError") := rfl

/-- building concatenates: `CScript(xs + ys) = CScript(xs) + CScript(ys)` as bytes -/
theorem build_append (xs ys : List Token) (a b : Bytes) (ha : Model.Script.build xs = .ok a)
    (hb : Model.Script.build ys = .ok b) : Model.Script.build (xs ++ ys) = .ok (a ++ b) := by
  rw [build_eq_spec] at ha hb ⊢
  rw [specBuild_append, ha, hb]

/-- … and a concatenation builds only if both parts build -/
theorem build_append_inv (xs ys : List Token) (s : Bytes) (h : Model.Script.build (xs ++ ys) = .ok s) :
    ∃ a b, Model.Script.build xs = .ok a ∧ Model.Script.build ys = .ok b ∧ s = a ++ b := by
  rw [build_eq_spec, specBuild_append] at h
  rcases ha : Spec.Script.build xs with _ | a <;> rcases hb : Spec.Script.build ys with _ | b <;>
    rw [ha, hb] at h <;> simp at h
  exact ⟨a, b, (build_eq_spec _ _).mpr ha, (build_eq_spec _ _).mpr hb, h.symm⟩

/-- a list containing an element that is neither a script element nor bytes-like (str, None, float, …)
    never builds (TypeError from the join, or another element's own error); bool elements build as the
    integers 1 / 0; a bytes-like element of another type (memoryview, array) is spliced in raw -/
theorem build_other_fails (xs ys : List Token) : ∃ e, Model.Script.build (xs ++ .other :: ys) = .error e := by
  rw [build_fails_iff, specBuild_append]
  rcases Spec.Script.build xs with _ | a <;> simp [Spec.Script.build, Spec.Script.tokenBytes]

/-- a buffer-protocol element contributes its bytes without a push opcode (so `[memoryview(b'\x51')]`
    builds like `[OP_1]`, not like `[b'\x51']`) -/
theorem build_buffer_raw (xs ys : List Token) (u a b : Bytes) (ha : Model.Script.build xs = .ok a)
    (hb : Model.Script.build ys = .ok b) :
    Model.Script.build (xs ++ .buffer u :: ys) = .ok (a ++ u ++ b) := by
  rw [build_eq_spec] at ha hb ⊢
  rw [specBuild_append, ha]
  simp [Spec.Script.build, Spec.Script.tokenBytes, hb]

theorem build_bool (b : Bool) :
    Model.Script.build [.bool b] = Model.Script.build [.int (if b then 1 else 0)] := by
  rcases b <;> rfl

/-- integers 0..16 become the single opcode OP_0 / OP_1..OP_16, −1 becomes OP_1NEGATE -/
theorem build_minimal_small_int (z : Int) :
    (z = 0 → Model.Script.build [.int z] = .ok [0x00]) ∧
    (1 ≤ z ∧ z ≤ 16 → Model.Script.build [.int z] = .ok [UInt8.ofNat (0x50 + z.toNat)]) ∧
    (z = -1 → Model.Script.build [.int z] = .ok [0x4f]) := by
  refine ⟨?_, ?_, ?_⟩
  · intro h; subst h; rw [build_eq_spec]; simp [Spec.Script.build, Spec.Script.tokenBytes]
  · intro h
    have : ¬ z = 0 := by omega
    rw [build_eq_spec]; simp [Spec.Script.build, Spec.Script.tokenBytes, h, this]
  · intro h; subst h; rw [build_eq_spec]; simp [Spec.Script.build, Spec.Script.tokenBytes]

/-- every other integer becomes one push whose payload is its minimal number encoding, and no
    other single-push encoding of that payload is shorter -/
theorem build_minimal_int (z : Int) (hz : ¬ (-1 ≤ z ∧ z ≤ 16)) (s : Bytes)
    (h : Model.Script.build [.int z] = .ok s) :
    ∃ o, Spec.Script.getOp s = some (o, Spec.Script.numEncode z, []) ∧ o ≤ 0x4e ∧
      Spec.Script.minimal (Spec.Script.numEncode z) ∧
      ∀ s' o', Spec.Script.getOp s' = some (o', Spec.Script.numEncode z, []) → o' ≤ 0x4e →
        s.length ≤ s'.length := by
  rw [build_eq_spec] at h
  have h0 : ¬ z = 0 := by omega
  have h1 : ¬ (1 ≤ z ∧ z ≤ 16) := by omega
  have h2 : ¬ z = -1 := by omega
  simp only [Spec.Script.build, Spec.Script.tokenBytes, h0, h1, h2, if_false] at h
  rcases hp : Spec.Script.pushEncode (Spec.Script.numEncode z) with _ | e
  · simp [hp] at h
  · simp only [hp, List.append_nil, Option.some.injEq] at h
    subst h
    obtain ⟨o, hg, ho, _⟩ := getOp_pushEncode hp []
    rw [List.append_nil] at hg
    exact ⟨o, hg, ho, numEncode_minimal z, fun s' o' hg' ho' => pushEncode_shortest hp hg' ho'⟩

/-- a byte string becomes one push of exactly those bytes under the shortest push form: no other
    single-push encoding of the same payload is shorter -/
theorem build_minimal_data (d : Bytes) (s : Bytes) (h : Model.Script.build [.data d] = .ok s) :
    ∃ o, Spec.Script.getOp s = some (o, d, []) ∧ o ≤ 0x4e ∧
      ∀ s' o', Spec.Script.getOp s' = some (o', d, []) → o' ≤ 0x4e → s.length ≤ s'.length := by
  rw [build_eq_spec] at h
  simp only [Spec.Script.build, Spec.Script.tokenBytes] at h
  rcases hp : Spec.Script.pushEncode d with _ | e
  · simp [hp] at h
  · simp only [hp, List.append_nil, Option.some.injEq] at h
    subst h
    obtain ⟨o, hg, ho, _⟩ := getOp_pushEncode hp []
    rw [List.append_nil] at hg
    exact ⟨o, hg, ho, fun s' o' hg' ho' => pushEncode_shortest hp hg' ho'⟩

/-- the push form chosen for each length below 2³²: direct, PUSHDATA1, PUSHDATA2, PUSHDATA4 -/
theorem build_data_form (d : Bytes) (hl : d.length < 2 ^ 32) :
    Model.Script.build [.data d] = .ok
      (if d.length < 0x4c then UInt8.ofNat d.length :: d
       else if d.length ≤ 0xff then 0x4c :: UInt8.ofNat d.length :: d
       else if d.length ≤ 0xffff then 0x4d :: (leBytes 2 d.length ++ d)
       else 0x4e :: (leBytes 4 d.length ++ d)) := by
  rw [build_eq_spec]
  have h4 : d.length ≤ 0xffffffff := by omega
  simp only [Spec.Script.build, Spec.Script.tokenBytes, Spec.Script.pushEncode]
  by_cases h1 : d.length < 0x4c
  · simp [h1]
  · by_cases h2 : d.length ≤ 0xff
    · simp [h1, h2]
    · by_cases h3 : d.length ≤ 0xffff
      · simp [h1, h2, h3]
      · simp [h1, h2, h3, h4]

/-- building is defined for every token list whose byte strings are shorter than 2³² bytes, whose
    integers are below 128·256^(2³²−2) in magnitude and whose opcodes are bytes -/
theorem build_defined (ts : List Token)
    (h : ∀ t ∈ ts, match t with
      | .op n => n < 256
      | .int z => z.natAbs < 128 * 256 ^ (2 ^ 32 - 2)
      | .data d => d.length < 2 ^ 32
      | .bool _ => True
      | .buffer _ => True
      | .other => False) :
    ∃ s, Model.Script.build ts = .ok s := by
  induction ts with
  | nil => exact ⟨[], rfl⟩
  | cons t ts ih =>
    obtain ⟨r, hr⟩ := ih (fun x hx => h x (by simp [hx]))
    have ht := h t (by simp)
    have : ∃ a, Spec.Script.tokenBytes t = some a := by
      rcases t with n | z | d | b | u | _
      · simp only at ht; simp [Spec.Script.tokenBytes, ht]
      · simp only at ht
        simp only [Spec.Script.tokenBytes]
        split; · exact ⟨_, rfl⟩
        split; · exact ⟨_, rfl⟩
        split; · exact ⟨_, rfl⟩
        have hb := bn2vch_defined z (2 ^ 32 - 2) ht (by omega)
        rw [bn2vch_eq_spec] at hb
        have hl : (Spec.Script.numEncode z).length < 2 ^ 32 := by
          by_contra hc; rw [if_neg hc] at hb; simp at hb
        rcases hp : Spec.Script.pushEncode (Spec.Script.numEncode z) with _ | e
        · rw [pushEncode_none_iff] at hp; omega
        · exact ⟨e, rfl⟩
      · simp only at ht
        simp only [Spec.Script.tokenBytes]
        rcases hp : Spec.Script.pushEncode d with _ | e
        · rw [pushEncode_none_iff] at hp; omega
        · exact ⟨e, rfl⟩
      · exact ⟨_, rfl⟩
      · exact ⟨_, rfl⟩
      · exact absurd ht (by simp)
    obtain ⟨a, ha⟩ := this
    refine ⟨a ++ r, ?_⟩
    rw [build_eq_spec] at hr ⊢
    simp [Spec.Script.build, ha, hr]

/-! ### iteration over a built script -/

/-- cooked iteration over a built script yields the canonical form of the tokens it was built from
    (opcodes as opcodes, OP_1..OP_16 and 0..16 as integers, the empty string as 0, −1 as OP_1NEGATE,
    every other integer or byte string as its pushed bytes) and raises nothing -/
theorem iter_build (ts : List Token) (s : Bytes) (h : Model.Script.build ts = .ok s)
    (hd : ∀ t ∈ ts, t.inDomain) :
    Model.Script.cooked s = (Spec.Script.canon ts, none) := by
  rw [build_eq_spec] at h
  obtain ⟨h1, h2⟩ := readback ts s 0 h hd
  rw [cooked_eq, Model.Script.rawIter, h1, h2]; rfl

/-- rebuilding from the tokens that iteration yields reproduces the same bytes -/
theorem build_iter_build (ts : List Token) (s : Bytes) (h : Model.Script.build ts = .ok s)
    (hd : ∀ t ∈ ts, t.inDomain) :
    Model.Script.build (Model.Script.cooked s).1 = .ok s := by
  rw [iter_build ts s h hd]
  rw [build_eq_spec] at h ⊢
  rw [build_canon ts hd]; exact h

/-! ### raw iteration -/

/-- raw iteration splits ANY byte string into consecutive operations: the concatenation of the
    operations' bytes (opcode, length field, payload) is a prefix of the script, each reported
    `sop_idx` is the offset of that operation, the prefix is the whole script when no error is
    raised, and when an error is raised the remainder `b :: t` begins with a truncated push and the
    error is the one for that push: CScriptInvalidError if the length field is incomplete, else
    CScriptTruncatedPushDataError carrying exactly the payload bytes that are present -/
theorem raw_iter_partition (s : Bytes) :
    ∃ rest, s = ((Model.Script.rawIter s).1.map Model.Script.RawOp.enc).flatten ++ rest ∧
      ((Model.Script.rawIter s).2 = none → rest = []) ∧
      (∀ e, (Model.Script.rawIter s).2 = some e →
        ∃ b t, rest = b :: t ∧ e = Model.Script.truncErr b t ∧ Spec.Script.TruncatedPush rest) ∧
      (∀ i (h : i < (Model.Script.rawIter s).1.length),
        ((Model.Script.rawIter s).1[i]).sopIdx =
          (((Model.Script.rawIter s).1.take i).map Model.Script.RawOp.enc).flatten.length) := by
  unfold Model.Script.rawIter
  obtain ⟨rest, h1, h2, h3, h4⟩ := rawIterFrom_partition s.length 0 s (Nat.le_refl _)
  refine ⟨rest, h1, h2, h3, fun i hi => ?_⟩
  rw [h4 i hi, Nat.zero_add]

/-- no error: the operations' byte ranges concatenate back to the script -/
theorem raw_iter_concat (s : Bytes) (ops : List Model.Script.RawOp)
    (h : Model.Script.rawIter s = (ops, none)) :
    (ops.map Model.Script.RawOp.enc).flatten = s := by
  obtain ⟨rest, h1, h2, _, _⟩ := raw_iter_partition s
  rw [h] at h1 h2
  have := h2 rfl
  subst this
  simpa using h1.symm

/-- error: what was yielded is a parsed prefix and the rest starts a truncated push (never mis-parsed) -/
theorem raw_iter_error (s : Bytes) (ops : List Model.Script.RawOp) (e : Model.Script.IterErr)
    (h : Model.Script.rawIter s = (ops, some e)) :
    ∃ rest, s = (ops.map Model.Script.RawOp.enc).flatten ++ rest ∧ Spec.Script.TruncatedPush rest := by
  obtain ⟨rest, h1, _, h3, _⟩ := raw_iter_partition s
  rw [h] at h1 h3
  obtain ⟨_, _, _, _, ht⟩ := h3 e rfl
  exact ⟨rest, h1, ht⟩

/-- the data carried by CScriptTruncatedPushDataError is everything after the length field of the
    offending push, and it is shorter than the declared size -/
theorem raw_iter_error_data (s : Bytes) (ops : List Model.Script.RawOp) (d : Bytes)
    (h : Model.Script.rawIter s = (ops, some (.truncated d))) :
    ∃ b t, s = (ops.map Model.Script.RawOp.enc).flatten ++ b :: t ∧
      Spec.Script.lenBytes b.toNat ≤ t.length ∧ d = t.drop (Spec.Script.lenBytes b.toNat) ∧
      d.length < Spec.Script.declaredSize b.toNat t := by
  obtain ⟨rest, h1, _, h3, _⟩ := raw_iter_partition s
  rw [h] at h1 h3
  obtain ⟨b, t, hr, he, ⟨b', t', hbt, _, hlen⟩⟩ := h3 _ rfl
  subst hr
  simp only [List.cons.injEq] at hbt
  obtain ⟨rfl, rfl⟩ := hbt
  unfold Model.Script.truncErr at he
  by_cases hw : t.length < Spec.Script.lenBytes b.toNat
  · simp [hw] at he
  · simp only [hw, if_false, Model.Script.IterErr.truncated.injEq] at he
    refine ⟨b, t, h1, by omega, he, ?_⟩
    rcases hlen with hl | hl
    · exact absurd hl hw
    · rw [he, List.length_drop]; exact hl

/-- raw iteration reads exactly the operations Core's GetScriptOp loop reads, ends without error
    exactly when that loop reaches the end, and reports data for push opcodes only -/
theorem raw_iter_eq_spec (s : Bytes) :
    (Model.Script.rawIter s).1.map Model.Script.RawOp.pair = (Spec.Script.parse s).1 ∧
    ((Model.Script.rawIter s).2.isNone = (Spec.Script.parse s).2) ∧
    (∀ o ∈ (Model.Script.rawIter s).1, o.wf) :=
  rawIter_parse s

/-- cooked iteration raises nothing but the tokeniser's CScriptInvalidError, for every byte string
    (the ValueError site of decode_op_n is dead) -/
theorem cooked_error_is_invalidscript (s : Bytes) (e : Exc) :
    (Model.Script.cooked s).2 ≠ some (.py e) := by
  rw [cooked_eq]
  rcases (Model.Script.rawIter s).2 with _ | x <;> simp

/-! ### predicates = reference definitions, for every byte string -/

theorem pred_eq_spec_p2sh (s : Bytes) :
    Model.Script.isP2sh s = Spec.Script.isPayToScriptHash s := isP2sh_eq s

/-- `is_witness_scriptpubkey` (signed '<bb' unpack, `_opcode_instances[negative]`) is Core's
    IsWitnessProgram for every byte string; its assert / struct.error sites are dead -/
theorem pred_eq_spec_witness_program (s : Bytes) :
    Model.Script.isWitnessScriptPubKey s = .ok (Spec.Script.isWitnessProgram s).isSome :=
  isWitnessScriptPubKey_eq s

/-- on a witness program `witness_version` returns the version as an integer 0..16 -/
theorem pred_eq_spec_witness_version (s : Bytes) (v : Nat) (p : Bytes)
    (h : Spec.Script.isWitnessProgram s = some (v, p)) :
    Model.Script.witnessVersion s = .ok (.int v) ∧ v ≤ 16 := by
  refine ⟨witnessVersion_of_program h, ?_⟩
  unfold Spec.Script.isWitnessProgram at h
  split at h
  · simp at h
  · split at h
    · split at h
      · simp at h
      · split at h
        · simp only [Option.some.injEq, Prod.mk.injEq] at h
          rw [← h.1]; unfold Spec.Script.decodeOPN; split <;> omega
        · simp at h
    · simp at h

theorem pred_eq_spec_v0_keyhash (s : Bytes) :
    Model.Script.isWitnessV0Keyhash s = Spec.Script.isP2WPKH s := isWitnessV0Keyhash_eq s

theorem pred_eq_spec_v0_scripthash (s : Bytes) :
    Model.Script.isWitnessV0Scripthash s = Spec.Script.isP2WSH s := isWitnessV0Scripthash_eq s

theorem pred_eq_spec_v0_nested_keyhash (s : Bytes) :
    Model.Script.isWitnessV0NestedKeyhash s = Spec.Script.isNestedP2WPKH s :=
  isWitnessV0NestedKeyhash_eq s

theorem pred_eq_spec_v0_nested_scripthash (s : Bytes) :
    Model.Script.isWitnessV0NestedScripthash s = Spec.Script.isNestedP2WSH s :=
  isWitnessV0NestedScripthash_eq s

theorem pred_eq_spec_push_only (s : Bytes) :
    Model.Script.isPushOnly s = Spec.Script.isPushOnly s := by
  obtain ⟨h1, h2, _⟩ := raw_iter_eq_spec s
  simp only [Model.Script.isPushOnly, Spec.Script.isPushOnly, pushOnlyLoop_eq, ← h1, ← h2, List.all_map]
  rfl

/-- `has_canonical_pushes` is Core's HasCanonicalPushes; its `len(None)` site is dead -/
theorem pred_eq_spec_canonical_pushes (s : Bytes) :
    Model.Script.hasCanonicalPushes s = .ok (Spec.Script.hasCanonicalPushes s) := by
  obtain ⟨h1, h2, h3⟩ := raw_iter_eq_spec s
  simp only [Model.Script.hasCanonicalPushes, Spec.Script.hasCanonicalPushes, canonicalLoop_eq _ _ h3,
    ← h1, ← h2, List.all_map]
  rfl

/-- `is_valid` is "every push is well formed" -/
theorem pred_eq_spec_valid (s : Bytes) :
    Model.Script.isValid s = .ok (Spec.Script.isValid s) := by
  obtain ⟨_, h2, _⟩ := raw_iter_eq_spec s
  unfold Model.Script.isValid Spec.Script.isValid
  rw [cooked_eq, ← h2]
  rcases (Model.Script.rawIter s).2 with _ | x <;> simp

theorem pred_eq_spec_unspendable (s : Bytes) :
    Model.Script.isUnspendable s = Spec.Script.startsWithReturn s := isUnspendable_eq s

/-! ### signature-operation counts -/

/-- the (repaired) GetSigOpCount equals Core's count in both modes for every byte string: it
    counts up to the first malformed push and never raises (the assert of CScriptOp.__new__ and
    the ValueError of decode_op_n are dead) -/
theorem sigops_eq_spec (s : Bytes) (accurate : Bool) :
    Model.Script.getSigOpCount s accurate = .ok (Spec.Script.sigOpCount accurate s) := by
  obtain ⟨h1, _, h3⟩ := raw_iter_eq_spec s
  unfold Model.Script.getSigOpCount Spec.Script.sigOpCount
  rw [sigOpsLoop_eq accurate _ h3 0 0xff (by omega), h1, Nat.zero_add]

/-- the accurate count never exceeds the legacy count (OP_n ≤ 16 < 20 keys per CHECKMULTISIG) -/
theorem sigops_accurate_le_legacy (s : Bytes) :
    Spec.Script.sigOpCount true s ≤ Spec.Script.sigOpCount false s := by
  unfold Spec.Script.sigOpCount
  generalize (Spec.Script.parse s).1 = ops
  generalize (0xff : Nat) = last
  induction ops generalizing last with
  | nil => simp [Spec.Script.sigOpsFrom]
  | cons o r ih =>
    obtain ⟨oc, d⟩ := o
    simp only [Spec.Script.sigOpsFrom]
    have := ih oc
    split
    · omega
    · split
      · simp only [Bool.false_eq_true, false_and, if_false]
        split
        · rename_i hh; unfold Spec.Script.decodeOPN; split <;> omega
        · omega
      · omega

/-! ### independent characterisations (not transcriptions of the code)

  The `pred_eq_spec_*` / `sigops_eq_spec` theorems above compare the code with Core's definitions,
  several of which have the same shape as the code.  The theorems below pin the same functions by
  what they mean: scripts as concatenations of operation encodings, fixed byte layouts, and
  compositional laws. -/

open BtcVerif.Spec.Script (ValidOp opEnc encOps opN)

/-- P2SH: exactly HASH160, a direct push of 20 bytes, EQUAL -/
theorem isP2sh_iff (s : Bytes) :
    Model.Script.isP2sh s = true ↔ ∃ h : Bytes, h.length = 20 ∧ s = [0xa9, 0x14] ++ h ++ [0x87] :=
  isP2sh_shape s

/-- witness program: OP_0 / OP_1..OP_16 for a version ≤ 16, then one direct push of 2..40 bytes -/
theorem isWitnessProgram_iff (s : Bytes) :
    Model.Script.isWitnessScriptPubKey s = .ok true ↔
      ∃ v : Nat, ∃ prog : Bytes, v ≤ 16 ∧ 2 ≤ prog.length ∧ prog.length ≤ 40 ∧
        s = [UInt8.ofNat (opN v), UInt8.ofNat prog.length] ++ prog := by
  rw [pred_eq_spec_witness_program, ← isWitnessProgram_shape]
  simp

theorem isWitnessV0Keyhash_iff (s : Bytes) :
    Model.Script.isWitnessV0Keyhash s = true ↔ ∃ h : Bytes, h.length = 20 ∧ s = [0x00, 0x14] ++ h :=
  shape2 s 0x00 0x14 20

theorem isWitnessV0Scripthash_iff (s : Bytes) :
    Model.Script.isWitnessV0Scripthash s = true ↔ ∃ h : Bytes, h.length = 32 ∧ s = [0x00, 0x20] ++ h :=
  shape2 s 0x00 0x20 32

theorem isWitnessV0NestedKeyhash_iff (s : Bytes) :
    Model.Script.isWitnessV0NestedKeyhash s = true ↔
      ∃ h : Bytes, h.length = 20 ∧ s = [0x16, 0x00, 0x14] ++ h :=
  shape3 s 0x16 0x00 0x14 20

theorem isWitnessV0NestedScripthash_iff (s : Bytes) :
    Model.Script.isWitnessV0NestedScripthash s = true ↔
      ∃ h : Bytes, h.length = 32 ∧ s = [0x22, 0x00, 0x20] ++ h :=
  shape3 s 0x22 0x00 0x20 32

theorem isUnspendable_iff (s : Bytes) :
    Model.Script.isUnspendable s = true ↔ ∃ t : Bytes, s = 0x6a :: t := by
  rcases s with _ | ⟨b, t⟩ <;> simp [Model.Script.isUnspendable]

/-- valid ⇔ every byte belongs to a complete operation: the script is a concatenation of
    operation encodings (opcode byte, length field, payload of the declared length) -/
theorem isValid_iff (s : Bytes) :
    Model.Script.isValid s = .ok true ↔
      ∃ ops : List (Nat × Bytes), (∀ p ∈ ops, ValidOp p.1 p.2) ∧ s = encOps ops := by
  rw [pred_eq_spec_valid]
  simp only [Except.ok.injEq, Spec.Script.isValid]
  constructor
  · intro h
    exact ⟨(Spec.Script.parse s).1, (parse_iff _ s).mp (by rw [← h])⟩
  · rintro ⟨ops, h⟩
    rw [(parse_iff ops s).mpr h]

/-- push-only ⇔ a concatenation of complete operations each with opcode ≤ OP_16 -/
theorem isPushOnly_iff (s : Bytes) :
    Model.Script.isPushOnly s = true ↔
      ∃ ops : List (Nat × Bytes), (∀ p ∈ ops, ValidOp p.1 p.2 ∧ p.1 ≤ 0x60) ∧ s = encOps ops := by
  rw [pred_eq_spec_push_only]
  simp only [Spec.Script.isPushOnly, Bool.and_eq_true, List.all_eq_true, decide_eq_true_eq]
  constructor
  · rintro ⟨h1, h2⟩
    obtain ⟨hv, hs⟩ := (parse_iff _ s).mp (by rw [← h1])
    exact ⟨(Spec.Script.parse s).1, fun p hp => ⟨hv p hp, h2 p hp⟩, hs⟩
  · rintro ⟨ops, h, hs⟩
    have := (parse_iff ops s).mpr ⟨fun p hp => (h p hp).1, hs⟩
    rw [this]
    exact ⟨rfl, fun p hp => (h p hp).2⟩

/-- canonical pushes ⇔ a concatenation of complete operations in which every push is the
    builder's (shortest) encoding of its payload and no payload is a single byte 0..16 -/
theorem hasCanonicalPushes_iff (s : Bytes) :
    Model.Script.hasCanonicalPushes s = .ok true ↔
      ∃ ops : List (Nat × Bytes),
        (∀ p ∈ ops, ValidOp p.1 p.2 ∧
          (p.1 ≤ 0x4e → Spec.Script.pushEncode p.2 = some (opEnc p.1 p.2) ∧
            ¬ ∃ x : UInt8, p.2 = [x] ∧ x.toNat ≤ 16)) ∧
        s = encOps ops := by
  rw [pred_eq_spec_canonical_pushes]
  simp only [Except.ok.injEq, Spec.Script.hasCanonicalPushes, Bool.and_eq_true, List.all_eq_true]
  constructor
  · rintro ⟨h1, h2⟩
    obtain ⟨hv, hs⟩ := (parse_iff _ s).mp (by rw [← h1])
    exact ⟨(Spec.Script.parse s).1,
      fun p hp => ⟨hv p hp, (canonicalPush_iff (hv p hp)).mp (h2 p hp)⟩, hs⟩
  · rintro ⟨ops, h, hs⟩
    have := (parse_iff ops s).mpr ⟨fun p hp => (h p hp).1, hs⟩
    rw [this]
    exact ⟨rfl, fun p hp => (canonicalPush_iff (h p hp).1).mpr (h p hp).2⟩

/-- every script is a complete part followed by nothing or by a truncated push -/
theorem script_decomposition (s : Bytes) :
    ∃ a b, s = a ++ b ∧ Model.Script.isValid a = .ok true ∧ (b = [] ∨ Spec.Script.TruncatedPush b) := by
  obtain ⟨rest, h1, h2, h3, _⟩ := raw_iter_partition s
  refine ⟨((Model.Script.rawIter s).1.map Model.Script.RawOp.enc).flatten, rest, h1, ?_, ?_⟩
  · rw [isValid_iff]
    obtain ⟨e1, _, e3⟩ := raw_iter_eq_spec s
    refine ⟨(Model.Script.rawIter s).1.map Model.Script.RawOp.pair, ?_, ?_⟩
    · intro p hp
      simp only [List.mem_map] at hp
      obtain ⟨o, ho, rfl⟩ := hp
      -- each yielded operation came from a successful GetScriptOp
      have : o.pair ∈ (Spec.Script.parse s).1 := by rw [← e1]; exact List.mem_map.mpr ⟨o, ho, rfl⟩
      exact parse_ops_valid s _ this
    · simp only [encOps, List.map_map]
      rfl
  · rcases he : (Model.Script.rawIter s).2 with _ | e
    · exact Or.inl (h2 he)
    · obtain ⟨_, _, _, _, ht⟩ := h3 e he
      exact Or.inr ht

/-! signature-operation counting, by laws.  The individual laws below are consequences; the
    complete set is `SigOpLaws`, which `sigops_laws_hold` proves of the (repaired) GetSigOpCount and
    `sigops_laws_unique` proves to determine the count of EVERY byte string in both modes. -/

/-- a single non-push opcode: 1 for CHECKSIG(VERIFY), 20 for CHECKMULTISIG(VERIFY), else 0; a single
    complete push: 0 — in both modes -/
theorem sigops_single (o : Nat) (d : Bytes) (hv : ValidOp o d) (acc : Bool) :
    Model.Script.getSigOpCount (opEnc o d) acc =
      .ok (if o = 0xac ∨ o = 0xad then 1 else if o = 0xae ∨ o = 0xaf then 20 else 0) := by
  rw [sigops_eq_spec, sigOpCount_single acc hv]

/-- `OP_k CHECKMULTISIG(VERIFY)` counts k in accurate mode -/
theorem sigops_opn_multisig (k m : Nat) (hk : 1 ≤ k ∧ k ≤ 16) (hm : m = 0xae ∨ m = 0xaf) :
    Model.Script.getSigOpCount [UInt8.ofNat (0x50 + k), UInt8.ofNat m] true = .ok k := by
  rw [sigops_eq_spec, sigOpCount_opn_multisig k m hk hm]

/-- the count is additive over a complete prefix: always in legacy mode, and in accurate mode
    whenever the second part does not begin with CHECKMULTISIG(VERIFY) -/
theorem sigops_append (a b : Bytes) (acc : Bool) (ha : Model.Script.isValid a = .ok true)
    (h : acc = false ∨ ∀ x, b.head? = some x → x.toNat ≠ 0xae ∧ x.toNat ≠ 0xaf) (na nb : Nat)
    (hna : Model.Script.getSigOpCount a acc = .ok na) (hnb : Model.Script.getSigOpCount b acc = .ok nb) :
    Model.Script.getSigOpCount (a ++ b) acc = .ok (na + nb) := by
  rw [pred_eq_spec_valid] at ha
  simp only [Except.ok.injEq, Spec.Script.isValid] at ha
  rw [sigops_eq_spec] at hna hnb ⊢
  simp only [Except.ok.injEq] at hna hnb
  rw [sigOpCount_append_add acc a b ha h, hna, hnb]

/-- the general accurate-mode law: the second part is counted starting from the last opcode of the first -/
theorem sigops_append_general (a b : Bytes) (acc : Bool) (ha : Model.Script.isValid a = .ok true) :
    Model.Script.getSigOpCount (a ++ b) acc =
      .ok (Spec.Script.sigOpCount acc a +
        Spec.Script.sigOpsFrom acc (Spec.Script.lastOpcodeFrom 0xff (Spec.Script.parse a).1)
          (Spec.Script.parse b).1) := by
  rw [pred_eq_spec_valid] at ha
  simp only [Except.ok.injEq, Spec.Script.isValid] at ha
  rw [sigops_eq_spec, sigOpCount_append acc a b ha]

/-- counting stops at the first malformed push: a truncated tail contributes nothing and hides
    nothing that precedes it -/
theorem sigops_truncated_tail (a b : Bytes) (acc : Bool) (ha : Model.Script.isValid a = .ok true)
    (hb : Spec.Script.TruncatedPush b) :
    Model.Script.getSigOpCount (a ++ b) acc = Model.Script.getSigOpCount a acc := by
  rw [pred_eq_spec_valid] at ha
  simp only [Except.ok.injEq, Spec.Script.isValid] at ha
  rw [sigops_eq_spec, sigops_eq_spec, sigOpCount_truncated acc a b ha hb]

/-- the laws of signature-operation counting, stated over scripts given as sequences of operations
    (no reference to a parser): nothing counts nothing; one more operation adds its weight, which
    depends only on the operation before it (`Spec.sigWeight`: CHECKSIG 1; CHECKMULTISIG n right
    after OP_n in accurate mode, otherwise 20 — legacy mode, start of script, after OP_0, OP_1NEGATE,
    a push or any other opcode); a truncated push ends the count -/
structure SigOpLaws (f : Bytes → Bool → Nat) : Prop where
  empty : ∀ acc, f [] acc = 0
  snoc : ∀ acc (ops : List (Nat × Bytes)) o d, (∀ q ∈ ops, ValidOp q.1 q.2) → ValidOp o d →
    f (encOps ops ++ opEnc o d) acc =
      f (encOps ops) acc + Spec.Script.sigWeight acc (ops.getLast?.map (·.1)) o
  truncated : ∀ acc (ops : List (Nat × Bytes)) b, (∀ q ∈ ops, ValidOp q.1 q.2) →
    Spec.Script.TruncatedPush b → f (encOps ops ++ b) acc = f (encOps ops) acc

/-- GetSigOpCount obeys the laws -/
theorem sigops_laws_hold :
    ∃ f, SigOpLaws f ∧ ∀ s acc, Model.Script.getSigOpCount s acc = .ok (f s acc) := by
  refine ⟨fun s acc => Spec.Script.sigOpCount acc s, ⟨?_, ?_, ?_⟩, fun s acc => sigops_eq_spec s acc⟩
  · intro acc; simp [Spec.Script.sigOpCount, parse_nil, Spec.Script.sigOpsFrom]
  · intro acc ops o d hv ho; exact sigOpCount_snoc acc ops o d hv ho
  · intro acc ops b hv hb
    exact sigOpCount_truncated acc _ b (by rw [parse_encOps hv]) hb

/-- … and the laws leave no freedom: any function obeying them is GetSigOpCount, on every byte
    string and in both modes (so e.g. `OP_0 CHECKMULTISIG`, `<push> CHECKMULTISIG`,
    `NOP CHECKMULTISIG`, `OP_1NEGATE CHECKMULTISIG` and a leading CHECKMULTISIG are all forced to 20) -/
theorem sigops_laws_unique (f : Bytes → Bool → Nat) (hf : SigOpLaws f) (s : Bytes) (acc : Bool) :
    Model.Script.getSigOpCount s acc = .ok (f s acc) := by
  rw [sigops_eq_spec]
  congr 1
  -- complete scripts, by induction on the operations from the right
  have hcomplete : ∀ ops : List (Nat × Bytes), (∀ q ∈ ops, ValidOp q.1 q.2) →
      Spec.Script.sigOpCount acc (encOps ops) = f (encOps ops) acc := by
    intro ops
    induction ops using List.reverseRecOn with
    | nil =>
      intro _
      simp [encOps, hf.empty, Spec.Script.sigOpCount, parse_nil, Spec.Script.sigOpsFrom]
    | append_singleton ops p ih =>
      intro hv
      have hv' : ∀ q ∈ ops, ValidOp q.1 q.2 := fun q hq => hv q (by simp [hq])
      have hp : ValidOp p.1 p.2 := hv p (by simp)
      rw [encOps_snoc, sigOpCount_snoc acc ops p.1 p.2 hv' hp, hf.snoc acc ops p.1 p.2 hv' hp, ih hv']
  obtain ⟨a, b, rfl, ha, hb⟩ := script_decomposition s
  obtain ⟨ops, hv, rfl⟩ := (isValid_iff a).mp ha
  rcases hb with rfl | hb
  · rw [List.append_nil]; exact hcomplete ops hv
  · rw [hf.truncated acc ops b hv hb,
      sigOpCount_truncated acc _ b (by rw [parse_encOps hv]) hb]
    exact hcomplete ops hv

/-- the cases the audit named, as instances: in accurate mode CHECKMULTISIG counts 20 at the start of
    a script and after anything that is not OP_1..OP_16 -/
theorem sigops_multisig_20 (ops : List (Nat × Bytes)) (m : Nat) (hv : ∀ q ∈ ops, ValidOp q.1 q.2)
    (hm : m = 0xae ∨ m = 0xaf)
    (hprev : ∀ q, ops.getLast? = some q → ¬ (0x51 ≤ q.1 ∧ q.1 ≤ 0x60)) (n : Nat)
    (hn : Model.Script.getSigOpCount (encOps ops) true = .ok n) :
    Model.Script.getSigOpCount (encOps ops ++ [UInt8.ofNat m]) true = .ok (n + 20) := by
  have hmv : ValidOp m [] := ⟨by omega, by rcases hm with rfl | rfl <;> simp⟩
  have he : opEnc m [] = [UInt8.ofNat m] := by
    have : m > 0x4e := by omega
    simp [opEnc, this]
  rw [sigops_eq_spec] at hn ⊢
  simp only [Except.ok.injEq] at hn
  rw [← he, sigOpCount_snoc true ops m [] hv hmv, hn]
  congr 2
  have c1 : ¬ (m = 0xac ∨ m = 0xad) := by omega
  simp only [Spec.Script.sigWeight, c1, hm, if_false, if_true]
  rcases hl : ops.getLast? with _ | q
  · rfl
  · have := hprev q hl
    simp [this]

/-! ### the opcode-instance table -/

/-- both call sites of `CScriptOp(n)` stay inside the 256-entry table (so the `n = 256` append path
    and the assert are unreachable) and get the instance of the byte they meant: the signed
    `'<bb'` byte of is_witness_scriptpubkey (−128..127, negative indices wrap to the same entry) and
    the opcode byte of GetSigOpCount -/
theorem opcode_lookup_in_table :
    (∀ b : UInt8, Model.Script.cscriptOpNew (Model.Script.signedByte b) = .ok b.toNat) ∧
    (∀ n : Nat, n < 256 → Model.Script.cscriptOpNew (n : Int) = .ok n) :=
  ⟨cscriptOpNew_signedByte, cscriptOpNew_nat⟩

/-! ### non-vacuity: concrete values meeting the hypotheses -/

example : (Token.op 0xac).inDomain := by simp [Token.inDomain]
example : (Token.int (-7)).inDomain := trivial
example : ∀ t ∈ [Token.op 0x76, .op 0xa9, .data [1, 2, 3], .int 1000, .int (-1), .op 0x88],
    t.inDomain := by
  intro t ht; simp at ht; rcases ht with rfl | rfl | rfl | rfl | rfl | rfl <;> simp [Token.inDomain]

/-- 128 needs a second byte for the sign; −128 carries the sign in it -/
example : Spec.Script.numEncode 128 = [0x80, 0x00] := by
  have : Spec.Script.numLen 128 = 2 := numLen_eq (j := 1) (by decide) (by decide)
  simp [Spec.Script.numEncode, this, leBytes]
example : Spec.Script.numEncode (-128) = [0x80, 0x80] := by
  have : Spec.Script.numLen 128 = 2 := numLen_eq (j := 1) (by decide) (by decide)
  simp [Spec.Script.numEncode, this, leBytes]
example : Model.Script.bn2vch (-128) = .ok [0x80, 0x80] := by
  have : Spec.Script.numLen 128 = 2 := numLen_eq (j := 1) (by decide) (by decide)
  rw [bn2vch_eq_spec]; simp [Spec.Script.numEncode, this, leBytes]
example : Spec.Script.minimal [0x80, 0x80] := by simp [Spec.Script.minimal]
/-- non-minimal strings exist and still decode (negative zero, padded one) -/
example : ¬ Spec.Script.minimal [0x80] := by simp [Spec.Script.minimal]
example : ¬ Spec.Script.minimal [0x01, 0x00] := by simp [Spec.Script.minimal]
example : Spec.Script.numDecode [0x80] = 0 := by simp [Spec.Script.numDecode, leNat]
example : Spec.Script.numDecode [0x01, 0x00] = 1 := by simp [Spec.Script.numDecode, leNat]
/-- a truncated push: PUSHDATA1 announcing 5 bytes with 2 present -/
example : Spec.Script.TruncatedPush [0x4c, 0x05, 0x61, 0x62] :=
  ⟨0x4c, [0x05, 0x61, 0x62], rfl, by decide, Or.inr (by simp [Spec.Script.lenBytes, Spec.Script.declaredSize, leNat])⟩
/-- D3's script: CHECKSIG followed by a 5-byte push with 2 bytes present counts 1 in both modes -/
example (acc : Bool) : Model.Script.getSigOpCount [0xac, 0x05, 0x61, 0x62] acc = .ok 1 := by
  rw [sigops_eq_spec]
  have h1 : Spec.Script.getOp [0xac, 0x05, 0x61, 0x62] = some (0xac, [], [0x05, 0x61, 0x62]) := by
    simp [Spec.Script.getOp]
  have h2 : Spec.Script.getOp [0x05, 0x61, 0x62] = none := by
    simp [Spec.Script.getOp, Spec.Script.lenBytes, Spec.Script.declaredSize]
  simp [Spec.Script.sigOpCount, parse_cons, h1, h2, Spec.Script.sigOpsFrom]
/-- D2's shape: `2 CHECKMULTISIG` counts 2 in accurate mode and 20 in legacy mode -/
example : Model.Script.getSigOpCount [0x52, 0xae] true = .ok 2 ∧
    Model.Script.getSigOpCount [0x52, 0xae] false = .ok 20 := by
  rw [sigops_eq_spec, sigops_eq_spec]
  have h1 : Spec.Script.getOp [0x52, 0xae] = some (0x52, [], [0xae]) := by simp [Spec.Script.getOp]
  have h2 : Spec.Script.getOp [0xae] = some (0xae, [], []) := by simp [Spec.Script.getOp]
  simp [Spec.Script.sigOpCount, parse_cons, parse_nil, h1, h2, Spec.Script.sigOpsFrom, Spec.Script.decodeOPN]
/-- the opcode table grows only through `CScriptOp(256)`, after which `CScriptOp(-1)` is that new entry -/
example : Model.Script.cscriptOpNewSeq 256 [-1, 256, -1, 256, 258] =
    [.ok 255, .ok 256, .ok 256, .ok 256, .error assertionError] := by decide
/-- a first byte ≥ 0x80 (negative under the signed unpack) is never a witness program -/
example : Model.Script.isWitnessScriptPubKey [0xd1, 0x02, 0x61, 0x62] = .ok false := by
  rw [pred_eq_spec_witness_program]; simp [Spec.Script.isWitnessProgram]

end BtcVerif.C08
