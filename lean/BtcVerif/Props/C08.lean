/-
  C08 — script building, tokenising, number codec and classification predicates: property theorems.
-/
import BtcVerif.Model.ScriptBuild

namespace BtcVerif.C08
open BtcVerif

end BtcVerif.C08
