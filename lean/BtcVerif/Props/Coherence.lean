import BtcVerif.Proofs.Coherence

/-!
  # Coherence of the per-property models

  The twenty properties were modelled in parallel, so several concepts of python-bitcoinlib (and of
  the reference definitions) exist more than once.  Every theorem below states that two such copies
  denote the same thing — for every input where that is true, under the weakest hypothesis found
  where it is not (those cases are flagged **differ**; the witness is in the doc-comment).
  Helper lemmas: Proofs/Coherence.lean.  `hash256` is never unfolded.

  ## Theorems (namespace `BtcVerif.Coherence`)

  1. legacy signature operations (C16 ↔ C08)
     * `sigops_models`          Model.Script.getSigOpCount s false = ok (Model.BlockCheck.sigOpCount s)
     * `sigops_specs`           Spec.BlockCheck.sigOps s = Spec.Script.sigOpCount false s
     * `getOp_script_ref`, `getOp_blockcheck`, `getOp_sighash`   the four transcriptions of Core's GetScriptOp
  2. serialisation and identifiers (C15/C16 ↔ C01, C02, C09, C03)
     * `wfTx_txRange`, `wfBlock_blockRange`     C01's WFTx / WFBlock imply TxRange / BlockRange
     * `ser_lemmas_agree`       the SerSpec lemmas are C01's `ser_eq_spec` / `ser_stripped_eq_spec` on WFTx
     * `txid_defs`              Spec.Merkle.txid / wtxid = Spec.Ident.txid / wtxid at SHA-256d
     * `getTxid_merkle_valueSem` Model.Merkle.getTxid = Spec.ValueSem.txidOf (C09), every transaction
     * `getTxid_ident_merkle`   Model.Ident.getTxid = Model.Merkle.getTxid, every transaction (both mirror
                                 the validating constructor of the stripped copy)
     * `getHash_merkle_ident`, `ctorValid_eq_validTx`, `fromTx_eq_ctorValid`
     * `txid_all_on_range`      on TxRange all GetTxid models return Spec.Ident.txid
     * `getHeader_models`, `headerHash_models`, `identOf_block` (**differ** off 32-byte hashes)
  3. P2P payloads (C18 ↔ C01)
     * `msg_tx_payload`, `msg_block_payload`, `msg_headers_entry`, `msg_model_payloads`,
       `msg_tx_payload_hash`, `msg_wf_tx`
  4. proof of work (C16 ↔ C17)
     * `checkPoW_is_c17`, `checkPoW_iff`
  5. FindAndDelete (C03 ↔ C06)
     * `findAndDelete_models`   for every script and pattern
     * `findAndDelete_ref`      both models against the reference on push patterns
     * `codesep_specs`          Ref.findAndDelete s [OP_CODESEPARATOR] = Spec.Sighash.scriptCodeNoSep s, every s
     * `codesep_model_ref`      C03's model of FindAndDelete(script, [CODESEPARATOR]) is C06's reference
  6. script numbers (C08 ↔ C06)
     * `numEncode_specs`, `numDecode_specs`   for every integer / byte string
     * `bn2vch_models` (**differ** from 2³² bytes on), `vch2bn_models`
     * `bitLength_models`, `nbytes_eq_byteLen` (C17 ↔ C08)
  7. predicates and push encoding (C08 ↔ C06 ↔ C12 ↔ C03)
     * `isPushOnly_models`, `isPushOnly_specs`, `isP2sh_all`
     * `isWitnessProgram_specs`, `isWitnessScriptPubKey_models`, `addr_witness_predicates`
     * `pushEnc_all`
  8. C12's script helpers ↔ C08's builder
     * `addr_pushEnc`, `canonicalize_eq_build`
  9. WIF (C13 ↔ C10)
     * `wif_text_roundtrip`, `wif_text_roundtrip_chains`
  10. CompactSize prefixes (C14 ↔ C01) and hash-length hypotheses
     * `msg_digest_prefix`, `serVarInt_lemmas_agree`
     * `hashLen_defs`, `hashLen_implies`    one hypothesis (C15/C16 `HashLen`) gives C18's
                                             `ChecksumLen` and C10's "at least four bytes"
-/
namespace BtcVerif.Coherence
open BtcVerif BtcVerif.Crypto

/-! ### 1. legacy signature operations -/

/-- C08's `GetSigOpCount(fAccurate=False)` and C16's count are the same function of the script -/
theorem sigops_models (s : Bytes) :
    Model.Script.getSigOpCount s false = .ok (Model.BlockCheck.sigOpCount s) :=
  CoherenceProofs.getSigOpCount_legacy s

/-- the two reference counts (C16's GetOp recursion, C08's `parse`-based one) agree on every byte string -/
theorem sigops_specs (s : Bytes) : Spec.BlockCheck.sigOps s = Spec.Script.sigOpCount false s :=
  CoherenceProofs.spec_sigOps_eq s

theorem getOp_script_ref (s : Bytes) : Spec.Script.getOp s = Spec.Script.Ref.getOp s :=
  CoherenceProofs.getOp_script_ref s

/-- C16's GetOp is C08's with the pushed data dropped -/
theorem getOp_blockcheck (s : Bytes) :
    Spec.BlockCheck.getOp s = (Spec.Script.getOp s).map (fun x => (x.1, x.2.2)) :=
  CoherenceProofs.getOp_blockcheck s

/-- C03/C04's GetOp (opcode byte and size of the operation) against C06's (opcode, data, rest) -/
theorem getOp_sighash (b : UInt8) (r : Bytes) :
    match Spec.Script.Ref.getOp (b :: r) with
    | none => Spec.Sighash.getOp (b :: r) = none
    | some (o, _, rest) =>
        ∃ n, Spec.Sighash.getOp (b :: r) = some (b, n) ∧ 1 ≤ n ∧ n ≤ (b :: r).length ∧
          rest = (b :: r).drop n ∧ o = b.toNat :=
  CoherenceProofs.sighash_getOp b r

/-! ### 2. serialisation and identifiers -/

theorem wfTx_txRange (t : Tx) (h : Spec.Wire.WFTx t) : Spec.Merkle.TxRange t := CoherenceProofs.wfTx_txRange t h

theorem wfBlock_blockRange (b : Block) (h : Spec.Wire.WFBlock b) : Spec.Merkle.BlockRange b :=
  CoherenceProofs.wfBlock_blockRange b h

/-- on C01's domain the serialisation lemmas of C15/C16 and C01's theorems are the same statements
    (C15/C16's hold on the larger domain `TxRange`: no input required, fewer stacks than inputs allowed) -/
theorem ser_lemmas_agree (t : Tx) (h : Spec.Wire.WFTx t) :
    SerSpec.serTx_true t (wfTx_txRange t h) = C01.ser_eq_spec t h ∧
    SerSpec.serTx_false t (wfTx_txRange t h) = C01.ser_stripped_eq_spec t h := ⟨rfl, rfl⟩

theorem txid_defs (t : Tx) (b : Block) :
    Spec.Merkle.txid t = Spec.Ident.txid hash256 t ∧ Spec.Merkle.wtxid t = Spec.Ident.wtxid hash256 t ∧
    Spec.Merkle.blockStripped b = Spec.Wire.header b.hdr ++ Spec.Wire.vec Spec.Wire.txLegacy b.vtx :=
  ⟨rfl, rfl, rfl⟩

theorem ctorValid_eq_validTx (t : Tx) : Model.Merkle.ctorValid t = Spec.ValueSem.validTx t := rfl

theorem fromTx_eq_ctorValid (t : Tx) :
    Model.Sighash.fromTx t = if Model.Merkle.ctorValid t then .ok t else .error .valueerr :=
  CoherenceProofs.fromTx_eq_ctorValid t

/-- `GetTxid` of C15/C16 and of C09's value semantics: the same outcome for every transaction -/
theorem getTxid_merkle_valueSem (t : Tx) : Model.Merkle.getTxid t = Spec.ValueSem.txidOf t :=
  CoherenceProofs.merkle_getTxid_eq_valueSem t

/-- C02's and C15/C16's `GetTxid` are the same function of the transaction: both mirror the
    ValueError of the validating constructor through which the stripped copy is built -/
theorem getTxid_ident_merkle (t : Tx) : Model.Ident.getTxid t = Model.Merkle.getTxid t :=
  CoherenceProofs.ident_getTxid_eq_merkle_all t

theorem getHash_merkle_ident (t : Tx) : Model.Merkle.getHash t = Model.Ident.getHash t :=
  CoherenceProofs.merkle_getHash_eq_ident t

/-- on fields in wire range every model of `GetTxid` / `GetHash` returns the protocol's txid / wtxid -/
theorem txid_all_on_range (t : Tx) (h : Spec.Merkle.TxRange t) :
    Model.Merkle.getTxid t = .ok (Spec.Ident.txid hash256 t) ∧
    Model.Ident.getTxid t = .ok (Spec.Ident.txid hash256 t) ∧
    Spec.ValueSem.txidOf t = .ok (Spec.Ident.txid hash256 t) ∧
    Model.Ident.getHash t = .ok (Spec.Ident.wtxid hash256 t) := by
  have h1 := MerkleProofs.getTxid_ok t h
  refine ⟨h1, ?_, ?_, ?_⟩
  · rw [getTxid_ident_merkle t]; exact h1
  · rw [← getTxid_merkle_valueSem]; exact h1
  · rw [← getHash_merkle_ident]; exact MerkleProofs.getHash_ok t h

/-- `block.get_header()` in CheckBlock (C16) and in `CBlock.GetHash` (C02) -/
theorem getHeader_models (b : Block) : Model.BlockCheck.getHeader b.hdr = Model.Ident.getHeader b :=
  CoherenceProofs.getHeader_eq_ident b

/-- the header hash CheckBlockHeader feeds to the proof-of-work check is C02's header hash -/
theorem headerHash_models (h : Header) :
    Model.Ident.headerHash h = (Model.Wire.serHeader h).map hash256 :=
  CoherenceProofs.headerHash_eq h

/-- C09's `GetHash` of a block hashes the header without the `get_header()` step.  **Differ**: a
    block whose `hashPrevBlock` is 31 bytes long and whose `nVersion` is 2³¹: C02 → AssertionError
    (the CBlockHeader constructor, as in the code), C09 → struct.error. -/
theorem identOf_block (b : Block) (h1 : b.hdr.hashPrevBlock.length = 32) (h2 : b.hdr.hashMerkleRoot.length = 32) :
    Spec.ValueSem.identOf (.block b) = Model.Ident.blockHash b :=
  CoherenceProofs.identOf_block b h1 h2

/-! ### 3. P2P payloads -/

theorem msg_tx_payload (t : Tx) : Spec.Msg.payload (.tx t) = Spec.Wire.txBytes t := rfl

theorem msg_block_payload (b : Block) : Spec.Msg.payload (.block b) = Spec.Wire.block b := rfl

/-- a `headers` entry is the 80-byte header followed by the CompactSize transaction count 0 -/
theorem msg_headers_entry (h : Header) (hs : List Header) :
    Spec.Msg.headerEntry h = Spec.Wire.header h ++ [0x00] ∧
    Spec.Msg.payload (.headers hs) = Spec.Wire.vec (fun h => Spec.Wire.header h ++ [0x00]) hs := by
  constructor
  · rfl
  · rfl

theorem msg_model_payloads (t : Tx) (b : Block) :
    Model.Msg.msgSer (.tx t) = Model.Wire.serTx t ∧ Model.Msg.msgSer (.block b) = Model.Wire.serBlock b :=
  ⟨rfl, rfl⟩

/-- the hash of a `tx` message's payload is the wtxid of C02 / C15 -/
theorem msg_tx_payload_hash (t : Tx) :
    hash256 (Spec.Msg.payload (.tx t)) = Spec.Merkle.wtxid t ∧
    Spec.Merkle.wtxid t = Spec.Ident.wtxid hash256 t := ⟨rfl, rfl⟩

/-- C18's well-formedness of a `tx` / `block` message is C01's, hence inside C15/C16's domain -/
theorem msg_wf_tx (t : Tx) (b : Block) :
    (Spec.Msg.WFMsg (.tx t) → Spec.Merkle.TxRange t) ∧ (Spec.Msg.WFMsg (.block b) → Spec.Merkle.BlockRange b) :=
  ⟨fun h => wfTx_txRange t h, fun h => wfBlock_blockRange b h⟩

/-! ### 4. proof of work -/

/-- CheckBlockHeader's proof-of-work step is literally C17's model under the chain's limit -/
theorem checkPoW_is_c17 (p : Spec.ChainParams) (hash : Bytes) (bits : Nat) :
    Model.BlockCheck.checkPoW p hash bits =
      match Model.checkPoW p.powLimit hash bits with
      | .ok => .ok ()
      | .errPow => .error .validation
      | .pyStructError => .error structError := rfl

theorem checkPoW_iff (p : Spec.ChainParams) (hl : p.powLimit < 2 ^ 256) (hash : Bytes) (hh : hash.length = 32)
    (bits : Nat) (hb : bits < 2 ^ 32) :
    Model.BlockCheck.checkPoW p hash bits = .ok () ↔ Spec.powValid p.powLimit hash bits := by
  rw [← C17.pow_iff p.powLimit hl hash hh bits hb, checkPoW_is_c17]
  cases Model.checkPoW p.powLimit hash bits <;> simp

/-! ### 5. FindAndDelete -/

/-- C03's and C06's models of `FindAndDelete` return the same bytes for every script and every
    pattern (they only name the CScriptInvalidError outcome differently) -/
theorem findAndDelete_models (cap : Model.ScriptEval.Captured) (script sig : Bytes) :
    Model.ScriptEval.findAndDelete cap script sig =
      match Model.Sighash.findAndDelete script sig with
      | .ok r => .ok r
      | .error _ => .error (.invalid cap) :=
  CoherenceProofs.findAndDelete_models cap script sig

/-- … hence C03's model, too, is Core's FindAndDelete on every script that parses and every push
    pattern (C06's `findAndDelete_equiv` transported) -/
theorem findAndDelete_ref (script sig : Bytes) (h : sig.length < 2 ^ 32)
    (hp : (Model.Script.rawIter script).2.isSome = false) :
    Model.Sighash.findAndDelete script (Spec.Script.Ref.pushEnc sig) =
      .ok (Spec.Script.Ref.findAndDelete script (Spec.Script.Ref.pushEnc sig)) := by
  have h1 := C06.findAndDelete_equiv ⟨[], [], 0⟩ script sig h
  rw [findAndDelete_models, hp] at h1
  simp only [Bool.false_eq_true, if_false] at h1
  cases hq : Model.Sighash.findAndDelete script (Spec.Script.Ref.pushEnc sig) with
  | ok r => rw [hq] at h1; simp only [Except.ok.injEq] at h1; rw [h1]
  | error e => rw [hq] at h1; cases h1

/-- removing the OP_CODESEPARATOR operations: Core's `FindAndDelete(script, [OP_CODESEPARATOR])` as
    transcribed for C06 and the `SerializeScriptCode` walk transcribed for C03 give the same bytes
    for EVERY byte string (where tokenisation stops both keep the remaining bytes verbatim) -/
theorem codesep_specs (s : Bytes) :
    Spec.Script.Ref.findAndDelete s [0xab] = Spec.Sighash.scriptCodeNoSep s :=
  CoherenceProofs.fad_codesep s.length s rfl

/-- … so on scripts that parse C03's *model* of `FindAndDelete(script, CScript([OP_CODESEPARATOR]))`
    returns C06's reference result -/
theorem codesep_model_ref (s : Bytes) (h : Spec.Sighash.parses s) :
    Model.Sighash.findAndDelete s [0xab] = .ok (Spec.Script.Ref.findAndDelete s [0xab]) := by
  rw [codesep_specs]; exact C03.findAndDelete_codesep s h

/-! ### 6. script numbers -/

/-- Core's `CScriptNum::serialize` as transcribed for C08 and for C06: every integer -/
theorem numEncode_specs (z : Int) : Spec.Script.numEncode z = Spec.Script.Ref.scriptNumSer z :=
  CoherenceProofs.numEncode_eq_ref z

/-- `CScriptNum::set_vch` as transcribed for C08 and for C06: every byte string -/
theorem numDecode_specs (b : Bytes) : Spec.Script.numDecode b = Spec.Script.Ref.scriptNumDecode b :=
  CoherenceProofs.numDecode_eq_ref b

/-- the two models of `_bignum.bn2vch`.  **Differ**: for `z = 256^(2³²)` (an encoding of 2³² + 1
    bytes) C08's model returns struct.error (`struct.pack(">I", size)` of the MPI route, as the code
    would), C06's returns the encoding. -/
theorem bn2vch_models (z : Int) :
    Model.ScriptEval.bn2vch z = .ok (Spec.Script.numEncode z) ∧
    Model.Script.bn2vch z =
      if (Spec.Script.numEncode z).length < 2 ^ 32 then .ok (Spec.Script.numEncode z) else .error structError :=
  CoherenceProofs.bn2vch_models z

theorem vch2bn_models (b : Bytes) :
    (b.length < 2 ^ 32 →
      Model.ScriptEval.vch2bn b = .ok (Spec.Script.numDecode b) ∧
      Model.Script.vch2bn b = .ok (some (Spec.Script.numDecode b))) ∧
    (¬ b.length < 2 ^ 32 →
      Model.ScriptEval.vch2bn b = .error (.py "error") ∧ Model.Script.vch2bn b = .error structError) :=
  CoherenceProofs.vch2bn_models b

theorem bitLength_models (n : Nat) (e : Bool) :
    Model.ScriptEval.bitLength n = Model.Script.bitLength n ∧
    Model.ScriptEval.bnBytes n e = Model.Script.bnBytes n e :=
  ⟨CoherenceProofs.bitLength_same n, CoherenceProofs.bnBytes_same n e⟩

/-- C17's byte length of a target and C08's byte length of a magnitude -/
theorem nbytes_eq_byteLen (n : Nat) : nbytes n = Spec.Script.byteLen n := CoherenceProofs.nbytes_eq_byteLen n

/-! ### 7. predicates and push encoding -/

theorem isPushOnly_models (s : Bytes) : Model.Script.isPushOnly s = Model.ScriptEval.isPushOnly s :=
  CoherenceProofs.isPushOnly_models s

theorem isPushOnly_specs (s : Bytes) : Spec.Script.isPushOnly s = Spec.Script.Ref.isPushOnly s :=
  CoherenceProofs.isPushOnly_specs s

theorem isP2sh_all (s : Bytes) :
    Model.Script.isP2sh s = Model.ScriptEval.isP2sh s ∧ Model.Addr.isP2sh s = Model.Script.isP2sh s ∧
    Spec.Script.isPayToScriptHash s = Spec.Script.Ref.isPayToScriptHash s :=
  CoherenceProofs.isP2sh_all s

/-- Core's IsWitnessProgram as transcribed for C08 (returning version and program) and for C03/C04 -/
theorem isWitnessProgram_specs (s : Bytes) :
    (Spec.Script.isWitnessProgram s).isSome = Spec.Sighash.isWitnessProgram s :=
  CoherenceProofs.isWitnessProgram_specs s

theorem isWitnessScriptPubKey_models (s : Bytes) :
    Model.Sighash.isWitnessScriptPubKey s = Model.Script.isWitnessScriptPubKey s :=
  CoherenceProofs.isWitnessScriptPubKey_models s

theorem addr_witness_predicates (s : Bytes) :
    Model.Addr.isWitnessV0Keyhash s = Model.Script.isWitnessV0Keyhash s ∧
    Model.Addr.isWitnessV0NestedKeyhash s = Model.Script.isWitnessV0NestedKeyhash s ∧
    Model.Addr.isWitnessV0Scripthash s = Model.Script.isWitnessV0Scripthash s :=
  CoherenceProofs.addr_witness_predicates s

/-- the four copies of `CScriptOp.encode_op_pushdata` / `CScript() << vch` -/
theorem pushEnc_all (d : Bytes) :
    Model.Addr.pushEnc d = Model.Script.encodeOpPushdata d ∧
    (d.length < 2 ^ 32 →
      Model.Script.encodeOpPushdata d = .ok (Spec.Script.Ref.pushEnc d) ∧
      Model.ScriptEval.encodeOpPushdata d = .ok (Spec.Script.Ref.pushEnc d) ∧
      Spec.Script.pushEncode d = some (Spec.Script.Ref.pushEnc d)) :=
  CoherenceProofs.pushEnc_all d

/-! ### 8. C12's script helpers and C08's builder -/

theorem addr_pushEnc (d : Bytes) : Model.Addr.pushEnc d = Model.Script.encodeOpPushdata d := rfl

/-- `CScript(tuple(scriptPubKey))` in `from_scriptPubKey` (C12) is C08's cooked iteration followed
    by C08's builder, for every byte string -/
theorem canonicalize_eq_build (s : Bytes) :
    Model.Addr.canonicalize s =
      match Model.Script.cooked s with
      | (toks, none) => Model.Script.build toks
      | (_, some (.iter _)) => .error .invalidscript
      | (_, some (.py e)) => .error e :=
  CoherenceProofs.canonicalize_eq_build s

/-! ### 9. WIF at the text level -/

/-- `str(CBitcoinSecret.from_secret_bytes(secret, compressed))` parses back, through C10's
    Base58Check, to the same secret and flag — for every version byte, both flags, every hash
    returning at least four bytes -/
theorem wif_text_roundtrip (H : Bytes → Bytes) (hH : ∀ x, 4 ≤ (H x).length) (ver : UInt8)
    (secret : Bytes) (c : Bool) (hs : secret.length = 32) :
    ∃ d, Model.Base58.fromBytes (Model.Keys.wifPayload secret c) (ver.toNat : Int) = .ok d ∧
      ∃ d', Model.Base58.new H (Model.Base58.str H d) = .ok d' ∧
        Model.Keys.wifParse ver.toNat d'.nVersion.toNat d'.data = .ok (secret, c) :=
  CoherenceProofs.wif_text_roundtrip H hH ver secret c hs

/-- … in particular under the secret-key version byte of each of the four chains -/
theorem wif_text_roundtrip_chains (H : Bytes → Bytes) (hH : ∀ x, 4 ≤ (H x).length)
    (p : Spec.ChainParams) (hp : p ∈ Spec.chainTable) (secret : Bytes) (c : Bool) (hs : secret.length = 32) :
    ∃ d, Model.Base58.fromBytes (Model.Keys.wifPayload secret c) (p.secretKey : Int) = .ok d ∧
      ∃ d', Model.Base58.new H (Model.Base58.str H d) = .ok d' ∧
        Model.Keys.wifParse p.secretKey d'.nVersion.toNat d'.data = .ok (secret, c) := by
  have hlt : p.secretKey < 256 := by
    simp only [Spec.chainTable, List.mem_cons, List.mem_nil_iff, or_false] at hp
    rcases hp with rfl | rfl | rfl | rfl <;> decide
  have := wif_text_roundtrip H hH (UInt8.ofNat p.secretKey) secret c hs
  have e : (UInt8.ofNat p.secretKey).toNat = p.secretKey := by
    simp [UInt8.toNat_ofNat']; omega
  rw [e] at this
  exact this

/-! ### 10. CompactSize prefixes and the hash-length hypotheses -/

/-- the signed-message preimage is prefixed with the wire format's CompactSize (C14 uses
    `Spec.Wire.varBytes` itself) -/
theorem msg_digest_prefix (magic msg : Bytes) :
    Spec.Keys.msgDigest magic msg =
      hash256 (Spec.Wire.compactSize magic.length ++ magic ++ (Spec.Wire.compactSize msg.length ++ msg)) := rfl

/-- C14's and C01's "VarIntSerializer = CompactSize" lemmas are one statement -/
theorem serVarInt_lemmas_agree (n : Nat) (h : n < 2 ^ 64) :
    C14.serVarInt_eq_compactSize n h = Codec.serVarInt_ok h ∧
    SerSpec.serVarInt_ok n h = Codec.serVarInt_ok h := ⟨rfl, rfl⟩

theorem hashLen_defs : C15.HashLen ↔ C16.HashLen := Iff.rfl

/-- the digest-length hypothesis of C15/C16 gives the one of C18 (`ChecksumLen`) and the one of
    C10 / the WIF round trip ("at least four bytes") at SHA-256d -/
theorem hashLen_implies (h : C16.HashLen) :
    Spec.Msg.ChecksumLen ∧ (∀ x : Bytes, 4 ≤ (hash256 x).length) := by
  constructor
  · intro p
    unfold Spec.Msg.checksum
    rw [List.length_take, h p]; rfl
  · intro x; rw [h x]; omega

/-! ### non-vacuity (the conditional statements have satisfiable hypotheses) -/

example : Spec.Merkle.TxRange C16.exTx := by decide
example : C16.exBlock.hdr.hashPrevBlock.length = 32 ∧ C16.exBlock.hdr.hashMerkleRoot.length = 32 := by decide
example : (Spec.Script.isWitnessProgram [0x00, 0x02, 0x61, 0x62]).isSome = true := by decide
end BtcVerif.Coherence
