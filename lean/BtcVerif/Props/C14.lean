/-
  C14 — signed messages: property theorems.

  Glue of bitcoin/signmessage.py and of the compact-signature code in bitcoin/core/key.py
  (`Model.Keys.*`) against the reference layout (`Spec.Keys.*`).  Recovery arithmetic is OpenSSL's
  (BN_*, EC_POINT_*), orchestrated by python: the model instantiates it with the reference curve;
  that OpenSSL agrees with the reference curve is covered by the correspondence runs (T2) only.
-/
import BtcVerif.Model.Keys
import BtcVerif.Proofs.Der
import BtcVerif.Proofs.Keys
import BtcVerif.Proofs.Ecdsa
import BtcVerif.Proofs.CryptoLen
import BtcVerif.Props.C10

namespace BtcVerif.C14
open BtcVerif BtcVerif.Crypto

/-! ### message digest layout -/

/-- `VarIntSerializer` writes the CompactSize of every length below 2^64 -/
theorem serVarInt_eq_compactSize (i : Nat) (h : i < 2 ^ 64) :
    Model.Wire.serVarInt i = .ok (Spec.Wire.compactSize i) := by
  unfold Model.Wire.serVarInt Spec.Wire.compactSize Model.Wire.packU
  by_cases h1 : i < 0xfd
  · simp only [h1, if_true]
  · by_cases h2 : i ≤ 0xffff
    · have t : i < 256 ^ 2 := by omega
      simp only [h1, h2, if_false, if_true, if_pos t, Except.map]
    · by_cases h3 : i ≤ 0xffffffff
      · have t : i < 256 ^ 4 := by omega
        simp only [h1, h2, h3, if_false, if_true, if_pos t, Except.map]
      · have t : i < 256 ^ 8 := by omega
        simp only [h1, h2, h3, if_false, if_pos t, Except.map]

theorem serBytes_eq_varBytes (b : Bytes) (h : b.length < 2 ^ 64) :
    Model.Wire.serBytes b = .ok (Spec.Wire.varBytes b) := by
  unfold Model.Wire.serBytes Spec.Wire.varBytes
  rw [serVarInt_eq_compactSize _ h]
  rfl

/-- `msg_digest_eq_spec`: for a magic string and a message of any length (below 2^64 bytes, where
    `struct.pack('<Q')` ends) `BitcoinMessage.GetHash()` is the double SHA-256 of
    CompactSize-prefixed magic ‖ CompactSize-prefixed message; no exception -/
theorem msg_digest_eq_spec (magic msg : Bytes) (hm : magic.length < 2 ^ 64) (hl : msg.length < 2 ^ 64) :
    Model.Keys.msgDigest magic msg = .ok (Spec.Keys.msgDigest magic msg) := by
  unfold Model.Keys.msgDigest Model.Keys.msgSerialize Spec.Keys.msgDigest
  rw [serBytes_eq_varBytes _ hm, serBytes_eq_varBytes _ hl]
  rfl

/-- text level: `BitcoinMessage(text).GetHash()` with the default magic hashes the UTF-8 bytes of the text -/
theorem msg_digest_text (text : String) (hl : text.toUTF8.toList.length < 2 ^ 64) :
    Model.Keys.msgDigestText text = .ok (Spec.Keys.msgDigest Spec.Keys.messageMagic text.toUTF8.toList) := by
  unfold Model.Keys.msgDigestText
  exact msg_digest_eq_spec _ _ (by decide +kernel) hl

/-- the default magic is the 24 bytes of "Bitcoin Signed Message:\n", so its prefix is the single byte 0x18 -/
theorem magic_prefix : Spec.Wire.varBytes Spec.Keys.messageMagic = 0x18 :: Spec.Keys.messageMagic := by
  decide +kernel

/-- beyond 2^64 bytes the length no longer fits `'<Q'`: struct.error, not a wrong digest -/
theorem msg_digest_too_long (magic msg : Bytes) (hm : magic.length < 2 ^ 64) (hl : 2 ^ 64 ≤ msg.length) :
    Model.Keys.msgDigest magic msg = .error structError := by
  unfold Model.Keys.msgDigest Model.Keys.msgSerialize
  rw [serBytes_eq_varBytes _ hm]
  unfold Model.Wire.serBytes Model.Wire.serVarInt Model.Wire.packU
  have h1 : ¬ msg.length < 0xfd := by omega
  have h2 : ¬ msg.length ≤ 0xffff := by omega
  have h3 : ¬ msg.length ≤ 0xffffffff := by omega
  have h4 : ¬ msg.length < 256 ^ 8 := by omega
  simp only [h1, h2, h3, if_false, if_neg h4, bind, Except.bind, Except.map]

/-! ### header byte of compact signatures -/

/-- `SignMessage` writes the header Bitcoin Core prescribes -/
theorem headerByte_eq_spec (recid : Nat) (c : Bool) :
    Model.Keys.headerByte recid c = Spec.Keys.headerByte recid c := by
  cases c <;> simp [Model.Keys.headerByte, Spec.Keys.headerByte]

/-- for the four recovery ids the header byte is in 27..34 -/
theorem header_range (recid : Nat) (c : Bool) (h : recid < 4) :
    27 ≤ Model.Keys.headerByte recid c ∧ Model.Keys.headerByte recid c ≤ 34 := by
  cases c <;> simp [Model.Keys.headerByte] <;> omega

/-- `header_roundtrip`: `recover_compact` reads back exactly the recovery id and compression flag that
    `SignMessage` encoded, for recid ∈ 0..3 and both compressions -/
theorem header_roundtrip (recid : Nat) (c : Bool) (h : recid < 4) :
    Model.Keys.headerDecode (Model.Keys.headerByte recid c) = (recid, c) := by
  have h' : recid = 0 ∨ recid = 1 ∨ recid = 2 ∨ recid = 3 := by omega
  rcases h' with rfl | rfl | rfl | rfl <;> cases c <;> decide

/-- on the range 27..34 the decoding in `recover_compact` is Bitcoin Core's -/
theorem headerDecode_eq_spec (h : Nat) (p : Nat × Bool) (hs : Spec.Keys.headerDecode h = some p) :
    Model.Keys.headerDecode h = p := by
  unfold Spec.Keys.headerDecode at hs
  by_cases hr : 27 ≤ h ∧ h ≤ 34
  · simp only [hr, and_self, if_true, Option.some.injEq] at hs
    rw [← hs]
    obtain ⟨h1, h2⟩ := hr
    have : h = 27 ∨ h = 28 ∨ h = 29 ∨ h = 30 ∨ h = 31 ∨ h = 32 ∨ h = 33 ∨ h = 34 := by omega
    rcases this with rfl | rfl | rfl | rfl | rfl | rfl | rfl | rfl <;> decide
  · simp [hr] at hs

/-- every header in 27..34 is the header of exactly one (recid, compression) pair -/
theorem header_decode_encode (h : Nat) (h1 : 27 ≤ h) (h2 : h ≤ 34) :
    Model.Keys.headerByte (Model.Keys.headerDecode h).1 (Model.Keys.headerDecode h).2 = h := by
  have : h = 27 ∨ h = 28 ∨ h = 29 ∨ h = 30 ∨ h = 31 ∨ h = 32 ∨ h = 33 ∨ h = 34 := by omega
  rcases this with rfl | rfl | rfl | rfl | rfl | rfl | rfl | rfl <;> decide

/-! ### `sign_compact` -/

/-- what `sign_compact` returns, given that the low-S normalised DER signature is the strict encoding
    of `(r, s)` with r, s < 2^256: the 64 bytes are the fixed-width big-endian `r ‖ s` (neither
    assertion fires, nothing is truncated) and the recovery id is one in 0..3 under which the python
    recovery code, with its checks on, reproduces the signer's compressed key -/
theorem signCompact_layout (hash pubC sig : Bytes) (r s i : Nat) (hr : r < 2 ^ 256) (hs : s < 2 ^ 256)
    (h : Model.Keys.signCompactFinish hash (Secp256k1.derEncode r s) pubC = .ok (sig, i)) :
    hash.length = 32 ∧ sig = Secp256k1.be32 r ++ Secp256k1.be32 s ∧ i < 4 ∧
    ∃ Q, Model.Keys.recover (Secp256k1.be32 r) (Secp256k1.be32 s) hash i true = (1, some Q) ∧
         Secp256k1.encode Q true = pubC := by
  have l1 := derIntBody_length_le 32 r (by simpa using hr)
  have l2 := derIntBody_length_le 32 s (by simpa using hs)
  unfold Model.Keys.signCompactFinish at h
  by_cases hh : hash.length = 32
  · simp only [hh, ne_eq, not_true_eq_false, if_false, bind, Except.bind] at h
    rw [derSigDeserialize_derEncode r s (by omega)] at h
    simp only [pad32_derIntBody r hr, pad32_derIntBody s hs] at h
    split at h
    · rename_i j hj
      simp only [pure, Except.pure, Except.ok.injEq, Prod.mk.injEq] at h
      obtain ⟨h1, h2⟩ := h
      subst h2
      have hmem := List.mem_of_find?_eq_some hj
      have htry := List.find?_some hj
      refine ⟨hh, h1.symm, ?_, ?_⟩
      · simp at hmem; omega
      · split at htry
        · rename_i Q hQ
          exact ⟨Q, hQ, by simpa using htry⟩
        · simp at htry
    · simp [throw, throwThe, MonadExceptOf.throw] at h
  · simp [hh, bind, Except.bind, throw, throwThe, MonadExceptOf.throw] at h

/-- the only ways `sign_compact` fails on such input: a digest that is not 32 bytes, or no recovery id
    reproducing the key — both ValueError -/
theorem signCompact_error (hash pubC : Bytes) (r s : Nat) (hr : r < 2 ^ 256) (hs : s < 2 ^ 256) (e : Exc)
    (h : Model.Keys.signCompactFinish hash (Secp256k1.derEncode r s) pubC = .error e) : e = .valueerr := by
  have l1 := derIntBody_length_le 32 r (by simpa using hr)
  have l2 := derIntBody_length_le 32 s (by simpa using hs)
  unfold Model.Keys.signCompactFinish at h
  by_cases hh : hash.length = 32
  · simp only [hh, ne_eq, not_true_eq_false, if_false, bind, Except.bind] at h
    rw [derSigDeserialize_derEncode r s (by omega)] at h
    simp only [pad32_derIntBody r hr, pad32_derIntBody s hs] at h
    split at h
    · simp [pure, Except.pure] at h
    · simp [throw, throwThe, MonadExceptOf.throw] at h
      exact h.symm
  · simp [hh, bind, Except.bind, throw, throwThe, MonadExceptOf.throw] at h
    exact h.symm

/-! ### `recover_compact`, `VerifyMessage` -/

/-- a compact signature must be exactly 65 bytes -/
theorem recoverCompact_length (hash sig : Bytes) (h : sig.length ≠ 65) :
    Model.Keys.recoverCompact hash sig = .error .valueerr := by
  simp [Model.Keys.recoverCompact, h]

/-- the header arithmetic the header theorems are about is the one `recover_compact` runs -/
theorem recoverCompact_header (hash : Bytes) (h : UInt8) (body : Bytes) (hl : (h :: body).length = 65) :
    Model.Keys.recoverCompact hash (h :: body) =
      match Model.Keys.recover (body.take 32) ((body.drop 32).take 32) hash (Model.Keys.headerDecode h.toNat).1 false with
      | (1, some Q) => .ok (some (Secp256k1.encode Q (Model.Keys.headerDecode h.toNat).2))
      | _ => .ok none := by
  unfold Model.Keys.recoverCompact
  rw [if_neg (by omega)]
  rfl

/-- `VerifyMessage` answers true only when a key was recovered from (digest of THIS message, signature)
    and the text of the given address is, character for character, the text of that key's P2PKH address
    under the selected chain -/
theorem verify_true_only_if (cv : Nat) (addrText : List Char) (magic msg sig : Bytes)
    (h : Model.Keys.verifyMessage cv addrText magic msg sig = .ok true) :
    ∃ digest pk, Model.Keys.msgDigest magic msg = .ok digest ∧
      Model.Keys.recoverCompact digest sig = .ok (some pk) ∧
      addrText = Model.Keys.p2pkhText cv pk := by
  unfold Model.Keys.verifyMessage at h
  cases hd : Model.Keys.msgDigest magic msg with
  | error e => simp [hd, bind, Except.bind] at h
  | ok digest =>
    cases hr : Model.Keys.recoverCompact digest sig with
    | error e => simp [hd, hr, bind, Except.bind] at h
    | ok o =>
      cases o with
      | none => simp [hd, hr, bind, Except.bind, throw, throwThe, MonadExceptOf.throw] at h
      | some pk =>
        refine ⟨digest, pk, rfl, hr, ?_⟩
        simp only [hd, hr, bind, Except.bind] at h
        by_cases hv : Model.Keys.isFullyValid pk = true
        · simp [hv, pure, Except.pure] at h
          exact h.symm
        · simp [hv, throw, throwThe, MonadExceptOf.throw] at h

/-- … and conversely it answers true for that text whenever the recovered key is "fully valid" in the
    library's sense (no further condition) -/
theorem verify_true_if (cv : Nat) (magic msg sig digest pk : Bytes)
    (hd : Model.Keys.msgDigest magic msg = .ok digest)
    (hr : Model.Keys.recoverCompact digest sig = .ok (some pk)) (hdec : Model.Keys.isFullyValid pk = true) :
    Model.Keys.verifyMessage cv (Model.Keys.p2pkhText cv pk) magic msg sig = .ok true := by
  unfold Model.Keys.verifyMessage
  simp [hd, hr, hdec, bind, Except.bind, pure, Except.pure]

/-- `verify_false_other`: for ANY address whose text differs from the text of the recovered key's P2PKH
    address — another key's address, the P2SH or segwit address carrying the same hash160, an address
    of another chain, anything else with a `__str__` — the answer is false, not an exception -/
theorem verify_false_other (cv : Nat) (addrText : List Char) (magic msg sig digest pk : Bytes)
    (hd : Model.Keys.msgDigest magic msg = .ok digest)
    (hr : Model.Keys.recoverCompact digest sig = .ok (some pk)) (hdec : Model.Keys.isFullyValid pk = true)
    (hne : addrText ≠ Model.Keys.p2pkhText cv pk) :
    Model.Keys.verifyMessage cv addrText magic msg sig = .ok false := by
  unfold Model.Keys.verifyMessage
  simp [hd, hr, hdec, bind, Except.bind, pure, Except.pure]
  exact fun h => hne h.symm

/-- **Observation O15 (outside the property: not a signature produced by message signing).**  If
    recovery yields the point at infinity — serialised `00` — `VerifyMessage` does not fail: the library
    regards `00` as a fully valid key, so it answers TRUE for the P2PKH address of Hash160(`00`), for
    whatever message the digest came from.  (Bitcoin Core rejects an invalid recovered key.)  That such
    signatures exist for EVERY digest is `o15_recovery_gives_infinity` below. -/
theorem o15_verify_accepts_infinity_key (cv : Nat) (magic msg sig digest : Bytes)
    (hd : Model.Keys.msgDigest magic msg = .ok digest)
    (hr : Model.Keys.recoverCompact digest sig = .ok (some [0])) :
    Model.Keys.verifyMessage cv (Model.Keys.p2pkhText cv [0]) magic msg sig = .ok true :=
  verify_true_if cv magic msg sig digest [0] hd hr (by decide)

/-- Base58Check text (with the real checksum hash) determines version byte and payload -/
theorem base58_text_injective (v v' : UInt8) (p p' : Bytes)
    (h : Model.Base58.str hash256 ⟨v, p⟩ = Model.Base58.str hash256 ⟨v', p'⟩) : v = v' ∧ p = p' := by
  have hH : ∀ x, 4 ≤ (hash256 x).length := fun x => by rw [hash256_length]; omega
  obtain ⟨d, _, hd, h1⟩ := C10.check_roundtrip hash256 hH v p
  obtain ⟨d', _, hd', h2⟩ := C10.check_roundtrip hash256 hH v' p'
  subst hd; subst hd'
  rw [h, h2] at h1
  simp at h1
  exact ⟨h1.1.symm, h1.2.symm⟩

/-- for a Base58 address (P2PKH or P2SH of any chain) the decision is: same version byte as the selected
    chain's PUBKEY_ADDR and payload = Hash160 of the recovered key -/
theorem verify_base58_address (cv : Nat) (av : UInt8) (payload magic msg sig digest pk : Bytes)
    (hd : Model.Keys.msgDigest magic msg = .ok digest)
    (hr : Model.Keys.recoverCompact digest sig = .ok (some pk)) (hdec : Model.Keys.isFullyValid pk = true) :
    Model.Keys.verifyMessage cv (Model.Base58.str hash256 ⟨av, payload⟩) magic msg sig =
      .ok (decide (av = UInt8.ofNat cv ∧ payload = hash160 pk)) := by
  by_cases h : av = UInt8.ofNat cv ∧ payload = hash160 pk
  · obtain ⟨h1, h2⟩ := h
    subst h1; subst h2
    have := verify_true_if cv magic msg sig digest pk hd hr hdec
    simpa [Model.Keys.p2pkhText, Model.Keys.p2pkhPayload] using this
  · have hne : Model.Base58.str hash256 ⟨av, payload⟩ ≠ Model.Keys.p2pkhText cv pk := by
      intro he
      exact h (base58_text_injective _ _ _ _ he)
    rw [verify_false_other cv _ magic msg sig digest pk hd hr hdec hne]
    simp [h]

-- UNPROVED (full statement): on the property's domain the python recovery code, read with the reference
-- curve in place of OpenSSL, is SEC 1 §4.1.6 (it fails exactly when the reference cannot lift
-- x = r + ⌊recid/2⌋·n, otherwise yields the same point; the reference additionally refuses infinity):
--
--   theorem recover_eq_reference (sigR sigS msg : Bytes) (recid : Nat)
--       (hr0 : 0 < beNat sigR) (hrn : beNat sigR < Secp256k1.n) (hs0 : 0 < beNat sigS)
--       (hsn : beNat sigS < Secp256k1.n) (hrec : recid < 4) :
--       Secp256k1.recover (beNat msg) (beNat sigR) (beNat sigS) recid =
--         (Model.Keys.recover sigR sigS msg recid false).2.bind (fun Q => if Q = .inf then none else some Q)
--
-- Both sides unfold to the same expression over `liftX` and `mulAdd2`; the proof is a case split.  Two
-- attempts failed for a technical reason: every tactic script that unfolds `Secp256k1.recover` /
-- `Model.Keys.recover` and then transforms the goal (`simp only`, `dsimp only`, `extract_lets`) elaborates
-- in under a second, but the kernel does not finish checking the resulting term ("(kernel) deep recursion
-- detected" / "(kernel) deterministic timeout").  This persists after generalising n, p, G, `mulAdd2`,
-- `liftX`, `invMod` and `mul` to variables, so it is not the 256-bit constants.  `unfold` followed by
-- `rw [if_neg …]` alone does check.  The equality is exercised by the correspondence run instead
-- (`c14.msg` recomputes the key with `Secp256k1.recover`, `c14.recoverCompact` with `Model.Keys.recover`,
-- both compared with the library on the same signatures).  What is proved of `Model.Keys.recover` is its
-- use inside `signCompact_layout` above and the abstract algebra of the formula (`recover_correct`).

/-! ### public-key recovery, abstractly -/

section abstract
variable {q : ℕ} [Fact q.Prime] {E : Type} [AddCommGroup E] [Module (ZMod q) E]

/-- `recover_correct`: with the signer's nonce point `R = k·G` the formula `(−e/r)·G + (s/r)·R` that
    `CECKey.recover` evaluates returns the signer's public key `d·G` -/
theorem recover_correct (C : Ecdsa.Params q E) (d e k : ZMod q) (hk : k ≠ 0) (hr : Ecdsa.signR C k ≠ 0) :
    Ecdsa.recoverPoint C (k • C.g) e (Ecdsa.signR C k) (Ecdsa.signS C d e k) = d • C.g :=
  Ecdsa.recover_correct C d e k hk hr

/-- whatever candidate point `R` with `f R = r` is used, the signature verifies under the recovered
    key: a wrong recovery id yields another key, never an exception of the algebra -/
theorem verify_recovered (C : Ecdsa.Params q E) (R : E) (e r s : ZMod q) (hr : r ≠ 0) (hs : s ≠ 0)
    (hR : R ≠ 0) (hf : C.f R = r) : Ecdsa.Verify C (Ecdsa.recoverPoint C R e r s) e r s :=
  Ecdsa.verify_recovered C R e r s hr hs hR hf

/-- `verify_other_message` (conditional form): for a fixed signature `(r, s)` and recovery id (hence a
    fixed candidate point `R`), recovery is injective in the digest — a digest with another residue
    mod n recovers ANOTHER key, hence another Hash160 preimage and (unless Hash160 and the digest
    collide, which no theorem can exclude) another address: `VerifyMessage` compares against the
    signer's address text and answers false.  Hypotheses that stand for the cryptographic assumptions:
    the two digests differ as residues mod n (`e ≠ e'`), G ≠ ∞, r ≠ 0. -/
theorem verify_other_message (C : Ecdsa.Params q E) (R : E) (e e' r s : ZMod q) (hg : C.g ≠ 0) (hr : r ≠ 0)
    (hne : e ≠ e') : Ecdsa.recoverPoint C R e r s ≠ Ecdsa.recoverPoint C R e' r s :=
  fun h => hne (Ecdsa.recoverPoint_injective_digest C R e e' r s hg hr h)

/-- O15, the algebra: with `R = G` (so r = f(G), the x-coordinate of the generator) and `s = e`, the
    recovery formula gives the neutral element for EVERY digest `e` — the forged compact signature
    `1b ‖ x(G) ‖ (e mod n)` needs no secret -/
theorem o15_recovery_gives_infinity (C : Ecdsa.Params q E) (e r : ZMod q) :
    Ecdsa.recoverPoint C C.g e r e = 0 := by
  unfold Ecdsa.recoverPoint
  rw [← add_smul]
  have : -e * r⁻¹ + e * r⁻¹ = 0 := by ring
  rw [this, zero_smul]

end abstract

/-! ### non-vacuity -/

/-- a genuine signature: secret 1, digest 00…07, nonce 2 (reference signing equation, low S, recid 0) -/
def exR : Nat := 89565891926547004231252920425935692360644145829622209833684329913297188986597
def exS : Nat := 44782945963273502115626460212967846180322072914811104916842164956648594493302
def exDigest : Bytes := List.replicate 31 0 ++ [7]
def exSig : Bytes := 31 :: (Secp256k1.be32 exR ++ Secp256k1.be32 exS)

/-- hypotheses of `signCompact_layout` are met: the padding / recid search returns (r ‖ s, 0) -/
example : Model.Keys.signCompactFinish exDigest (Secp256k1.derEncode exR exS) (Secp256k1.pubkeyOf 1 true) =
    .ok (Secp256k1.be32 exR ++ Secp256k1.be32 exS, 0) := by decide +kernel

/-- hypotheses of `verify_true_if` / `verify_base58_address` are met: the model of `recover_compact`
    returns the signer's compressed key, which is fully valid -/
example : Model.Keys.recoverCompact exDigest exSig = .ok (some (Secp256k1.pubkeyOf 1 true)) ∧
    Model.Keys.isFullyValid (Secp256k1.pubkeyOf 1 true) = true := by decide +kernel

/-- O15, a concrete instance in the model: for the digest 00…07 the forged signature `1b ‖ x(G) ‖ 00…07`
    (no secret involved) makes `recover_compact` return the infinity key `00`, which
    `o15_verify_accepts_infinity_key` turns into a successful `VerifyMessage` -/
example : Model.Keys.recoverCompact exDigest (27 :: (Secp256k1.be32 Secp256k1.Gx ++ Secp256k1.be32 7)) =
    .ok (some [0]) := by decide +kernel

example : Model.Keys.headerDecode 31 = (0, true) := by decide
example : Model.Keys.headerDecode 30 = (3, false) := by decide
example : Spec.Keys.headerDecode 35 = none := by decide
/-- outside 27..34 `recover_compact` does not reject: it reduces the header mod 8 (Core rejects) -/
example : Model.Keys.headerDecode 35 = (0, false) ∧ Model.Keys.headerDecode 0 = (1, true) := by decide
example : Spec.Keys.messageMagic.length = 24 := by decide +kernel

end BtcVerif.C14
