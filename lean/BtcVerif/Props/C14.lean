/-
  C14 — signed messages: property theorems.

  Glue of bitcoin/signmessage.py and of the compact-signature code in bitcoin/core/key.py
  (`Model.Keys.*`) against the reference layout (`Spec.Keys.*`).  Recovery arithmetic is OpenSSL's
  (BN_*, EC_POINT_*), orchestrated by python: the model instantiates it with the reference curve;
  that OpenSSL agrees with the reference curve is covered by the correspondence runs (T2) only.
-/
import BtcVerif.Model.Keys
import BtcVerif.Proofs.Der
import BtcVerif.Proofs.Keys

namespace BtcVerif.C14
open BtcVerif BtcVerif.Crypto

/-! ### message digest layout -/

/-- `VarIntSerializer` writes the CompactSize of every length below 2^64 -/
theorem serVarInt_eq_compactSize (i : Nat) (h : i < 2 ^ 64) :
    Model.Wire.serVarInt i = .ok (Spec.Wire.compactSize i) := by
  unfold Model.Wire.serVarInt Spec.Wire.compactSize Model.Wire.packU
  by_cases h1 : i < 0xfd
  · simp [h1]
  · by_cases h2 : i ≤ 0xffff
    · have : i < 256 ^ 2 := by omega
      simp [h1, h2, this, Except.map]
    · by_cases h3 : i ≤ 0xffffffff
      · have : i < 256 ^ 4 := by omega
        simp [h1, h2, h3, this, Except.map]
      · have : i < 256 ^ 8 := by omega
        simp [h1, h2, h3, this, Except.map]

theorem serBytes_eq_varBytes (b : Bytes) (h : b.length < 2 ^ 64) :
    Model.Wire.serBytes b = .ok (Spec.Wire.varBytes b) := by
  unfold Model.Wire.serBytes Spec.Wire.varBytes
  rw [serVarInt_eq_compactSize _ h]
  rfl

/-- `msg_digest_eq_spec`: for a magic string and a message of any length (below 2^64 bytes, where
    `struct.pack('<Q')` ends) `BitcoinMessage.GetHash()` is the double SHA-256 of
    CompactSize-prefixed magic ‖ CompactSize-prefixed message; no exception -/
theorem msg_digest_eq_spec (magic msg : Bytes) (hm : magic.length < 2 ^ 64) (hl : msg.length < 2 ^ 64) :
    Model.Keys.msgDigest magic msg = .ok (Spec.Keys.msgDigest magic msg) := by
  unfold Model.Keys.msgDigest Model.Keys.msgSerialize Spec.Keys.msgDigest
  rw [serBytes_eq_varBytes _ hm, serBytes_eq_varBytes _ hl]
  rfl

/-- text level: `BitcoinMessage(text).GetHash()` with the default magic hashes the UTF-8 bytes of the text -/
theorem msg_digest_text (text : String) (hl : text.toUTF8.toList.length < 2 ^ 64) :
    Model.Keys.msgDigestText text = .ok (Spec.Keys.msgDigest Spec.Keys.messageMagic text.toUTF8.toList) := by
  unfold Model.Keys.msgDigestText
  exact msg_digest_eq_spec _ _ (by decide +kernel) hl

/-- the default magic is the 24 bytes of "Bitcoin Signed Message:\n", so its prefix is the single byte 0x18 -/
theorem magic_prefix : Spec.Wire.varBytes Spec.Keys.messageMagic = 0x18 :: Spec.Keys.messageMagic := by
  decide +kernel

/-- beyond 2^64 bytes the length no longer fits `'<Q'`: struct.error, not a wrong digest -/
theorem msg_digest_too_long (magic msg : Bytes) (hm : magic.length < 2 ^ 64) (hl : 2 ^ 64 ≤ msg.length) :
    Model.Keys.msgDigest magic msg = .error structError := by
  unfold Model.Keys.msgDigest Model.Keys.msgSerialize
  rw [serBytes_eq_varBytes _ hm]
  unfold Model.Wire.serBytes Model.Wire.serVarInt Model.Wire.packU
  have h1 : ¬ msg.length < 0xfd := by omega
  have h2 : ¬ msg.length ≤ 0xffff := by omega
  have h3 : ¬ msg.length ≤ 0xffffffff := by omega
  have h4 : ¬ msg.length < 256 ^ 8 := by omega
  simp [h1, h2, h3, h4, bind, Except.bind, Except.map]

/-! ### header byte of compact signatures -/

/-- `SignMessage` writes the header Bitcoin Core prescribes -/
theorem headerByte_eq_spec (recid : Nat) (c : Bool) :
    Model.Keys.headerByte recid c = Spec.Keys.headerByte recid c := by
  cases c <;> simp [Model.Keys.headerByte, Spec.Keys.headerByte]

/-- for the four recovery ids the header byte is in 27..34 -/
theorem header_range (recid : Nat) (c : Bool) (h : recid < 4) :
    27 ≤ Model.Keys.headerByte recid c ∧ Model.Keys.headerByte recid c ≤ 34 := by
  cases c <;> simp [Model.Keys.headerByte] <;> omega

/-- `header_roundtrip`: `recover_compact` reads back exactly the recovery id and compression flag that
    `SignMessage` encoded, for recid ∈ 0..3 and both compressions -/
theorem header_roundtrip (recid : Nat) (c : Bool) (h : recid < 4) :
    Model.Keys.headerDecode (Model.Keys.headerByte recid c) = (recid, c) := by
  have h' : recid = 0 ∨ recid = 1 ∨ recid = 2 ∨ recid = 3 := by omega
  rcases h' with rfl | rfl | rfl | rfl <;> cases c <;> decide

/-- on the range 27..34 the decoding in `recover_compact` is Bitcoin Core's -/
theorem headerDecode_eq_spec (h : Nat) (p : Nat × Bool) (hs : Spec.Keys.headerDecode h = some p) :
    Model.Keys.headerDecode h = p := by
  unfold Spec.Keys.headerDecode at hs
  by_cases hr : 27 ≤ h ∧ h ≤ 34
  · simp only [hr, and_self, if_true, Option.some.injEq] at hs
    rw [← hs]
    obtain ⟨h1, h2⟩ := hr
    have : h = 27 ∨ h = 28 ∨ h = 29 ∨ h = 30 ∨ h = 31 ∨ h = 32 ∨ h = 33 ∨ h = 34 := by omega
    rcases this with rfl | rfl | rfl | rfl | rfl | rfl | rfl | rfl <;> decide
  · simp [hr] at hs

/-- every header in 27..34 is the header of exactly one (recid, compression) pair -/
theorem header_decode_encode (h : Nat) (h1 : 27 ≤ h) (h2 : h ≤ 34) :
    Model.Keys.headerByte (Model.Keys.headerDecode h).1 (Model.Keys.headerDecode h).2 = h := by
  have : h = 27 ∨ h = 28 ∨ h = 29 ∨ h = 30 ∨ h = 31 ∨ h = 32 ∨ h = 33 ∨ h = 34 := by omega
  rcases this with rfl | rfl | rfl | rfl | rfl | rfl | rfl | rfl <;> decide

/-! ### `recover_compact`, `VerifyMessage` -/

/-- a compact signature must be exactly 65 bytes -/
theorem recoverCompact_length (hash sig : Bytes) (h : sig.length ≠ 65) :
    Model.Keys.recoverCompact hash sig = .error .valueerr := by
  simp [Model.Keys.recoverCompact, h]

/-- `VerifyMessage` answers true only when a key was recovered from (digest, signature), that key's
    Hash160 is the address payload and the address carries the chain's P2PKH version byte -/
theorem verify_true_only_if (cv av : Nat) (payload magic msg sig : Bytes)
    (h : Model.Keys.verifyMessage cv av payload magic msg sig = .ok true) :
    ∃ digest pk, Model.Keys.msgDigest magic msg = .ok digest ∧
      Model.Keys.recoverCompact digest sig = .ok (some pk) ∧
      hash160 pk = payload ∧ cv = av := by
  unfold Model.Keys.verifyMessage at h
  cases hd : Model.Keys.msgDigest magic msg with
  | error e => simp [hd, bind, Except.bind] at h
  | ok digest =>
    cases hr : Model.Keys.recoverCompact digest sig with
    | error e => simp [hd, hr, bind, Except.bind] at h
    | ok o =>
      cases o with
      | none => simp [hd, hr, bind, Except.bind, throw, throwThe, MonadExceptOf.throw] at h
      | some pk =>
        refine ⟨digest, pk, rfl, hr, ?_⟩
        simp only [hd, hr, bind, Except.bind] at h
        cases hdec : Secp256k1.decode pk with
        | none => simp [hdec, throw, throwThe, MonadExceptOf.throw] at h
        | some P =>
          simp [hdec, pure, Except.pure, Model.Keys.p2pkhPayload] at h
          exact ⟨h.2, h.1⟩

/-- … and conversely it answers true whenever those hold and the key decodes (no further condition) -/
theorem verify_true_if (cv : Nat) (magic msg sig digest pk : Bytes) (P : Secp256k1.Point)
    (hd : Model.Keys.msgDigest magic msg = .ok digest)
    (hr : Model.Keys.recoverCompact digest sig = .ok (some pk)) (hdec : Secp256k1.decode pk = some P) :
    Model.Keys.verifyMessage cv cv (hash160 pk) magic msg sig = .ok true := by
  unfold Model.Keys.verifyMessage
  simp [hd, hr, hdec, bind, Except.bind, pure, Except.pure, Model.Keys.p2pkhPayload]

/-- for any other payload or any other version byte the answer is false (not an exception) -/
theorem verify_false_other (cv av : Nat) (payload magic msg sig digest pk : Bytes) (P : Secp256k1.Point)
    (hd : Model.Keys.msgDigest magic msg = .ok digest)
    (hr : Model.Keys.recoverCompact digest sig = .ok (some pk)) (hdec : Secp256k1.decode pk = some P)
    (hne : cv ≠ av ∨ hash160 pk ≠ payload) :
    Model.Keys.verifyMessage cv av payload magic msg sig = .ok false := by
  unfold Model.Keys.verifyMessage
  simp [hd, hr, hdec, bind, Except.bind, pure, Except.pure, Model.Keys.p2pkhPayload]
  intro h
  rcases hne with h1 | h1
  · exact absurd h h1
  · exact h1

/-! ### non-vacuity -/

example : Model.Keys.headerDecode 31 = (0, true) := by decide
example : Model.Keys.headerDecode 30 = (3, false) := by decide
example : Spec.Keys.headerDecode 35 = none := by decide
/-- outside 27..34 `recover_compact` does not reject: it reduces the header mod 8 (Core rejects) -/
example : Model.Keys.headerDecode 35 = (0, false) ∧ Model.Keys.headerDecode 0 = (1, true) := by decide
example : Spec.Keys.messageMagic.length = 24 := by decide +kernel

end BtcVerif.C14
