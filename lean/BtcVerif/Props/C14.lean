/-
  C14 — signed messages: property theorems.
-/
import BtcVerif.Model.Keys

namespace BtcVerif.C14
open BtcVerif

end BtcVerif.C14
