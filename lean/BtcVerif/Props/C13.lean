/-
  C13 — keys, WIF, ECDSA: property theorems.

  The elliptic-curve arithmetic of python-bitcoinlib runs inside OpenSSL; what the library itself
  computes is the glue modelled in Model/Keys.lean.  The theorems below are about that glue
  (`Model.Keys.*`) against the reference definitions (`Spec.Keys.*`, `Crypto.Secp256k1.der*`); the
  reference curve itself is only guarded by the kernel-checked constants in the first section.
  OpenSSL's behaviour enters as the contracts written in Model/Keys.lean and is covered by the
  correspondence runs (T2) only.
-/
import BtcVerif.Crypto.Secp256k1
import BtcVerif.Model.Keys
import BtcVerif.Proofs.Der
import BtcVerif.Proofs.Keys
import BtcVerif.Proofs.Ecdsa
import BtcVerif.Proofs.Sec1

namespace BtcVerif.C13
open BtcVerif.Crypto

/-! ### kernel sanity checks guarding the curve constants (SEC 2 v2 §2.4.1) -/

/-- the field prime literal is 2^256 − 2^32 − 2^9 − 2^8 − 2^7 − 2^6 − 2^4 − 1 -/
theorem p_eq : Secp256k1.p = 2 ^ 256 - 2 ^ 32 - 977 := by decide +kernel

theorem p_eq_sec2 : Secp256k1.p = 2 ^ 256 - 2 ^ 32 - 2 ^ 9 - 2 ^ 8 - 2 ^ 7 - 2 ^ 6 - 2 ^ 4 - 1 := by
  decide +kernel

/-- the group order literal, written as its distance from 2^256 -/
theorem n_eq : Secp256k1.n = 2 ^ 256 - 0x14551231950B75FC4402DA1732FC9BEBF := by decide +kernel

/-- n < p < 2^256 and n is within 2^129 of 2^256 (so every x-coordinate is < 2n: recid ∈ 0..3 suffices) -/
theorem n_lt_p : Secp256k1.n < Secp256k1.p ∧ Secp256k1.p < 2 ^ 256 ∧ Secp256k1.p < 2 * Secp256k1.n := by
  decide +kernel

/-- p ≡ 3 (mod 4): square roots are `a^((p+1)/4)` -/
theorem p_mod_4 : Secp256k1.p % 4 = 3 := by decide +kernel

/-- the generator satisfies y² = x³ + 7 (mod p) with canonical coordinates -/
theorem G_on_curve :
    Secp256k1.Gx < Secp256k1.p ∧ Secp256k1.Gy < Secp256k1.p ∧
    (Secp256k1.Gy * Secp256k1.Gy) % Secp256k1.p =
      (Secp256k1.Gx * Secp256k1.Gx * Secp256k1.Gx + 7) % Secp256k1.p := by decide +kernel

theorem G_onCurve : Secp256k1.onCurve Secp256k1.G = true := by decide +kernel

/-- the executable scalar multiplication sends G to infinity after exactly `n` steps … -/
theorem n_mul_G : Secp256k1.mul Secp256k1.n Secp256k1.G = .inf := by decide +kernel

/-- … and not before in the obvious places: (n−1)·G = −G ≠ ∞, 2·G = G + G ≠ ∞ -/
theorem n_pred_mul_G : Secp256k1.mul (Secp256k1.n - 1) Secp256k1.G = Secp256k1.neg Secp256k1.G := by
  decide +kernel

theorem two_mul_G :
    Secp256k1.mul 2 Secp256k1.G = Secp256k1.add Secp256k1.G Secp256k1.G ∧
    Secp256k1.onCurve (Secp256k1.mul 2 Secp256k1.G) = true ∧
    Secp256k1.mul 2 Secp256k1.G ≠ .inf := by decide +kernel

/-! ### strict DER -/

open Secp256k1 in
/-- `der_roundtrip`: strict decoding inverts encoding for all r, s below 2^256 (in particular for every
    ECDSA signature over secp256k1, and for the out-of-range values 0, n, … of the verification matrix) -/
theorem der_roundtrip (r s : Nat) (hr : r < 2 ^ 256) (hs : s < 2 ^ 256) :
    derDecodeStrict (derEncode r s) = some (r, s) := by
  have h1 := derIntBody_length_le 32 r (by simpa using hr)
  have h2 := derIntBody_length_le 32 s (by simpa using hs)
  exact derDecodeStrict_derEncode_of_len r s (by omega)

open Secp256k1 in
/-- `der_strict`: the strict decoder accepts only the canonical encoding — whatever it accepts is,
    byte for byte, the encoding of the pair it returns (no alternative lengths, paddings, trailing bytes) -/
theorem der_strict (sig : Bytes) (r s : Nat) (h : derDecodeStrict sig = some (r, s)) :
    sig = derEncode r s := (derDecodeStrict_inv sig r s h).1

open Secp256k1 in
/-- encodings of different pairs differ (so a signature has exactly one strict DER form) -/
theorem derEncode_injective (r s r' s' : Nat) (hr : r < 2 ^ 256) (hs : s < 2 ^ 256)
    (h : derEncode r s = derEncode r' s') : r = r' ∧ s = s' := by
  have h1 := der_roundtrip r s hr hs
  have l1 := derIntBody_length_le 32 r (by simpa using hr)
  have l2 := derIntBody_length_le 32 s (by simpa using hs)
  have hlen := congrArg List.length h
  rw [derEncode_length, derEncode_length] at hlen
  have h2 := derDecodeStrict_derEncode_of_len r' s' (by omega)
  rw [h, h2] at h1
  simp at h1
  exact ⟨h1.1.symm, h1.2.symm⟩

/-! ### `CompareBigEndian`, `IsLowDERSignature` -/

/-- `CompareBigEndian(c1, c2)` has the sign of `int(c1) − int(c2)` (big-endian), whatever the two lengths -/
theorem compareBigEndian_sign (c1 c2 : Bytes) :
    (0 < Model.Keys.compareBigEndian c1 c2 ↔ beNat c2 < beNat c1) ∧
    (Model.Keys.compareBigEndian c1 c2 = 0 ↔ beNat c1 = beNat c2) ∧
    (Model.Keys.compareBigEndian c1 c2 < 0 ↔ beNat c1 < beNat c2) := compareBigEndian_spec c1 c2

/-- the function-local table of `IsLowDERSignature` is ⌊n/2⌋ -/
theorem maxModHalfOrder_eq : beNat Model.Keys.maxModHalfOrder = Spec.Keys.halfOrder := beNat_maxModHalfOrder

/-- `isLowDer_iff` (encoder form): on the strict DER encoding of any r, s < 2^256 the function raises
    nothing and answers exactly `0 < s ≤ n/2` -/
theorem isLowDer_iff_encode (r s : Nat) (hr : r < 2 ^ 256) (hs : s < 2 ^ 256) :
    Model.Keys.isLowDERSignature (Secp256k1.derEncode r s) = .ok (decide (Spec.Keys.LowS s)) := by
  have h1 := derIntBody_length_le 32 r (by simpa using hr)
  have h2 := derIntBody_length_le 32 s (by simpa using hs)
  exact isLowDER_derEncode r s (by omega)

/-- `isLowDer_iff`: on every strictly DER-encoded signature, `IsLowDERSignature` raises nothing and
    returns true exactly when `0 < s ≤ n/2` -/
theorem isLowDer_iff (sig : Bytes) (r s : Nat) (h : Secp256k1.derDecodeStrict sig = some (r, s)) :
    Model.Keys.isLowDERSignature sig = .ok (decide (0 < s ∧ s ≤ Secp256k1.n / 2)) := by
  obtain ⟨e, hl⟩ := derDecodeStrict_inv sig r s h
  rw [e]
  exact isLowDER_derEncode r s hl

/-! ### low-S normalisation -/

theorem n_odd : Secp256k1.n % 2 = 1 := by decide +kernel

/-- `lowS_spec`: for 0 < s < n the normal form is `s` or `n − s`, is low, and is a fixed point;
    both members of a twin pair have the same normal form -/
theorem lowS_spec (s : Nat) (h0 : 0 < s) (hn : s < Secp256k1.n) :
    (Spec.Keys.lowS s = s ∨ Spec.Keys.lowS s = Secp256k1.n - s) ∧
    Spec.Keys.LowS (Spec.Keys.lowS s) ∧
    Spec.Keys.lowS (Spec.Keys.lowS s) = Spec.Keys.lowS s ∧
    Spec.Keys.lowS (Secp256k1.n - s) = Spec.Keys.lowS s ∧
    (Spec.Keys.LowS s → Spec.Keys.lowS s = s) := by
  have := n_odd
  unfold Spec.Keys.lowS Spec.Keys.LowS Spec.Keys.halfOrder Spec.Keys.n
  refine ⟨?_, ?_, ?_, ?_, ?_⟩ <;> (repeat' split) <;> omega

/-- `signatureToLowS_spec`: for ANY implementation of the three OpenSSL calls with `d2i sig = (r, s)`,
    `s ≤ n`, the order of secp256k1 and an encoder that writes at least one byte, the steps of
    `signature_to_low_s` (`BN_rshift1`, `BN_cmp … > 0`, `BN_sub`, `i2d`, the `derlen == 0` test) return the
    encoding of `(r, lowS s)` — not `None`, no exception.  (For `s = n` that is `(r, 0)`.) -/
theorem signatureToLowS_spec (C : Model.Keys.SigCodec) (sig : Bytes) (r s : Nat)
    (hd : C.d2i sig = some (r, s)) (hs : s ≤ Secp256k1.n) (ho : C.order = Secp256k1.n)
    (hi : ∀ r s, (C.i2d r s).length ≠ 0) :
    Model.Keys.signatureToLowSWith C sig = .ok (some (C.i2d r (Spec.Keys.lowS s))) := by
  unfold Model.Keys.signatureToLowSWith Spec.Keys.lowS Spec.Keys.halfOrder Spec.Keys.n
  rw [hd]
  have hh : Secp256k1.n >>> 1 = Secp256k1.n / 2 := by rw [Nat.shiftRight_eq_div_pow]
  have hng : ¬ (s > Secp256k1.n / 2 ∧ s > Secp256k1.n) := by omega
  simp only [ho, hh, hi, hng, if_false]

/-- above the order the subtraction goes negative and the code ends in a ValueError (from
    `create_string_buffer(-1)`); off the `sign` domain, mirrored so that the model is not silently total -/
theorem signatureToLowS_above_order (C : Model.Keys.SigCodec) (sig : Bytes) (r s : Nat)
    (hd : C.d2i sig = some (r, s)) (hs : Secp256k1.n < s) (ho : C.order = Secp256k1.n) :
    Model.Keys.signatureToLowSWith C sig = .error .valueerr := by
  unfold Model.Keys.signatureToLowSWith
  rw [hd]
  have hh : Secp256k1.n >>> 1 = Secp256k1.n / 2 := by rw [Nat.shiftRight_eq_div_pow]
  have hg : s > Secp256k1.n / 2 ∧ s > Secp256k1.n := by omega
  simp only [ho, hh, hg, and_self, if_true]

/-- under the contract the library is used with (strict DER both ways): the strict DER encoding of
    `(r, lowS s)` -/
theorem signatureToLowS_reference (sig : Bytes) (r s : Nat) (h : Secp256k1.derDecodeStrict sig = some (r, s))
    (hs : s ≤ Secp256k1.n) :
    Model.Keys.signatureToLowS sig = .ok (some (Secp256k1.derEncode r (Spec.Keys.lowS s))) :=
  signatureToLowS_spec Model.Keys.SigCodec.reference sig r s h hs rfl
    (fun r s => by show (Secp256k1.derEncode r s).length ≠ 0; rw [derEncode_length]; omega)

/-- nothing parsed: the code goes on to `BN_cmp` with a NULL operand — recorded as a crash outcome, not
    totalised (off the domain: `sign` only passes what `ECDSA_sign` wrote) -/
theorem signatureToLowS_unparsed (C : Model.Keys.SigCodec) (sig : Bytes) (hd : C.d2i sig = none) :
    Model.Keys.signatureToLowSWith C sig = .error (.py "SIGSEGV") := by
  simp [Model.Keys.signatureToLowSWith, hd]

/-- `sign_spec`: whatever strict DER signature `(r, s)` with r < 2^256, 0 < s < n `ECDSA_sign` returns,
    `CECKey.sign` returns a strict DER signature of `(r, s')` with `s' ∈ {s, n − s}` low — no
    exception, never `None` — and `IsLowDERSignature` holds of the result -/
theorem sign_spec (hash raw : Bytes) (r s : Nat) (hh : hash.length = 32)
    (hraw : Secp256k1.derDecodeStrict raw = some (r, s)) (hr : r < 2 ^ 256) (h0 : 0 < s) (hn : s < Secp256k1.n) :
    ∃ out, Model.Keys.signFinish hash raw = .ok (some out) ∧
      Secp256k1.derDecodeStrict out = some (r, Spec.Keys.lowS s) ∧
      Spec.Keys.LowS (Spec.Keys.lowS s) ∧
      Model.Keys.isLowDERSignature out = .ok true := by
  obtain ⟨hor, hlow, _, _, hfix⟩ := lowS_spec s h0 hn
  have hn256 : Secp256k1.n < 2 ^ 256 := by decide +kernel
  have hls : Spec.Keys.lowS s < 2 ^ 256 := by rcases hor with e | e <;> rw [e] <;> omega
  refine ⟨Secp256k1.derEncode r (Spec.Keys.lowS s), ?_, der_roundtrip _ _ hr hls, hlow, ?_⟩
  · unfold Model.Keys.signFinish
    simp only [hh, ne_eq, not_true_eq_false, if_false]
    rw [isLowDer_iff raw r s hraw]
    by_cases hl : 0 < s ∧ s ≤ Secp256k1.n / 2
    · have e := der_strict raw r s hraw
      have : Spec.Keys.lowS s = s := hfix hl
      simp [hl, this, e, bind, Except.bind, pure, Except.pure]
    · simp [hl, bind, Except.bind, signatureToLowS_reference raw r s hraw (by omega)]
  · rw [isLowDer_iff_encode r _ hr hls]
    simp [hlow]

/-- a digest that is not 32 bytes long is refused with ValueError before anything is signed -/
theorem sign_hash_length (hash raw : Bytes) (hh : hash.length ≠ 32) :
    Model.Keys.signFinish hash raw = .error .valueerr := by
  simp [Model.Keys.signFinish, hh]

/-! ### WIF payload -/

/-- DEFINITIONAL (`rfl`): the model's payload function is the same term as the Spec's `secret ‖ 01?`;
    recorded only so that the name exists — that the library builds this payload is T2 (`c13.key`) -/
theorem wifPayload_eq_spec (secret : Bytes) (c : Bool) :
    Model.Keys.wifPayload secret c = Spec.Keys.wifPayload secret c := rfl

/-- `wif_roundtrip` (payload level): under every version byte, parsing the payload built from a
    32-byte secret and a compression flag gives both back — hence the same public key -/
theorem wif_roundtrip (ver : Nat) (secret : Bytes) (c : Bool) (h : secret.length = 32) :
    Model.Keys.wifParse ver ver (Model.Keys.wifPayload secret c) = .ok (secret, c) := by
  unfold Model.Keys.wifParse Model.Keys.wifPayload
  have ht : List.take 32 (secret ++ if c = true then [1] else []) = secret := by
    rw [← h]; simp
  simp only [ne_eq, not_true_eq_false, if_false, ht, h]
  cases c <;> simp [h]

/-- in particular under the four chains' SECRET_KEY prefixes -/
theorem wif_roundtrip_chains (p : Spec.ChainParams) (_hp : p ∈ Spec.chainTable) (secret : Bytes) (c : Bool)
    (h : secret.length = 32) :
    Model.Keys.wifParse p.secretKey p.secretKey (Model.Keys.wifPayload secret c) = .ok (secret, c) :=
  wif_roundtrip p.secretKey secret c h

/-- a WIF string of another version byte (another chain, an address) is refused with a Base58 error -/
theorem wif_wrong_version (chainVer ver : Nat) (payload : Bytes) (h : ver ≠ chainVer) :
    Model.Keys.wifParse chainVer ver payload = .error .b58err := by
  simp [Model.Keys.wifParse, h]

/-- DEFINITIONAL (`rfl`): `pubOfSecret` *is* the reference `secret·G` encoding — this states the OpenSSL
    contract of Model/Keys.lean, it proves nothing about the library; "public key = k·G" is T2 only -/
theorem pub_eq_reference (secret : Bytes) (c : Bool) :
    Model.Keys.pubOfSecret secret c = Secp256k1.encode (Secp256k1.mul (beNat secret) Secp256k1.G) c := rfl

/-- for every secret whose point is not the point at infinity, `is_compressed` (= `len(pub) == 33`) is
    the flag the key was built with, and the key is "fully valid" in the library's sense only if … see
    `o15_infinity_key` for the exception -/
theorem isCompressed_of_affine (secret : Bytes) (c : Bool) (x y : Nat)
    (h : Secp256k1.mulG (beNat secret) = .aff x y) :
    Model.Keys.isCompressed (Model.Keys.pubOfSecret secret c) = c := by
  unfold Model.Keys.isCompressed Model.Keys.pubOfSecret Secp256k1.pubkeyOf
  rw [h]
  cases c <;> simp [Secp256k1.encode, be32_length]

/-- **Observation O15 (outside the property's domain [1, n−1] / 33-or-65 bytes).**  The secret 0 (and,
    by `n_mul_G`, the secret n) is accepted silently: the "public key" is the one-byte infinity encoding
    `00`, the library reports it fully valid (OpenSSL parses `00`), and `is_compressed` is false whatever
    flag was asked for — so the WIF round trip of such a secret flips the compression flag. -/
theorem o15_infinity_key (c : Bool) :
    Model.Keys.pubOfSecret (List.replicate 32 0) c = [0] ∧
    Model.Keys.pubOfSecret (beBytes 32 Secp256k1.n) c = [0] ∧
    Model.Keys.isFullyValid [0] = true ∧ Model.Keys.isCompressed [0] = false ∧
    Secp256k1.decode [0] = none := by
  cases c <;> decide +kernel

/-! ### SEC 1 public-key strings: what the reference `decode` (the Spec of `is_fullyvalid`) accepts -/

/-- `decode_encode_point` (uncompressed form): decoding the 65-byte encoding of an affine point that
    satisfies y² = x³ + 7 with canonical coordinates returns the point -/
theorem decode_encode_point (x y : Nat) (h : Secp256k1.onCurveXY x y = true) :
    Secp256k1.decode (Secp256k1.encode (.aff x y) false) = some (.aff x y) :=
  decode_encode_uncompressed x y h

/-- `decode_some_iff`, tags 04 / 06 / 07: accepted exactly when 64 coordinate bytes follow, the
    coordinates are canonical and satisfy the curve equation, and for the hybrid tags the parity of y is
    the tag's; the result is that point -/
theorem decode_some_iff_uncompressed (tag : UInt8) (body : Bytes) (P : Secp256k1.Point)
    (ht : tag.toNat = 4 ∨ tag.toNat = 6 ∨ tag.toNat = 7) :
    Secp256k1.decode (tag :: body) = some P ↔
      body.length = 64 ∧ P = .aff (beNat (body.take 32)) (beNat (body.drop 32)) ∧
      Secp256k1.onCurve P = true ∧ (tag.toNat = 4 ∨ ((beNat (body.drop 32)) % 2 = 1 ↔ tag.toNat = 7)) :=
  decode_uncompressed_iff tag body P ht

/-- tags 02 / 03, soundness: an accepted string has 32 abscissa bytes and the result is a point with that
    abscissa on the curve whose ordinate parity is the tag's … -/
theorem decode_compressed_sound (tag : UInt8) (body : Bytes) (P : Secp256k1.Point)
    (ht : tag.toNat = 2 ∨ tag.toNat = 3) (h : Secp256k1.decode (tag :: body) = some P) :
    body.length = 32 ∧ ∃ y, P = .aff (beNat body) y ∧ Secp256k1.onCurve P = true ∧ (y % 2 = 1 ↔ tag.toNat = 3) :=
  BtcVerif.decode_compressed_sound tag body P ht h

/-- … and it is the compressed encoding of that point: accepted strings are encodings of curve points -/
theorem encode_decode_compressed (tag : UInt8) (body : Bytes) (P : Secp256k1.Point)
    (ht : tag.toNat = 2 ∨ tag.toNat = 3) (h : Secp256k1.decode (tag :: body) = some P) :
    Secp256k1.encode P true = tag :: body :=
  BtcVerif.encode_decode_compressed tag body P ht h

/-- no other first byte and no empty string is accepted -/
theorem decode_bad_tag (bs : Bytes) (h : ∀ tag body, bs = tag :: body → tag.toNat ∉ [2, 3, 4, 6, 7]) :
    Secp256k1.decode bs = none := by
  cases bs with
  | nil => rfl
  | cons tag body =>
    have := h tag body rfl
    simp at this
    obtain ⟨h2, h3, h4, h6, h7⟩ := this
    simp [Secp256k1.decode, h2, h3, h4, h6, h7]

-- UNPROVED (full statement): completeness for the compressed form,
--
--   theorem decode_encode_point_compressed (x y : Nat) (h : Secp256k1.onCurveXY x y = true) :
--       Secp256k1.decode (Secp256k1.encode (.aff x y) true) = some (.aff x y)
--   theorem decode_some_iff_compressed (tag : UInt8) (body : Bytes) (ht : tag.toNat = 2 ∨ tag.toNat = 3) :
--       (∃ P, Secp256k1.decode (tag :: body) = some P) ↔
--         body.length = 32 ∧ beNat body < Secp256k1.p ∧ ∃ y, y < Secp256k1.p ∧
--           y * y % Secp256k1.p = (beNat body * beNat body % Secp256k1.p * beNat body + 7) % Secp256k1.p
--
-- The direction "a square has the root a^((p+1)/4)" is Euler's criterion for the prime p ≡ 3 (mod 4); it
-- needs the primality of the 256-bit p and an invariant of the `powMod` loop, neither of which is
-- available here.  Soundness (above) and both directions for 04/06/07 are proved; the compressed
-- direction is covered by the correspondence run (`c13.fullyvalid`, about half of random x have no y).
--
-- UNPROVED (full statement): the twin law for the executable formulas,
--
--   theorem verify_lowS_twin_concrete (Q : Secp256k1.Point) (e r s : Nat) (hs : 0 < s ∧ s < Secp256k1.n) :
--       Secp256k1.verify Q e r s = Secp256k1.verify Q e r (Secp256k1.n - s)
--
-- x(−R) = x(R) is immediate, but the step u₁'·G + u₂'·Q = −(u₁·G + u₂·Q) for u' = n − u is the group law
-- ((n − u)·P = −(u·P) and distributivity over the Jacobian addition), which is exactly what is not
-- proved about Crypto/Secp256k1.lean.  Proved abstractly (`verify_lowS_twin`); exercised by the
-- verification matrix (variants 2 and 13 of `c13.matrix`, and `c14.verify` with the flipped-parity twin).

/-! ### ECDSA, abstractly (any prime-order module `E` over `ZMod q` with an even conversion `f`) -/

section abstract
variable {q : ℕ} [Fact q.Prime] {E : Type} [AddCommGroup E] [Module (ZMod q) E]

/-- `verify_sign`: a signature made by the signing equation verifies under the signer's key -/
theorem verify_sign (C : Ecdsa.Params q E) (d e k : ZMod q) (hR : k • C.g ≠ 0) (hr : Ecdsa.signR C k ≠ 0)
    (hs : Ecdsa.signS C d e k ≠ 0) :
    Ecdsa.Verify C (d • C.g) e (Ecdsa.signR C k) (Ecdsa.signS C d e k) := Ecdsa.verify_sign C d e k hR hr hs

/-- `verify_lowS_twin`: `(r, s)` verifies exactly when `(r, n − s)` does, so low-S normalisation
    (`lowS_spec`, `sign_spec`) never invalidates a signature and verification must accept both twins -/
theorem verify_lowS_twin (C : Ecdsa.Params q E) (Q : E) (e r s : ZMod q) :
    Ecdsa.Verify C Q e r s ↔ Ecdsa.Verify C Q e r (-s) := Ecdsa.verify_lowS_twin C Q e r s

end abstract

/-! ### non-vacuity -/

example : Secp256k1.derDecodeStrict (Secp256k1.derEncode (2 ^ 255) 1) = some (2 ^ 255, 1) := by decide +kernel
example : Secp256k1.derDecodeStrict [0x30, 0x06, 0x02, 0x01, 0x01, 0x02, 0x01, 0x01] = some (1, 1) := by decide
example : Secp256k1.derDecodeStrict [0x30, 0x07, 0x02, 0x02, 0x00, 0x01, 0x02, 0x01, 0x01] = none := by decide
example : Secp256k1.derDecodeStrict [0x30, 0x06, 0x02, 0x01, 0x01, 0x02, 0x01, 0x01, 0x00] = none := by decide
example : Model.Keys.isLowDERSignature (Secp256k1.derEncode 1 (Secp256k1.n / 2)) = .ok true := by
  rw [isLowDer_iff_encode 1 _ (by decide) (by decide +kernel)]; decide +kernel
example : Model.Keys.isLowDERSignature (Secp256k1.derEncode 1 (Secp256k1.n / 2 + 1)) = .ok false := by
  rw [isLowDer_iff_encode 1 _ (by decide) (by decide +kernel)]; decide +kernel
example : Model.Keys.isLowDERSignature [0x30, 0x06, 0x02] = .error indexError := by decide
example : Model.Keys.isLowDERSignature [0x30, 0x06, 0x02, 0x01, 0x01, 0x02, 0x05, 0x01] = .error structError := by
  decide
example : Spec.Keys.lowS (Secp256k1.n - 1) = 1 := by decide +kernel
example : Model.Keys.wifParse 128 128 (List.replicate 32 7 ++ [1]) = .ok (List.replicate 32 7, true) := by decide

end BtcVerif.C13
