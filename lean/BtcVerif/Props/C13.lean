/-
  C13 — keys, WIF, ECDSA: property theorems.
-/
import BtcVerif.Crypto.Secp256k1

namespace BtcVerif.C13
open BtcVerif.Crypto

/-! ### kernel sanity checks guarding the curve constants (SEC 2 v2 §2.4.1) -/

/-- the field prime literal is 2^256 − 2^32 − 2^9 − 2^8 − 2^7 − 2^6 − 2^4 − 1 -/
theorem p_eq : Secp256k1.p = 2 ^ 256 - 2 ^ 32 - 977 := by decide +kernel

theorem p_eq_sec2 : Secp256k1.p = 2 ^ 256 - 2 ^ 32 - 2 ^ 9 - 2 ^ 8 - 2 ^ 7 - 2 ^ 6 - 2 ^ 4 - 1 := by
  decide +kernel

/-- the group order literal, written as its distance from 2^256 -/
theorem n_eq : Secp256k1.n = 2 ^ 256 - 0x14551231950B75FC4402DA1732FC9BEBF := by decide +kernel

/-- n < p < 2^256 and n is within 2^129 of 2^256 (so every x-coordinate is < 2n: recid ∈ 0..3 suffices) -/
theorem n_lt_p : Secp256k1.n < Secp256k1.p ∧ Secp256k1.p < 2 ^ 256 ∧ Secp256k1.p < 2 * Secp256k1.n := by
  decide +kernel

/-- p ≡ 3 (mod 4): square roots are `a^((p+1)/4)` -/
theorem p_mod_4 : Secp256k1.p % 4 = 3 := by decide +kernel

/-- the generator satisfies y² = x³ + 7 (mod p) with canonical coordinates -/
theorem G_on_curve :
    Secp256k1.Gx < Secp256k1.p ∧ Secp256k1.Gy < Secp256k1.p ∧
    (Secp256k1.Gy * Secp256k1.Gy) % Secp256k1.p =
      (Secp256k1.Gx * Secp256k1.Gx * Secp256k1.Gx + 7) % Secp256k1.p := by decide +kernel

theorem G_onCurve : Secp256k1.onCurve Secp256k1.G = true := by decide +kernel

/-- the executable scalar multiplication sends G to infinity after exactly `n` steps … -/
theorem n_mul_G : Secp256k1.mul Secp256k1.n Secp256k1.G = .inf := by decide +kernel

/-- … and not before in the obvious places: (n−1)·G = −G ≠ ∞, 2·G = G + G ≠ ∞ -/
theorem n_pred_mul_G : Secp256k1.mul (Secp256k1.n - 1) Secp256k1.G = Secp256k1.neg Secp256k1.G := by
  decide +kernel

theorem two_mul_G :
    Secp256k1.mul 2 Secp256k1.G = Secp256k1.add Secp256k1.G Secp256k1.G ∧
    Secp256k1.onCurve (Secp256k1.mul 2 Secp256k1.G) = true ∧
    Secp256k1.mul 2 Secp256k1.G ≠ .inf := by decide +kernel

end BtcVerif.C13
