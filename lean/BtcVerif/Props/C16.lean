import BtcVerif.Model.BlockCheck
import BtcVerif.Spec.BlockCheck

namespace BtcVerif.C16
end BtcVerif.C16
