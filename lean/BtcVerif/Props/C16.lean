/-
  C16 — context-free transaction and block checks: property theorems.
  Statements use only Model.BlockCheck.* (mirror of the Python, with the repairs of D3/D10/D11/D12),
  Spec.BlockCheck.* (the rules of the property text) and the range predicates TxRange / BlockRange.
  Helper lemmas live in Proofs/BlockCheck.lean.  `hash256` is opaque throughout.
-/
import BtcVerif.Proofs.BlockCheck

namespace BtcVerif.C16
open BtcVerif BtcVerif.Crypto BtcVerif.Model.BlockCheck BtcVerif.Spec
open BtcVerif.Spec.Merkle (TxRange BlockRange)

/-- every digest is 32 bytes long: a fact about SHA-256 taken as an explicit hypothesis because
    `hash256` is never unfolded (the header hash is read as a 256-bit integer) -/
def HashLen : Prop := ∀ x : Bytes, (hash256 x).length = 32

/-- `GetSigOpCount(False)` (count up to the first malformed push) equals Core's
    `GetSigOpCount(false)`, for every byte string -/
theorem sigops_eq_spec (s : Bytes) : sigOpCount s = Spec.BlockCheck.sigOps s :=
  BlockCheckProofs.sigOpCount_eq s

theorem tx_sigops_eq_spec (t : Tx) : legacySigOpCount t = Spec.BlockCheck.txSigOps t :=
  BlockCheckProofs.legacySigOpCount_eq t

/-- the transaction check accepts exactly the rule-conforming transactions -/
theorem checkTx_iff (p : ChainParams) (t : Tx) (h : TxRange t) :
    checkTx p t = .ok () ↔ Spec.BlockCheck.ValidTx p t :=
  (BlockCheckProofs.decide_verdict (BlockCheckProofs.checkTx_decide p t h)).2

/-- … and every rejection is a validation error: no struct.error / IndexError / AssertionError
    outcome of the model is reachable on fields in wire range -/
theorem checkTx_reject_is_validation (p : ChainParams) (t : Tx) (h : TxRange t) :
    checkTx p t = .ok () ∨ checkTx p t = .error .validation :=
  (BlockCheckProofs.decide_verdict (BlockCheckProofs.checkTx_decide p t h)).1

/-- the duplicate-input test on the set of COutPoint (hash/eq of the serialisation) is equality of
    the pairs (hash, n) -/
theorem outpoint_key_inj (a b : OutPoint) (ha : Spec.Wire.WFOutPoint a) (hb : Spec.Wire.WFOutPoint b) :
    Model.Wire.serOutPoint a = Model.Wire.serOutPoint b ↔ (a.hash, a.n) = (b.hash, b.n) := by
  rw [SerSpec.serOutPoint_ok a ha, SerSpec.serOutPoint_ok b hb]
  constructor
  · intro h; exact (BlockCheckProofs.outPoint_inj a b ha hb).mp (Except.ok.inj h)
  · intro h; rw [(BlockCheckProofs.outPoint_inj a b ha hb).mpr h]

/-- the header check: proof of work (Core's rule, C17) and `nTime ≤ cur_time + 7200` -/
theorem checkHeader_iff (p : ChainParams) (hlim : p.powLimit < 2 ^ 256) (hH : HashLen) (h : Header)
    (hh : Spec.Wire.WFHeader h) (fPoW : Bool) (now : Int) :
    checkBlockHeader p h fPoW now = .ok () ↔ Spec.BlockCheck.ValidHeader p now fPoW h :=
  (BlockCheckProofs.decide_verdict (BlockCheckProofs.checkBlockHeader_decide p hlim hH h hh fPoW now)).2

/-- `get_witness_commitment_index` finds the LAST output whose script is ≥ 38 bytes and starts
    6a24aa21a9ed (ValueError when there is none); the index is always valid -/
theorem commitment_index_last (cb : Tx) (rest : List Tx) :
    (∀ i, witnessCommitmentIndex (cb :: rest) = .ok i →
      ∃ o, cb.vout[i]? = some o ∧ Spec.BlockCheck.commitScript? cb = some o.scriptPubKey) ∧
    (Spec.BlockCheck.commitScript? cb = none → witnessCommitmentIndex (cb :: rest) = .error .valueerr) := by
  have hres := BlockCheckProofs.commitLoop_result cb
  constructor
  · intro i hi
    unfold witnessCommitmentIndex at hi
    simp only [List.length_cons, Nat.add_one_ne_zero, if_false, List.getElem?_cons_zero] at hi
    cases hc : commitLoop cb.vout 0 none with
    | none => rw [hc] at hi; cases hi
    | some j =>
      rw [hc] at hi hres
      simp only [Except.ok.injEq] at hi
      subst hi
      obtain ⟨o, ho, hs, _⟩ := hres
      exact ⟨o, ho, hs⟩
  · intro hnone
    unfold witnessCommitmentIndex
    simp only [List.length_cons, Nat.add_one_ne_zero, if_false, List.getElem?_cons_zero]
    cases hc : commitLoop cb.vout 0 none with
    | none => rfl
    | some j =>
      rw [hc] at hres
      obtain ⟨o, _, hs, _⟩ := hres
      rw [hnone] at hs; cases hs

/-- the block check accepts exactly the rule-conforming blocks (both switches general; the
    property's statement is `fPoW = fMerkle = true`) -/
theorem checkBlock_iff (p : ChainParams) (hlim : p.powLimit < 2 ^ 256) (hH : HashLen) (b : Block)
    (hb : BlockRange b) (fPoW fMerkle : Bool) (now : Int) :
    checkBlock p b fPoW fMerkle now = .ok () ↔ Spec.BlockCheck.ValidBlock p now fPoW fMerkle b :=
  (BlockCheckProofs.decide_verdict (BlockCheckProofs.checkBlock_decide p hlim hH b hb fPoW fMerkle now)).2

/-- every rejection is signalled by the validation-error family: on blocks with fields in wire
    range none of the model's `py` outcomes (IndexError at `vtx[0]`, `vtxinwit[0]`, `stack[0]`,
    `vout[index]`, `tree[-1]`; struct.error / AssertionError of the serialisers) is reachable -/
theorem reject_is_validation (p : ChainParams) (hlim : p.powLimit < 2 ^ 256) (hH : HashLen) (b : Block)
    (hb : BlockRange b) (fPoW fMerkle : Bool) (now : Int) :
    checkBlock p b fPoW fMerkle now = .ok () ∨ checkBlock p b fPoW fMerkle now = .error .validation :=
  (BlockCheckProofs.decide_verdict (BlockCheckProofs.checkBlock_decide p hlim hH b hb fPoW fMerkle now)).1

/-- the Spec's coinbase, spelled out on the fields: exactly one input, whose outpoint is 32 zero bytes
    with index 2³² − 1; the Python-mirroring helper `Tx.isCoinbase` (what the model calls) decides it -/
theorem isCoinbase_char (t : Tx) :
    (Spec.BlockCheck.IsCoinbase t ↔
      ∃ i, t.vin = [i] ∧ i.prevout.hash = List.replicate 32 0 ∧ i.prevout.n = 0xffffffff) ∧
    (t.isCoinbase = true ↔ Spec.BlockCheck.IsCoinbase t) := by
  refine ⟨?_, BlockCheckProofs.isCoinbase_iff t⟩
  unfold Spec.BlockCheck.IsCoinbase Spec.BlockCheck.NullOutPoint Spec.Merkle.zero32
  rcases t.vin with _ | ⟨i, _ | ⟨j, r⟩⟩
  · simp
  · simp
  · simp

/-- switching a flag off never turns acceptance into rejection -/
theorem checkBlock_mono_flags (p : ChainParams) (hlim : p.powLimit < 2 ^ 256) (hH : HashLen) (b : Block)
    (hb : BlockRange b) (f g f' g' : Bool) (now : Int) (hf : f' = true → f = true) (hg : g' = true → g = true)
    (h : checkBlock p b f g now = .ok ()) : checkBlock p b f' g' now = .ok () := by
  rw [checkBlock_iff p hlim hH b hb] at h ⊢
  obtain ⟨h1, h2, h3, h4, h5, h6, h7, h8, h9, h10⟩ := h
  exact ⟨fun hh => h1 (hf hh), h2, h3, h4, h5, h6, h7, h8, h9, fun hh => h10 (hg hh)⟩

/-- CVE-2012-2459 at the block level: the block obtained by repeating the last transaction has (for an
    odd count > 1) the same merkle root (`C15.merkle_mutation_cve`) but is never valid — the txid
    uniqueness rule rejects it -/
theorem mutated_block_invalid (p : ChainParams) (now : Int) (f g : Bool) (b : Block) (l : List Tx) (t : Tx)
    (hv : b.vtx = l ++ [t] ++ [t]) : ¬ Spec.BlockCheck.ValidBlock p now f g b := by
  intro h
  have hn := h.2.2.2.2.2.2.2.1
  rw [hv] at hn
  simp [List.nodup_append] at hn

/-- the work limit of each of the four chains is a 256-bit number -/
theorem chain_limits : ∀ p ∈ Spec.chainTable, p.powLimit < 2 ^ 256 := by decide

/-! ### non-vacuity -/

def exCoinbase (scriptLen : Nat) : Tx :=
  { nVersion := 1,
    vin := [{ prevout := { hash := List.replicate 32 0, n := 0xffffffff },
              scriptSig := List.replicate scriptLen 7, nSequence := 0xffffffff }],
    vout := [{ nValue := 5000000000, scriptPubKey := [0x51] }],
    wit := [], nLockTime := 0 }

def exTx : Tx :=
  { nVersion := 2,
    vin := [{ prevout := { hash := List.replicate 32 7, n := 1 }, scriptSig := [0x51], nSequence := 0 },
            { prevout := { hash := List.replicate 32 7, n := 2 }, scriptSig := [], nSequence := 5 }],
    vout := [{ nValue := 2100000000000000 - 5, scriptPubKey := [0xac] }, { nValue := 5, scriptPubKey := [] }],
    wit := [[[1, 2, 3]], []], nLockTime := 0 }

def exBlock : Block :=
  { hdr := { nVersion := 2, hashPrevBlock := List.replicate 32 1, hashMerkleRoot := List.replicate 32 2,
             nTime := 1700000000, nBits := 0x207fffff, nNonce := 0 },
    vtx := [exCoinbase 2, exTx] }

example : TxRange exTx := by decide
example : BlockRange exBlock := by decide
example : (exCoinbase 2).isCoinbase = true ∧ exTx.isCoinbase = false := by decide
/-- both sides of the coinbase-script bound and of the money bound -/
example : Spec.BlockCheck.ValidTx Spec.regtest (exCoinbase 2) := by decide
set_option maxRecDepth 20000 in
example : Spec.BlockCheck.ValidTx Spec.regtest (exCoinbase 100) := by decide
example : ¬ Spec.BlockCheck.ValidTx Spec.regtest (exCoinbase 1) := by decide
set_option maxRecDepth 20000 in
example : ¬ Spec.BlockCheck.ValidTx Spec.regtest (exCoinbase 101) := by decide
example : Spec.BlockCheck.ValidTx Spec.mainnet exTx := by decide
set_option maxRecDepth 20000 in
example : ¬ Spec.BlockCheck.ValidTx Spec.mainnet
    { exTx with vout := exTx.vout ++ [{ nValue := 1, scriptPubKey := [] }] } := by decide
example : checkTx Spec.mainnet exTx = .ok () := (checkTx_iff _ _ (by decide)).mpr (by decide)
/-- D10 in the model: a block whose coinbase has a 1-byte script is rejected with a validation
    error, whatever the switches, the clock and the hashes -/
example (hH : HashLen) (f g : Bool) (now : Int) :
    checkBlock Spec.regtest { exBlock with vtx := [exCoinbase 1, exTx] } f g now = .error .validation := by
  have hb : BlockRange { exBlock with vtx := [exCoinbase 1, exTx] } := by decide
  rcases reject_is_validation Spec.regtest (by decide) hH _ hb f g now with h | h
  · have := (checkBlock_iff Spec.regtest (by decide) hH _ hb f g now).mp h
    exact absurd (this.2.2.2.2.2.2.1 (exCoinbase 1) (by simp)) (by decide)
  · exact h
example : Spec.BlockCheck.sigOps [0xac, 0x05, 0x61, 0x62] = 1 := by
  simp [Spec.BlockCheck.sigOps, Spec.BlockCheck.getOp, Spec.BlockCheck.opSigOps]

end BtcVerif.C16
