/-
  C11 — Bech32 segwit addresses: BIP173 codec and guaranteed corruption detection.  Property theorems.

  `Model.Bech32.*` mirrors bitcoin/segwit_addr.py and bitcoin/bech32.py; `Spec.Bech32.*` is BIP173
  (validity predicate `Decodes` / `ValidSegwit`, reference encoding `encodeAddr`, checksum function).
  Helper lemmas live in Proofs/Bech32{Code,Code4,Bits,Str,Addr,Detect,Bch,Case}.lean and
  Proofs/Bech32Code4Shards/ (the kernel-evaluated exhaustive check behind `detects_le4`).
  Strings are lists of code points.  `hamming a b` counts the positions at which two strings differ;
  `substitute s subs` applies character substitutions; corruption is measured on the lowercase form
  (BIP173: "the lowercase form is used when determining a character's value"), a pure change of letter
  case being the business of `mixed_case_rejected`.

  What is and is not proved about corruption: the BCH code guarantees detection of up to four
  character SUBSTITUTIONS (`detects_le2`, `detects_le4`, all strings, all lengths ≤ 90).  It gives no such
  guarantee for insertions, deletions, truncations or extensions, and none is claimed here: for those the
  theorems only say that the outcome is whatever BIP173's predicate says (`decode_accepts_iff`), and the
  property's "every truncation and extension" is covered by the behavioural correspondence (T2) alone —
  the check enumerates every truncation/extension/deletion/insertion of sampled valid addresses and
  compares the implementation with the model (all are rejected in every run so far).
-/
import BtcVerif.Proofs.Bech32Detect
import BtcVerif.Proofs.Bech32Code4
import BtcVerif.Proofs.Bech32Bch
import BtcVerif.Proofs.Bech32Case

namespace BtcVerif.C11
open BtcVerif BtcVerif.Bech32
open BtcVerif.Spec.Bech32 (Decodes ValidSegwit validHrp Regroup lowerStr)

/-! ### checksum -/

/-- the checksum function of the code is BIP173's -/
theorem polymod_eq_spec (vs : List Nat) : Model.Bech32.polymod vs = Spec.Bech32.polymod vs :=
  Bech32.polymod_eq_spec vs

/-- one checksum step is affine over GF(2): `step c v = T c xor v` with `T` xor-linear, and `T` is
    injective on 30-bit states -/
theorem polymod_affine :
    ∃ T : Nat → Nat,
      (∀ c v, Model.Bech32.polymodStep c v = T c ^^^ v) ∧
      (∀ a b, T (a ^^^ b) = T a ^^^ T b) ∧
      (∀ a b, a < 2 ^ 30 → b < 2 ^ 30 → T a = T b → a = b) :=
  ⟨Bech32.T, polymodStep_eq, T_linear, fun _ _ ha hb h => T_injective ha hb h⟩

/-- the checksum is the BIP173 BCH code over GF(32): on 5-bit values the 30-bit state of the code's
    `polymod` is the residue of the message polynomial modulo
    g(x) = x⁶ + {29}x⁵ + {22}x⁴ + {20}x³ + {21}x² + {29}x + {18} over GF(2)[a]/(a⁵+a³+1) -/
theorem polymod_is_bch (vs : List Nat) (hvs : ∀ v ∈ vs, v < 32) :
    Spec.Bech32.unpack (Model.Bech32.polymod vs) = Spec.Bech32.bchResidue vs := by
  rw [Bech32.polymod_eq_spec]
  exact unpack_polymod vs hvs

/-- … hence a checksum verifies exactly when that residue is the constant polynomial 1 -/
theorem verify_iff_bch (hrp : List Char) (data : List Nat) (hh : ∀ c ∈ hrp, c.toNat < 1024)
    (hd : ∀ v ∈ data, v < 32) :
    Model.Bech32.verifyChecksum hrp data = true ↔
      Spec.Bech32.bchResidue (Spec.Bech32.hrpExpand hrp ++ data) = ⟨0, 0, 0, 0, 0, 1⟩ := by
  have hvs : ∀ v ∈ Spec.Bech32.hrpExpand hrp ++ data, v < 32 := by
    intro v hv
    rcases List.mem_append.1 hv with hv | hv
    · unfold Spec.Bech32.hrpExpand at hv
      simp only [List.mem_append, List.mem_map, List.mem_singleton] at hv
      rcases hv with (⟨c, hc, rfl⟩ | rfl) | ⟨c, _, rfl⟩
      · have := hh c hc; omega
      · omega
      · omega
    · exact hd v hv
  rw [verifyChecksum_iff, hrpExpand_eq_spec, Bech32.polymod_eq_spec, ← unpack_polymod _ hvs]
  have h1 : Spec.Bech32.unpack 1 = ⟨0, 0, 0, 0, 0, 1⟩ := by decide
  have hlt : Spec.Bech32.polymod (Spec.Bech32.hrpExpand hrp ++ data) < 2 ^ 30 := by
    rw [← Bech32.polymod_eq_spec, polymod_eq_run]
    exact run_lt (by omega) (fun v hv => by have := hvs v hv; omega)
  constructor
  · intro h; rw [h, h1]
  · intro h; rw [← h1] at h; exact unpack_inj hlt (by omega) h

/-- the checksum appended by `bech32_create_checksum` verifies, for every prefix and all 5-bit data -/
theorem checksum_verifies (hrp : List Char) (data : List Nat) (hd : ∀ v ∈ data, v < 32) :
    Model.Bech32.verifyChecksum hrp (data ++ Model.Bech32.createChecksum hrp data) = true :=
  verify_create hrp data hd

/-! ### bit regrouping -/

/-- `convertbits(·, 5, 8, False)` accepts exactly the 5-bit strings that are a byte string followed by
    fewer than five padding bits, all zero, and returns those bytes -/
theorem convertbits_padding_rule (d p : List Nat) (hd : ∀ v ∈ d, v < 32) :
    Model.Bech32.convertbits d 5 8 false = some p ↔ Regroup d p :=
  convertbits58_iff d p hd

/-- 8→5 with padding followed by 5→8 without padding is the identity on byte strings; the intermediate
    groups are the reference ones -/
theorem convertbits_roundtrip (p : Bytes) :
    ∃ d, Model.Bech32.convertbits (p.map UInt8.toNat) 8 5 true = some d ∧
      d = Spec.Bech32.toBase32 (p.map UInt8.toNat) ∧ (∀ x ∈ d, x < 32) ∧
      Model.Bech32.convertbits d 5 8 false = some (p.map UInt8.toNat) := by
  have hb : ∀ x ∈ p.map UInt8.toNat, x < 256 := by
    intro x hx
    obtain ⟨b, _, rfl⟩ := List.mem_map.1 hx
    exact b.toNat_lt
  obtain ⟨d, h1, h2, h3⟩ := convertbits_roundtrip_nat _ hb
  have := convertbits85_eq_spec _ hb
  rw [h1] at this
  exact ⟨d, h1, Option.some.inj this, h2, h3⟩

/-! ### decoding -/

/-- `decode` never raises (the `data[0]` IndexError site is dead) -/
theorem decode_total (h s : List Char) : ∃ r, Model.Bech32.decodeR h s = .ok r := decodeR_ok h s

/-- `decode` returns (version, program) exactly for the strings BIP173 declares valid for that
    version and program -/
theorem decode_returns (h s : List Char) (v : Nat) (p : List Nat) :
    Model.Bech32.decode h s = some (v, p) ↔ Decodes h s v p := decode_eq_some_iff h s v p

/-- `decode` accepts a string exactly when BIP173 does -/
theorem decode_accepts_iff (h s : List Char) : Model.Bech32.decode h s ≠ none ↔ ValidSegwit h s :=
  decode_ne_none_iff h s

/-! ### the expected prefix is the whole prefix (round-9 seed C11r9) -/

/-- list fact: the separator is determined when neither data part contains it -/
theorem sep_unique : ∀ (h h' d d' : List Char), '1' ∉ d → '1' ∉ d' →
    h ++ '1' :: d = h' ++ '1' :: d' → h = h'
  | [], [], _, _, _, _, _ => rfl
  | [], c :: t, d, d', hd, _, he => by
      simp only [List.nil_append, List.cons_append, List.cons.injEq] at he
      exact absurd (by rw [he.2]; simp) hd
  | c :: t, [], d, d', _, hd', he => by
      simp only [List.nil_append, List.cons_append, List.cons.injEq] at he
      exact absurd (by rw [← he.2]; simp) hd'
  | c :: t, c' :: t', d, d', hd, hd', he => by
      simp only [List.cons_append, List.cons.injEq] at he
      rw [he.1, sep_unique t t' d d' hd hd' he.2]

/-- a string is a valid address for AT MOST ONE expected prefix: the prefix is everything before the last
    '1', so a string valid for "bc1x" is not valid for "bc" (nor for any other proper prefix, extension or
    variant) -/
theorem prefix_unique (h h' s : List Char) (v v' : Nat) (p p' : List Nat)
    (a : Decodes h s v p) (b : Decodes h' s v' p') : h = h' := by
  obtain ⟨_, _, _, _, rest, ck, dchars, _, hdc, hs, _⟩ := a
  obtain ⟨_, _, _, _, rest', ck', dchars', _, hdc', hs', _⟩ := b
  have f := Bech32.dataChars_facts _ _ hdc
  have f' := Bech32.dataChars_facts _ _ hdc'
  have h1 : '1' ∉ dchars := fun hm => (f.2.2 _ hm).2.2.2 rfl
  have h1' : '1' ∉ dchars' := fun hm => (f'.2.2 _ hm).2.2.2 rfl
  exact sep_unique h h' dchars dchars' h1 h1' (hs.symm.trans hs')

/-- … for the decoder: accepted under two expected prefixes only if they are the same prefix -/
theorem decode_prefix_unique (h h' s : List Char)
    (a : Model.Bech32.decode h s ≠ none) (b : Model.Bech32.decode h' s ≠ none) : h = h' := by
  obtain ⟨v, p, d⟩ := (decode_accepts_iff h s).1 a
  obtain ⟨v', p', d'⟩ := (decode_accepts_iff h' s).1 b
  exact prefix_unique h h' s v v' p p' d d'

/-- in particular whatever is valid for `base ++ "1" ++ extra` is refused under `base` -/
theorem decode_rejects_shorter_prefix (base extra s : List Char)
    (a : Model.Bech32.decode (base ++ '1' :: extra) s ≠ none) : Model.Bech32.decode base s = none := by
  by_contra hne
  have := decode_prefix_unique _ _ s a hne
  have hl := congrArg List.length this
  simp at hl

/-- every mixed-case rendering is rejected -/
theorem mixed_case_rejected (h s : List Char) (hl : ∃ c ∈ s, c.isLower = true)
    (hu : ∃ c ∈ s, c.isUpper = true) : Model.Bech32.decode h s = none := by
  cases hd : Model.Bech32.decode h s with
  | none => rfl
  | some vp =>
    obtain ⟨v, p⟩ := vp
    exact absurd ⟨hl, hu⟩ ((decode_returns h s v p).1 hd).2.1

/-- BIP173: the all-upper-case rendering of a valid address is valid and decodes to the same pair
    (and validity in general depends on the string only through its lowercase form) -/
theorem uppercase_accepted (h s : List Char) (v : Nat) (p : List Nat)
    (hd : Model.Bech32.decode h s = some (v, p)) :
    Model.Bech32.decode h (s.map Char.toUpper) = some (v, p) :=
  (decode_returns h _ v p).2 (upper_decodes h s v p ((decode_returns h s v p).1 hd))

/-! ### encoding -/

/-- encoding any admissible (version, program) under a valid prefix (total length ≤ 90) succeeds, gives
    the reference BIP173 string, which is lower case, and decodes to the original pair -/
theorem encode_decode_all (h : List Char) (v : Nat) (prog : Bytes)
    (hh : validHrp h) (hv : v ≤ 16) (hl2 : 2 ≤ prog.length) (hl40 : prog.length ≤ 40)
    (hv0 : v = 0 → prog.length = 20 ∨ prog.length = 32)
    (hlen : h.length + 1 + (1 + (8 * prog.length + 4) / 5 + 6) ≤ 90) :
    ∃ a, Model.Bech32.encodeR h v prog = .ok (some a) ∧
      Spec.Bech32.encodeAddr h v (prog.map UInt8.toNat) = some a ∧
      Model.Bech32.decode h a = some (v, prog.map UInt8.toNat) ∧
      lowerStr a = a ∧ (∀ c ∈ a, c.isUpper = false) := by
  obtain ⟨a, h1, h2, h3, h4⟩ := encode_spec h v prog hh hv hl2 hl40 hv0 hlen
  exact ⟨a, h1, h2, (decode_returns _ _ _ _).2 h3, lowerStr_eq_self a h4, h4⟩

/-- the property's headline: a version-0 program of 20 or 32 bytes -/
theorem encode_decode (h : List Char) (prog : Bytes) (hh : validHrp h)
    (hp : prog.length = 20 ∨ prog.length = 32)
    (hlen : h.length + 1 + (1 + (8 * prog.length + 4) / 5 + 6) ≤ 90) :
    ∃ a, Model.Bech32.encode h 0 prog = some a ∧
      Spec.Bech32.encodeAddr h 0 (prog.map UInt8.toNat) = some a ∧
      Model.Bech32.decode h a = some (0, prog.map UInt8.toNat) ∧ lowerStr a = a := by
  obtain ⟨a, h1, h2, h3, h4, _⟩ := encode_decode_all h 0 prog hh (by omega) (by omega) (by omega)
    (fun _ => hp) hlen
  refine ⟨a, ?_, h2, h3, h4⟩
  unfold Model.Bech32.encode
  rw [h1]

/-- `encode` never raises for a version below 32 (the `CHARSET[d]` IndexError needs `witver ≥ 32`,
    `[witver] + None` needs a non-byte) -/
theorem encode_total (h : List Char) (v : Nat) (prog : Bytes) (hv : v < 32) :
    ∃ r, Model.Bech32.encodeR h v prog = .ok r := by
  have hb : ∀ x ∈ prog.map UInt8.toNat, x < 256 := by
    intro x hx
    obtain ⟨b, _, rfl⟩ := List.mem_map.1 hx
    exact b.toNat_lt
  obtain ⟨conv, hconv, hconv32, _⟩ := convertbits85 _ hb
  have hall : ∀ x ∈ (v :: conv) ++ Model.Bech32.createChecksum h (v :: conv), x < 32 := by
    intro x hx
    rcases List.mem_append.1 hx with hx | hx
    · rcases List.mem_cons.1 hx with rfl | hx
      · exact hv
      · exact hconv32 x hx
    · exact (createChecksum_facts h (v :: conv)).2 x hx
  obtain ⟨cs, hcs, _⟩ := mapM_charsetAt _ hall
  unfold Model.Bech32.encodeR
  rw [hconv]
  have henc : Model.Bech32.bech32Encode h (v :: conv) = .ok (h ++ ['1'] ++ cs) := by
    unfold Model.Bech32.bech32Encode
    simp only []
    rw [hcs]
    rfl
  simp only [henc]
  obtain ⟨r, hr⟩ := decodeR_ok h (h ++ ['1'] ++ cs)
  rw [hr]
  cases r <;> exact ⟨_, rfl⟩

/-! ### CBech32Data under the selected chain's prefix -/

/-- `CBech32Data(s)` yields (witver, program bytes) exactly for the valid strings of the selected
    prefix … -/
theorem cbech32_new_iff (h s : List Char) (v : Nat) (b : Bytes) :
    Model.Bech32.cbech32New h s = .ok (v, b) ↔ Decodes h s v (b.map UInt8.toNat) := by
  unfold Model.Bech32.cbech32New
  obtain ⟨r, hr⟩ := decodeR_ok h s
  rw [hr]
  cases r with
  | none =>
    simp only [reduceCtorEq, false_iff]
    intro hd
    have := (decodeR_iff h s v _).2 hd
    rw [hr] at this
    simp at this
  | some vp =>
    obtain ⟨v', p'⟩ := vp
    have hd' := (decodeR_iff h s v' p').1 hr
    have hv16 : v' ≤ 16 := by
      obtain ⟨_, _, _, _, _, _, _, _, _, _, _, hv, _⟩ := hd'
      exact hv
    have hp256 : ∀ x ∈ p', x < 256 := by
      obtain ⟨_, _, _, _, _, _, _, _, _, _, _, _, hreg, _⟩ := hd'
      exact hreg.1
    have hrt : (p'.map UInt8.ofNat).map UInt8.toNat = p' := by
      rw [List.map_map]
      conv => rhs; rw [← List.map_id p']
      apply List.map_congr_left
      intro x hx
      have := hp256 x hx
      simp [UInt8.toNat_ofNat', Nat.mod_eq_of_lt this]
    simp only [Model.Bech32.fromBytes, hv16, decide_true, Bool.not_true, Bool.false_eq_true, if_false,
      bytesOfInts_ok p' hp256, Except.ok.injEq, Prod.mk.injEq]
    constructor
    · rintro ⟨rfl, rfl⟩
      rw [hrt]; exact hd'
    · intro hd
      have := (decodeR_iff h s v _).2 hd
      rw [hr] at this
      simp only [Except.ok.injEq, Option.some.injEq, Prod.mk.injEq] at this
      obtain ⟨rfl, rfl⟩ := this
      refine ⟨rfl, ?_⟩
      rw [List.map_map]
      conv => rhs; rw [← List.map_id b]
      apply List.map_congr_left
      intro x _
      simp

/-- … and raises `Bech32Error` — nothing else — for every other string -/
theorem cbech32_new_rejects (h s : List Char) :
    ¬ ValidSegwit h s ↔ Model.Bech32.cbech32New h s = .error .bech32err := by
  rw [← decode_accepts_iff]
  unfold Model.Bech32.cbech32New Model.Bech32.decode
  obtain ⟨r, hr⟩ := decodeR_ok h s
  rw [hr]
  cases r with
  | none => simp
  | some vp =>
    obtain ⟨v', p'⟩ := vp
    have hd' := (decodeR_iff h s v' p').1 hr
    obtain ⟨_, _, _, _, _, _, _, _, _, _, _, hv, hreg, _⟩ := hd'
    simp [Model.Bech32.fromBytes, hv, bytesOfInts_ok p' hreg.1]

/-- `CBech32Data(s)` has exactly two kinds of outcome: an object, or `Bech32Error`.  In particular the
    ValueError sites of `from_bytes` (`witver > 16`, `bytes(witprog)` with an element ≥ 256) and the
    IndexError site of `decode` are dead on this path -/
theorem cbech32_new_outcomes (h s : List Char) :
    (∃ v b, Model.Bech32.cbech32New h s = .ok (v, b)) ∨
      Model.Bech32.cbech32New h s = .error .bech32err := by
  by_cases hv : ValidSegwit h s
  · left
    obtain ⟨v, p, hd⟩ := hv
    have hp256 : ∀ x ∈ p, x < 256 := by
      obtain ⟨_, _, _, _, _, _, _, _, _, _, _, _, hreg, _⟩ := hd
      exact hreg.1
    refine ⟨v, p.map UInt8.ofNat, (cbech32_new_iff h s v _).2 ?_⟩
    have hrt : (p.map UInt8.ofNat).map UInt8.toNat = p := by
      rw [List.map_map]
      conv => rhs; rw [← List.map_id p]
      apply List.map_congr_left
      intro x hx
      have := hp256 x hx
      simp [UInt8.toNat_ofNat', Nat.mod_eq_of_lt this]
    rw [hrt]; exact hd
  · right
    exact (cbech32_new_rejects h s).1 hv

/-- `CBech32Data(str(CBech32Data.from_bytes(v, prog)))` gives back `(v, prog)` for every admissible pair
    under every valid prefix -/
theorem cbech32_roundtrip (h : List Char) (v : Nat) (prog : Bytes)
    (hh : validHrp h) (hv : v ≤ 16) (hl2 : 2 ≤ prog.length) (hl40 : prog.length ≤ 40)
    (hv0 : v = 0 → prog.length = 20 ∨ prog.length = 32)
    (hlen : h.length + 1 + (1 + (8 * prog.length + 4) / 5 + 6) ≤ 90) :
    ∃ a, Model.Bech32.cbech32Str h v prog = .ok a ∧ Model.Bech32.cbech32New h a = .ok (v, prog) := by
  obtain ⟨a, h1, _, h3, _⟩ := encode_spec h v prog hh hv hl2 hl40 hv0 hlen
  refine ⟨a, ?_, (cbech32_new_iff h a v prog).2 h3⟩
  unfold Model.Bech32.cbech32Str
  rw [h1]

/-! ### error detection -/

/-- a valid address and any string of the same length whose lowercase form differs from it in exactly
    one or two characters (anywhere: prefix, separator or data part): the latter is rejected.
    Only computation: 31·88 kernel-evaluated steps of the linear map (`Bech32.orbitCheck_true`). -/
theorem detects_le2 (h s s' : List Char) (hv : Model.Bech32.decode h s ≠ none)
    (hl : s'.length = s.length)
    (hd : hamming (lowerStr s) (lowerStr s') = 1 ∨ hamming (lowerStr s) (lowerStr s') = 2) :
    Model.Bech32.decode h s' = none := by
  cases hd' : Model.Bech32.decode h s' with
  | none => rfl
  | some vp =>
    have hs' : ValidSegwit h s' := (decode_accepts_iff h s').1 (by rw [hd']; simp)
    have := valid_hamming_gt2 h s s' ((decode_accepts_iff h s).1 hv) hs' hl
    rcases hd with hd | hd
    · exact absurd hd this.1
    · exact absurd hd this.2

/-- the same in terms of explicit substitutions: after at most two character substitutions a valid
    address is rejected, unless the substitutions changed nothing but letter case (then
    `mixed_case_rejected` applies, or the string is the same address in the other case) -/
theorem detects_substitutions_le2 (h s : List Char) (subs : List (Nat × Char))
    (hv : Model.Bech32.decode h s ≠ none) (hn : subs.length ≤ 2) :
    Model.Bech32.decode h (substitute s subs) = none ∨ lowerStr (substitute s subs) = lowerStr s := by
  have hl := substitute_length s subs
  have hle := hamming_substitute_le s subs
  by_cases h0 : hamming (lowerStr s) (lowerStr (substitute s subs)) = 0
  · right
    exact (hamming_eq_zero _ _ (by simp [lowerStr, hl]) h0).symm
  · left
    exact detects_le2 h s _ hv hl (by omega)

/-- a valid address and any string of the same length whose lowercase form differs from it in exactly
    three or four characters (anywhere): the latter is rejected.
    Standard axioms only: the exhaustive part (no zero syndrome of weight 3 or 4 within 89 positions;
    ≈ 3.7 M table look-ups) is evaluated by the KERNEL in 961 `decide +kernel` theorems
    (Proofs/Bech32Code4Shards, ≈ 10 CPU-minutes in total, built in parallel). -/
theorem detects_le4 (h s s' : List Char) (hv : Model.Bech32.decode h s ≠ none)
    (hl : s'.length = s.length)
    (hd : hamming (lowerStr s) (lowerStr s') = 3 ∨ hamming (lowerStr s) (lowerStr s') = 4) :
    Model.Bech32.decode h s' = none := by
  cases hd' : Model.Bech32.decode h s' with
  | none => rfl
  | some vp =>
    have hs : ValidSegwit h s := (decode_accepts_iff h s).1 hv
    have hs' : ValidSegwit h s' := (decode_accepts_iff h s').1 (by rw [hd']; simp)
    obtain ⟨E, hE, hEl, hw, hrun⟩ := valid_pair_syndrome h s s' hs hs' hl
    exact absurd hrun (syndrome_ne_zero_34 E hE (by omega) (by omega))

/-- in terms of explicit substitutions: after at most four character substitutions a valid address
    is rejected, unless the substitutions changed nothing but letter case -/
theorem detects_substitutions_le4 (h s : List Char) (subs : List (Nat × Char))
    (hv : Model.Bech32.decode h s ≠ none) (hn : subs.length ≤ 4) :
    Model.Bech32.decode h (substitute s subs) = none ∨ lowerStr (substitute s subs) = lowerStr s := by
  have hl := substitute_length s subs
  have hle := hamming_substitute_le s subs
  by_cases h0 : hamming (lowerStr s) (lowerStr (substitute s subs)) = 0
  · right
    exact (hamming_eq_zero _ _ (by simp [lowerStr, hl]) h0).symm
  · left
    by_cases h2 : hamming (lowerStr s) (lowerStr (substitute s subs)) ≤ 2
    · exact detects_le2 h s _ hv hl (by omega)
    · exact detects_le4 h s _ hv hl (by omega)

/-! ### non-vacuity -/

/-- the hypotheses of `encode_decode` are met by the prefix "bc" and a 20-byte program -/
example : validHrp ['b', 'c'] ∧ ((List.replicate 20 (7 : UInt8)).length = 20 ∨ False) ∧
    ['b', 'c'].length + 1 + (1 + (8 * 20 + 4) / 5 + 6) ≤ 90 := by
  refine ⟨⟨by decide, by decide, ?_⟩, Or.inl (by simp), by decide⟩
  intro c hc
  simp only [List.mem_cons, List.not_mem_nil, or_false] at hc
  rcases hc with rfl | rfl <;> decide

/-- BIP173's first test vector is accepted by the model (so `detects_le2` is not vacuous) … -/
example : Model.Bech32.decode "bc".toList "BC1QW508D6QEJXTDG4Y5R3ZARVARY0C5XW7KV8F3T4".toList
    = some (0, [0x75, 0x1e, 0x76, 0xe8, 0x19, 0x91, 0x96, 0xd4, 0x54, 0x94, 0x1c, 0x45, 0xd1, 0xb3, 0xa3, 0x23,
                0xf1, 0x43, 0x3b, 0xd6]) := by decide +kernel

/-- … and a single substitution of it is rejected -/
example : Model.Bech32.decode "bc".toList "bc1qw508d6qejxtdg4y5r3zarvary0c5xw7kv8f3t5".toList = none := by
  decide +kernel

/-- the padding rule: `tb1…pjxtptv` (non-zero padding) and `bc1zw508…du` (more than 4 padding bits) -/
example : Model.Bech32.decode "bc".toList "bc1zw508d6qejxtdg4y5r3zarvaryvqyzf3du".toList = none := by
  decide +kernel

end BtcVerif.C11
