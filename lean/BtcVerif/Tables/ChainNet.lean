/-  T1 obligation: the per-chain P2P magic regenerated from /repo equal the reference table.  -/
import BtcVerif.Generated.Chain

namespace BtcVerif.Tables.ChainNet
open BtcVerif

theorem chain_eq :
    Generated.chainTable.map (fun p => (p.name, p.messageStart)) =
      Spec.chainTable.map (fun p => (p.name, p.messageStart)) := by decide

end BtcVerif.Tables.ChainNet
