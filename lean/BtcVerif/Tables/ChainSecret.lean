/-  T1 obligation: the per-chain WIF secret-key version byte regenerated from /repo equals the reference table.  -/
import BtcVerif.Generated.Chain

namespace BtcVerif.Tables.ChainSecret
open BtcVerif

theorem chain_eq :
    Generated.chainTable.map (fun p => (p.name, p.secretKey)) =
      Spec.chainTable.map (fun p => (p.name, p.secretKey)) := by decide

end BtcVerif.Tables.ChainSecret
