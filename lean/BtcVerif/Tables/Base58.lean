/-  T1 obligation: the base58 alphabet regenerated from /repo equals the reference alphabet.  -/
import BtcVerif.Generated.Base58
import BtcVerif.Spec.Base58

namespace BtcVerif.Tables.Base58
open BtcVerif

theorem alphabet_eq : Generated.b58Alphabet = Spec.Base58.alphabet := by decide

end BtcVerif.Tables.Base58
