/-  T1 obligations: the bech32 tables regenerated from /repo equal the BIP173 reference tables.  -/
import BtcVerif.Generated.Bech32
import BtcVerif.Spec.Bech32

namespace BtcVerif.Tables.Bech32
open BtcVerif

theorem charset_eq : Generated.Bech32.charset = Spec.Bech32.charset := by decide

theorem generator_eq : Generated.Bech32.generator = Spec.Bech32.generator := by decide

end BtcVerif.Tables.Bech32
