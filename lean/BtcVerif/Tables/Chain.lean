/-  T1 obligation: the chain parameters regenerated from /repo equal the reference table.  -/
import BtcVerif.Generated.Chain

namespace BtcVerif.Tables.Chain
open BtcVerif

theorem chainTable_eq : Generated.chainTable = Spec.chainTable := by decide

end BtcVerif.Tables.Chain
