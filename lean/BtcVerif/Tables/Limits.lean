/-  T1 obligation: the consensus limits regenerated from /repo equal the reference table.  -/
import BtcVerif.Generated.Limits

namespace BtcVerif.Tables.Limits
open BtcVerif

theorem limits_eq : Generated.limits = Spec.limits := by decide

end BtcVerif.Tables.Limits
