/-  T1 obligation: the Bloom filter constants regenerated from /repo equal the BIP37 reference values.  -/
import BtcVerif.Generated.Bloom
import BtcVerif.Spec.Bloom

namespace BtcVerif.Tables.Bloom
open BtcVerif

theorem bloomConsts_eq : Generated.bloomConsts = Spec.Bloom.consts := by decide

/-- the model's caps are the reference caps -/
theorem caps_eq : Spec.Bloom.consts.lookup "MAX_BLOOM_FILTER_SIZE" = some Spec.Bloom.MAX_BLOOM_FILTER_SIZE ∧
    Spec.Bloom.consts.lookup "MAX_HASH_FUNCS" = some Spec.Bloom.MAX_HASH_FUNCS := by decide

end BtcVerif.Tables.Bloom
