/-  T1 obligation: the per-chain work limit and money supply regenerated from /repo equal the reference table.  -/
import BtcVerif.Generated.Chain

namespace BtcVerif.Tables.ChainPow
open BtcVerif

theorem chain_eq :
    Generated.chainTable.map (fun p => (p.name, p.powLimit, p.maxMoney)) =
      Spec.chainTable.map (fun p => (p.name, p.powLimit, p.maxMoney)) := by decide

end BtcVerif.Tables.ChainPow
