/-  T1 obligation: the signature-hash constants regenerated from /repo (SIGHASH_NONE / SINGLE / ANYONECANPAY,
    OP_CODESEPARATOR, the function-local HASH_ONE of RawSignatureHash) equal the reference values.  -/
import BtcVerif.Generated.Sighash

namespace BtcVerif.Tables.Sighash
open BtcVerif

theorem sighashTable_eq : Generated.sighashTable = Spec.Sighash.table := by decide

end BtcVerif.Tables.Sighash
