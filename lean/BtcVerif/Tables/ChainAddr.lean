/-  T1 obligation: the per-chain ADDRESS prefixes (base58 version bytes of P2PKH / P2SH addresses and the bech32 prefix)
    regenerated from /repo equal the reference table.  (The WIF secret-key byte is Tables/ChainSecret.lean: a property
    that does not speak about WIF does not depend on it.)  -/
import BtcVerif.Generated.Chain

namespace BtcVerif.Tables.ChainAddr
open BtcVerif

theorem chain_eq :
    Generated.chainTable.map (fun p => (p.name, p.pubkeyAddr, p.scriptAddr, p.bech32Hrp)) =
      Spec.chainTable.map (fun p => (p.name, p.pubkeyAddr, p.scriptAddr, p.bech32Hrp)) := by decide

end BtcVerif.Tables.ChainAddr
