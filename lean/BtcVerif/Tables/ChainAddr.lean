/-  T1 obligation: the per-chain base58 version bytes and bech32 prefix regenerated from /repo equal the reference table.  -/
import BtcVerif.Generated.Chain

namespace BtcVerif.Tables.ChainAddr
open BtcVerif

theorem chain_eq :
    Generated.chainTable.map (fun p => (p.name, p.pubkeyAddr, p.scriptAddr, p.secretKey, p.bech32Hrp)) =
      Spec.chainTable.map (fun p => (p.name, p.pubkeyAddr, p.scriptAddr, p.secretKey, p.bech32Hrp)) := by decide

end BtcVerif.Tables.ChainAddr
