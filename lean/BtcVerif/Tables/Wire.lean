/-  T1 obligation: `MAX_SIZE` of the working tree (bitcoin/core/serialize.py) is the wire format's limit
    used by Spec.Wire (`WF*` predicates) and by Model.Wire (`ser_read` guard).  -/
import BtcVerif.Generated.Wire
import BtcVerif.Spec.Wire
import BtcVerif.Model.Wire

namespace BtcVerif.Tables.Wire
open BtcVerif

theorem maxSize_eq : Generated.Wire.maxSize = (Spec.Wire.maxSize : Int) := by decide

theorem model_maxSize_eq : Model.Wire.MAX_SIZE = Spec.Wire.maxSize := by decide

end BtcVerif.Tables.Wire
