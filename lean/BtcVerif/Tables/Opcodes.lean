/-  T1 obligation: the opcode tables and interpreter limits regenerated from /repo equal the
    reference tables (every entry of OPCODE_NAMES over 0..255, OPCODES_BY_NAME, DISABLED_OPCODES,
    the unary/binary numeric opcode sets, and the five limits).  -/
import BtcVerif.Generated.Opcodes

namespace BtcVerif.Tables.Opcodes
open BtcVerif

theorem names_eq : Generated.opcodeTables.names = Spec.opcodeNames := by decide
theorem byName_eq : Generated.opcodeTables.byName = Spec.opcodesByName := by decide
theorem disabled_eq : Generated.opcodeTables.disabled = Spec.disabledOpcodes := by decide
theorem numeric_sets_eq : Generated.opcodeTables.unary = Spec.unaryNumOps ∧
    Generated.opcodeTables.binary = Spec.binaryNumOps := by decide
theorem limits_eq :
    Generated.opcodeTables.maxScriptSize = Spec.MAX_SCRIPT_SIZE ∧
    Generated.opcodeTables.maxElementSize = Spec.MAX_SCRIPT_ELEMENT_SIZE ∧
    Generated.opcodeTables.maxOps = Spec.MAX_OPS_PER_SCRIPT ∧
    Generated.opcodeTables.maxStackItems = Spec.MAX_STACK_SIZE ∧
    Generated.opcodeTables.maxNumSize = Spec.MAX_NUM_SIZE := by decide

end BtcVerif.Tables.Opcodes
