/-  T1 obligation: the opcode VALUES and interpreter limits regenerated from /repo agree with the
    reference tables: every opcode constant the reference knows has the reference's value in the working
    tree (`OP_*` module constants / OPCODES_BY_NAME — the working tree may define more names), DISABLED_OPCODES,
    the unary / binary numeric opcode sets, and the five limits.
    Display NAMES (OPCODE_NAMES: what `repr` and error messages print) are NOT an obligation (audit 3, A9):
    no property names them; `Generated.opcodeTables.names` is listed in the generated file as evidence only.  -/
import BtcVerif.Generated.Opcodes

namespace BtcVerif.Tables.Opcodes
open BtcVerif

/-- the value the working tree gives to each opcode constant of the reference, in the reference's order
    (`none` = the constant is missing) — the working tree's table may contain more names -/
def valuesOfReferenceNames : List (String × Option Nat) :=
  Spec.opcodesByName.map fun p => (p.1, (Generated.opcodeTables.byName.find? fun q => q.1 == p.1).map (·.2))

set_option maxRecDepth 100000 in
/-- every opcode constant the reference knows has the reference's value in the working tree -/
theorem values_eq : valuesOfReferenceNames = Spec.opcodesByName.map fun p => (p.1, some p.2) := by decide
theorem disabled_eq : Generated.opcodeTables.disabled = Spec.disabledOpcodes := by decide
theorem numeric_sets_eq : Generated.opcodeTables.unary = Spec.unaryNumOps ∧
    Generated.opcodeTables.binary = Spec.binaryNumOps := by decide
theorem limits_eq :
    Generated.opcodeTables.maxScriptSize = Spec.MAX_SCRIPT_SIZE ∧
    Generated.opcodeTables.maxElementSize = Spec.MAX_SCRIPT_ELEMENT_SIZE ∧
    Generated.opcodeTables.maxOps = Spec.MAX_OPS_PER_SCRIPT ∧
    Generated.opcodeTables.maxStackItems = Spec.MAX_STACK_SIZE ∧
    Generated.opcodeTables.maxNumSize = Spec.MAX_NUM_SIZE := by decide

end BtcVerif.Tables.Opcodes
