/-  T1 obligations: the message command table, `messagemap` and the protocol-version constants
    regenerated from /repo equal the reference tables of Spec/Messages.lean (and the size limit the
    model's `ser_read` uses).  -/
import BtcVerif.Generated.Messages
import BtcVerif.Model.Wire

namespace BtcVerif.Tables.Messages
open BtcVerif

theorem msgClasses_eq : Generated.Messages.msgClasses = Spec.Msg.commandTable := by decide

theorem messagemap_eq : Generated.Messages.messagemap = Spec.Msg.commandTable := by decide

theorem protoVersion_eq : Generated.Messages.protoVersion = Spec.Msg.protoVersion := by decide

theorem caddrTimeVersion_eq : Generated.Messages.caddrTimeVersion = Spec.Msg.caddrTimeVersion := by decide

theorem ipv4Compat_eq : Generated.Messages.ipv4Compat = Spec.Msg.ipv4Compat.map UInt8.toNat := by decide

theorem maxSize_eq : Generated.Messages.maxSize = Model.Wire.MAX_SIZE ∧
    Generated.Messages.maxSize = Spec.Wire.maxSize := by decide

end BtcVerif.Tables.Messages
