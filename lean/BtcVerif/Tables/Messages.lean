/-  T1 obligations: the message command table, `messagemap` and the protocol-version constants
    regenerated from /repo cover the reference tables of Spec/Messages.lean (and the size limit the
    model's `ser_read` uses).  -/
import BtcVerif.Generated.Messages
import BtcVerif.Model.Wire

namespace BtcVerif.Tables.Messages
open BtcVerif

/-- every command of the reference table is framed by some message class of the working tree
    (class names and additional message types are not constrained: the property speaks about the
    seventeen types, dispatch to the right type is observed by the correspondence run) -/
theorem msgClasses_cover :
    (Spec.Msg.commandTable.map Prod.fst).all
      (fun c => (Generated.Messages.msgClasses.map Prod.fst).contains c) = true := by decide

/-- every command of the reference table is a key of `messagemap` -/
theorem messagemap_covers :
    (Spec.Msg.commandTable.map Prod.fst).all
      (fun c => (Generated.Messages.messagemap.map Prod.fst).contains c) = true := by decide

theorem protoVersion_eq : Generated.Messages.protoVersion = Spec.Msg.protoVersion := by decide

theorem caddrTimeVersion_eq : Generated.Messages.caddrTimeVersion = Spec.Msg.caddrTimeVersion := by decide

theorem ipv4Compat_eq : Generated.Messages.ipv4Compat = Spec.Msg.ipv4Compat.map UInt8.toNat := by decide

theorem maxSize_eq : Generated.Messages.maxSize = Model.Wire.MAX_SIZE ∧
    Generated.Messages.maxSize = Spec.Wire.maxSize := by decide

end BtcVerif.Tables.Messages
