/-  T1 obligation of C18: each of the seventeen message types the property speaks about exists in the
    working tree with its protocol command string.  Nothing else is compared: class names, the way the
    library organises its classes, additional message types and the library's own constants are not
    named by the property (dispatch to the right type, the size limit and the protocol-version gates
    are observed by the correspondence run).  -/
import BtcVerif.Generated.Messages

namespace BtcVerif.Tables.Messages
open BtcVerif

/-- every command of the reference table is carried by some message class of the working tree -/
theorem commands_cover :
    (Spec.Msg.commandTable.map Prod.fst).all (fun c => Generated.Messages.commands.contains c) = true := by
  decide

end BtcVerif.Tables.Messages
