/-  T1 obligation: the RPC error-class table and COIN regenerated from /repo equal the reference.  -/
import BtcVerif.Generated.Rpc
import BtcVerif.Spec.Rpc

namespace BtcVerif.Tables.Rpc
open BtcVerif

theorem rpcErrorClasses_eq : Generated.rpcErrorClasses = Spec.Rpc.errorClasses := by decide

theorem rpcBaseClass_eq : Generated.rpcBaseClass = Spec.Rpc.baseClass := by decide

theorem rpcCoin_eq : Generated.rpcCoin = Spec.Rpc.COIN := by decide

end BtcVerif.Tables.Rpc
