/-
  RIPEMD-160 (Dobbertin, Bosselaers, Preneel 1996), executable reference, and Bitcoin's
  `Hash160 = RIPEMD160 ∘ SHA256`.  Never unfolded in proofs; agreement with the library's
  `bitcoin.core.contrib.ripemd160` / hashlib is validated by the correspondence runs (T2).
  Mathlib-free.
-/
import BtcVerif.Basic.Bytes
import BtcVerif.Crypto.Sha256

namespace BtcVerif.Crypto

/-- message word order, left line -/
private def rmdML : Array Nat := #[
  0, 1, 2, 3, 4, 5, 6, 7, 8, 9, 10, 11, 12, 13, 14, 15,
  7, 4, 13, 1, 10, 6, 15, 3, 12, 0, 9, 5, 2, 14, 11, 8,
  3, 10, 14, 4, 9, 15, 8, 1, 2, 7, 0, 6, 13, 11, 5, 12,
  1, 9, 11, 10, 0, 8, 12, 4, 13, 3, 7, 15, 14, 5, 6, 2,
  4, 0, 5, 9, 7, 12, 2, 10, 14, 1, 3, 8, 11, 6, 15, 13]

/-- message word order, right line -/
private def rmdMR : Array Nat := #[
  5, 14, 7, 0, 9, 2, 11, 4, 13, 6, 15, 8, 1, 10, 3, 12,
  6, 11, 3, 7, 0, 13, 5, 10, 14, 15, 8, 12, 4, 9, 1, 2,
  15, 5, 1, 3, 7, 14, 6, 9, 11, 8, 12, 2, 10, 0, 4, 13,
  8, 6, 4, 1, 3, 11, 15, 0, 5, 12, 2, 13, 9, 7, 10, 14,
  12, 15, 10, 4, 1, 5, 8, 7, 6, 2, 13, 14, 0, 3, 9, 11]

/-- rotation amounts, left line -/
private def rmdRL : Array UInt32 := #[
  11, 14, 15, 12, 5, 8, 7, 9, 11, 13, 14, 15, 6, 7, 9, 8,
  7, 6, 8, 13, 11, 9, 7, 15, 7, 12, 15, 9, 11, 7, 13, 12,
  11, 13, 6, 7, 14, 9, 13, 15, 14, 8, 13, 6, 5, 12, 7, 5,
  11, 12, 14, 15, 14, 15, 9, 8, 9, 14, 5, 6, 8, 6, 5, 12,
  9, 15, 5, 11, 6, 8, 13, 12, 5, 12, 13, 14, 11, 8, 5, 6]

/-- rotation amounts, right line -/
private def rmdRR : Array UInt32 := #[
  8, 9, 9, 11, 13, 15, 15, 5, 7, 7, 8, 11, 14, 14, 12, 6,
  9, 13, 15, 7, 12, 8, 9, 11, 7, 7, 12, 7, 6, 15, 13, 11,
  9, 7, 15, 11, 8, 6, 6, 14, 12, 13, 5, 14, 13, 13, 7, 5,
  15, 5, 8, 11, 14, 14, 6, 14, 6, 9, 12, 9, 12, 5, 15, 8,
  8, 5, 12, 9, 12, 5, 14, 6, 8, 13, 6, 5, 15, 13, 11, 11]

private def rmdKL : Array UInt32 := #[0, 0x5a827999, 0x6ed9eba1, 0x8f1bbcdc, 0xa953fd4e]
private def rmdKR : Array UInt32 := #[0x50a28be6, 0x5c4dd124, 0x6d703ef3, 0x7a6d76e9, 0]

@[inline] private def rmdRol (x : UInt32) (n : UInt32) : UInt32 := (x <<< n) ||| (x >>> (32 - n))

@[inline] private def rmdF (i : Nat) (x y z : UInt32) : UInt32 :=
  match i with
  | 0 => x ^^^ y ^^^ z
  | 1 => (x &&& y) ||| ((~~~ x) &&& z)
  | 2 => (x ||| (~~~ y)) ^^^ z
  | 3 => (x &&& z) ||| (y &&& (~~~ z))
  | _ => x ^^^ (y ||| (~~~ z))

private def le32 (b : ByteArray) (i : Nat) : UInt32 :=
  b[i]!.toUInt32 ||| (b[i+1]!.toUInt32 <<< 8) ||| (b[i+2]!.toUInt32 <<< 16) ||| (b[i+3]!.toUInt32 <<< 24)

private def rmdCompress (h : Array UInt32) (blk : ByteArray) (off : Nat) : Array UInt32 := Id.run do
  let mut x : Array UInt32 := Array.mkEmpty 16
  for t in [0:16] do
    x := x.push (le32 blk (off + 4 * t))
  let mut al := h[0]!; let mut bl := h[1]!; let mut cl := h[2]!; let mut dl := h[3]!; let mut el := h[4]!
  let mut ar := h[0]!; let mut br := h[1]!; let mut cr := h[2]!; let mut dr := h[3]!; let mut er := h[4]!
  for j in [0:80] do
    let rnd := j / 16
    let tl := rmdRol (al + rmdF rnd bl cl dl + x[rmdML[j]!]! + rmdKL[rnd]!) rmdRL[j]! + el
    al := el; el := dl; dl := rmdRol cl 10; cl := bl; bl := tl
    let tr := rmdRol (ar + rmdF (4 - rnd) br cr dr + x[rmdMR[j]!]! + rmdKR[rnd]!) rmdRR[j]! + er
    ar := er; er := dr; dr := rmdRol cr 10; cr := br; br := tr
  return #[h[1]! + cl + dr, h[2]! + dl + er, h[3]! + el + ar, h[4]! + al + br, h[0]! + bl + cr]

/-- MD-style padding with a little-endian 64-bit bit length (MD4/MD5/RIPEMD family) -/
def mdPadLE (msg : ByteArray) : ByteArray := Id.run do
  let bitLen : Nat := msg.size * 8
  let mut out := msg.push 0x80
  while out.size % 64 != 56 do
    out := out.push 0
  for i in [0:8] do
    out := out.push (UInt8.ofNat ((bitLen >>> (8 * i)) % 256))
  return out

/-- the five state words, little-endian: 20 bytes by construction -/
def digestLE5 (h : Array UInt32) : ByteArray := ByteArray.mk #[
    h[0]!.toUInt8, (h[0]! >>> 8).toUInt8, (h[0]! >>> 16).toUInt8, (h[0]! >>> 24).toUInt8,
    h[1]!.toUInt8, (h[1]! >>> 8).toUInt8, (h[1]! >>> 16).toUInt8, (h[1]! >>> 24).toUInt8,
    h[2]!.toUInt8, (h[2]! >>> 8).toUInt8, (h[2]! >>> 16).toUInt8, (h[2]! >>> 24).toUInt8,
    h[3]!.toUInt8, (h[3]! >>> 8).toUInt8, (h[3]! >>> 16).toUInt8, (h[3]! >>> 24).toUInt8,
    h[4]!.toUInt8, (h[4]! >>> 8).toUInt8, (h[4]! >>> 16).toUInt8, (h[4]! >>> 24).toUInt8]

def ripemd160State (msg : ByteArray) : Array UInt32 := Id.run do
  let p := mdPadLE msg
  let mut h : Array UInt32 := #[0x67452301, 0xefcdab89, 0x98badcfe, 0x10325476, 0xc3d2e1f0]
  for i in [0:p.size / 64] do
    h := rmdCompress h p (64 * i)
  return h

def ripemd160BA (msg : ByteArray) : ByteArray := digestLE5 (ripemd160State msg)

/-- RIPEMD-160 on byte lists (20-byte digest) -/
def ripemd160 (msg : Bytes) : Bytes := (ripemd160BA (ByteArray.mk msg.toArray)).data.toList

/-- Bitcoin's `Hash160`: RIPEMD-160 of SHA-256 -/
def hash160 (msg : Bytes) : Bytes := (ripemd160BA (sha256BA (ByteArray.mk msg.toArray))).data.toList

end BtcVerif.Crypto
