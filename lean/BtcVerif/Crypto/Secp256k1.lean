/-
  The elliptic curve secp256k1 (SEC 2 v2 §2.4.1) and ECDSA over it (SEC 1 v2 §4.1), executable
  reference over `Nat` with Jacobian coordinates.  This is the independent reference against which
  the OpenSSL-backed parts of python-bitcoinlib are compared in the correspondence runs (T2); it is
  never unfolded in proofs.  Mathlib-free.

    y² = x³ + 7  over  F_p,   p = 2^256 − 2^32 − 977,   group order n (prime, cofactor 1)
-/
import BtcVerif.Basic.Bytes
import BtcVerif.Crypto.Der

namespace BtcVerif.Crypto.Secp256k1

/-! ### domain parameters -/

def p : Nat := 0xFFFFFFFFFFFFFFFFFFFFFFFFFFFFFFFFFFFFFFFFFFFFFFFFFFFFFFFEFFFFFC2F
def n : Nat := 0xFFFFFFFFFFFFFFFFFFFFFFFFFFFFFFFEBAAEDCE6AF48A03BBFD25E8CD0364141
def Gx : Nat := 0x79BE667EF9DCBBAC55A06295CE870B07029BFCDB2DCE28D959F2815B16F81798
def Gy : Nat := 0x483ADA7726A3C4655DA4FBFC0E1108A8FD17B448A68554199C47D08FFB10D4B8

/-- a point of the curve in affine coordinates, or the point at infinity -/
inductive Point
  | inf
  | aff (x y : Nat)
deriving DecidableEq, Repr, Inhabited

def G : Point := .aff Gx Gy

/-- affine curve equation with canonical coordinates -/
def onCurveXY (x y : Nat) : Bool := x < p && y < p && (y * y) % p == (x * x % p * x + 7) % p

def onCurve : Point → Bool
  | .inf => true
  | .aff x y => onCurveXY x y

/-! ### modular arithmetic -/

/-- `b ^ e mod m` by left-to-right square-and-multiply -/
def powMod (b e m : Nat) : Nat := Id.run do
  if m ≤ 1 then return 0
  let b := b % m
  let mut acc : Nat := 1
  let nb := if e = 0 then 0 else e.log2 + 1
  for i in [0:nb] do
    acc := acc * acc % m
    if e.testBit (nb - 1 - i) then acc := acc * b % m
  return acc

/-- inverse modulo a prime `m` (Fermat); `0 ↦ 0` -/
def invMod (a m : Nat) : Nat := powMod a (m - 2) m

/-! ### Jacobian arithmetic  (X, Y, Z) ↦ (X/Z², Y/Z³);  Z = 0 is infinity -/

structure JPoint where
  x : Nat
  y : Nat
  z : Nat
deriving Inhabited

def JPoint.inf : JPoint := ⟨1, 1, 0⟩

def toJ : Point → JPoint
  | .inf => JPoint.inf
  | .aff x y => ⟨x, y, 1⟩

def ofJ (q : JPoint) : Point :=
  if q.z = 0 then .inf else
    let zi := invMod q.z p
    let zi2 := zi * zi % p
    .aff (q.x * zi2 % p) (q.y * (zi2 * zi % p) % p)

private def p2 : Nat := 2 * p
private def p3 : Nat := 3 * p
private def p8 : Nat := 8 * p

/-- doubling for a = 0:  S = 4XY², M = 3X², X' = M² − 2S, Y' = M(S − X') − 8Y⁴, Z' = 2YZ.
    Coordinates of the argument are < p; reductions are delayed where the intermediate stays small. -/
def jDouble (q : JPoint) : JPoint :=
  if q.z = 0 || q.y = 0 then JPoint.inf else
    let a := q.x * q.x % p
    let b := q.y * q.y % p
    let c := b * b % p
    let d := 4 * (q.x * b) % p
    let e := 3 * a
    let f := e * e % p
    let x3 := (f + p2 - 2 * d) % p
    let y3 := (e * (d + p - x3) + p8 - 8 * c) % p
    let z3 := 2 * (q.y * q.z) % p
    ⟨x3, y3, z3⟩

/-- mixed addition: Jacobian `q` (coordinates < p) plus affine `(x2, y2)` (coordinates < p):
    H = x2·Z² − X, R = y2·Z³ − Y, X' = R² − H³ − 2XH², Y' = R(XH² − X') − YH³, Z' = ZH -/
def jAddAff (q : JPoint) (x2 y2 : Nat) : JPoint :=
  if q.z = 0 then ⟨x2, y2, 1⟩ else
    let z1z1 := q.z * q.z % p
    let u2 := x2 * z1z1 % p
    let s2 := y2 * (z1z1 * q.z % p) % p
    if u2 = q.x then
      if s2 = q.y then jDouble q else JPoint.inf
    else
      let h := u2 + p - q.x
      let r := s2 + p - q.y
      let hh := h * h % p
      let hhh := hh * h % p
      let v := q.x * hh % p
      let x3 := (r * r + p3 - hhh - 2 * v) % p
      let y3 := (r * (v + p - x3) + p - q.y * hhh % p) % p
      let z3 := q.z * h % p
      ⟨x3, y3, z3⟩

def jAddPoint (q : JPoint) : Point → JPoint
  | .inf => q
  | .aff x y => jAddAff q x y

/-! ### group operations on affine points -/

def neg : Point → Point
  | .inf => .inf
  | .aff x y => .aff x ((p - y) % p)

def double (P : Point) : Point := ofJ (jDouble (toJ P))

def add (P Q : Point) : Point := ofJ (jAddPoint (toJ P) Q)

/-- `k • P` by left-to-right double-and-add -/
def mulJ (k : Nat) (P : Point) : JPoint := Id.run do
  match P with
  | .inf => return JPoint.inf
  | .aff x y =>
    let mut acc := JPoint.inf
    let nb := if k = 0 then 0 else k.log2 + 1
    for i in [0:nb] do
      acc := jDouble acc
      if k.testBit (nb - 1 - i) then acc := jAddAff acc x y
    return acc

def mul (k : Nat) (P : Point) : Point := ofJ (mulJ k P)

def mulG (k : Nat) : Point := mul k G

/-- `a • P + b • Q` with one shared doubling chain (Shamir's trick) -/
def mulAdd2 (a : Nat) (P : Point) (b : Nat) (Q : Point) : Point := Id.run do
  let PQ := add P Q
  let m := if a ≥ b then a else b
  let nb := if m = 0 then 0 else m.log2 + 1
  let mut acc := JPoint.inf
  for i in [0:nb] do
    acc := jDouble acc
    let ba := a.testBit (nb - 1 - i)
    let bb := b.testBit (nb - 1 - i)
    if ba && bb then acc := jAddPoint acc PQ
    else if ba then acc := jAddPoint acc P
    else if bb then acc := jAddPoint acc Q
  return ofJ acc

/-! ### SEC 1 §2.3.3 / §2.3.4 point ↔ octet string -/

/-- 32-byte big-endian -/
def be32 (v : Nat) : Bytes := beBytes 32 v

/-- the point with abscissa `x` whose ordinate has the given parity, if any (p ≡ 3 mod 4) -/
def liftX (x : Nat) (odd : Bool) : Option Point :=
  if x ≥ p then none else
    let a := (x * x % p * x + 7) % p
    let y := powMod a ((p + 1) / 4) p % p
    if y * y % p != a then none
    else if y == 0 && odd then none                 -- (x, 0) has no odd representative (SEC 1 §2.3.4)
    else
      let y := if (y % 2 == 1) == odd then y else p - y
      some (.aff x y)

def encode (P : Point) (compressed : Bool) : Bytes :=
  match P with
  | .inf => [0]
  | .aff x y =>
    if compressed then (if y % 2 == 1 then 3 else 2) :: be32 x
    else 4 :: (be32 x ++ be32 y)

/-- Decoder for public keys: compressed `02/03 ‖ X`, uncompressed `04 ‖ X ‖ Y`, hybrid `06/07 ‖ X ‖ Y`
    (parity of Y must match the tag).  `none` when malformed, a coordinate is ≥ p, or the point is
    not on the curve.  The one-byte encoding of infinity is not a public key and yields `none`. -/
def decode (bs : Bytes) : Option Point :=
  match bs with
  | [] => none
  | tag :: body =>
    let t := tag.toNat
    if t == 2 || t == 3 then
      if body.length != 32 then none else liftX (beNat body) (t == 3)
    else if t == 4 || t == 6 || t == 7 then
      if body.length != 64 then none else
        let x := beNat (body.take 32)
        let y := beNat (body.drop 32)
        if !onCurveXY x y then none
        else if t != 4 && (y % 2 == 1) != (t == 7) then none
        else some (.aff x y)
    else none

/-- serialized public key of the secret scalar `k` -/
def pubkeyOf (k : Nat) (compressed : Bool) : Bytes := encode (mulG k) compressed

/-! ### ECDSA (SEC 1 §4.1.3, §4.1.4, §4.1.6) -/

/-- the integer a 32-byte message digest stands for -/
def digestNat (h : Bytes) : Nat := beNat h

/-- signature verification: `pub` the public point, `e` the digest integer (reduced mod n here),
    `(r, s)` the signature -/
def verify (pub : Point) (e : Nat) (r s : Nat) : Bool :=
  if r = 0 || r ≥ n || s = 0 || s ≥ n then false
  else if pub == .inf || !onCurve pub then false
  else
    let w := invMod s n
    let u1 := (e % n) * w % n
    let u2 := r * w % n
    match mulAdd2 u1 G u2 pub with
    | .inf => false
    | .aff x _ => x % n == r

/-- `s ≤ n/2` (BIP62 rule 5 / BIP146 LOW_S), with `s ≥ 1` -/
def isLowS (s : Nat) : Bool := 1 ≤ s && s ≤ n / 2

/-- deterministic signing with secret `d`, digest integer `e`, nonce `k`;
    returns `(r, s, recid)` with `recid = parity(R.y) + 2·[R.x ≥ n]` -/
def sign (d e k : Nat) : Option (Nat × Nat × Nat) :=
  if d = 0 || d ≥ n || k = 0 || k ≥ n then none else
  match mulG k with
  | .inf => none
  | .aff x y =>
    let r := x % n
    let s := invMod k n * ((e % n + r * d) % n) % n
    if r = 0 || s = 0 then none
    else some (r, s, y % 2 + (if x ≥ n then 2 else 0))

/-- the low-S form of a signature (the twin `(r, n − s)` verifies the same; its `recid` flips parity) -/
def toLowS (sig : Nat × Nat × Nat) : Nat × Nat × Nat :=
  let (r, s, recid) := sig
  if s > n / 2 then (r, n - s, recid ^^^ 1) else (r, s, recid)

def signLowS (d e k : Nat) : Option (Nat × Nat × Nat) := (sign d e k).map toLowS

/-- public-key recovery (SEC 1 §4.1.6; Bitcoin Core's `ECDSA_SIG_recover_key_GFp`):
    `x = r + ⌊recid/2⌋·n`, `R` the point with abscissa `x` and ordinate parity `recid mod 2`,
    `Q = r⁻¹ (s·R − e·G)` -/
def recover (e r s recid : Nat) : Option Point :=
  if r = 0 || r ≥ n || s = 0 || s ≥ n || recid ≥ 4 then none else
  let x := r + (recid / 2) * n
  match liftX x (recid % 2 == 1) with
  | none => none
  | some R =>
    let ri := invMod r n
    let u1 := (n - e % n) % n * ri % n
    let u2 := s * ri % n
    match mulAdd2 u1 G u2 R with
    | .inf => none
    | Q => some Q

end BtcVerif.Crypto.Secp256k1
