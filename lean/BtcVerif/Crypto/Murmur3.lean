/-
  MurmurHash3_x86_32 (Austin Appleby, smhasher MurmurHash3.cpp), executable reference.
  Never unfolded in proofs; agreement with `bitcoin.bloom.MurmurHash3` is validated by the
  correspondence runs (T2).  Mathlib-free.
-/
import BtcVerif.Basic.Bytes

namespace BtcVerif.Crypto

@[inline] private def mmRotl (x : UInt32) (n : UInt32) : UInt32 := (x <<< n) ||| (x >>> (32 - n))

@[inline] private def mmMixK (k : UInt32) : UInt32 :=
  (mmRotl (k * 0xcc9e2d51) 15) * 0x1b873593

/-- final avalanche `fmix32` -/
@[inline] private def mmFmix (h : UInt32) : UInt32 :=
  let h := h ^^^ (h >>> 16)
  let h := h * 0x85ebca6b
  let h := h ^^^ (h >>> 13)
  let h := h * 0xc2b2ae35
  h ^^^ (h >>> 16)

def murmur3BA (seed : UInt32) (data : ByteArray) : UInt32 := Id.run do
  let len := data.size
  let nblocks := len / 4
  let mut h := seed
  for i in [0:nblocks] do
    let o := 4 * i
    let k : UInt32 := data[o]!.toUInt32 ||| (data[o+1]!.toUInt32 <<< 8) |||
      (data[o+2]!.toUInt32 <<< 16) ||| (data[o+3]!.toUInt32 <<< 24)
    h := h ^^^ mmMixK k
    h := mmRotl h 13
    h := h * 5 + 0xe6546b64
  let t := 4 * nblocks
  let mut k1 : UInt32 := 0
  if len % 4 ≥ 3 then k1 := k1 ^^^ (data[t+2]!.toUInt32 <<< 16)
  if len % 4 ≥ 2 then k1 := k1 ^^^ (data[t+1]!.toUInt32 <<< 8)
  if len % 4 ≥ 1 then
    k1 := k1 ^^^ data[t]!.toUInt32
    h := h ^^^ mmMixK k1
  h := h ^^^ (UInt32.ofNat len)
  return mmFmix h

/-- MurmurHash3 x86_32 of a byte list under a 32-bit seed -/
def murmur3 (seed : UInt32) (data : Bytes) : UInt32 := murmur3BA seed (ByteArray.mk data.toArray)

end BtcVerif.Crypto
