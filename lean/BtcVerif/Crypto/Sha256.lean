/-
  SHA-256 (FIPS 180-4), executable reference.  Never unfolded in proofs: theorems treat `sha256`
  as an opaque function used identically by Model and Spec; its agreement with hashlib is
  validated by the correspondence runs (T2).  Mathlib-free.
-/
import BtcVerif.Basic.Bytes

namespace BtcVerif.Crypto

private def k256 : Array UInt32 := #[
  0x428a2f98, 0x71374491, 0xb5c0fbcf, 0xe9b5dba5, 0x3956c25b, 0x59f111f1, 0x923f82a4, 0xab1c5ed5,
  0xd807aa98, 0x12835b01, 0x243185be, 0x550c7dc3, 0x72be5d74, 0x80deb1fe, 0x9bdc06a7, 0xc19bf174,
  0xe49b69c1, 0xefbe4786, 0x0fc19dc6, 0x240ca1cc, 0x2de92c6f, 0x4a7484aa, 0x5cb0a9dc, 0x76f988da,
  0x983e5152, 0xa831c66d, 0xb00327c8, 0xbf597fc7, 0xc6e00bf3, 0xd5a79147, 0x06ca6351, 0x14292967,
  0x27b70a85, 0x2e1b2138, 0x4d2c6dfc, 0x53380d13, 0x650a7354, 0x766a0abb, 0x81c2c92e, 0x92722c85,
  0xa2bfe8a1, 0xa81a664b, 0xc24b8b70, 0xc76c51a3, 0xd192e819, 0xd6990624, 0xf40e3585, 0x106aa070,
  0x19a4c116, 0x1e376c08, 0x2748774c, 0x34b0bcb5, 0x391c0cb3, 0x4ed8aa4a, 0x5b9cca4f, 0x682e6ff3,
  0x748f82ee, 0x78a5636f, 0x84c87814, 0x8cc70208, 0x90befffa, 0xa4506ceb, 0xbef9a3f7, 0xc67178f2]

@[inline] private def rotr (x : UInt32) (n : UInt32) : UInt32 := (x >>> n) ||| (x <<< (32 - n))

private def h0 : Array UInt32 := #[
  0x6a09e667, 0xbb67ae85, 0x3c6ef372, 0xa54ff53a, 0x510e527f, 0x9b05688c, 0x1f83d9ab, 0x5be0cd19]

/-- MD-style padding with a big-endian 64-bit bit length -/
def mdPadBE (msg : ByteArray) : ByteArray := Id.run do
  let bitLen : Nat := msg.size * 8
  let mut out := msg.push 0x80
  while out.size % 64 != 56 do
    out := out.push 0
  for i in [0:8] do
    out := out.push (UInt8.ofNat ((bitLen >>> (8 * (7 - i))) % 256))
  return out

private def be32 (b : ByteArray) (i : Nat) : UInt32 :=
  (b[i]!.toUInt32 <<< 24) ||| (b[i+1]!.toUInt32 <<< 16) ||| (b[i+2]!.toUInt32 <<< 8) ||| b[i+3]!.toUInt32

private def compress (h : Array UInt32) (blk : ByteArray) (off : Nat) : Array UInt32 := Id.run do
  let mut w : Array UInt32 := Array.mkEmpty 64
  for t in [0:16] do
    w := w.push (be32 blk (off + 4 * t))
  for t in [16:64] do
    let x15 := w[t-15]!
    let x2 := w[t-2]!
    let s0 := rotr x15 7 ^^^ rotr x15 18 ^^^ (x15 >>> 3)
    let s1 := rotr x2 17 ^^^ rotr x2 19 ^^^ (x2 >>> 10)
    w := w.push (w[t-16]! + s0 + w[t-7]! + s1)
  let mut a := h[0]!; let mut b := h[1]!; let mut c := h[2]!; let mut d := h[3]!
  let mut e := h[4]!; let mut f := h[5]!; let mut g := h[6]!; let mut hh := h[7]!
  for t in [0:64] do
    let S1 := rotr e 6 ^^^ rotr e 11 ^^^ rotr e 25
    let ch := (e &&& f) ^^^ ((~~~ e) &&& g)
    let t1 := hh + S1 + ch + k256[t]! + w[t]!
    let S0 := rotr a 2 ^^^ rotr a 13 ^^^ rotr a 22
    let mj := (a &&& b) ^^^ (a &&& c) ^^^ (b &&& c)
    let t2 := S0 + mj
    hh := g; g := f; f := e; e := d + t1; d := c; c := b; b := a; a := t1 + t2
  return #[h[0]! + a, h[1]! + b, h[2]! + c, h[3]! + d, h[4]! + e, h[5]! + f, h[6]! + g, h[7]! + hh]

/-- the eight state words, big-endian: 32 bytes by construction -/
def digestBE8 (h : Array UInt32) : ByteArray := ByteArray.mk #[
    (h[0]! >>> 24).toUInt8, (h[0]! >>> 16).toUInt8, (h[0]! >>> 8).toUInt8, h[0]!.toUInt8,
    (h[1]! >>> 24).toUInt8, (h[1]! >>> 16).toUInt8, (h[1]! >>> 8).toUInt8, h[1]!.toUInt8,
    (h[2]! >>> 24).toUInt8, (h[2]! >>> 16).toUInt8, (h[2]! >>> 8).toUInt8, h[2]!.toUInt8,
    (h[3]! >>> 24).toUInt8, (h[3]! >>> 16).toUInt8, (h[3]! >>> 8).toUInt8, h[3]!.toUInt8,
    (h[4]! >>> 24).toUInt8, (h[4]! >>> 16).toUInt8, (h[4]! >>> 8).toUInt8, h[4]!.toUInt8,
    (h[5]! >>> 24).toUInt8, (h[5]! >>> 16).toUInt8, (h[5]! >>> 8).toUInt8, h[5]!.toUInt8,
    (h[6]! >>> 24).toUInt8, (h[6]! >>> 16).toUInt8, (h[6]! >>> 8).toUInt8, h[6]!.toUInt8,
    (h[7]! >>> 24).toUInt8, (h[7]! >>> 16).toUInt8, (h[7]! >>> 8).toUInt8, h[7]!.toUInt8]

/-- the chaining value after all blocks of the padded message -/
def sha256State (msg : ByteArray) : Array UInt32 := Id.run do
  let p := mdPadBE msg
  let mut h := h0
  for i in [0:p.size / 64] do
    h := compress h p (64 * i)
  return h

def sha256BA (msg : ByteArray) : ByteArray := digestBE8 (sha256State msg)

/-- SHA-256 on byte lists -/
def sha256 (msg : Bytes) : Bytes := (sha256BA (ByteArray.mk msg.toArray)).data.toList

/-- Bitcoin's `Hash`: SHA-256 applied twice -/
def hash256 (msg : Bytes) : Bytes := (sha256BA (sha256BA (ByteArray.mk msg.toArray))).data.toList

end BtcVerif.Crypto
