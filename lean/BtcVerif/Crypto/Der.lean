/-
  Strict DER encoding of ECDSA signatures  SEQUENCE { INTEGER r, INTEGER s }  (X.690 §8.3/§10,
  restricted as in BIP66): one-byte (short form) lengths, minimal two's-complement non-negative
  integers, nothing after the sequence.  Short-form lengths cover every pair r, s < 2^256 (and more),
  which is all ECDSA over secp256k1 needs.  Written on lists so that the round-trip theorems in
  Proofs/Der.lean can unfold it.  Mathlib-free.
-/
import BtcVerif.Basic.Bytes

namespace BtcVerif.Crypto.Secp256k1

/-- minimal big-endian magnitude: no leading zero byte; `0 ↦ []` -/
def beMin (v : Nat) : Bytes :=
  if _h : v = 0 then [] else beMin (v / 256) ++ [UInt8.ofNat (v % 256)]
decreasing_by omega

/-- content octets of a DER INTEGER with non-negative value `v` -/
def derIntBody (v : Nat) : Bytes :=
  match beMin v with
  | [] => [0]
  | b :: bs => if b.toNat ≥ 128 then 0 :: b :: bs else b :: bs

/-- `02 len body` -/
def derInt (v : Nat) : Bytes :=
  let body := derIntBody v
  0x02 :: UInt8.ofNat body.length :: body

/-- `30 len (02 lenR R) (02 lenS S)`; meaningful when the total content length is below 128
    (true for all r, s < 2^256: at most 70) -/
def derEncode (r s : Nat) : Bytes :=
  let c := derInt r ++ derInt s
  0x30 :: UInt8.ofNat c.length :: c

/-- does a content-octet string denote a non-negative integer in minimal form? -/
def derIntBodyOk : Bytes → Bool
  | [] => false                                        -- zero-length integer
  | [b] => b.toNat < 128                               -- negative
  | b :: c :: _ => b.toNat < 128 && !(b.toNat = 0 && c.toNat < 128)   -- negative / padded

/-- parse one `02 len body` element strictly; returns the value and the remaining bytes -/
def derDecodeInt : Bytes → Option (Nat × Bytes)
  | tag :: l :: rest =>
      if tag.toNat ≠ 2 then none
      else if l.toNat ≥ 128 then none                  -- long-form length: not accepted
      else if rest.length < l.toNat then none
      else
        let body := rest.take l.toNat
        if derIntBodyOk body then some (beNat body, rest.drop l.toNat) else none
  | _ => none

/-- strict DER signature decoder: `some (r, s)` exactly on canonical encodings -/
def derDecodeStrict : Bytes → Option (Nat × Nat)
  | tag :: l :: rest =>
      if tag.toNat ≠ 0x30 then none
      else if l.toNat ≥ 128 then none
      else if rest.length ≠ l.toNat then none          -- truncated or trailing bytes
      else
        match derDecodeInt rest with
        | some (r, rest') =>
            match derDecodeInt rest' with
            | some (s, []) => some (r, s)
            | _ => none
        | none => none
  | _ => none

end BtcVerif.Crypto.Secp256k1
