/-
  SHA-1 (FIPS 180-4), executable reference.  Never unfolded in proofs; its agreement with hashlib
  is validated by the correspondence runs (T2).  Mathlib-free.
-/
import BtcVerif.Basic.Bytes
import BtcVerif.Crypto.Sha256

namespace BtcVerif.Crypto

@[inline] private def rotl1 (x : UInt32) (n : UInt32) : UInt32 := (x <<< n) ||| (x >>> (32 - n))

private def be32' (b : ByteArray) (i : Nat) : UInt32 :=
  (b[i]!.toUInt32 <<< 24) ||| (b[i+1]!.toUInt32 <<< 16) ||| (b[i+2]!.toUInt32 <<< 8) ||| b[i+3]!.toUInt32

private def sha1Compress (h : Array UInt32) (blk : ByteArray) (off : Nat) : Array UInt32 := Id.run do
  let mut w : Array UInt32 := Array.mkEmpty 80
  for t in [0:16] do
    w := w.push (be32' blk (off + 4 * t))
  for t in [16:80] do
    w := w.push (rotl1 (w[t-3]! ^^^ w[t-8]! ^^^ w[t-14]! ^^^ w[t-16]!) 1)
  let mut a := h[0]!; let mut b := h[1]!; let mut c := h[2]!; let mut d := h[3]!; let mut e := h[4]!
  for t in [0:80] do
    let (f, k) : UInt32 × UInt32 :=
      if t < 20 then ((b &&& c) ||| ((~~~ b) &&& d), 0x5a827999)
      else if t < 40 then (b ^^^ c ^^^ d, 0x6ed9eba1)
      else if t < 60 then ((b &&& c) ||| (b &&& d) ||| (c &&& d), 0x8f1bbcdc)
      else (b ^^^ c ^^^ d, 0xca62c1d6)
    let tmp := rotl1 a 5 + f + e + k + w[t]!
    e := d; d := c; c := rotl1 b 30; b := a; a := tmp
  return #[h[0]! + a, h[1]! + b, h[2]! + c, h[3]! + d, h[4]! + e]

/-- the five state words, big-endian: 20 bytes by construction -/
def digestBE5 (h : Array UInt32) : ByteArray := ByteArray.mk #[
    (h[0]! >>> 24).toUInt8, (h[0]! >>> 16).toUInt8, (h[0]! >>> 8).toUInt8, h[0]!.toUInt8,
    (h[1]! >>> 24).toUInt8, (h[1]! >>> 16).toUInt8, (h[1]! >>> 8).toUInt8, h[1]!.toUInt8,
    (h[2]! >>> 24).toUInt8, (h[2]! >>> 16).toUInt8, (h[2]! >>> 8).toUInt8, h[2]!.toUInt8,
    (h[3]! >>> 24).toUInt8, (h[3]! >>> 16).toUInt8, (h[3]! >>> 8).toUInt8, h[3]!.toUInt8,
    (h[4]! >>> 24).toUInt8, (h[4]! >>> 16).toUInt8, (h[4]! >>> 8).toUInt8, h[4]!.toUInt8]

def sha1State (msg : ByteArray) : Array UInt32 := Id.run do
  let p := mdPadBE msg
  let mut h : Array UInt32 := #[0x67452301, 0xefcdab89, 0x98badcfe, 0x10325476, 0xc3d2e1f0]
  for i in [0:p.size / 64] do
    h := sha1Compress h p (64 * i)
  return h

def sha1BA (msg : ByteArray) : ByteArray := digestBE5 (sha1State msg)

/-- SHA-1 on byte lists (20-byte digest) -/
def sha1 (msg : Bytes) : Bytes := (sha1BA (ByteArray.mk msg.toArray)).data.toList

end BtcVerif.Crypto
