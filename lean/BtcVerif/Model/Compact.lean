/-
  C17 — compact targets and proof of work: `Model.*` mirrors bitcoin/core/serialize.py
  (uint256_from_compact, compact_from_uint256, uint256_from_str) and bitcoin/core/__init__.py
  (CheckProofOfWork).  The reference definitions are in Spec/Compact.lean.

  Python's `x & (2^k-1)`, `x >> k`, `x << k` on non-negative ints are written `x % 2^k`,
  `x / 2^k`, `x * 2^k`; `x & 0x00800000` (a one-bit test) is `(x / 2^23) % 2`.
  Mathlib-free (linked into btcmodel).
-/
import BtcVerif.Basic.NatBytes

namespace BtcVerif

namespace Model

/-- serialize.py `uint256_from_compact` -/
def fromCompact (c : Nat) : Nat :=
  let nb := (c / 2 ^ 24) % 256
  if nb ≤ 3 then (c % 2 ^ 24) / 2 ^ (8 * (3 - nb))
  else (c % 2 ^ 24) * 2 ^ (8 * (nb - 3))

/-- serialize.py `compact_from_uint256` -/
def toCompact (v : Nat) : Nat :=
  let nb := nbytes v
  let compact :=
    if nb ≤ 3 then (v % 2 ^ 24) * 2 ^ (8 * (3 - nb))
    else (v / 2 ^ (8 * (nb - 3))) % 2 ^ 24
  -- `if compact & 0x00800000: compact >>= 8; nbytes += 1`
  if (compact / 2 ^ 23) % 2 = 1 then (compact / 2 ^ 8) + (nb + 1) * 2 ^ 24
  else compact + nb * 2 ^ 24

/-- serialize.py `uint256_from_str`: `struct.unpack("<IIIIIIII", s[:32])` raises `struct.error`
    when fewer than 32 bytes are available -/
def uint256FromStr (h : Bytes) : Option Nat :=
  if h.length < 32 then none else some (leNat (h.take 32))

inductive PowResult
  | ok
  | errPow       -- CheckProofOfWorkError (validation-error family)
  | pyStructError  -- struct.error escaping from uint256_from_str (hash shorter than 32 bytes)
deriving DecidableEq, Repr

/-- core/__init__.py `CheckProofOfWork` (with the sign-bit guard; D13) -/
def checkPoW (limit : Nat) (hash : Bytes) (nBits : Nat) : PowResult :=
  if (nBits / 2 ^ 23) % 2 = 1 then .errPow
  else
    let target := fromCompact nBits
    if ¬ (0 < target ∧ target ≤ limit) then .errPow
    else
      match uint256FromStr hash with
      | none => .pyStructError
      | some h => if h > target then .errPow else .ok

end Model

end BtcVerif
