/-
  C17 — compact targets and proof of work.

  `Model.*` mirrors bitcoin/core/serialize.py (uint256_from_compact, compact_from_uint256,
  uint256_from_str) and bitcoin/core/__init__.py (CheckProofOfWork).
  `Spec.*` is Bitcoin Core's arith_uint256::SetCompact / GetCompact and pow.cpp CheckProofOfWork.

  Python's `x & (2^k-1)`, `x >> k`, `x << k` on non-negative ints are written `x % 2^k`,
  `x / 2^k`, `x * 2^k`; `x & 0x00800000` (a one-bit test) is `(x / 2^23) % 2`.
  Mathlib-free (linked into btcmodel).
-/
import BtcVerif.Basic.Bytes

namespace BtcVerif

/-- CPython's `int.bit_length()` for non-negative ints -/
def bitLength (v : Nat) : Nat := if v = 0 then 0 else Nat.log2 v + 1

/-- number of bytes of the minimal big-endian representation; Python `(v.bit_length()+7) >> 3`
    (`Proofs/Compact.lean: nbytes_eq_bitlength` proves `nbytes v = (bitLength v + 7) / 8`) -/
def nbytes (v : Nat) : Nat := if h : v = 0 then 0 else nbytes (v / 256) + 1
decreasing_by omega

namespace Model

/-- serialize.py `uint256_from_compact` -/
def fromCompact (c : Nat) : Nat :=
  let nb := (c / 2 ^ 24) % 256
  if nb ≤ 3 then (c % 2 ^ 24) / 2 ^ (8 * (3 - nb))
  else (c % 2 ^ 24) * 2 ^ (8 * (nb - 3))

/-- serialize.py `compact_from_uint256` -/
def toCompact (v : Nat) : Nat :=
  let nb := nbytes v
  let compact :=
    if nb ≤ 3 then (v % 2 ^ 24) * 2 ^ (8 * (3 - nb))
    else (v / 2 ^ (8 * (nb - 3))) % 2 ^ 24
  -- `if compact & 0x00800000: compact >>= 8; nbytes += 1`
  if (compact / 2 ^ 23) % 2 = 1 then (compact / 2 ^ 8) + (nb + 1) * 2 ^ 24
  else compact + nb * 2 ^ 24

/-- serialize.py `uint256_from_str`: `struct.unpack("<IIIIIIII", s[:32])` raises `struct.error`
    when fewer than 32 bytes are available -/
def uint256FromStr (h : Bytes) : Option Nat :=
  if h.length < 32 then none else some (leNat (h.take 32))

inductive PowResult
  | ok
  | errPow       -- CheckProofOfWorkError (validation-error family)
  | pyStructError  -- struct.error escaping from uint256_from_str (hash shorter than 32 bytes)
deriving DecidableEq, Repr

/-- core/__init__.py `CheckProofOfWork` (with the sign-bit guard; D13) -/
def checkPoW (limit : Nat) (hash : Bytes) (nBits : Nat) : PowResult :=
  if (nBits / 2 ^ 23) % 2 = 1 then .errPow
  else
    let target := fromCompact nBits
    if ¬ (0 < target ∧ target ≤ limit) then .errPow
    else
      match uint256FromStr hash with
      | none => .pyStructError
      | some h => if h > target then .errPow else .ok

end Model

namespace Spec

/-- arith_uint256::SetCompact, value (256-bit arithmetic) -/
def compactValue (c : Nat) : Nat :=
  let nSize := c / 2 ^ 24
  let nWord := c % 2 ^ 23
  if nSize ≤ 3 then nWord / 2 ^ (8 * (3 - nSize))
  else (nWord * 2 ^ (8 * (nSize - 3))) % 2 ^ 256

/-- SetCompact's `fNegative` -/
def compactNeg (c : Nat) : Prop := c % 2 ^ 23 ≠ 0 ∧ (c / 2 ^ 23) % 2 = 1

/-- SetCompact's `fOverflow` -/
def compactOvf (c : Nat) : Prop :=
  let nSize := c / 2 ^ 24
  let nWord := c % 2 ^ 23
  nWord ≠ 0 ∧ (nSize > 34 ∨ (nWord > 0xff ∧ nSize > 33) ∨ (nWord > 0xffff ∧ nSize > 32))

instance : DecidablePred compactNeg := fun c => by unfold compactNeg; exact inferInstance
instance : DecidablePred compactOvf := fun c => by unfold compactOvf; exact inferInstance

/-- pow.cpp CheckProofOfWork -/
def powValid (limit : Nat) (hash : Bytes) (nBits : Nat) : Prop :=
  ¬ compactNeg nBits ∧ ¬ compactOvf nBits ∧ compactValue nBits ≠ 0 ∧
    compactValue nBits ≤ limit ∧ leNat hash ≤ compactValue nBits

instance (l : Nat) (h : Bytes) (b : Nat) : Decidable (powValid l h b) := by
  unfold powValid; exact inferInstance

/-- mantissa * 256^(exponent-3), floor for exponents below 3 -/
def decodeMantExp (mant exp : Nat) : Nat :=
  if exp ≤ 3 then mant / 256 ^ (3 - exp) else mant * 256 ^ (exp - 3)

/-- "truncated to its three most significant bytes", over the sign-magnitude representation:
    when the top byte is ≥ 0x80 a leading 00 byte is one of the three. -/
def truncTop3 (v : Nat) : Nat :=
  let nb := nbytes v
  if v / 256 ^ (nb - 1) ≥ 0x80 then
    (if nb ≤ 2 then v else (v / 256 ^ (nb - 2)) * 256 ^ (nb - 2))
  else
    (if nb ≤ 3 then v else (v / 256 ^ (nb - 3)) * 256 ^ (nb - 3))

/-- canonical compact values: what GetCompact can produce -/
def canonical (c : Nat) : Prop :=
  c = 0 ∨
  (let e := c / 2 ^ 24
   let m := c % 2 ^ 24
   1 ≤ e ∧ e ≤ 255 ∧ 0x8000 ≤ m ∧ m < 0x800000 ∧ m % 256 ^ (3 - e) = 0)

instance : DecidablePred canonical := fun c => by unfold canonical; exact inferInstance

end Spec

end BtcVerif
