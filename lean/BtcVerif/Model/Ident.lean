/-
  C02 — identifiers.  `Model.Ident.*` mirrors CTransaction.GetTxid, Serializable.GetHash,
  CBlock.get_header / CBlock.GetHash, Serializable.__eq__ / __hash__ (bitcoin/core/__init__.py,
  bitcoin/core/serialize.py).  The hash function is a parameter (`…With H`); the instances used
  by the driver fix it to SHA-256d.  Mathlib-free.
-/
import BtcVerif.Model.Wire
import BtcVerif.Crypto.Sha256

namespace BtcVerif.Model.Ident
open BtcVerif BtcVerif.Model.Wire

/-- `self.wit != CTxWitness()`: `CTxWitness.__eq__` is `Serializable.__eq__`, i.e. the two
    *serialisations* are compared (`CTxWitness().serialize() = b''`). -/
def witNeDefault (w : List WitStack) : Res Bool := do
  let a ← serWitness w
  let b ← serWitness []
  pure (a != b)

/-- Does `CTransaction(self.vin, self.vout, self.nLockTime, self.nVersion)` — the stripped copy built
    inside `GetTxid` — pass its constructors?  They raise `ValueError` (and nothing else):
    `CTransaction.__init__` tests `0 <= nLockTime <= 0xffffffff`; for every input that is not already
    an immutable `CTxIn`, `CTxIn.from_txin` rebuilds it through `COutPoint.__init__` (32-byte hash,
    `0 <= n <= 0xffffffff`) and `CTxIn.__init__` (`0 <= nSequence <= 0xffffffff`).  (An immutable
    input was validated when it was built, so the test is vacuous for it; outputs are not validated.)
    Same predicate as `Model.Merkle.ctorValid` (C15) and `Spec.ValueSem.validTx` (C09). -/
def ctorValid (t : Tx) : Bool :=
  decide (t.nLockTime ≤ 0xffffffff) &&
    t.vin.all (fun i => (i.prevout.hash.length == 32 && decide (i.prevout.n ≤ 0xffffffff)) &&
      decide (i.nSequence ≤ 0xffffffff))

/-- `CTransaction.GetTxid`.  In the first branch the stripped transaction is rebuilt through the
    validating constructors (`ctorValid`), before anything is serialised. -/
def getTxidWith (H : Bytes → Bytes) (t : Tx) : Res Bytes := do
  if (← witNeDefault t.wit) then
    if !ctorValid t then throw .valueerr
    let s ← serTx { t with wit := [] }
    pure (H s)
  else
    let s ← serTx t
    pure (H s)

/-- `Serializable.GetHash` on a transaction (the witness hash, "wtxid") -/
def getHashWith (H : Bytes → Bytes) (t : Tx) : Res Bytes := do
  let s ← serTx t
  pure (H s)

/-- `CBlockHeader.GetHash` -/
def headerHashWith (H : Bytes → Bytes) (h : Header) : Res Bytes := do
  let s ← serHeader h
  pure (H s)

/-- `CBlock.get_header()`: the `CBlockHeader` constructor asserts both hash lengths -/
def getHeader (b : Block) : Res Header := do
  if b.hdr.hashPrevBlock.length ≠ 32 then throw assertionError
  if b.hdr.hashMerkleRoot.length ≠ 32 then throw assertionError
  pure b.hdr

/-- `CBlock.GetHash`: `self.get_header().GetHash()` -/
def blockHashWith (H : Bytes → Bytes) (b : Block) : Res Bytes := do
  let h ← getHeader b
  headerHashWith H h

def getTxid : Tx → Res Bytes := getTxidWith Crypto.hash256
def getHash : Tx → Res Bytes := getHashWith Crypto.hash256
def headerHash : Header → Res Bytes := headerHashWith Crypto.hash256
def blockHash : Block → Res Bytes := blockHashWith Crypto.hash256

/-! ### equality and Python hash of the mutable / immutable pair -/

/-- which of the two Python classes an object belongs to -/
inductive Cls
  | immutable
  | mutable
deriving DecidableEq, Repr

/-- a transaction object: class tag and field values -/
structure TxObj where
  cls : Cls
  val : Tx

/-- `Serializable.__eq__`: `CMutableTransaction` is a subclass of `CTransaction`, so the
    `isinstance` test never yields `NotImplemented` for this pair of classes; what is compared is
    `self.serialize() == other.serialize()`. -/
def pyEq (a b : TxObj) : Res Bool := do
  let x ← serTx a.val
  let y ← serTx b.val
  pure (x == y)

/-- `Serializable.__hash__`: `hash(self.serialize())`; `pyHash` is CPython's hash of `bytes` -/
def pyHashWith (pyHash : Bytes → Int) (a : TxObj) : Res Int := do
  let x ← serTx a.val
  pure (pyHash x)

/-- `CMutableTransaction.__init__` default `witness=None`: one empty stack per input.  It is what
    `CMutableTransaction.stream_deserialize` yields on the legacy path (`cls(vin, vout, nLockTime,
    nVersion)`); on the extended path the parsed witness is passed explicitly. -/
def mutableDefaultWit (t : Tx) : Tx :=
  if t.wit.isEmpty then { t with wit := List.replicate t.vin.length [] } else t

/-- `CMutableTransaction.stream_deserialize` -/
def deTxMutable : Parser Tx := fun s => do
  let (t, r) ← deTx s
  pure (mutableDefaultWit t, r)

/-! ### every serialisable class: `Serializable.GetHash / __eq__ / __hash__` on the component objects -/

/-- the field values of an object of any of the serialisable classes of bitcoin/core (the mutable and
    the immutable class of a pair carry the same field values; the class is a separate tag) -/
inductive Obj
  | outPoint (o : OutPoint)       -- COutPoint / CMutableOutPoint
  | txIn (i : TxIn)               -- CTxIn / CMutableTxIn
  | txOut (o : TxOut)             -- CTxOut / CMutableTxOut
  | scriptWit (s : WitStack)      -- CScriptWitness
  | inWit (s : WitStack)          -- CTxInWitness
  | wit (w : List WitStack)       -- CTxWitness
  | tx (t : Tx)                   -- CTransaction / CMutableTransaction
  | header (h : Header)           -- CBlockHeader
  | block (b : Block)             -- CBlock

/-- `obj.serialize()` -/
def Obj.ser : Obj → Res Bytes
  | .outPoint o => serOutPoint o
  | .txIn i => serTxIn i
  | .txOut o => serTxOut o
  | .scriptWit s => serWitStack s
  | .inWit s => serWitStack s
  | .wit w => serWitness w
  | .tx t => serTx t
  | .header h => serHeader h
  | .block b => serBlock b

/-- `obj.GetHash()`: `Hash(self.serialize())` for every class except `CBlock`, which hashes its header -/
def Obj.getHashWith (H : Bytes → Bytes) : Obj → Res Bytes
  | .block b => blockHashWith H b
  | o => do
      let s ← o.ser
      pure (H s)

/-- an object: class tag and field values -/
structure PyObj where
  cls : Cls
  val : Obj

/-- the class families related by `isinstance`: a mutable class derives from its immutable twin, and
    `CBlock` derives from `CBlockHeader`; no other two serialisable classes are related -/
inductive Family
  | outPoint | txIn | txOut | scriptWit | inWit | wit | tx | header
deriving DecidableEq, Repr

def Obj.family : Obj → Family
  | .outPoint _ => .outPoint
  | .txIn _ => .txIn
  | .txOut _ => .txOut
  | .scriptWit _ => .scriptWit
  | .inWit _ => .inWit
  | .wit _ => .wit
  | .tx _ => .tx
  | .header _ => .header
  | .block _ => .header

/-- `a == b` with `Serializable.__eq__`:
    `if not isinstance(other, self.__class__) and not isinstance(self, other.__class__): return NotImplemented`
    — for classes of different families both `a.__eq__(b)` and the reflected `b.__eq__(a)` return
    `NotImplemented`, so Python falls back to identity and answers `False` without serialising
    anything.  Within a family (mutable/immutable twins, header/block) the serialisations are compared. -/
def objEq (a b : PyObj) : Res Bool :=
  if a.val.family ≠ b.val.family then pure false
  else do
    let x ← a.val.ser
    let y ← b.val.ser
    pure (x == y)

/-- `Serializable.__hash__` / `ImmutableSerializable.__hash__`: `hash(self.serialize())` -/
def objPyHashWith (pyHash : Bytes → Int) (a : PyObj) : Res Int := do
  let x ← a.val.ser
  pure (pyHash x)

end BtcVerif.Model.Ident
