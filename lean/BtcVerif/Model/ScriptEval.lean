/-
  C06 / C07 — model of bitcoin/core/scripteval.py AS WRITTEN (for the repaired code: D4 — the three
  FIXME sites push b"" — and D5 — no `continue` after a data push).

  Mirrors `_EvalScript`, `_CheckMultiSig`, `_CheckSig`, `_BinOp`, `_UnaryOp`, `_CastToBool`,
  `_CastToBigNum`, `_CheckExec`, `EvalScript`, `VerifyScript`, together with the helpers they call:
  `CScript.raw_iter` (Model/ScriptIter, consumed lazily: the error surfaces when the loop reaches
  it), `FindAndDelete`, `CScriptOp.encode_op_pushdata`, `CScript.is_p2sh`, `CScript.is_push_only`,
  `_bignum.bn2vch / vch2bn` (through the MPI route) and the index guards of `RawSignatureHash`.

  The Python lists `stack`, `altstack`, `vfExec` are kept TOP-FIRST (the code only ever addresses
  them relative to their end).  `getTop? l k` is `l[-k]`, `delTop? l k` is `del l[-k]`,
  `setTop? l k v` is `l[-k] = v`, `pop?` is `l.pop()`, `insertBelowTop` is
  `l.insert(len(l) - 2, v)`; each returns `none` exactly where CPython raises IndexError
  (wrap-around for k ≤ 0 included), and `none` becomes the explicit outcome `py "IndexError"`.
  Every other place where Python could raise a non-library exception is explicit as well:
  `OPCODE_NAMES[...]` (KeyError), the two `assert`s of VerifyScript (the CLEANSTACK one is known
  finding D6), the unbound `stackCopy`, `struct.pack` in vch2mpi, ValueError in
  encode_op_pushdata, whatever RawSignatureHash raises (`Ctx.sigHash`; negative `inIdx`: D7), the
  `else: raise AssertionError` arms of `_UnaryOp` / `_BinOp`.
  Mathlib-free (compiled into btcmodel).
-/
import BtcVerif.Model.ScriptIter
import BtcVerif.Spec.Opcodes
import BtcVerif.Spec.ScriptEnv

set_option linter.unusedVariables false

namespace BtcVerif.Model.ScriptEval
open BtcVerif BtcVerif.Spec BtcVerif.Spec.Script BtcVerif.Model.Script

/-! ### Python list operations on a top-first list -/

/-- `l[-k]` -/
def getTop? {α} (l : List α) (k : Int) : Option α :=
  if 1 ≤ k then l[(k - 1).toNat]?
  else  -- `-k` is a non-negative index counted from the bottom
    (if (-k).toNat < l.length then l[l.length - 1 - (-k).toNat]? else none)

/-- position (from the top) that `l[-k]` denotes, when it exists -/
def topPos? {α} (l : List α) (k : Int) : Option Nat :=
  if 1 ≤ k then (if (k - 1).toNat < l.length then some (k - 1).toNat else none)
  else (if (-k).toNat < l.length then some (l.length - 1 - (-k).toNat) else none)

/-- `del l[-k]` -/
def delTop? {α} (l : List α) (k : Int) : Option (List α) :=
  (topPos? l k).map l.eraseIdx

/-- `l[-k] = v` -/
def setTop? {α} (l : List α) (k : Int) (v : α) : Option (List α) :=
  (topPos? l k).map (fun i => l.set i v)

/-- `l.pop()` -/
def pop? {α} : List α → Option (α × List α)
  | [] => none
  | x :: r => some (x, r)

/-- `l.insert(len(l) - 2, v)`: never raises; a negative index counts from the end and is clamped -/
def insertBelowTop {α} (l : List α) (v : α) : List α := l.take 2 ++ v :: l.drop 2

/-! ### outcomes -/

/-- the state an `EvalScriptError` carries (`stack`, `altstack` are the live list objects, so
    their contents are those at the moment of the raise) -/
structure Captured where
  stack : List Bytes
  altstack : List Bytes
  nOpCount : Nat
deriving DecidableEq, Repr

inductive Err
  | eval (cap : Captured)       -- EvalScriptError and subclasses (ValidationError family)
  | verify                      -- VerifyScriptError (ValidationError family)
  | invalid (cap : Captured)    -- CScriptInvalidError from a raw_iter, before EvalScript wraps it
  | py (cls : String)           -- any other Python exception
deriving DecidableEq, Repr

def Err.isValidation : Err → Bool
  | .eval _ => true
  | .verify => true
  | _ => false

/-- the family of a class name that came through `excClass` (a plain ValueError of `from_tx` is the
    family `valueerr`, not a stray `py:` class) -/
def excOfClass (c : String) : Exc :=
  if c = "ValueError" then .valueerr
  else match [Exc.trunc, .sererr, .validation, .addrerr, .b58err, .b58checksum, .bech32err, .rpcerr].find?
      (fun e => e.family == c) with
    | some e => e
    | none => .py c

def Err.toExc : Err → Exc
  | .eval _ => .validation
  | .verify => .validation
  | .invalid _ => .invalidscript
  | .py c => excOfClass c

abbrev M := Except Err

structure St where
  stack : List Bytes
  alt : List Bytes
  vfExec : List Bool
  pbegin : Nat            -- pbegincodehash
  nOpCount : Nat
deriving DecidableEq, Repr

def St.cap (st : St) : Captured := ⟨st.stack, st.alt, st.nOpCount⟩

/-- the transaction context of `_CheckSig` (txTo and inIdx are fixed for one call of EvalScript /
    VerifyScript, so they appear only through what the interpreter computes from them) -/
structure Ctx where
  hashes : Hashes
  /-- `RawSignatureHash(script, txTo, inIdx, hashtype)[0]`: the digest, or the exception it raises
      (CScriptInvalidError from its `FindAndDelete`, IndexError for a negative `inIdx` below
      −|vin| — known finding D7 —, ValueError / struct.error for a transaction outside wire range) -/
  sigHash : Bytes → Nat → Res Bytes
  /-- `key.set_pubkey(pubkey); key.verify(digest, sig)`: signature body, public key, digest -/
  sigVerify : Bytes → Bytes → Bytes → Bool

/-- the reference's view of the context: signature check as a boolean function of
    (signature body, public key, script code, hash type).  Core's `SignatureHash` cannot raise; where
    the modelled `RawSignatureHash` raises, the reference is outside its domain (answer `false`) —
    the simulation theorems assume `SigHashOK`, under which that branch is never taken. -/
def Ctx.env (c : Ctx) : Env :=
  { hashes := c.hashes
    sigCheck := fun body pubkey scriptCode hashType =>
      match c.sigHash scriptCode hashType with
      | .ok digest => c.sigVerify body pubkey digest
      | .error _ => false }

/-- `RawSignatureHash` returns a digest for every script code of at most 10 000 bytes that tokenises
    and every hash-type byte — the contexts in which `_CheckSig` raises nothing but CScriptInvalidError.
    Used by C05's template theorems; the same statement as `SigHashOK` (Proofs/ScriptEquivSig.lean),
    wrapped in a structure so that `(thm ..)` does not unfold it. -/
structure Ctx.SigTotal (c : Ctx) : Prop where
  total : ∀ script ht, script.length ≤ MAX_SCRIPT_SIZE → ht < 256 → (rawIter script).2 = none →
    ∃ d, c.sigHash script ht = .ok d

/-- class name of a propagating exception -/
def excClass : Exc → String
  | .py cls => cls
  | .valueerr => "ValueError"
  | e => e.family

/-- `err_raiser(cls, …)` for the classes whose message does not look up `OPCODE_NAMES` -/
def raise {α} (st : St) : M α := .error (.eval st.cap)

/-- `err_raiser` for MissingOpArgumentsError / ArgumentsInvalidError / VerifyOpFailedError and the
    messages formatted with `OPCODE_NAMES[sop]` (KeyError when the opcode has no name) -/
def raiseNamed {α} (sop : Nat) (st : St) : M α :=
  match opcodeName? sop with
  | none => .error (.py "KeyError")
  | some _ => .error (.eval st.cap)

def pyIdx {α} : Option α → M α
  | none => .error (.py "IndexError")
  | some a => .ok a

/-- `check_args(n)` -/
def checkArgs (sop n : Nat) (st : St) : M Unit :=
  if st.stack.length < n then raiseNamed sop st else .ok ()

/-! ### _bignum -/

/-- `int.bit_length()` of a non-negative int -/
def bitLength (n : Nat) : Nat := if h : n = 0 then 0 else bitLength (n / 2) + 1
decreasing_by omega

/-- `bn_bytes(v, have_ext)` -/
def bnBytes (v : Nat) (haveExt : Bool) : Nat := (bitLength v + 7) / 8 + (if haveExt then 1 else 0)

/-- `bn2bin(v)`: big-endian, `bn_bytes(v)` bytes -/
def bn2bin (v : Nat) : Bytes :=
  ((List.range (bnBytes v false)).reverse).map fun j => UInt8.ofNat (v / 256 ^ j % 256)

/-- `bn2mpi(v)` without its 4-byte size prefix (`mpi2vch` strips it; `struct.pack(">I", …)` of a
    byte count cannot overflow for the integers the interpreter produces) -/
def bn2mpiBody (v : Int) : M Bytes :=
  let a := v.natAbs
  let haveExt := decide (bitLength a > 0) && decide (bitLength a % 8 = 0)
  let neg := decide (v < 0)
  let vBin := bn2bin a
  if neg then
    if haveExt then .ok (0x80 :: vBin)
    else
      match vBin with
      | [] => .error (.py "IndexError")                      -- `v_bin[0] |= 0x80`
      | b :: r => .ok (UInt8.ofNat (b.toNat % 128 + 128) :: r)
  else .ok ((if haveExt then [0] else []) ++ vBin)

/-- `bn2vch(v) = bytes(mpi2vch(bn2mpi(v)))` -/
def bn2vch (v : Int) : M Bytes := do
  let b ← bn2mpiBody v
  .ok b.reverse

/-- `vch2bn(s) = mpi2bn(vch2mpi(s))`; `struct.pack(">I", len(s))` is the explicit error -/
def vch2bn (s : Bytes) : M Int :=
  if s.length ≥ 2 ^ 32 then .error (.py "error") else
  match s.reverse with
  | [] => .ok 0                                             -- v_len == 0
  | t :: r =>
    if t.toNat ≥ 0x80 then .ok (-(beNat (UInt8.ofNat (t.toNat - 0x80) :: r) : Int))
    else .ok (beNat (t :: r) : Int)

/-- `_CastToBigNum(s, err_raiser)`: decodes first, then checks the length -/
def castToBigNum (s : Bytes) (st : St) : M Int := do
  let v ← vch2bn s
  if s.length > MAX_NUM_SIZE then raise st else .ok v

/-- `_CastToBool(s)` -/
def castToBoolFrom (len : Nat) (i : Nat) : Bytes → Bool
  | [] => false
  | sv :: rest =>
    if sv.toNat ≠ 0 then
      (if i = len - 1 ∧ sv.toNat = 0x80 then false else true)
    else castToBoolFrom len (i + 1) rest

def castToBool (s : Bytes) : Bool := castToBoolFrom s.length 0 s

/-- `_CheckExec(vfExec)` -/
def checkExec (vfExec : List Bool) : Bool := vfExec.all id

/-! ### script.py helpers -/

/-- `CScriptOp.encode_op_pushdata(d)` -/
def encodeOpPushdata (d : Bytes) : M Bytes :=
  if d.length < 0x4c then .ok (UInt8.ofNat d.length :: d)
  else if d.length ≤ 0xff then .ok (0x4c :: UInt8.ofNat d.length :: d)
  else if d.length ≤ 0xffff then .ok (0x4d :: (leBytes 2 d.length ++ d))
  else if d.length ≤ 0xffffffff then .ok (0x4e :: (leBytes 4 d.length ++ d))
  else .error (.py "ValueError")

/-- `s[a:b]` for `0 ≤ a`, `0 ≤ b` -/
def slice (s : Bytes) (a b : Nat) : Bytes := (s.drop a).take (b - a)

structure FadAcc where
  r : Bytes
  last : Nat
  skip : Bool

/-- body of the `for` loop of `FindAndDelete` -/
def fadStep (script sig : Bytes) (acc : FadAcc) (op : RawOp) : FadAcc :=
  let r := if !acc.skip then acc.r ++ slice script acc.last op.sopIdx else acc.r
  { r := r, last := op.sopIdx,
    skip := slice script op.sopIdx (op.sopIdx + sig.length) == sig }

/-- `FindAndDelete(script, sig)`; a malformed push makes `raw_iter` raise (state `cap` attached
    for the wrapper) -/
def findAndDelete (cap : Captured) (script sig : Bytes) : M Bytes :=
  let it := rawIter script
  let acc := it.1.foldl (fadStep script sig) { r := [], last := 0, skip := true }
  match it.2 with
  | some _ => .error (.invalid cap)
  | none => .ok (if !acc.skip then acc.r ++ script.drop acc.last else acc.r)

/-- `CScript.is_p2sh` (short-circuit `and`, so no index error) -/
def isP2sh (s : Bytes) : Bool :=
  s.length = 23 && s[0]? = some 0xa9 && s[1]? = some 0x14 && s[22]? = some 0x87

/-- `CScript.is_push_only`: False at the first opcode above OP_16, False on CScriptInvalidError -/
def isPushOnly (s : Bytes) : Bool :=
  let it := rawIter s
  if it.1.any (fun o => o.opcode > 0x60) then false else it.2.isNone

/-! ### _CheckSig -/

/-- `_CheckSig(sig, pubkey, script, txTo, inIdx, err_raiser)`.
    `key.set_pubkey` ignores the result of `o2i_ECPublicKey`; an empty signature is False before
    anything is hashed; `hashtype = sig[-1]`; whatever `RawSignatureHash` raises propagates
    (CScriptInvalidError is later wrapped by EvalScript, anything else escapes: D7); its error
    indication (the HASH_ONE cases) is ignored and the digest used. -/
def checkSig (c : Ctx) (cap : Captured) (sig pubkey script : Bytes) : M Bool :=
  if sig.length = 0 then .ok false else
  match sig.getLast? with
  | none => .error (.py "IndexError")                            -- `sig[-1]`
  | some ht =>
    match c.sigHash script ht.toNat with
    | .ok digest => .ok (c.sigVerify sig.dropLast pubkey digest)
    | .error .invalidscript => .error (.invalid cap)
    | .error e => .error (.py (excClass e))

/-! ### _CheckMultiSig -/

/-- `for k in range(sigs_count): sig = stack[-isig - k]; script = FindAndDelete(script, CScript([sig]))` -/
def msDropSigs (st : St) (isig : Int) : (n : Nat) → (k : Nat) → Bytes → M Bytes
  | 0, _, script => .ok script
  | n + 1, k, script => do
    let sig ← pyIdx (getTop? st.stack (isig + k))
    let enc ← encodeOpPushdata sig
    let script ← findAndDelete st.cap script enc
    msDropSigs st isig n (k + 1) script

/-- the `while success and sigs_count > 0` loop, entered with `sigs_count > 0`; returns `success` -/
def msLoop (c : Ctx) (sop : Nat) (script : Bytes) (st : St) (isig sigs ikey keys : Int) : M Bool := do
  let sig ← pyIdx (getTop? st.stack isig)
  let pubkey ← pyIdx (getTop? st.stack ikey)
  let ok ← checkSig c st.cap sig pubkey script
  let isig' := if ok then isig + 1 else isig
  let sigs' := if ok then sigs - 1 else sigs
  let ikey' := ikey + 1
  let keys' := keys - 1
  if sigs' > keys' then
    -- success = False; with VERIFY bail now before we modify the stack
    if sop = 0xaf then raiseNamed sop st else .ok false
  else if h : sigs' > 0 then msLoop c sop script st isig' sigs' ikey' keys'
  else .ok true
termination_by keys.toNat
decreasing_by omega

/-- `while i > 1: stack.pop(); i -= 1` -/
def popN : Nat → List Bytes → M (List Bytes)
  | 0, l => .ok l
  | n + 1, l => do
    let (_, l') ← pyIdx (pop? l)
    popN n l'

/-- `if len(stack) and SCRIPT_VERIFY_NULLDUMMY in flags: if stack[-1] != b'': raise …` -/
def nullDummyCheck (fl : Flags) (sop : Nat) (st : St) : M Unit :=
  if st.stack.length ≠ 0 ∧ fl.nullDummy then do
    let top ← pyIdx (getTop? st.stack 1)
    if top ≠ [] then raiseNamed sop st else .ok ()
  else .ok ()

/-- `_CheckMultiSig`.  (`err_raiser` always raises, so each `if …: err_raiser(…)` guard is written
    with the continuation in its `else` branch.) -/
def checkMultiSig (c : Ctx) (fl : Flags) (sop : Nat) (script : Bytes) (st : St) : M St :=
  if st.stack.length < 1 then raiseNamed sop st else do
  let keysVch ← pyIdx (getTop? st.stack 1)
  let keysCount ← castToBigNum keysVch st
  if keysCount < 0 ∨ keysCount > 20 then raiseNamed sop st else
  -- ikey = 2; i = 2 + keys_count; nOpCount[0] += keys_count
  let st := { st with nOpCount := st.nOpCount + keysCount.toNat }
  if st.nOpCount > MAX_OPS_PER_SCRIPT then raise st else
  if (st.stack.length : Int) < 2 + keysCount then raiseNamed sop st else do
  let sigsVch ← pyIdx (getTop? st.stack (2 + keysCount))
  let sigsCount ← castToBigNum sigsVch st
  if sigsCount < 0 ∨ sigsCount > keysCount then raiseNamed sop st else
  -- isig = i + 1; i = isig + sigs_count
  if (st.stack.length : Int) < 2 + keysCount + 1 + sigsCount - 1 then raiseNamed sop st else
  if (st.stack.length : Int) < 2 + keysCount + 1 + sigsCount then raiseNamed sop st else do
  let script ← msDropSigs st (2 + keysCount + 1) sigsCount.toNat 0 script
  let success ←
    if sigsCount > 0 then msLoop c sop script st (2 + keysCount + 1) sigsCount 2 keysCount else .ok true
  let stack ← popN (2 + keysCount + 1 + sigsCount - 1).toNat st.stack
  let st := { st with stack := stack }
  nullDummyCheck fl sop st
  let (_, stack) ← pyIdx (pop? stack)
  let st := { st with stack := stack }
  if sop = 0xae then
    .ok { st with stack := (if success then [1] else []) :: stack }     -- D4 repaired: b"" for False
  else .ok st

/-! ### _UnaryOp / _BinOp -/

/-- the `if opcode == … elif …` chain of `_UnaryOp` -/
def unaryVal (sop : Nat) (bn : Int) : M Int :=
  if sop = 0x8b then .ok (bn + 1)
  else if sop = 0x8c then .ok (bn - 1)
  else if sop = 0x8f then .ok (-bn)
  else if sop = 0x90 then .ok (if bn < 0 then -bn else bn)
  else if sop = 0x91 then .ok (if bn = 0 then 1 else 0)
  else if sop = 0x92 then .ok (if bn ≠ 0 then 1 else 0)
  else .error (.py "AssertionError")

def unaryOp (sop : Nat) (st : St) : M St := do
  if st.stack.length < 1 then raiseNamed sop st
  let top ← pyIdx (getTop? st.stack 1)
  let bn ← castToBigNum top st
  let (_, stack) ← pyIdx (pop? st.stack)
  let bn ← unaryVal sop bn
  let v ← bn2vch bn
  .ok { st with stack := v :: stack }

def b2i (b : Bool) : Int := if b then 1 else 0

/-- the `if opcode == … elif …` chain of `_BinOp` (OP_NUMEQUALVERIFY is handled by the caller) -/
def binaryVal (sop : Nat) (bn1 bn2 : Int) : M Int :=
  if sop = 0x93 then .ok (bn1 + bn2)
  else if sop = 0x94 then .ok (bn1 - bn2)
  else if sop = 0x9a then .ok (b2i (bn1 ≠ 0 ∧ bn2 ≠ 0))
  else if sop = 0x9b then .ok (b2i (bn1 ≠ 0 ∨ bn2 ≠ 0))
  else if sop = 0x9c then .ok (b2i (bn1 = bn2))
  else if sop = 0x9e then .ok (b2i (bn1 ≠ bn2))
  else if sop = 0x9f then .ok (b2i (bn1 < bn2))
  else if sop = 0xa0 then .ok (b2i (bn1 > bn2))
  else if sop = 0xa1 then .ok (b2i (bn1 ≤ bn2))
  else if sop = 0xa2 then .ok (b2i (bn1 ≥ bn2))
  else if sop = 0xa3 then .ok (if bn1 < bn2 then bn1 else bn2)
  else if sop = 0xa4 then .ok (if bn1 > bn2 then bn1 else bn2)
  else .error (.py "AssertionError")

def binOp (sop : Nat) (st : St) : M St := do
  if st.stack.length < 2 then raiseNamed sop st
  let v2 ← pyIdx (getTop? st.stack 1)
  let bn2 ← castToBigNum v2 st
  let v1 ← pyIdx (getTop? st.stack 2)
  let bn1 ← castToBigNum v1 st
  if sop = 0x9d then
    -- OP_NUMEQUALVERIFY: raise with the operands still on the stack, or pop both and return
    if bn1 = bn2 then
      let (_, s) ← pyIdx (pop? st.stack)
      let (_, s) ← pyIdx (pop? s)
      .ok { st with stack := s }
    else raiseNamed sop st
  else
    let bn ← binaryVal sop bn1 bn2
    let (_, s) ← pyIdx (pop? st.stack)
    let (_, s) ← pyIdx (pop? s)
    let v ← bn2vch bn
    .ok { st with stack := v :: s }

/-! ### the opcode branches of _EvalScript -/

/-- `stack.append(hash(stack.pop()))` after `check_args(1)` -/
def hashTop (sop : Nat) (f : Bytes → Bytes) (st : St) : M St := do
  checkArgs sop 1 st
  let (x, s) ← pyIdx (pop? st.stack)
  .ok { st with stack := f x :: s }

/-! the opcode branches, one definition per `elif` arm -/

/-- OP_1NEGATE, OP_1 … OP_16 -/
def opSmallInt (sop : Nat) (st : St) : M St := do
  let v ← bn2vch ((sop : Int) - 0x50)
  .ok { st with stack := v :: st.stack }

/-- OP_2DROP -/
def op2Drop (sop : Nat) (st : St) : M St := do
  checkArgs sop 2 st
  let (_, s) ← pyIdx (pop? st.stack)
  let (_, s) ← pyIdx (pop? s)
  .ok { st with stack := s }

/-- OP_2DUP -/
def op2Dup (sop : Nat) (st : St) : M St := do
  checkArgs sop 2 st
  let v1 ← pyIdx (getTop? st.stack 2)
  let v2 ← pyIdx (getTop? st.stack 1)
  .ok { st with stack := v2 :: v1 :: st.stack }

/-- OP_2OVER -/
def op2Over (sop : Nat) (st : St) : M St := do
  checkArgs sop 4 st
  let v1 ← pyIdx (getTop? st.stack 4)
  let v2 ← pyIdx (getTop? st.stack 3)
  .ok { st with stack := v2 :: v1 :: st.stack }

/-- OP_2ROT -/
def op2Rot (sop : Nat) (st : St) : M St := do
  checkArgs sop 6 st
  let v1 ← pyIdx (getTop? st.stack 6)
  let v2 ← pyIdx (getTop? st.stack 5)
  let s ← pyIdx (delTop? st.stack 6)
  let s ← pyIdx (delTop? s 5)
  .ok { st with stack := v2 :: v1 :: s }

/-- OP_2SWAP -/
def op2Swap (sop : Nat) (st : St) : M St := do
  checkArgs sop 4 st
  let tmp ← pyIdx (getTop? st.stack 4)
  let x ← pyIdx (getTop? st.stack 2)
  let s ← pyIdx (setTop? st.stack 4 x)
  let s ← pyIdx (setTop? s 2 tmp)
  let tmp ← pyIdx (getTop? s 3)
  let x ← pyIdx (getTop? s 1)
  let s ← pyIdx (setTop? s 3 x)
  let s ← pyIdx (setTop? s 1 tmp)
  .ok { st with stack := s }

/-- OP_3DUP -/
def op3Dup (sop : Nat) (st : St) : M St := do
  checkArgs sop 3 st
  let v1 ← pyIdx (getTop? st.stack 3)
  let v2 ← pyIdx (getTop? st.stack 2)
  let v3 ← pyIdx (getTop? st.stack 1)
  .ok { st with stack := v3 :: v2 :: v1 :: st.stack }

/-- OP_CHECKSIG(VERIFY) -/
def opCheckSig (c : Ctx) (script : Bytes) (sop : Nat) (st : St) : M St := do
  checkArgs sop 2 st
  let vchPubKey ← pyIdx (getTop? st.stack 1)
  let vchSig ← pyIdx (getTop? st.stack 2)
  let tmpScript := script.drop st.pbegin
  let enc ← encodeOpPushdata vchSig
  let tmpScript ← findAndDelete st.cap tmpScript enc
  let ok ← checkSig c st.cap vchSig vchPubKey tmpScript
  if !ok ∧ sop = 0xad then raiseNamed sop st
  else
    let (_, s) ← pyIdx (pop? st.stack)
    let (_, s) ← pyIdx (pop? s)
    if ok then
      if sop ≠ 0xad then .ok { st with stack := [1] :: s } else .ok { st with stack := s }
    else .ok { st with stack := [] :: s }                 -- D4 repaired: b"" for False

/-- OP_CODESEPARATOR -/
def opCodeSeparator (op : RawOp) (st : St) : M St := do
  .ok { st with pbegin := op.sopIdx }

/-- OP_DEPTH -/
def opDepth (st : St) : M St := do
  let v ← bn2vch st.stack.length
  .ok { st with stack := v :: st.stack }

/-- OP_DROP -/
def opDrop (sop : Nat) (st : St) : M St := do
  checkArgs sop 1 st
  let (_, s) ← pyIdx (pop? st.stack)
  .ok { st with stack := s }

/-- OP_DUP -/
def opDup (sop : Nat) (st : St) : M St := do
  checkArgs sop 1 st
  let v ← pyIdx (getTop? st.stack 1)
  .ok { st with stack := v :: st.stack }

/-- OP_ELSE -/
def opElse (st : St) : M St := do
  if st.vfExec.length = 0 then raise st
  let b ← pyIdx (getTop? st.vfExec 1)
  let vf ← pyIdx (setTop? st.vfExec 1 (!b))
  .ok { st with vfExec := vf }

/-- OP_ENDIF -/
def opEndIf (st : St) : M St := do
  if st.vfExec.length = 0 then raise st
  let (_, vf) ← pyIdx (pop? st.vfExec)
  .ok { st with vfExec := vf }

/-- OP_EQUAL -/
def opEqual (sop : Nat) (st : St) : M St := do
  checkArgs sop 2 st
  let (v1, s) ← pyIdx (pop? st.stack)
  let (v2, s) ← pyIdx (pop? s)
  .ok { st with stack := (if v1 = v2 then [1] else []) :: s }

/-- OP_EQUALVERIFY -/
def opEqualVerify (sop : Nat) (st : St) : M St := do
  checkArgs sop 2 st
  let v1 ← pyIdx (getTop? st.stack 1)
  let v2 ← pyIdx (getTop? st.stack 2)
  if v1 = v2 then
    let (_, s) ← pyIdx (pop? st.stack)
    let (_, s) ← pyIdx (pop? s)
    .ok { st with stack := s }
  else raiseNamed sop st

/-- OP_FROMALTSTACK -/
def opFromAltStack (sop : Nat) (st : St) : M St := do
  if st.alt.length < 1 then raiseNamed sop st
  let (v, a) ← pyIdx (pop? st.alt)
  .ok { st with stack := v :: st.stack, alt := a }

/-- OP_IF / OP_NOTIF -/
def opIf (sop : Nat) (fExec : Bool) (st : St) : M St := do
  if fExec then
    checkArgs sop 1 st
    let (vch, s) ← pyIdx (pop? st.stack)
    let val := castToBool vch
    let val := if sop = 0x64 then !val else val
    .ok { st with stack := s, vfExec := val :: st.vfExec }
  else .ok { st with vfExec := false :: st.vfExec }

/-- OP_IFDUP -/
def opIfDup (sop : Nat) (st : St) : M St := do
  checkArgs sop 1 st
  let vch ← pyIdx (getTop? st.stack 1)
  if castToBool vch then .ok { st with stack := vch :: st.stack } else .ok st

/-- OP_NIP -/
def opNip (sop : Nat) (st : St) : M St := do
  checkArgs sop 2 st
  let s ← pyIdx (delTop? st.stack 2)
  .ok { st with stack := s }

/-- OP_NOP1 … OP_NOP10 -/
def opNop (fl : Flags) (sop : Nat) (st : St) : M St := do
  if fl.discourageNops then raiseNamed sop st else .ok st

/-- OP_OVER -/
def opOver (sop : Nat) (st : St) : M St := do
  checkArgs sop 2 st
  let vch ← pyIdx (getTop? st.stack 2)
  .ok { st with stack := vch :: st.stack }

/-- OP_PICK / OP_ROLL -/
def opPickRoll (sop : Nat) (st : St) : M St := do
  checkArgs sop 2 st
  let (nv, s) ← pyIdx (pop? st.stack)
  let st := { st with stack := s }
  let n ← castToBigNum nv st
  if n < 0 ∨ n ≥ (s.length : Int) then raiseNamed sop st
  let vch ← pyIdx (getTop? s (n + 1))
  let s ← if sop = 0x7a then pyIdx (delTop? s (n + 1)) else .ok s
  .ok { st with stack := vch :: s }

/-- OP_ROT -/
def opRot (sop : Nat) (st : St) : M St := do
  checkArgs sop 3 st
  let tmp ← pyIdx (getTop? st.stack 3)
  let x ← pyIdx (getTop? st.stack 2)
  let s ← pyIdx (setTop? st.stack 3 x)
  let s ← pyIdx (setTop? s 2 tmp)
  let tmp ← pyIdx (getTop? s 2)
  let x ← pyIdx (getTop? s 1)
  let s ← pyIdx (setTop? s 2 x)
  let s ← pyIdx (setTop? s 1 tmp)
  .ok { st with stack := s }

/-- OP_SIZE -/
def opSize (sop : Nat) (st : St) : M St := do
  checkArgs sop 1 st
  let top ← pyIdx (getTop? st.stack 1)
  let v ← bn2vch top.length
  .ok { st with stack := v :: st.stack }

/-- OP_SWAP -/
def opSwap (sop : Nat) (st : St) : M St := do
  checkArgs sop 2 st
  let tmp ← pyIdx (getTop? st.stack 2)
  let x ← pyIdx (getTop? st.stack 1)
  let s ← pyIdx (setTop? st.stack 2 x)
  let s ← pyIdx (setTop? s 1 tmp)
  .ok { st with stack := s }

/-- OP_TOALTSTACK -/
def opToAltStack (sop : Nat) (st : St) : M St := do
  checkArgs sop 1 st
  let (v, s) ← pyIdx (pop? st.stack)
  .ok { st with stack := s, alt := v :: st.alt }

/-- OP_TUCK -/
def opTuck (sop : Nat) (st : St) : M St := do
  checkArgs sop 2 st
  let vch ← pyIdx (getTop? st.stack 1)
  .ok { st with stack := insertBelowTop st.stack vch }

/-- OP_VERIFY -/
def opVerify (sop : Nat) (st : St) : M St := do
  checkArgs sop 1 st
  let top ← pyIdx (getTop? st.stack 1)
  if castToBool top then
    let (_, s) ← pyIdx (pop? st.stack)
    .ok { st with stack := s }
  else raiseNamed sop st

/-- OP_WITHIN -/
def opWithin (sop : Nat) (st : St) : M St := do
  checkArgs sop 3 st
  let x3 ← pyIdx (getTop? st.stack 1)
  let bn3 ← castToBigNum x3 st
  let x2 ← pyIdx (getTop? st.stack 2)
  let bn2 ← castToBigNum x2 st
  let x1 ← pyIdx (getTop? st.stack 3)
  let bn1 ← castToBigNum x1 st
  let (_, s) ← pyIdx (pop? st.stack)
  let (_, s) ← pyIdx (pop? s)
  let (_, s) ← pyIdx (pop? s)
  .ok { st with stack := (if bn2 ≤ bn1 ∧ bn1 < bn3 then [1] else []) :: s }   -- D4 repaired

/-- the `elif fExec or (OP_IF <= sop <= OP_ENDIF):` arm: the `if / elif` chain in the order of the source -/
def execOp (c : Ctx) (fl : Flags) (script : Bytes) (op : RawOp) (fExec : Bool) (st : St) : M St :=
  let sop := op.opcode
  if sop = 0x4f ∨ (0x51 ≤ sop ∧ sop ≤ 0x60) then opSmallInt sop st
  else if sop ∈ binaryNumOps then binOp sop st
  else if sop ∈ unaryNumOps then unaryOp sop st
  else if sop = 0x6d then op2Drop sop st
  else if sop = 0x6e then op2Dup sop st
  else if sop = 0x70 then op2Over sop st
  else if sop = 0x71 then op2Rot sop st
  else if sop = 0x72 then op2Swap sop st
  else if sop = 0x6f then op3Dup sop st
  else if sop = 0xae ∨ sop = 0xaf then checkMultiSig c fl sop (script.drop st.pbegin) st   -- OP_CHECKMULTISIG(VERIFY)
  else if sop = 0xac ∨ sop = 0xad then opCheckSig c script sop st
  else if sop = 0xab then opCodeSeparator op st
  else if sop = 0x74 then opDepth st
  else if sop = 0x75 then opDrop sop st
  else if sop = 0x76 then opDup sop st
  else if sop = 0x67 then opElse st
  else if sop = 0x68 then opEndIf st
  else if sop = 0x87 then opEqual sop st
  else if sop = 0x88 then opEqualVerify sop st
  else if sop = 0x6c then opFromAltStack sop st
  else if sop = 0xa9 then hashTop sop c.env.hashes.hash160 st   -- OP_HASH160
  else if sop = 0xaa then hashTop sop c.env.hashes.hash256 st   -- OP_HASH256
  else if sop = 0x63 ∨ sop = 0x64 then opIf sop fExec st
  else if sop = 0x73 then opIfDup sop st
  else if sop = 0x77 then opNip sop st
  else if sop = 0x61 then .ok st   -- OP_NOP
  else if 0xb0 ≤ sop ∧ sop ≤ 0xb9 then opNop fl sop st
  else if sop = 0x78 then opOver sop st
  else if sop = 0x79 ∨ sop = 0x7a then opPickRoll sop st
  else if sop = 0x6a then raise st   -- OP_RETURN
  else if sop = 0xa6 then hashTop sop c.env.hashes.ripemd160 st   -- OP_RIPEMD160
  else if sop = 0x7b then opRot sop st
  else if sop = 0x82 then opSize sop st
  else if sop = 0xa7 then hashTop sop c.env.hashes.sha1 st   -- OP_SHA1
  else if sop = 0xa8 then hashTop sop c.env.hashes.sha256 st   -- OP_SHA256
  else if sop = 0x7c then opSwap sop st
  else if sop = 0x6b then opToAltStack sop st
  else if sop = 0x7d then opTuck sop st
  else if sop = 0x69 then opVerify sop st
  else if sop = 0xa5 then opWithin sop st
  else raise st                                             -- 'unsupported opcode'

/-- `if sop > OP_16: nOpCount[0] += 1; if nOpCount[0] > MAX_SCRIPT_OPCODES: raise` -/
def countOp (sop : Nat) (st : St) : M St :=
  if sop > 0x60 then
    let st := { st with nOpCount := st.nOpCount + 1 }
    if st.nOpCount > MAX_OPS_PER_SCRIPT then raise st else .ok st
  else .ok st

/-- the push arm and the opcode arm of the loop body -/
def dispatch (c : Ctx) (fl : Flags) (script : Bytes) (op : RawOp) (fExec : Bool) (st : St) : M St :=
  if op.opcode ≤ 0x4e then
    match op.data with
    | none => .error (.py "TypeError")                       -- len(None); raw_iter never yields it
    | some d =>
      if d.length > MAX_SCRIPT_ELEMENT_SIZE then raise st
      else if fExec then .ok { st with stack := d :: st.stack }       -- D5 repaired: no `continue`
      else .ok st
  else if fExec ∨ (0x63 ≤ op.opcode ∧ op.opcode ≤ 0x68) then execOp c fl script op fExec st
  else .ok st

/-- one iteration of the `for (sop, sop_data, sop_pc) in scriptIn.raw_iter():` loop -/
def step (c : Ctx) (fl : Flags) (script : Bytes) (op : RawOp) (st : St) : M St :=
  let fExec := checkExec st.vfExec
  if op.opcode ∈ disabledOpcodes then raiseNamed op.opcode st else do
  let st ← countOp op.opcode st
  let st ← dispatch c fl script op fExec st
  if st.stack.length + st.alt.length > MAX_STACK_SIZE then raise st else .ok st

/-- the `for` loop over the lazily produced operations; `tail` is the error `raw_iter` raises
    after the last operation it could yield -/
def loop (c : Ctx) (fl : Flags) (script : Bytes) (tail : Option IterErr) :
    List RawOp → St → M St
  | [], st =>
    match tail with
    | some _ => .error (.invalid st.cap)
    | none => .ok st
  | op :: ops, st => do
    let st' ← step c fl script op st
    loop c fl script tail ops st'

/-- `_EvalScript(stack, scriptIn, txTo, inIdx, flags)`; returns the final stack -/
def evalScriptRaw (c : Ctx) (fl : Flags) (stack : List Bytes) (script : Bytes) : M (List Bytes) :=
  if script.length > MAX_SCRIPT_SIZE then
    .error (.eval ⟨stack, [], 0⟩)          -- altstack / nOpCount attributes are None here
  else do
  let it := rawIter script
  let st ← loop c fl script it.2 it.1
    { stack := stack, alt := [], vfExec := [], pbegin := 0, nOpCount := 0 }
  if st.vfExec.length ≠ 0 then .error (.eval ⟨st.stack, [], 0⟩) else .ok st.stack

/-- `EvalScript`: converts CScriptInvalidError into EvalScriptError (only `stack` is attached) -/
def evalScript (c : Ctx) (fl : Flags) (stack : List Bytes) (script : Bytes) : M (List Bytes) :=
  match evalScriptRaw c fl stack script with
  | .error (.invalid cap) => .error (.eval ⟨cap.stack, [], 0⟩)
  | r => r

/-- `if len(stack) == 0: raise …; if not _CastToBool(stack[-1]): raise …` -/
def checkTopTrue (stack : List Bytes) : M Unit :=
  if stack.length = 0 then .error .verify else do
  let top ← pyIdx (getTop? stack 1)
  if !castToBool top then .error .verify else .ok ()

/-- the `if SCRIPT_VERIFY_P2SH in flags and scriptPubKey.is_p2sh():` block; returns the new `stack` -/
def verifyP2sh (c : Ctx) (fl : Flags) (scriptSig : Bytes) (stackCopy : Option (List Bytes)) :
    M (List Bytes) :=
  if !isPushOnly scriptSig then .error .verify else
  match stackCopy with
  | none => .error (.py "UnboundLocalError")
  | some stack =>
    if stack.length = 0 then .error (.py "AssertionError") else do     -- `assert len(stack)`
    let (pubKey2, stack) ← pyIdx (pop? stack)
    let stack ← evalScript c fl stack pubKey2
    checkTopTrue stack
    .ok stack

/-- the `if SCRIPT_VERIFY_CLEANSTACK in flags:` block -/
def verifyCleanStack (fl : Flags) (stack : List Bytes) : M Unit :=
  if fl.cleanStack then
    if !fl.p2sh then .error (.py "AssertionError")                    -- D6: `assert P2SH in flags`
    else if stack.length ≠ 1 then .error .verify else .ok ()
  else .ok ()

/-- `VerifyScript(scriptSig, scriptPubKey, txTo, inIdx, flags)` -/
def verifyScript (c : Ctx) (fl : Flags) (scriptSig scriptPubKey : Bytes) : M Unit := do
  let stack ← evalScript c fl [] scriptSig
  let stackCopy : Option (List Bytes) := if fl.p2sh then some stack else none
  let stack ← evalScript c fl stack scriptPubKey
  checkTopTrue stack
  let stack ←
    if fl.p2sh ∧ isP2sh scriptPubKey then verifyP2sh c fl scriptSig stackCopy else .ok stack
  verifyCleanStack fl stack

end BtcVerif.Model.ScriptEval
