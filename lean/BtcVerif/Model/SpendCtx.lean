/-
  C05 — the interpreter context of `VerifyScript(scriptSig, scriptPubKey, txTo, inIdx)` with the
  REFERENCE signature hash (`Spec.Templates.txEnv`) and an arbitrary ECDSA function.  The concrete
  context of the library model is `Model.ScriptEval.Real.realCtx` (Model/ScriptEnvReal.lean);
  Props/C05.lean (`*_verify_real`) proves the two give the same verdict on the templates.
  Mathlib-free (linked into btcmodel; the driver evaluates exactly this term).
-/
import BtcVerif.Model.ScriptEval
import BtcVerif.Spec.Templates

namespace BtcVerif.Model.ScriptEval
open BtcVerif BtcVerif.Spec.Script

/-- the interpreter context of input `i` of `tx` -/
def txCtx (hashes : Hashes) (ecdsa : Bytes → Bytes → Bytes → Bool) (tx : Tx) (i : Nat) : Ctx :=
  { env := Spec.Templates.txEnv hashes ecdsa tx i, inIdx := i, nVin := tx.vin.length, nVout := tx.vout.length }

end BtcVerif.Model.ScriptEval
