/-
  C05 — the interpreter context of `VerifyScript(scriptSig, scriptPubKey, txTo, inIdx)` with the
  REFERENCE signature hash (`Spec.Templates.txEnv`) and an arbitrary ECDSA function.  The concrete
  context of the library model is `Model.ScriptEval.Real.realCtx` (Model/ScriptEnvReal.lean);
  Props/C05.lean (`*_verify_real`) proves the two give the same verdict on the templates.
  Mathlib-free (linked into btcmodel; the driver evaluates exactly this term).
-/
import BtcVerif.Model.ScriptEval
import BtcVerif.Spec.Templates

namespace BtcVerif.Model.ScriptEval
open BtcVerif BtcVerif.Spec.Script

/-- the interpreter context of input `i` of `tx` -/
def txCtx (hashes : Hashes) (ecdsa : Bytes → Bytes → Bytes → Bool) (tx : Tx) (i : Nat) : Ctx :=
  -- (C06/C07 audit round 1: `Ctx` carries the outcome of RawSignatureHash; here it is the total reference
  --  digest, so `(txCtx hashes ecdsa tx i).env = Spec.Templates.txEnv hashes ecdsa tx i` by `rfl`)
  { hashes := hashes
    sigHash := fun scriptCode ht => .ok (Spec.Sighash.legacySighash scriptCode tx i ht).1
    sigVerify := ecdsa }

theorem txCtx_env (hashes : Hashes) (ecdsa : Bytes → Bytes → Bytes → Bool) (tx : Tx) (i : Nat) :
    (txCtx hashes ecdsa tx i).env = Spec.Templates.txEnv hashes ecdsa tx i := rfl

end BtcVerif.Model.ScriptEval
