/-
  C15 — mirror of bitcoin/core/__init__.py: CTransaction.GetTxid / GetHash / calc_weight,
  CBlock.build_merkle_tree_from_txids / build_merkle_tree_from_txs / calc_merkle_root /
  build_witness_merkle_tree_from_txs / calc_witness_merkle_root / __init__ / GetWeight.

  Every list index the Python evaluates is an explicit `[i]?` with an IndexError outcome; the two
  `assert`s of calc_weight and the ones of CBlockHeader.__init__ are AssertionError outcomes;
  serialisation errors (struct.error, AssertionError) propagate as in Python.  Mathlib-free.
-/
import BtcVerif.Crypto.Sha256
import BtcVerif.Model.Wire

namespace BtcVerif.Model.Merkle
open BtcVerif BtcVerif.Crypto BtcVerif.Model.Wire

def zero32 : Bytes := List.replicate 32 0

def noWitnessData : Exc := .py "NoWitnessData"

/-- `for i in range(0, size, 2): i2 = min(i+1, size-1); merkle_tree.append(Hash(tree[j+i] + tree[j+i2]))`,
    from loop variable `i` on -/
def levelLoop (j size i : Nat) (tree : List Bytes) : Res (List Bytes) :=
  if i < size then
    let i2 := min (i + 1) (size - 1)
    match tree[j + i]?, tree[j + i2]? with
    | some a, some b => levelLoop j size (i + 2) (tree ++ [hash256 (a ++ b)])
    | _, _ => .error indexError
  else .ok tree
termination_by size - i
decreasing_by omega

/-- `while size > 1: <level>; j += size; size = (size + 1) // 2` -/
def treeLoop (j size : Nat) (tree : List Bytes) : Res (List Bytes) :=
  if size > 1 then
    match levelLoop j size 0 tree with
    | .error e => .error e
    | .ok tree' => treeLoop (j + size) ((size + 1) / 2) tree'
  else .ok tree
termination_by size
decreasing_by omega

/-- `CBlock.build_merkle_tree_from_txids` -/
def buildTreeFromTxids (txids : List Bytes) : Res (List Bytes) := treeLoop 0 txids.length txids

/-- `merkle_tree[-1]` -/
def lastOf (tree : List Bytes) : Res Bytes :=
  match tree.getLast? with
  | some r => .ok r
  | none => .error indexError

/-- what the immutable constructor `CTransaction(vin, vout, nLockTime, nVersion)` accepts; anything
    else is ValueError: its own `0 <= nLockTime <= 0xffffffff` test and, for the copies
    `CTxIn.from_txin` makes of mutable inputs, `COutPoint.__init__` (32-byte hash, `n` range) and
    `CTxIn.__init__` (`nSequence` range).  (Immutable inputs were validated when they were built.) -/
def ctorValid (t : Tx) : Bool :=
  decide (t.nLockTime ≤ 0xffffffff) &&
    t.vin.all (fun i => (i.prevout.hash.length == 32 && decide (i.prevout.n ≤ 0xffffffff)) &&
      decide (i.nSequence ≤ 0xffffffff))

/-- `CTransaction.GetTxid`: `self.wit != CTxWitness()` compares serialisations (`CTxWitness()`
    serialises to the empty string); the stripped copy goes through the validating constructor -/
def getTxid (t : Tx) : Res Bytes :=
  match serWitness t.wit with
  | .error e => .error e
  | .ok w =>
    if w ≠ [] then
      (if ctorValid t then (serTx t.strip).map hash256 else .error .valueerr)
    else (serTx t).map hash256

/-- `ImmutableSerializable.GetHash` of a transaction: hash of the full serialisation -/
def getHash (t : Tx) : Res Bytes := (serTx t).map hash256

/-- `CBlock.build_merkle_tree_from_txs` -/
def buildTreeFromTxs (txs : List Tx) : Res (List Bytes) :=
  match txs.mapM getTxid with
  | .error e => .error e
  | .ok ids => buildTreeFromTxids ids

/-- `CBlock.calc_merkle_root` -/
def calcMerkleRoot (vtx : List Tx) : Res Bytes :=
  if vtx.length = 0 then .error .valueerr
  else
    match buildTreeFromTxs vtx with
    | .error e => .error e
    | .ok tree => lastOf tree

/-- `CBlock.build_witness_merkle_tree_from_txs`; `none` = `raise NoWitnessData` -/
def buildWitnessTree (txs : List Tx) : Res (Option (List Bytes)) :=
  match txs.mapM getHash with
  | .error e => .error e
  | .ok hashes =>
    -- `has_witness |= tx.has_witness()` with `has_witness() = not self.wit.is_null()`
    if !(txs.any (fun t => !witIsNull t.wit)) then .ok none
    else
      -- `hashes[0] = b'\x00' * 32`
      match hashes with
      | [] => .error indexError
      | _ :: rest => (buildTreeFromTxids (zero32 :: rest)).map some

/-- `CBlock.calc_witness_merkle_root` -/
def calcWitnessMerkleRoot (vtx : List Tx) : Res Bytes :=
  if vtx.length = 0 then .error .valueerr
  else
    match buildWitnessTree vtx with
    | .error e => .error e
    | .ok none => .error noWitnessData
    | .ok (some tree) => lastOf tree

/-- `CBlock.__init__`: the block that results (only the merkle root can differ from the arguments) -/
def blockCtor (hdr : Header) (vtx : List Tx) : Res Block :=
  let rootR : Res Bytes :=
    if vtx.length ≠ 0 then
      match buildTreeFromTxs vtx with
      | .error e => .error e
      | .ok tree =>
        match lastOf tree with
        | .error e => .error e
        | .ok r =>
          if hdr.hashMerkleRoot = zero32 then .ok r
          else if hdr.hashMerkleRoot ≠ r then .error .validation
          else .ok hdr.hashMerkleRoot
    else .ok hdr.hashMerkleRoot
  match rootR with
  | .error e => .error e
  | .ok root =>
    -- CBlockHeader.__init__
    if hdr.hashPrevBlock.length ≠ 32 then .error assertionError
    else if root.length ≠ 32 then .error assertionError
    else
      -- `try: build_witness_merkle_tree_from_txs(vtx) except NoWitnessData: ()`
      match buildWitnessTree vtx with
      | .error e => .error e
      | .ok _ => .ok { hdr := { hdr with hashMerkleRoot := root }, vtx := vtx }

/-- `CTransaction.calc_weight` -/
def calcWeight (t : Tx) : Res Nat :=
  if ¬ (t.vin.length > 0) then .error assertionError
  else if ¬ (t.vout.length > 0) then .error assertionError
  else if witIsNull t.wit then
    (serTx t).map (fun s => s.length * 4)
  else if !ctorValid t then .error .valueerr        -- stripped = CTransaction(vin, vout, nLockTime, nVersion)
  else
    match serTx t.strip with
    | .error e => .error e
    | .ok stripped => (serTx t).map (fun full => stripped.length * 3 + full.length)

/-- `CBlock.GetWeight` -/
def getWeight (b : Block) : Res Nat :=
  match serBlock b false with
  | .error e => .error e
  | .ok stripped => (serBlock b true).map (fun full => stripped.length * 3 + full.length)

end BtcVerif.Model.Merkle
