/-
  C08 — mirror of bitcoin/core/script.py (CScriptOp.encode_op_pushdata / encode_op_n / decode_op_n /
  is_small_int / __new__, CScript.__coerce_instance / __new__ / __add__ / __iter__ / predicates /
  GetSigOpCount) and bitcoin/core/_bignum.py (bn2vch / vch2bn through the MPI route).

  Every place where the Python could raise a non-library exception is an explicit `.error (py …)`
  outcome (struct.error in `struct.pack(">I", …)`, IndexError of `v_bin[0]` / `ext[0]` / `v_str[0]`,
  the `assert` in CScriptOp.__new__, ValueError of decode_op_n, TypeError of `len(None)`,
  StopIteration of `next(iter(self))`); Props/C08.lean proves which of them are dead.

  GetSigOpCount is modelled in its repaired form (DESIGN §8 D2/D3): the loop is wrapped in
  `try/except CScriptInvalidError` and the operand count is `CScriptOp(lastOpcode).decode_op_n()`.

  Python's `x & 7`, `x >> k`, `x << 8 | ch` on non-negative ints are written `% 8`, `/ 2^k`, `* 256 +`.
  Mathlib-free (linked into btcmodel).
-/
import BtcVerif.Model.ScriptIter
import BtcVerif.Spec.Script

namespace BtcVerif.Model.Script
open BtcVerif
open BtcVerif.Spec.Script (Token)

/-! ### vocabulary for statements about raw operations -/

/-- the pair (opcode, data-or-empty) of a raw operation, as GetScriptOp reports it -/
def RawOp.pair (o : RawOp) : Nat × Bytes := (o.opcode, o.data.getD [])

/-- raw operations are well-formed: the data is present exactly for push opcodes -/
def RawOp.wf (o : RawOp) : Prop := o.opcode < 256 ∧ (o.data.isSome ↔ o.opcode ≤ 0x4e)

/-- the bytes a raw operation occupies: opcode byte, length field of its push form, payload -/
def RawOp.enc (o : RawOp) : Bytes := Spec.Script.opEnc o.opcode (o.data.getD [])

/-- the exception raw_iter raises at the malformed push `b :: t`: CScriptInvalidError when the length
    field is incomplete, otherwise CScriptTruncatedPushDataError carrying the payload bytes present -/
def truncErr (b : UInt8) (t : Bytes) : IterErr :=
  if t.length < Spec.Script.lenBytes b.toNat then .missingLen
  else .truncated (t.drop (Spec.Script.lenBytes b.toNat))

/-! ### _bignum.py -/

/-- `int.bit_length()` of a non-negative int (Python's bit_length ignores the sign) -/
def bitLength (n : Nat) : Nat := if h : n = 0 then 0 else bitLength (n / 2) + 1
decreasing_by omega

/-- `bn_bytes(v, have_ext)` -/
def bnBytes (v : Nat) (haveExt : Bool) : Nat := (bitLength v + 7) / 8 + (if haveExt then 1 else 0)

/-- the loop of `bn2bin`: `while i > 0: s.append((v >> ((i-1)*8)) & 0xff); i -= 1` -/
def bn2binLoop (v : Nat) : Nat → Bytes
  | 0 => []
  | i + 1 => UInt8.ofNat ((v / 2 ^ (i * 8)) % 256) :: bn2binLoop v i

def bn2bin (v : Nat) : Bytes := bn2binLoop v (bnBytes v false)

/-- `bin2bn`: `for ch in s: l = (l << 8) | ch` -/
def bin2bn (s : Bytes) : Nat := s.foldl (fun l ch => l * 256 + ch.toNat) 0

/-- `struct.pack(b">I", n)` -/
def packBE32 (n : Nat) : Res Bytes :=
  if n < 2 ^ 32 then .ok (beBytes 4 n) else .error structError

/-- `bn2mpi` -/
def bn2mpi (v : Int) : Res Bytes :=
  let bl := bitLength v.natAbs
  let haveExt : Bool := if bl > 0 then bl % 8 = 0 else false
  let neg : Bool := v < 0
  let a := v.natAbs
  match packBE32 (bnBytes a haveExt) with
  | .error e => .error e
  | .ok s =>
    let ext : Bytes := if haveExt then [0] else []
    let vbin := bn2bin a
    if neg then
      if haveExt then
        match ext with                      -- ext[0] |= 0x80
        | e :: r => .ok (s ++ ((e ||| 0x80) :: r) ++ vbin)
        | [] => .error indexError
      else
        match vbin with                     -- v_bin[0] |= 0x80
        | b :: r => .ok (s ++ ext ++ ((b ||| 0x80) :: r))
        | [] => .error indexError
    else .ok (s ++ ext ++ vbin)

/-- `mpi2bn`; the inner `none` is Python's `return None` -/
def mpi2bn (s : Bytes) : Res (Option Int) :=
  if s.length < 4 then .ok none
  else
    let vLen := beNat (s.take 4)            -- struct.unpack(b">I", s[:4])[0]
    if s.length ≠ vLen + 4 then .ok none
    else if vLen = 0 then .ok (some 0)
    else
      match s.drop 4 with
      | [] => .error indexError             -- v_str[0]
      | i :: r =>
        if i &&& 0x80 ≠ 0 then              -- neg; i &= ~0x80; v_str[0] = i
          .ok (some (- (bin2bn ((i &&& 0x7f) :: r) : Int)))
        else .ok (some (bin2bn (i :: r) : Int))

/-- `mpi2vch`: strip the size, reverse -/
def mpi2vch (s : Bytes) : Bytes := (s.drop 4).reverse

/-- `bn2vch` -/
def bn2vch (v : Int) : Res Bytes :=
  match bn2mpi v with
  | .ok s => .ok (mpi2vch s)
  | .error e => .error e

/-- `vch2mpi` -/
def vch2mpi (s : Bytes) : Res Bytes :=
  match packBE32 s.length with
  | .ok r => .ok (r ++ s.reverse)
  | .error e => .error e

/-- `vch2bn` -/
def vch2bn (s : Bytes) : Res (Option Int) :=
  match vch2mpi s with
  | .ok m => mpi2bn m
  | .error e => .error e

/-! ### CScriptOp -/

/-- `CScriptOp.encode_op_pushdata` (`struct.pack('<H')` / `('<I')` are in range in their branches) -/
def encodeOpPushdata (d : Bytes) : Res Bytes :=
  let n := d.length
  if n < 0x4c then .ok (UInt8.ofNat n :: d)
  else if n ≤ 0xff then .ok (0x4c :: UInt8.ofNat n :: d)
  else if n ≤ 0xffff then .ok (0x4d :: (leBytes 2 n ++ d))
  else if n ≤ 0xffffffff then .ok (0x4e :: (leBytes 4 n ++ d))
  else .error .valueerr

/-- `CScriptOp.encode_op_n` -/
def encodeOpN (n : Int) : Res Nat :=
  if ¬ (0 ≤ n ∧ n ≤ 16) then .error .valueerr
  else if n = 0 then .ok 0x00
  else .ok (0x51 + n.toNat - 1)

/-- `CScriptOp.decode_op_n` -/
def decodeOpN (opc : Nat) : Res Nat :=
  if opc = 0x00 then .ok 0
  else if ¬ (opc = 0x00 ∨ (0x51 ≤ opc ∧ opc ≤ 0x60)) then .error .valueerr
  else .ok (opc - 0x51 + 1)

/-- `CScriptOp.is_small_int` -/
def isSmallInt (opc : Nat) : Bool := (0x51 ≤ opc ∧ opc ≤ 0x60) ∨ opc = 0

/-- `CScriptOp.__new__(n)` against an `_opcode_instances` list of `size` entries (entry i is the
    instance of value i): Python list indexing with negative indices counting from the end; outside
    −size..size−1 the IndexError handler runs `assert len(_opcode_instances) == n`, which passes for
    n = size only: that call appends the new instance and returns it.  Result: (value, new size). -/
def cscriptOpNewSt (size : Nat) (n : Int) : Res (Nat × Nat) :=
  if 0 ≤ n ∧ n < size then .ok (n.toNat, size)
  else if -(size : Int) ≤ n ∧ n < 0 then .ok ((n + size).toNat, size)
  else if n = size then .ok (size, size + 1)
  else .error assertionError

/-- `CScriptOp(n)` against the table as the module leaves it (256 entries).  Props/C08
    `opcode_lookup_in_table` shows that the two call sites never leave the table, so the table
    keeps its 256 entries in every run of the modelled functions. -/
def cscriptOpNew (n : Int) : Res Nat :=
  match cscriptOpNewSt 256 n with
  | .ok (v, _) => .ok v
  | .error e => .error e

/-- a sequence of `CScriptOp(n)` calls on a fresh module: the values returned (or the error of each call) -/
def cscriptOpNewSeq : Nat → List Int → List (Res Nat)
  | _, [] => []
  | size, n :: r =>
    match cscriptOpNewSt size n with
    | .ok (v, size') => .ok v :: cscriptOpNewSeq size' r
    | .error e => .error e :: cscriptOpNewSeq size r

/-! ### CScript construction -/

/-- `CScript.__coerce_instance`: `some` bytes for script elements; `none` = the element is returned
    unchanged because no `isinstance` branch applies and it is not bytes-like (str, None, float, …).
    bool is an int.  A bytes-like object of another type (memoryview, array) is also returned unchanged,
    and is then accepted as it is by `bytes.join` / `bytes.__add__`. -/
def coerceInstance : Token → Res (Option Bytes)
  | .op n => if n < 256 then .ok (some [UInt8.ofNat n]) else .error .valueerr   -- bytes([other])
  | .int z =>
      if 0 ≤ z ∧ z ≤ 16 then
        match encodeOpN z with
        | .ok o => .ok (some [UInt8.ofNat o])
        | .error e => .error e
      else if z = -1 then .ok (some [0x4f])
      else
        match bn2vch z with
        | .ok v => (encodeOpPushdata v).map some
        | .error e => .error e
  | .data d => (encodeOpPushdata d).map some
  | .bool b =>                               -- isinstance(True, int): 0 <= other <= 16
      match encodeOpN (if b then 1 else 0) with
      | .ok o => .ok (some [UInt8.ofNat o])
      | .error e => .error e
  | .buffer b => .ok (some b)                 -- returned unchanged; bytes-like, so join/+ splice it in raw
  | .other => .ok none

/-- `b''.join(gen)` first exhausts the generator (so every element is coerced, and the first
    coercion error propagates) … -/
def coerceAll : List Token → Res (List (Option Bytes))
  | [] => .ok []
  | t :: ts =>
    match coerceInstance t with
    | .error e => .error e
    | .ok a =>
      match coerceAll ts with
      | .error e => .error e
      | .ok r => .ok (a :: r)

/-- … and then concatenates, raising TypeError at the first item that is not bytes-like -/
def joinBytes : List (Option Bytes) → Res Bytes
  | [] => .ok []
  | none :: _ => .error (.py "TypeError")
  | some a :: r =>
    match joinBytes r with
    | .error e => .error e
    | .ok x => .ok (a ++ x)

/-- `CScript(iterable)`: `b''.join(coerce_iterable(value))` -/
def build (ts : List Token) : Res Bytes :=
  match coerceAll ts with
  | .error e => .error e
  | .ok l => joinBytes l

/-- `script + other`: coercion, then `bytes.__add__`, whose TypeError is re-raised as TypeError -/
def add (s : Bytes) (t : Token) : Res Bytes :=
  match coerceInstance t with
  | .ok (some a) => .ok (s ++ a)
  | .ok none => .error (.py "TypeError")
  | .error e => .error e

/-! ### cooked iteration -/

inductive CookErr
  | iter (e : IterErr)     -- CScriptInvalidError raised by raw_iter
  | py (e : Exc)           -- anything else
deriving DecidableEq, Repr

/-- body of the `for` loop of `CScript.__iter__` -/
def cookOp (o : RawOp) : Res Token :=
  if o.opcode = 0 then .ok (.int 0)
  else
    match o.data with
    | some d => .ok (.data d)
    | none =>
      if isSmallInt o.opcode then
        match decodeOpN o.opcode with
        | .ok v => .ok (.int (v : Int))
        | .error e => .error e
      else .ok (.op o.opcode)

/-- tokens yielded, then the error that ends the iteration (if any) -/
def cookedOps : List RawOp → Option IterErr → List Token × Option CookErr
  | [], e => ([], e.map .iter)
  | o :: r, e =>
    match cookOp o with
    | .ok t => let p := cookedOps r e; (t :: p.1, p.2)
    | .error x => ([], some (.py x))

def cooked (s : Bytes) : List Token × Option CookErr :=
  let p := rawIter s
  cookedOps p.1 p.2

/-! ### predicates -/

/-- `is_p2sh` (the `and` chain short-circuits, so no index is out of range) -/
def isP2sh (s : Bytes) : Bool :=
  s.length = 23 && s[0]? = some 0xa9 && s[1]? = some 0x14 && s[22]? = some 0x87

/-- one field of `struct.unpack('<bb', …)` -/
def signedByte (b : UInt8) : Int := if b.toNat < 128 then (b.toNat : Int) else (b.toNat : Int) - 256

/-- `is_witness_scriptpubkey` -/
def isWitnessScriptPubKey (s : Bytes) : Res Bool :=
  let size := s.length
  if size < 4 ∨ size > 42 then .ok false
  else
    match s with
    | h0 :: h1 :: _ =>
      match cscriptOpNew (signedByte h0) with
      | .error e => .error e
      | .ok opc =>
        if ¬ isSmallInt opc then .ok false
        else if signedByte h1 + 2 ≠ (size : Int) then .ok false
        else .ok true
    | _ => .error structError           -- unpack of fewer than 2 bytes

/-- `witness_version`: `next(iter(self))` -/
def witnessVersion (s : Bytes) : Res Token :=
  match cooked s with
  | (t :: _, _) => .ok t
  | ([], none) => .error (.py "StopIteration")
  | ([], some (.iter _)) => .error .invalidscript
  | ([], some (.py e)) => .error e

def isWitnessV0Keyhash (s : Bytes) : Bool := s.length = 22 && s.take 2 = [0x00, 0x14]
def isWitnessV0NestedKeyhash (s : Bytes) : Bool := s.length = 23 && s.take 3 = [0x16, 0x00, 0x14]
def isWitnessV0Scripthash (s : Bytes) : Bool := s.length = 34 && s.take 2 = [0x00, 0x20]
def isWitnessV0NestedScripthash (s : Bytes) : Bool := s.length = 35 && s.take 3 = [0x22, 0x00, 0x20]

/-- loop of `is_push_only`; the generator's error is only seen after all yielded ops -/
def pushOnlyLoop : List RawOp → Option IterErr → Bool
  | [], e => e.isNone
  | o :: r, e => if o.opcode > 0x60 then false else pushOnlyLoop r e

def isPushOnly (s : Bytes) : Bool :=
  let p := rawIter s
  pushOnlyLoop p.1 p.2

/-- `len(data)` where `data` may be None -/
def pyLen (d : Option Bytes) : Res Nat :=
  match d with
  | some x => .ok x.length
  | none => .error (.py "TypeError")

/-- `len(data) == 1 and data[0] <= 16` (short-circuit: `data[0]` is only read when it exists) -/
def lenOneSmall (d : Bytes) : Bool :=
  d.length = 1 && (match d with | x :: _ => decide (x.toNat ≤ 16) | [] => false)

/-- one pass of the `if/elif` chain of `has_canonical_pushes`: `some false` = `return False`,
    `none` = fall through to the next operation -/
def canonicalStep (o : RawOp) : Res (Option Bool) :=
  let op := o.opcode
  if op > 0x60 then .ok none
  else if op < 0x4c ∧ op > 0x00 then
    match o.data with
    | none => .error (.py "TypeError")
    | some d =>
      if lenOneSmall d then .ok (some false)
      else -- remaining elif conditions compare op with 0x4c/0x4d/0x4e: all false here
        .ok none
  else if op = 0x4c then
    match pyLen o.data with
    | .error e => .error e
    | .ok l => if l < 0x4c then .ok (some false) else .ok none
  else if op = 0x4d then
    match pyLen o.data with
    | .error e => .error e
    | .ok l => if l ≤ 0xff then .ok (some false) else .ok none
  else if op = 0x4e then
    match pyLen o.data with
    | .error e => .error e
    | .ok l => if l ≤ 0xffff then .ok (some false) else .ok none
  else .ok none

def canonicalLoop : List RawOp → Option IterErr → Res Bool
  | [], e => .ok e.isNone
  | o :: r, e =>
    match canonicalStep o with
    | .error x => .error x
    | .ok (some b) => .ok b
    | .ok none => canonicalLoop r e

def hasCanonicalPushes (s : Bytes) : Res Bool :=
  let p := rawIter s
  canonicalLoop p.1 p.2

/-- `is_unspendable` -/
def isUnspendable (s : Bytes) : Bool := s.length > 0 && s[0]? = some 0x6a

/-- `is_valid`: `list(self)` under `except CScriptInvalidError` -/
def isValid (s : Bytes) : Res Bool :=
  match (cooked s).2 with
  | none => .ok true
  | some (.iter _) => .ok false
  | some (.py e) => .error e

/-! ### GetSigOpCount (repaired: D2, D3) -/

/-- body of the `for` loop: the new value of `n` -/
def sigOpsStep (accurate : Bool) (n last opcode : Nat) : Res Nat :=
  if opcode = 0xac ∨ opcode = 0xad then .ok (n + 1)
  else if opcode = 0xae ∨ opcode = 0xaf then
    if accurate ∧ 0x51 ≤ last ∧ last ≤ 0x60 then
      match cscriptOpNew (last : Int) with          -- CScriptOp(lastOpcode)
      | .error e => .error e
      | .ok lo =>
        match decodeOpN lo with                     -- .decode_op_n()
        | .error e => .error e
        | .ok k => .ok (n + k)
    else .ok (n + 20)
  else .ok n

/-- the loop over the operations the generator yields; when the generator is exhausted or raises
    CScriptInvalidError (swallowed by the `except`), `n` is returned -/
def sigOpsLoop (accurate : Bool) : List RawOp → Nat → Nat → Res Nat
  | [], n, _ => .ok n
  | o :: r, n, last =>
    match sigOpsStep accurate n last o.opcode with
    | .error e => .error e
    | .ok n' => sigOpsLoop accurate r n' o.opcode

def getSigOpCount (s : Bytes) (accurate : Bool) : Res Nat :=
  sigOpsLoop accurate (rawIter s).1 0 0xff

end BtcVerif.Model.Script
