/-
  C01 — wire format.  `Model.Wire.*` mirrors bitcoin/core/serialize.py and the stream_(de)serialize
  methods of COutPoint, CTxIn, CTxOut, CScriptWitness, CTxInWitness, CTxWitness, CTransaction,
  CBlockHeader, CBlock (bitcoin/core/__init__.py, bitcoin/core/script.py).

  A stream is the list of bytes not yet consumed; `f.tell()/f.seek(pos)` around the marker/flag peek
  is modelled by re-parsing from the saved remainder.  Mathlib-free.
-/
import BtcVerif.Basic.Outcome
import BtcVerif.Basic.Tx

namespace BtcVerif.Model.Wire
open BtcVerif

def MAX_SIZE : Nat := 0x02000000

/-! ### struct.pack / struct.unpack -/

/-- `struct.pack('<B' | '<H' | '<I' | '<Q', n)`: `struct.error` outside `[0, 256^w)` -/
def packU (w : Nat) (n : Nat) : Res Bytes :=
  if n < 256 ^ w then .ok (leBytes w n) else .error structError

/-- `struct.pack('<i' | '<q', i)`: `struct.error` outside `[-2^(8w-1), 2^(8w-1))` -/
def packI (w : Nat) (i : Int) : Res Bytes :=
  if -(2 ^ (8 * w - 1) : Int) ≤ i ∧ i < (2 ^ (8 * w - 1) : Int) then .ok (leBytesInt w i)
  else .error structError

/-! ### serialisation -/

/-- `VarIntSerializer.stream_serialize` for a length/count (never negative) -/
def serVarInt (i : Nat) : Res Bytes :=
  if i < 0xfd then .ok [UInt8.ofNat i]
  else if i ≤ 0xffff then (packU 2 i).map (0xfd :: ·)
  else if i ≤ 0xffffffff then (packU 4 i).map (0xfe :: ·)
  else (packU 8 i).map (0xff :: ·)

/-- `VarIntSerializer.stream_serialize` on an arbitrary Python int: `if i < 0: raise ValueError`, then
    the four forms; from 2^64 on `struct.pack('<Q')` raises `struct.error` (inside `serVarInt`) -/
def serVarIntInt (i : Int) : Res Bytes :=
  if i < 0 then .error .valueerr else serVarInt i.toNat

/-- `BytesSerializer.stream_serialize` -/
def serBytes (b : Bytes) : Res Bytes := do
  let l ← serVarInt b.length
  pure (l ++ b)

/-- `VectorSerializer.stream_serialize` -/
def serVector {α} (ser : α → Res Bytes) (xs : List α) : Res Bytes := do
  let l ← serVarInt xs.length
  let body ← xs.mapM ser
  pure (l ++ body.flatten)

def serOutPoint (o : OutPoint) : Res Bytes := do
  if o.hash.length ≠ 32 then throw assertionError
  let n ← packU 4 o.n
  pure (o.hash ++ n)

def serTxIn (i : TxIn) : Res Bytes := do
  let o ← serOutPoint i.prevout
  let s ← serBytes i.scriptSig
  let q ← packU 4 i.nSequence
  pure (o ++ s ++ q)

def serTxOut (o : TxOut) : Res Bytes := do
  let v ← packI 8 o.nValue
  let s ← serBytes o.scriptPubKey
  pure (v ++ s)

/-- `CScriptWitness.stream_serialize` -/
def serWitStack (st : WitStack) : Res Bytes := serVector serBytes st

/-- `CTxWitness.stream_serialize`: the stacks one after the other, no count -/
def serWitness (w : List WitStack) : Res Bytes := do
  let body ← w.mapM serWitStack
  pure body.flatten

/-- `CTransaction.stream_serialize(f, include_witness)` -/
def serTx (t : Tx) (includeWitness : Bool := true) : Res Bytes := do
  let v ← packI 4 t.nVersion
  let body ←
    if includeWitness && !witIsNull t.wit then do
      if t.wit.length > t.vin.length then throw assertionError
      let vin ← serVector serTxIn t.vin
      let vout ← serVector serTxOut t.vout
      let w ← serWitness t.wit
      pure ([0x00, 0x01] ++ vin ++ vout ++ w)
    else do
      let vin ← serVector serTxIn t.vin
      let vout ← serVector serTxOut t.vout
      pure (vin ++ vout)
  let l ← packU 4 t.nLockTime
  pure (v ++ body ++ l)

def serHeader (h : Header) : Res Bytes := do
  let v ← packI 4 h.nVersion
  if h.hashPrevBlock.length ≠ 32 then throw assertionError
  if h.hashMerkleRoot.length ≠ 32 then throw assertionError
  let t ← packU 4 h.nTime
  let b ← packU 4 h.nBits
  let n ← packU 4 h.nNonce
  pure (v ++ h.hashPrevBlock ++ h.hashMerkleRoot ++ t ++ b ++ n)

def serBlock (b : Block) (includeWitness : Bool := true) : Res Bytes := do
  let h ← serHeader b.hdr
  let txs ← serVector (serTx · includeWitness) b.vtx
  pure (h ++ txs)

/-! ### deserialisation -/

abbrev Parser (α : Type) := Bytes → Res (α × Bytes)

/-- `ser_read(f, n)` -/
def serRead (n : Nat) : Parser Bytes := fun s =>
  if n > MAX_SIZE then .error .sererr
  else if s.length < n then .error .trunc
  else .ok (s.take n, s.drop n)

/-- compiled form of `serRead`: looks at the first `n` bytes only (the definition above measures the
    whole remaining stream, which makes the executable parser quadratic) -/
def serReadFast (n : Nat) : Parser Bytes := fun s =>
  if n > MAX_SIZE then .error .sererr
  else
    let h := s.take n
    if h.length < n then .error .trunc else .ok (h, s.drop n)

@[csimp] theorem serRead_eq_serReadFast : @serRead = @serReadFast := by
  funext n s
  simp only [serRead, serReadFast, List.length_take]
  by_cases h : s.length < n
  · have : min n s.length < n := by omega
    simp [h, this]
  · have : ¬ min n s.length < n := by omega
    simp [h, this]

def readU (w : Nat) : Parser Nat := fun s => do
  let (b, r) ← serRead w s
  pure (leNat b, r)

def readI (w : Nat) : Parser Int := fun s => do
  let (b, r) ← serRead w s
  pure (leInt b, r)

/-- `VarIntSerializer.stream_deserialize` (non-canonical encodings are accepted, as in the code) -/
def deVarInt : Parser Nat := fun s => do
  let (b, r) ← serRead 1 s
  let x := leNat b
  if x < 0xfd then pure (x, r)
  else if x = 0xfd then readU 2 r
  else if x = 0xfe then readU 4 r
  else readU 8 r

def deBytes : Parser Bytes := fun s => do
  let (l, r) ← deVarInt s
  serRead l r

/-- `for i in range(n): r.append(inner.stream_deserialize(f))` -/
def deRepeat {α} (p : Parser α) : Nat → Parser (List α)
  | 0, s => .ok ([], s)
  | n + 1, s => do
      let (x, r) ← p s
      let (xs, r') ← deRepeat p n r
      pure (x :: xs, r')

def deVector {α} (p : Parser α) : Parser (List α) := fun s => do
  let (n, r) ← deVarInt s
  deRepeat p n r

def deOutPoint : Parser OutPoint := fun s => do
  let (h, r) ← serRead 32 s
  let (n, r) ← readU 4 r
  pure ({ hash := h, n := n }, r)

def deTxIn : Parser TxIn := fun s => do
  let (o, r) ← deOutPoint s
  let (sc, r) ← deBytes r
  let (q, r) ← readU 4 r
  pure ({ prevout := o, scriptSig := sc, nSequence := q }, r)

def deTxOut : Parser TxOut := fun s => do
  let (v, r) ← readI 8 s
  let (sc, r) ← deBytes r
  pure ({ nValue := v, scriptPubKey := sc }, r)

def deWitStack : Parser WitStack := deVector deBytes

/-- `CTransaction.stream_deserialize` -/
def deTx : Parser Tx := fun s => do
  let (ver, r0) ← readI 4 s
  -- pos = f.tell(); marker; flag
  let (marker, r1) ← readU 1 r0
  let (flag, r2) ← readU 1 r1
  if marker = 0 ∧ flag = 1 then do
    let (vin, r) ← deVector deTxIn r2
    let (vout, r) ← deVector deTxOut r
    let (wit, r) ← deRepeat deWitStack vin.length r
    let (lock, r) ← readU 4 r
    pure ({ nVersion := ver, vin := vin, vout := vout, wit := wit, nLockTime := lock }, r)
  else do
    -- f.seek(pos)
    let (vin, r) ← deVector deTxIn r0
    let (vout, r) ← deVector deTxOut r
    let (lock, r) ← readU 4 r
    pure ({ nVersion := ver, vin := vin, vout := vout, wit := [], nLockTime := lock }, r)

def deHeader : Parser Header := fun s => do
  let (v, r) ← readI 4 s
  let (hp, r) ← serRead 32 r
  let (hm, r) ← serRead 32 r
  let (t, r) ← readU 4 r
  let (b, r) ← readU 4 r
  let (n, r) ← readU 4 r
  pure ({ nVersion := v, hashPrevBlock := hp, hashMerkleRoot := hm, nTime := t, nBits := b, nNonce := n }, r)

/-- `CBlock.stream_deserialize`.  After the two reads the Python code also runs
    `build_merkle_tree_from_txs(vtx)` and `build_witness_merkle_tree_from_txs(vtx)` to fill
    `vMerkleTree` / `vWitnessMerkleTree` (bitcoin/core/__init__.py:670-676).  On freshly parsed
    transactions neither can raise (every `GetTxid`/`GetHash` serialises values that were just read
    in range; `NoWitnessData` is caught; an empty `vtx` yields an empty tree), and the trees are not
    part of the serialised state, so no outcome of this parser depends on them (C15 models them). -/
def deBlock : Parser Block := fun s => do
  let (h, r) ← deHeader s
  let (vtx, r) ← deVector deTx r
  pure ({ hdr := h, vtx := vtx }, r)

/-- outcome of `Serializable.deserialize(buf, allow_padding)` -/
inductive DeResult (α : Type)
  | ok (obj : α)
  | extra (obj : α) (padding : Bytes)     -- DeserializationExtraDataError(obj, padding)
  | err (e : Exc)
deriving Repr

def deserialize {α} (p : Parser α) (buf : Bytes) (allowPadding : Bool := false) : DeResult α :=
  match p buf with
  | .error e => .err e
  | .ok (obj, rest) =>
      if !allowPadding && rest.length ≠ 0 then .extra obj rest else .ok obj

end BtcVerif.Model.Wire
