/-
  C19 — `Model.Rpc.*` mirrors what bitcoin/rpc.py (and x/lx/b2lx of bitcoin/core/__init__.py) do with
  the data that crosses the JSON-RPC boundary:

  (i)   amounts received: the JSON scanner's number rule, `int(text)` / `decimal.Decimal(text)`
        (`parse_float=decimal.Decimal`), `r * COIN` in the default decimal context (28 significant
        digits, ROUND_HALF_EVEN, Emax 999999, Overflow trapped) and `int()` truncation;
  (ii)  `lx` / `b2lx` / `unhexlify_str` / `hexlify_str`;
  (iii) `_call`'s reply decision tree with `JSONRPCError.__new__`'s dispatch on the code, and the
        documented IndexError conversion of five Proxy methods;
  (iv)  the request id counter.

  CPython's `json`, `decimal` and `binascii` are modelled, not verified (DESIGN §4).  Mathlib-free.
-/
import BtcVerif.Basic.Outcome
import BtcVerif.Spec.Rpc

namespace BtcVerif.Model.Rpc
open BtcVerif
open BtcVerif.Spec.Rpc (NumText isDigit digitsVal COIN)

/-! ### (i) amounts received -/

/-- `\d+` at the head of `s`: the digits and the rest; `none` when there is no digit -/
def takeDigits (s : List Char) : Option (List Char × List Char) :=
  let ds := s.takeWhile isDigit
  if ds = [] then none else some (ds, s.dropWhile isDigit)

/-- `-?` -/
def scanSign : List Char → Bool × List Char
  | c :: r => if c = '-' then (true, r) else (false, c :: r)
  | [] => (false, [])

/-- `(?:0|[1-9]\d*)`: after a leading zero the integer part ends -/
def scanInt (s : List Char) : Option (List Char × List Char) :=
  match takeDigits s with
  | none => none
  | some (ds, r) =>
      if ds.head? = some '0' ∧ 1 < ds.length then some (['0'], ds.tail ++ r) else some (ds, r)

/-- `(\.\d+)?` -/
def scanFrac : List Char → Option (List Char) × List Char
  | c :: r =>
      if c = '.' then
        (match takeDigits r with
         | some (f, r') => (some f, r')
         | none => (none, c :: r))
      else (none, c :: r)
  | [] => (none, [])

/-- `[-+]?` -/
def scanExpSign : List Char → Option Char × List Char
  | c :: r => if c = '+' then (some '+', r) else if c = '-' then (some '-', r) else (none, c :: r)
  | [] => (none, [])

/-- `([eE][-+]?\d+)?` -/
def scanExp : List Char → Option (Char × Option Char × List Char) × List Char
  | m :: r =>
      if m = 'e' ∨ m = 'E' then
        (match takeDigits (scanExpSign r).2 with
         | some (ds, r'') => (some (m, (scanExpSign r).1, ds), r'')
         | none => (none, m :: r))
      else (none, m :: r)
  | [] => (none, [])

/-- json.scanner `NUMBER_RE = (-?(?:0|[1-9]\d*))(\.\d+)?([eE][-+]?\d+)?` applied to the whole text
    (the text is the complete value of a JSON member, so anything left over makes the body non-JSON) -/
def scanNumber (s : List Char) : Option NumText :=
  match scanInt (scanSign s).2 with
  | none => none
  | some (intDigits, s2) =>
      if (scanExp (scanFrac s2).2).2 = [] then
        some { neg := (scanSign s).1, intDigits := intDigits, frac := (scanFrac s2).1,
               exp := (scanExp (scanFrac s2).2).1 }
      else none

/-- number of decimal digits (`len(str(n))`) -/
def ndigits (n : Nat) : Nat := if n < 10 then 1 else ndigits (n / 10) + 1

def PREC : Nat := 28
def EMAX : Int := 999999

def overflow : Exc := .py "Overflow"

/-- `Decimal._fix` for a finite non-negative coefficient in the default context: round to `PREC`
    significant digits half-even, with the Overflow trap.  (Subnormal results — below 10^-999999 —
    are not distinguished: their integer part is 0 either way.) -/
def fix (c : Nat) (e : Int) : Res (Nat × Int) :=
  if c = 0 then .ok (0, e)
  else
    let n := ndigits c
    if e + n - 1 > EMAX then .error overflow
    else if n ≤ PREC then .ok (c, e)
    else
      let d := n - PREC
      let q := c / 10 ^ d
      let r := c % 10 ^ d
      let half := 5 * 10 ^ (d - 1)
      let q' := if r > half ∨ (r = half ∧ q % 2 = 1) then q + 1 else q
      let (q'', e'') := if ndigits q' > PREC then (q' / 10, e + d + 1) else (q', e + d)
      if e'' + PREC - 1 > EMAX then .error overflow else .ok (q'', e'')

/-- `int(Decimal)` of `c · 10^e` for `c > 0`: truncation -/
def truncDecNZ (c : Nat) (e : Int) : Nat :=
  if 0 ≤ e then c * 10 ^ e.toNat
  else if ndigits c ≤ (-e).toNat then 0          -- c < 10^(-e)
  else c / 10 ^ (-e).toNat

/-- `int(Decimal)` of `c · 10^e`, `c ≥ 0` (a zero coefficient is 0 whatever the exponent) -/
def truncDec (c : Nat) (e : Int) : Nat := if c = 0 then 0 else truncDecNZ c e

def applySign (neg : Bool) (n : Nat) : Int := if neg then -(n : Int) else (n : Int)

/-- `sys.get_int_max_str_digits()`: `int(text)` refuses longer digit strings with ValueError -/
def INT_MAX_STR_DIGITS : Nat := 4300
/-- `decimal.MAX_EMAX` / `decimal.MIN_ETINY`: `Decimal(text)` signals InvalidOperation beyond them -/
def MAX_EMAX : Int := 999999999999999999
def MIN_ETINY : Int := -1999999999999999997

/-- the numeral is within CPython's size limits for `int(text)` / `Decimal(text)` -/
def InLimits (t : NumText) : Prop :=
  t.intDigits.length ≤ INT_MAX_STR_DIGITS ∧ MIN_ETINY ≤ t.expo ∧ t.expo + ndigits t.coeff - 1 ≤ MAX_EMAX

instance (t : NumText) : Decidable (InLimits t) := by unfold InLimits; exact inferInstance

/-- `int(r * COIN)` where `r` is what `json.loads(…, parse_float=decimal.Decimal)` made of the text.
    Numerals beyond CPython's limits make `json.loads` itself raise (ValueError from `int`,
    decimal.InvalidOperation from `Decimal`); `_get_response` turns that into JSONRPCError(-342). -/
def amountInNum (t : NumText) : Res Int :=
  if t.frac = none ∧ t.exp = none then
    if t.intDigits.length > INT_MAX_STR_DIGITS then .error .rpcerr
    -- a Python int: exact
    else .ok (applySign t.neg (digitsVal t.intDigits * COIN))
  else if t.expo + ndigits t.coeff - 1 > MAX_EMAX ∨ t.expo < MIN_ETINY then .error .rpcerr
  else do
    -- Decimal(text) is exact; Decimal * int converts COIN exactly, multiplies, then rounds (`_fix`)
    let (c, e) ← fix (t.coeff * COIN) t.expo
    pure (applySign t.neg (truncDec c e))

/-- `none`: the text is not a JSON number -/
def amountIn (text : List Char) : Option (Res Int) := (scanNumber text).map amountInNum

/-- what can stand where an amount is expected in a reply (strings and containers aside) -/
inductive AmountVal
  | num (text : List Char)
  | nan                       -- `NaN` (json's parse_constant): float('nan')
  | inf (neg : Bool)          -- `Infinity`, `-Infinity`
  | null
  | bool (b : Bool)
deriving DecidableEq, Repr

/-- `int(v * COIN)` for each of them; the exceptions are what CPython raises, not JSONRPCError -/
def amountOfVal : AmountVal → Option (Res Int)
  | .num t => amountIn t
  | .nan => some (.error .valueerr)                    -- int(nan): ValueError
  | .inf _ => some (.error (.py "OverflowError"))      -- int(±inf): OverflowError
  | .null => some (.error (.py "TypeError"))           -- None * int
  | .bool b => some (.ok (if b then (COIN : Int) else 0))   -- True * COIN

/-! ### (i') amounts sent: the satoshis an emitted JSON number text denotes, exactly -/

/-- `k` with `text = k / 10^8` exactly (`Spec.Rpc.denotesSat`), `none` when the text is no number or
    denotes no whole number of satoshis.  This is what the check applies to the text the proxy puts
    into the request body. -/
def satoshisDenoted (text : List Char) : Option Int :=
  match scanNumber text with
  | none => none
  | some t =>
      if 0 ≤ t.expo + 8 then some (applySign t.neg (t.coeff * 10 ^ (t.expo + 8).toNat))
      else if t.coeff % 10 ^ (-(t.expo + 8)).toNat = 0 then
        some (applySign t.neg (t.coeff / 10 ^ (-(t.expo + 8)).toNat))
      else none

/-! ### (ii) hashes and hex transport -/

def binasciiError : Exc := .py "Error"

/-- `binascii.unhexlify(h.encode(...))` (`x`, `unhexlify_str`) -/
def unhexlify (s : String) : Res Bytes :=
  match ofHex? s with
  | some b => .ok b
  | none => .error binasciiError

/-- `binascii.hexlify(b).decode(...)` (`b2x`, `hexlify_str`) -/
def hexlify (b : Bytes) : String := toHex b

/-- `lx`: `unhexlify(h)[::-1]` -/
def lx (s : String) : Res Bytes := (unhexlify s).map List.reverse

/-- `b2lx`: `hexlify(b[::-1])` -/
def b2lx (b : Bytes) : String := hexlify b.reverse

/-! ### (iii) replies -/

/-- the `code` member of an error object, as far as `dict.get` can tell values apart -/
inductive CodeVal
  | absent
  | int (n : Int)
  | dec (neg : Bool) (c : Nat) (e : Int)      -- a JSON real: decimal.Decimal
  | bool (b : Bool)
  | null
  | str
  | float                                      -- `NaN`, `Infinity`, `-Infinity`: Python floats
  | unhashable                                 -- a JSON array or object
deriving DecidableEq, Repr

/-- the `error` member of the reply object -/
inductive ErrVal
  | absent
  | null
  | dict (code : CodeVal)
  | other                                      -- string, number, list, true, false
deriving DecidableEq, Repr

inductive Reply
  | noResponse                                 -- `getresponse()` returned None
  | nonJson                                    -- the body does not parse
  | nonUtf8                                    -- the body is not UTF-8: `.decode('utf8')` sits outside the `try`
  | nonObject                                  -- valid JSON, but an array, number, string, null, true/false
  | obj (err : ErrVal) (result : Option String)
deriving DecidableEq, Repr

inductive Outcome
  | result (v : String)
  | raise (cls : String) (code : String)       -- JSONRPCError (sub)class and `ex.error['code']`
  | pyExc (cls : String)                       -- a non-RPC exception escapes: the wrappers' documented
                                               -- IndexError, or CPython's own (AttributeError, UnicodeDecodeError)
deriving DecidableEq, Repr

/-- the dictionary key a code value hashes/compares equal to (`True == 1`, `Decimal('-5.0') == -5`) -/
def CodeVal.key : CodeVal → Option Int
  | .absent => some (-345)                     -- `err.get('code', -345)`
  | .int n => some n
  | .dec neg c e =>
      if 0 ≤ e then some (applySign neg (c * 10 ^ e.toNat))
      else if c % 10 ^ (-e).toNat = 0 then some (applySign neg (c / 10 ^ (-e).toNat))
      else none
  | .bool b => some (if b then 1 else 0)
  | .null => none
  | .str => none
  | .float => none                             -- nan is equal to nothing, ±inf to no int
  | .unhashable => none                        -- no registered code is a list or a dict (D19: the shipped
                                               -- `dict.get` raises TypeError here instead)

def CodeVal.show : CodeVal → String
  | .absent => "-345"
  | .int n => toString n
  | .dec .. => "dec"
  | .bool b => if b then "true" else "false"
  | .null => "null"
  | .str => "str"
  | .float => "float"
  | .unhashable => "unhashable"

/-- `JSONRPCError.SUBCLS_BY_CODE.get(rpc_error['code'], JSONRPCError)` -/
def classFor (c : CodeVal) : String :=
  match c.key with
  | some n => Spec.Rpc.classOf n
  | none => Spec.Rpc.baseClass

/-- `BaseProxy._call` after the request was sent -/
def callOutcome : Reply → Outcome
  | .noResponse => .raise (Spec.Rpc.classOf (-342)) "-342"
  | .nonJson => .raise (Spec.Rpc.classOf (-342)) "-342"
  | .nonUtf8 => .pyExc "UnicodeDecodeError"       -- `http_response.read().decode('utf8')`
  | .nonObject => .pyExc "AttributeError"          -- `response.get('error')` on a list/int/str/None
  | .obj (.dict code) _ => .raise (classFor code) code.show
  | .obj .other _ => .raise (Spec.Rpc.classOf (-344)) "-344"
  | .obj _ none => .raise (Spec.Rpc.classOf (-343)) "-343"
  | .obj _ (some v) => .result v

/-- the exception class a Proxy wrapper converts into IndexError (as its docstring says) -/
def wrapperCatches (method : String) : Option String :=
  if method = "getblockhash" then some "InvalidParameterError"
  else if method = "getblock" ∨ method = "getblockheader" ∨ method = "getrawtransaction" ∨
      method = "gettransaction" then some "InvalidAddressOrKeyError"
  else none

/-- a Proxy method up to the point where it would start converting the result.  `"@null"` is the
    line protocol's text for a JSON `null` result; `gettxout` turns it into its documented IndexError
    ("outpoint not found or spent").  Other conversions of results are not modelled here (amounts: (i),
    hashes: (ii)). -/
def methodOutcome (method : String) (r : Reply) : Outcome :=
  match callOutcome r with
  | .raise cls code => if wrapperCatches method = some cls then .pyExc "IndexError" else .raise cls code
  | .result v => if method = "gettxout" ∧ v = "@null" then .pyExc "IndexError" else .result v
  | o => o

/-! ### (iv) request ids -/

structure PState where
  idCount : Nat
deriving DecidableEq, Repr

def PState.init : PState := { idCount := 0 }

/-- what happens to a `_call` after the id was taken -/
inductive Fate
  | replied (r : Reply)       -- any reply at all, including none / garbage
  | connectionError           -- `request()` or `getresponse()` of the connection raises
deriving DecidableEq, Repr

inductive Req
  | call (f : Fate)           -- `_call`, whatever becomes of it
  | batch                     -- `_batch`: ids are the caller's business
deriving DecidableEq, Repr

/-- the state after the request and the id put into the request body by the proxy: `self.__id_count += 1`
    is the first statement of `_call`, before anything can fail -/
def stepReq (s : PState) : Req → PState × Option Nat
  | .call _ => ({ idCount := s.idCount + 1 }, some (s.idCount + 1))
  | .batch => (s, none)

/-- the ids sent over a history of requests -/
def idsSent (s : PState) : List Req → List Nat
  | [] => []
  | r :: rs =>
      let (s', i) := stepReq s r
      (match i with | some n => [n] | none => []) ++ idsSent s' rs

end BtcVerif.Model.Rpc
