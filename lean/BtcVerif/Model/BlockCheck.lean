/-
  C16 — mirror of bitcoin/core/__init__.py: MoneyRange, CheckTransaction, CheckBlockHeader,
  GetLegacySigOpCount, CBlock.get_witness_commitment_index, CheckBlock (with the repairs of D10,
  D11, D12: the per-transaction loop covers the coinbase, the coinbase witness is tested before it
  is indexed, the commitment script has no upper length bound) and of
  bitcoin/core/script.py CScript.GetSigOpCount(False) (repaired D3: counts up to the first
  malformed push).

  Outcomes: `.ok ()` accept, `.error .validation` for every `raise Check…Error`, and an explicit
  `.error (.py …)` wherever the Python evaluates an index / assert / struct.pack that could raise.
  Mathlib-free.
-/
import BtcVerif.Model.Merkle
import BtcVerif.Model.Compact
import BtcVerif.Model.ScriptIter
import BtcVerif.Spec.Chain
import BtcVerif.Spec.Limits

namespace BtcVerif.Model.BlockCheck
open BtcVerif BtcVerif.Crypto BtcVerif.Model.Wire BtcVerif.Model.Merkle BtcVerif.Spec

def reject : Res Unit := .error .validation

/-- `MoneyRange(nValue)` under the selected chain -/
def moneyRange (p : ChainParams) (v : Int) : Bool := decide (0 ≤ v ∧ v ≤ (p.maxMoney : Int))

/-- the `for txout in tx.vout` loop of CheckTransaction with running total `acc` -/
def valueLoop (p : ChainParams) : List TxOut → Int → Res Unit
  | [], _ => .ok ()
  | o :: rest, acc =>
    if o.nValue < 0 then reject
    else if o.nValue > (p.maxMoney : Int) then reject
    else if !moneyRange p (acc + o.nValue) then reject
    else valueLoop p rest (acc + o.nValue)

/-- the duplicate-input loop: `vin_outpoints` is a set of COutPoint, whose `__hash__`/`__eq__`
    are those of the serialisation -/
def dupLoop : List TxIn → List Bytes → Res Unit
  | [], _ => .ok ()
  | i :: rest, seen =>
    match serOutPoint i.prevout with
    | .error e => .error e
    | .ok k => if k ∈ seen then reject else dupLoop rest (k :: seen)

/-- `for txin in tx.vin: if txin.prevout.is_null(): raise` -/
def nullLoop : List TxIn → Res Unit
  | [] => .ok ()
  | i :: rest => if i.prevout.isNull then reject else nullLoop rest

/-- `CheckTransaction` -/
def checkTx (p : ChainParams) (t : Tx) : Res Unit :=
  if t.vin.length = 0 then reject
  else if t.vout.length = 0 then reject
  else if !ctorValid t then .error .valueerr       -- base_tx = CTransaction(vin, vout, nLockTime, nVersion)
  else
    -- len(base_tx.serialize())
    match serTx t.strip with
    | .error e => .error e
    | .ok base =>
      if base.length > maxBlockSize then reject
      else
        match valueLoop p t.vout 0 with
        | .error e => .error e
        | .ok () =>
          match dupLoop t.vin [] with
          | .error e => .error e
          | .ok () =>
            if t.isCoinbase then
              -- `tx.vin[0].scriptSig`
              match t.vin[0]? with
              | none => .error indexError
              | some i =>
                if ¬ (2 ≤ i.scriptSig.length ∧ i.scriptSig.length ≤ 100) then reject else .ok ()
            else nullLoop t.vin

/-- `CheckProofOfWork` (C17's model) as an outcome of this vocabulary -/
def checkPoW (p : ChainParams) (hash : Bytes) (nBits : Nat) : Res Unit :=
  match Model.checkPoW p.powLimit hash nBits with
  | .ok => .ok ()
  | .errPow => reject
  | .pyStructError => .error structError   -- hash shorter than 32 bytes: dead for a header digest

/-- `CheckBlockHeader(block_header, fCheckPoW, cur_time)` with `cur_time` given -/
def checkBlockHeader (p : ChainParams) (h : Header) (fPoW : Bool) (curTime : Int) : Res Unit :=
  let pow : Res Unit :=
    if fPoW then
      -- block_header.GetHash()
      match serHeader h with
      | .error e => .error e
      | .ok ser => checkPoW p (hash256 ser) h.nBits
    else .ok ()
  match pow with
  | .error e => .error e
  | .ok () => if (h.nTime : Int) > curTime + 2 * 60 * 60 then reject else .ok ()

/-- `CScript.GetSigOpCount(False)`: one per CHECKSIG(VERIFY), 20 per CHECKMULTISIG(VERIFY), over the
    operations `raw_iter` yields before it stops -/
def sigOpCount (script : Bytes) : Nat :=
  ((Model.Script.rawIter script).1.map (fun o =>
    if o.opcode = 0xac ∨ o.opcode = 0xad then 1
    else if o.opcode = 0xae ∨ o.opcode = 0xaf then 20 else 0)).sum

/-- `GetLegacySigOpCount` -/
def legacySigOpCount (t : Tx) : Nat :=
  (t.vin.map (fun i => sigOpCount i.scriptSig)).sum + (t.vout.map (fun o => sigOpCount o.scriptPubKey)).sum

/-- the `for index, out in enumerate(vout)` loop of get_witness_commitment_index -/
def commitLoop : List TxOut → Nat → Option Nat → Option Nat
  | [], _, pos => pos
  | o :: rest, idx, pos =>
    if decide (o.scriptPubKey.length ≥ 38) && (o.scriptPubKey.take 6 == witnessCommitMagic) then
      commitLoop rest (idx + 1) (some idx)
    else commitLoop rest (idx + 1) pos

/-- `CBlock.get_witness_commitment_index` (ValueError when there is none) -/
def witnessCommitmentIndex (vtx : List Tx) : Res Nat :=
  if vtx.length = 0 then .error .valueerr
  else
    match vtx[0]? with
    | none => .error indexError
    | some cb =>
      match commitLoop cb.vout 0 none with
      | none => .error .valueerr
      | some i => .ok i

/-- the per-transaction loop of CheckBlock: `i` position, `seen` the txid set, `nSigOps` -/
def txLoop (p : ChainParams) : List Tx → Nat → List Bytes → Nat → Res Unit
  | [], _, _, _ => .ok ()
  | t :: rest, i, seen, nSigOps =>
    if decide (i > 0) && t.isCoinbase then reject
    else
      match checkTx p t with
      | .error e => .error e
      | .ok () =>
        match getTxid t with
        | .error e => .error e
        | .ok txid =>
          if txid ∈ seen then reject
          else if nSigOps + legacySigOpCount t > maxBlockSigops then reject
          else txLoop p rest (i + 1) (txid :: seen) (nSigOps + legacySigOpCount t)

/-- the witness-commitment part of CheckBlock, entered when `vWitnessMerkleTree` is non-empty -/
def checkCommitment (vtx : List Tx) (wtree : List Bytes) : Res Unit :=
  -- root = block.vWitnessMerkleTree[-1]
  match lastOf wtree with
  | .error e => .error e
  | .ok root =>
    match vtx[0]? with
    | none => .error indexError
    | some cb =>
      -- repaired D11: `len(vtxinwit) < 1 or len(stack) != 1` is tested before indexing
      match cb.wit[0]? with
      | none => reject
      | some stack =>
        if stack.length ≠ 1 then reject
        else
          match stack[0]? with
          | none => .error indexError
          | some nonce =>
            if nonce.length ≠ 32 then reject
            else
              match witnessCommitmentIndex vtx with
              | .error .valueerr => reject            -- `except ValueError` → CheckBlockError
              | .error e => .error e
              | .ok index =>
                match cb.vout[index]? with
                | none => .error indexError
                | some out =>
                  let script := out.scriptPubKey
                  -- repaired D12: `if not (6 + 32 <= len(commit_script))`
                  if ¬ (6 + 32 ≤ script.length) then reject
                  else if (script.drop 6).take 32 ≠ hash256 (root ++ nonce) then reject
                  else .ok ()

/-- `block.get_header()`: CBlockHeader.__init__ asserts the two hash lengths -/
def getHeader (h : Header) : Res Header :=
  if h.hashPrevBlock.length ≠ 32 then .error assertionError
  else if h.hashMerkleRoot.length ≠ 32 then .error assertionError
  else .ok h

/-- `CheckBlock(block, fCheckPoW, fCheckMerkleRoot, cur_time)` with the per-transaction loop as a
    parameter.  `block.vWitnessMerkleTree` is what the constructor computed from the (immutable)
    `vtx`, i.e. `buildWitnessTree b.vtx`. -/
def checkBlockWith (loop : List Tx → Res Unit) (p : ChainParams) (b : Block) (fPoW fMerkle : Bool)
    (curTime : Int) : Res Unit :=
  match getHeader b.hdr with
  | .error e => .error e
  | .ok hdr =>
  match checkBlockHeader p hdr fPoW curTime with
  | .error e => .error e
  | .ok () =>
  if b.vtx.length = 0 then reject
  else
  match serBlock b false with
  | .error e => .error e
  | .ok stripped =>
  if stripped.length > maxBlockSize then reject
  else
  match getWeight b with
  | .error e => .error e
  | .ok weight =>
  if weight > maxBlockWeight then reject
  else
  match b.vtx[0]? with
  | none => .error indexError
  | some cb =>
  if !cb.isCoinbase then reject
  else
  match loop b.vtx with
  | .error e => .error e
  | .ok () =>
  if fMerkle then
    match calcMerkleRoot b.vtx with
    | .error e => .error e
    | .ok root =>
    if b.hdr.hashMerkleRoot ≠ root then reject
    else
    match buildWitnessTree b.vtx with
    | .error e => .error e
    | .ok wt =>
    -- `except NoWitnessData: vWitnessMerkleTree = ()`; `if len(block.vWitnessMerkleTree):`
    let wtree := wt.getD []
    if wtree.length ≠ 0 then checkCommitment b.vtx wtree else .ok ()
  else .ok ()

/-- `CheckBlock`: the loop runs over every transaction, the coinbase included (repaired D10) -/
def checkBlock (p : ChainParams) (b : Block) (fPoW fMerkle : Bool) (curTime : Int) : Res Unit :=
  checkBlockWith (fun vtx => txLoop p vtx 0 [] 0) p b fPoW fMerkle curTime

end BtcVerif.Model.BlockCheck
